package main

// C16 — header queries agree with what a full decode returns.
//
// Files: webp.Encode outputs (all modes), animation-encoder and muxer outputs, and
// hand-assembled containers from a grammar-directed generator over chunk lists (VP8X
// with/without ALPH, empty or odd chunks, unknown chunks, metadata before/after the
// image, flags over-/under-stating the optional chunks, VP8X payload > 10 bytes, canvas
// different from the image).  Observables: webp.DecodeConfig, GetFeatures, Decode,
// image.Decode / image.DecodeConfig (format name), mux.NewDemuxer accessors and
// animation.DecodeBytes, compared with one another (direct evaluation) and with the
// extracted Coq models of the parser and of the webp.go glue (correspondence).

import (
	"bytes"
	"encoding/binary"
	"fmt"
	"image"
	"image/color"
	"strings"
	"time"

	webp "github.com/deepteams/webp"
	"github.com/deepteams/webp/animation"
	"github.com/deepteams/webp/mux"

	. "verifharness/hlib"
)

type c16File struct {
	Kind     string
	Data     []byte
	WF       bool // well-formed in the property's sense (headers mutually consistent)
	Ours     bool // written by this package (alpha-flag clause applies)
	Animated bool
}

// parts harvested from real encoder outputs, used as payloads of hand-assembled files
type c16Parts struct {
	W, H            int
	VP8             []byte // lossy bitstream of an opaque picture
	VP8A, ALPH      []byte // lossy bitstream + alpha plane payload of a translucent picture
	VP8L, VP8LAlpha []byte // lossless streams (alpha bit set by the encoder in both)
	VP8LNoBit       []byte // opaque lossless stream with the alpha_is_used bit cleared
}

func harvest(c *Ctx, rng *Rand, w, h int) (c16Parts, bool) {
	p := c16Parts{W: w, H: h}
	opaque := testImage(rng, w, h, 0, 30)
	graded := testImage(rng, w, h, 2, 30)
	var err error
	o := webp.DefaultOptions()
	if p.VP8, _, _, err = webp.VerifRiffEncodeParts(opaque, o); err != nil {
		return p, false
	}
	o.AlphaCompression = rng.Intn(2)
	if p.VP8A, p.ALPH, _, err = webp.VerifRiffEncodeParts(graded, o); err != nil || len(p.ALPH) == 0 {
		return p, false
	}
	ol := webp.DefaultOptions()
	ol.Lossless = true
	if p.VP8L, _, _, err = webp.VerifRiffEncodeParts(opaque, ol); err != nil {
		return p, false
	}
	if p.VP8LAlpha, _, _, err = webp.VerifRiffEncodeParts(graded, ol); err != nil {
		return p, false
	}
	p.VP8LNoBit = append([]byte(nil), p.VP8L...)
	p.VP8LNoBit[4] &^= 0x10
	return p, true
}

// one hand-assembled still
type c16Plan struct {
	Image                   string // "VP8", "VP8A" (VP8 + ALPH), "VP8L", "VP8LAlpha", "VP8LNoBit"
	AlphKind                int    // 0 none, 1 real, 2 zero-length, 3 one garbage byte (odd), 4 real but after the image is absent -> n/a
	ICC, EXIF, XMP          []byte
	HasICC, HasEXIF, HasXMP bool
	FlagMode                int // 0 exact, 1 overstate everything, 2 understate everything, 3 random
	MetaOrder               int // 0 spec order, 1 EXIF/XMP before the image, 2 ICCP after the image
	Unknown                 int // 0 none, 1 before image, 2 after image, 3 both (odd-sized payload)
	VP8XSize                int // 10 normal, 12 oversize
	CanvasMode              int // 0 = image size, 1 larger, 2 smaller
	DupALPH                 bool
}

func (pl *c16Plan) build(p *c16Parts, rng *Rand) (data []byte, wf bool) {
	var img []byte
	imgID := "VP8 "
	lossless := false
	bitAlpha := false
	switch pl.Image {
	case "VP8":
		img = p.VP8
	case "VP8A":
		img = p.VP8A
	case "VP8L":
		img, imgID, lossless, bitAlpha = p.VP8L, "VP8L", true, true
	case "VP8LAlpha":
		img, imgID, lossless, bitAlpha = p.VP8LAlpha, "VP8L", true, true
	case "VP8LNoBit":
		img, imgID, lossless = p.VP8LNoBit, "VP8L", true
	}
	var alph []byte
	alphPresent := false
	switch pl.AlphKind {
	case 1:
		alph, alphPresent = p.ALPH, true
	case 2:
		alph, alphPresent = []byte{}, true
	case 3:
		alph, alphPresent = []byte{0}, true
	}
	flags := byte(0)
	exactFlags := byte(0)
	if pl.HasICC {
		exactFlags |= 0x20
	}
	if pl.HasEXIF {
		exactFlags |= 0x08
	}
	if pl.HasXMP {
		exactFlags |= 0x04
	}
	if alphPresent || bitAlpha {
		exactFlags |= 0x10
	}
	switch pl.FlagMode {
	case 0:
		flags = exactFlags
	case 1:
		flags = 0x3c
	case 2:
		flags = 0
	case 3:
		flags = byte(rng.Intn(16)) << 2
	}
	cw, ch := p.W, p.H
	switch pl.CanvasMode {
	case 1:
		cw, ch = p.W+3, p.H+1
	case 2:
		if p.W > 1 {
			cw = p.W - 1
		}
	}
	vp8x := vp8xPayload(flags, cw, ch)
	for len(vp8x) < pl.VP8XSize {
		vp8x = append(vp8x, 0)
	}
	body := chunkBytes("VP8X", vp8x)
	unk := []byte("unknown-odd")
	if pl.HasICC && pl.MetaOrder != 2 {
		body = append(body, chunkBytes("ICCP", pl.ICC)...)
	}
	if pl.MetaOrder == 1 {
		if pl.HasEXIF {
			body = append(body, chunkBytes("EXIF", pl.EXIF)...)
		}
		if pl.HasXMP {
			body = append(body, chunkBytes("XMP ", pl.XMP)...)
		}
	}
	if pl.Unknown&1 != 0 {
		body = append(body, chunkBytes("UNKN", unk)...)
	}
	if alphPresent {
		if pl.DupALPH {
			body = append(body, chunkBytes("ALPH", []byte{0, 1, 2})...)
		}
		body = append(body, chunkBytes("ALPH", alph)...)
	}
	body = append(body, chunkBytes(imgID, img)...)
	if pl.MetaOrder != 1 {
		if pl.HasEXIF {
			body = append(body, chunkBytes("EXIF", pl.EXIF)...)
		}
		if pl.HasXMP {
			body = append(body, chunkBytes("XMP ", pl.XMP)...)
		}
	}
	if pl.HasICC && pl.MetaOrder == 2 {
		body = append(body, chunkBytes("ICCP", pl.ICC)...)
	}
	if pl.Unknown&2 != 0 {
		body = append(body, chunkBytes("UNKN", unk)...)
	}
	// The property's well-formedness: headers mutually consistent.  Zero-length or garbage
	// ALPH chunks and unknown chunks are inside the quantifier ("empty or odd chunks",
	// "unknown chunks", "flags over- or under-stating"); a wrong canvas, an oversize VP8X, an
	// ALPH beside a VP8L image or a duplicated ALPH are not.
	wf = pl.VP8XSize == 10 && pl.CanvasMode == 0 && !(lossless && alphPresent) && !pl.DupALPH
	return riffFile(body), wf
}

type c16Obs struct {
	Dec, DecModel  string // Decode: "E" | "WxH", colour model
	DecDigest      string
	Cfg, Feat      string
	Format         string
	ImgDec, ImgCfg string // image.Decode / image.DecodeConfig: format name or "E"/"ErrFormat"
	Dmx, Anim      string // demuxer and DecodeBytes views "E" | "w,h,anim,frames,loop"
	PanicMsg       string
	nonOpaque      bool
}

func observe(data []byte) (o c16Obs) {
	defer func() {
		if r := recover(); r != nil {
			o.PanicMsg = fmt.Sprint(r)
		}
	}()
	o.Dec, o.Cfg, o.Feat, o.ImgDec, o.ImgCfg, o.Dmx, o.Anim = "E", "E", "E", "E", "E", "E", "E"
	if img, err := webp.Decode(bytes.NewReader(data)); err == nil {
		b := img.Bounds()
		o.Dec = fmt.Sprintf("%d,%d", b.Dx(), b.Dy())
		o.DecModel = modelName(img.ColorModel())
		o.DecDigest = pixelDigest(img)
		if n, ok := img.(*image.NRGBA); ok {
			for i := 3; i < len(n.Pix); i += 4 {
				if n.Pix[i] != 255 {
					o.nonOpaque = true
					break
				}
			}
		}
	}
	if c, err := webp.DecodeConfig(bytes.NewReader(data)); err == nil {
		o.Cfg = fmt.Sprintf("%s,%d,%d", modelName(c.ColorModel), c.Width, c.Height)
	}
	if f, err := webp.GetFeatures(bytes.NewReader(data)); err == nil {
		fm := map[string]int{"lossy": 1, "lossless": 2, "extended": 3}[f.Format]
		o.Format = f.Format
		o.Feat = fmt.Sprintf("%d,%d,%s,%s,%d,%d,%d", f.Width, f.Height, b01(f.HasAlpha), b01(f.HasAnimation), fm, f.LoopCount, f.FrameCount)
	}
	if img, name, err := image.Decode(bytes.NewReader(data)); err == nil {
		o.ImgDec = name + ":" + pixelDigest(img)
	} else if err == image.ErrFormat {
		o.ImgDec = "ErrFormat"
	}
	if c, name, err := image.DecodeConfig(bytes.NewReader(data)); err == nil {
		o.ImgCfg = fmt.Sprintf("%s:%s,%d,%d", name, modelName(c.ColorModel), c.Width, c.Height)
	} else if err == image.ErrFormat {
		o.ImgCfg = "ErrFormat"
	}
	if d, err := mux.NewDemuxer(data); err == nil {
		f := d.GetFeatures()
		o.Dmx = fmt.Sprintf("%d,%d,%s,%d,%d", f.Width, f.Height, b01(f.HasAnimation), d.NumFrames(), d.LoopCount())
	}
	if a, err := animation.DecodeBytes(data); err == nil {
		o.Anim = fmt.Sprintf("%d,%d,%d,%d", a.CanvasWidth, a.CanvasHeight, len(a.Frames), a.LoopCount)
	}
	return o
}

func c16Check(c *Ctx, f *c16File) {
	c.D.Evaluations++
	c.Count("kind:" + f.Kind)
	o := observe(f.Data)
	replay := map[string]any{"kind": f.Kind, "file": hx(f.Data), "observed": o, "wf": f.WF}
	if o.PanicMsg != "" {
		c.Violate("panic", "an entry point panicked: "+o.PanicMsg, replay)
		return
	}
	line, p := safeParse(f.Data)
	c.Case("F "+hx(f.Data), line)
	if p.ErrClass != 0 {
		c.Count(fmt.Sprintf("parser-error-class:%d", p.ErrClass))
	}
	// codec oracle for the glue model: what the codecs say about frame 0 of the parse
	ck, cw, ch, ak := 0, 0, 0, 0
	if p.ErrClass == 0 && len(p.Frames) > 0 {
		fr := p.Frames[0]
		var ok bool
		if fr.IsLossless {
			cw, ch, ok = webp.VerifRiffLosslessDims(fr.Payload)
		} else {
			cw, ch, ok = webp.VerifRiffLossyDims(fr.Payload)
		}
		if ok {
			ck = 1
			if len(fr.Alpha) > 0 && webp.VerifRiffAlphaOK(fr.Alpha, cw, ch) {
				ak = 1
			}
		}
	}
	dec := "E"
	if o.Dec != "E" {
		dec = o.DecModel + "," + o.Dec
	}
	sn := "1"
	if o.ImgCfg == "ErrFormat" {
		sn = "0"
	}
	c.Case(fmt.Sprintf("G %d %d %d %d %d", len(f.Data), ck, cw, ch, ak),
		fmt.Sprintf("cfg=%s feat=%s dec=%s sniff=%s", o.Cfg, o.Feat, dec, sn))
	c.Sample(map[string]any{"kind": f.Kind, "bytes": len(f.Data), "cfg": o.Cfg, "feat": o.Feat, "dec": dec, "dmx": o.Dmx, "anim": o.Anim})

	still := !f.Animated
	// (a) every still Decode accepts: DecodeConfig and GetFeatures succeed and agree with the picture
	if still && o.Dec != "E" {
		c.Count("clause-a:evaluated")
		sig := fmt.Sprintf("a|%s|fmt=%s|alpha=%v|cfg=%s", f.Kind, o.Format, p.ErrClass == 0 && len(p.Frames) > 0 && !p.Frames[0].AlphaNil, o.DecModel)
		c.Nontrivial(sig)
		if o.Cfg == "E" || o.Feat == "E" {
			c.Violate("header-query-fails-on-decodable-file", "Decode accepts the file but DecodeConfig/GetFeatures fails", replay)
		} else {
			want := o.DecModel + "," + o.Dec
			if o.Cfg != want {
				key := "config-disagrees-with-decode"
				if p.ErrClass == 0 && len(p.Frames) > 0 && !p.Frames[0].AlphaNil && len(p.Frames[0].Alpha) == 0 && !p.Frames[0].IsLossless &&
					o.Cfg == "NRGBA,"+o.Dec && o.DecModel == "YCbCr" {
					key = "config-colormodel-zero-length-alph"
				}
				c.Violate(key, fmt.Sprintf("DecodeConfig reports %s, Decode returns %s (%s)", o.Cfg, want, f.Kind), replay)
			}
			var fw, fh, ffmt, floop, fcount int
			var fa, fan string
			fmt.Sscanf(o.Feat, "%d,%d,%1s,%1s,%d,%d,%d", &fw, &fh, &fa, &fan, &ffmt, &floop, &fcount)
			if fmt.Sprintf("%d,%d", fw, fh) != o.Dec {
				c.Violate("features-dims-disagree-with-decode", fmt.Sprintf("GetFeatures reports %dx%d, Decode returns %s", fw, fh, o.Dec), replay)
			}
			first := string(f.Data[12:16])
			wantFmt := map[string]string{"VP8 ": "lossy", "VP8L": "lossless", "VP8X": "extended"}[first]
			if o.Format != wantFmt {
				c.Violate("features-format-name", fmt.Sprintf("GetFeatures.Format=%q for a file starting with %q", o.Format, first), replay)
			}
			if fcount != 1 || fan != "0" {
				c.Violate("features-still-framecount", fmt.Sprintf("still file: FrameCount=%d HasAnimation=%s", fcount, fan), replay)
			}
			if f.Ours && o.nonOpaque && fa != "1" {
				c.Violate("alpha-flag-unsound", "a decoded pixel is not opaque but GetFeatures.HasAlpha is false", replay)
			}
		}
		// image.Decode / image.DecodeConfig dispatch to this package
		if o.ImgDec != "webp:"+o.DecDigest {
			c.Violate("image-decode-dispatch", "image.Decode does not return the webp.Decode result under format name \"webp\": "+o.ImgDec, replay)
		}
		if o.Cfg != "E" && o.ImgCfg != "webp:"+o.Cfg {
			c.Violate("image-decodeconfig-dispatch", "image.DecodeConfig differs from webp.DecodeConfig: "+o.ImgCfg, replay)
		}
	}
	if f.Kind == "edge-anim-canvas-area-2^30" {
		c.Count(fmt.Sprintf("note:canvas-area>=2^30 GetFeatures=%v demuxer=%v (cap only in container.Parser)", o.Feat != "E", o.Dmx != "E"))
	}
	// (b) well-formed files: the container-level views agree
	if f.WF && o.Feat != "E" {
		c.Count("clause-b:evaluated")
		var fw, fh, ffmt, floop, fcount int
		var fa, fan string
		fmt.Sscanf(o.Feat, "%d,%d,%1s,%1s,%d,%d,%d", &fw, &fh, &fa, &fan, &ffmt, &floop, &fcount)
		c.Nontrivial(fmt.Sprintf("b|%s|anim=%s|frames=%d", f.Kind, fan, fcount))
		if o.Cfg != "E" {
			var cm string
			var w, h int
			fmt.Sscanf(o.Cfg, "%5s,%d,%d", &cm, &w, &h)
			if w != fw || h != fh {
				c.Violate("views-disagree-config-vs-features", fmt.Sprintf("DecodeConfig %dx%d vs GetFeatures %dx%d", w, h, fw, fh), replay)
			}
		}
		if o.Dmx == "E" || o.Anim == "E" {
			c.Violate("views-demuxer-rejects-wellformed", "GetFeatures accepts a well-formed file that the demuxer / DecodeBytes rejects", replay)
		} else {
			var dw, dh, dn, dl int
			var da string
			fmt.Sscanf(o.Dmx, "%d,%d,%1s,%d,%d", &dw, &dh, &da, &dn, &dl)
			var aw, ah, an, al int
			fmt.Sscanf(o.Anim, "%d,%d,%d,%d", &aw, &ah, &an, &al)
			if dw != fw || dh != fh || aw != fw || ah != fh {
				c.Violate("views-disagree-canvas", fmt.Sprintf("canvas: GetFeatures %dx%d, demuxer %dx%d, DecodeBytes %dx%d", fw, fh, dw, dh, aw, ah), replay)
			}
			if da != fan {
				c.Violate("views-disagree-animation-flag", "HasAnimation differs between GetFeatures and the demuxer", replay)
			}
			if dn != fcount || an != fcount {
				c.Violate("views-disagree-frame-count", fmt.Sprintf("frames: GetFeatures %d, demuxer %d, DecodeBytes %d", fcount, dn, an), replay)
			}
			if fan == "1" && (dl != floop || al != floop) {
				c.Violate("views-disagree-loop-count", fmt.Sprintf("loop count: GetFeatures %d, demuxer %d, DecodeBytes %d", floop, dl, al), replay)
			}
			if fan == "0" && (dl != floop) {
				c.Count("note:still-loopcount-differs(parser=1,demuxer=0)")
			}
			if fan == "0" {
				// C16_get_features_still_loop: LoopCount of a still is 1 on the VP8X layout, 0 on the simple ones; demuxer 0
				want := 0
				if ffmt == 3 {
					want = 1
				}
				c.Count("still-loopcount:evaluated")
				if floop != want || dl != 0 {
					// not part of the property (LoopCount is documented as meaningless for stills): counted only
					c.Count(fmt.Sprintf("note:still-loopcount-other-than-modelled(format=%d,GetFeatures=%d,demuxer=%d)", ffmt, floop, dl))
				}
			}
		}
	}
}

func animFile(c *Ctx, rng *Rand, w, h, nframes int, lossless bool, loop int, meta bool) ([]byte, bool) {
	var out bytes.Buffer
	enc := animation.NewEncoder(&out, w, h, &animation.EncodeOptions{Lossless: lossless, Quality: 70, LoopCount: loop, Kmax: rng.Pick(0, 1, 3)})
	if enc == nil {
		return nil, false
	}
	if meta {
		enc.SetEXIF([]byte("exif-blob"))
		enc.SetICCProfile([]byte("icc-blob-x"))
	}
	for i := 0; i < nframes; i++ {
		im := testImage(rng, w, h, rng.Pick(0, 0, 2), 20+i*30)
		if err := enc.AddFrame(im, time.Duration(40+10*i)*time.Millisecond); err != nil {
			return nil, false
		}
	}
	if err := enc.Close(); err != nil {
		return nil, false
	}
	return out.Bytes(), true
}

func le24b(v int) []byte { return []byte{byte(v), byte(v >> 8), byte(v >> 16)} }

func anmfPayload(x, y, w, h, dur int, bits byte, sub []byte) []byte {
	var b []byte
	b = append(b, le24b(x/2)...)
	b = append(b, le24b(y/2)...)
	b = append(b, le24b(w-1)...)
	b = append(b, le24b(h-1)...)
	b = append(b, le24b(dur)...)
	b = append(b, bits)
	return append(b, sub...)
}

// handAnim assembles an animated container from a random plan; wf reports whether the plan is
// a well-formed animation (flag set, ANIM first, every frame a valid [ALPH] VP8 / VP8L inside the canvas).
func handAnim(p *c16Parts, r *Rand) (data []byte, wf bool, kind string) {
	wf = true
	nf := r.Pick(0, 1, 1, 2, 3)
	flagAnim := r.Intn(8) != 0
	animMode := r.Pick(0, 0, 0, 0, 1, 2, 3, 4) // 0 normal, 1 absent, 2 short(4), 3 long(8), 4 after first frame
	loop := r.Pick(0, 1, 7, 65535)
	offx, offy := 2*r.Intn(3), 2*r.Intn(3)
	cw, ch := p.W+offx+r.Intn(3), p.H+offy+r.Intn(3)
	flags := byte(0)
	if flagAnim {
		flags |= 0x02
	} else {
		wf = false
	}
	if r.Bool() {
		flags |= 0x10
	}
	body := chunkBytes("VP8X", vp8xPayload(flags, cw, ch))
	anim := make([]byte, 6)
	anim[0], anim[1], anim[2], anim[3] = byte(r.U64()), byte(r.U64()), byte(r.U64()), byte(r.U64())
	anim[4], anim[5] = byte(loop), byte(loop>>8)
	animChunk := chunkBytes("ANIM", anim)
	switch animMode {
	case 2:
		animChunk = chunkBytes("ANIM", anim[:4])
	case 3:
		animChunk = chunkBytes("ANIM", append(append([]byte(nil), anim...), 9, 9))
	}
	if animMode != 0 && animMode != 3 {
		wf = false
	}
	if animMode == 0 || animMode == 2 || animMode == 3 {
		body = append(body, animChunk...)
	}
	if r.Intn(5) == 0 {
		body = append(body, chunkBytes("UNKN", []byte("odd"))...)
	}
	if nf == 0 {
		wf = false
	}
	kinds := ""
	for i := 0; i < nf; i++ {
		fk := r.Pick(0, 0, 1, 1, 2, 3, 4, 5, 6, 7)
		var sub []byte
		fw, fh := p.W, p.H
		switch fk {
		case 0:
			sub = chunkBytes("VP8 ", p.VP8)
		case 1:
			sub = chunkBytes("VP8L", p.VP8LAlpha)
		case 2:
			sub = append(chunkBytes("ALPH", p.ALPH), chunkBytes("VP8 ", p.VP8A)...)
		case 3: // no sub-chunks at all
			wf = false
		case 4: // ALPH only
			sub = chunkBytes("ALPH", p.ALPH)
			wf = false
		case 5: // ALPH + VP8L
			sub = append(chunkBytes("ALPH", p.ALPH), chunkBytes("VP8L", p.VP8L)...)
			wf = false
		case 6: // unknown sub-chunk first
			sub = append(chunkBytes("UNKN", []byte{1}), chunkBytes("VP8 ", p.VP8)...)
			wf = false
		case 7: // sub-chunk cut short inside the ANMF payload
			c := chunkBytes("VP8 ", p.VP8)
			sub = c[:len(c)-3]
			wf = false
		}
		kinds += fmt.Sprint(fk)
		bits := byte(r.Intn(4))
		if r.Intn(6) == 0 {
			bits |= 0xf0 // reserved bits set
		}
		pl := anmfPayload(offx, offy, fw, fh, r.Pick(0, 40, 16777215), bits, sub)
		if r.Intn(10) == 0 {
			pl = pl[:r.Intn(16)] // ANMF shorter than its 16-byte header
			wf = false
		}
		body = append(body, chunkBytes("ANMF", pl)...)
		if i == 0 && animMode == 4 {
			body = append(body, animChunk...)
		}
		if r.Intn(8) == 0 {
			body = append(body, chunkBytes("EXIF", []byte("e"))...)
		}
	}
	if r.Intn(10) == 0 { // a top-level image chunk inside an animation
		body = append(body, chunkBytes("VP8 ", p.VP8)...)
		wf = false
	}
	return riffFile(body), wf, fmt.Sprintf("handanim-flag=%v-anim%d-frames=%s", flagAnim, animMode, kinds)
}

// c16Carriers: the views must not depend on how the bytes arrive: the io.Reader entry points through a reader
// without Len / WriteTo / ReadAt, one that delivers 1..7 bytes per Read, a bufio.Reader; the []byte entry points
// (mux.NewDemuxer, animation.DecodeBytes) with spare capacity behind the data (garbage, zeros).  Reported for
// well-formed files (the property's quantifier), counted for the others.
func c16Carriers(c *Ctx, f *c16File) {
	base := runAPIs(f.Data)
	report := func(carrier, what, got, want string) {
		c.D.Evaluations++
		if got == want {
			c.Count("carrier:" + carrier + ":same")
			return
		}
		c.Count("carrier:" + carrier + ":" + what + ":DIFFERENT")
		if f.WF {
			c.Violate("view-depends-on-carrier:"+carrier, fmt.Sprintf("%s of a well-formed %s file delivered as %s differs from the same bytes through bytes.Reader / an exact-size slice (%s vs %s)", what, f.Kind, carrier, got, want),
				map[string]any{"kind": f.Kind, "file": hx(f.Data), "carrier": carrier, "view": what})
		}
	}
	for _, rc := range readerCarriers() {
		r := runAPIsVia(rc.Mk, f.Data)
		report(rc.Name, "Decode", r.Dec+r.Panic, base.Dec+base.Panic)
		report(rc.Name, "DecodeConfig", r.Cfg, base.Cfg)
		report(rc.Name, "GetFeatures", r.Feat, base.Feat)
	}
	views := func(data []byte) (dmx, anim string) {
		defer func() {
			if r := recover(); r != nil {
				dmx += " PANIC " + fmt.Sprint(r)
			}
		}()
		dmx, anim = "E", "E"
		if d, err := mux.NewDemuxer(data); err == nil {
			ft := d.GetFeatures()
			dmx = fmt.Sprintf("%d,%d,%s,%d,%d", ft.Width, ft.Height, b01(ft.HasAnimation), d.NumFrames(), d.LoopCount())
		}
		if a, err := animation.DecodeBytes(data); err == nil {
			anim = fmt.Sprintf("%d,%d,%d,%d", a.CanvasWidth, a.CanvasHeight, len(a.Frames), a.LoopCount)
			if len(a.Frames) > 0 && a.Frames[0].Image != nil {
				anim += "," + pixelDigest(a.Frames[0].Image)
			}
		}
		return
	}
	bd, ba := views(f.Data[:len(f.Data):len(f.Data)])
	for _, sc := range sliceCarriers(f.Data, len(f.Data))[1:] {
		d, a := views(sc.Data)
		report(sc.Name, "mux.Demuxer", d, bd)
		report(sc.Name, "animation.DecodeBytes", a, ba)
	}
}

// c16FlagFlips: feature flags over- or under-stating the chunks present.  For a well-formed VP8X file (still or
// animation) each single flag bit is flipped.  Whatever the readers make of such a file, they must agree:
// container.Parser (GetFeatures / DecodeConfig), mux.Demuxer and animation.DecodeBytes all reject it, or all
// accept it with the same canvas, animation flag, frame count (and loop count when animated).  This is required
// for the alpha / ICC / EXIF / XMP / animation bits.  A file with a reserved bit (0, 6, 7) set is not well-formed
// at all, hence outside the property: its outcome is only counted (today: the parser refuses, the demuxer
// accepts).  What the readers do with a consistent outcome is not judged here (today an animation whose
// animation flag is cleared is accepted by every reader; the specification would have ANIM/ANMF ignored).
func c16FlagFlips(c *Ctx, base *c16File) {
	if len(base.Data) < 30 || string(base.Data[12:16]) != "VP8X" {
		return
	}
	for _, fb := range []struct {
		bit      byte
		name     string
		inDomain bool
	}{{0x02, "animation", true}, {0x10, "alpha", true}, {0x20, "icc", true}, {0x08, "exif", true}, {0x04, "xmp", true},
		{0x01, "reserved-bit0", false}, {0x40, "reserved-bit6", false}, {0x80, "reserved-bit7", false}} {
		d := append([]byte(nil), base.Data...)
		d[20] ^= fb.bit
		kind := "flagflip-" + fb.name + "-of-" + base.Kind
		f := c16File{Kind: kind, Data: d, Animated: base.Animated}
		c16Check(c, &f) // correspondence with the parser / glue models, clause (a)
		o := observe(d)
		replay := map[string]any{"kind": kind, "file": hx(d), "flipped_bit": fb.bit, "observed": o}
		violate := func(desc string) {
			if fb.inDomain {
				c.Violate("views-disagree-on-flag:"+fb.name, desc, replay)
			}
		}
		pAcc, dAcc, aAcc := o.Feat != "E", o.Dmx != "E", o.Anim != "E"
		outcome := "all-reject"
		switch {
		case pAcc && dAcc && aAcc:
			outcome = "all-accept"
			var fw, fh, ffmt, floop, fcount int
			var fa, fan string
			fmt.Sscanf(o.Feat, "%d,%d,%1s,%1s,%d,%d,%d", &fw, &fh, &fa, &fan, &ffmt, &floop, &fcount)
			var dw, dh, dn, dl int
			var da string
			fmt.Sscanf(o.Dmx, "%d,%d,%1s,%d,%d", &dw, &dh, &da, &dn, &dl)
			var aw, ah, an, al int
			fmt.Sscanf(o.Anim, "%d,%d,%d,%d", &aw, &ah, &an, &al)
			if dw != fw || dh != fh || aw != fw || ah != fh || da != fan || dn != fcount || an != fcount || (fan == "1" && (dl != floop || al != floop)) {
				outcome = "accept-with-different-values"
				violate(fmt.Sprintf("VP8X %s bit flipped: GetFeatures %s, demuxer %s, DecodeBytes %s", fb.name, o.Feat, o.Dmx, o.Anim))
			}
		case pAcc || dAcc || aAcc:
			outcome = fmt.Sprintf("split(parser=%v,demuxer=%v,DecodeBytes=%v)", pAcc, dAcc, aAcc)
			violate(fmt.Sprintf("VP8X %s bit flipped: GetFeatures accepts=%v, demuxer accepts=%v, DecodeBytes accepts=%v", fb.name, pAcc, dAcc, aAcc))
		}
		if (o.Cfg != "E") != pAcc {
			violate(fmt.Sprintf("VP8X %s bit flipped: DecodeConfig accepts=%v, GetFeatures accepts=%v", fb.name, o.Cfg != "E", pAcc))
		}
		// header query vs full decode on a flag that under-states the chunks: a decoded still with a non-opaque
		// pixel must be announced by GetFeatures.HasAlpha, whatever the VP8X alpha bit says
		if fb.inDomain && !base.Animated && pAcc && o.Dec != "E" && o.nonOpaque {
			var fw, fh int
			var fa string
			fmt.Sscanf(o.Feat, "%d,%d,%1s", &fw, &fh, &fa)
			c.Count("flagflip:" + fb.name + ":alpha-soundness-evaluated")
			if fa != "1" {
				c.Violate("alpha-flag-unsound", "VP8X "+fb.name+" bit flipped on a still with transparency: Decode returns a picture with a non-opaque pixel, GetFeatures reports HasAlpha=false", replay)
			}
		}
		animated := "still"
		if base.Animated {
			animated = "animation"
		}
		c.Count("flagflip:" + fb.name + ":" + animated + ":" + outcome)
		c.Nontrivial("flagflip|" + fb.name + "|" + animated + "|" + outcome)
	}
}

// c16Limits: the shared limits of the two container parsers on the real code, direct evaluation only
// (these files are too large for the extracted list-based model): C16_too_many_frames_both_reject,
// C16_big_iccp_both_reject, and the note about trailing EXIF above the cap in a still.
func c16Limits(c *Ctx, p *c16Parts, thorough bool) {
	accepts := func(data []byte) (feat, dmx bool, nf, nd int) {
		if f, err := webp.GetFeatures(bytes.NewReader(data)); err == nil {
			feat, nf = true, f.FrameCount
		}
		if d, err := mux.NewDemuxer(data); err == nil {
			dmx, nd = true, d.NumFrames()
		}
		return
	}
	anim := chunkBytes("ANIM", []byte{1, 2, 3, 4, 5, 0})
	frame := chunkBytes("ANMF", anmfPayload(0, 0, p.W, p.H, 10, 0, chunkBytes("VP8 ", p.VP8)))
	animHead := append(chunkBytes("VP8X", vp8xPayload(2, p.W, p.H)), anim...)
	for _, n := range []int{10000, 10001} {
		c.D.Evaluations++
		body := append([]byte(nil), animHead...)
		for i := 0; i < n; i++ {
			body = append(body, frame...)
		}
		feat, dmx, nf, nd := accepts(riffFile(body))
		c.Count(fmt.Sprintf("limit:frames=%d:GetFeatures=%v:demuxer=%v", n, feat, dmx))
		c.Nontrivial(fmt.Sprintf("limit|frames=%d", n))
		replay := map[string]any{"kind": "limit-frames", "frames": n, "w": p.W, "h": p.H}
		want := n <= 10000
		if feat != want || dmx != want {
			c.Violate("limit-frames-not-shared", fmt.Sprintf("%d ANMF frames: GetFeatures accepts=%v, demuxer accepts=%v (both expected %v)", n, feat, dmx, want), replay)
		} else if want && (nf != n || nd != n) {
			c.Violate("views-disagree-frame-count", fmt.Sprintf("frames: GetFeatures %d, demuxer %d, file has %d", nf, nd, n), replay)
		}
	}
	const cap100 = 100 * 1024 * 1024
	sizes := []int{cap100 + 1}
	if thorough {
		sizes = append(sizes, cap100)
	}
	for _, n := range sizes {
		// ICCP directly after VP8X in an animated file
		c.D.Evaluations++
		body := append(chunkBytes("VP8X", vp8xPayload(2|0x20, p.W, p.H)), chunkBytes("ICCP", make([]byte, n))...)
		body = append(append(body, anim...), frame...)
		feat, dmx, _, _ := accepts(riffFile(body))
		c.Count(fmt.Sprintf("limit:iccp=100MB%+d:GetFeatures=%v:demuxer=%v", n-cap100, feat, dmx))
		c.Nontrivial(fmt.Sprintf("limit|iccp=%d", n))
		want := n <= cap100
		if feat != want || dmx != want {
			c.Violate("limit-metadata-not-shared", fmt.Sprintf("ICCP of %d bytes: GetFeatures accepts=%v, demuxer accepts=%v (both expected %v)", n, feat, dmx, want), map[string]any{"kind": "limit-iccp", "len": n})
		}
	}
	{
		// a still whose EXIF chunk (after the image chunk) is above the cap: container.Parser returns at the
		// image chunk and never sees it, the demuxer walks on and refuses it.  Counted, not reported.
		c.D.Evaluations++
		body := append(chunkBytes("VP8X", vp8xPayload(0x08, p.W, p.H)), chunkBytes("VP8 ", p.VP8)...)
		body = append(body, chunkBytes("EXIF", make([]byte, cap100+1))...)
		feat, dmx, _, _ := accepts(riffFile(body))
		c.Count(fmt.Sprintf("note:still-trailing-EXIF=100MB+1:GetFeatures=%v:demuxer=%v (the parser stops at the image chunk)", feat, dmx))
		c.Nontrivial("limit|still-trailing-exif")
	}
}

// edgeFiles: one hand-made file per error branch / limit of the container parser.
func edgeFiles(p *c16Parts, thorough bool) []c16File {
	var out []c16File
	add := func(kind string, data []byte) {
		// files with ANIM/ANMF structure are not stills, whatever their flag says
		out = append(out, c16File{Kind: "edge-" + kind, Data: data, Animated: strings.HasPrefix(kind, "an") || strings.HasPrefix(kind, "frames-")})
	}
	withSize := func(data []byte, size uint32) []byte {
		d := append([]byte(nil), data...)
		binary.LittleEndian.PutUint32(d[4:], size)
		return d
	}
	vp8 := chunkBytes("VP8 ", p.VP8)
	simple := riffFile(vp8)
	add("riff-size-7", withSize(simple, 7))
	add("riff-size-8", withSize(simple, 8))
	add("riff-size-too-large", withSize(simple, 0xfffffff7))
	add("riff-size-max-payload", withSize(simple, 0xfffffff6))
	add("riff-size-short-of-chunk", withSize(simple, uint32(len(simple)-8-2)))
	add("riff-size-beyond-data", withSize(simple, uint32(len(simple)+100)))
	add("trailing-garbage", append(append([]byte(nil), simple...), []byte("garbage-after-riff-end")...))
	add("first-chunk-unknown", riffFile(chunkBytes("JUNK", []byte("12345678"))))
	add("first-chunk-alph", riffFile(append(chunkBytes("ALPH", p.ALPH), vp8...)))
	// chunk size fields
	huge := append([]byte("VP8 \xff\xff\xff\xff"), p.VP8...)
	add("chunk-size-ffffffff", riffFile(huge))
	huge2 := append([]byte("VP8 \xf6\xff\xff\xff"), p.VP8...)
	add("chunk-size-max-payload", riffFile(huge2))
	// VP8 / VP8L headers
	bad := func(mut func([]byte)) []byte {
		d := append([]byte(nil), p.VP8...)
		mut(d)
		return riffFile(chunkBytes("VP8 ", d))
	}
	add("vp8-not-keyframe", bad(func(d []byte) { d[0] |= 1 }))
	add("vp8-bad-signature", bad(func(d []byte) { d[4] = 0 }))
	add("vp8-zero-width", bad(func(d []byte) { d[6], d[7] = 0, d[7]&0xc0 }))
	add("vp8-zero-height", bad(func(d []byte) { d[8], d[9] = 0, 0x40 }))
	add("vp8-scale-bits", bad(func(d []byte) { d[7] |= 0xc0; d[9] |= 0x80 }))
	add("vp8-9-bytes", riffFile(chunkBytes("VP8 ", p.VP8[:9])))
	badl := func(mut func([]byte)) []byte {
		d := append([]byte(nil), p.VP8L...)
		mut(d)
		return riffFile(chunkBytes("VP8L", d))
	}
	add("vp8l-bad-magic", badl(func(d []byte) { d[0] = 0x2e }))
	add("vp8l-version-1", badl(func(d []byte) { d[4] |= 0x20 }))
	add("vp8l-4-bytes", riffFile(chunkBytes("VP8L", p.VP8L[:4])))
	add("vp8l-alpha-bit-clear", riffFile(chunkBytes("VP8L", p.VP8LNoBit)))
	// VP8X
	for _, fl := range []byte{0x01, 0x40, 0x80, 0xc1, 0x3e} {
		add(fmt.Sprintf("vp8x-flags-%02x", fl), riffFile(append(chunkBytes("VP8X", vp8xPayload(fl, p.W, p.H)), vp8...)))
	}
	add("vp8x-canvas-2^24-square", riffFile(append(chunkBytes("VP8X", vp8xPayload(0, 1<<24, 1<<24)), vp8...)))
	add("vp8x-canvas-32768x32768", riffFile(append(chunkBytes("VP8X", vp8xPayload(0, 32768, 32768)), vp8...)))
	add("vp8x-canvas-32768x32767", riffFile(append(chunkBytes("VP8X", vp8xPayload(0, 32768, 32767)), vp8...)))
	add("vp8x-size-9", riffFile(append(chunkBytes("VP8X", vp8xPayload(0, p.W, p.H)[:9]), vp8...)))
	add("vp8x-only", riffFile(chunkBytes("VP8X", vp8xPayload(0, p.W, p.H))))
	add("vp8x-only-anim", riffFile(chunkBytes("VP8X", vp8xPayload(2, p.W, p.H))))
	add("vp8x-twice", riffFile(append(append(chunkBytes("VP8X", vp8xPayload(0, p.W, p.H)), chunkBytes("VP8X", vp8xPayload(0, p.W, p.H))...), vp8...)))
	add("vp8x-then-7-bytes", append(riffFile(chunkBytes("VP8X", vp8xPayload(0, p.W, p.H))), 1, 2, 3, 4, 5, 6, 7))
	add("vp8x-alph-then-unknown", riffFile(append(append(chunkBytes("VP8X", vp8xPayload(0x10, p.W, p.H)), chunkBytes("ALPH", p.ALPH)...), chunkBytes("UNKN", nil)...)))
	add("vp8x-alph-only", riffFile(append(chunkBytes("VP8X", vp8xPayload(0x10, p.W, p.H)), chunkBytes("ALPH", p.ALPH)...)))
	// MaxChunks: 1000 unknown chunks are kept, the 1001st is an error
	for _, n := range []int{999, 1000, 1001} {
		body := chunkBytes("VP8X", vp8xPayload(0, p.W, p.H))
		for i := 0; i < n; i++ {
			body = append(body, chunkBytes("UNKN", nil)...)
		}
		add(fmt.Sprintf("unknown-chunks-%d", n), riffFile(append(body, vp8...)))
	}
	// animation limits
	anim := chunkBytes("ANIM", []byte{1, 2, 3, 4, 5, 0})
	frame := chunkBytes("ANMF", anmfPayload(0, 0, p.W, p.H, 10, 0, chunkBytes("VP8 ", p.VP8)))
	animHead := append(chunkBytes("VP8X", vp8xPayload(2, p.W, p.H)), anim...)
	add("anmf-area-too-large", riffFile(append(append([]byte(nil), animHead...), chunkBytes("ANMF", anmfPayload(0, 0, 32768, 32768, 10, 0, chunkBytes("VP8 ", p.VP8)))...)))
	add("anmf-max-offsets", riffFile(append(append([]byte(nil), animHead...), chunkBytes("ANMF", anmfPayload(2*0xffffff, 2*0xffffff, p.W, p.H, 0xffffff, 3, chunkBytes("VP8 ", p.VP8)))...)))
	// a well-formed animation whose canvas area is >= 2^30: container.Parser rejects it (MaxImageArea), the
	// demuxer has no such cap; outside the hypotheses of C16_views_agree_anim and counted, not reported
	add("anim-canvas-area-2^30", riffFile(append(append(chunkBytes("VP8X", vp8xPayload(2, 32768, 32768)), anim...), frame...)))
	// ANMF whose last sub-chunk has an odd size and no pad byte inside the ANMF payload (the truncation test must
	// use the padded size: seeded change C05-vi5 panics on these)
	{
		noPad := func(id string, payload []byte) []byte {
			b := make([]byte, 8, 8+len(payload))
			copy(b, id)
			binary.LittleEndian.PutUint32(b[4:], uint32(len(payload)))
			return append(b, payload...)
		}
		odd := func(b []byte) []byte {
			if len(b)%2 == 1 {
				return b
			}
			return append(append([]byte(nil), b...), 0)
		}
		for _, v := range []struct {
			name string
			sub  []byte
		}{
			{"odd-alph-no-pad", noPad("ALPH", odd(p.ALPH))},
			{"odd-vp8-no-pad", noPad("VP8 ", odd(p.VP8))},
			{"vp8-then-odd-alph-no-pad", append(chunkBytes("VP8 ", p.VP8), noPad("ALPH", odd(p.ALPH))...)},
			{"alph-then-odd-vp8-no-pad", append(chunkBytes("ALPH", p.ALPH), noPad("VP8 ", odd(p.VP8A))...)},
			{"odd-unknown-no-pad", noPad("UNKN", []byte{1, 2, 3})},
			{"vp8l-then-odd-unknown-no-pad", append(chunkBytes("VP8L", p.VP8L), noPad("UNKN", []byte{7})...)},
		} {
			add("anmf-sub-"+v.name, riffFile(append(append([]byte(nil), animHead...), chunkBytes("ANMF", anmfPayload(0, 0, p.W, p.H, 10, 0, v.sub))...)))
			// and as the second of two frames
			add("anmf2-sub-"+v.name, riffFile(append(append(append([]byte(nil), animHead...), frame...), chunkBytes("ANMF", anmfPayload(0, 0, p.W, p.H, 10, 0, v.sub))...)))
		}
	}
	add("anim-flag-clear-with-anim-chunks", riffFile(append(append(chunkBytes("VP8X", vp8xPayload(0, p.W, p.H)), anim...), frame...)))
	add("anim-flag-clear-anim-then-image", riffFile(append(append(chunkBytes("VP8X", vp8xPayload(0, p.W, p.H)), anim...), vp8...)))
	if thorough {
		// MaxFrames (10000) itself is not exercised: the extracted list-based model needs minutes per
		// such file; the limit's constant is tied to the source by C17_consts_match_source.
		for _, n := range []int{300} {
			body := append([]byte(nil), animHead...)
			for i := 0; i < n; i++ {
				body = append(body, frame...)
			}
			add(fmt.Sprintf("frames-%d", n), riffFile(body))
		}
	}
	return out
}

func main() {
	Main("c16", func(c *Ctx) {
		c.D.Rule = "files from webp.Encode (lossy/lossless/alpha/metadata), AnimEncoder (1..4 frames), mux.Muxer (stills with metadata, animations) and a grammar-directed generator of hand-assembled VP8X containers (image kind x ALPH kind x flag mode x metadata order x unknown chunks x VP8X size x canvas mode); one evaluation = all observables of one file; non-trivial = distinct (clause, file kind, format, alpha presence, colour model | animation, frame count)"
		c.D.Notes = append(c.D.Notes,
			"clause (a) [Decode-accepted stills: DecodeConfig/GetFeatures dims, colour model, format name; image.Decode dispatch; alpha flag for this package's files] and clause (b) [well-formed files: GetFeatures vs DecodeConfig vs mux.Demuxer vs animation.DecodeBytes on canvas, animation flag, frame count, loop count when animated] are evaluated on the real code",
			"correspondence: container.NewParser vs ParserModel.parse (F lines), and DecodeConfig/GetFeatures/Decode vs FeaturesModel with the codec verdicts observed on frame 0 as oracle (G lines)",
			"still files: container.Parser reports LoopCount 1 and mux.Demuxer 0; Features.LoopCount is documented as meaningful only for animations, so this is counted (distribution note:still-loopcount-differs) and not reported")
		rng := c.Rng.Fork()
		var files []c16File
		dims := [][2]int{{9, 7}, {16, 16}, {31, 18}}
		nplans := 3000
		if c.Thorough() {
			dims = append(dims, [2]int{64, 48}, [2]int{1, 1}, [2]int{3, 70})
			nplans = 40000
		}
		icc, exif, xmp := []byte("ICC-odd"), []byte("EXIF-even"), []byte("<xmp/>")
		// 1b. alpha flag: one translucent pixel at each critical position (first, last, start of the last row,
		// the last three pixels) for sizes with w*h mod 4 in {0,1,2,3}; lossless and lossy, with and without metadata
		for _, d := range [][2]int{{5, 3}, {3, 3}, {3, 2}, {4, 4}, {1, 7}, {7, 1}, {1, 1}, {2, 1}, {17, 3}} {
			w, h := d[0], d[1]
			n := w * h
			posSet := map[int]bool{0: true, n - 1: true, (h - 1) * w: true}
			for _, k := range []int{n - 2, n - 3} {
				if k >= 0 {
					posSet[k] = true
				}
			}
			for pos := 0; pos < n; pos++ {
				if !posSet[pos] {
					continue
				}
				for _, lossless := range []bool{true, false} {
					for _, meta := range []bool{false, true} {
						for _, av := range []uint8{0, 128, 254} {
							im := image.NewNRGBA(image.Rect(0, 0, w, h))
							for i := 0; i < n; i++ {
								im.Pix[i*4], im.Pix[i*4+1], im.Pix[i*4+2], im.Pix[i*4+3] = uint8(40+i*9), uint8(200-i*5), uint8(i*23), 255
							}
							im.Pix[pos*4+3] = av
							o := webp.DefaultOptions()
							o.Lossless = lossless
							o.Exact = rng.Bool()
							if meta {
								o.EXIF = exif
							}
							data, err := encodeFile(im, o)
							if err != nil {
								c.Violate("generator-encode-failed", "Encode failed", fmt.Sprint(err))
								continue
							}
							files = append(files, c16File{Kind: fmt.Sprintf("alpha-pos-%dx%d-mod%d-pos%d-a%d-lossless=%v-meta=%v", w, h, n%4, pos, av, lossless, meta),
								Data: data, WF: true, Ours: true})
						}
					}
				}
			}
		}
		// 2-4: per harvested size
		var parts []c16Parts
		for _, d := range dims {
			w, h := d[0], d[1]
			p, ok := harvest(c, rng, w, h)
			if !ok {
				c.Violate("generator-encode-failed", "could not harvest codec payloads", d)
				continue
			}
			parts = append(parts, p)
			// 1. webp.Encode in every mode
			for _, lossless := range []bool{false, true} {
				for am := 0; am <= 2; am++ {
					for meta := 0; meta < 3; meta++ {
						o := webp.DefaultOptions()
						o.Lossless = lossless
						o.Quality = float32(rng.Pick(30, 75, 95))
						o.Exact = rng.Bool()
						if meta >= 1 {
							o.ICC = icc
						}
						if meta == 2 {
							o.EXIF, o.XMP = exif, xmp
						}
						data, err := encodeFile(testImage(rng, w, h, am, 25), o)
						if err != nil {
							c.Violate("generator-encode-failed", "Encode failed", fmt.Sprint(err))
							continue
						}
						files = append(files, c16File{Kind: fmt.Sprintf("encode-lossless=%v-alpha%d-meta%d", lossless, am, meta), Data: data, WF: true, Ours: true})
					}
				}
			}
			// 2. animation encoder
			for _, nf := range []int{1, 2, 4} {
				for _, lossless := range []bool{true, false} {
					data, ok := animFile(c, rng, w, h, nf, lossless, rng.Pick(0, 1, 7, 65535), nf == 2)
					if !ok {
						c.Violate("generator-encode-failed", "AnimEncoder failed", nf)
						continue
					}
					_, pp := safeParse(data)
					files = append(files, c16File{Kind: fmt.Sprintf("animenc-%dframes-lossless=%v", nf, lossless), Data: data, WF: true, Ours: true, Animated: pp.HasAnim})
				}
			}
			// 3. muxer: still with metadata, still without, animation of raw frames
			for mi := 0; mi < 4; mi++ {
				m := mux.NewMuxer()
				var out bytes.Buffer
				kind := ""
				animated := false
				switch mi {
				case 0:
					m.AddFrame(p.VP8, nil)
					kind = "mux-still-vp8"
				case 1:
					m.AddFrame(p.VP8L, nil)
					m.SetEXIF(exif)
					m.SetICCProfile(icc)
					kind = "mux-still-vp8l-meta"
				case 2:
					m.SetCanvasSize(w, h)
					m.SetLoopCount(rng.Pick(0, 3, 65535))
					m.AddFrame(p.VP8L, &mux.FrameOptions{Duration: 30})
					m.AddFrame(p.VP8, &mux.FrameOptions{Duration: 50, BlendMode: mux.BlendNone})
					m.AddFrame(p.VP8LAlpha, &mux.FrameOptions{Duration: 0, DisposeMode: mux.DisposeBackground})
					kind, animated = "mux-anim-3", true
				case 3:
					m.SetCanvasSize(w+4, h+2)
					m.SetXMP(xmp)
					m.AddFrame(p.VP8, &mux.FrameOptions{Duration: 10, OffsetX: 2, OffsetY: 2})
					kind, animated = "mux-anim-1-offset", true
				}
				if err := m.Assemble(&out); err != nil {
					c.Violate("generator-encode-failed", "Muxer.Assemble failed: "+kind, fmt.Sprint(err))
					continue
				}
				files = append(files, c16File{Kind: kind, Data: out.Bytes(), WF: true, Ours: true, Animated: animated})
			}
		}
		// 4. hand-assembled stills: a structured sweep first, then random plans
		images := []string{"VP8", "VP8A", "VP8L", "VP8LAlpha", "VP8LNoBit"}
		for pi := range parts {
			p := &parts[pi]
			for _, im := range images {
				for ak := 0; ak <= 3; ak++ {
					for fm := 0; fm <= 2; fm++ {
						pl := c16Plan{Image: im, AlphKind: ak, FlagMode: fm, VP8XSize: 10}
						if im == "VP8A" && ak == 0 {
							continue // covered by "VP8"
						}
						data, wf := pl.build(p, rng)
						files = append(files, c16File{Kind: fmt.Sprintf("hand-%s-alph%d-flags%d", im, ak, fm), Data: data, WF: wf})
					}
				}
			}
		}
		for i := 0; i < nplans; i++ {
			r := rng.Fork()
			p := &parts[r.Intn(len(parts))]
			pl := c16Plan{Image: images[r.Intn(len(images))], AlphKind: r.Pick(0, 0, 1, 1, 2, 3), FlagMode: r.Intn(4),
				MetaOrder: r.Pick(0, 0, 1, 2), Unknown: r.Intn(4), VP8XSize: r.Pick(10, 10, 10, 12), CanvasMode: r.Pick(0, 0, 0, 1, 2),
				HasICC: r.Bool(), HasEXIF: r.Bool(), HasXMP: r.Bool(), DupALPH: r.Intn(8) == 0}
			blobs := [][]byte{{}, {7}, []byte("ab"), []byte("odd"), []byte("VP8 \x10\x00\x00\x00abcd"), []byte("RIFF")}
			pl.ICC, pl.EXIF, pl.XMP = blobs[r.Intn(len(blobs))], blobs[r.Intn(len(blobs))], blobs[r.Intn(len(blobs))]
			data, wf := pl.build(p, r)
			kind := fmt.Sprintf("rand-%s-alph%d-flags%d-order%d-unk%d-x%d-canvas%d", pl.Image, pl.AlphKind, pl.FlagMode, pl.MetaOrder, pl.Unknown, pl.VP8XSize, pl.CanvasMode)
			files = append(files, c16File{Kind: kind, Data: data, WF: wf})
		}
		// 4b. hand-assembled animations (well-formed and malformed ANIM / ANMF structure)
		for i := 0; i < nplans/2; i++ {
			r := rng.Fork()
			p := &parts[r.Intn(len(parts))]
			data, wf, kind := handAnim(p, r)
			files = append(files, c16File{Kind: kind, Data: data, WF: wf, Animated: true})
		}
		// 4c. one file per error branch / limit of the parser
		for pi := range parts[:1] {
			files = append(files, edgeFiles(&parts[pi], c.Thorough())...)
		}
		// 5. format registration: near-misses of the magic
		base := files[0].Data
		for i, mut := range []func([]byte){
			func(b []byte) { b[0] = 'r' }, func(b []byte) { b[8] = 'w' }, func(b []byte) { b[11] = 'Q' },
			func(b []byte) { b[4], b[5], b[6], b[7] = 0xff, 0xff, 0xff, 0xff }, func(b []byte) { b[3] = 'X' }} {
			d := append([]byte(nil), base...)
			mut(d)
			files = append(files, c16File{Kind: fmt.Sprintf("magic-mutation-%d", i), Data: d})
		}
		files = append(files, c16File{Kind: "magic-short-11", Data: base[:11]}, c16File{Kind: "magic-exact-12", Data: base[:12]})
		_ = color.NRGBAModel
		for i := range files {
			c16Check(c, &files[i])
			c16Carriers(c, &files[i])
		}
		// 5b. VP8X flags inconsistent with the chunks: every flag bit flipped on a sample of the well-formed VP8X files
		{
			var stills, anims []int
			for i := range files {
				if files[i].WF && len(files[i].Data) >= 30 && string(files[i].Data[12:16]) == "VP8X" {
					if files[i].Animated {
						anims = append(anims, i)
					} else {
						stills = append(stills, i)
					}
				}
			}
			pickN := func(ix []int, n int) []int {
				if len(ix) <= n || c.Thorough() && len(ix) <= 8*n {
					return ix
				}
				if c.Thorough() {
					n *= 8
				}
				var out []int
				for k := 0; k < n; k++ {
					out = append(out, ix[k*len(ix)/n])
				}
				return out
			}
			for _, i := range append(pickN(stills, 30), pickN(anims, 30)...) {
				bf := files[i]
				c16FlagFlips(c, &bf)
			}
		}
		// 6. the shared limits (10000 frames, 100 MB metadata), direct evaluation
		c16Limits(c, &parts[0], c.Thorough())
	})
}
