package main

// C06 — lossy decode equals the encoder's own reconstruction (no drift).
//
// For generated pictures x lossy options, on the encoder path the package itself
// chooses for the picture and the options (serial or row-parallel; the other,
// forced, path is a state the options cannot reach: it is evaluated and counted
// as an observation, never reported): the hook VerifEncodeLossyRecon returns the
// emitted VP8 bytes and the encoder's Y/U/V planes after EncodeFrame.
// Correspondence / specification: the extracted RFC 6386 decoder reconstructs
// the bytes (before the loop filter) -> must equal the hook planes.
// Direct evaluation on the Go side: hook bytes = webp.Encode's VP8 chunk; the
// Go decoder's pre-filter planes = hook planes; with FilterStrength 0
// webp.Decode's planes = hook planes; decoded dimensions = source dimensions.

import (
	"bytes"
	"encoding/hex"
	"fmt"
	"image"
	"image/color"
	"runtime"
	"runtime/debug"
	"sync/atomic"

	webp "github.com/deepteams/webp"

	. "verifharness/hlib"
)

func digest(b []byte) string {
	h1, h2 := 0, 0
	for _, x := range b {
		h1 = (h1*1000003 + int(x) + 1) % 998244353
		h2 = (h2*911 + int(x) + 7) % 1000000007
	}
	return fmt.Sprintf("%d.%d", h1, h2)
}

func vp8Payload(file []byte) []byte {
	if len(file) < 12 || string(file[0:4]) != "RIFF" || string(file[8:12]) != "WEBP" {
		return nil
	}
	p := 12
	for p+8 <= len(file) {
		id := string(file[p : p+4])
		sz := int(file[p+4]) | int(file[p+5])<<8 | int(file[p+6])<<16 | int(file[p+7])<<24
		if p+8+sz > len(file) {
			return nil
		}
		if id == "VP8 " {
			return file[p+8 : p+8+sz]
		}
		p += 8 + sz + (sz & 1)
	}
	return nil
}

func genImage(rng *Rand, w, h, kind int) *image.NRGBA {
	im := image.NewNRGBA(image.Rect(0, 0, w, h))
	base := [3]int{rng.Intn(256), rng.Intn(256), rng.Intn(256)}
	for y := 0; y < h; y++ {
		for x := 0; x < w; x++ {
			var r, g, b int
			switch kind {
			case 0:
				r, g, b = base[0], base[1], base[2]
			case 1:
				r, g, b = (base[0]+x*4)&255, (base[1]+y*4)&255, (base[2]+x+y)&255
			case 2:
				r, g, b = rng.Intn(256), rng.Intn(256), rng.Intn(256)
			case 3:
				if (x/3+y/5)%4 == 0 || (x%7 == 0 && y%3 != 0) {
					r, g, b = 0, 0, 0
				} else {
					r, g, b = 250, 250, 245
				}
			case 4: // flat areas (skipped macroblocks) next to busy ones
				if (x/16+y/16)%2 == 0 {
					r, g, b = base[0], base[1], base[2]
				} else {
					r, g, b = rng.Intn(256), (x*16)&255, (y*16)&255
				}
			case 6: // noise with ONE flat macroblock: a lone macroblock in a segment of its own
				if x/16 == 3 && y/16 == 5 {
					r, g, b = base[0], base[1], base[2]
				} else {
					r, g, b = rng.Intn(256), rng.Intn(256), rng.Intn(256)
				}
			default: // saturated colours and extreme noise: large levels
				if rng.Intn(2) == 0 {
					r, g, b = 255*rng.Intn(2), 255*rng.Intn(2), 255*rng.Intn(2)
				} else {
					r, g, b = 255*((x/2+y/2)%2), 255*((x/3)%2), 255*((y/3)%2)
				}
			}
			im.SetNRGBA(x, y, color.NRGBA{uint8(r), uint8(g), uint8(b), 255})
		}
	}
	return im
}

const siteUseParallel = 2 // lossy.EncodeFrame.useParallel

type c06Case struct {
	W, H, Kind int
	Path       string // "serial" | "parallel"
	Group      string // extra tag prefix of the generator family
	NoModel    bool   // Go-side evaluation only (no specification-decoder case)
	Opts       webp.EncoderOptions
}

func (e *c06Case) tag() string {
	o := e.Opts
	return fmt.Sprintf("%s%s:%dx%d:k%d:q%g:m%d:s%d:p%d:f%d.%d.%d:sns%d:pre%d:pass%d:ts%d:psnr%g:qmin%d:qmax%d:sharp%v", e.Group, e.Path, e.W, e.H, e.Kind,
		o.Quality, o.Method, o.Segments, o.Partitions, o.FilterStrength, o.FilterSharpness, o.FilterType, o.SNSStrength, o.Preset, o.Pass,
		o.TargetSize, o.TargetPSNR, o.QMin, o.QMax, o.UseSharpYUV)
}

// run evaluates one picture x options.  force 0: the path the encoder chooses (reportable);
// force 1 / 2: serial / parallel forced through the verif override - an encoder state outside the
// property's quantifier when it is not the chosen one: every finding becomes an "observation:" count.
func run(c *Ctx, e *c06Case, im *image.NRGBA, force int) {
	report := force == 0
	violate := func(key, desc string, replay any) {
		if report {
			c.Violate(key, desc, replay)
		} else {
			c.Count("observation:forced-path:" + key)
		}
	}
	tag := e.tag()
	cls := ""
	if e.Opts.TargetSize > 0 || e.Opts.TargetPSNR > 0 {
		cls = "ratecontrol:" // multi-pass quantiser search
	}
	replay := map[string]any{"tag": tag, "options": e.Opts, "w": e.W, "h": e.H, "kind": e.Kind, "pix": hex.EncodeToString(im.Pix)}
	defer func() {
		if r := recover(); r != nil {
			violate("panic", fmt.Sprint(r), replay)
		}
	}()
	if force != 0 {
		webp.VerifSetParallel(siteUseParallel, force)
		defer webp.VerifResetOverrides()
	}
	c.D.Evaluations++
	bs, w, h, ry, ru, rv, err := webp.VerifEncodeLossyRecon(im, &e.Opts)
	if err != nil {
		c.Count("encode-error")
		return
	}
	if !report {
		c.Count("observation:forced-path-evaluated")
	} else {
		c.Count("path:" + e.Path)
		c.Count(fmt.Sprintf("kind%d", e.Kind))
		c.Count(fmt.Sprintf("method%d", e.Opts.Method))
		c.Nontrivial(tag)
		c.Sample(tag)
	}
	// preconditions of the evaluation itself (not clauses of the property): the hook's planes have the
	// source's size, and the hook runs the same encoder as the public entry point
	if w != e.W || h != e.H {
		c.Count("observation:hook-planes-have-another-size")
		return
	}
	var buf bytes.Buffer
	if err := webp.Encode(&buf, im, &e.Opts); err != nil || !bytes.Equal(vp8Payload(buf.Bytes()), bs) {
		c.Count("observation:hook-bytes-differ-from-encode")
		return
	}
	// correspondence + specification: the model reconstructs the bytes
	if report && !e.NoModel {
		c.Case("recon "+tag+" "+hex.EncodeToString(bs), fmt.Sprintf("ok %d %d %s.%s.%s", w, h, digest(ry), digest(ru), digest(rv)))
		// the encoder reconstruction model on the choices recovered from the bytes = the encoder's planes
		// (every stream in the quick tier, every third one in the thorough tier).  The model emitter's
		// bytes are no longer compared with the encoder's: exact bytes are a representation.
		if !c.Thorough() || c.D.Evaluations%3 == 0 {
			c.Case("encrecon "+tag+" "+hex.EncodeToString(bs), fmt.Sprintf("ok %d %d %s.%s.%s", w, h, digest(ry), digest(ru), digest(rv)))
		}
	}
	// Go decoder, before the loop filter
	dw, dh, dy, du, dv, derr := webp.VerifLossyDecodeFrame(bs, true)
	if derr != nil {
		violate("encoder-output-undecodable", derr.Error(), replay)
		return
	}
	if dw != e.W || dh != e.H {
		violate("dims", fmt.Sprintf("decoded %dx%d, source %dx%d", dw, dh, e.W, e.H), replay)
	}
	if !bytes.Equal(dy, ry) || !bytes.Equal(du, ru) || !bytes.Equal(dv, rv) {
		violate("drift:"+cls+e.Path, "decoder reconstruction (before the loop filter) differs from the encoder's reconstruction", replay)
	}
	// public decode; with the loop filter off it must be the reconstruction itself
	img, perr := webp.Decode(bytes.NewReader(buf.Bytes()))
	if perr != nil {
		violate("encoder-output-undecodable", perr.Error(), replay)
		return
	}
	if img.Bounds().Dx() != e.W || img.Bounds().Dy() != e.H {
		violate("dims", fmt.Sprintf("webp.Decode %v, source %dx%d", img.Bounds(), e.W, e.H), replay)
	}
	if e.Opts.FilterStrength == 0 {
		c.Count("filter-off")
		yc, ok := img.(*image.YCbCr)
		if !ok {
			c.Count("observation:public-decode-returns-another-image-type")
			return
		}
		same := true
		cw, ch := (w+1)/2, (h+1)/2
		for j := 0; j < h && same; j++ {
			same = bytes.Equal(yc.Y[j*yc.YStride:j*yc.YStride+w], ry[j*w:(j+1)*w])
		}
		for j := 0; j < ch && same; j++ {
			same = bytes.Equal(yc.Cb[j*yc.CStride:j*yc.CStride+cw], ru[j*cw:(j+1)*cw]) &&
				bytes.Equal(yc.Cr[j*yc.CStride:j*yc.CStride+cw], rv[j*cw:(j+1)*cw])
		}
		if !same {
			violate("drift-filter-off:"+cls+e.Path, "webp.Decode planes differ from the encoder's reconstruction although FilterStrength is 0", replay)
		}
	}
}

// chosenPath names the path the encoder takes by itself for the picture and the options: the
// row-parallel encoder passes synchronisation points (verif yield callback), the serial one none.
func chosenPath(im *image.NRGBA, o *webp.EncoderOptions) string {
	var hit atomic.Bool
	webp.VerifSetYield(func(point, y, x int) { hit.Store(true) })
	defer webp.VerifSetYield(nil)
	if _, _, _, _, _, _, err := webp.VerifEncodeLossyRecon(im, o); err != nil {
		return "serial"
	}
	if hit.Load() {
		return "parallel"
	}
	return "serial"
}

func main() {
	Main("c06", func(c *Ctx) {
		c.D.Rule = "encoder reconstruction planes (hook) = specification decoder's pre-filter planes of the emitted bytes = Go decoder's pre-filter planes; = webp.Decode planes at FilterStrength 0; dimensions = source dimensions; serial and parallel encoder paths"
		rng := c.Rng.Fork()
		sizes := [][2]int{{1, 1}, {15, 17}, {16, 16}, {33, 65}, {64, 64}, {17, 1}, {1, 33}, {48, 32}, {31, 31}, {64, 17}, {40, 80}, {72, 56}, {24, 72}, {56, 49}}
		n := 112
		if c.Thorough() {
			n = 1500
			sizes = append(sizes, [2]int{128, 128}, [2]int{100, 130}, [2]int{255, 63}, [2]int{200, 90})
		}
		quals := []float32{0, 1, 30, 75, 95, 100}
		for i := 0; i < n; i++ {
			r := rng.Fork()
			sz := sizes[i%len(sizes)]
			e := &c06Case{W: sz[0], H: sz[1], Kind: r.Intn(6)}
			var o *webp.EncoderOptions
			if r.Intn(5) == 0 {
				o = webp.OptionsForPreset(webp.Preset(r.Intn(6)), quals[r.Intn(len(quals))])
			} else {
				o = webp.DefaultOptions()
				o.Quality = quals[r.Intn(len(quals))]
			}
			o.Method = r.Intn(7)
			o.Segments = 1 + r.Intn(4)
			o.Partitions = r.Intn(4)
			o.FilterStrength = r.Pick(0, 0, 20, 60, 100)
			o.FilterSharpness = r.Intn(8)
			o.FilterType = r.Intn(2)
			o.SNSStrength = r.Pick(0, 50, 100)
			o.Pass = r.Pick(1, 1, 2, 3)
			switch r.Intn(10) {
			case 0:
				o.TargetSize = r.Pick(100, 400, 2000)
			case 1:
				o.TargetPSNR = float32(r.Pick(25, 35, 45))
			case 2:
				o.QMin, o.QMax = r.Pick(0, 20, 50), r.Pick(60, 80, 100)
			case 3:
				o.UseSharpYUV = true
			case 4:
				o.Preprocessing = r.Intn(4)
			}
			e.Opts = *o
			im := genImage(r, e.W, e.H, e.Kind)
			e.Path = chosenPath(im, &e.Opts)
			run(c, e, im, 0)
			// the path the encoder did not choose: observation only (every second picture)
			if i%2 == 0 {
				e2 := *e
				e2.Group = "forced:"
				if e.Path == "serial" {
					e2.Path = "parallel"
					run(c, &e2, im, 2)
				} else {
					e2.Path = "serial"
					run(c, &e2, im, 1)
				}
			}
		}
		// >= 510 macroblocks with a lone macroblock in another segment: every segment-tree probability
		// rounds to 255, the encoder then does not write the segment map and must reconstruct every
		// macroblock with the quantiser the decoder will use (segment 0); 576 macroblocks take the
		// extracted specification decoder minutes, so the model case is for the thorough tier and the
		// quick tier compares the encoder's planes with the Go decoder's (C04 ties that to the format)
		for i, segs := range []int{2, 4, 3} {
			if i == 2 && !c.Thorough() {
				break
			}
			r := rng.Fork()
			o := webp.DefaultOptions()
			o.Quality = float32(r.Pick(50, 75, 90))
			o.Segments = segs
			o.FilterStrength = r.Pick(0, 60)
			e := &c06Case{W: 384, H: 384, Kind: 6, Group: "lone-segment:", NoModel: i != 0 || !c.Thorough(), Opts: *o}
			im := genImage(r, e.W, e.H, e.Kind)
			e.Path = chosenPath(im, &e.Opts)
			run(c, e, im, 0)
		}
		rateControlCases(c)
		pooledPairCases(c)
	})
}

// rateControlCases: TargetSize / TargetPSNR x Pass in {1,2,3,4,6,10}, several targets per picture
// chosen around what the picture needs, so that the quantiser search converges early in some runs
// and runs out of passes in others (serial frame loop, adjustQuantForTarget).
func rateControlCases(c *Ctx) {
	rng := c.Rng.Fork()
	pics := 5
	if c.Thorough() {
		pics = 30
	}
	passes := []int{1, 2, 3, 4, 6, 10}
	for pi := 0; pi < pics; pi++ {
		r := rng.Fork()
		w, h := r.Pick(48, 64, 33), r.Pick(48, 64, 40)
		kind := r.Pick(1, 2, 4, 5)
		im := genImage(r, w, h, kind)
		// size of a plain quality-75 encode as the reference point for the targets
		var ref bytes.Buffer
		o0 := webp.DefaultOptions()
		o0.Method = r.Pick(0, 2, 4)
		if err := webp.Encode(&ref, im, o0); err != nil {
			continue
		}
		base := ref.Len()
		targets := []int{base / 3, base / 2, base * 3 / 4, base, base * 5 / 4, base * 2}
		psnrs := []float32{28, 34, 38, 42}
		k := 0
		for _, ps := range passes {
			nt := 3
			if ps >= 4 {
				nt = 5
			}
			for ti := 0; ti < nt; ti++ {
				o := *o0
				o.Pass = ps
				o.Segments = 1 + r.Intn(4)
				o.FilterStrength = r.Pick(0, 20, 60)
				if (k+ti)%3 == 2 {
					o.TargetPSNR = psnrs[(k+pi)%len(psnrs)]
				} else {
					o.TargetSize = targets[(k+ti+pi)%len(targets)]
				}
				k++
				e := &c06Case{W: w, H: h, Kind: kind, Path: "serial", Group: "rate:", Opts: o}
				c.Count(fmt.Sprintf("ratecontrol:pass%d", ps))
				run(c, e, im, 0)
			}
		}
	}
}

// pooledPairCases: a wide picture and then a narrower one through the row-parallel encoder, back to
// back on one goroutine with the garbage collector held off, so that the narrow encode receives the
// pooled parallel state sized for the wide one. Textured content (4x4 modes with above-right
// dependence in the last macroblock column), Method >= 3, at least 4 macroblock rows.
func pooledPairCases(c *Ctx) {
	rng := c.Rng.Fork()
	pairs := [][2]int{{160, 49}, {160, 33}, {144, 65}, {128, 17}, {176, 81}, {96, 48}, {208, 97}, {160, 16}}
	reps := 2
	if c.Thorough() {
		reps = 12
	}
	old := debug.SetGCPercent(-1)
	defer debug.SetGCPercent(old)
	runtime.LockOSThread()
	defer runtime.UnlockOSThread()
	for rep := 0; rep < reps; rep++ {
		for _, pr := range pairs {
			r := rng.Fork()
			h := r.Pick(64, 80, 96)
			kind := r.Pick(2, 5, 2)
			o := webp.DefaultOptions()
			o.Method = r.Pick(3, 4, 5, 6)
			o.Quality = float32(r.Pick(50, 75, 90))
			o.FilterStrength = r.Pick(0, 30)
			wide := genImage(r, pr[0], h, kind)
			narrow := genImage(r, pr[1], h, kind)
			ew := &c06Case{W: pr[0], H: h, Kind: kind, Path: "parallel", Group: "pairwide:", Opts: *o, NoModel: true}
			en := &c06Case{W: pr[1], H: h, Kind: kind, Path: "parallel", Group: "pairnarrow:", Opts: *o}
			c.Count("pooled-pair")
			run(c, ew, wide, 0)
			run(c, en, narrow, 0)
		}
	}
}
