package main

// C14 — muxing then demuxing returns exactly what was put in.
//
// Correspondence: random Muxer call histories (<= 12 calls) over a pool of real
// bitstreams; Go Assemble bytes and per-call results vs the Coq muxer model (exact
// bytes), Go NewDemuxer accessors vs the Coq demuxer model, and the round trip in
// "view" form vs the Coq specification (view of what was put in + RiffGrammar.wf).
// Direct evaluation (Go only): an independent shadow of what was put in, an
// independent RIFF walker, mux -> demux comparison, webp.GetFeatures / webp.Decode
// (container.Parser) vs the demuxer, and "what must be rejected is rejected".

import (
	"bytes"
	"encoding/binary"
	"encoding/hex"
	"fmt"
	"math"
	"os"
	"path/filepath"
	"regexp"
	"strconv"
	"strings"

	webp "github.com/deepteams/webp"
	"github.com/deepteams/webp/mux"

	. "verifharness/hlib"
	"verifharness/muxh"
)

type op struct {
	K       string // AF DM DU IC EX XM AC LC BG CS AS
	Data    []byte
	HasOpts bool
	Dur     int
	OX, OY  int
	Blend   int
	Disp    int
	I, V    int
	ID      uint32
	W, H    int
	Item    *muxh.PoolItem // AF: what the harness knows about Data (nil for garbage)
}

func (o *op) line() string {
	switch o.K {
	case "AF":
		h := "-"
		if len(o.Data) > 0 {
			h = hex.EncodeToString(o.Data)
		}
		f := "n"
		if o.HasOpts {
			f = "o"
		}
		return fmt.Sprintf("AF %s %s %d %d %d %d %d", h, f, o.Dur, o.OX, o.OY, o.Blend, o.Disp)
	case "DM", "DU":
		return fmt.Sprintf("%s %d %d", o.K, o.I, o.V)
	case "IC", "EX", "XM":
		return fmt.Sprintf("%s %s", o.K, muxh.Blob(o.Data))
	case "AC":
		return fmt.Sprintf("AC %d %s", o.ID, muxh.Blob(o.Data))
	case "LC":
		return fmt.Sprintf("LC %d", o.V)
	case "BG":
		return fmt.Sprintf("BG %d", o.ID)
	case "CS":
		return fmt.Sprintf("CS %d %d", o.W, o.H)
	case "AS":
		return "AS"
	}
	panic("op kind")
}

// apply performs the call on the real Muxer; returns whether it reported an error.
func (o *op) apply(m *mux.Muxer) bool {
	switch o.K {
	case "AF":
		var fo *mux.FrameOptions
		if o.HasOpts {
			fo = &mux.FrameOptions{Duration: o.Dur, OffsetX: o.OX, OffsetY: o.OY, BlendMode: mux.BlendMode(o.Blend), DisposeMode: mux.DisposeMode(o.Disp)}
		}
		return m.AddFrame(o.Data, fo) != nil
	case "DM":
		m.SetFrameDisposeMode(o.I, mux.DisposeMode(o.V))
	case "DU":
		m.SetFrameDuration(o.I, o.V)
	case "IC":
		m.SetICCProfile(o.Data)
	case "EX":
		m.SetEXIF(o.Data)
	case "XM":
		m.SetXMP(o.Data)
	case "AC":
		return m.AddChunk(o.ID, o.Data) != nil
	case "LC":
		m.SetLoopCount(o.V)
	case "BG":
		m.SetBackgroundColor(o.ID)
	case "CS":
		m.SetCanvasSize(o.W, o.H)
	case "AS": // Assemble in the middle of the history; the bytes are discarded, the result is observed
		var buf bytes.Buffer
		return m.Assemble(&buf) != nil
	}
	return false
}

// ---- the harness's own account of what was put in (documented semantics) ----

type shFrame struct {
	item                        *muxh.PoolItem
	data                        []byte
	dur, ox, oy, blend, dispose int
}

type shadow struct {
	frames         []shFrame
	icc, exif, xmp []byte
	bg             uint32
	loop           int
	cw, ch         int
}

func clampDur(d int) int {
	if d < 0 {
		return 0
	}
	if d > 0xFFFFFF {
		return 0xFFFFFF
	}
	return d
}

func (s *shadow) apply(o *op) {
	switch o.K {
	case "AF":
		if len(o.Data) == 0 || len(s.frames) >= 10000 {
			return
		}
		f := shFrame{item: o.Item, data: o.Data}
		if o.HasOpts {
			f.dur, f.ox, f.oy, f.blend, f.dispose = clampDur(o.Dur), o.OX, o.OY, o.Blend, o.Disp
		}
		s.frames = append(s.frames, f)
	case "DM":
		if o.I >= 0 && o.I < len(s.frames) {
			s.frames[o.I].dispose = o.V
		}
	case "DU":
		if o.I >= 0 && o.I < len(s.frames) {
			s.frames[o.I].dur = clampDur(o.V)
		}
	case "IC":
		s.icc = o.Data
	case "EX":
		s.exif = o.Data
	case "XM":
		s.xmp = o.Data
	case "AC":
		if len(o.Data) > 100*1024*1024 {
			return
		}
		switch o.ID {
		case mux.FourCCICCP:
			s.icc = o.Data
		case mux.FourCCEXIF:
			s.exif = o.Data
		case mux.FourCCXMP:
			s.xmp = o.Data
		}
	case "LC":
		s.loop = o.V
		if s.loop < 0 {
			s.loop = 0
		}
		if s.loop > 65535 {
			s.loop = 65535
		}
	case "BG":
		s.bg = o.ID
	case "CS":
		s.cw, s.ch = o.W, o.H
		if s.cw > 1<<24 {
			s.cw = 1 << 24
		}
		if s.ch > 1<<24 {
			s.ch = 1 << 24
		}
	}
}

func (s *shadow) animated() bool {
	if len(s.frames) > 1 {
		return true
	}
	for _, f := range s.frames {
		if f.dur > 0 {
			return true
		}
	}
	return false
}

func (s *shadow) allValid() bool {
	for _, f := range s.frames {
		if f.item == nil || !f.item.Valid {
			return false
		}
	}
	return true
}

// canvas: explicit if both > 0, else the extent of the frames (saturating).
func (s *shadow) canvas() (int, int) {
	if s.cw > 0 && s.ch > 0 {
		return s.cw, s.ch
	}
	mw, mh := 0, 0
	for _, f := range s.frames {
		ex, ey := satAdd(f.ox, f.item.W), satAdd(f.oy, f.item.H)
		if ex > mw {
			mw = ex
		}
		if ey > mh {
			mh = ey
		}
	}
	if mw == 0 {
		mw = 1
	}
	if mh == 0 {
		mh = 1
	}
	return mw, mh
}

func satAdd(a, b int) int {
	if b > 0 && a > math.MaxInt-b {
		return math.MaxInt
	}
	return a + b
}

// class of the final state (first match); "general" = everything the property's
// plain reading covers, the others are the boundary classes decided in notes.
func (s *shadow) class() string {
	if len(s.frames) == 0 {
		return "no-frames"
	}
	if !s.allValid() {
		return "invalid-frame"
	}
	for _, f := range s.frames {
		if f.ox < 0 || f.oy < 0 {
			return "neg-offset"
		}
	}
	for _, f := range s.frames {
		if f.ox/2 >= 1<<24 || f.oy/2 >= 1<<24 {
			return "big-offset"
		}
	}
	cw, ch := s.canvas()
	for _, f := range s.frames {
		if satAdd(f.ox, f.item.W) > cw || satAdd(f.oy, f.item.H) > ch {
			return "outside-canvas" // must be rejected
		}
	}
	if cw > 1<<24 || ch > 1<<24 || uint64(cw)*uint64(ch) >= 1<<30 {
		return "canvas-limit"
	}
	if !s.animated() {
		f := s.frames[0]
		if f.ox != 0 || f.oy != 0 {
			return "still-offset"
		}
		if cw != f.item.W || ch != f.item.H {
			return "still-canvas"
		}
		if f.item.Alpha != nil {
			return "still-alph"
		}
	}
	return "general"
}

func evenDown(v int) int { return v &^ 1 } // floor to even (also for negatives)

func (s *shadow) view() string {
	var fr []string
	anim := s.animated()
	for _, f := range s.frames {
		// blend/dispose exist only inside ANMF: not part of the view of a still picture
		fr = append(fr, fmt.Sprintf("%s,%s,%d,%d,%d,%d,%d", muxh.FmtBytes(f.item.Bits), muxh.FmtOBlob(f.item.Alpha),
			evenDown(f.ox), evenDown(f.oy), f.dur, muxh.B2i(anim && f.blend == 1), muxh.B2i(anim && f.dispose == 1)))
	}
	cw, ch := s.canvas()
	loop, bg := 0, uint32(0)
	if s.animated() {
		loop, bg = s.loop, s.bg
	}
	return fmt.Sprintf("V=%d[%s] %dx%d a=%d l=%d b=%d m=%s,%s,%s", len(fr), strings.Join(fr, ";"), cw, ch,
		muxh.B2i(s.animated()), loop, bg, muxh.FmtOBlob(s.icc), muxh.FmtOBlob(s.exif), muxh.FmtOBlob(s.xmp))
}

func demuxView(d *mux.Demuxer) string {
	var fr []string
	for i := 0; i < d.NumFrames(); i++ {
		fi, err := d.Frame(i)
		if err != nil {
			return "frame-err"
		}
		if fi.Data == nil {
			return "demux-nil-frame"
		}
		fr = append(fr, fmt.Sprintf("%s,%s,%d,%d,%d,%d,%d", muxh.FmtBytes(fi.Data), muxh.FmtOBlob(fi.AlphaData),
			fi.OffsetX, fi.OffsetY, fi.Duration, muxh.B2i(fi.BlendMode == 1), muxh.B2i(fi.DisposeMode == 1)))
	}
	f := d.GetFeatures()
	icc, _ := d.GetChunk(mux.FourCCICCP)
	exif, _ := d.GetChunk(mux.FourCCEXIF)
	xmp, _ := d.GetChunk(mux.FourCCXMP)
	return fmt.Sprintf("V=%d[%s] %dx%d a=%d l=%d b=%d m=%s,%s,%s", len(fr), strings.Join(fr, ";"), f.Width, f.Height,
		muxh.B2i(f.HasAnimation), d.LoopCount(), d.BackgroundColor(), muxh.FmtOBlob(icc), muxh.FmtOBlob(exif), muxh.FmtOBlob(xmp))
}

// runOps performs the history on a fresh Muxer and assembles.
func runOps(ops []op) (outs string, status string, file []byte) {
	defer func() {
		if r := recover(); r != nil {
			status, file = "panic", nil
		}
	}()
	m := mux.NewMuxer()
	var sb strings.Builder
	for i := range ops {
		if ops[i].apply(m) {
			sb.WriteByte('e')
		} else {
			sb.WriteByte('k')
		}
	}
	outs = sb.String()
	var buf bytes.Buffer
	if err := m.Assemble(&buf); err != nil {
		return outs, "err", nil
	}
	return outs, "ok", buf.Bytes()
}

func opsLine(ops []op) string {
	var p []string
	for i := range ops {
		p = append(p, ops[i].line())
	}
	return strings.Join(p, " ")
}

// structure check with the harness's own walker: the file tiles, the layout fits
// the first chunk, VP8X flags say which chunks are present, payloads are the inputs.
func walkCheck(file []byte, s *shadow, maskCanvas bool) string {
	cs, ok := muxh.WalkFile(file)
	if !ok || len(cs) == 0 {
		return "file does not tile into chunks / RIFF size wrong"
	}
	if cs[0].ID != "VP8X" {
		if len(cs) != 1 || (cs[0].ID != "VP8 " && cs[0].ID != "VP8L") {
			return "simple layout with extra chunks"
		}
		f := s.frames[0]
		if !bytes.Equal(cs[0].Data, f.item.Bits) || (cs[0].ID == "VP8L") != f.item.Lossless {
			return "simple layout: chunk is not the bitstream that was put in"
		}
		if s.icc != nil || s.exif != nil || s.xmp != nil || s.animated() || f.item.Alpha != nil {
			return "simple layout although metadata/animation/alpha was put in"
		}
		return ""
	}
	if len(cs[0].Data) != 10 {
		return "VP8X size"
	}
	flags := cs[0].Data[0]
	has := map[string]int{}
	alpha := false
	var imgs [][2][]byte // alpha, bits
	var cur []byte
	for _, c := range cs[1:] {
		has[c.ID]++
		switch c.ID {
		case "ANMF":
			var a, b []byte
			for _, sc := range c.Sub {
				switch sc.ID {
				case "ALPH":
					a = sc.Data
					alpha = true
				case "VP8 ":
					b = sc.Data
				case "VP8L":
					b = sc.Data
					if len(b) >= 5 && (b[4]>>4)&1 == 1 {
						alpha = true
					}
				}
			}
			imgs = append(imgs, [2][]byte{a, b})
		case "ALPH":
			cur = c.Data
			alpha = true
		case "VP8 ":
			imgs = append(imgs, [2][]byte{cur, c.Data})
		case "VP8L":
			imgs = append(imgs, [2][]byte{nil, c.Data})
			if len(c.Data) >= 5 && (c.Data[4]>>4)&1 == 1 {
				alpha = true
			}
		}
	}
	bit := func(k byte) bool { return flags&k != 0 }
	if bit(32) != (has["ICCP"] > 0) || bit(8) != (has["EXIF"] > 0) || bit(4) != (has["XMP "] > 0) ||
		bit(2) != (has["ANIM"] > 0) || bit(2) != (has["ANMF"] > 0) || bit(16) != alpha || flags&^62 != 0 {
		return fmt.Sprintf("VP8X flags %#x do not match the chunks present", flags)
	}
	if (has["ICCP"] > 0) != (s.icc != nil) || (has["EXIF"] > 0) != (s.exif != nil) || (has["XMP "] > 0) != (s.xmp != nil) {
		return "metadata chunks present differ from what was set"
	}
	if len(imgs) != len(s.frames) {
		return fmt.Sprintf("%d images in the file, %d frames put in", len(imgs), len(s.frames))
	}
	for i, im := range imgs {
		it := s.frames[i].item
		if !bytes.Equal(im[1], it.Bits) || (im[0] == nil) != (it.Alpha == nil) || !bytes.Equal(im[0], it.Alpha) {
			return fmt.Sprintf("frame %d: bitstream/alpha chunk payloads differ from the input", i)
		}
	}
	cw := 1 + int(cs[0].Data[4]) + int(cs[0].Data[5])<<8 + int(cs[0].Data[6])<<16
	ch := 1 + int(cs[0].Data[7]) + int(cs[0].Data[8])<<8 + int(cs[0].Data[9])<<16
	ecw, ech := s.canvas()
	if !maskCanvas && (cw != ecw || ch != ech) {
		return fmt.Sprintf("VP8X canvas %dx%d, put in %dx%d", cw, ch, ecw, ech)
	}
	return ""
}

// parserCheck: container.Parser (through GetFeatures / Decode) vs the demuxer.
var observe func(string) // set by main: distribution counter for things C14 does not judge

func parserCheck(file []byte, d *mux.Demuxer, s *shadow) (res string) {
	defer func() {
		if r := recover(); r != nil {
			res = fmt.Sprintf("container parser panicked: %v", r)
		}
	}()
	ft, err := webp.GetFeatures(bytes.NewReader(file))
	if err != nil {
		return "GetFeatures rejects the assembled file: " + err.Error()
	}
	df := d.GetFeatures()
	if ft.Width != df.Width || ft.Height != df.Height || ft.HasAnimation != df.HasAnimation || ft.FrameCount != d.NumFrames() ||
		ft.HasAlpha != df.HasAlpha || (df.HasAnimation && ft.LoopCount != d.LoopCount()) {
		return fmt.Sprintf("GetFeatures %+v vs demuxer %+v frames=%d loop=%d", *ft, df, d.NumFrames(), d.LoopCount())
	}
	if !s.animated() && observe != nil {
		// webp.Decode also runs the pixel codec, which is not C14's subject: observed only
		im, err := webp.Decode(bytes.NewReader(file))
		switch {
		case err != nil:
			observe("observation: Decode rejects an assembled still file")
		case im.Bounds().Dx() != s.frames[0].item.W || im.Bounds().Dy() != s.frames[0].item.H:
			observe("observation: Decode returns other dimensions than the frame put in")
		default:
			observe("observation: Decode accepts the assembled still file")
		}
	}
	return ""
}

// ---- generators ----

var unknownID = uint32(1313558101) // "UNKN"

// realistic metadata shapes: what cameras / editors put into EXIF, XMP and ICCP chunks, and
// blobs a reader might be tempted to interpret (leading FourCC, APP1 identifier, all zero)
func (g *gen) shapedBlob() []byte {
	tail := g.rng.Bytes(g.rng.Range(0, 24))
	tiffLE := append([]byte("II*\x00\x08\x00\x00\x00"), tail...)
	tiffBE := append([]byte("MM\x00*\x00\x00\x00\x08"), tail...)
	switch g.rng.Intn(12) {
	case 0:
		return append([]byte("Exif\x00\x00"), tiffLE...)
	case 1:
		return append([]byte("Exif\x00\x00"), tiffBE...)
	case 2:
		return []byte("Exif\x00\x00") // the identifier alone
	case 3:
		return tiffLE
	case 4:
		return tiffBE
	case 5:
		return append([]byte("<?xpacket begin=\"\xef\xbb\xbf\" id=\"W5M0MpCehiHzreSzNTczkc9d\"?><x:xmpmeta xmlns:x=\"adobe:ns:meta/\">"), tail...)
	case 6: // ICC profile header: size, CMM, version, class, colour space, PCS, date, "acsp" at offset 36
		h := make([]byte, 128)
		binary.BigEndian.PutUint32(h[0:], uint32(128+len(tail)))
		copy(h[12:], "mntrRGB XYZ ")
		copy(h[36:], "acsp")
		return append(h, tail...)
	case 7:
		tags := []string{"VP8X", "ANMF", "RIFF", "EXIF", "ALPH", "VP8 ", "ANIM"}
		return append([]byte(tags[g.rng.Intn(len(tags))]), tail...)
	case 8:
		return make([]byte, g.rng.Range(1, 33)) // all zero
	case 9:
		return []byte{byte(g.rng.U64())} // length 1
	case 10:
		return append([]byte("Exif\x00"), tail...) // near miss of the identifier
	default:
		return append(append([]byte{}, tail...), []byte("Exif\x00\x00II*\x00")...) // identifier not at the start
	}
}

func (g *gen) blob() []byte {
	if g.rng.Intn(3) == 0 {
		return g.shapedBlob()
	}
	switch g.rng.Intn(8) {
	case 0:
		return nil
	case 1:
		return []byte{}
	case 2:
		return g.rng.Bytes(1)
	default:
		return g.rng.Bytes(g.rng.Range(1, 40))
	}
}

type gen struct {
	rng  *Rand
	pool []muxh.PoolItem
}

func (g *gen) item() *muxh.PoolItem { return &g.pool[g.rng.Intn(len(g.pool))] }

func (g *gen) garbage() []byte {
	switch g.rng.Intn(4) {
	case 0:
		return g.rng.Bytes(g.rng.Range(1, 30))
	case 1: // ALPH prefix whose size overruns
		d := append([]byte("ALPH"), 0xff, 0xff, 0, 0)
		return append(d, g.rng.Bytes(g.rng.Range(0, 20))...)
	case 2: // truncated VP8 header
		it := g.item()
		n := g.rng.Range(1, 9)
		if n > len(it.Bits) {
			n = len(it.Bits)
		}
		return append([]byte{}, it.Bits[:n]...)
	default: // VP8 header with wrong start code
		return []byte{0, 0, 0, 0x9d, 0x01, 0x2b, 4, 0, 4, 0, 1, 2}
	}
}

func (g *gen) metaOps() []op {
	var ops []op
	for _, k := range []string{"IC", "EX", "XM"} {
		if g.rng.Intn(3) == 0 {
			ops = append(ops, op{K: k, Data: g.blob()})
		}
	}
	if g.rng.Intn(6) == 0 {
		ids := []uint32{mux.FourCCICCP, mux.FourCCEXIF, mux.FourCCXMP, unknownID, mux.FourCCVP8}
		ops = append(ops, op{K: "AC", ID: ids[g.rng.Intn(len(ids))], Data: g.blob()})
	}
	return ops
}

func shuffle(rng *Rand, ops []op, keepFramesOrdered bool) []op {
	// setters commute with each other and with AddFrame except index-based ones, which are generated after
	for i := len(ops) - 1; i > 0; i-- {
		j := rng.Intn(i + 1)
		ops[i], ops[j] = ops[j], ops[i]
	}
	return ops
}

func (g *gen) cleanStill() []op {
	it := g.item()
	o := op{K: "AF", Data: it.Data, Item: it}
	if g.rng.Bool() {
		o.HasOpts = true
		o.Blend, o.Disp = g.rng.Intn(2), g.rng.Intn(2)
	}
	ops := append([]op{o}, g.metaOps()...)
	if g.rng.Intn(4) == 0 {
		ops = append(ops, op{K: "CS", W: it.W, H: it.H})
	}
	if g.rng.Intn(5) == 0 {
		ops = append(ops, op{K: "LC", V: g.rng.Intn(9)}, op{K: "BG", ID: uint32(g.rng.U64())})
	}
	return shuffle(g.rng, ops, false)
}

func (g *gen) cleanAnim() []op {
	n := g.rng.Range(1, 5)
	var ops []op
	mw, mh := 0, 0
	for i := 0; i < n; i++ {
		it := g.item()
		o := op{K: "AF", Data: it.Data, Item: it, HasOpts: true, Dur: g.rng.Pick(1, 10, 40, 100, 0xFFFFFF, 0xFFFFFF+5),
			OX: g.rng.Pick(0, 0, 2, 3, 10, 101, 4000), OY: g.rng.Pick(0, 0, 2, 5, 16, 777), Blend: g.rng.Pick(0, 1, 1, 2), Disp: g.rng.Pick(0, 1, 1, 3)}
		if n > 1 && g.rng.Intn(4) == 0 {
			o.Dur = g.rng.Pick(0, -3)
		}
		if o.OX+it.W > mw {
			mw = o.OX + it.W
		}
		if o.OY+it.H > mh {
			mh = o.OY + it.H
		}
		ops = append(ops, o)
	}
	var post []op
	switch g.rng.Intn(4) {
	case 0:
		post = append(post, op{K: "CS", W: mw, H: mh})
	case 1:
		post = append(post, op{K: "CS", W: mw + g.rng.Intn(50), H: mh + g.rng.Intn(50)})
	}
	if g.rng.Bool() {
		post = append(post, op{K: "LC", V: g.rng.Pick(0, 1, 7, 65535, 65536, -1)})
	}
	if g.rng.Bool() {
		post = append(post, op{K: "BG", ID: uint32(g.rng.U64())})
	}
	post = append(post, g.metaOps()...)
	if g.rng.Intn(3) == 0 {
		post = append(post, op{K: "DM", I: g.rng.Range(-1, n), V: g.rng.Pick(0, 1, 2)})
	}
	if g.rng.Intn(3) == 0 {
		post = append(post, op{K: "DU", I: g.rng.Range(-1, n), V: g.rng.Pick(1, 5, 1000, 0xFFFFFF+1)})
	}
	// interleave: setters not depending on an index may come anywhere
	var out []op
	pi := 0
	for _, f := range ops {
		for pi < len(post) && post[pi].K != "DM" && post[pi].K != "DU" && g.rng.Intn(3) == 0 {
			out = append(out, post[pi])
			pi++
		}
		out = append(out, f)
	}
	out = append(out, post[pi:]...)
	if len(out) > 12 {
		out = out[:12]
	}
	return out
}

var wildInts = []int{0, 1, -1, 2, -2, 3, 7, 100, 1 << 24, 1<<24 + 10, 1<<25 - 2, 1 << 25, 1<<25 + 2, 1 << 31, math.MaxInt64, math.MaxInt64 - 3, math.MinInt64, -1 << 25, 16383, 16384, 40000}

func (g *gen) wild() []op {
	n := g.rng.Range(1, 12)
	var ops []op
	nf := 0
	wi := func() int { return wildInts[g.rng.Intn(len(wildInts))] }
	for i := 0; i < n; i++ {
		switch g.rng.Intn(12) {
		case 0, 1, 2, 3:
			o := op{K: "AF"}
			switch g.rng.Intn(10) {
			case 0:
				o.Data = g.garbage()
				o.Item = &muxh.PoolItem{Valid: false}
			case 1:
				o.Data = nil
				if g.rng.Bool() {
					o.Data = []byte{}
				}
			default:
				it := g.item()
				o.Data, o.Item = it.Data, it
			}
			if g.rng.Intn(4) != 0 {
				o.HasOpts = true
				o.Dur = g.rng.Pick(0, 0, 1, 20, -7, 0xFFFFFF, 1<<24, 1<<40)
				if g.rng.Intn(3) == 0 {
					o.OX, o.OY = wi(), wi()
				} else {
					o.OX, o.OY = g.rng.Pick(0, 0, 0, 1, 2, 6, 9), g.rng.Pick(0, 0, 0, 1, 4, 8)
				}
				o.Blend, o.Disp = g.rng.Pick(0, 1, 2, -1), g.rng.Pick(0, 1, 5)
			}
			ops = append(ops, o)
			nf++
		case 4:
			ops = append(ops, op{K: "DM", I: g.rng.Range(-2, nf+1), V: g.rng.Pick(0, 1, 2, -1)})
		case 5:
			ops = append(ops, op{K: "DU", I: g.rng.Range(-2, nf+1), V: g.rng.Pick(0, 1, 30, -5, 0xFFFFFF, 1<<24)})
		case 6:
			ops = append(ops, op{K: []string{"IC", "EX", "XM"}[g.rng.Intn(3)], Data: g.blob()})
		case 7:
			ids := []uint32{mux.FourCCICCP, mux.FourCCEXIF, mux.FourCCXMP, unknownID, mux.FourCCANMF}
			ops = append(ops, op{K: "AC", ID: ids[g.rng.Intn(len(ids))], Data: g.blob()})
		case 8:
			ops = append(ops, op{K: "LC", V: g.rng.Pick(0, 1, 3, -1, 65535, 65536, 1<<40)})
		case 9:
			ops = append(ops, op{K: "BG", ID: uint32(g.rng.U64())})
		default:
			if g.rng.Intn(3) == 0 {
				ops = append(ops, op{K: "CS", W: wi(), H: wi()})
			} else {
				ops = append(ops, op{K: "CS", W: g.rng.Pick(1, 4, 8, 16, 40, 64, 100, 5000, 32768, 40000), H: g.rng.Pick(1, 4, 6, 16, 33, 40, 100, 5000, 32768, 40000)})
			}
		}
	}
	return ops
}

// setter-after-add histories: the state that decides the layout (animated or not, dispose,
// duration) is changed by SetFrameDuration / SetFrameDisposeMode after AddFrame.
func (g *gen) setterOrder() []op {
	it := g.item()
	af := func(it *muxh.PoolItem, hasOpts bool, dur, ox, oy int) op {
		return op{K: "AF", Data: it.Data, Item: it, HasOpts: hasOpts, Dur: dur, OX: ox, OY: oy, Blend: g.rng.Intn(2), Disp: g.rng.Intn(2)}
	}
	anim := []op{{K: "LC", V: g.rng.Range(1, 9)}, {K: "BG", ID: uint32(g.rng.U64()) | 1}}
	var ops []op
	switch g.rng.Intn(7) {
	case 0: // still by AddFrame, animated by a later SetFrameDuration
		ops = append([]op{af(it, g.rng.Bool(), 0, 0, 0), {K: "DU", I: 0, V: g.rng.Pick(1, 120, 0xFFFFFF, 1<<24)}}, anim...)
	case 1: // the same with an offset (legal only because the frame becomes animated)
		ops = append([]op{af(it, true, 0, 2*g.rng.Range(1, 4), 2*g.rng.Range(0, 3)), {K: "DU", I: 0, V: g.rng.Pick(1, 50)}}, anim...)
	case 2: // animated by AddFrame, still after SetFrameDuration(0, 0 or negative)
		ops = append([]op{af(it, true, g.rng.Pick(1, 40), 0, 0), {K: "DU", I: 0, V: g.rng.Pick(0, -5)}}, anim...)
	case 3: // duration set, reset, set again; dispose toggled
		ops = []op{af(it, true, 30, 0, 0), {K: "DU", I: 0, V: 0}, {K: "DM", I: 0, V: 1}, {K: "DU", I: 0, V: g.rng.Pick(7, 70)}, {K: "DM", I: 0, V: g.rng.Intn(2)}}
		ops = append(ops, anim...)
	case 4: // two frames, both durations 0 (animated because of the count), then one set
		it2 := g.item()
		ops = []op{af(it, true, 0, 0, 0), af(it2, g.rng.Bool(), 0, 0, 0), {K: "DU", I: g.rng.Intn(2), V: g.rng.Pick(0, 9)}, {K: "DM", I: g.rng.Intn(2), V: 1}}
		ops = append(ops, anim...)
	case 5: // setters before any frame exists are no-ops; then a still
		ops = []op{{K: "DU", I: 0, V: 50}, {K: "DM", I: 0, V: 1}, af(it, g.rng.Bool(), 0, 0, 0)}
		ops = append(ops, anim...)
	default: // metadata set, cleared with nil, set again around a still / animated frame
		ops = []op{{K: "EX", Data: g.rng.Bytes(5)}, af(it, true, g.rng.Pick(0, 25), 0, 0), {K: "EX", Data: nil}, {K: "AC", ID: mux.FourCCXMP, Data: g.blob()}, {K: "IC", Data: g.blob()}, {K: "AC", ID: mux.FourCCICCP, Data: nil}}
	}
	if g.rng.Intn(3) == 0 {
		ops = append(ops, g.metaOps()...)
	}
	return ops
}

// boundary histories: one frame / few frames at each boundary class
func (g *gen) boundary() []op {
	it := g.item()
	af := func(dur, ox, oy int) op {
		return op{K: "AF", Data: it.Data, Item: it, HasOpts: true, Dur: dur, OX: ox, OY: oy}
	}
	switch g.rng.Intn(9) {
	case 0:
		return []op{af(g.rng.Pick(0, 10), -2*g.rng.Range(1, 3), 0)}
	case 1:
		return []op{af(10, g.rng.Pick(1<<25, 1<<25+2, 1<<26), g.rng.Pick(0, 1<<25))}
	case 2:
		return []op{af(10, g.rng.Pick(1<<25-2, 1<<24, 1<<24+2), 0)}
	case 3:
		return []op{af(0, g.rng.Pick(2, 4), g.rng.Pick(0, 2))}
	case 4:
		return []op{af(0, 0, 0), {K: "CS", W: it.W + g.rng.Range(1, 9), H: it.H}, {K: "EX", Data: g.blob()}}
	case 5:
		return []op{af(0, 0, 0), {K: "CS", W: it.W + g.rng.Range(0, 3), H: it.H + g.rng.Range(1, 3)}}
	case 6:
		return []op{af(g.rng.Pick(0, 10), 0, 0), {K: "CS", W: g.rng.Pick(32768, 40000, 1<<24), H: g.rng.Pick(32768, 40000, 1<<24)}}
	case 7:
		return []op{af(10, 0, 0), {K: "CS", W: it.W - 1, H: it.H}}
	default:
		return []op{af(10, 0, 0), af(10, 2, 2), {K: "CS", W: it.W + 1, H: it.H + 2}}
	}
}

func main() {
	Main("c14", func(c *Ctx) {
		rng := c.Rng.Fork()
		pool := muxh.BuildPool(rng.Fork(), 24)
		g := &gen{rng: rng.Fork(), pool: pool}
		observe = c.Count
		c.D.Rule = "a case is non-trivial when Assemble succeeds; counted once per (class, layout, #frames, metadata subset, alpha/lossless mix, parity of payloads)"

		total := 2500
		if c.Thorough() {
			total = 40000
			metaTooLarge(c, pool) // one 100 MB history: thorough tier only (~10 s)
		}
		for i := 0; i < total; i++ {
			var ops []op
			var kind string
			switch r := g.rng.Intn(100); {
			case r < 30:
				ops, kind = g.cleanAnim(), "anim"
			case r < 50:
				ops, kind = g.cleanStill(), "still"
			case r < 62:
				ops, kind = g.boundary(), "boundary"
			case r < 74:
				ops, kind = g.setterOrder(), "setter-order"
			default:
				ops, kind = g.wild(), "wild"
			}
			// Assemble may be called anywhere in a history (it must not change the muxer)
			if g.rng.Intn(100) < 35 {
				for k := g.rng.Range(1, 2); k > 0; k-- {
					at := g.rng.Intn(len(ops) + 1)
					ops = append(ops[:at:at], append([]op{{K: "AS"}}, ops[at:]...)...)
				}
				kind += "+assemble"
			}
			evalCase(c, ops, kind)
		}
		// Assemble, then a frame that extends the canvas, then Assemble again
		for i := 0; i < 60; i++ {
			a, b := g.item(), g.item()
			ops := []op{{K: "AF", Data: a.Data, Item: a, HasOpts: true, Dur: 10}, {K: "AS"},
				{K: "AF", Data: b.Data, Item: b, HasOpts: true, Dur: 10, OX: 2 * g.rng.Range(0, 40), OY: 2 * g.rng.Range(0, 40)}}
			if g.rng.Bool() {
				ops = append(ops, op{K: "AS"}, op{K: "EX", Data: g.blob()})
			}
			evalCase(c, ops, "assemble-then-grow")
		}
		frameLimit(c, pool)
		exactBoundaries(c, g)
	})
}

// maskCanvas removes the canvas token ("] WxH a=") of a rendered view.
func maskCanvasOf(v string) string {
	i := strings.LastIndex(v, "] ")
	j := strings.Index(v, " a=")
	if i < 0 || j < i {
		return v
	}
	return v[:i+2] + "*x*" + v[j:]
}

// okChecks: everything the property demands of a successfully assembled file.
func okChecks(file []byte, dline string, dm *mux.Demuxer, sh *shadow, maskCanvas bool) string {
	if w := walkCheck(file, sh, maskCanvas); w != "" {
		return "clause (V) container structure: " + w
	}
	if dline == "panic" || dline == "err" {
		return "clause (R) demuxer " + dline + " on the assembled file"
	}
	got, want := demuxView(dm), sh.view()
	if maskCanvas {
		got, want = maskCanvasOf(got), maskCanvasOf(want)
	}
	if got != want {
		return "clause (R) mux->demux differs: got " + got + " want " + want
	}
	if !maskCanvas {
		if p := parserCheck(file, dm, sh); p != "" {
			return "clause (P) " + p
		}
	}
	return ""
}

// fileVariants: single-bit variants of an assembled VP8X file (each VP8X flag bit flipped;
// reserved bits of every ANMF flags byte set).  Such files are NOT muxer output, so C14 as
// stated says nothing about them: they are only COUNTED here (how the demuxer and
// container.Parser behave on them), never compared with the model and never reported.
// Hand-assembled containers with mis-stated flags belong to C16, reserved ANMF bits to C09.
func fileVariants(c *Ctx, file []byte, dm *mux.Demuxer) {
	if len(file) < 30 || string(file[12:16]) != "VP8X" {
		return
	}
	for bit := uint(0); bit < 8; bit++ {
		v := append([]byte{}, file...)
		v[20] ^= 1 << bit
		line, vd := muxh.DemuxLine(v)
		if line == "panic" {
			c.Count("observed-variant-demux-panics") // a C05 matter; C05's generators cover flag edits
			continue
		}
		_, perr := func() (f *webp.Features, err error) {
			defer func() {
				if r := recover(); r != nil {
					err = fmt.Errorf("panic: %v", r)
				}
			}()
			return webp.GetFeatures(bytes.NewReader(v))
		}()
		c.Count(fmt.Sprintf("observed-vp8x-bit%d-demux-%v-parser-%v", bit, vd != nil, perr == nil))
	}
	cs, ok := muxh.WalkFile(file)
	if !ok {
		return
	}
	off := 12
	var flagOffs []int
	for _, ch := range cs {
		if ch.ID == "ANMF" && len(ch.Data) >= 16 {
			flagOffs = append(flagOffs, off+8+15)
		}
		off += 8 + len(ch.Data) + len(ch.Data)%2
	}
	if len(flagOffs) == 0 {
		return
	}
	want := demuxView(dm)
	v := append([]byte{}, file...)
	for _, o := range flagOffs {
		v[o] |= 0xfc
	}
	if _, vd := muxh.DemuxLine(v); vd != nil && demuxView(vd) == want {
		c.Count("observed-anmf-reserved-bits-ignored")
	} else {
		c.Count("observed-anmf-reserved-bits-change-the-result")
	}
}

// genConst reads an integer constant of the current source from coq/Gen/Consts.v (regenerated by the
// translator before every run), so that the boundary family follows the source.
func genConst(name string, fallback int) int {
	dir := os.Getenv("VERIF_DIR")
	if dir == "" {
		dir = "/verif"
	}
	b, err := os.ReadFile(filepath.Join(dir, "coq", "Gen", "Consts.v"))
	if err != nil {
		return fallback
	}
	m := regexp.MustCompile(`Definition ` + name + ` : Z := (-?[0-9]+)\.`).FindSubmatch(b)
	if m == nil {
		return fallback
	}
	v, err := strconv.Atoi(string(m[1]))
	if err != nil {
		return fallback
	}
	return v
}

// exactBoundaries: for every quantity Muxer.validate / the setters compare against a limit, histories
// on both sides of the comparison (limit-2 .. limit+2), with real bitstream frames and with opaque
// payloads whose dimensions the muxer cannot read (for those the fits-in-canvas check is skipped, so
// the range checks are the only guard; they are outside C14's domain and only feed the model/code
// correspondence).  All of them go through evalCase: correspondence lines + (in domain) the clauses.
func exactBoundaries(c *Ctx, g *gen) {
	posOff := genConst("container_MaxPositionOff", 1<<24)
	maxCanvas := genConst("container_MaxCanvasSize", 1<<24)
	maxArea := genConst("container_MaxImageArea", 1<<30)
	maxDur := genConst("mux_maxDuration", 1<<24-1)
	maxLoop := genConst("mux_maxLoopCount", 65535)
	small := &g.pool[0]
	for i := range g.pool {
		if g.pool[i].Alpha == nil && g.pool[i].W*g.pool[i].H < small.W*small.H {
			small = &g.pool[i]
		}
	}
	opaque := &muxh.PoolItem{Valid: false}
	frame := func(real bool, tag byte, dur, ox, oy int) op {
		if real {
			return op{K: "AF", Data: small.Data, Item: small, HasOpts: true, Dur: dur, OX: ox, OY: oy}
		}
		return op{K: "AF", Data: []byte{tag, 1, 2, 3, 4, 5, 6, 7, 8, 9, 10, 11}, Item: opaque, HasOpts: true, Dur: dur, OX: ox, OY: oy}
	}
	n := 0
	run := func(ops []op) { evalCase(c, ops, "exact-boundary"); n++ }
	// offsets: offset/2 against MaxPositionOff
	P := 2 * posOff
	for _, real := range []bool{true, false} {
		for _, d := range []int{-2, -1, 0, 1, 2} {
			for axis := 0; axis < 3; axis++ {
				ox, oy := 0, 0
				if axis != 1 {
					ox = P + d
				}
				if axis != 0 {
					oy = P + d
				}
				for _, cs := range [][2]int{{0, 0}, {64, 64}, {maxCanvas, 4}, {4, maxCanvas}} {
					ops := []op{frame(real, 0x10, 20, 0, 0), frame(real, 0x11, 10, ox, oy)}
					if cs[0] > 0 {
						ops = append([]op{{K: "CS", W: cs[0], H: cs[1]}}, ops...)
					}
					run(ops)
				}
			}
		}
	}
	// canvas width / height against MaxCanvasSize, canvas area against MaxImageArea
	for _, real := range []bool{true, false} {
		for _, d := range []int{-1, 0, 1} {
			run([]op{frame(real, 0x10, 10, 0, 0), {K: "CS", W: maxCanvas + d, H: small.H}})
			run([]op{frame(real, 0x10, 10, 0, 0), {K: "CS", W: small.W, H: maxCanvas + d}})
		}
		for _, wh := range [][2]int{{32768, maxArea/32768 - 1}, {32768, maxArea / 32768}, {32768, maxArea/32768 + 1},
			{65536, maxArea/65536 - 1}, {65536, maxArea / 65536}, {maxArea / 65536, 65536}} {
			run([]op{frame(real, 0x10, 10, 0, 0), {K: "CS", W: wh[0], H: wh[1]}})
		}
	}
	// durations against maxDuration (AddFrame and SetFrameDuration), loop count against maxLoopCount
	for _, d := range []int{-1, 0, 1, 2} {
		run([]op{frame(true, 0, maxDur+d, 0, 0)})
		run([]op{frame(true, 0, 5, 0, 0), frame(true, 0, maxDur+d, 0, 0)})
		run([]op{frame(true, 0, 0, 0, 0), {K: "DU", I: 0, V: maxDur + d}})
		run([]op{frame(true, 0, 7, 0, 0), {K: "LC", V: maxLoop + d}})
	}
	c.Count(fmt.Sprintf("exact-boundary-histories=%d", n))
}

// frameLimit: 9999 / 10000 / 10001 AddFrame calls with a tiny frame.  What AddFrame accepts must
// assemble and come back from both parsers with that many frames; the frame beyond MaxFrames
// (10000, the limit of both parsers) must be refused with an error.
func frameLimit(c *Ctx, pool []muxh.PoolItem) {
	it := &pool[0]
	for i := range pool {
		if len(pool[i].Data) < len(it.Data) && pool[i].Alpha == nil {
			it = &pool[i]
		}
	}
	for _, n := range []int{9999, 10000, 10001} {
		c.D.Evaluations++
		c.Count("gen-frame-limit")
		replay := map[string]any{"ops": fmt.Sprintf("%d x AF <%d-byte frame %dx%d> o 10 0 0 0 0", n, len(it.Data), it.W, it.H)}
		func() {
			defer func() {
				if r := recover(); r != nil {
					c.Violate("assemble-panics", fmt.Sprint("frame limit scenario: ", r), replay)
				}
			}()
			m := mux.NewMuxer()
			accepted := 0
			for i := 0; i < n; i++ {
				if m.AddFrame(it.Data, &mux.FrameOptions{Duration: 10}) == nil {
					accepted++
				}
			}
			// How many frames the muxer accepts, and whether Assemble accepts them, is the muxer's
			// business (C14 does not say what must be accepted or rejected, only that a rejection is
			// an error): counted as observations.  The clause checked below: what IS assembled
			// "demuxes back to the same frames" and "both container parsers report the same structure".
			c.Count(fmt.Sprintf("observation: frame-limit %d calls -> %d accepted", n, accepted))
			var buf bytes.Buffer
			if err := m.Assemble(&buf); err != nil {
				c.Count(fmt.Sprintf("observation: frame-limit Assemble rejects %d frames with an error", accepted))
				return
			}
			d, err := mux.NewDemuxer(buf.Bytes())
			if err != nil {
				c.Violate("frame-limit", fmt.Sprintf("muxer assembled %d frames, the demuxer rejects the file: %v", accepted, err), replay)
				return
			}
			if d.NumFrames() != accepted {
				c.Violate("frame-limit", fmt.Sprintf("%d frames put in, %d demuxed", accepted, d.NumFrames()), replay)
			}
			ft, err := webp.GetFeatures(bytes.NewReader(buf.Bytes()))
			if err != nil || ft.FrameCount != accepted {
				c.Violate("frame-limit", fmt.Sprintf("muxer assembled %d frames, GetFeatures: %v %+v", accepted, err, ft), replay)
			}
			c.Nontrivial(fmt.Sprintf("frame-limit-%d", n))
		}()
	}
}

// metaTooLarge: SetEXIF with maxMetadataSize+1 bytes.  Either Assemble rejects it with an
// error, or the assembled file must demux (model: Assemble accepts, the demuxer refuses).
func metaTooLarge(c *Ctx, pool []muxh.PoolItem) {
	c.D.Evaluations++
	c.Count("gen-meta-too-large")
	defer func() {
		if r := recover(); r != nil {
			c.Violate("assemble-panics", fmt.Sprint("metadata > 100 MB: ", r), "AF <pool[0]> EX <104857601 zero bytes>")
		}
	}()
	m := mux.NewMuxer()
	m.AddFrame(pool[0].Data, nil)
	m.SetEXIF(make([]byte, 100*1024*1024+1))
	var buf bytes.Buffer
	if err := m.Assemble(&buf); err != nil {
		c.Count("meta-too-large-rejected")
		return
	}
	if _, err := mux.NewDemuxer(buf.Bytes()); err != nil {
		c.Violate("meta-too-large", "Assemble accepts EXIF of maxMetadataSize+1 bytes set with SetEXIF; the demuxer rejects the assembled file: "+err.Error(),
			map[string]any{"ops": "AF <pool[0]> EX <104857601 zero bytes>"})
	}
}

func evalCase(c *Ctx, ops []op, kind string) {
	c.D.Evaluations++
	c.Count("gen-" + kind)
	sh := &shadow{}
	for i := range ops {
		sh.apply(&ops[i])
	}
	cls := sh.class()
	c.Count("class-" + cls)
	ol := opsLine(ops)
	replay := map[string]any{"ops": ol, "class": cls}

	outs, st, file := runOps(ops)
	// Assemble calls inside the history must not influence the final result: a fresh Muxer fed the
	// other calls assembles the same bytes
	hasAS := false
	var plain []op
	for i := range ops {
		if ops[i].K == "AS" {
			hasAS = true
		} else {
			plain = append(plain, ops[i])
		}
	}
	if hasAS {
		c.Count("with-assemble-calls")
		// "For every set of frames ... and metadata that the muxer accepts, the assembled file is a
		// structurally valid container ...": whether the set is accepted is a property of the set
		// (a fresh Muxer decides it), so a history that differs from it only by earlier Assemble
		// calls must not fail on an accepted set.  Different bytes for the same accepted set are
		// only counted: the round-trip checks below judge the bytes actually produced.
		if _, st2, file2 := runOps(plain); st2 == "ok" && st != "ok" && sh.allValid() {
			c.Violate("accepted-set-fails-after-assemble-call", fmt.Sprintf("a fresh Muxer accepts these frames/options/metadata (%d bytes); after earlier Assemble calls the same set ends in %q", len(file2), st), replay)
		} else if st2 != st || !bytes.Equal(file, file2) {
			c.Count("observation: result differs from a fresh Muxer fed the same calls")
		}
	}
	// -- correspondence line 1: bytes + demuxer accessors
	muxLine := outs + " " + st
	var dm *mux.Demuxer
	dline := ""
	if st == "ok" {
		dline, dm = muxh.DemuxLine(file)
		muxLine = fmt.Sprintf("%s ok %s | %s", outs, hex.EncodeToString(file), dline)
	}
	c.Case("mux "+ol, muxLine)
	// -- correspondence line 2: round trip in view form (S = Coq specification)
	rt := st
	if st == "ok" {
		switch {
		case dline == "panic":
			rt = "ok demux-panic"
		case dline == "err":
			rt = "ok demux-err"
		default:
			v := demuxView(dm)
			if v == "demux-nil-frame" {
				rt = "ok demux-nil-frame"
			} else {
				rt = "ok " + v
			}
		}
	}
	// the class keys the round-trip line; a still picture with an explicit canvas is the
	// still-canvas class whether or not its frame is a complete bitstream
	rtcls := cls
	if cls == "invalid-frame" && len(sh.frames) > 0 && !sh.animated() && sh.cw > 0 && sh.ch > 0 {
		rtcls = "still-canvas"
	}
	c.Case(fmt.Sprintf("rt %s %s", rtcls, ol), rt)

	// -- direct evaluation.  Domain of C14: call sequences over frames that are VP8 / VP8L
	// bitstreams (with or without alpha data) which the muxer accepts.  Clauses:
	//   (V) "the assembled file is a structurally valid WebP container"
	//   (R) "and demuxes back to the same frame bitstreams ... metadata"
	//   (P) "Both container parsers in the package report the same structure for it"
	//   (E) "what the muxer rejects it rejects with an error, not a corrupt file"
	// Nothing says WHAT must be accepted or rejected; rejections are observations.
	if cls == "invalid-frame" {
		// frames that are not VP8/VP8L bitstreams: outside the domain.  Whatever happens is counted
		// only (a demuxer panic on the bytes is C05's subject and C05's generators cover it).
		c.Count("observation: invalid-frame history -> " + st)
		if dline == "panic" {
			c.Count("observation: demuxer panics on a file assembled from non-bitstream frames")
		}
		return
	}
	if st == "panic" {
		// (E): neither an error nor a file
		c.Violate("assemble-panics", "clause (E): the Muxer history ends in a panic instead of an error or a file", replay)
		return
	}
	c.Count("assemble-" + st)
	if st == "err" {
		c.Count("observation: rejected with an error, class " + cls)
		return
	}
	switch cls {
	case "no-frames", "outside-canvas":
		// accepted, but no file built from this state can be structurally valid (no image data /
		// a frame extending beyond the canvas): clause (V)
		c.Violate("accepted-but-structurally-invalid:"+cls, "clause (V): Assemble succeeds for a state ("+cls+") from which no structurally valid container can be built", replay)
		return
	}
	if cls == "still-canvas" {
		// the known finding covers only the canvas size itself (and the parsers' disagreement about it):
		// everything else of the view must still come back
		if fail := okChecks(file, dline, dm, sh, true); fail != "" {
			c.Violate("general", "(still picture with explicit canvas) "+fail, replay)
			return
		}
	}
	if fail := okChecks(file, dline, dm, sh, false); fail != "" {
		c.Violate(cls, fail, replay)
		return
	}
	layout := "simple"
	if string(file[12:16]) == "VP8X" {
		layout = "ext"
	}
	if layout == "ext" && c.D.Evaluations%8 == 0 {
		fileVariants(c, file, dm) // observation counters only
	}
	sig := fmt.Sprintf("%s-%s-n%d-m%d%d%d", cls, layout, len(sh.frames), muxh.B2i(sh.icc != nil), muxh.B2i(sh.exif != nil), muxh.B2i(sh.xmp != nil))
	for _, f := range sh.frames {
		sig += fmt.Sprintf("-%d%d%d%d", muxh.B2i(f.item.Lossless), muxh.B2i(f.item.Alpha != nil), len(f.item.Bits)%2, len(f.item.Alpha)%2)
	}
	c.Nontrivial(sig)
	c.Count("layout-" + layout)
	c.Sample(map[string]any{"ops": truncate(ol, 300), "file_len": len(file), "view": truncate(sh.view(), 300)})
	_ = binary.LittleEndian
}

func truncate(s string, n int) string {
	if len(s) > n {
		return s[:n] + "..."
	}
	return s
}
