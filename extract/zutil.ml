(* Hand-written glue shared by all runners (trusted): conversions between
   decimal/hex text and the extracted Coq numbers.  No OCaml int is ever used
   to carry a model value that may exceed 2^62. *)
open BinNums

let rec pos_of_int (n : int) : positive =
  if n <= 1 then Coq_xH
  else if n land 1 = 0 then Coq_xO (pos_of_int (n lsr 1))
  else Coq_xI (pos_of_int (n lsr 1))

let z_of_int (n : int) : coq_Z =
  if n = 0 then Z0 else if n > 0 then Zpos (pos_of_int n) else Zneg (pos_of_int (-n))

let n_of_int (n : int) : coq_N = if n = 0 then N0 else Npos (pos_of_int n)

let rec int_of_pos (p : positive) : int =
  match p with
  | Coq_xH -> 1
  | Coq_xO q -> 2 * int_of_pos q
  | Coq_xI q -> 2 * int_of_pos q + 1

let int_of_z (z : coq_Z) : int =
  match z with Z0 -> 0 | Zpos p -> int_of_pos p | Zneg p -> - (int_of_pos p)

let int_of_n (n : coq_N) : int = match n with N0 -> 0 | Npos p -> int_of_pos p

let rec nat_of_int (n : int) : Datatypes.nat =
  if n <= 0 then Datatypes.O else Datatypes.S (nat_of_int (n - 1))

let rec int_of_nat (n : Datatypes.nat) : int =
  match n with Datatypes.O -> 0 | Datatypes.S m -> 1 + int_of_nat m

(* arbitrary-size decimal -> Z, using the extracted arithmetic *)
let z_of_string (s : string) : coq_Z =
  let neg = String.length s > 0 && s.[0] = '-' in
  let start = if neg then 1 else 0 in
  let ten = z_of_int 10 in
  let acc = ref Z0 in
  for i = start to String.length s - 1 do
    let d = Char.code s.[i] - 48 in
    if d < 0 || d > 9 then failwith ("z_of_string: " ^ s);
    acc := BinInt.Z.add (BinInt.Z.mul !acc ten) (z_of_int d)
  done;
  if neg then BinInt.Z.opp !acc else !acc

let string_of_z (z : coq_Z) : string =
  let ten = z_of_int 10 in
  let rec go (z : coq_Z) (acc : string) =
    match z with
    | Z0 -> if acc = "" then "0" else acc
    | _ ->
      let q = BinInt.Z.div z ten and r = BinInt.Z.modulo z ten in
      go q (string_of_int (int_of_z r) ^ acc)
  in
  match z with
  | Zneg p -> "-" ^ go (Zpos p) ""
  | _ -> go z ""

let hexval (c : char) : int =
  match c with
  | '0'..'9' -> Char.code c - 48
  | 'a'..'f' -> Char.code c - 87
  | 'A'..'F' -> Char.code c - 55
  | _ -> failwith "hexval"

(* "0a1b" -> [10; 27] *)
let bytes_of_hex (s : string) : int list =
  let n = String.length s / 2 in
  Stdlib.List.init n (fun i -> 16 * hexval s.[2*i] + hexval s.[2*i+1])

let hex_of_bytes (l : int list) : string =
  let b = Buffer.create (2 * Stdlib.List.length l) in
  Stdlib.List.iter (fun x -> Buffer.add_string b (Printf.sprintf "%02x" (x land 255))) l;
  Buffer.contents b

let split_ws (s : string) : string list =
  Stdlib.List.filter (fun t -> t <> "") (String.split_on_char ' ' s)

let iter_lines (f : string -> unit) : unit =
  try while true do f (input_line stdin) done with End_of_file -> ()
