(** Extraction of the C12 partition models (ExtrOcamlBasic only). *)
From Coq Require Import ZArith List.
From Coq Require Import ExtrOcamlBasic.
From Webp Require Conc.ConcPartition.

Separate Extraction
  BinInt.Z.add BinInt.Z.mul BinInt.Z.sub BinInt.Z.opp BinInt.Z.div BinInt.Z.modulo
  BinInt.Z.eqb BinInt.Z.ltb BinInt.Z.leb BinInt.Z.of_nat BinInt.Z.to_nat BinInt.Z.of_N BinInt.Z.to_N
  BinNat.N.add BinNat.N.mul BinNat.N.of_nat BinNat.N.to_nat
  Conc.ConcPartition.ranges_prop Conc.ConcPartition.ranges_ceil
  Conc.ConcPartition.ranges_inv_cross_color Conc.ConcPartition.ranges_argb_to_nrgba
  Conc.ConcPartition.ranges_compute_alphas Conc.ConcPartition.ranges_hashchain
  Conc.ConcPartition.hashchain_uses_parallel Conc.ConcPartition.encodeframe_uses_parallel
  Conc.ConcPartition.workers_encode_parallel Conc.ConcPartition.workers_decode_frames
  Conc.ConcPartition.is_tiling.
