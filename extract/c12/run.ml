(* C12 runner.  Input, one case per line:
     prop n total | ceil n total | icc n ystart yend | argb n height
     alphas n mbW mbH | hash n size            -> "I s:e s:e ..." (ranges in spawn order)
     encw n mbH | decw n items                 -> "I <workers>"
     hashpar n size loweffort | encpar n mbH method dosearch -> "I 0|1"
     cover lo hi s:e s:e ...   -> "I ok" iff the ranges tile [lo, hi) (ConcPartition.is_tiling,
                                  proved to imply exact_partition) *)
open Zutil

let show_ranges (l : (BinNums.coq_Z * BinNums.coq_Z) list) : string =
  if l = [] then "-" else
  String.concat " " (Stdlib.List.map (fun (s, e) -> string_of_z s ^ ":" ^ string_of_z e) l)

let z = z_of_string
let b s = (s = "1")
let sb x = if x then "1" else "0"

let () = iter_lines (fun line ->
  match split_ws line with
  | ["prop"; n; t] -> Printf.printf "I %s\n" (show_ranges (ConcPartition.ranges_prop (z n) (z t)))
  | ["ceil"; n; t] -> Printf.printf "I %s\n" (show_ranges (ConcPartition.ranges_ceil (z n) (z t)))
  | ["icc"; n; ys; ye] -> Printf.printf "I %s\n" (show_ranges (ConcPartition.ranges_inv_cross_color (z n) (z ys) (z ye)))
  | ["argb"; n; h] -> Printf.printf "I %s\n" (show_ranges (ConcPartition.ranges_argb_to_nrgba (z n) (z h)))
  | ["alphas"; n; w; h] -> Printf.printf "I %s\n" (show_ranges (ConcPartition.ranges_compute_alphas (z n) (z w) (z h)))
  | ["hash"; n; s] -> Printf.printf "I %s\n" (show_ranges (ConcPartition.ranges_hashchain (z n) (z s)))
  | ["encw"; n; h] -> Printf.printf "I %s\n" (string_of_z (ConcPartition.workers_encode_parallel (z n) (z h)))
  | ["decw"; n; k] -> Printf.printf "I %s\n" (string_of_z (ConcPartition.workers_decode_frames (z n) (z k)))
  | ["hashpar"; n; s; le] -> Printf.printf "I %s\n" (sb (ConcPartition.hashchain_uses_parallel (z n) (z s) (b le)))
  | ["encpar"; n; h; m; ds] -> Printf.printf "I %s\n" (sb (ConcPartition.encodeframe_uses_parallel (z n) (z h) (z m) (b ds)))
  | "cover" :: lo :: hi :: rs ->
      let parse r = match String.split_on_char ':' r with
        | [a; b] -> (z a, z b) | _ -> failwith "bad range" in
      let rs = if rs = ["-"] then [] else Stdlib.List.map parse rs in
      print_endline (if ConcPartition.is_tiling rs (z lo) (z hi) then "I ok" else "I bad")
  | [] -> ()
  | _ -> print_endline "ERR bad-line")
