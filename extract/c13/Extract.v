(** Extraction of the C13 models (ExtrOcamlBasic only). *)
From Coq Require Import ZArith List.
From Coq Require Import ExtrOcamlBasic.
From Webp Require Arch.ArchLane16 Arch.ArchLane16Tables Arch.ArchLane16More.

Separate Extraction
  BinInt.Z.add BinInt.Z.mul BinInt.Z.sub BinInt.Z.opp BinInt.Z.div BinInt.Z.modulo
  BinInt.Z.eqb BinInt.Z.ltb BinInt.Z.leb BinInt.Z.of_nat BinInt.Z.to_nat BinInt.Z.of_N BinInt.Z.to_N
  BinNat.N.add BinNat.N.mul BinNat.N.of_nat BinNat.N.to_nat
  ArchLane16.lane16_idct ArchLane16.transform_one
  ArchLane16.lane16_wht ArchLane16.transform_wht
  ArchLane16.lane16_fwht ArchLane16.ftransform_wht
  ArchLane16.lane32_fdct ArchLane16.ftransform
  ArchLane16.quant_go ArchLane16.quant_lane
  ArchLane16More.dequant_go ArchLane16More.dequant_lane_ac ArchLane16More.dequant_lane_dc
  ArchLane16More.dc_go ArchLane16More.dc16_lane ArchLane16More.dc8_lane
  ArchLane16Tables.tdisto_src ArchLane16Tables.l_tdisto_src
  ArchLane16.yuv_r ArchLane16.yuv_g ArchLane16.yuv_b ArchLane16.l_yuv_r ArchLane16.l_yuv_g ArchLane16.l_yuv_b
  ArchLane16.tm_sample ArchLane16.l_tm_sample
  ArchLane16.add_green_go ArchLane16.add_green_lanes ArchLane16.sub_green_go ArchLane16.sub_green_lanes
  ArchLane16.sse_list ArchLane16.l_sse_list
  ArchLane16.simple_filter_go ArchLane16.simple_filter_lane.
