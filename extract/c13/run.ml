(* C13 runner.  One case per line, first token = kernel, optional suffix "!"
   (inputs outside the proven no-wrap range; same computation):
     idct  c0..c15 p0..p15      I lane16_idct          S transform_one
     pidct c0..c15 p0..p15      I transform_one
     wht / fwht  c0..c15        I lane16_(f)wht        S (f)transform_wht
     pwht / pfwht c0..c15       I (f)transform_wht
     fdct  s0..s15 r0..r15      I lane32_fdct          S ftransform
     pfdct s0..s15 r0..r15      I ftransform
     yuv  y u v                 I l_yuv_{r,g,b}        S yuv_{r,g,b}
     pyuv y u v                 I yuv_{r,g,b}
     tdisto a0..a15 b0..b15     I l_tdisto (kWeightY)  S tdisto
     ptdisto a0..a15 b0..b15    I tdisto
     quant  x sharpen iq bias   I quant_lane           S quant_go   (AC positions)
     pquant x sharpen iq bias   I quant_go
     deq / deqdc x q            I dequant_lane_ac/dc   S dequant_go ; pdeq x q: I dequant_go
     dc16 t0..t15 l0..l15       I dc16_lane            S dc_go (>>5, +16) ; dc8 likewise ; pdc16 / pdc8: I dc_go
     tm  top left tl            I l_tm_sample          S tm_sample
     ptm top left tl            I tm_sample
     agreen / sgreen a r g b    I *_green_lanes        S *_green_go (packed ARGB)
     pagreen / psgreen a r g b  I *_green_go
     sse  a0..a15 b0..b15       I l_sse_list           S sse_list
     psse a0..a15 b0..b15       I sse_list
     sfilt  p1 p0 q0 q1 thresh  I simple_filter_lane   S simple_filter_go
     psfilt p1 p0 q0 q1 thresh  I simple_filter_go
   Output: numbers joined by ",", or "panic". *)
open Zutil

let zs l = Stdlib.List.map z_of_string l
let show_list l = String.concat "," (Stdlib.List.map string_of_z l)
let show_res r = match r with
  | Res.Ok l -> show_list l
  | Res.Err _ -> "err"
  | Res.Panic -> "panic"

let show_resz r = match r with
  | Res.Ok z -> string_of_z z
  | Res.Err _ -> "err"
  | Res.Panic -> "panic"

let rec take n l = if n = 0 then [] else match l with [] -> [] | x :: t -> x :: take (n-1) t
let rec drop n l = if n = 0 then l else match l with [] -> [] | _ :: t -> drop (n-1) t

let strip s =
  let n = String.length s in
  if n > 0 && (s.[n-1] = '!' || s.[n-1] = '~') then String.sub s 0 (n-1) else s

(* "op~": an input the real call paths cannot deliver - only the correspondence
   model-vs-assembly is reported (no S: not a statement about the property) *)
let no_spec = ref false
let both i s = if !no_spec then Printf.printf "I %s\n" i else Printf.printf "I %s S %s\n" i s
let one i = Printf.printf "I %s\n" i
let pair (a, b) = string_of_z a ^ "," ^ string_of_z b

let packed l = match l with
  | [a; r; g; b] -> ArchLane16.argb_of a r g b
  | _ -> failwith "argb"

let () = iter_lines (fun line ->
  match split_ws line with
  | [] -> ()
  | op :: args ->
    no_spec := (String.length op > 0 && op.[String.length op - 1] = '~');
    let a = zs args in
    match strip op with
    | "idct" -> both (show_res (ArchLane16.lane16_idct (take 16 a) (drop 16 a)))
                     (show_res (ArchLane16.transform_one (take 16 a) (drop 16 a)))
    | "pidct" -> one (show_res (ArchLane16.transform_one (take 16 a) (drop 16 a)))
    | "wht" -> both (show_res (ArchLane16.lane16_wht a)) (show_res (ArchLane16.transform_wht a))
    | "pwht" -> one (show_res (ArchLane16.transform_wht a))
    | "fwht" -> both (show_res (ArchLane16.lane16_fwht a)) (show_res (ArchLane16.ftransform_wht a))
    | "pfwht" -> one (show_res (ArchLane16.ftransform_wht a))
    | "fdct" -> both (show_res (ArchLane16.lane32_fdct (take 16 a) (drop 16 a)))
                     (show_res (ArchLane16.ftransform (take 16 a) (drop 16 a)))
    | "pfdct" -> one (show_res (ArchLane16.ftransform (take 16 a) (drop 16 a)))
    | "yuv" -> (match a with [y; u; v] ->
                 both (show_list [ArchLane16.l_yuv_r y v; ArchLane16.l_yuv_g y u v; ArchLane16.l_yuv_b y u])
                      (show_list [ArchLane16.yuv_r y v; ArchLane16.yuv_g y u v; ArchLane16.yuv_b y u])
               | _ -> failwith "yuv")
    | "pyuv" -> (match a with [y; u; v] -> one (show_list [ArchLane16.yuv_r y v; ArchLane16.yuv_g y u v; ArchLane16.yuv_b y u])
               | _ -> failwith "pyuv")
    | "tdisto" -> both (show_resz (ArchLane16Tables.l_tdisto_src (take 16 a) (drop 16 a)))
                       (show_resz (ArchLane16Tables.tdisto_src (take 16 a) (drop 16 a)))
    | "ptdisto" -> one (show_resz (ArchLane16Tables.tdisto_src (take 16 a) (drop 16 a)))
    | "quant" -> (match a with [x; sh; iq; b] ->
                 both (string_of_z (ArchLane16.quant_lane x sh iq b)) (string_of_z (ArchLane16.quant_go x sh iq b))
               | _ -> failwith "quant")
    | "pquant" -> (match a with [x; sh; iq; b] -> one (string_of_z (ArchLane16.quant_go x sh iq b)) | _ -> failwith "pquant")
    | "deq" -> (match a with [x; q] ->
                 both (string_of_z (ArchLane16More.dequant_lane_ac x q)) (string_of_z (ArchLane16More.dequant_go x q))
               | _ -> failwith "deq")
    | "deqdc" -> (match a with [x; q] ->
                 both (string_of_z (ArchLane16More.dequant_lane_dc x q)) (string_of_z (ArchLane16More.dequant_go x q))
               | _ -> failwith "deqdc")
    | "pdeq" -> (match a with [x; q] -> one (string_of_z (ArchLane16More.dequant_go x q)) | _ -> failwith "pdeq")
    | "dc16" -> both (string_of_z (ArchLane16More.dc16_lane (take 16 a) (drop 16 a)))
                     (string_of_z (ArchLane16More.dc_go (take 16 a) (drop 16 a) (z_of_int 5) (z_of_int 16)))
    | "pdc16" -> one (string_of_z (ArchLane16More.dc_go (take 16 a) (drop 16 a) (z_of_int 5) (z_of_int 16)))
    | "dc8" -> both (string_of_z (ArchLane16More.dc8_lane (take 8 a) (drop 8 a)))
                    (string_of_z (ArchLane16More.dc_go (take 8 a) (drop 8 a) (z_of_int 4) (z_of_int 8)))
    | "pdc8" -> one (string_of_z (ArchLane16More.dc_go (take 8 a) (drop 8 a) (z_of_int 4) (z_of_int 8)))
    | "tm" -> (match a with [t; l; tl] ->
                 both (string_of_z (ArchLane16.l_tm_sample t l tl)) (string_of_z (ArchLane16.tm_sample t l tl))
               | _ -> failwith "tm")
    | "ptm" -> (match a with [t; l; tl] -> one (string_of_z (ArchLane16.tm_sample t l tl)) | _ -> failwith "ptm")
    | "agreen" -> (match a with [x; r; g; b] ->
                 both (string_of_z (ArchLane16.add_green_lanes x r g b)) (string_of_z (ArchLane16.add_green_go (packed a)))
               | _ -> failwith "agreen")
    | "pagreen" -> one (string_of_z (ArchLane16.add_green_go (packed a)))
    | "sgreen" -> (match a with [x; r; g; b] ->
                 both (string_of_z (ArchLane16.sub_green_lanes x r g b)) (string_of_z (ArchLane16.sub_green_go (packed a)))
               | _ -> failwith "sgreen")
    | "psgreen" -> one (string_of_z (ArchLane16.sub_green_go (packed a)))
    | "sse" -> both (string_of_z (ArchLane16.l_sse_list (take 16 a) (drop 16 a)))
                    (string_of_z (ArchLane16.sse_list (take 16 a) (drop 16 a)))
    | "psse" -> one (string_of_z (ArchLane16.sse_list (take 16 a) (drop 16 a)))
    | "sfilt" -> (match a with [p1; p0; q0; q1; t] ->
                 both (pair (ArchLane16.simple_filter_lane p1 p0 q0 q1 t)) (pair (ArchLane16.simple_filter_go p1 p0 q0 q1 t))
               | _ -> failwith "sfilt")
    | "psfilt" -> (match a with [p1; p0; q0; q1; t] -> one (pair (ArchLane16.simple_filter_go p1 p0 q0 q1 t))
               | _ -> failwith "psfilt")
    | _ -> failwith ("unknown op " ^ op))
