(** Extraction of the C01 models (ExtrOcamlBasic only). *)
From Coq Require Import ZArith List.
From Coq Require Import ExtrOcamlBasic.
From Webp Require Vp8l.Vp8lPixel Vp8l.Vp8lSpec Vp8l.Vp8lImport Vp8l.Vp8lEmit Vp8l.Vp8lWf Vp8l.Vp8lTrace.

Separate Extraction
  BinInt.Z.add BinInt.Z.mul BinInt.Z.sub BinInt.Z.opp BinInt.Z.div BinInt.Z.modulo
  BinInt.Z.eqb BinInt.Z.ltb BinInt.Z.leb BinInt.Z.of_nat BinInt.Z.to_nat BinInt.Z.of_N BinInt.Z.to_N
  BinNat.N.add BinNat.N.mul BinNat.N.of_nat BinNat.N.to_nat
  Vp8lSpec.decode_header Vp8lSpec.decode Vp8lEmit.emit Vp8lEmit.sem Vp8lWf.wf_planb Vp8lTrace.trace_decode Vp8lTrace.prefix_then_zeros Vp8lImport.forward_chain Vp8lEmit.sem_transforms Vp8lEmit.sem_eimg Vp8lPixel.px_eqb
  Vp8lImport.nrgba_model_chan Vp8lImport.fixed_fast_chan Vp8lImport.cleanup.
