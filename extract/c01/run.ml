(* C01 runner.  One case per input line, one result line per case.
     dec <tag> <hex of a VP8L payload>   -> "I <r> S <r>", r = "OK w h <fnv1a64 of RGBA bytes>" | "ERR"
                                           (the extracted specification decoder; no separate impl model)
     trace <hex>                         -> "T w h alpha cache meta_bits ngroups t:<type>/<bits>,..." | "ERR"
     fwd <hex> <rgba hex of the cleaned source>  -> "F 1" | "F 0" | "F ERR"  forward_chain(source) = residual image
     unp <c> <a>                         -> "I <fixed fast path> S <color.NRGBAModel formula>"
     imp <exact 0|1> <a> <r> <g> <b>     -> "I a r g b S a r g b"   clean-up of one imported pixel      *)
open Zutil

let () =
  if Sys.getenv_opt "VP8L_RUNNER_STACK" = None then
    exit (Sys.command (Printf.sprintf
      "ulimit -s unlimited 2>/dev/null || ulimit -s 1000000 2>/dev/null; VP8L_RUNNER_STACK=1 exec %s"
      (Filename.quote Sys.executable_name)))

let () = Gc.set { (Gc.get ()) with Gc.minor_heap_size = 4 * 1024 * 1024; Gc.space_overhead = 400 }

let fnv_px (l : Vp8lPixel.px list) : string =
  let h = ref 0xcbf29ce484222325L in
  let add b = h := Int64.mul (Int64.logxor !h (Int64.of_int (b land 255))) 0x100000001b3L in
  Stdlib.List.iter (fun p ->
    add (int_of_z p.Vp8lPixel.pr); add (int_of_z p.Vp8lPixel.pg);
    add (int_of_z p.Vp8lPixel.pb); add (int_of_z p.Vp8lPixel.pa)) l;
  Printf.sprintf "%016Lx" !h

let zbytes_of_hex s = Stdlib.List.map z_of_int (bytes_of_hex s)

let () = iter_lines (fun line ->
  (match split_ws line with
  | ["dec"; _; hex] | ["dec"; hex] ->
    let r = match Vp8lSpec.decode (zbytes_of_hex hex) with
      | Res.Ok im -> Printf.sprintf "OK %d %d %s" (int_of_z im.Vp8lSpec.i_w) (int_of_z im.Vp8lSpec.i_h) (fnv_px im.Vp8lSpec.i_px)
      | _ -> "ERR" in
    (* C01: the specification decoder is the model of the decoder half of the round trip (correspondence
       only: no S field; the property itself is decided by the Go round trip against the source pixels) *)
    Printf.printf "I %s\n" r
  | ["replan"; hex] ->
    (* recover the plan the stream is the emission of; check it against the proved theorem's hypothesis *)
    let bytes = zbytes_of_hex hex in
    (match Vp8lTrace.trace_decode bytes with
     | Res.Ok p ->
       let wf = Vp8lWf.wf_planb p in
       let same = Vp8lTrace.prefix_then_zeros (Vp8lEmit.emit p) bytes in
       let sm = Vp8lEmit.sem p in
       Printf.printf "R wf=%d emit=%d OK %d %d %s\n" (if wf then 1 else 0) (if same then 1 else 0)
         (int_of_z sm.Vp8lSpec.i_w) (int_of_z sm.Vp8lSpec.i_h) (fnv_px sm.Vp8lSpec.i_px)
     | _ -> print_endline "R ERR")
  | ["fwd"; hex; pixhex] ->
    (* encoder data path vs model: forward transform chain (with the transforms recovered from the
       stream) applied to the cleaned source pixels must be the residual image the tokens denote *)
    let bytes = zbytes_of_hex hex in
    let rec pxs l = match l with
      | r :: g :: b :: a :: tl -> { Vp8lPixel.pa = z_of_int a; pr = z_of_int r; pg = z_of_int g; pb = z_of_int b } :: pxs tl
      | _ -> [] in
    let src = pxs (bytes_of_hex pixhex) in
    (match Vp8lTrace.trace_decode bytes with
     | Res.Ok p ->
       let (ts, cw) = Vp8lEmit.sem_transforms p.Vp8lEmit.p_transforms p.Vp8lEmit.p_w p.Vp8lEmit.p_h in
       let resid = Vp8lEmit.sem_eimg cw p.Vp8lEmit.p_main in
       let fwd = Vp8lImport.forward_chain ts src in
       let same = (Stdlib.List.length resid = Stdlib.List.length fwd) &&
                  Stdlib.List.for_all2 (fun a b -> Vp8lPixel.px_eqb a b) resid fwd in
       Printf.printf "F %d\n" (if same then 1 else 0)
     | _ -> print_endline "F ERR")
  | ["trace"; hex] ->
    (match Vp8lSpec.decode_header (zbytes_of_hex hex) with
     | Res.Ok d ->
       let ts = Stdlib.List.map (fun t -> Printf.sprintf "%d/%d" (int_of_z t.Vp8lSpec.t_type) (int_of_z t.Vp8lSpec.t_bits)) d.Vp8lSpec.d_transforms in
       Printf.printf "T %d %d %d %d %d %d t:%s\n" (int_of_z d.Vp8lSpec.d_w) (int_of_z d.Vp8lSpec.d_h)
         (int_of_z d.Vp8lSpec.d_alpha_hint) (int_of_z d.Vp8lSpec.d_cache_bits) (int_of_z d.Vp8lSpec.d_meta_bits)
         (int_of_z d.Vp8lSpec.d_ngroups) (String.concat "," ts)
     | _ -> print_endline "ERR")
  | ["unp"; c; a] ->
    Printf.printf "I %s S %s\n"
      (string_of_z (Vp8lImport.fixed_fast_chan (z_of_string c) (z_of_string a)))
      (string_of_z (Vp8lImport.nrgba_model_chan (z_of_string c) (z_of_string a)))
  | ["imp"; ex; a; r; g; b] ->
    let p = { Vp8lPixel.pa = z_of_string a; pr = z_of_string r; pg = z_of_string g; pb = z_of_string b } in
    let q = Vp8lImport.cleanup (ex = "1") p in
    let s = Printf.sprintf "%s %s %s %s" (string_of_z q.Vp8lPixel.pa) (string_of_z q.Vp8lPixel.pr)
        (string_of_z q.Vp8lPixel.pg) (string_of_z q.Vp8lPixel.pb) in
    Printf.printf "I %s S %s\n" s s
  | [] -> ()
  | _ -> print_endline "ERR bad-line");
  flush stdout)
