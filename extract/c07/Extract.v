(** Extraction of the C07 models (ExtrOcamlBasic only). *)
From Coq Require Import ZArith List.
From Coq Require Import ExtrOcamlBasic.
From Webp Require Alpha.AlphaModel.

Separate Extraction
  BinInt.Z.add BinInt.Z.mul BinInt.Z.sub BinInt.Z.opp BinInt.Z.div BinInt.Z.modulo
  BinInt.Z.eqb BinInt.Z.ltb BinInt.Z.leb BinInt.Z.of_nat BinInt.Z.to_nat BinNat.N.add BinNat.N.of_nat
  Alpha.AlphaModel.apply_filter Alpha.AlphaModel.apply_unfilter Alpha.AlphaModel.rows_of
  Alpha.AlphaModel.encode_internal Alpha.AlphaModel.decode Alpha.AlphaModel.alpha_levels.
