(* C07 runner.  One case per line:
     filt f w h hex      -> I <hex of filtered plane>
     unfilt f w h hex    -> I <hex of unfiltered plane>
     dec w h hex         -> I <hex plane> | ERR      (ALPH chunk with raw compression; lossless payloads -> ERR5)
     enc0 f w h r hex    -> I <hex ALPH chunk>       (encodeAlphaInternal, method 0, filter f, reduce flag r)
     levels q            -> I <n>                                                   *)
open Zutil

let zl l = Stdlib.List.map z_of_int l
let il l = Stdlib.List.map int_of_z l
let no_lenc _ _ _ _ p = p
let no_ldec _ _ _ = None

let () = iter_lines (fun line ->
  match split_ws line with
  | ["filt"; f; w; h; hx] ->
    let rs = AlphaModel.rows_of (z_of_string w) (z_of_string h) (zl (bytes_of_hex hx)) in
    Printf.printf "I %s\n" (hex_of_bytes (il (Stdlib.List.concat (AlphaModel.apply_filter (z_of_string f) rs))))
  | ["unfilt"; f; w; h; hx] ->
    let rs = AlphaModel.rows_of (z_of_string w) (z_of_string h) (zl (bytes_of_hex hx)) in
    Printf.printf "I %s\n" (hex_of_bytes (il (Stdlib.List.concat (AlphaModel.apply_unfilter (z_of_string f) rs))))
  | ["dec"; w; h; hx] ->
    (match AlphaModel.decode no_ldec (zl (bytes_of_hex hx)) (z_of_string w) (z_of_string h) with
     | Res.Ok p -> Printf.printf "I %s\n" (hex_of_bytes (il p))
     | Res.Err _ -> print_endline "I ERR"
     | Res.Panic -> print_endline "I PANIC")
  | ["enc0"; f; w; h; r; hx] ->
    let rs = AlphaModel.rows_of (z_of_string w) (z_of_string h) (zl (bytes_of_hex hx)) in
    let out = AlphaModel.encode_internal no_lenc rs (z_of_string w) (z_of_string h) (z_of_int 0) (z_of_string f) (r = "1") (z_of_int 4) in
    Printf.printf "I %s\n" (hex_of_bytes (il out))
  | ["levels"; q] -> Printf.printf "I %s\n" (string_of_z (AlphaModel.alpha_levels (z_of_string q)))
  | [] -> ()
  | _ -> print_endline "I BADLINE")
