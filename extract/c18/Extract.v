(** Extraction of the AnimEncoder model (ExtrOcamlBasic only). *)
From Coq Require Import ZArith List.
From Coq Require Import ExtrOcamlBasic.
From Webp Require Anim.Blend Anim.Canvas Anim.AnimDec Anim.AnimEncModel Anim.AnimEncLoops.

Separate Extraction
  BinInt.Z.add BinInt.Z.mul BinInt.Z.sub BinInt.Z.opp BinInt.Z.div BinInt.Z.modulo
  BinInt.Z.eqb BinInt.Z.ltb BinInt.Z.leb BinInt.Z.of_nat BinInt.Z.to_nat BinInt.Z.of_N BinInt.Z.to_N
  BinNat.N.add BinNat.N.mul BinNat.N.of_nat BinNat.N.to_nat
  Anim.AnimEncModel.new_encoder Anim.AnimEncModel.run_frames Anim.AnimEncModel.close
  Anim.AnimEncModel.playback Anim.AnimEncModel.find_changed_rect Anim.AnimEncModel.snap_to_even
  Anim.AnimEncModel.sanitize_k Anim.AnimEncModel.quality_to_max_diff
  Anim.AnimEncModel.pixels_similar Anim.AnimEncModel.lossless_px_ok Anim.AnimEncModel.lossy_px_ok
  Anim.AnimEncModel.repaired Anim.AnimEncModel.add_frame_e Anim.AnimEncModel.max_frames
  Anim.AnimEncModel.no_fail Anim.AnimEncModel.step_op Anim.AnimEncLoops.find_changed_rect_loops.
