(** Extraction of the C02 models (ExtrOcamlBasic only). *)
From Coq Require Import ZArith List.
From Coq Require Import ExtrOcamlBasic.
From Webp Require Conform.ConformFile.
From Webp Require Conform.ConformVp8Hdr.
From Webp Require Vp8.Vp8Spec.

Separate Extraction
  BinInt.Z.add BinInt.Z.mul BinInt.Z.sub BinInt.Z.opp BinInt.Z.div BinInt.Z.modulo
  BinInt.Z.eqb BinInt.Z.ltb BinInt.Z.leb BinInt.Z.of_nat BinInt.Z.to_nat BinInt.Z.of_N BinInt.Z.to_N
  BinNat.N.add BinNat.N.mul BinNat.N.of_nat BinNat.N.to_nat
  Conform.ConformFile.analyse Conform.ConformVp8Hdr.emit_frame Conform.ConformVp8Hdr.parse_frame
  Conform.ConformVp8Hdr.vp8l_header.
