(* C02 runner.  One case per line:
     file <hex of a whole .webp file>
        -> "I <r> S <r>"  r = "<wf> <lossless> <w> <h> <alpha> <digest>"  | "ERR<n>"
           digest: VP8L: fnv1a64 of the RGBA bytes of the specification decoder's picture;
                   VP8: fnv1a64 of Y then U then V of the RFC 6386 specification decoder,
                   followed by "/" and fnv1a64 of the alpha plane decoded by the ALPH model
                   (VP8L spec decoder inside) when there is an ALPH chunk
     hdr <w> <h> <part0 len> <len_1,len_2,...>
        -> "I <hex of tag + picture header + size table>" | "ERR<n>"   (emit_frame on zero-filled partitions) *)
open Zutil

let fnv (bytes : int list) : string =
  let h = ref 0xcbf29ce484222325L in
  Stdlib.List.iter (fun b -> h := Int64.mul (Int64.logxor !h (Int64.of_int (b land 255))) 0x100000001b3L) bytes;
  Printf.sprintf "%016Lx" !h

let b2s b = if b then "1" else "0"

let () = iter_lines (fun line ->
  match split_ws line with
  | ["file"; hx] ->
    let bs = Stdlib.List.map z_of_int (bytes_of_hex hx) in
    let r = match ConformFile.analyse bs with
      | Res.Ok rp ->
        let digest =
          match rp.ConformFile.r_rgba, rp.ConformFile.r_aplane with
          | Some px, _ -> fnv (Stdlib.List.concat_map (fun p ->
              [int_of_z p.Vp8lPixel.pr; int_of_z p.Vp8lPixel.pg; int_of_z p.Vp8lPixel.pb; int_of_z p.Vp8lPixel.pa]) px)
          | None, ap ->
            if rp.ConformFile.r_lossless then "BADDIMS" else
            let yuv = match rp.ConformFile.r_yuv with
              | Some ((y, u), v) -> fnv (Stdlib.List.map int_of_z (y @ u @ v))
              | None -> "NOYUV" in
            (match ap with Some pl -> yuv ^ "/" ^ fnv (Stdlib.List.map int_of_z pl) | None -> yuv) in
        Printf.sprintf "%s %s %s %s %s %s" (b2s rp.ConformFile.r_wf) (b2s rp.ConformFile.r_lossless)
          (string_of_z rp.ConformFile.r_w) (string_of_z rp.ConformFile.r_h) (b2s rp.ConformFile.r_alpha) digest
      | Res.Err e -> Printf.sprintf "ERR%d" (int_of_nat e)
      | Res.Panic -> "PANIC" in
    Printf.printf "I %s S %s\n" r r
  | ["hdr"; w; h; p0; lens] ->
    let mk n = Stdlib.List.init (int_of_string n) (fun _ -> z_of_int 0) in
    let parts = Stdlib.List.map mk (String.split_on_char ',' lens) in
    (match ConformVp8Hdr.emit_frame (z_of_string w) (z_of_string h) (mk p0) parts with
     | Res.Ok bs ->
       let n = 10 + 3 * (Stdlib.List.length parts - 1) in
       let p0n = int_of_string p0 in
       let l = Stdlib.List.map int_of_z bs in
       let hd = Stdlib.List.filteri (fun i _ -> i < 10) l in
       let tbl = Stdlib.List.filteri (fun i _ -> i >= 10 + p0n && i < n + p0n) l in
       Printf.printf "I %s\n" (hex_of_bytes (hd @ tbl))
     | Res.Err e -> Printf.printf "I ERR%d\n" (int_of_nat e)
     | Res.Panic -> print_endline "I PANIC")
  | [] -> ()
  | _ -> print_endline "I BADLINE")
