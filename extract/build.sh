#!/bin/sh
# build.sh <pid>...  (or no argument: every extract/<pid>/ directory)
# Extracts the property's models (extract/<pid>/Extract.v, Separate Extraction,
# ExtrOcamlBasic only) and links them with zutil.ml and extract/<pid>/run.ml into
# /verif/build/extract/<pid>/run.  The model .vo files must be compiled already.
set -e
cd "$(dirname "$0")"
HERE=$(pwd)
if [ $# -eq 0 ]; then set -- $(for d in */Extract.v; do dirname "$d"; done); fi
for P in "$@"; do
  OUT=$HERE/../build/extract/$P
  rm -rf "$OUT"; mkdir -p "$OUT"
  ( cd "$OUT" && timeout 900 coqc -Q "$HERE/../coq/theories" Webp -Q "$HERE/../coq/Gen" WebpGen "$HERE/$P/Extract.v" >/dev/null )
  rm -f "$HERE/$P"/Extract.vo "$HERE/$P"/Extract.glob "$HERE/$P"/.Extract.aux "$HERE/$P"/Extract.vok "$HERE/$P"/Extract.vos
  cp zutil.ml "$P"/*.ml "$OUT"/
  ( cd "$OUT"
    MODS=$(ls *.ml | grep -v '^run')
    SORTED=$(ocamlfind ocamldep -sort $(ls *.mli) $MODS)
    ocamlfind ocamlopt -O3 -w -a -c $SORTED 2>/dev/null || ocamlfind ocamlopt -w -a -c $SORTED
    CMX=$(for f in $SORTED; do case $f in *.ml) echo "${f%.ml}.cmx";; esac; done)
    ocamlfind ocamlopt -w -a $CMX run.ml -o run )
done
