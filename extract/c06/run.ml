(* C06 runner.  Input lines:  recon <tag> <hex of the VP8 chunk payload>
   Output: "I <r> S <r>" with r = "ok w h <hy>.<hu>.<hv>" = digests of the planes the decoder
   model (I: Go-flavoured, S: specification) reconstructs BEFORE the loop filter, or "err". *)
open Zutil

let digest (rows : BinNums.coq_Z list list) : string =
  let h1 = ref 0 and h2 = ref 0 in
  Stdlib.List.iter (fun row -> Stdlib.List.iter (fun z ->
    let b = int_of_z z in
    h1 := (!h1 * 1000003 + b + 1) mod 998244353;
    h2 := (!h2 * 911 + b + 7) mod 1000000007) row) rows;
  Printf.sprintf "%d.%d" !h1 !h2

let show (r : Vp8Spec.decoded Res.coq_Res) : string =
  match r with
  | Res.Ok d when not d.Vp8Spec.dc_past_end ->
    let p = d.Vp8Spec.dc_unfiltered in
    Printf.sprintf "ok %d %d %s.%s.%s" (int_of_z d.Vp8Spec.dc_w) (int_of_z d.Vp8Spec.dc_h)
      (digest p.Vp8Filter.pl_y) (digest p.Vp8Filter.pl_u) (digest p.Vp8Filter.pl_v)
  | _ -> "err"

let () = iter_lines (fun line ->
  match split_ws line with
  | ["recon"; _tag; hex] ->
    let data = Stdlib.List.map z_of_int (bytes_of_hex hex) in
    Printf.printf "I %s S %s\n" (show (Vp8Spec.decode_go data)) (show (Vp8Spec.decode data))
  | [] -> ()
  | _ -> print_endline "ERR bad-line")
