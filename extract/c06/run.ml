(* C06 runner.  Input lines:  recon <tag> <hex of the VP8 chunk payload>
   Output: "I <r> S <r>" with r = "ok w h <hy>.<hu>.<hv>" = digests of the planes the decoder
   model (I: Go-flavoured, S: specification) reconstructs BEFORE the loop filter, or "err". *)
open Zutil

let digest (rows : BinNums.coq_Z list list) : string =
  let h1 = ref 0 and h2 = ref 0 in
  Stdlib.List.iter (fun row -> Stdlib.List.iter (fun z ->
    let b = int_of_z z in
    h1 := (!h1 * 1000003 + b + 1) mod 998244353;
    h2 := (!h2 * 911 + b + 7) mod 1000000007) row) rows;
  Printf.sprintf "%d.%d" !h1 !h2

let show (r : Vp8Spec.decoded Res.coq_Res) : string =
  match r with
  | Res.Ok d when not d.Vp8Spec.dc_past_end ->
    let p = d.Vp8Spec.dc_unfiltered in
    Printf.sprintf "ok %d %d %s.%s.%s" (int_of_z d.Vp8Spec.dc_w) (int_of_z d.Vp8Spec.dc_h)
      (digest p.Vp8Filter.pl_y) (digest p.Vp8Filter.pl_u) (digest p.Vp8Filter.pl_v)
  | _ -> "err"

let () = iter_lines (fun line ->
  match split_ws line with
  | ["recon"; _tag; hex] ->
    let data = Stdlib.List.map z_of_int (bytes_of_hex hex) in
    Printf.printf "I %s S %s\n" (show (Vp8Spec.decode_go data)) (show (Vp8Spec.decode data))
  | ["encrecon"; _tag; hex] ->
    (* the encoder-side reconstruction MODEL (Vp8NoDrift.enc_frame) on the choices recovered from the
       bytes: must be the planes the Go encoder holds after EncodeFrame *)
    let data = Stdlib.List.map z_of_int (bytes_of_hex hex) in
    let r = match Vp8SynParse.parse_syntax Vp8Spec.rfc_quirks data with
      | Res.Ok s ->
        let (_, ((w, h), p)) = Vp8NoDrift.enc_frame s in
        Printf.sprintf "ok %d %d %s.%s.%s" (int_of_z w) (int_of_z h)
          (digest p.Vp8Filter.pl_y) (digest p.Vp8Filter.pl_u) (digest p.Vp8Filter.pl_v)
      | _ -> "err" in
    Printf.printf "I %s\n" r
  | ["reemit"; _tag; hex] ->
    (* recover the syntax (header, modes, levels) from the encoder's bytes and emit it again through
       the model emitter + boolean-encoder model + layout: the bytes must come out the same *)
    let bytes = bytes_of_hex hex in
    let data = Stdlib.List.map z_of_int bytes in
    let r = match Vp8SynParse.reemit Vp8Spec.rfc_quirks data with
      | Res.Ok out ->
        let o = Stdlib.List.map int_of_z out in
        if o = bytes then "same"
        else begin
          let rec first i a b = match a, b with
            | x :: a', y :: b' -> if x = y then first (i + 1) a' b' else i
            | _, _ -> i in
          Printf.sprintf "differ at %d (lengths %d / %d)" (first 0 o bytes) (Stdlib.List.length o) (Stdlib.List.length bytes)
        end
      | _ -> "err" in
    Printf.printf "I %s\n" r
  | [] -> ()
  | _ -> print_endline "ERR bad-line")
