(** Extraction of the C06 models (ExtrOcamlBasic only): the specification decoder. *)
From Coq Require Import ZArith List.
From Coq Require Import ExtrOcamlBasic.
From Webp Require Vp8.Vp8Spec Vp8.Vp8SynParse Vp8.Vp8NoDrift.

Separate Extraction
  BinInt.Z.add BinInt.Z.mul BinInt.Z.sub BinInt.Z.opp BinInt.Z.div BinInt.Z.modulo
  BinInt.Z.eqb BinInt.Z.ltb BinInt.Z.leb BinInt.Z.of_nat BinInt.Z.to_nat BinInt.Z.of_N BinInt.Z.to_N
  Vp8.Vp8Spec.decode Vp8.Vp8Spec.decode_go Vp8.Vp8Spec.decode_unfiltered Vp8.Vp8Spec.rfc_quirks
  Vp8.Vp8SynParse.reemit Vp8.Vp8SynParse.parse_syntax Vp8.Vp8NoDrift.enc_frame.
