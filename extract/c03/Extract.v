(** Extraction of the C03 models (ExtrOcamlBasic only). *)
From Coq Require Import ZArith List.
From Coq Require Import ExtrOcamlBasic.
From Webp Require Vp8l.Vp8lPixel Vp8l.Vp8lSpec Vp8l.Vp8lEmit Vp8l.Vp8lInPlace Vp8l.Vp8lKernels Vp8l.Vp8lWf Vp8l.Vp8lTrace Vp8l.Vp8lLut Vp8l.Vp8lBitReader.
From Webp Require Vp8l.Vp8lPacked.
From Webp Require Vp8l.Vp8lBitReaderFill.

Separate Extraction
  BinInt.Z.add BinInt.Z.mul BinInt.Z.sub BinInt.Z.opp BinInt.Z.div BinInt.Z.modulo
  BinInt.Z.eqb BinInt.Z.ltb BinInt.Z.leb BinInt.Z.of_nat BinInt.Z.to_nat BinInt.Z.of_N BinInt.Z.to_N
  BinNat.N.add BinNat.N.mul BinNat.N.of_nat BinNat.N.to_nat
  Vp8lSpec.decode_full Vp8lSpec.decode_header Vp8lSpec.decode Vp8lSpec.apply_inverse Vp8lSpec.copy_step Vp8lSpec.copy_pixels
  Vp8lSpec.plane_to_dist Vp8lSpec.undelta Vp8lPrefix.tree_of_lens Vp8lPrefix.read_symbol
  Vp8lEmit.emit Vp8lEmit.sem Vp8lInPlace.apply_inverse_pingpong
  Vp8lBitReader.br_new Vp8lBitReader.br_run Vp8lBitReader.le_value Vp8lBitReaderFill.spec_script Vp8lBitReaderFill.wf_scriptb Vp8lLut.lut_build Vp8lLut.lut_read Vp8lPacked.packed_build Vp8lPacked.packed_read Vp8lPacked.seq_read Vp8lWf.wf_planb Vp8lTrace.trace_decode Vp8lTrace.prefix_then_zeros
  Vp8lKernels.copy_block Vp8lKernels.copy_fwd Vp8lKernels.expand_color_map.
