(* C03 runner.  One case per input line, one result line per case.
     dec <hex of a VP8L payload>
         -> "I <r> S <r>"   r = "OK w h <fnv1a64 of the RGBA bytes>" | "ERR"
            (stream-level cases have no separate implementation model: both
             fields are the specification decoder's result)
     wf <plan>
         -> "W 1" | "W 0"    the boolean well-formedness checker (sound for the hypothesis of emit_decode)
     trace <hex>
         -> "T w h alpha cache meta_bits ngroups t:<type>/<bits>,... " | "ERR"   *)
open Zutil

let fnv_px (l : Vp8lPixel.px list) : string =
  let h = ref 0xcbf29ce484222325L in
  let add b = h := Int64.mul (Int64.logxor !h (Int64.of_int (b land 255))) 0x100000001b3L in
  Stdlib.List.iter (fun p ->
    add (int_of_z p.Vp8lPixel.pr); add (int_of_z p.Vp8lPixel.pg);
    add (int_of_z p.Vp8lPixel.pb); add (int_of_z p.Vp8lPixel.pa)) l;
  Printf.sprintf "%016Lx" !h

let zbytes_of_hex s = Stdlib.List.map z_of_int (bytes_of_hex s)

let show_image w h px = Printf.sprintf "OK %d %d %s" (int_of_z w) (int_of_z h) (fnv_px px)

let hex_px (l : Vp8lPixel.px list) : string =
  hex_of_bytes (Stdlib.List.concat_map (fun p ->
    [int_of_z p.Vp8lPixel.pr; int_of_z p.Vp8lPixel.pg; int_of_z p.Vp8lPixel.pb; int_of_z p.Vp8lPixel.pa]) l)

(* ---- plan parser: a flat list of integers, see harness/c03/plan.go ---- *)
exception Bad_plan of string
let parse_plan (toks : string list) : Vp8lEmit.plan =
  let a = Array.of_list (Stdlib.List.map int_of_string toks) in
  let i = ref 0 in
  let next () = if !i >= Array.length a then raise (Bad_plan "short") else (let v = a.(!i) in incr i; v) in
  let z () = z_of_int (next ()) in
  let rec times n f = if n <= 0 then [] else let x = f () in x :: times (n - 1) f in
  let cltok () = match next () with
    | 16 -> Vp8lEmit.CLrep16 (z ()) | 17 -> Vp8lEmit.CLrep17 (z ()) | 18 -> Vp8lEmit.CLrep18 (z ())
    | l -> Vp8lEmit.CLlit (z_of_int l) in
  let code () = match next () with
    | 0 -> let n = next () in Vp8lEmit.CSimple (times n z)
    | 1 -> let ncl = z () in let cl = times 19 z in let um = z () in let n = next () in
      Vp8lEmit.CNormal (ncl, cl, um, times n cltok)
    | _ -> raise (Bad_plan "code") in
  let token () = match next () with
    | 0 -> let a = z () in let r = z () in let g = z () in let b = z () in
      Vp8lEmit.TLit { Vp8lPixel.pa = a; pr = r; pg = g; pb = b }
    | 1 -> Vp8lEmit.TCache (z ())
    | 2 -> let l = z () in let d = z () in Vp8lEmit.TCopy (l, d)
    | _ -> raise (Bad_plan "token") in
  let eimg () =
    let cb = z () in let ng = next () in
    let codes = times ng (fun () -> times 5 code) in
    let nt = next () in
    let tk = times nt token in
    { Vp8lEmit.ep_cache_bits = cb; ep_codes = codes; ep_tokens = tk } in
  let transform () = match next () with
    | 0 -> let b = z () in Vp8lEmit.TPPred (b, eimg ())
    | 1 -> let b = z () in Vp8lEmit.TPCross (b, eimg ())
    | 2 -> Vp8lEmit.TPSubGreen
    | 3 -> let n = z () in Vp8lEmit.TPIndex (n, eimg ())
    | _ -> raise (Bad_plan "transform") in
  let w = z () in let h = z () in let alpha = z () in
  let nt = next () in
  let ts = times nt transform in
  let meta = if next () = 1 then (let mb = z () in Some (mb, eimg ())) else None in
  let main = eimg () in
  if !i <> Array.length a then raise (Bad_plan "trailing");
  { Vp8lEmit.p_w = w; p_h = h; p_alpha = alpha; p_transforms = ts; p_meta = meta; p_main = main }

let px_of_u32 (s : string) : Vp8lPixel.px =
  let v = int_of_string s in
  { Vp8lPixel.pa = z_of_int ((v lsr 24) land 255); pr = z_of_int ((v lsr 16) land 255);
    pg = z_of_int ((v lsr 8) land 255); pb = z_of_int (v land 255) }
let u32_of_px (p : Vp8lPixel.px) : int =
  (int_of_z p.Vp8lPixel.pa lsl 24) lor (int_of_z p.Vp8lPixel.pr lsl 16) lor (int_of_z p.Vp8lPixel.pg lsl 8) lor int_of_z p.Vp8lPixel.pb
let show_u32s (l : Vp8lPixel.px list) : string =
  String.concat "," (Stdlib.List.map (fun p -> Printf.sprintf "%x" (u32_of_px p)) l)
let pxs_of_csv (s : string) : Vp8lPixel.px list =
  if s = "-" then [] else Stdlib.List.map (fun t -> px_of_u32 ("0x" ^ t)) (String.split_on_char ',' s)

(* The extracted list functions are not tail recursive: re-run ourselves with a
   large stack (the hard limit permitting) before reading any case. *)
let () =
  if Sys.getenv_opt "VP8L_RUNNER_STACK" = None then
    exit (Sys.command (Printf.sprintf
      "ulimit -s unlimited 2>/dev/null || ulimit -s 1000000 2>/dev/null; VP8L_RUNNER_STACK=1 exec %s"
      (Filename.quote Sys.executable_name)))

let () = Gc.set { (Gc.get ()) with Gc.minor_heap_size = 4 * 1024 * 1024; Gc.space_overhead = 400 }

let () = iter_lines (fun line ->
  (match split_ws line with
  | ["dec"; hex] | ["dec"; _; hex] ->
    let r = match Vp8lSpec.decode (zbytes_of_hex hex) with
      | Res.Ok im -> show_image im.Vp8lSpec.i_w im.Vp8lSpec.i_h im.Vp8lSpec.i_px
      | _ -> "ERR" in
    Printf.printf "I %s S %s\n" r r
  | "emit" :: toks ->
    (try Printf.printf "H %s\n" (hex_of_bytes (Stdlib.List.map int_of_z (Vp8lEmit.emit (parse_plan toks))))
     with Bad_plan m -> Printf.printf "ERR bad-plan %s\n" m)
  | "wf" :: toks ->
    (try Printf.printf "W %d\n" (if Vp8lWf.wf_planb (parse_plan toks) then 1 else 0)
     with Bad_plan m -> Printf.printf "ERR bad-plan %s\n" m)
  | "plan" :: _tag :: toks ->
    (try
       let p = parse_plan toks in
       let bytes = Vp8lEmit.emit p in
       let i = match Vp8lSpec.decode bytes with
         | Res.Ok im -> show_image im.Vp8lSpec.i_w im.Vp8lSpec.i_h im.Vp8lSpec.i_px
         | _ -> "ERR" in
       let sm = Vp8lEmit.sem p in
       Printf.printf "I %s S %s\n" i (show_image sm.Vp8lSpec.i_w sm.Vp8lSpec.i_h sm.Vp8lSpec.i_px)
     with Bad_plan m -> Printf.printf "ERR bad-plan %s\n" m)
  | ["cpb"; pos; dist; len; data] ->
    let d = pxs_of_csv data in
    let n s = nat_of_int (int_of_string s) in
    let i = Vp8lKernels.copy_block Vp8lPixel.px_zero d (n pos) (n dist) (n len) in
    let s = Vp8lKernels.copy_fwd Vp8lPixel.px_zero (n len) d (n pos) (n dist) in
    Printf.printf "I %s S %s\n" (show_u32s i) (show_u32s s)
  | ["ecm"; ncolors; bits; pal] ->
    let p = pxs_of_csv pal in
    let b = int_of_string bits in
    let i = Vp8lKernels.expand_color_map (z_of_string ncolors) (z_of_int b) p in
    let a = Vp8lArr.arr_of_list (Vp8lSpec.undelta Vp8lPixel.px_zero p) in
    let s = Stdlib.List.init (1 lsl (8 lsr b)) (fun k -> Vp8lArr.arr_get Vp8lPixel.px_zero a (z_of_int k)) in
    Printf.printf "I %s S %s\n" (show_u32s i) (show_u32s s)
  | "aiv" :: w :: h :: cw :: nt :: rest ->
    let rec ts k r = if k = 0 then ([], r) else match r with
      | ty :: bits :: xs :: ys :: data :: tl ->
        let d = pxs_of_csv data in
        let d = if ty = "3" then Vp8lSpec.undelta Vp8lPixel.px_zero d else d in
        let t = { Vp8lSpec.t_type = z_of_string ty; t_bits = z_of_string bits; t_w = z_of_string xs;
                  t_h = z_of_string ys; t_data = d } in
        let (l, r') = ts (k - 1) tl in (t :: l, r')
      | _ -> failwith "aiv" in
    let (tl, r) = ts (int_of_string nt) rest in
    let coded = match r with [c] -> pxs_of_csv c | _ -> failwith "aiv coded" in
    let wi = int_of_string w and hi = int_of_string h and cwi = int_of_string cw in
    let numalloc = max (wi * hi) (cwi * hi) in
    let zeros n = Stdlib.List.init (max n 0) (fun _ -> Vp8lPixel.px_zero) in
    let sa = zeros (numalloc - cwi * hi + wi + wi * 16) and sb = zeros numalloc in
    let res = Vp8lInPlace.apply_inverse_pingpong tl coded sa sb in
    let take n l = Stdlib.List.filteri (fun i _ -> i < n) l in
    Printf.printf "I %s S %s\n" (show_u32s (take (wi * hi) res)) (show_u32s (Vp8lSpec.apply_inverse tl coded))
  | "huf" :: root :: bits :: lens ->
    (* I: the table model (BuildHuffmanTable + ReadSymbol); S: the canonical code tree *)
    let lz = Stdlib.List.map z_of_string lens in
    let b = int_of_string bits in
    let rt = z_of_string root in
    let bl = Stdlib.List.init 32 (fun k -> (b lsr k) land 1 = 1) in
    let s = match Vp8lPrefix.tree_of_lens lz with
      | Res.Ok t -> (match Vp8lPrefix.read_symbol t bl with
          | Res.Ok (sym, rest) -> Printf.sprintf "%d %d" (int_of_z sym) (32 - Stdlib.List.length rest)
          | _ -> "ERR")
      | _ -> "ERR" in
    let i = match Vp8lLut.lut_build rt lz with
      | Res.Ok tab -> let (v, n) = Vp8lLut.lut_read rt tab (z_of_int b) in
        Printf.sprintf "%d %d" (int_of_z v) (int_of_z n)
      | _ -> "ERR" in
    Printf.printf "I %s S %s\n" i s
  | [ "pkd"; w; alphg; sg; sr; sb; sa ] ->
    (* I: packed table model (buildPackedTable + readPackedSymbols) on the root-8 table models;
       S: the four canonical code trees walked one after the other (Vp8lPacked.seq_read) *)
    let lens alphabet sp =
      let a = Array.make alphabet 0 in
      Stdlib.List.iter (fun it -> match String.split_on_char ':' it with
        | [s; l] -> a.(int_of_string s) <- int_of_string l | _ -> failwith "pkd lens")
        (String.split_on_char ',' sp);
      Stdlib.List.map z_of_int (Array.to_list a) in
    let lg = lens (int_of_string alphg) sg and lr = lens 256 sr and lb = lens 256 sb and la = lens 256 sa in
    let wz = z_of_int (int_of_string w) in
    let show (r, n) = match r with
      | Vp8lPacked.PLit v -> Printf.sprintf "L %s %d" (string_of_z v) (int_of_z n)
      | Vp8lPacked.PSym v -> Printf.sprintf "S %s %d" (string_of_z v) (int_of_z n) in
    let rt = z_of_int 8 in
    let i = match Vp8lLut.lut_build rt lg, Vp8lLut.lut_build rt lr, Vp8lLut.lut_build rt lb, Vp8lLut.lut_build rt la with
      | Res.Ok g, Res.Ok r, Res.Ok b, Res.Ok a -> show (Vp8lPacked.packed_read (Vp8lPacked.packed_build g r b a) wz)
      | _ -> "ERR" in
    let s = match Vp8lPrefix.tree_of_lens lg, Vp8lPrefix.tree_of_lens lr, Vp8lPrefix.tree_of_lens lb, Vp8lPrefix.tree_of_lens la with
      | Res.Ok tg, Res.Ok tr, Res.Ok tb, Res.Ok ta ->
        (match Vp8lPacked.seq_read tg tr tb ta wz with Some x -> show x | None -> "ERR")
      | _ -> "ERR" in
    Printf.printf "I %s S %s\n" i s
  | "brd" :: hex :: ops ->
    (* the 64-bit window bit reader model on a script of operations (see Vp8lBitReader.br_run) *)
    let data = if hex = "-" then [] else zbytes_of_hex hex in
    let opz = Stdlib.List.map z_of_string ops in
    let res = Vp8lBitReader.br_run opz (Vp8lBitReader.br_new data) in
    let show r = String.concat "," (Stdlib.List.map (fun (v, e) -> Printf.sprintf "%s:%d" (string_of_z v) (if e then 1 else 0)) r) in
    (* scripts that keep the decoder's refill discipline (wf_scriptb, proved sound) also get the
       specification side: the fields of the byte string read as one little-endian integer *)
    let lim = z_of_int (8 * Stdlib.List.length data) in
    if Vp8lBitReaderFill.wf_scriptb lim opz (z_of_int 0) (z_of_int 56)
    then Printf.printf "I %s S %s\n" (show res) (show (Vp8lBitReaderFill.spec_script (Vp8lBitReader.le_value data) opz (z_of_int 0)))
    else Printf.printf "I %s\n" (show res)
  | ["p2d"; w; code] ->
    let r = string_of_z (Vp8lSpec.plane_to_dist (z_of_string w) (z_of_string code)) in
    Printf.printf "I %s S %s\n" r r
  | ["pix"; hex] ->
    (match Vp8lSpec.decode (zbytes_of_hex hex) with
     | Res.Ok im -> Printf.printf "P %d %d %s\n" (int_of_z im.Vp8lSpec.i_w) (int_of_z im.Vp8lSpec.i_h) (hex_px im.Vp8lSpec.i_px)
     | Res.Err e -> Printf.printf "ERR %d\n" (int_of_nat e)
     | Res.Panic -> print_endline "PANIC")
  | ["replan"; hex] ->
    (* recover the plan the stream is the emission of; check it against the proved theorem's hypothesis *)
    let bytes = zbytes_of_hex hex in
    (match Vp8lTrace.trace_decode bytes with
     | Res.Ok p ->
       let wf = Vp8lWf.wf_planb p in
       let same = Vp8lTrace.prefix_then_zeros (Vp8lEmit.emit p) bytes in
       let sm = Vp8lEmit.sem p in
       Printf.printf "R wf=%d emit=%d OK %d %d %s\n" (if wf then 1 else 0) (if same then 1 else 0)
         (int_of_z sm.Vp8lSpec.i_w) (int_of_z sm.Vp8lSpec.i_h) (fnv_px sm.Vp8lSpec.i_px)
     | _ -> print_endline "R ERR")
  | ["trace"; hex] ->
    (match Vp8lSpec.decode_header (zbytes_of_hex hex) with
     | Res.Ok d ->
       let ts = Stdlib.List.map (fun t -> Printf.sprintf "%d/%d" (int_of_z t.Vp8lSpec.t_type) (int_of_z t.Vp8lSpec.t_bits)) d.Vp8lSpec.d_transforms in
       Printf.printf "T %d %d %d %d %d %d t:%s\n" (int_of_z d.Vp8lSpec.d_w) (int_of_z d.Vp8lSpec.d_h)
         (int_of_z d.Vp8lSpec.d_alpha_hint) (int_of_z d.Vp8lSpec.d_cache_bits) (int_of_z d.Vp8lSpec.d_meta_bits)
         (int_of_z d.Vp8lSpec.d_ngroups) (String.concat "," ts)
     | _ -> print_endline "ERR")
  | [] -> ()
  | _ -> print_endline "ERR bad-line");
  flush stdout)
