(* C03 runner.  One case per input line, one result line per case.
     dec <hex of a VP8L payload>
         -> "I <r> S <r>"   r = "OK w h <fnv1a64 of the RGBA bytes>" | "ERR"
            (stream-level cases have no separate implementation model: both
             fields are the specification decoder's result)
     trace <hex>
         -> "T w h alpha cache meta_bits ngroups t:<type>/<bits>,... " | "ERR"   *)
open Zutil

let fnv_px (l : Vp8lPixel.px list) : string =
  let h = ref 0xcbf29ce484222325L in
  let add b = h := Int64.mul (Int64.logxor !h (Int64.of_int (b land 255))) 0x100000001b3L in
  Stdlib.List.iter (fun p ->
    add (int_of_z p.Vp8lPixel.pr); add (int_of_z p.Vp8lPixel.pg);
    add (int_of_z p.Vp8lPixel.pb); add (int_of_z p.Vp8lPixel.pa)) l;
  Printf.sprintf "%016Lx" !h

let zbytes_of_hex s = Stdlib.List.map z_of_int (bytes_of_hex s)

let show_image w h px = Printf.sprintf "OK %d %d %s" (int_of_z w) (int_of_z h) (fnv_px px)

let hex_px (l : Vp8lPixel.px list) : string =
  hex_of_bytes (Stdlib.List.concat_map (fun p ->
    [int_of_z p.Vp8lPixel.pr; int_of_z p.Vp8lPixel.pg; int_of_z p.Vp8lPixel.pb; int_of_z p.Vp8lPixel.pa]) l)

let () = iter_lines (fun line ->
  (match split_ws line with
  | ["dec"; hex] | ["dec"; _; hex] ->
    let r = match Vp8lSpec.decode (zbytes_of_hex hex) with
      | Res.Ok im -> show_image im.Vp8lSpec.i_w im.Vp8lSpec.i_h im.Vp8lSpec.i_px
      | _ -> "ERR" in
    Printf.printf "I %s S %s\n" r r
  | ["pix"; hex] ->
    (match Vp8lSpec.decode (zbytes_of_hex hex) with
     | Res.Ok im -> Printf.printf "P %d %d %s\n" (int_of_z im.Vp8lSpec.i_w) (int_of_z im.Vp8lSpec.i_h) (hex_px im.Vp8lSpec.i_px)
     | Res.Err e -> Printf.printf "ERR %d\n" (int_of_nat e)
     | Res.Panic -> print_endline "PANIC")
  | ["trace"; hex] ->
    (match Vp8lSpec.decode_full (zbytes_of_hex hex) with
     | Res.Ok d ->
       let ts = Stdlib.List.map (fun t -> Printf.sprintf "%d/%d" (int_of_z t.Vp8lSpec.t_type) (int_of_z t.Vp8lSpec.t_bits)) d.Vp8lSpec.d_transforms in
       Printf.printf "T %d %d %d %d %d %d t:%s\n" (int_of_z d.Vp8lSpec.d_w) (int_of_z d.Vp8lSpec.d_h)
         (int_of_z d.Vp8lSpec.d_alpha_hint) (int_of_z d.Vp8lSpec.d_cache_bits) (int_of_z d.Vp8lSpec.d_meta_bits)
         (int_of_z d.Vp8lSpec.d_ngroups) (String.concat "," ts)
     | _ -> print_endline "ERR")
  | [] -> ()
  | _ -> print_endline "ERR bad-line");
  flush stdout)
