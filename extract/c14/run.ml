(* C14 runner.  Input, one case per line:
     mux <op>...           Assemble bytes + demuxer result on them
     rt <class> <op>...    round trip in view form; S = the specification
     demux <hex>           demuxer on given bytes
   ops:  AF <hex> <o|n> dur ox oy blend dispose | DM i mode | DU i dur | IC blob | EX blob |
         XM blob | AC id blob | LC n | BG c | CS w h | AS (Assemble, result k/e)         (blob: "-" nil, "e" empty, hex)
   The models run are those of the current (repaired) code: MuxModel.repaired and
   DemuxModel.parse true; the pinned variants exist only inside _refuted theorems.    *)
open Zutil
open Riffio

let rec parse_ops (t : string list) : MuxModel.op list =
  let z = z_of_string in
  match t with
  | [] -> []
  | "AF" :: hex :: o :: dur :: ox :: oy :: bl :: di :: tl ->
    let opts = if o = "o" then Some { MuxModel.o_dur = z dur; o_ox = z ox; o_oy = z oy; o_blend = z bl; o_dispose = z di } else None in
    MuxModel.AddFrame ((if hex = "-" then [] else zlist_of_hex hex), opts) :: parse_ops tl
  | "DM" :: i :: m :: tl -> MuxModel.SetFrameDisposeMode (z i, z m) :: parse_ops tl
  | "DU" :: i :: d :: tl -> MuxModel.SetFrameDuration (z i, z d) :: parse_ops tl
  | "IC" :: b :: tl -> MuxModel.SetICC (oblob_of_string b) :: parse_ops tl
  | "EX" :: b :: tl -> MuxModel.SetEXIF (oblob_of_string b) :: parse_ops tl
  | "XM" :: b :: tl -> MuxModel.SetXMP (oblob_of_string b) :: parse_ops tl
  | "AC" :: id :: b :: tl -> MuxModel.AddChunk (z id, oblob_of_string b) :: parse_ops tl
  | "LC" :: n :: tl -> MuxModel.SetLoopCount (z n) :: parse_ops tl
  | "BG" :: c :: tl -> MuxModel.SetBackgroundColor (z c) :: parse_ops tl
  | "CS" :: w :: h :: tl -> MuxModel.SetCanvasSize (z w, z h) :: parse_ops tl
  | "AS" :: tl -> MuxModel.AssembleCall :: parse_ops tl
  | x :: _ -> failwith ("bad op " ^ x)

let fmt_view (v : MuxView.view) : string =
  let open MuxView in
  let fr f = Printf.sprintf "%s,%s,%s,%s,%s,%s,%s" (fmt_bytes f.v_bits) (fmt_oblob f.v_alpha)
      (zs f.v_ox) (zs f.v_oy) (zs f.v_dur) (b2s f.v_blend_none) (b2s f.v_dispose_bg) in
  Printf.sprintf "V=%d[%s] %sx%s a=%s l=%s b=%s m=%s,%s,%s" (Stdlib.List.length v.vw_frames)
    (String.concat ";" (Stdlib.List.map fr v.vw_frames)) (zs v.vw_cw) (zs v.vw_ch) (b2s v.vw_anim)
    (zs v.vw_loop) (zs v.vw_bg) (fmt_oblob v.vw_icc) (fmt_oblob v.vw_exif) (fmt_oblob v.vw_xmp)

let fixes = MuxModel.repaired

(* the outputs of the calls, one char each: k = nil, e = error *)
let outs ops =
  let b = Buffer.create 16 in
  let _ = Stdlib.List.fold_left (fun m o ->
      let (m', r) = MuxModel.step m o in
      (match o with
       | MuxModel.AssembleCall ->
         (* the call's own result: Assemble of the state at that point *)
         Buffer.add_char b (match MuxModel.assemble fixes m with Res.Ok _ -> 'k' | Res.Err _ -> 'e' | Res.Panic -> 'P')
       | _ -> Buffer.add_char b (match r with MuxModel.OutOk -> 'k' | MuxModel.OutErr -> 'e'));
      m')
      MuxModel.minit ops in
  Buffer.contents b

let () = iter_lines (fun line ->
  match split_ws line with
  | "mux" :: rest ->
    let ops = parse_ops rest in
    let m = MuxModel.run ops in
    (match MuxModel.assemble fixes m with
     | Res.Ok bs ->
       Printf.printf "I %s ok %s | %s\n" (outs ops) (hex_of_bytes (Stdlib.List.map int_of_z bs))
         (fmt_parse (DemuxModel.parse true bs))
     | Res.Err _ -> Printf.printf "I %s err\n" (outs ops)
     | Res.Panic -> Printf.printf "I %s panic\n" (outs ops))
  | "rt" :: _cls :: rest ->
    let ops = parse_ops rest in
    let m = MuxModel.run ops in
    let hyp = Stdlib.List.for_all MuxView.op_okb ops in
    let i, s =
      match MuxModel.assemble fixes m with
      | Res.Ok bs ->
        let i = match DemuxModel.parse true bs with
          | Res.Ok d -> (match MuxView.view_of_demux d with Some vw -> "ok " ^ fmt_view vw | None -> "ok demux-nil-frame")
          | Res.Err _ -> "ok demux-err"
          | Res.Panic -> "ok demux-panic" in
        let s = if RiffGrammar.wf bs then "ok " ^ fmt_view (MuxView.view_of_mux m) else "ok not-well-formed" in
        i, s
      | Res.Err _ -> "err", "err"
      | Res.Panic -> "panic", "no-panic" in
    if hyp then Printf.printf "I %s S %s\n" i s else Printf.printf "I %s\n" i
  | ["demux"; hex] ->
    let bs = if hex = "-" then [] else zlist_of_hex hex in
    Printf.printf "I %s\n" (fmt_parse (DemuxModel.parse true bs))
  | [] -> ()
  | _ -> print_endline "ERR bad-line")
