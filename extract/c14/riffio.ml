(* Shared by the C05 and C14 runners (kept identical in extract/c05 and
   extract/c14): conversions and the canonical text form of a demuxer result. *)
open Zutil

let zlist_of_hex (s : string) : BinNums.coq_Z list =
  Stdlib.List.map z_of_int (bytes_of_hex s)

(* blob syntax: "-" nil, "e" empty non-nil, otherwise hex *)
let oblob_of_string (s : string) : BinNums.coq_Z list option =
  if s = "-" then None else if s = "e" then Some [] else Some (zlist_of_hex s)

let fnv64 (l : int list) : int64 =
  Stdlib.List.fold_left (fun h b -> Int64.mul (Int64.logxor h (Int64.of_int b)) 0x100000001b3L)
    0xcbf29ce484222325L l

let fmt_bytes (l : BinNums.coq_Z list) : string =
  let il = Stdlib.List.map int_of_z l in
  let n = Stdlib.List.length il in
  if n = 0 then "e"
  else if n <= 16 then "h" ^ hex_of_bytes il
  else Printf.sprintf "%d:%016Lx" n (fnv64 il)

let fmt_oblob (o : BinNums.coq_Z list option) : string =
  match o with None -> "-" | Some l -> fmt_bytes l

let b2s (b : bool) : string = if b then "1" else "0"
let zs = string_of_z

(* ids probed through GetChunk: VP8X VP8 VP8L ALPH ANIM ANMF ICCP EXIF XMP "UNKN" *)
let probe_ids = ["1480085590"; "540561494"; "1278758998"; "1213221953"; "1296649793";
                 "1179471425"; "1346585417"; "1179211845"; "542133592"; "1313558101"]

let fmt_dstate (d : DemuxModel.dstate) : string =
  let open DemuxModel in
  let f = d.d_feat in
  let chunks = String.concat ";" (Stdlib.List.map (fun c ->
      Printf.sprintf "%s:%s:%s" (zs c.c_id) (zs c.c_size) (fmt_bytes c.c_data)) d.d_chunks) in
  let fr (fi : frame_info) =
    Printf.sprintf "%s,%s,%s,%s,%s,%s,%s,%s,%s,%s,%s" (fmt_oblob fi.fi_data) (fmt_oblob fi.fi_alpha)
      (zs fi.fi_w) (zs fi.fi_h) (zs fi.fi_ox) (zs fi.fi_oy) (zs fi.fi_dur)
      (b2s fi.fi_key) (b2s fi.fi_hasalpha) (zs fi.fi_blend) (zs fi.fi_dispose) in
  (* Frame(i) for every valid index and for -1 and n *)
  let n = Stdlib.List.length d.d_frames in
  let frame_at i = match DemuxModel.frame d (z_of_int i) with
    | Res.Ok fi -> fr fi | Res.Err _ -> "!" | Res.Panic -> "PANIC" in
  let frames = String.concat ";" (Stdlib.List.init n frame_at) in
  let gc = String.concat "," (Stdlib.List.map (fun id ->
      match DemuxModel.get_chunk d (z_of_string id) with
      | Res.Ok l -> fmt_bytes l | Res.Err _ -> "!" | Res.Panic -> "PANIC") probe_ids) in
  Printf.sprintf "ok F=%s,%s,%s,%s,%s,%s,%s,%s L=%s B=%s M=%s,%s,%s C=%s N=%d R=%s X=%s%s G=%s"
    (zs f.ft_w) (zs f.ft_h) (b2s f.ft_alpha) (b2s f.ft_anim) (b2s f.ft_icc) (b2s f.ft_exif) (b2s f.ft_xmp)
    (zs f.ft_format) (zs d.d_loop) (zs d.d_bg) (fmt_oblob d.d_icc) (fmt_oblob d.d_exif) (fmt_oblob d.d_xmp)
    chunks n frames (frame_at (-1)) (frame_at n) gc

let fmt_parse (r : DemuxModel.dstate Res.coq_Res) : string =
  match r with
  | Res.Ok d -> fmt_dstate d
  | Res.Err e -> if int_of_nat e = 99 then "err-fuel" else "err"
  | Res.Panic -> "panic"
