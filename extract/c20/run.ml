(* C20 runner.  Input, one case per line:
     eff <wnil> <inil> <optsnil> <w> <h> <hasalpha> <25 option fields>
     preset <p> <quality>
     default
     sanitize <kmin> <kmax>      (animation.sanitizeKeyframeOptions)
     loop <v>                    (animation.clampLoopCount)
   Option fields (declaration order of EncoderOptions): bools 0|1, ints decimal,
   float32 as nan | +inf | -inf | <decimal n> (value n * 2^-149), blobs as lengths.
   Output: "I <canonical result>".                                            *)
open Zutil
open OptsModel

let fl_of s = match s with
  | "nan" -> FNaN | "+inf" -> FPInf | "-inf" -> FNInf
  | _ -> FFin (z_of_string s)
let str_fl x = match x with
  | FNaN -> "nan" | FPInf -> "+inf" | FNInf -> "-inf" | FFin n -> string_of_z n
let b s = (s = "1")
let sb x = if x then "1" else "0"
let z = z_of_string
let sz = string_of_z

let opts_of l = match l with
  | [a0;a1;a2;a3;a4;a5;a6;a7;a8;a9;a10;a11;a12;a13;a14;a15;a16;a17;a18;a19;a20;a21;a22;a23;a24] ->
    { oLossless = b a0; oQuality = fl_of a1; oMethod = z a2; oPreset = z a3; oUseSharpYUV = b a4;
      oExact = b a5; oTargetSize = z a6; oTargetPSNR = fl_of a7; oPreprocessing = z a8;
      oSNSStrength = z a9; oFilterStrength = z a10; oFilterSharpness = z a11; oFilterType = z a12;
      oPartitions = z a13; oSegments = z a14; oPass = z a15; oEmulateJpegSize = b a16; oQMin = z a17;
      oQMax = z a18; oAlphaCompression = z a19; oAlphaFiltering = z a20; oAlphaQuality = z a21;
      oICC = z a22; oEXIF = z a23; oXMP = z a24 }
  | _ -> failwith "opts fields"

let str_opts o =
  String.concat " " [ sb o.oLossless; str_fl o.oQuality; sz o.oMethod; sz o.oPreset; sb o.oUseSharpYUV;
    sb o.oExact; sz o.oTargetSize; str_fl o.oTargetPSNR; sz o.oPreprocessing; sz o.oSNSStrength;
    sz o.oFilterStrength; sz o.oFilterSharpness; sz o.oFilterType; sz o.oPartitions; sz o.oSegments;
    sz o.oPass; sb o.oEmulateJpegSize; sz o.oQMin; sz o.oQMax; sz o.oAlphaCompression;
    sz o.oAlphaFiltering; sz o.oAlphaQuality; sz o.oICC; sz o.oEXIF; sz o.oXMP ]

let str_meta m = let ((i, e), x) = m in Printf.sprintf "%s %s %s" (sz i) (sz e) (sz x)

let str_res r = match r with
  | Res.Panic -> "PANIC"
  | Res.Err _ -> "ERR"   (* which check fires first is not part of the property *)
  | Res.Ok (ELossless (l, m)) ->
    Printf.sprintf "LL %s %s %s %s | %s" (sz l.lQuality) (sz l.lMethod) (sz l.lNear) (sb l.lExact) (str_meta m)
  | Res.Ok (ELossy (c, a, ex, sh, m)) ->
    Printf.sprintf "LY %s %s %s %s %s %s %s %s %s %s %s %s %s %s %s %s | %s %s %s %s | %s %s | %s"
      (sz c.cQuality) (sz c.cTargetSize) (str_fl c.cTargetPSNR) (sz c.cMethod) (sz c.cSNS) (sz c.cFStrength)
      (sz c.cFSharpness) (sz c.cFType) (sz c.cPartitions) (sz c.cSegments) (sz c.cPass) (sz c.cPreprocessing)
      (match c.cDither with None -> "-" | Some q -> str_fl q) (sz c.cQMin) (sz c.cQMax) (sz c.cHasAlpha)
      (sz a.aQuality) (sz a.aMethod) (sz a.aFilter) (sz a.aEffort) (sb ex) (sb sh) (str_meta m)

let () = iter_lines (fun line ->
  match split_ws line with
  | "eff" :: wn :: inl :: on :: w :: h :: ha :: rest ->
    let oo = if b on then None else Some (opts_of rest) in
    print_endline ("I " ^ str_res (encode_outcome (b wn) (b inl) oo (z w) (z h) (b ha)))
  | ["preset"; p; q] -> print_endline ("I " ^ str_opts (options_for_preset (z p) (fl_of q)))
  | ["default"] -> print_endline ("I " ^ str_opts default_options)
  | ["sanitize"; a; b] ->
    let (x, y) = OptsAnim.sanitize_keyframes (z a) (z b) in
    print_endline (Printf.sprintf "I %s %s" (sz x) (sz y))
  | ["loop"; v] -> print_endline ("I " ^ sz (OptsAnim.clamp_loop_count (z v)))
  | [] -> ()
  | _ -> print_endline "ERR bad-line")
