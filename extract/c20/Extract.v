(** Extraction of the C20 models (ExtrOcamlBasic only). *)
From Coq Require Import ZArith List.
From Coq Require Import ExtrOcamlBasic.
From Webp Require Opts.OptsModel Opts.OptsAnim.

Separate Extraction
  BinInt.Z.add BinInt.Z.mul BinInt.Z.sub BinInt.Z.opp BinInt.Z.div BinInt.Z.modulo
  BinInt.Z.eqb BinInt.Z.ltb BinInt.Z.leb BinInt.Z.of_nat BinInt.Z.to_nat BinInt.Z.of_N BinInt.Z.to_N
  OptsModel.effective OptsModel.encode_outcome OptsModel.options_for_preset OptsModel.default_options
  OptsModel.validate OptsAnim.sanitize_keyframes OptsAnim.clamp_loop_count.
