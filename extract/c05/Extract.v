(** Extraction of the C05 models (ExtrOcamlBasic only). *)
From Coq Require Import ZArith List.
From Coq Require Import ExtrOcamlBasic.
From Webp Require Base.Res.
From Webp Require Riff.DemuxModel.
From Webp Require Riff.ParserModel.

Separate Extraction
  BinInt.Z.add BinInt.Z.mul BinInt.Z.sub BinInt.Z.opp BinInt.Z.div BinInt.Z.modulo
  BinInt.Z.eqb BinInt.Z.ltb BinInt.Z.leb BinInt.Z.of_nat BinInt.Z.to_nat BinInt.Z.of_N BinInt.Z.to_N
  Riff.DemuxModel.parse Riff.DemuxModel.read_chunk Riff.DemuxModel.read_chunk_header Riff.DemuxModel.frame Riff.DemuxModel.get_chunk Riff.DemuxModel.num_frames
  Riff.ParserModel.parse_ex.
