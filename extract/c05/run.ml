(* C05 runner.  Input, one case per line:
     demux <hex bytes of the file | "-" for the empty input>      (model: DemuxModel.parse true = the current code)
   Output: "I <panic | err | ok F=... (canonical demuxer result, see riffio.ml)>" *)
open Zutil
open Riffio

let () = iter_lines (fun line ->
  match split_ws line with
  | ["demux"; hex] ->
    let bs = if hex = "-" then [] else zlist_of_hex hex in
    Printf.printf "I %s\n" (fmt_parse (DemuxModel.parse true bs))
  | [] -> ()
  | _ -> print_endline "ERR bad-line")
