(* C05 runner.  Input, one case per line:
     pclass <hex>   outcome class (+ frame count) of container.NewParser via GetFeatures
     rchunk <hex>   ReadChunkHeader + ReadChunk on the bytes
     demux <hex bytes of the file | "-" for the empty input>      (model: DemuxModel.parse true = the current code)
   Output: "I <panic | err | ok F=... (canonical demuxer result, see riffio.ml)>" *)
open Zutil
open Riffio

let () = iter_lines (fun line ->
  match split_ws line with
  | ["demux"; hex] ->
    let bs = if hex = "-" then [] else zlist_of_hex hex in
    Printf.printf "I %s\n" (fmt_parse (DemuxModel.parse true bs))
  | ["rchunk"; hex] ->
    (* mux.ReadChunkHeader and mux.ReadChunk called directly *)
    let bs = if hex = "-" then [] else zlist_of_hex hex in
    let h = match DemuxModel.read_chunk_header bs with
      | Res.Ok (id, sz) -> Printf.sprintf "ok %s %s" (zs id) (zs sz)
      | Res.Err _ -> "err" | Res.Panic -> "panic" in
    let c = match DemuxModel.read_chunk bs with
      | Res.Ok (c, n) -> Printf.sprintf "ok %s %s %s %s" (zs c.DemuxModel.c_id) (zs c.DemuxModel.c_size) (fmt_bytes c.DemuxModel.c_data) (zs n)
      | Res.Err _ -> "err" | Res.Panic -> "panic" in
    Printf.printf "I H=%s C=%s\n" h c
  | ["pclass"; hex] ->
    (* outcome class of container.NewParser (through webp.GetFeatures): ParserModel.parse_ex true *)
    let bs = if hex = "-" then [] else zlist_of_hex hex in
    Printf.printf "I %s\n" (match ParserModel.parse_ex true bs with
      | Res.Ok (p, _) -> Printf.sprintf "ok %d" (Stdlib.List.length p.ParserModel.pFrames)
      | Res.Err _ -> "err" | Res.Panic -> "panic")
  | [] -> ()
  | _ -> print_endline "ERR bad-line")
