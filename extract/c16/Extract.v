(** Extraction of the RIFF container models used by C15/C16/C17 (ExtrOcamlBasic only).
    The same file is used by extract/c15, extract/c16 and extract/c17. *)
From Coq Require Import ZArith List.
From Coq Require Import ExtrOcamlBasic.
From Webp Require Riff.ParserModel Riff.WriterModel Riff.FeaturesModel Riff.ParserSpec.

Separate Extraction
  BinInt.Z.add BinInt.Z.mul BinInt.Z.sub BinInt.Z.opp BinInt.Z.div BinInt.Z.modulo
  BinInt.Z.eqb BinInt.Z.ltb BinInt.Z.leb BinInt.Z.of_nat BinInt.Z.to_nat BinInt.Z.of_N BinInt.Z.to_N
  ParserModel.parse_ex ParserModel.parse
  WriterModel.write_riff WriterModel.write_lossless_stream WriterModel.encode_lossless_container
  WriterModel.anim_close
  FeaturesModel.decode_bytes FeaturesModel.decode_config FeaturesModel.get_features FeaturesModel.sniff
  ParserSpec.spec_get_chunk ParserSpec.riff_wf ParserSpec.riff_chunks.
