(** Extraction of the C04 models (ExtrOcamlBasic only). *)
From Coq Require Import ZArith List.
From Coq Require Import ExtrOcamlBasic.
From Webp Require Vp8.Vp8Bool Vp8.Vp8Tables Vp8.Vp8Syntax Vp8.Vp8Kernels Vp8.Vp8Recon Vp8.Vp8Filter Vp8.Vp8Spec Vp8.Vp8Upsample Vp8.Vp8BoolEnc Vp8.Vp8Rgb Vp8.Vp8GoReader Vp8.Vp8InlineCoeffs Vp8.Vp8FrameRT Vp8.Vp8TokenBuf.
From Webp Require Conform.ConformFile.

Separate Extraction
  BinInt.Z.add BinInt.Z.mul BinInt.Z.sub BinInt.Z.opp BinInt.Z.div BinInt.Z.modulo
  BinInt.Z.eqb BinInt.Z.ltb BinInt.Z.leb BinInt.Z.of_nat BinInt.Z.to_nat BinInt.Z.of_N BinInt.Z.to_N
  Vp8.Vp8Spec.decode Vp8.Vp8Spec.decode_go Vp8.Vp8Spec.decode_unfiltered
  Vp8.Vp8Kernels.idct Vp8.Vp8Kernels.iwht Vp8.Vp8Kernels.pred4 Vp8.Vp8Kernels.pred_block
  Vp8.Vp8Kernels.lf_simple Vp8.Vp8Kernels.lf_subblock Vp8.Vp8Kernels.lf_mbedge
  Vp8.Vp8Kernels.go_transform_one Vp8.Vp8Kernels.go_transform_dc Vp8.Vp8Kernels.go_transform_ac3
  Vp8.Vp8Kernels.go_wht Vp8.Vp8Kernels.go_simple_seg Vp8.Vp8Kernels.go_loop26_seg Vp8.Vp8Kernels.go_loop24_seg
  Vp8.Vp8Kernels.add_residual Vp8.Vp8Upsample.upsample_pair
  Vp8.Vp8Kernels.go_fstrength Vp8.Vp8Kernels.lf_mb_params Vp8.Vp8Kernels.subedge_limit
  Vp8.Vp8Rgb.decode_rgb Conform.ConformFile.alpha_decode
  Vp8.Vp8GoReader.gr_load Vp8.Vp8GoReader.gr_bit Vp8.Vp8InlineCoeffs.go_get_coeffs Vp8.Vp8Syntax.decode_block
  Vp8.Vp8Bool.read_bool
  Vp8.Vp8BoolEnc.bw_init Vp8.Vp8BoolEnc.bw_put Vp8.Vp8BoolEnc.bw_put_uniform Vp8.Vp8BoolEnc.bw_put_bits
  Vp8.Vp8BoolEnc.bw_put_signed Vp8.Vp8BoolEnc.bw_finish Vp8.Vp8BoolAbs.rfc_bits Vp8.Vp8Bool.bd_init
  Vp8.Vp8BoolEnc.bool_encode Vp8.Vp8FrameRT.part_syms
  Vp8.Vp8TokenBuf.session Vp8.Vp8TokenBuf.emit_part Vp8.Vp8TokenBuf.part_sel.
