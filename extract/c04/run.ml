(* C04 runner.  Input lines:
     dec <tag> <hex of the VP8 chunk payload>
   Output: "I <result of decode_go> S <result of decode>", result =
     "ok w h u:<hy>.<hu>.<hv> f:<hy>.<hu>.<hv>"  (plane digests before / after the loop filter)
     "err"                                        (rejected, or needs bits beyond a partition's end) *)
open Zutil

let digest (rows : BinNums.coq_Z list list) : string =
  let h1 = ref 0 and h2 = ref 0 in
  Stdlib.List.iter (fun row -> Stdlib.List.iter (fun z ->
    let b = int_of_z z in
    h1 := (!h1 * 1000003 + b + 1) mod 998244353;
    h2 := (!h2 * 911 + b + 7) mod 1000000007) row) rows;
  Printf.sprintf "%d.%d" !h1 !h2

let show_planes (p : Vp8Filter.planes) =
  Printf.sprintf "%s.%s.%s" (digest p.Vp8Filter.pl_y) (digest p.Vp8Filter.pl_u) (digest p.Vp8Filter.pl_v)

let dump = try Sys.getenv "VP8_DUMP" = "1" with Not_found -> false

let dump_planes name (p : Vp8Filter.planes) =
  let d nm rows = Stdlib.List.iteri (fun j row ->
    Printf.eprintf "%s %s %d %s\n" name nm j (hex_of_bytes (Stdlib.List.map int_of_z row))) rows in
  d "Y" p.Vp8Filter.pl_y; d "U" p.Vp8Filter.pl_u; d "V" p.Vp8Filter.pl_v

let show (r : Vp8Spec.decoded Res.coq_Res) : string =
  match r with
  | Res.Ok d ->
    if d.Vp8Spec.dc_past_end then "err"
    else begin
      if dump then (dump_planes "unf" d.Vp8Spec.dc_unfiltered; dump_planes "fil" d.Vp8Spec.dc_filtered);
      Printf.sprintf "ok %d %d u:%s f:%s" (int_of_z d.Vp8Spec.dc_w) (int_of_z d.Vp8Spec.dc_h)
        (show_planes d.Vp8Spec.dc_unfiltered) (show_planes d.Vp8Spec.dc_filtered)
    end
  | _ -> "err"

let () = iter_lines (fun line ->
  match split_ws line with
  | ["dec"; _tag; hex] ->
    let data = Stdlib.List.map z_of_int (bytes_of_hex hex) in
    let i = show (Vp8Spec.decode_go data) in
    let s = show (Vp8Spec.decode data) in
    Printf.printf "I %s S %s\n" i s
  | "xform" :: kind :: predhex :: coeffs ->
    (* prediction (16 samples) + inverse transform of 16 coefficients, clamped *)
    let pred = Stdlib.List.map z_of_int (bytes_of_hex predhex) in
    let c = Stdlib.List.map z_of_string coeffs in
    let out l = hex_of_bytes (Stdlib.List.map int_of_z (Vp8Kernels.add_residual pred l)) in
    let i = match kind with
      | "dc" -> Vp8Kernels.go_transform_dc c
      | "ac3" -> Vp8Kernels.go_transform_ac3 c
      | _ -> Vp8Kernels.go_transform_one c in
    Printf.printf "I %s S %s\n" (out i) (out (Vp8Kernels.idct c))
  | "wht" :: _kind :: coeffs ->
    let c = Stdlib.List.map z_of_string coeffs in
    let out l = String.concat "," (Stdlib.List.map string_of_z l) in
    Printf.printf "I %s S %s\n" (out (Vp8Kernels.go_wht c)) (out (Vp8Kernels.iwht c))
  | ["pred4"; _kind; mode; edgehex] ->
    let e = Stdlib.List.map z_of_int (bytes_of_hex edgehex) in
    let r = Vp8Kernels.pred4 (z_of_string mode) e in
    let o = hex_of_bytes (Stdlib.List.map int_of_z (Stdlib.List.concat r)) in
    Printf.printf "I %s S %s\n" o o
  | ["predblk"; n; mode; ha; hl; abovehex; lefthex; corner] ->
    let n = int_of_string n in
    let r = Vp8Kernels.pred_block (z_of_int n) (z_of_int (if n = 16 then 4 else 3)) (z_of_string mode)
        (ha = "1") (hl = "1") (Stdlib.List.map z_of_int (bytes_of_hex abovehex))
        (Stdlib.List.map z_of_int (bytes_of_hex lefthex)) (z_of_string corner) in
    let o = hex_of_bytes (Stdlib.List.map int_of_z (Stdlib.List.concat r)) in
    Printf.printf "I %s S %s\n" o o
  | ["ups"; _kind; ty; by; tu; tv; bu; bv] ->
    let l h = Stdlib.List.map z_of_int (bytes_of_hex h) in
    let boty = if by = "-" then None else Some (l by) in
    let (t, b) = Vp8Upsample.upsample_pair (l ty) boty (l tu) (l tv) (l bu) (l bv) in
    let o x = hex_of_bytes (Stdlib.List.map int_of_z x) in
    let r = o t ^ "," ^ (match b with Some x -> o x | None -> "-") in
    Printf.printf "I %s S %s\n" r r
  | ["fstr"; simple; sharp; usedelta; ref0; mode0; useseg; abs; s0; s1; s2; s3] ->
    (* filter-strength table for every frame level 0..63: I = model of precomputeFilterStrengths,
       S = the 9.6 / 15.2 formula with the level clamped once (theorem C04_filter_strength_table_eq) *)
    let z = z_of_string in
    let z0 = z_of_int 0 in
    let zero4 = [z0; z0; z0; z0] in
    let bi = Buffer.create 4096 and bs = Buffer.create 4096 in
    for level = 0 to 63 do
      let h = { Vp8Syntax.fh_w = z_of_int 16; fh_h = z_of_int 16; fh_xscale = z0; fh_yscale = z0;
                fh_color = false; fh_clamp = false;
                fh_seg = { Vp8Syntax.sg_enabled = (useseg = "1"); sg_update_map = true; sg_abs = (abs = "1");
                           sg_quant = zero4; sg_lf = [z s0; z s1; z s2; z s3]; sg_probs = [] };
                fh_lf = { Vp8Syntax.lf_is_simple = (simple = "1"); lf_level = z_of_int level; lf_sharp = z sharp;
                          lf_delta_enabled = (usedelta = "1"); lf_ref = [z ref0; z0; z0; z0];
                          lf_mode = [z mode0; z0; z0; z0] };
                fh_log2parts = z0;
                fh_q = { Vp8Syntax.q_base = z0; q_y1dc = z0; q_y2dc = z0; q_y2ac = z0; q_uvdc = z0; q_uvac = z0 };
                fh_probs = []; fh_skip_enabled = false; fh_skip_prob = z0 } in
      for seg = 0 to 3 do
        let sv = int_of_string (Stdlib.List.nth [s0; s1; s2; s3] seg) in
        (* segment-adjusted level outside 0..63 before the deltas: the single- and double-clamp readings
           differ (stream class midclamp); the harness prints "x" there and so do both sides here *)
        let excluded = useseg = "1" && abs <> "1" && (level + sv < 0 || level + sv > 63) in
        Stdlib.List.iter (fun is4 ->
          if excluded then begin Buffer.add_string bi "x "; Buffer.add_string bs "x " end else
          let ((a, b), c) = if level = 0 then ((z0, z0), z0) else Vp8Kernels.go_fstrength h (z_of_int seg) is4 in
          Buffer.add_string bi (Printf.sprintf "%s.%s.%s " (string_of_z a) (string_of_z b) (string_of_z c));
          let p = Vp8Kernels.lf_mb_params false h (z_of_int seg) is4 in
          let (a, b, c) = if level = 0 || int_of_z p.Vp8Kernels.lp_level = 0 then (z0, z0, z0)
            else (Vp8Kernels.subedge_limit p, p.Vp8Kernels.lp_interior, p.Vp8Kernels.lp_hev) in
          Buffer.add_string bs (Printf.sprintf "%s.%s.%s " (string_of_z a) (string_of_z b) (string_of_z c)))
          [false; true]
      done
    done;
    Printf.printf "I %s S %s\n" (String.trim (Buffer.contents bi)) (String.trim (Buffer.contents bs))
  | ["alph"; _tag; w; h; hex] ->
    (* ALPH chunk payload -> alpha plane, by the ALPH model with the VP8L specification decoder *)
    let chunk = Stdlib.List.map z_of_int (bytes_of_hex (if hex = "-" then "" else hex)) in
    let r = match ConformFile.alpha_decode chunk (z_of_string w) (z_of_string h) with
      | Res.Ok a -> "ok " ^ hex_of_bytes (Stdlib.List.map int_of_z a)
      | _ -> "err" in
    Printf.printf "I %s S %s\n" r r
  | ["rgb"; _tag; hex] ->
    (* colour samples of a lossy+alpha picture: specification decoder + fancy upsampler + YUV->RGB *)
    let data = Stdlib.List.map z_of_int (bytes_of_hex hex) in
    let r = match Vp8Rgb.decode_rgb data with
      | Res.Ok ((w, h), rows) -> Printf.sprintf "ok %d %d %s" (int_of_z w) (int_of_z h) (digest rows)
      | _ -> "err" in
    Printf.printf "I %s S %s\n" r r
  | [("coef" | "coefs") as kind; first; ctx; dq0; dq1; datahex; probhex; warmhex] ->
    (* getCoeffsInline: I = the Go-reader model (Vp8InlineCoeffs.go_get_coeffs) with the reader state
       afterwards ("coef"); S = the specification's block reader on the RFC decoder ("coefs") *)
    let z = z_of_string in
    let data = Stdlib.List.map z_of_int (bytes_of_hex datahex) in
    let pb = Stdlib.List.map z_of_int (bytes_of_hex probhex) in
    let rec chunk n l = if l = [] then [] else
        let rec take k l acc = if k = 0 then (Stdlib.List.rev acc, l) else
            (match l with x :: t -> take (k - 1) t (x :: acc) | [] -> (Stdlib.List.rev acc, [])) in
        let (a, b) = take n l [] in a :: chunk n b in
    let tp = Stdlib.List.map (chunk 11) (chunk 33 pb) in
    let warm = Stdlib.List.map z_of_int (bytes_of_hex (if warmhex = "-" then "" else warmhex)) in
    let g0 = Vp8GoReader.gr_load { Vp8GoReader.gr_value = z_of_int 0; gr_range = z_of_int 254; gr_bits = z_of_int (-8);
                                   gr_rest = data; gr_eof = false } in
    let g = Stdlib.List.fold_left (fun g p -> snd (Vp8GoReader.gr_bit p g)) g0 warm in
    let d = Stdlib.List.fold_left (fun d p -> snd (Vp8Bool.read_bool p d)) (Vp8Bool.bd_init data) warm in
    let show c eob = Printf.sprintf "%s %s" (string_of_z eob) (String.concat "," (Stdlib.List.map string_of_z c)) in
    let ((c, eob), g') = Vp8InlineCoeffs.go_get_coeffs tp (z first) (z ctx) (z dq0) (z dq1) g in
    if kind = "coef" then
      Printf.printf "I %s v%s r%s b%s%s\n" (show c eob) (string_of_z g'.Vp8GoReader.gr_value)
        (string_of_z g'.Vp8GoReader.gr_range) (string_of_z g'.Vp8GoReader.gr_bits)
        (if g'.Vp8GoReader.gr_eof then " eof" else "")
    else begin
      let ((c2, eob2), _) = Vp8Syntax.decode_block tp (z first) (z ctx) (z dq0) (z dq1) d in
      Printf.printf "I %s S %s\n" (show c eob) (show c2 eob2)
    end
  | "benc" :: ops ->
    (* boolean encoder: ops b<bit>:<prob>  u<bit>  v<value>:<count>  s<value>:<count>; the model's
       bytes, and (for b/u-only sequences) whether the RFC decoder reads the bits back *)
    let w = ref Vp8BoolEnc.bw_init in
    let pairs = ref [] and simple = ref true in
    Stdlib.List.iter (fun op ->
      let body = String.sub op 1 (String.length op - 1) in
      let two () = match String.split_on_char ':' body with [a; b] -> (a, b) | _ -> failwith "op" in
      match op.[0] with
      | 'b' -> let (a, p) = two () in
        w := Vp8BoolEnc.bw_put (a = "1") (z_of_string p) !w; pairs := (a = "1", z_of_string p) :: !pairs
      | 'u' -> w := Vp8BoolEnc.bw_put_uniform (body = "1") !w; pairs := (body = "1", z_of_int 128) :: !pairs
      | 'v' -> let (v, n) = two () in simple := false;
        w := Vp8BoolEnc.bw_put_bits (z_of_string v) (nat_of_int (int_of_string n)) !w
      | _ -> let (v, n) = two () in simple := false;
        w := Vp8BoolEnc.bw_put_signed (z_of_string v) (nat_of_int (int_of_string n)) !w) ops;
    let out = Vp8BoolEnc.bw_finish !w in
    let rt = if not !simple then "-" else begin
      let ps = Stdlib.List.rev !pairs in
      let bits = Vp8BoolAbs.rfc_bits (Stdlib.List.map snd ps) (Vp8Bool.bd_init out) in
      if bits = Stdlib.List.map fst ps then "rt-ok" else "rt-FAIL" end in
    let r = hex_of_bytes (Stdlib.List.map int_of_z out) ^ " " ^ rt in
    Printf.printf "I %s S %s\n" r r
  | "tokbuf" :: mbw :: lg :: mbs ->
    (* token buffer: per macroblock "-" (skipped: no mark, no tokens), "." (marked, no tokens) or the hex
       of its (bit, prob) pairs.  S = direct emission: the frame model's partition symbols
       (Vp8FrameRT.part_syms) through the boolean encoder.  I = the token-buffer model (pages of 32768,
       marks, fill-back, chunked ranges) when the case is small; for the page-crossing cases the model's
       answer is the one its theorem gives (token_buffer_partition_eq: the same as S for every page size) *)
    let w = int_of_string mbw and lg = int_of_string lg in
    let os = Stdlib.List.map (fun m ->
      if m = "-" then None else if m = "." then Some [] else begin
        let b = bytes_of_hex m in
        let rec pairs = function x :: p :: t -> ((x <> 0), z_of_int p) :: pairs t | _ -> [] in
        Some (pairs b) end) mbs in
    let rec rows l = if l = [] then [] else begin
      let rec take k l acc = if k = 0 then (Stdlib.List.rev acc, l) else
          (match l with x :: t -> take (k - 1) t (x :: acc) | [] -> (Stdlib.List.rev acc, [])) in
      let (a, b) = take w l [] in a :: rows b end in
    let row_syms = Stdlib.List.map (fun r ->
      Stdlib.List.concat (Stdlib.List.map (function Some l -> l | None -> []) r)) (rows os) in
    let nparts = 1 lsl lg in
    let hexz out = hex_of_bytes (Stdlib.List.map int_of_z out) in
    let spec = Stdlib.List.init nparts (fun i ->
      hexz (Vp8BoolEnc.bool_encode (Vp8FrameRT.part_syms (z_of_int nparts) (z_of_int i) (z_of_int 0) row_syms))) in
    let total = Stdlib.List.fold_left (fun a r -> a + Stdlib.List.length r) 0 row_syms in
    let model = if total > 4000 then spec else begin
      let p = nat_of_int 32768 in
      let tb = Vp8TokenBuf.session p os in
      Stdlib.List.init nparts (fun i ->
        let sel = Vp8TokenBuf.part_sel (z_of_int w) (z_of_int nparts) (z_of_int i) in
        let put wst (b, pr) = Vp8BoolEnc.bw_put b pr wst in
        hexz (Vp8BoolEnc.bw_finish
                (Vp8TokenBuf.emit_part put p (nat_of_int (Stdlib.List.length os)) sel tb Vp8BoolEnc.bw_init))) end in
    Printf.printf "I %s S %s\n" (String.concat "," model) (String.concat "," spec)
  | [] -> ()
  | _ -> print_endline "ERR bad-line")
