(* C04 runner.  Input lines:
     dec <tag> <hex of the VP8 chunk payload>
   Output: "I <result of decode_go> S <result of decode>", result =
     "ok w h u:<hy>.<hu>.<hv> f:<hy>.<hu>.<hv>"  (plane digests before / after the loop filter)
     "err"                                        (rejected, or needs bits beyond a partition's end) *)
open Zutil

let digest (rows : BinNums.coq_Z list list) : string =
  let h1 = ref 0 and h2 = ref 0 in
  Stdlib.List.iter (fun row -> Stdlib.List.iter (fun z ->
    let b = int_of_z z in
    h1 := (!h1 * 1000003 + b + 1) mod 998244353;
    h2 := (!h2 * 911 + b + 7) mod 1000000007) row) rows;
  Printf.sprintf "%d.%d" !h1 !h2

let show_planes (p : Vp8Filter.planes) =
  Printf.sprintf "%s.%s.%s" (digest p.Vp8Filter.pl_y) (digest p.Vp8Filter.pl_u) (digest p.Vp8Filter.pl_v)

let dump = try Sys.getenv "VP8_DUMP" = "1" with Not_found -> false

let dump_planes name (p : Vp8Filter.planes) =
  let d nm rows = Stdlib.List.iteri (fun j row ->
    Printf.eprintf "%s %s %d %s\n" name nm j (hex_of_bytes (Stdlib.List.map int_of_z row))) rows in
  d "Y" p.Vp8Filter.pl_y; d "U" p.Vp8Filter.pl_u; d "V" p.Vp8Filter.pl_v

let show (r : Vp8Spec.decoded Res.coq_Res) : string =
  match r with
  | Res.Ok d ->
    if d.Vp8Spec.dc_past_end then "err"
    else begin
      if dump then (dump_planes "unf" d.Vp8Spec.dc_unfiltered; dump_planes "fil" d.Vp8Spec.dc_filtered);
      Printf.sprintf "ok %d %d u:%s f:%s" (int_of_z d.Vp8Spec.dc_w) (int_of_z d.Vp8Spec.dc_h)
        (show_planes d.Vp8Spec.dc_unfiltered) (show_planes d.Vp8Spec.dc_filtered)
    end
  | _ -> "err"

let () = iter_lines (fun line ->
  match split_ws line with
  | ["dec"; _tag; hex] ->
    let data = Stdlib.List.map z_of_int (bytes_of_hex hex) in
    let i = show (Vp8Spec.decode_go data) in
    let s = show (Vp8Spec.decode data) in
    Printf.printf "I %s S %s\n" i s
  | "xform" :: kind :: predhex :: coeffs ->
    (* prediction (16 samples) + inverse transform of 16 coefficients, clamped *)
    let pred = Stdlib.List.map z_of_int (bytes_of_hex predhex) in
    let c = Stdlib.List.map z_of_string coeffs in
    let out l = hex_of_bytes (Stdlib.List.map int_of_z (Vp8Kernels.add_residual pred l)) in
    let i = match kind with
      | "dc" -> Vp8Kernels.go_transform_dc c
      | "ac3" -> Vp8Kernels.go_transform_ac3 c
      | _ -> Vp8Kernels.go_transform_one c in
    Printf.printf "I %s S %s\n" (out i) (out (Vp8Kernels.idct c))
  | "wht" :: _kind :: coeffs ->
    let c = Stdlib.List.map z_of_string coeffs in
    let out l = String.concat "," (Stdlib.List.map string_of_z l) in
    Printf.printf "I %s S %s\n" (out (Vp8Kernels.go_wht c)) (out (Vp8Kernels.iwht c))
  | ["pred4"; _kind; mode; edgehex] ->
    let e = Stdlib.List.map z_of_int (bytes_of_hex edgehex) in
    let r = Vp8Kernels.pred4 (z_of_string mode) e in
    let o = hex_of_bytes (Stdlib.List.map int_of_z (Stdlib.List.concat r)) in
    Printf.printf "I %s S %s\n" o o
  | ["predblk"; n; mode; ha; hl; abovehex; lefthex; corner] ->
    let n = int_of_string n in
    let r = Vp8Kernels.pred_block (z_of_int n) (z_of_int (if n = 16 then 4 else 3)) (z_of_string mode)
        (ha = "1") (hl = "1") (Stdlib.List.map z_of_int (bytes_of_hex abovehex))
        (Stdlib.List.map z_of_int (bytes_of_hex lefthex)) (z_of_string corner) in
    let o = hex_of_bytes (Stdlib.List.map int_of_z (Stdlib.List.concat r)) in
    Printf.printf "I %s S %s\n" o o
  | ["ups"; _kind; ty; by; tu; tv; bu; bv] ->
    let l h = Stdlib.List.map z_of_int (bytes_of_hex h) in
    let boty = if by = "-" then None else Some (l by) in
    let (t, b) = Vp8Upsample.upsample_pair (l ty) boty (l tu) (l tv) (l bu) (l bv) in
    let o x = hex_of_bytes (Stdlib.List.map int_of_z x) in
    let r = o t ^ "," ^ (match b with Some x -> o x | None -> "-") in
    Printf.printf "I %s S %s\n" r r
  | [] -> ()
  | _ -> print_endline "ERR bad-line")
