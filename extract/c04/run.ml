(* C04 runner.  Input lines:
     dec <tag> <hex of the VP8 chunk payload>
   Output: "I <result of decode_go> S <result of decode>", result =
     "ok w h u:<hy>.<hu>.<hv> f:<hy>.<hu>.<hv>"  (plane digests before / after the loop filter)
     "err"                                        (rejected, or needs bits beyond a partition's end) *)
open Zutil

let digest (rows : BinNums.coq_Z list list) : string =
  let h1 = ref 0 and h2 = ref 0 in
  Stdlib.List.iter (fun row -> Stdlib.List.iter (fun z ->
    let b = int_of_z z in
    h1 := (!h1 * 1000003 + b + 1) mod 998244353;
    h2 := (!h2 * 911 + b + 7) mod 1000000007) row) rows;
  Printf.sprintf "%d.%d" !h1 !h2

let show_planes (p : Vp8Filter.planes) =
  Printf.sprintf "%s.%s.%s" (digest p.Vp8Filter.pl_y) (digest p.Vp8Filter.pl_u) (digest p.Vp8Filter.pl_v)

let dump = try Sys.getenv "VP8_DUMP" = "1" with Not_found -> false

let dump_planes name (p : Vp8Filter.planes) =
  let d nm rows = Stdlib.List.iteri (fun j row ->
    Printf.eprintf "%s %s %d %s\n" name nm j (hex_of_bytes (Stdlib.List.map int_of_z row))) rows in
  d "Y" p.Vp8Filter.pl_y; d "U" p.Vp8Filter.pl_u; d "V" p.Vp8Filter.pl_v

let show (r : Vp8Spec.decoded Res.coq_Res) : string =
  match r with
  | Res.Ok d ->
    if d.Vp8Spec.dc_past_end then "err"
    else begin
      if dump then (dump_planes "unf" d.Vp8Spec.dc_unfiltered; dump_planes "fil" d.Vp8Spec.dc_filtered);
      Printf.sprintf "ok %d %d u:%s f:%s" (int_of_z d.Vp8Spec.dc_w) (int_of_z d.Vp8Spec.dc_h)
        (show_planes d.Vp8Spec.dc_unfiltered) (show_planes d.Vp8Spec.dc_filtered)
    end
  | _ -> "err"

let () = iter_lines (fun line ->
  match split_ws line with
  | ["dec"; _tag; hex] ->
    let data = Stdlib.List.map z_of_int (bytes_of_hex hex) in
    let i = show (Vp8Spec.decode_go data) in
    let s = show (Vp8Spec.decode data) in
    Printf.printf "I %s S %s\n" i s
  | [] -> ()
  | _ -> print_endline "ERR bad-line")
