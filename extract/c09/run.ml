(* C09 runner.  Input, one case per line:
     anim W H n  { fx fy fw fh blendnone disposebg hasalpha pixhex }*n
     blend sr sg sb sa dr dg db da
   Output, one line per case:
     anim: "I <hex canvas 1>,<hex canvas 2>,... S <same for the spec>"
     blend: "I r g b a S r g b a"                                            *)
open Zutil

let px_of_bytes l = match l with
  | [r; g; b; a] -> { Blend.pr = z_of_int r; pg = z_of_int g; pb = z_of_int b; pa = z_of_int a }
  | _ -> failwith "px"

let rec chunks4 l = match l with
  | a :: b :: c :: d :: tl -> [a; b; c; d] :: chunks4 tl
  | [] -> []
  | _ -> failwith "chunks4"

let hex_of_canvas (c : Blend.px list) : string =
  hex_of_bytes (Stdlib.List.concat_map (fun p ->
    [int_of_z p.Blend.pr; int_of_z p.Blend.pg; int_of_z p.Blend.pb; int_of_z p.Blend.pa]) c)

let bool_of s = (s = "1")

let rec frames r = match r with
      | fx :: fy :: fw :: fh :: bn :: db :: ha :: pix :: tl ->
        let pix = if pix = "-" then "" else pix in
        { Canvas.fx = z_of_string fx; fy = z_of_string fy; fw = z_of_string fw; fh = z_of_string fh;
          fpix = Stdlib.List.map px_of_bytes (chunks4 (bytes_of_hex pix));
          fblend_none = bool_of bn; fdispose_bg = bool_of db; fhas_alpha = bool_of ha } :: frames tl
      | [] -> []
      | _ -> failwith "frame fields"

let show_opt o = match o with None -> "-" | Some c -> hex_of_canvas c

let () = iter_lines (fun line ->
  match split_ws line with
  | "ops" :: ops :: w :: h :: _n :: rest ->
    let fs = frames rest in
    let w = z_of_string w and h = z_of_string h in
    let ol = Stdlib.List.init (String.length ops) (fun i ->
      if ops.[i] = 'R' then AnimDecOps.OReset else AnimDecOps.ONext) in
    let i = AnimDecOps.prun w h fs (AnimDecOps.pinit w h) ol in
    let s = AnimDecOps.srun (Canvas.spec_run w h fs) Datatypes.O ol in
    Printf.printf "I %s S %s\n"
      (String.concat "," (Stdlib.List.map show_opt i))
      (String.concat "," (Stdlib.List.map show_opt s))
  | "anim" :: w :: h :: _n :: rest ->
    let rec frames r = match r with
      | fx :: fy :: fw :: fh :: bn :: db :: ha :: pix :: tl ->
        let pix = if pix = "-" then "" else pix in
        { Canvas.fx = z_of_string fx; fy = z_of_string fy; fw = z_of_string fw; fh = z_of_string fh;
          fpix = Stdlib.List.map px_of_bytes (chunks4 (bytes_of_hex pix));
          fblend_none = bool_of bn; fdispose_bg = bool_of db; fhas_alpha = bool_of ha } :: frames tl
      | [] -> []
      | _ -> failwith "frame fields" in
    let fs = frames rest in
    let w = z_of_string w and h = z_of_string h in
    let i = AnimDecLoops.impl_run_loops w h fs and s = Canvas.spec_run w h fs in
    Printf.printf "I %s S %s\n"
      (String.concat "," (Stdlib.List.map hex_of_canvas i))
      (String.concat "," (Stdlib.List.map hex_of_canvas s))
  | ["blend"; sr; sg; sb; sa; dr; dg; db; da] ->
    let p r g b a = { Blend.pr = z_of_string r; pg = z_of_string g; pb = z_of_string b; pa = z_of_string a } in
    let show q = Printf.sprintf "%s %s %s %s" (string_of_z q.Blend.pr) (string_of_z q.Blend.pg)
        (string_of_z q.Blend.pb) (string_of_z q.Blend.pa) in
    Printf.printf "I %s S %s\n" (show (Blend.blend_impl (p sr sg sb sa) (p dr dg db da)))
      (show (Blend.blend_spec (p sr sg sb sa) (p dr dg db da)))
  | [] -> ()
  | _ -> print_endline "ERR bad-line")
