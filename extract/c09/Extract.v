(** Extraction of the C09 models (ExtrOcamlBasic only). *)
From Coq Require Import ZArith List.
From Coq Require Import ExtrOcamlBasic.
From Webp Require Anim.Blend Anim.Canvas Anim.AnimDec Anim.AnimDecOps Anim.AnimDecLoops.

Separate Extraction
  BinInt.Z.add BinInt.Z.mul BinInt.Z.sub BinInt.Z.opp BinInt.Z.div BinInt.Z.modulo
  BinInt.Z.eqb BinInt.Z.ltb BinInt.Z.leb BinInt.Z.of_nat BinInt.Z.to_nat BinInt.Z.of_N BinInt.Z.to_N
  BinNat.N.add BinNat.N.mul BinNat.N.of_nat BinNat.N.to_nat
  Anim.AnimDecOps.prun Anim.AnimDecOps.srun Anim.AnimDecOps.pinit Anim.AnimDecLoops.impl_run_loops Anim.AnimDec.impl_run Anim.Canvas.spec_run Anim.Blend.blend_impl Anim.Blend.blend_spec.
