(* C08 / C18 runner (AnimEncoder model).  Input, one case per line:
     enc <px|al|st> W H loop kmin kmax lossless mixed quality meta simple n
         { iw ih dur obg okey oa ob oc pixhex }*n
     qmd q | san kmin kmax | fcr W H hexprev hexcurr | snap x0 y0 x1 y1
     sim r g b a r g b a md | lpx fix r g b a r g b a
   Output, one line per case: "I <result>"                                            *)
open Zutil
module M = AnimEncModel

let px_of_bytes l = match l with
  | [r; g; b; a] -> { Blend.pr = z_of_int r; pg = z_of_int g; pb = z_of_int b; pa = z_of_int a }
  | _ -> failwith "px"

let rec chunks4 l = match l with
  | a :: b :: c :: d :: tl -> [a; b; c; d] :: chunks4 tl
  | [] -> []
  | _ -> failwith "chunks4"

let pixels hex = Stdlib.List.map px_of_bytes (chunks4 (bytes_of_hex (if hex = "-" then "" else hex)))

let b s = (s = "1")
let zs = string_of_z
let b2s x = if x then "1" else "0"

let canvas_px (c : Blend.px list) : string =
  hex_of_bytes (Stdlib.List.concat_map (fun p ->
    if int_of_z p.Blend.pa = 0 then [0; 0; 0; 0] else
    [int_of_z p.Blend.pr; int_of_z p.Blend.pg; int_of_z p.Blend.pb; int_of_z p.Blend.pa]) c)

let canvas_al (c : Blend.px list) : string =
  hex_of_bytes (Stdlib.List.map (fun p -> int_of_z p.Blend.pa) c)

let id (i : M.img) = i

let () = iter_lines (fun line ->
  match split_ws line with
  | "enc" :: mode :: w :: h :: loop :: kmin :: kmax :: ll :: mixed :: q :: meta :: simple :: _n :: rest ->
    let fixes = M.repaired in  (* the model of the code under test; not selectable *)
    let rec frames r = match r with
      | iw :: ih :: dur :: obg :: okey :: oa :: ob :: oc :: pix :: tl ->
        let (fs, os) = frames tl in
        (({ M.iw = z_of_string iw; ih = z_of_string ih; ipix = pixels pix }, z_of_string dur) :: fs,
         { M.oc_bg = b obg; oc_key = b okey; oc_alt_a = b oa; oc_alt_b = b ob; oc_alt_c = b oc } :: os)
      | [] -> ([], [])
      | _ -> failwith "frame fields" in
    let (fs, os) = frames rest in
    let oarr = Array.of_list os in
    let dflt = { M.oc_bg = false; oc_key = false; oc_alt_a = false; oc_alt_b = false; oc_alt_c = false } in
    let oracle n = let i = int_of_nat n in if i < Array.length oarr then oarr.(i) else dflt in
    let opts = { M.eo_loop = z_of_string loop; eo_kmin = z_of_string kmin; eo_kmax = z_of_string kmax;
                 eo_lossless = b ll; eo_mixed = b mixed; eo_quality = z_of_string q } in
    (match M.new_encoder (z_of_string w) (z_of_string h) opts with
     | None -> print_endline "I nil"
     | Some st0 ->
       let st = M.run_frames fixes oracle st0 fs in
       (match M.close (b meta) (b simple) st with
        | None -> print_endline "I noframes"
        | Some out ->
          let pb = M.playback id id fixes out in
          let show = if mode = "al" then canvas_al else canvas_px in
          let recs = Stdlib.List.map (fun r ->
            Printf.sprintf "%s,%s,%s,%s,%s,%s,%s,%s"
              (zs r.M.m_x) (zs r.M.m_y) (zs r.M.m_img.M.iw) (zs r.M.m_img.M.ih)
              (b2s r.M.m_blend_none) (b2s r.M.m_dispose_bg) (zs r.M.m_dur) (b2s r.M.m_lossy)) out.M.out_recs in
          Printf.printf "I %s %s %s %s %d %s %s\n"
            (if out.M.out_still then "still" else "anim") (zs out.M.out_W) (zs out.M.out_H) (zs out.M.out_loop)
            (Stdlib.List.length recs) (String.concat ";" recs)
            (if mode = "st" then "" else String.concat "," (Stdlib.List.map (fun (c, _) -> show c) pb))))
  | "ence" :: mode :: w :: h :: loop :: kmin :: kmax :: ll :: mixed :: q :: meta :: simple :: _n :: rest ->
    (* AddFrame calls may fail: per frame 4 more flags (fa fb fc fk); the muxer limit is max_frames *)
    let rec frames r = match r with
      | iw :: ih :: dur :: obg :: okey :: oa :: ob :: oc :: fa :: fb :: fc :: fk :: pix :: tl ->
        let (fs, os, es) = frames tl in
        (({ M.iw = z_of_string iw; ih = z_of_string ih; ipix = pixels pix }, z_of_string dur) :: fs,
         { M.oc_bg = b obg; oc_key = b okey; oc_alt_a = b oa; oc_alt_b = b ob; oc_alt_c = b oc } :: os,
         { M.ef_a = b fa; ef_b = b fb; ef_c = b fc; ef_k = b fk } :: es)
      | [] -> ([], [], [])
      | _ -> failwith "frame fields" in
    let (fs, os, es) = frames rest in
    let oarr = Array.of_list os and earr = Array.of_list es in
    let dflt = { M.oc_bg = false; oc_key = false; oc_alt_a = false; oc_alt_b = false; oc_alt_c = false } in
    let oracle n = let i = int_of_nat n in if i < Array.length oarr then oarr.(i) else dflt in
    let fails n = let i = int_of_nat n in if i < Array.length earr then earr.(i) else M.no_fail in
    let opts = { M.eo_loop = z_of_string loop; eo_kmin = z_of_string kmin; eo_kmax = z_of_string kmax;
                 eo_lossless = b ll; eo_mixed = b mixed; eo_quality = z_of_string q } in
    (match M.new_encoder (z_of_string w) (z_of_string h) opts with
     | None -> print_endline "I nil"
     | Some st0 ->
       let st = ref st0 and rej = ref [] in
       Stdlib.List.iteri (fun i f ->
         let (st1, ok) = M.add_frame_e M.repaired true M.max_frames oracle fails !st f in
         st := st1; if not ok then rej := string_of_int i :: !rej) fs;
       let rejs = String.concat "," (Stdlib.List.rev !rej) in
       (match M.close (b meta) (b simple) !st with
        | None -> Printf.printf "I rej:%s noframes\n" rejs
        | Some out ->
          let pb = M.playback id id M.repaired out in
          let show = if mode = "al" then canvas_al else canvas_px in
          let recs = Stdlib.List.map (fun r ->
            Printf.sprintf "%s,%s,%s,%s,%s,%s,%s,%s"
              (zs r.M.m_x) (zs r.M.m_y) (zs r.M.m_img.M.iw) (zs r.M.m_img.M.ih)
              (b2s r.M.m_blend_none) (b2s r.M.m_dispose_bg) (zs r.M.m_dur) (b2s r.M.m_lossy)) out.M.out_recs in
          Printf.printf "I rej:%s %s %s %s %s %d %s %s\n" rejs
            (if out.M.out_still then "still" else "anim") (zs out.M.out_W) (zs out.M.out_H) (zs out.M.out_loop)
            (Stdlib.List.length recs) (String.concat ";" recs)
            (if mode = "st" then "" else String.concat "," (Stdlib.List.map (fun (c, _) -> show c) pb))))
  | "encr" :: mode :: w :: h :: loop :: kmin :: kmax :: ll :: mixed :: q :: meta :: simple :: _n :: rest ->
    (* AddFrame (A ...) mixed with pre-encoded frames (R x y iw ih dur bn db pix) *)
    let rec ops r = match r with
      | "A" :: iw :: ih :: dur :: obg :: okey :: oa :: ob :: oc :: fa :: fb :: fc :: fk :: pix :: tl ->
        let (os, orc, es) = ops tl in
        (M.OAdd ({ M.iw = z_of_string iw; ih = z_of_string ih; ipix = pixels pix }, z_of_string dur) :: os,
         { M.oc_bg = b obg; oc_key = b okey; oc_alt_a = b oa; oc_alt_b = b ob; oc_alt_c = b oc } :: orc,
         { M.ef_a = b fa; ef_b = b fb; ef_c = b fc; ef_k = b fk } :: es)
      | "R" :: x :: y :: iw :: ih :: dur :: bn :: db :: pix :: tl ->
        let (os, orc, es) = ops tl in
        (M.ORaw { M.m_x = z_of_string x; m_y = z_of_string y;
                  m_img = { M.iw = z_of_string iw; ih = z_of_string ih; ipix = pixels pix };
                  m_lossy = false; m_blend_none = b bn; m_dispose_bg = b db; m_dur = z_of_string dur } :: os,
         { M.oc_bg = false; oc_key = false; oc_alt_a = false; oc_alt_b = false; oc_alt_c = false } :: orc,
         M.no_fail :: es)
      | [] -> ([], [], [])
      | _ -> failwith "op fields" in
    let (os, orc, es) = ops rest in
    let oarr = Array.of_list orc and earr = Array.of_list es in
    let dflt = { M.oc_bg = false; oc_key = false; oc_alt_a = false; oc_alt_b = false; oc_alt_c = false } in
    let oracle n = let i = int_of_nat n in if i < Array.length oarr then oarr.(i) else dflt in
    let fails n = let i = int_of_nat n in if i < Array.length earr then earr.(i) else M.no_fail in
    let opts = { M.eo_loop = z_of_string loop; eo_kmin = z_of_string kmin; eo_kmax = z_of_string kmax;
                 eo_lossless = b ll; eo_mixed = b mixed; eo_quality = z_of_string q } in
    (match M.new_encoder (z_of_string w) (z_of_string h) opts with
     | None -> print_endline "I nil"
     | Some st0 ->
       let st = ref st0 and rej = ref [] in
       Stdlib.List.iteri (fun i o ->
         let (st1, ok) = M.step_op M.repaired M.max_frames oracle fails !st o in
         st := st1; if not ok then rej := string_of_int i :: !rej) os;
       let rejs = String.concat "," (Stdlib.List.rev !rej) in
       (match M.close (b meta) (b simple) !st with
        | None -> Printf.printf "I rej:%s noframes\n" rejs
        | Some out ->
          let pb = M.playback id id M.repaired out in
          let show = if mode = "al" then canvas_al else canvas_px in
          let recs = Stdlib.List.map (fun r ->
            Printf.sprintf "%s,%s,%s,%s,%s,%s,%s,%s"
              (zs r.M.m_x) (zs r.M.m_y) (zs r.M.m_img.M.iw) (zs r.M.m_img.M.ih)
              (b2s r.M.m_blend_none) (b2s r.M.m_dispose_bg) (zs r.M.m_dur) (b2s r.M.m_lossy)) out.M.out_recs in
          Printf.printf "I rej:%s %s %s %s %s %d %s %s\n" rejs
            (if out.M.out_still then "still" else "anim") (zs out.M.out_W) (zs out.M.out_H) (zs out.M.out_loop)
            (Stdlib.List.length recs) (String.concat ";" recs)
            (if mode = "st" then "" else String.concat "," (Stdlib.List.map (fun (c, _) -> show c) pb))))
  | ["qmd"; q] -> Printf.printf "I %s\n" (zs (M.quality_to_max_diff (z_of_string q)))
  | ["san"; kmin; kmax] ->
    let (a, c) = M.sanitize_k (z_of_string kmin) (z_of_string kmax) in
    Printf.printf "I %s %s\n" (zs a) (zs c)
  | ["fcr"; w; h; p; c] ->
    let r = AnimEncLoops.find_changed_rect_loops (z_of_string w) (z_of_string h) (pixels p) (pixels c) in
    Printf.printf "I %s %s %s %s\n" (zs r.Canvas.rx0) (zs r.Canvas.ry0) (zs r.Canvas.rx1) (zs r.Canvas.ry1)
  | ["snap"; x0; y0; x1; y1] ->
    let r = M.snap_to_even { Canvas.rx0 = z_of_string x0; ry0 = z_of_string y0; rx1 = z_of_string x1; ry1 = z_of_string y1 } in
    Printf.printf "I %s %s %s %s\n" (zs r.Canvas.rx0) (zs r.Canvas.ry0) (zs r.Canvas.rx1) (zs r.Canvas.ry1)
  | ["sim"; r; g; bb; a; r2; g2; b2; a2; md] ->
    let p r g b a = { Blend.pr = z_of_string r; pg = z_of_string g; pb = z_of_string b; pa = z_of_string a } in
    Printf.printf "I %s\n" (b2s (M.pixels_similar (p r g bb a) (p r2 g2 b2 a2) (z_of_string md)))
  | [] -> ()
  | _ -> print_endline "ERR bad-line")
