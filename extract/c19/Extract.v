(** Extraction of the C19 models (ExtrOcamlBasic only). *)
From Coq Require Import ZArith List.
From Coq Require Import ExtrOcamlBasic.
From Webp Require Place.PlaceModel.

Separate Extraction
  BinInt.Z.add BinInt.Z.mul BinInt.Z.sub BinInt.Z.opp BinInt.Z.div BinInt.Z.modulo
  BinInt.Z.eqb BinInt.Z.ltb BinInt.Z.leb BinInt.Z.of_nat BinInt.Z.to_nat BinInt.Z.of_N BinInt.Z.to_N
  PlaceModel.picture PlaceModel.fast_argb PlaceModel.fast_root_has_alpha PlaceModel.fast_lossy_has_alpha
  PlaceModel.fast_extract_alpha PlaceModel.fast_cleanup_copy PlaceModel.fast_sharp_rgb
  PlaceModel.fast_import_rows PlaceModel.fast_import_rows_serial PlaceModel.rgb_to_y PlaceModel.gen_argb.
