(* C19 runner.  Input, one case per line:
     <kernel> <stride> <rminx> <rminy> <rmaxx> <rmaxy> <pixhex|->
   (bounds = Rect, as for every *image.NRGBA).  kernels: rootalpha lossyalpha alpha cleanup yplane argb argbgen (generic At loop of the lossless import)
   Output: "I <result>" where result is hex / 0|1 / PANIC.                      *)
open Zutil
open PlaceModel

let hex2 z = Printf.sprintf "%02x" ((int_of_z z) land 255)
let cat f l = String.concat "" (Stdlib.List.map f l)
let res f r = match r with Res.Ok v -> f v | Res.Err _ -> "ERR" | Res.Panic -> "PANIC"

let () = iter_lines (fun line ->
  match split_ws line with
  | [k; stride; a; b; c; d; pix] ->
    let pix = if pix = "-" then [] else Stdlib.List.map z_of_int (bytes_of_hex pix) in
    let z = z_of_string in
    let pl = { pPix = pix; pStride = z stride; rMinX = z a; rMinY = z b; rMaxX = z c; rMaxY = z d;
               bMinX = z a; bMinY = z b; bMaxX = z c; bMaxY = z d } in
    let out = match k with
      | "rootalpha" -> res (fun v -> if v then "1" else "0") (fast_root_has_alpha pl)
      | "lossyalpha" -> res (fun v -> if v then "1" else "0") (fast_lossy_has_alpha pl)
      | "alpha" -> res (cat (cat hex2)) (fast_extract_alpha pl)
      | "cleanup" -> res (cat (cat (fun (((r, g), b), a) -> hex2 r ^ hex2 g ^ hex2 b ^ hex2 a))) (fast_cleanup_copy pl)
      | "yplane" -> res (cat (cat hex2)) (fast_import_rows rgb_to_y Z0 pl)
      | "argb" -> res (cat (cat (fun w -> Printf.sprintf "%08x" (int_of_z w)))) (fast_argb pl)
      | "argbgen" -> res (fun p -> cat (cat (fun w -> Printf.sprintf "%08x" (int_of_z w))) (gen_argb p)) (picture pl)
      | _ -> "ERR bad-kernel" in
    print_endline ("I " ^ out)
  | [] -> ()
  | _ -> print_endline "ERR bad-line")
