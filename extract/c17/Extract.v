(** Extraction of the RIFF container models used by C15/C16/C17 (ExtrOcamlBasic only).
    extract/c15 and extract/c16 use the same file without the Go bool reader
    (Vp8.Vp8GoReader / Riff.PrefixBitio), which only C17 runs (op B). *)
From Coq Require Import ZArith List.
From Coq Require Import ExtrOcamlBasic.
From Webp Require Riff.ParserModel Riff.WriterModel Riff.FeaturesModel Riff.ParserSpec Vp8.Vp8GoReader Riff.PrefixBitio.

Separate Extraction
  BinInt.Z.add BinInt.Z.mul BinInt.Z.sub BinInt.Z.opp BinInt.Z.div BinInt.Z.modulo
  BinInt.Z.eqb BinInt.Z.ltb BinInt.Z.leb BinInt.Z.of_nat BinInt.Z.to_nat BinInt.Z.of_N BinInt.Z.to_N
  ParserModel.parse_ex ParserModel.parse
  WriterModel.write_riff WriterModel.write_lossless_stream WriterModel.encode_lossless_container
  WriterModel.anim_close
  FeaturesModel.decode_bytes FeaturesModel.decode_config FeaturesModel.get_features FeaturesModel.sniff
  ParserSpec.spec_get_chunk ParserSpec.riff_wf ParserSpec.riff_chunks
  Vp8GoReader.gr_bit PrefixBitio.gr_new.
