(* Runner for the RIFF container models (C15/C16/C17; the same file is used by
   extract/c15, extract/c16, extract/c17).  One result line per input line.

     F <hex>               set the current file; result = container parse of it
     P <n>                 container parse of the first n bytes of the current file
     G <n> <ck> <cw> <ch> <ak>
                           Decode glue on the first n bytes of the current file with a codec
                           oracle: ck=1 the image bitstream decodes to cw x ch, ck=0 it fails;
                           ak=1 the alpha plane decodes, 0 it fails
     W <fourcc> <w> <h> <bs> <alpha> <icc> <exif> <xmp> [<file>]   (hex, "-" = empty; with
                           <file> = the bytes the implementation wrote, an S part judges those)
                           writeRIFF; result = bytes digest, well-formedness, chunks by id,
                           and the container parse of the written file
     WL <w> <h> <bs> <icc> <exif> <xmp>
                           Encode's lossless container choice (streaming / buffered)
     A <frameCount> <hasPrev> <hasMeta> <animhex> <simplehex|none>
                           AnimEncoder.Close output selection                            *)
open Zutil

let fnv (l : int list) : string =
  let h = ref 0xcbf29ce484222325L in
  Stdlib.List.iter (fun b ->
    h := Int64.logxor !h (Int64.of_int (b land 255));
    h := Int64.mul !h 0x100000001b3L) l;
  Printf.sprintf "%d:%016Lx" (Stdlib.List.length l) !h

let zl (l : int list) = Stdlib.List.map z_of_int l
let il (l : BinNums.coq_Z list) = Stdlib.List.map int_of_z l
let unhex s = if s = "-" then [] else bytes_of_hex s
let b2s b = if b then "1" else "0"
let zs = string_of_z

(* The models carry a flag per repaired defect (false = the pinned code the _refuted
   theorems are about).  The runner always runs the model of the current, repaired code. *)
let fix_noimage = true
let fix_alpha = true
let fix_meta = true
let cur : int list ref = ref []

let rec take n l = if n <= 0 then [] else match l with [] -> [] | x :: tl -> x :: take (n - 1) tl

let show_parsed (p : ParserModel.coq_Parsed) : string =
  let f = p.ParserModel.pFeat in
  let b = Buffer.create 256 in
  Buffer.add_string b (Printf.sprintf "OK %s %s %s %s %s %s%s%s%s%s %s %s F%d"
    (zs f.ParserModel.fFormat) (zs f.ParserModel.fWidth) (zs f.ParserModel.fHeight)
    (zs f.ParserModel.fCanvasW) (zs f.ParserModel.fCanvasH)
    (b2s f.ParserModel.fHasAlpha) (b2s f.ParserModel.fHasAnim) (b2s f.ParserModel.fHasICCP)
    (b2s f.ParserModel.fHasEXIF) (b2s f.ParserModel.fHasXMP)
    (zs f.ParserModel.fLoopCount) (zs f.ParserModel.fBGColor)
    (Stdlib.List.length p.ParserModel.pFrames));
  Stdlib.List.iter (fun (fr : ParserModel.coq_FrameInfo) ->
    Buffer.add_string b (Printf.sprintf " [%s,%s,%s,%s,%s,%s%s%s%s,%s,%s]"
      (zs fr.ParserModel.frX) (zs fr.ParserModel.frY) (zs fr.ParserModel.frW) (zs fr.ParserModel.frH)
      (zs fr.ParserModel.frDur) (b2s fr.ParserModel.frDisposeBG) (b2s fr.ParserModel.frBlendNone)
      (b2s fr.ParserModel.frHasAlpha) (b2s fr.ParserModel.frLossless)
      (fnv (il fr.ParserModel.frPayload))
      (match fr.ParserModel.frAlpha with None -> "nil" | Some a -> fnv (il a))))
    p.ParserModel.pFrames;
  Buffer.add_string b (Printf.sprintf " C%d" (Stdlib.List.length p.ParserModel.pChunks));
  Stdlib.List.iter (fun (c : ParserModel.coq_Chunk) ->
    Buffer.add_string b (Printf.sprintf " %s:%s" (zs c.ParserModel.ckId) (fnv (il c.ParserModel.ckData))))
    p.ParserModel.pChunks;
  Buffer.contents b

let show_res show r = match r with
  | Res.Ok a -> show a
  | Res.Err _ -> "E" (* one token for "rejected": no property constrains which error is returned *)
  | Res.Panic -> "PANIC"

let parse_line (data : int list) : string =
  show_res show_parsed (ParserModel.parse fix_noimage (zl data))

let cm_s m = match m with FeaturesModel.CM_NRGBA -> "NRGBA" | FeaturesModel.CM_YCbCr -> "YCbCr"

(* in glue lines errors are not classified (the Go side sees wrapped errors): plain "E" *)
let show_res_e show r = match r with
  | Res.Ok a -> show a
  | Res.Err _ -> "E"
  | Res.Panic -> "PANIC"

let glue_line (data : int list) ck cw ch ak : string =
  let show_res = show_res_e in
  let d = zl data in
  let codec _ = if ck then Res.Ok ((z_of_int cw, z_of_int ch), ()) else Res.Err (nat_of_int 40) in
  let adec _ _ _ = if ak then Res.Ok () else Res.Err (nat_of_int 41) in
  let cfg = FeaturesModel.decode_config fix_alpha fix_noimage d in
  let gf = FeaturesModel.get_features fix_noimage d in
  let dec = FeaturesModel.decode_bytes codec codec adec fix_noimage d in
  Printf.sprintf "cfg=%s feat=%s dec=%s sniff=%s"
    (show_res (fun (c : FeaturesModel.coq_Config) ->
       Printf.sprintf "%s,%s,%s" (cm_s c.FeaturesModel.cModel) (zs c.FeaturesModel.cW) (zs c.FeaturesModel.cH)) cfg)
    (show_res (fun (g : FeaturesModel.coq_GFeatures) ->
       Printf.sprintf "%s,%s,%s,%s,%s,%s,%s" (zs g.FeaturesModel.gW) (zs g.FeaturesModel.gH)
         (b2s g.FeaturesModel.gHasAlpha) (b2s g.FeaturesModel.gHasAnim) (zs g.FeaturesModel.gFormat)
         (zs g.FeaturesModel.gLoop) (zs g.FeaturesModel.gFrames)) gf)
    (show_res (fun (i : unit FeaturesModel.coq_Img) ->
       Printf.sprintf "%s,%s,%s" (cm_s i.FeaturesModel.iModel) (zs i.FeaturesModel.iW) (zs i.FeaturesModel.iH)) dec)
    (b2s (FeaturesModel.sniff d))

let chunk_s file id =
  match ParserSpec.spec_get_chunk file id with
  | None -> "-"
  | Some d -> fnv (il d)

let file_line (out : BinNums.coq_Z list) : string =
  Printf.sprintf "out=%s wf=%s icc=%s exif=%s xmp=%s parse=%s"
    (fnv (il out)) (b2s (ParserSpec.riff_wf out))
    (chunk_s out ParserModel.coq_FourCCICCP) (chunk_s out ParserModel.coq_FourCCEXIF)
    (chunk_s out ParserModel.coq_FourCCXMP)
    (show_res show_parsed (ParserModel.parse fix_noimage out))

(* I: the writer model's bytes, judged by the specification walker and the parser model;
   S: the same judgement on the bytes the implementation wrote (when given). *)
let written_line (r : BinNums.coq_Z list Res.coq_Res) (gofile : string option) : string =
  let i = match r with
    | Res.Ok out -> file_line out
    | Res.Err _ -> "E" (* one token for "rejected": no property constrains which error is returned *)
    | Res.Panic -> "PANIC" in
  match gofile with
  | None -> i
  | Some hex -> i ^ " S " ^ file_line (zl (unhex hex))

let () = iter_lines (fun line ->
  let out =
    try
      match split_ws line with
      | ["F"; hex] -> cur := unhex hex; parse_line !cur
      | ["P"; n] -> parse_line (take (int_of_string n) !cur)
      | ["G"; n; ck; cw; ch; ak] ->
        glue_line (take (int_of_string n) !cur) (ck = "1") (int_of_string cw) (int_of_string ch) (ak = "1")
      | "W" :: fcc :: w :: h :: bs :: alpha :: icc :: exif :: xmp :: go ->
        written_line (WriterModel.write_riff (z_of_string fcc) (zl (unhex bs)) (zl (unhex alpha))
                        (z_of_string w) (z_of_string h) (zl (unhex icc)) (zl (unhex exif)) (zl (unhex xmp)))
          (match go with [g] -> Some g | _ -> None)
      | "WL" :: w :: h :: bs :: icc :: exif :: xmp :: go ->
        written_line (WriterModel.encode_lossless_container (zl (unhex bs)) (z_of_string w) (z_of_string h)
                        (zl (unhex icc)) (zl (unhex exif)) (zl (unhex xmp)))
          (match go with [g] -> Some g | _ -> None)
      | ["B"; dhex; phex] ->
        (* internal/bitio.BoolReader: NewBoolReader(data), then GetBit(p) per p; state after each read,
           "E" from the read on that sets the end-of-input flag *)
        let show (g : Vp8GoReader.greader) =
          if g.Vp8GoReader.gr_eof then "E"
          else Printf.sprintf "%s,%s,%s" (zs g.Vp8GoReader.gr_value) (zs g.Vp8GoReader.gr_range) (zs g.Vp8GoReader.gr_bits) in
        let g0 = PrefixBitio.gr_new (zl (unhex dhex)) in
        let buf = Buffer.create 256 in
        Buffer.add_string buf (show g0);
        let _ = Stdlib.List.fold_left (fun g p ->
          let (b, g1) = Vp8GoReader.gr_bit (z_of_int p) g in
          Buffer.add_char buf ' ';
          (if g1.Vp8GoReader.gr_eof then Buffer.add_string buf "E"
           else (Buffer.add_string buf (if b then "1:" else "0:"); Buffer.add_string buf (show g1)));
          g1) g0 (unhex phex) in
        Buffer.contents buf
      | ["A"; fc; hp; hm; anim; simple] ->
        let s = if simple = "none" then None else Some (zl (unhex simple)) in
        fnv (il (WriterModel.anim_close fix_meta (z_of_string fc) (hp = "1") (hm = "1") (zl (unhex anim)) s))
      | [] -> ""
      | _ -> "ERR bad-line"
    with e -> "ERR " ^ Printexc.to_string e in
  print_string "I "; print_endline out)
