(** Extraction of the C10 models (ExtrOcamlBasic only). *)
From Coq Require Import ZArith List.
From Coq Require Import ExtrOcamlBasic.
From Webp Require Conc.ConcRowSync Conc.ConcPartition.

Separate Extraction
  BinInt.Z.add BinInt.Z.mul BinInt.Z.sub BinInt.Z.opp BinInt.Z.div BinInt.Z.modulo
  BinInt.Z.eqb BinInt.Z.ltb BinInt.Z.leb BinInt.Z.of_nat BinInt.Z.to_nat BinInt.Z.of_N BinInt.Z.to_N
  BinNat.N.add BinNat.N.mul BinNat.N.of_nat BinNat.N.to_nat
  Conc.ConcRowSync.check_trace Conc.ConcRowSync.run Conc.ConcRowSync.final Conc.ConcRowSync.init
  Conc.ConcPartition.workers_encode_parallel.
