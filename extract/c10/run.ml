(* C10 runner.  Input, one case per line:
     trace mbW mbH n ev ev ...      (n = GOMAXPROCS override) ev = C,i,y | B,i,y,x | W,i,yw,nd | S,i,y,x | X,i,y,x
                                         | G,i,y,d | Q,yw,nd | R,y
   Output: "I ok" when the trace is a run of the L1 row-pipeline system ending in a
   final state, otherwise "I bad".  Diagnostics (index of the first offending event)
   go to stderr. *)
open Zutil

let nat s = nat_of_int (int_of_string s)

let parse_event (t : string) : ConcRowSync.event =
  match String.split_on_char ',' t with
  | ["C"; i; y] -> ConcRowSync.EClaim (nat i, nat y)
  | ["B"; i; y; x] -> ConcRowSync.EBegin (nat i, nat y, nat x)
  | ["W"; i; yw; nd] -> ConcRowSync.EWait (nat i, nat yw, nat nd)
  | ["S"; i; y; x] -> ConcRowSync.EStart (nat i, nat y, nat x)
  | ["X"; i; y; x] -> ConcRowSync.EExport (nat i, nat y, nat x)
  | ["G"; i; y; d] -> ConcRowSync.ESignal (nat i, nat y, nat d)
  | ["Q"; yw; nd] -> ConcRowSync.ERecWait (nat yw, nat nd)
  | ["R"; y] -> ConcRowSync.ERecord (nat y)
  | _ -> failwith ("event " ^ t)

let lineno = ref 0

let () = iter_lines (fun line ->
  incr lineno;
  match split_ws line with
  | "trace" :: w :: h :: n :: evs ->
    let evs = Stdlib.List.map parse_event evs in
    (* n is the worker-count override; the number of row workers is the model's clamp *)
    let nw = int_of_z (ConcPartition.workers_encode_parallel (z_of_string n) (z_of_string h)) in
    (match ConcRowSync.check_trace () (fun _ _ _ _ _ _ -> ()) (nat w) (nat h) (nat_of_int nw) evs with
     | None -> print_endline "I ok"
     | Some k -> Printf.eprintf "line %d: event %d rejected\n" !lineno (int_of_nat k); print_endline "I bad")
  | [] -> ()
  | _ -> print_endline "ERR bad-line")
