(** C13 — further lane models: dequantisation, the packed U/V interpolation of
    the fancy upsampler, DC predictors (PSADBW), block compositions of SSE and
    of the Hadamard distortion, chunked (8-/4-lane + scalar tail) row kernels,
    and the non-zero scan of the quantiser. *)
From Coq Require Import ZArith List Bool Lia.
From Coq Require Import ZifyBool ZifyNat ZifyN.
From Webp Require Import Base.Res Arch.ArchLane16 Arch.ArchLane16Proofs.
Import ListNotations.
Open Scope Z_scope.
Ltac Zify.zify_post_hook ::= Z.div_mod_to_equations.

(** * DequantCoeffs (dequantCoeffsGo: int16(int(in) * q); dequantCoeffsSSE2:
    PMULLW for all sixteen lanes with q broadcast, then the DC redone with a
    32-bit IMUL and a 16-bit store). *)
Definition dequant_go (x q : Z) : Z := wrap16 (x * q).
Definition pmullw (a b : Z) : Z := wrap16 (a * b).                (* low 16 bits of the lane product *)
Definition dequant_lane_ac (x q : Z) : Z := pmullw x (wrap16 q).
Definition dequant_lane_dc (x dcq : Z) : Z := wrap16 (wrap32 (x * wrap32 dcq)).

Theorem lane_dequant_eq : forall x q, int16 x -> 0 <= q <= 32767 ->
  dequant_lane_ac x q = dequant_go x q /\ dequant_lane_dc x q = dequant_go x q.
Proof.
  intros x q Hx Hq. unfold dequant_lane_ac, dequant_lane_dc, dequant_go, pmullw.
  rewrite (wrap16_id q) by (unfold int16; lia). rewrite (wrap32_id q) by lia.
  split; [reflexivity|]. f_equal. apply wrap32_id. unfold int16 in Hx. nia.
Qed.

(** * Chroma interpolation of the fancy upsampler (upsampleLinePairNRGBAGo and
    the amd64 wrapper): U and V travel packed in one uint32 (u | v << 16); the
    9-3-3-1 kernel is evaluated in two halving steps on the packed word.
    [interp_def] is the definition: (9a + 3b + 3c + d + 8) >> 4. *)
Definition pack_uv (u v : Z) : Z := u + 65536 * v.
Definition interp_def (a b c d : Z) : Z := (9 * a + 3 * b + 3 * c + d + 8) / 16.
Definition edge_def (a b : Z) : Z := (3 * a + b + 2) / 4.
(** packed: avg = tl + t + l + b + 0x00080008; diag12 = (avg + 2*(t + l)) >> 3;
    out = (diag12 + tl) >> 1  (the pixel nearest to tl). *)
Definition interp_packed (tl t l b : Z) : Z :=
  let avg := tl + t + l + b + 524296 in
  let diag12 := (avg + 2 * (t + l)) / 8 in
  (diag12 + tl) / 2.
Definition edge_packed (a b : Z) : Z := (3 * a + b + 131074) / 4.
Definition lo8 (p : Z) : Z := p mod 256.
Definition hi8 (p : Z) : Z := (p / 65536) mod 256.

Theorem upsample_packed_eq : forall u0 v0 u1 v1 u2 v2 u3 v3,
  byte u0 -> byte v0 -> byte u1 -> byte v1 -> byte u2 -> byte v2 -> byte u3 -> byte v3 ->
  let p := interp_packed (pack_uv u0 v0) (pack_uv u1 v1) (pack_uv u2 v2) (pack_uv u3 v3) in
  lo8 p = interp_def u0 u1 u2 u3 /\ hi8 p = interp_def v0 v1 v2 v3.
Proof.
  unfold byte, interp_packed, interp_def, pack_uv, lo8, hi8. cbv zeta. intros.
  split; lia.
Qed.

Theorem upsample_edge_packed_eq : forall u0 v0 u1 v1,
  byte u0 -> byte v0 -> byte u1 -> byte v1 ->
  let p := edge_packed (pack_uv u0 v0) (pack_uv u1 v1) in
  lo8 p = edge_def u0 u1 /\ hi8 p = edge_def v0 v1.
Proof. unfold byte, edge_packed, edge_def, pack_uv, lo8, hi8. cbv zeta. intros. split; lia. Qed.

(** * DC / VE / HE predictors (dc16, dc8uv, ve*, he*; the SSE2 routines)
    DC: Go accumulates top[i] and left[i] alternately; SSE2 sums the top row
    with PSADBW (two 8-byte halves for 16x16) and the left column with scalar
    adds.  VE / HE only copy bytes (MOVOU / byte broadcast): the filled block is
    [repeat] of the top row resp. of each left sample in both. *)
Definition sumZ (l : list Z) : Z := fold_right Z.add 0 l.
Definition dc_go (top left : list Z) (shift round : Z) : Z :=
  (fold_left (fun acc tl => acc + fst tl + snd tl) (combine top left) 0 + round) / 2 ^ shift.
Definition psadbw8 (l : list Z) : Z := sumZ (firstn 8 l).    (* sum of |b - 0| over 8 bytes, 16-bit result *)
Definition dc16_lane (top left : list Z) : Z :=
  ((psadbw8 top + psadbw8 (skipn 8 top)) + sumZ left + 16) / 32.
Definition dc8_lane (top left : list Z) : Z := (psadbw8 top + sumZ left + 8) / 16.

Lemma fold_left_pairs l acc :
  fold_left (fun a (tl : Z * Z) => a + fst tl + snd tl) l acc = acc + sumZ (map fst l) + sumZ (map snd l).
Proof.
  revert acc. induction l as [|[x y] l IH]; intros acc; cbn [fold_left map sumZ fold_right fst snd]; [lia|].
  rewrite IH. unfold sumZ. lia.
Qed.

Lemma split_combine_fst (a b : list Z) : length a = length b ->
  map fst (combine a b) = a /\ map snd (combine a b) = b.
Proof.
  revert b. induction a as [|x a IH]; intros [|y b] H; try discriminate; [split; reflexivity|].
  cbn [combine map fst snd]. injection H as H. destruct (IH b H) as [-> ->]. split; reflexivity.
Qed.

Theorem lane_dc16_eq : forall top left, length top = 16%nat -> length left = 16%nat ->
  dc16_lane top left = dc_go top left 5 16.
Proof.
  intros top left Ht Hl. unfold dc16_lane, dc_go, psadbw8. rewrite fold_left_pairs.
  destruct (split_combine_fst top left ltac:(lia)) as [-> ->].
  change (2 ^ 5) with 32. f_equal.
  assert (E : sumZ (firstn 8 top) + sumZ (firstn 8 (skipn 8 top)) = sumZ top).
  { do 17 (destruct top as [|? top]; try discriminate). cbn. lia. }
  lia.
Qed.

Theorem lane_dc8_eq : forall top left, length top = 8%nat -> length left = 8%nat ->
  dc8_lane top left = dc_go top left 4 8.
Proof.
  intros top left Ht Hl. unfold dc8_lane, dc_go, psadbw8. rewrite fold_left_pairs.
  destruct (split_combine_fst top left ltac:(lia)) as [-> ->].
  change (2 ^ 4) with 16. f_equal.
  assert (E : sumZ (firstn 8 top) = sumZ top).
  { do 9 (destruct top as [|? top]; try discriminate). reflexivity. }
  lia.
Qed.

(** * SSE16x16 / SSE16x8 / SSE8x8 as compositions of blocks
    Any partition of the samples into blocks (rows of 16, 4x4 blocks, 8-byte
    halves as in the assembly loops): the lane SSE of the concatenation is the
    sum of the portable SSE of the blocks. *)
Lemma sse_list_app a1 a2 b1 b2 : length a1 = length b1 ->
  sse_list (a1 ++ a2) (b1 ++ b2) = sse_list a1 b1 + sse_list a2 b2.
Proof.
  unfold sse_list. revert b1. induction a1 as [|x a1 IH]; intros [|y b1] H; try discriminate; [cbn; lia|].
  injection H as H. cbn [app combine map fold_right fst snd]. rewrite (IH b1 H). lia.
Qed.

Definition sse_blocks (bs : list (list Z * list Z)) : Z :=
  fold_right (fun ab acc => sse_list (fst ab) (snd ab) + acc) 0 bs.

Lemma sse_list_concat bs : Forall (fun ab => length (fst ab) = length (snd ab)) bs ->
  sse_list (concat (map fst bs)) (concat (map snd bs)) = sse_blocks bs.
Proof.
  induction 1 as [|[a b] bs Hab _ IH]; [reflexivity|].
  cbn [map concat fst snd sse_blocks fold_right] in *. rewrite sse_list_app by exact Hab. rewrite IH. reflexivity.
Qed.

Theorem lane16_sse_blocks_eq : forall bs,
  Forall (fun ab => length (fst ab) = length (snd ab) /\ Forall byte (fst ab) /\ Forall byte (snd ab)) bs ->
  (length (concat (map fst bs)) <= 1024)%nat ->
  l_sse_list (concat (map fst bs)) (concat (map snd bs)) = sse_blocks bs.
Proof.
  intros bs H HL. rewrite lane16_sse_eq.
  - apply sse_list_concat. eapply Forall_impl; [|exact H]. intros ab (E & _ & _). exact E.
  - apply Forall_concat. rewrite Forall_map. eapply Forall_impl; [|exact H]. intros ab (_ & A & _). exact A.
  - apply Forall_concat. rewrite Forall_map. eapply Forall_impl; [|exact H]. intros ab (_ & _ & B). exact B.
  - exact HL.
Qed.

(** * TDisto16x16: both builds sum the sixteen 4x4 distortions. *)
Definition sum_res (l : list (Res Z)) : Res Z :=
  fold_right (fun r acc => x <- r ;; y <- acc ;; Ok (x + y)) (Ok 0) l.
Definition tdisto16 (w : list Z) (blocks : list (list Z * list Z)) : Res Z :=
  sum_res (map (fun ab => tdisto w (fst ab) (snd ab)) blocks).
Definition l_tdisto16 (w : list Z) (blocks : list (list Z * list Z)) : Res Z :=
  sum_res (map (fun ab => l_tdisto w (fst ab) (snd ab)) blocks).

Theorem lane16_tdisto16_eq : forall w blocks, Forall (fun x => 0 <= x <= 255) w ->
  Forall (fun ab => Forall byte (fst ab) /\ Forall byte (snd ab)) blocks ->
  l_tdisto16 w blocks = tdisto16 w blocks.
Proof.
  intros w blocks Hw H. unfold l_tdisto16, tdisto16. f_equal.
  apply map_ext_in. intros ab Hin. rewrite Forall_forall in H. destruct (H ab Hin) as [A B].
  apply lane16_tdisto_eq; assumption.
Qed.

(** * Row kernels processed in chunks (AVX2: 8 pixels, then SSE2: 4 pixels,
    then a scalar tail) equal the plain per-pixel map: AddGreenToBlueAndRed,
    SubtractGreen, the YUV->NRGBA batch.  One lemma covers "the 8-lane version
    = two 4-lane versions = the scalar loop". *)
Fixpoint chunked {A B} (k : nat) (f : A -> B) (fuel : nat) (l : list A) : list B :=
  match fuel with
  | O => map f l
  | S fuel' =>
    if (k <=? length l)%nat then map f (firstn k l) ++ chunked k f fuel' (skipn k l) else map f l
  end.

Lemma chunked_eq_map {A B} k (f : A -> B) fuel l : chunked k f fuel l = map f l.
Proof.
  revert l. induction fuel as [|fuel IH]; intros l; [reflexivity|]. cbn [chunked].
  destruct (k <=? length l)%nat; [|reflexivity].
  rewrite IH, <- map_app, firstn_skipn. reflexivity.
Qed.

(** 8-lane loop, then one optional 4-lane step, then the scalar tail - as in
    addGreenToBlueAndRedSSE2/AVX2: every schedule is the per-pixel map. *)
Definition row_8_4_1 {A B} (f8 f4 f1 : A -> B) (l : list A) : list B :=
  let n8 := (length l / 8 * 8)%nat in
  let rest := skipn n8 l in
  chunked 8 f8 (length l) (firstn n8 l) ++
  (if (4 <=? length rest)%nat then map f4 (firstn 4 rest) ++ map f1 (skipn 4 rest) else map f1 rest).

Theorem row_8_4_1_eq {A B} (f : A -> B) (l : list A) : row_8_4_1 f f f l = map f l.
Proof.
  unfold row_8_4_1. rewrite chunked_eq_map.
  set (n8 := (length l / 8 * 8)%nat). set (rest := skipn n8 l).
  assert (E : (if (4 <=? length rest)%nat then map f (firstn 4 rest) ++ map f (skipn 4 rest) else map f rest) = map f rest).
  { destruct (4 <=? length rest)%nat; [|reflexivity]. rewrite <- map_app, firstn_skipn. reflexivity. }
  rewrite E. subst rest. rewrite <- map_app, firstn_skipn. reflexivity.
Qed.

(** Instantiated: the green transforms on packed pixels, any row length. *)
Definition add_green_px (p : Z) : Z := add_green_go p.
Theorem add_green_row_schedules_eq : forall row,
  row_8_4_1 add_green_go add_green_go add_green_go row = map add_green_go row /\
  row_8_4_1 sub_green_go sub_green_go sub_green_go row = map sub_green_go row.
Proof. intros row. split; apply row_8_4_1_eq. Qed.

(** * Non-zero scan of QuantizeCoeffs: Go keeps a running maximum of the
    zig-zag positions of the non-zero AC levels; nzCountACSSE2 blends
    (position or -1) per lane and reduces with PMAXSW in a tree. *)
Definition nz_val (zz x : Z) : Z := if x =? 0 then -1 else zz.
Definition nz_go (zz out : list Z) : Z :=
  fold_left (fun m zx => Z.max m (nz_val (fst zx) (snd zx))) (combine (tl zz) (tl out)) (-1).
Definition nz_lane (zz out : list Z) : Z :=
  match map (fun zx => nz_val (fst zx) (snd zx)) (combine (-1 :: tl zz) (0 :: tl out)) with
  | [a0; a1; a2; a3; a4; a5; a6; a7; b0; b1; b2; b3; b4; b5; b6; b7] =>
    (* PMAXSW lo,hi ; swap 64-bit halves ; swap word pairs ; swap adjacent words *)
    let c0 := Z.max a0 b0 in let c1 := Z.max a1 b1 in let c2 := Z.max a2 b2 in let c3 := Z.max a3 b3 in
    let c4 := Z.max a4 b4 in let c5 := Z.max a5 b5 in let c6 := Z.max a6 b6 in let c7 := Z.max a7 b7 in
    let d0 := Z.max c0 c4 in let d1 := Z.max c1 c5 in let d2 := Z.max c2 c6 in let d3 := Z.max c3 c7 in
    let e0 := Z.max d0 d2 in let e1 := Z.max d1 d3 in
    Z.max e0 e1
  | _ => -1
  end.

Ltac in_max :=
  first [ apply Z.le_refl
        | (etransitivity; [|apply Z.le_max_l]); in_max
        | (etransitivity; [|apply Z.le_max_r]); in_max ].

Theorem lane_nz_scan_eq : forall zz out, length zz = 16%nat -> length out = 16%nat ->
  nz_lane zz out = nz_go zz out.
Proof.
  intros zz out Hz Ho.
  do 17 (destruct zz as [|? zz]; try discriminate). do 17 (destruct out as [|? out]; try discriminate).
  unfold nz_lane, nz_go. cbn [tl combine map fold_left fst snd]. cbv zeta.
  unfold nz_val at 1. cbn [Z.eqb].
  repeat match goal with |- context [nz_val ?a ?b] => let v := fresh "v" in set (v := nz_val a b); clearbody v end.
  apply Z.le_antisymm; repeat apply Z.max_lub; in_max.
Qed.
