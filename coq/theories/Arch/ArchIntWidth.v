(** C13, part 1 — int-width independence.

    [Gen/IntWidth.v] (regenerated from /repo on every run by
    tools/gosrc2v/intwidth.go) lists every constant expression the Go compiler
    must represent as [int] resp. [uint]/[uintptr] when it builds the module for
    a target whose [int] is 32 bits wide, per file as (line, column, value).
    This file defines the representability check and lifts the boolean sweep
    over the whole list to the quantified statement. *)
From Coq Require Import ZArith List String Bool Lia.
Import ListNotations.
Open Scope Z_scope.

Definition pos_val := (Z * Z * Z)%type.          (* line, column, value *)
Definition const_table := list (string * list pos_val).

Definition fits_int32 (v : Z) : bool := (-2147483648 <=? v) && (v <? 2147483648).
Definition fits_uint32 (v : Z) : bool := (0 <=? v) && (v <? 4294967296).

Lemma fits_int32_spec v : fits_int32 v = true <-> -2^31 <= v < 2^31.
Proof. unfold fits_int32. rewrite andb_true_iff, Z.leb_le, Z.ltb_lt. change (2^31) with 2147483648. lia. Qed.

Lemma fits_uint32_spec v : fits_uint32 v = true <-> 0 <= v < 2^32.
Proof. unfold fits_uint32. rewrite andb_true_iff, Z.leb_le, Z.ltb_lt. change (2^32) with 4294967296. lia. Qed.

(** The constants that do not fit, with their positions (the empty list is the
    obligation; a non-empty list names the offending source positions in the
    error message of the failing proof). *)
Definition out_of_range (fits : Z -> bool) (t : const_table) : list (string * pos_val) :=
  flat_map (fun fl => map (fun c => (fst fl, c))
                          (filter (fun c => negb (fits (snd c))) (snd fl))) t.

Definition all_fit (fits : Z -> bool) (t : const_table) : bool :=
  forallb (fun fl => forallb (fun c => fits (snd c)) (snd fl)) t.

Definition count_consts (t : const_table) : Z :=
  fold_right (fun fl n => Z.of_nat (List.length (snd fl)) + n) 0 t.

Lemma all_fit_sound fits t :
  all_fit fits t = true ->
  forall file l line col v, In (file, l) t -> In (line, col, v) l -> fits v = true.
Proof.
  intros H file l line col v Hf Hc.
  unfold all_fit in H. rewrite forallb_forall in H.
  specialize (H _ Hf). cbn in H. rewrite forallb_forall in H.
  exact (H _ Hc).
Qed.

Lemma out_of_range_nil_all_fit fits t : out_of_range fits t = [] -> all_fit fits t = true.
Proof.
  unfold out_of_range, all_fit. induction t as [|[f l] t IH]; cbn; intros H; [reflexivity|].
  apply app_eq_nil in H. destruct H as [H1 H2].
  rewrite (IH H2), andb_true_r.
  apply map_eq_nil in H1.
  clear -H1. induction l as [|c l IHl]; cbn in *; [reflexivity|].
  destruct (fits (snd c)); cbn in *; [apply IHl; exact H1|discriminate].
Qed.

(** The check is not vacuous and does reject what a 32-bit compiler rejects. *)
Example int_width_check_rejects_1_shl_31 :
  out_of_range fits_int32 [("random.go"%string, [(57, 11, 2147483648); (58, 1, 7)])]
  = [("random.go"%string, (57, 11, 2147483648))].
Proof. reflexivity. Qed.

Example uint_width_check_rejects_negative_and_2_pow_32 :
  all_fit fits_uint32 [("x.go"%string, [(1, 1, 4294967296)])] = false /\
  all_fit fits_uint32 [("x.go"%string, [(1, 1, -1)])] = false /\
  all_fit fits_uint32 [("x.go"%string, [(1, 1, 4294967295)])] = true.
Proof. repeat split; reflexivity. Qed.
