(** C13, part 2 — equivalence of the lane-16 models with the portable kernels
    on the ranges where no 16-bit lane wraps, and concrete witnesses where the
    full statement is false. *)
From Coq Require Import ZArith List Bool Lia.
From Coq Require Import ZifyBool ZifyNat ZifyN.
From Webp Require Import Base.Res Arch.ArchLane16.
Import ListNotations.
Open Scope Z_scope.
Ltac Zify.zify_post_hook ::= Z.div_mod_to_equations.

(** * wrap16 is a ring homomorphism onto the signed 16-bit representatives *)

Lemma wrap16_id x : int16 x -> wrap16 x = x.
Proof. unfold int16, wrap16. lia. Qed.

Lemma wrap16_int16 x : int16 (wrap16 x).
Proof. unfold int16, wrap16. lia. Qed.

Lemma wrap16_add_l a b : wrap16 (wrap16 a + b) = wrap16 (a + b).
Proof. unfold wrap16. lia. Qed.
Lemma wrap16_add_r a b : wrap16 (a + wrap16 b) = wrap16 (a + b).
Proof. unfold wrap16. lia. Qed.
Lemma wrap16_sub_l a b : wrap16 (wrap16 a - b) = wrap16 (a - b).
Proof. unfold wrap16. lia. Qed.
Lemma wrap16_sub_r a b : wrap16 (a - wrap16 b) = wrap16 (a - b).
Proof. unfold wrap16. lia. Qed.

Lemma add16_wrap a b : add16 (wrap16 a) (wrap16 b) = wrap16 (a + b).
Proof. unfold add16. now rewrite wrap16_add_l, wrap16_add_r. Qed.
Lemma sub16_wrap a b : sub16 (wrap16 a) (wrap16 b) = wrap16 (a - b).
Proof. unfold sub16. now rewrite wrap16_sub_l, wrap16_sub_r. Qed.

(** The two multiplies: exact for every 16-bit input (modulo the final wrap). *)
Lemma l_mul1_spec x : int16 x -> l_mul1 x = wrap16 (mul1 x).
Proof. intros _. unfold l_mul1, mul1, add16, mulhi16. reflexivity. Qed.

Lemma l_mul2_spec x : int16 x -> l_mul2 x = wrap16 (mul2 x).
Proof.
  intros _. unfold l_mul2, mul2, add16, mulhi16, kC2_lane, kC2. f_equal.
  (* floor(x*(35468-65536)/65536) + x = floor(x*35468/65536) *)
  lia.
Qed.

Lemma mul2_int16 x : int16 x -> int16 (mul2 x).
Proof. unfold int16, mul2, kC2. lia. Qed.

(** * IDCT *)

Lemma l_bfly_spec x0 x1 x2 x3 :
  int16 x1 -> int16 x3 ->
  l_bfly (wrap16 x0, x1, wrap16 x2, x3) = mapQ wrap16 (bfly (x0, x1, x2, x3)).
Proof.
  intros H1 H3. unfold l_bfly, bfly, mapQ. cbv zeta.
  rewrite (l_mul1_spec x1 H1), (l_mul2_spec x1 H1), (l_mul1_spec x3 H3), (l_mul2_spec x3 H3).
  repeat (rewrite ?add16_wrap, ?sub16_wrap). reflexivity.
Qed.

Lemma l_bfly_int16 q : forallQ int16 q -> l_bfly q = mapQ wrap16 (bfly q).
Proof.
  destruct q as [[[x0 x1] x2] x3]. cbn [forallQ]. intros (H0 & H1 & H2 & H3).
  rewrite <- (wrap16_id x0 H0) at 1. rewrite <- (wrap16_id x2 H2) at 1.
  apply l_bfly_spec; assumption.
Qed.

Lemma transpose_mapM_mapQ f m : transpose (mapM (mapQ f) m) = mapM (mapQ f) (transpose m).
Proof. destruct m as [[[[[[a0 a1] a2] a3] [[[b0 b1] b2] b3]] [[[c0 c1] c2] c3]] [[[d0 d1] d2] d3]]. reflexivity. Qed.

Lemma mapM_ext_cols (f g : Q -> Q) (P : Z -> Prop) m :
  (forall q, forallQ P q -> f q = g q) -> forallM P m -> mapM f (transpose m) = mapM g (transpose m).
Proof.
  intros Hfg. destruct m as [[[[[[a0 a1] a2] a3] [[[b0 b1] b2] b3]] [[[c0 c1] c2] c3]] [[[d0 d1] d2] d3]].
  cbn [forallM forallQ transpose mapM].
  intros ((A0 & A1 & A2 & A3) & (B0 & B1 & B2 & B3) & (C0 & C1 & C2 & C3) & (D0 & D1 & D2 & D3)).
  rewrite !Hfg; cbn [forallQ]; auto.
Qed.

Lemma mapM_mapM f g m : mapM f (mapM g m) = mapM (fun q => f (g q)) m.
Proof. destruct m as [[[a b] c] d]. reflexivity. Qed.

Lemma l_idct_mid m : forallM int16 m ->
  transpose (mapM l_bfly (transpose m)) = mapM (mapQ wrap16) (idct_mid m).
Proof.
  intros Hm. unfold idct_mid.
  rewrite (mapM_ext_cols l_bfly (fun q => mapQ wrap16 (bfly q)) int16 m l_bfly_int16 Hm).
  rewrite <- (mapM_mapM (mapQ wrap16) bfly). apply transpose_mapM_mapQ.
Qed.

Lemma l_row_spec t0 t1 t2 t3 : row_fits (t0, t1, t2, t3) ->
  mapQ (fun x => sra16 x 3) (l_bfly (l_bias0 4 (mapQ wrap16 (t0, t1, t2, t3))))
  = mapQ (fun x => x / 8) (bfly (bias0 4 (t0, t1, t2, t3))).
Proof.
  unfold row_fits. intros (H1 & H3 & Hs). cbn [mapQ l_bias0 bias0] in *.
  unfold add16 at 1. rewrite wrap16_add_l.
  rewrite (wrap16_id t1 H1), (wrap16_id t3 H3), l_bfly_spec by assumption.
  destruct (bfly (t0 + 4, t1, t2, t3)) as [[[s0 s1] s2] s3]. cbn [forallQ mapQ] in *.
  destruct Hs as (S0 & S1 & S2 & S3).
  rewrite !wrap16_id by assumption. unfold sra16. change (2 ^ 3) with 8. reflexivity.
Qed.

Lemma l_idct_core_eq m : forallM int16 m -> idct_fits16 m ->
  l_idct_core m = mapM (mapQ (fun x => x / 8)) (idct_core m).
Proof.
  intros Hm Hf. unfold l_idct_core, idct_core, two_pass.
  rewrite (l_idct_mid m Hm). fold (idct_mid m). unfold idct_fits16 in Hf.
  destruct (idct_mid m) as [[[[[[a0 a1] a2] a3] [[[b0 b1] b2] b3]] [[[c0 c1] c2] c3]] [[[d0 d1] d2] d3]].
  destruct Hf as (Ha & Hb & Hc & Hd). cbn [mapM].
  rewrite (l_row_spec _ _ _ _ Ha), (l_row_spec _ _ _ _ Hb), (l_row_spec _ _ _ _ Hc), (l_row_spec _ _ _ _ Hd).
  reflexivity.
Qed.

Lemma idct_core_int16 m : idct_fits16 m -> forallM int16 (idct_core m).
Proof.
  intros Hf. unfold idct_core, two_pass. fold (idct_mid m). unfold idct_fits16 in Hf.
  destruct (idct_mid m) as [[[[[[a0 a1] a2] a3] [[[b0 b1] b2] b3]] [[[c0 c1] c2] c3]] [[[d0 d1] d2] d3]].
  unfold row_fits in Hf. cbn [mapM forallM]. tauto.
Qed.

Lemma l_recon_eq p s : byte p -> int16 s -> l_recon p (s / 8) = recon p s.
Proof.
  unfold byte, int16, l_recon, recon, add16. intros Hp Hs.
  rewrite wrap16_id by (unfold int16; lia). f_equal. lia.
Qed.

Lemma map2M_recon_eq p x : forallM byte p -> forallM int16 x ->
  map2M l_recon p (mapM (mapQ (fun v => v / 8)) x) = map2M recon p x.
Proof.
  destruct p as [[[[[[p0 p1] p2] p3] [[[p4 p5] p6] p7]] [[[p8 p9] p10] p11]] [[[p12 p13] p14] p15]].
  destruct x as [[[[[[x0 x1] x2] x3] [[[x4 x5] x6] x7]] [[[x8 x9] x10] x11]] [[[x12 x13] x14] x15]].
  cbn [forallM forallQ map2M map2Q mapM mapQ].
  intros ((P0 & P1 & P2 & P3) & (P4 & P5 & P6 & P7) & (P8 & P9 & P10 & P11) & (P12 & P13 & P14 & P15)).
  intros ((X0 & X1 & X2 & X3) & (X4 & X5 & X6 & X7) & (X8 & X9 & X10 & X11) & (X12 & X13 & X14 & X15)).
  rewrite !l_recon_eq by assumption. reflexivity.
Qed.

(** The lane-16 IDCT equals the portable one whenever no lane feeding a
    non-linear operation wraps. *)
Theorem lane16_idct_eq_fits : forall coeffs pred c p,
  blk16 coeffs = Ok c -> blk16 pred = Ok p ->
  forallM int16 c -> forallM byte p -> idct_fits16 c ->
  lane16_idct coeffs pred = transform_one coeffs pred.
Proof.
  intros coeffs pred c p Hc Hp Hi Hb Hf. unfold lane16_idct, transform_one.
  rewrite Hc, Hp. cbn [bind]. do 2 f_equal.
  rewrite (l_idct_core_eq c Hi Hf). apply map2M_recon_eq; [exact Hb|]. apply idct_core_int16, Hf.
Qed.

(** ** The coefficient box *)

Definition in_box (B : Z) (x : Z) : Prop := - B <= x <= B.

Lemma bfly_box_2212 x0 x1 x2 x3 :
  in_box 2212 x0 -> in_box 2212 x1 -> in_box 2212 x2 -> in_box 2212 x3 ->
  forallQ (in_box 8513) (bfly (x0, x1, x2, x3)).
Proof.
  unfold in_box, bfly, forallQ, mul1, mul2, kC1, kC2. cbv zeta. intros H0 H1 H2 H3.
  repeat split; lia.
Qed.

Lemma row_fits_box_8513 t0 t1 t2 t3 :
  in_box 8513 t0 -> in_box 8513 t1 -> in_box 8513 t2 -> in_box 8513 t3 ->
  row_fits (t0, t1, t2, t3).
Proof.
  unfold in_box, row_fits, bfly, bias0, forallQ, int16, mul1, mul2, kC1, kC2. cbv zeta. intros H0 H1 H2 H3.
  repeat split; lia.
Qed.

Lemma idct_fits16_box m : forallM (in_box kIdctBox) m -> idct_fits16 m.
Proof.
  destruct m as [[[[[[a0 a1] a2] a3] [[[b0 b1] b2] b3]] [[[c0 c1] c2] c3]] [[[d0 d1] d2] d3]].
  unfold kIdctBox. cbn [forallM forallQ].
  intros ((A0 & A1 & A2 & A3) & (B0 & B1 & B2 & B3) & (C0 & C1 & C2 & C3) & (D0 & D1 & D2 & D3)).
  unfold idct_fits16, idct_mid. cbn [transpose mapM].
  pose proof (bfly_box_2212 _ _ _ _ A0 B0 C0 D0) as K0.
  pose proof (bfly_box_2212 _ _ _ _ A1 B1 C1 D1) as K1.
  pose proof (bfly_box_2212 _ _ _ _ A2 B2 C2 D2) as K2.
  pose proof (bfly_box_2212 _ _ _ _ A3 B3 C3 D3) as K3.
  destruct (bfly (a0, b0, c0, d0)) as [[[u0 u1] u2] u3].
  destruct (bfly (a1, b1, c1, d1)) as [[[v0 v1] v2] v3].
  destruct (bfly (a2, b2, c2, d2)) as [[[w0 w1] w2] w3].
  destruct (bfly (a3, b3, c3, d3)) as [[[z0 z1] z2] z3].
  cbn [forallQ transpose] in *.
  destruct K0 as (? & ? & ? & ?), K1 as (? & ? & ? & ?), K2 as (? & ? & ? & ?), K3 as (? & ? & ? & ?).
  split; [|split; [|split]]; apply row_fits_box_8513; assumption.
Qed.
