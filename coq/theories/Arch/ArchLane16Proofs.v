(** C13, part 2 — equivalence of the lane-16 models with the portable kernels
    on the ranges where no 16-bit lane wraps, and concrete witnesses where the
    full statement is false. *)
From Coq Require Import ZArith List Bool Lia.
From Coq Require Import ZifyBool ZifyNat ZifyN.
From Webp Require Import Base.Res Arch.ArchLane16.
Import ListNotations.
Open Scope Z_scope.
Ltac Zify.zify_post_hook ::= Z.div_mod_to_equations.
Ltac forall_lia := repeat (apply Forall_cons; [lia|]); apply Forall_nil.

(** * wrap16 is a ring homomorphism onto the signed 16-bit representatives *)

Lemma wrap16_id x : int16 x -> wrap16 x = x.
Proof. unfold int16, wrap16. lia. Qed.

Lemma wrap16_int16 x : int16 (wrap16 x).
Proof. unfold int16, wrap16. lia. Qed.

Lemma wrap16_add_l a b : wrap16 (wrap16 a + b) = wrap16 (a + b).
Proof. unfold wrap16. lia. Qed.
Lemma wrap16_add_r a b : wrap16 (a + wrap16 b) = wrap16 (a + b).
Proof. unfold wrap16. lia. Qed.
Lemma wrap16_sub_l a b : wrap16 (wrap16 a - b) = wrap16 (a - b).
Proof. unfold wrap16. lia. Qed.
Lemma wrap16_sub_r a b : wrap16 (a - wrap16 b) = wrap16 (a - b).
Proof. unfold wrap16. lia. Qed.

Lemma add16_wrap a b : add16 (wrap16 a) (wrap16 b) = wrap16 (a + b).
Proof. unfold add16. now rewrite wrap16_add_l, wrap16_add_r. Qed.
Lemma sub16_wrap a b : sub16 (wrap16 a) (wrap16 b) = wrap16 (a - b).
Proof. unfold sub16. now rewrite wrap16_sub_l, wrap16_sub_r. Qed.

(** The two multiplies: exact for every 16-bit input (modulo the final wrap). *)
Lemma l_mul1_spec x : int16 x -> l_mul1 x = wrap16 (mul1 x).
Proof. intros _. unfold l_mul1, mul1, add16, mulhi16. reflexivity. Qed.

Lemma l_mul2_spec x : int16 x -> l_mul2 x = wrap16 (mul2 x).
Proof.
  intros _. unfold l_mul2, mul2, add16, mulhi16, kC2_lane, kC2. f_equal.
  (* floor(x*(35468-65536)/65536) + x = floor(x*35468/65536) *)
  lia.
Qed.

Lemma mul2_int16 x : int16 x -> int16 (mul2 x).
Proof. unfold int16, mul2, kC2. lia. Qed.

(** * IDCT *)

Lemma l_bfly_spec x0 x1 x2 x3 :
  int16 x1 -> int16 x3 ->
  l_bfly (wrap16 x0, x1, wrap16 x2, x3) = mapQ wrap16 (bfly (x0, x1, x2, x3)).
Proof.
  intros H1 H3. unfold l_bfly, bfly, mapQ. cbv zeta.
  rewrite (l_mul1_spec x1 H1), (l_mul2_spec x1 H1), (l_mul1_spec x3 H3), (l_mul2_spec x3 H3).
  repeat (rewrite ?add16_wrap, ?sub16_wrap). reflexivity.
Qed.

Lemma l_bfly_int16 q : forallQ int16 q -> l_bfly q = mapQ wrap16 (bfly q).
Proof.
  destruct q as [[[x0 x1] x2] x3]. cbn [forallQ]. intros (H0 & H1 & H2 & H3).
  rewrite <- (wrap16_id x0 H0) at 1. rewrite <- (wrap16_id x2 H2) at 1.
  apply l_bfly_spec; assumption.
Qed.

Lemma transpose_mapM_mapQ f m : transpose (mapM (mapQ f) m) = mapM (mapQ f) (transpose m).
Proof. destruct m as [[[[[[a0 a1] a2] a3] [[[b0 b1] b2] b3]] [[[c0 c1] c2] c3]] [[[d0 d1] d2] d3]]. reflexivity. Qed.

Lemma mapM_ext_cols (f g : Q -> Q) (P : Z -> Prop) m :
  (forall q, forallQ P q -> f q = g q) -> forallM P m -> mapM f (transpose m) = mapM g (transpose m).
Proof.
  intros Hfg. destruct m as [[[[[[a0 a1] a2] a3] [[[b0 b1] b2] b3]] [[[c0 c1] c2] c3]] [[[d0 d1] d2] d3]].
  cbn [forallM forallQ transpose mapM].
  intros ((A0 & A1 & A2 & A3) & (B0 & B1 & B2 & B3) & (C0 & C1 & C2 & C3) & (D0 & D1 & D2 & D3)).
  rewrite !Hfg; cbn [forallQ]; auto.
Qed.

Lemma mapM_mapM f g m : mapM f (mapM g m) = mapM (fun q => f (g q)) m.
Proof. destruct m as [[[a b] c] d]. reflexivity. Qed.

Lemma l_idct_mid m : forallM int16 m ->
  transpose (mapM l_bfly (transpose m)) = mapM (mapQ wrap16) (idct_mid m).
Proof.
  intros Hm. unfold idct_mid.
  rewrite (mapM_ext_cols l_bfly (fun q => mapQ wrap16 (bfly q)) int16 m l_bfly_int16 Hm).
  rewrite <- (mapM_mapM (mapQ wrap16) bfly). apply transpose_mapM_mapQ.
Qed.

Lemma l_row_spec t0 t1 t2 t3 : row_fits (t0, t1, t2, t3) ->
  mapQ (fun x => sra16 x 3) (l_bfly (l_bias0 4 (mapQ wrap16 (t0, t1, t2, t3))))
  = mapQ (fun x => x / 8) (bfly (bias0 4 (t0, t1, t2, t3))).
Proof.
  unfold row_fits. intros (H1 & H3 & Hs). cbn [mapQ l_bias0 bias0] in *.
  unfold add16 at 1. rewrite wrap16_add_l.
  rewrite (wrap16_id t1 H1), (wrap16_id t3 H3), l_bfly_spec by assumption.
  destruct (bfly (t0 + 4, t1, t2, t3)) as [[[s0 s1] s2] s3]. cbn [forallQ mapQ] in *.
  destruct Hs as (S0 & S1 & S2 & S3).
  rewrite !wrap16_id by assumption. unfold sra16. change (2 ^ 3) with 8. reflexivity.
Qed.

Lemma l_idct_core_eq m : forallM int16 m -> idct_fits16 m ->
  l_idct_core m = mapM (mapQ (fun x => x / 8)) (idct_core m).
Proof.
  intros Hm Hf. unfold l_idct_core, idct_core, two_pass.
  rewrite (l_idct_mid m Hm). fold (idct_mid m). unfold idct_fits16 in Hf.
  destruct (idct_mid m) as [[[[[[a0 a1] a2] a3] [[[b0 b1] b2] b3]] [[[c0 c1] c2] c3]] [[[d0 d1] d2] d3]].
  destruct Hf as (Ha & Hb & Hc & Hd). cbn [mapM].
  rewrite (l_row_spec _ _ _ _ Ha), (l_row_spec _ _ _ _ Hb), (l_row_spec _ _ _ _ Hc), (l_row_spec _ _ _ _ Hd).
  reflexivity.
Qed.

Lemma idct_core_int16 m : idct_fits16 m -> forallM int16 (idct_core m).
Proof.
  intros Hf. unfold idct_core, two_pass. fold (idct_mid m). unfold idct_fits16 in Hf.
  destruct (idct_mid m) as [[[[[[a0 a1] a2] a3] [[[b0 b1] b2] b3]] [[[c0 c1] c2] c3]] [[[d0 d1] d2] d3]].
  unfold row_fits in Hf. cbn [mapM forallM]. tauto.
Qed.

Lemma l_recon_eq p s : byte p -> int16 s -> l_recon p (s / 8) = recon p s.
Proof.
  unfold byte, int16, l_recon, recon, add16. intros Hp Hs.
  rewrite wrap16_id by (unfold int16; lia). f_equal. lia.
Qed.

Lemma map2M_recon_eq p x : forallM byte p -> forallM int16 x ->
  map2M l_recon p (mapM (mapQ (fun v => v / 8)) x) = map2M recon p x.
Proof.
  destruct p as [[[[[[p0 p1] p2] p3] [[[p4 p5] p6] p7]] [[[p8 p9] p10] p11]] [[[p12 p13] p14] p15]].
  destruct x as [[[[[[x0 x1] x2] x3] [[[x4 x5] x6] x7]] [[[x8 x9] x10] x11]] [[[x12 x13] x14] x15]].
  cbn [forallM forallQ map2M map2Q mapM mapQ].
  intros ((P0 & P1 & P2 & P3) & (P4 & P5 & P6 & P7) & (P8 & P9 & P10 & P11) & (P12 & P13 & P14 & P15)).
  intros ((X0 & X1 & X2 & X3) & (X4 & X5 & X6 & X7) & (X8 & X9 & X10 & X11) & (X12 & X13 & X14 & X15)).
  rewrite !l_recon_eq by assumption. reflexivity.
Qed.

(** The lane-16 IDCT equals the portable one whenever no lane feeding a
    non-linear operation wraps. *)
Theorem lane16_idct_eq_fits : forall coeffs pred c p,
  blk16 coeffs = Ok c -> blk16 pred = Ok p ->
  forallM int16 c -> forallM byte p -> idct_fits16 c ->
  lane16_idct coeffs pred = transform_one coeffs pred.
Proof.
  intros coeffs pred c p Hc Hp Hi Hb Hf. unfold lane16_idct, transform_one.
  rewrite Hc, Hp. cbn [bind]. do 2 f_equal.
  rewrite (l_idct_core_eq c Hi Hf). apply map2M_recon_eq; [exact Hb|]. apply idct_core_int16, Hf.
Qed.

(** ** The coefficient box *)

Definition in_box (B : Z) (x : Z) : Prop := - B <= x <= B.

Lemma bfly_box_2212 x0 x1 x2 x3 :
  in_box 2212 x0 -> in_box 2212 x1 -> in_box 2212 x2 -> in_box 2212 x3 ->
  forallQ (in_box 8513) (bfly (x0, x1, x2, x3)).
Proof.
  unfold in_box, bfly, forallQ, mul1, mul2, kC1, kC2. cbv zeta. intros H0 H1 H2 H3.
  repeat split; lia.
Qed.

Lemma row_fits_box_8513 t0 t1 t2 t3 :
  in_box 8513 t0 -> in_box 8513 t1 -> in_box 8513 t2 -> in_box 8513 t3 ->
  row_fits (t0, t1, t2, t3).
Proof.
  unfold in_box, row_fits, bfly, bias0, forallQ, int16, mul1, mul2, kC1, kC2. cbv zeta. intros H0 H1 H2 H3.
  repeat split; lia.
Qed.

Lemma idct_fits16_box m : forallM (in_box kIdctBox) m -> idct_fits16 m.
Proof.
  destruct m as [[[[[[a0 a1] a2] a3] [[[b0 b1] b2] b3]] [[[c0 c1] c2] c3]] [[[d0 d1] d2] d3]].
  unfold kIdctBox. cbn [forallM forallQ].
  intros ((A0 & A1 & A2 & A3) & (B0 & B1 & B2 & B3) & (C0 & C1 & C2 & C3) & (D0 & D1 & D2 & D3)).
  unfold idct_fits16, idct_mid. cbn [transpose mapM].
  pose proof (bfly_box_2212 _ _ _ _ A0 B0 C0 D0) as K0.
  pose proof (bfly_box_2212 _ _ _ _ A1 B1 C1 D1) as K1.
  pose proof (bfly_box_2212 _ _ _ _ A2 B2 C2 D2) as K2.
  pose proof (bfly_box_2212 _ _ _ _ A3 B3 C3 D3) as K3.
  destruct (bfly (a0, b0, c0, d0)) as [[[u0 u1] u2] u3].
  destruct (bfly (a1, b1, c1, d1)) as [[[v0 v1] v2] v3].
  destruct (bfly (a2, b2, c2, d2)) as [[[w0 w1] w2] w3].
  destruct (bfly (a3, b3, c3, d3)) as [[[z0 z1] z2] z3].
  cbn [forallQ transpose] in *.
  destruct K0 as (? & ? & ? & ?), K1 as (? & ? & ? & ?), K2 as (? & ? & ? & ?), K3 as (? & ? & ? & ?).
  split; [|split; [|split]]; apply row_fits_box_8513; assumption.
Qed.

Lemma blk16_Forall (P : Z -> Prop) l c : blk16 l = Ok c -> Forall P l -> forallM P c.
Proof.
  unfold blk16. destruct (16 <=? Z.of_nat (length l)) eqn:E; [|discriminate].
  intros H HP. injection H as <-. cbn [forallM forallQ].
  rewrite Forall_forall in HP.
  repeat split; apply HP, nth_In; lia.
Qed.

Lemma forallM_impl (P R : Z -> Prop) m : (forall x, P x -> R x) -> forallM P m -> forallM R m.
Proof.
  intros HPR. destruct m as [[[[[[a0 a1] a2] a3] [[[b0 b1] b2] b3]] [[[c0 c1] c2] c3]] [[[d0 d1] d2] d3]].
  cbn [forallM forallQ]. intuition.
Qed.

Lemma blk16_cases l : (exists c, blk16 l = Ok c) \/ blk16 l = Panic.
Proof. unfold blk16. destruct (16 <=? Z.of_nat (length l)); eauto. Qed.

(** [lane16_idct_eq]: on every coefficient block inside the box |c| <= 2212
    (any prediction bytes; slices of any length, short ones panic alike). *)
Theorem lane16_idct_eq : forall coeffs pred,
  in_range coeffs -> Forall byte pred ->
  lane16_idct coeffs pred = transform_one coeffs pred.
Proof.
  intros coeffs pred Hr Hb.
  destruct (blk16_cases coeffs) as [[c Hc]|Hc]; [|unfold lane16_idct, transform_one; rewrite Hc; reflexivity].
  destruct (blk16_cases pred) as [[p Hp]|Hp]; [|unfold lane16_idct, transform_one; rewrite Hc, Hp; reflexivity].
  assert (Hbox : forallM (in_box kIdctBox) c) by (apply (blk16_Forall _ _ _ Hc); exact Hr).
  apply (lane16_idct_eq_fits coeffs pred c p Hc Hp).
  - apply (forallM_impl (in_box kIdctBox) int16); [|exact Hbox].
    unfold in_box, kIdctBox, int16. intros x Hx. lia.
  - apply (blk16_Forall _ _ _ Hp Hb).
  - apply idct_fits16_box, Hbox.
Qed.

(** The hypotheses of [lane16_idct_eq] are met by non-trivial blocks. *)
Example lane16_idct_eq_applies :
  in_range [2212; -2212; 700; -3; 0; 15; -2212; 2212; 1; 2; 3; 4; -100; 2000; -2000; 2212] /\
  lane16_idct [2212; -2212; 700; -3; 0; 15; -2212; 2212; 1; 2; 3; 4; -100; 2000; -2000; 2212]
              [0; 255; 128; 7; 200; 100; 50; 25; 12; 6; 3; 1; 255; 255; 0; 0]
  = Ok [0; 191; 255; 0; 0; 80; 127; 255; 255; 107; 255; 0; 255; 255; 0; 255].
Proof.
  split; [unfold in_range, kIdctBox; forall_lia|vm_compute; reflexivity].
Qed.

(** The box is the widest symmetric one: at |c| = 2213 a final sum reaches
    32768, the lane wraps to -32768 and the reconstructed sample flips from 255
    to 0. *)
Definition idct_block_2213 : list Z :=
  [2213; -2213; -2213; 2213; -2213; 2213; 2213; -2213; -2213; 2213; 2213; -2213; 2213; -2213; -2213; 2213].

Theorem idct_box_maximal :
  Forall (fun c => - (kIdctBox + 1) <= c <= kIdctBox + 1) idct_block_2213 /\
  lane16_idct idct_block_2213 (repeat 128 16) <> transform_one idct_block_2213 (repeat 128 16).
Proof.
  split; [unfold kIdctBox, idct_block_2213; forall_lia|vm_compute; discriminate].
Qed.

(** ** Which coefficients can reach the IDCT from a valid bitstream

    The decoder stores [int16(level * dq)] (decode_mb.go, getCoeffs): [level] is a
    DCT token value, at most 2^11 - 1 + 67 = 2114 in magnitude (DCT_CAT6: 11
    extra bits on top of the base 67), and [dq] is an entry of the AC
    dequantisation table selected by the quantiser index in the frame header.
    The product is truncated to 16 bits, nothing clamps it. *)
Definition kMaxLevel : Z := 2114.

Definition reachable_coeff (ac_table : list Z) (v : Z) : Prop :=
  exists level dq, - kMaxLevel <= level <= kMaxLevel /\ In dq ac_table /\ v = wrap16 (level * dq).

(** A block of 16 AC-quantiser multiples, each reachable, on which the 16-bit
    lanes wrap: level 100 at quantiser step 23 (index 19 of kAcTable). *)
Definition idct_block_2300 : list Z := repeat 2300 16.

Lemma lane16_idct_differs_witness :
  lane16_idct idct_block_2300 (repeat 128 16) = Ok [0; 0; 255; 255; 0; 255; 0; 95; 255; 0; 255; 162; 255; 94; 162; 135] /\
  transform_one idct_block_2300 (repeat 128 16) = Ok [255; 0; 255; 255; 0; 255; 0; 95; 255; 0; 255; 162; 255; 94; 162; 135].
Proof. split; vm_compute; reflexivity. Qed.

Theorem lane16_idct_differs_refuted : exists coeffs pred,
  length coeffs = 16%nat /\ Forall int16 coeffs /\ Forall byte pred /\
  lane16_idct coeffs pred <> transform_one coeffs pred.
Proof.
  exists idct_block_2300, (repeat 128 16).
  split; [reflexivity|]. split; [unfold idct_block_2300, int16; cbn [repeat]; forall_lia|].
  split; [unfold byte; cbn [repeat]; forall_lia|].
  destruct lane16_idct_differs_witness as [-> ->]. discriminate.
Qed.

(** * Linear butterflies (inverse and forward WHT): every lane operation is a
    wrapping add/sub, so the lanes hold [wrap16] of the exact values throughout;
    only the final arithmetic shift needs the exact value. *)
Section Linear.
  Variables (lb b : Q -> Q).
  Hypothesis Hlin : forall x0 x1 x2 x3,
    lb (mapQ wrap16 (x0, x1, x2, x3)) = mapQ wrap16 (b (x0, x1, x2, x3)).

  Lemma lin_int16 q : forallQ int16 q -> lb q = mapQ wrap16 (b q).
  Proof.
    destruct q as [[[x0 x1] x2] x3]. cbn [forallQ]. intros (H0 & H1 & H2 & H3).
    rewrite <- Hlin. cbn [mapQ]. now rewrite !wrap16_id by assumption.
  Qed.

  Lemma lin_shift q n : 0 <= n -> forallQ int16 (b q) ->
    mapQ (fun x => sra16 x n) (lb (mapQ wrap16 q)) = mapQ (fun x => wrap16 (x / 2 ^ n)) (b q).
  Proof.
    intros Hn. destruct q as [[[x0 x1] x2] x3]. rewrite Hlin.
    destruct (b (x0, x1, x2, x3)) as [[[s0 s1] s2] s3]. cbn [forallQ mapQ].
    intros (S0 & S1 & S2 & S3). rewrite !wrap16_id by assumption. unfold sra16.
    assert (Hp : 1 <= 2 ^ n) by (pose proof (Z.pow_pos_nonneg 2 n ltac:(lia) Hn); lia).
    assert (K : forall s, int16 s -> wrap16 (s / 2 ^ n) = s / 2 ^ n).
    { intros s Hs. apply wrap16_id. unfold int16 in *. split.
      - apply Z.div_le_lower_bound; nia.
      - apply Z.div_le_upper_bound; nia. }
    now rewrite !K by assumption.
  Qed.
End Linear.

Lemma l_wht_b_lin x0 x1 x2 x3 :
  l_wht_b (mapQ wrap16 (x0, x1, x2, x3)) = mapQ wrap16 (wht_b (x0, x1, x2, x3)).
Proof. unfold l_wht_b, wht_b, mapQ. cbv zeta. repeat (rewrite ?add16_wrap, ?sub16_wrap). reflexivity. Qed.

Lemma l_fwht_b_lin x0 x1 x2 x3 :
  l_fwht_b (mapQ wrap16 (x0, x1, x2, x3)) = mapQ wrap16 (fwht_b (x0, x1, x2, x3)).
Proof. unfold l_fwht_b, fwht_b, mapQ. cbv zeta. repeat (rewrite ?add16_wrap, ?sub16_wrap). reflexivity. Qed.

Lemma l_bias0_wrap k q : l_bias0 k (mapQ wrap16 q) = mapQ wrap16 (bias0 k q) .
Proof.
  destruct q as [[[x0 x1] x2] x3]. cbn [l_bias0 bias0 mapQ]. unfold add16. now rewrite wrap16_add_l.
Qed.

(** ** Inverse WHT *)
Lemma l_iwht_core_eq m : forallM int16 m -> iwht_fits16 m -> l_iwht_core m = iwht_core m.
Proof.
  intros Hm Hf. unfold l_iwht_core, iwht_core, two_pass.
  rewrite (mapM_ext_cols l_wht_b (fun q => mapQ wrap16 (wht_b q)) int16 m (lin_int16 _ _ l_wht_b_lin) Hm).
  rewrite <- (mapM_mapM (mapQ wrap16) wht_b), transpose_mapM_mapQ.
  unfold iwht_fits16 in Hf.
  destruct (transpose (mapM wht_b (transpose m))) as [[[r0 r1] r2] r3].
  cbn [mapM forallM] in *. destruct Hf as (F0 & F1 & F2 & F3).
  rewrite !l_bias0_wrap.
  rewrite (lin_shift _ _ l_wht_b_lin (bias0 3 r0) 3), (lin_shift _ _ l_wht_b_lin (bias0 3 r1) 3),
          (lin_shift _ _ l_wht_b_lin (bias0 3 r2) 3), (lin_shift _ _ l_wht_b_lin (bias0 3 r3) 3) by (assumption || lia).
  reflexivity.
Qed.

Lemma wht_b_box B x0 x1 x2 x3 : in_box B x0 -> in_box B x1 -> in_box B x2 -> in_box B x3 ->
  forallQ (in_box (4 * B)) (wht_b (x0, x1, x2, x3)).
Proof. unfold in_box, wht_b, forallQ. cbv zeta. lia. Qed.

Lemma iwht_fits16_box m : forallM (in_box kWhtBox) m -> iwht_fits16 m.
Proof.
  destruct m as [[[[[[a0 a1] a2] a3] [[[b0 b1] b2] b3]] [[[c0 c1] c2] c3]] [[[d0 d1] d2] d3]].
  unfold kWhtBox. cbn [forallM forallQ].
  intros ((A0 & A1 & A2 & A3) & (B0 & B1 & B2 & B3) & (C0 & C1 & C2 & C3) & (D0 & D1 & D2 & D3)).
  unfold iwht_fits16. cbn [transpose mapM].
  pose proof (wht_b_box _ _ _ _ _ A0 B0 C0 D0) as K0.
  pose proof (wht_b_box _ _ _ _ _ A1 B1 C1 D1) as K1.
  pose proof (wht_b_box _ _ _ _ _ A2 B2 C2 D2) as K2.
  pose proof (wht_b_box _ _ _ _ _ A3 B3 C3 D3) as K3.
  destruct (wht_b (a0, b0, c0, d0)) as [[[u0 u1] u2] u3].
  destruct (wht_b (a1, b1, c1, d1)) as [[[v0 v1] v2] v3].
  destruct (wht_b (a2, b2, c2, d2)) as [[[w0 w1] w2] w3].
  destruct (wht_b (a3, b3, c3, d3)) as [[[z0 z1] z2] z3].
  cbn [forallQ transpose mapM forallM bias0] in *.
  unfold in_box, wht_b, int16 in *. cbv zeta. cbn [forallQ]. lia.
Qed.

Theorem lane16_wht_eq : forall coeffs, in_range_wht coeffs -> lane16_wht coeffs = transform_wht coeffs.
Proof.
  intros coeffs Hr. unfold lane16_wht, transform_wht.
  destruct (blk16_cases coeffs) as [[c Hc]|Hc]; rewrite Hc; [|reflexivity]. cbn [bind]. do 2 f_equal.
  assert (Hbox : forallM (in_box kWhtBox) c) by (apply (blk16_Forall _ _ _ Hc); exact Hr).
  apply l_iwht_core_eq; [|apply iwht_fits16_box, Hbox].
  apply (forallM_impl (in_box kWhtBox) int16); [|exact Hbox].
  unfold in_box, kWhtBox, int16. intros x Hx. lia.
Qed.

Example lane16_wht_eq_applies :
  in_range_wht [2047; -2047; 5; 0; 1; 2; 3; 4; -2047; 2047; 100; -100; 7; 8; 9; 2047] /\
  lane16_wht (repeat 2047 16) = Ok [4094; 0; 0; 0; 0; 0; 0; 0; 0; 0; 0; 0; 0; 0; 0; 0].
Proof. split; [unfold in_range_wht, kWhtBox; forall_lia|vm_compute; reflexivity]. Qed.

(** At |c| = 2048 the sum of sixteen coefficients plus the rounding 3 is 32771:
    the lane wraps, the block DC comes out as -4096 instead of 4096. *)
Theorem lane16_wht_differs_refuted : exists coeffs,
  length coeffs = 16%nat /\ Forall (fun c => - (kWhtBox + 1) <= c <= kWhtBox + 1) coeffs /\
  lane16_wht coeffs = Ok [-4096; 0; 0; 0; 0; 0; 0; 0; 0; 0; 0; 0; 0; 0; 0; 0] /\
  transform_wht coeffs = Ok [4096; 0; 0; 0; 0; 0; 0; 0; 0; 0; 0; 0; 0; 0; 0; 0].
Proof.
  exists (repeat 2048 16). split; [reflexivity|].
  split; [unfold kWhtBox; cbn [repeat]; forall_lia|]. split; vm_compute; reflexivity.
Qed.

(** ** Forward WHT *)
Lemma mapM_ext_rows (f g : Q -> Q) (P : Z -> Prop) m :
  (forall q, forallQ P q -> f q = g q) -> forallM P m -> mapM f m = mapM g m.
Proof.
  intros Hfg. destruct m as [[[r0 r1] r2] r3]. cbn [forallM mapM]. intros (H0 & H1 & H2 & H3).
  now rewrite !Hfg by assumption.
Qed.

Lemma l_fwht_core_eq m : forallM int16 m -> fwht_fits16 m -> l_fwht_core m = fwht_core m.
Proof.
  intros Hm Hf. unfold l_fwht_core, fwht_core. f_equal.
  rewrite (mapM_ext_rows l_fwht_b (fun q => mapQ wrap16 (fwht_b q)) int16 m (lin_int16 _ _ l_fwht_b_lin) Hm).
  rewrite <- (mapM_mapM (mapQ wrap16) fwht_b), transpose_mapM_mapQ.
  unfold fwht_fits16 in Hf.
  destruct (transpose (mapM fwht_b m)) as [[[r0 r1] r2] r3].
  cbn [mapM forallM] in *. destruct Hf as (F0 & F1 & F2 & F3).
  rewrite (lin_shift _ _ l_fwht_b_lin r0 1), (lin_shift _ _ l_fwht_b_lin r1 1),
          (lin_shift _ _ l_fwht_b_lin r2 1), (lin_shift _ _ l_fwht_b_lin r3 1) by (assumption || lia).
  reflexivity.
Qed.

Lemma fwht_b_box B x0 x1 x2 x3 : in_box B x0 -> in_box B x1 -> in_box B x2 -> in_box B x3 ->
  forallQ (in_box (4 * B)) (fwht_b (x0, x1, x2, x3)).
Proof. unfold in_box, fwht_b, forallQ. cbv zeta. lia. Qed.

Lemma fwht_fits16_box m : forallM (in_box kFwhtBox) m -> fwht_fits16 m.
Proof.
  destruct m as [[[[[[a0 a1] a2] a3] [[[b0 b1] b2] b3]] [[[c0 c1] c2] c3]] [[[d0 d1] d2] d3]].
  unfold kFwhtBox. cbn [forallM forallQ].
  intros ((A0 & A1 & A2 & A3) & (B0 & B1 & B2 & B3) & (C0 & C1 & C2 & C3) & (D0 & D1 & D2 & D3)).
  unfold fwht_fits16. cbn [mapM].
  pose proof (fwht_b_box _ _ _ _ _ A0 A1 A2 A3) as K0.
  pose proof (fwht_b_box _ _ _ _ _ B0 B1 B2 B3) as K1.
  pose proof (fwht_b_box _ _ _ _ _ C0 C1 C2 C3) as K2.
  pose proof (fwht_b_box _ _ _ _ _ D0 D1 D2 D3) as K3.
  destruct (fwht_b (a0, a1, a2, a3)) as [[[u0 u1] u2] u3].
  destruct (fwht_b (b0, b1, b2, b3)) as [[[v0 v1] v2] v3].
  destruct (fwht_b (c0, c1, c2, c3)) as [[[w0 w1] w2] w3].
  destruct (fwht_b (d0, d1, d2, d3)) as [[[z0 z1] z2] z3].
  cbn [forallQ transpose mapM forallM] in *.
  unfold in_box, fwht_b, int16 in *. cbv zeta. cbn [forallQ]. lia.
Qed.

Theorem lane16_fwht_eq : forall coeffs, in_range_fwht coeffs -> lane16_fwht coeffs = ftransform_wht coeffs.
Proof.
  intros coeffs Hr. unfold lane16_fwht, ftransform_wht.
  destruct (blk16_cases coeffs) as [[c Hc]|Hc]; rewrite Hc; [|reflexivity]. cbn [bind]. do 2 f_equal.
  assert (Hbox : forallM (in_box kFwhtBox) c) by (apply (blk16_Forall _ _ _ Hc); exact Hr).
  apply l_fwht_core_eq; [|apply fwht_fits16_box, Hbox].
  apply (forallM_impl (in_box kFwhtBox) int16); [|exact Hbox].
  unfold in_box, kFwhtBox, int16. intros x Hx. lia.
Qed.

Theorem lane16_fwht_differs_refuted : exists coeffs,
  length coeffs = 16%nat /\ Forall (fun c => - (kFwhtBox + 1) <= c <= kFwhtBox + 1) coeffs /\
  lane16_fwht coeffs = Ok [-16384; 0; 0; 0; 0; 0; 0; 0; 0; 0; 0; 0; 0; 0; 0; 0] /\
  ftransform_wht coeffs = Ok [16384; 0; 0; 0; 0; 0; 0; 0; 0; 0; 0; 0; 0; 0; 0; 0].
Proof.
  exists (repeat 2048 16). split; [reflexivity|].
  split; [unfold kFwhtBox; cbn [repeat]; forall_lia|]. split; vm_compute; reflexivity.
Qed.

(** * TrueMotion prediction: byte inputs cannot wrap a 16-bit lane. *)
Theorem lane16_tm_eq : forall top left tl, byte top -> byte left -> byte tl ->
  l_tm_sample top left tl = tm_sample top left tl.
Proof.
  unfold byte, l_tm_sample, tm_sample, add16, sub16. intros top left tl Ht Hl Htl.
  rewrite (wrap16_id (top - tl)) by (unfold int16; lia).
  rewrite wrap16_id by (unfold int16; lia). f_equal. lia.
Qed.

(** * Green transforms: byte-wise PADDB/PSUBB vs the packed uint32 arithmetic. *)
Theorem lane16_add_green_eq : forall a r g b, byte a -> byte r -> byte g -> byte b ->
  add_green_lanes a r g b = add_green_go (argb_of a r g b).
Proof.
  unfold byte, add_green_lanes, add_green_go, argb_of, and_00ff00ff, and_ff00ff00. intros a r g b Ha Hr Hg Hb. cbv zeta.
  set (p := ((a * 256 + r) * 256 + g) * 256 + b).
  assert (E0 : p mod 256 = b) by (subst p; lia).
  assert (E1 : (p / 256) mod 256 = g) by (subst p; lia).
  assert (E2 : (p / 65536) mod 256 = r) by (subst p; lia).
  assert (E3 : (p / 16777216) mod 256 = a) by (subst p; lia).
  rewrite E0, E1, E2, E3.
  set (rb := (b + r * 65536 + g * 65537) mod 4294967296).
  assert (F : rb = (r + g) * 65536 + (b + g)) by (subst rb; lia).
  assert (G0 : rb mod 256 = (b + g) mod 256) by (rewrite F; lia).
  assert (G2 : (rb / 65536) mod 256 = (r + g) mod 256) by (rewrite F; lia).
  rewrite G0, G2. lia.
Qed.

Theorem lane16_sub_green_eq : forall a r g b, byte a -> byte r -> byte g -> byte b ->
  sub_green_lanes a r g b = sub_green_go (argb_of a r g b).
Proof.
  unfold byte, sub_green_lanes, sub_green_go, argb_of, and_ff00ff00. intros a r g b Ha Hr Hg Hb. cbv zeta.
  set (p := ((a * 256 + r) * 256 + g) * 256 + b).
  assert (E0 : p mod 256 = b) by (subst p; lia).
  assert (E1 : (p / 256) mod 256 = g) by (subst p; lia).
  assert (E2 : (p / 65536) mod 256 = r) by (subst p; lia).
  assert (E3 : (p / 16777216) mod 256 = a) by (subst p; lia).
  rewrite E0, E1, E2, E3.
  assert (G0 : ((b - g) mod 4294967296) mod 256 = (b - g) mod 256) by lia.
  assert (G2 : ((r - g) mod 4294967296) mod 256 = (r - g) mod 256) by lia.
  rewrite G0, G2. lia.
Qed.

(** * SSE: 16-bit differences, 32-bit accumulation (up to 16x16 samples). *)
Lemma l_sq_eq x y : byte x -> byte y -> l_sq x y = (x - y) * (x - y) /\ 0 <= (x - y) * (x - y) <= 65025.
Proof.
  unfold byte, l_sq, sub16. intros Hx Hy. rewrite wrap16_id by (unfold int16; lia). split; [reflexivity|].
  set (d := x - y). assert (Hd : -255 <= d <= 255) by (subst d; lia). clearbody d.
  pose proof (Z.square_nonneg d) as S0.
  pose proof (Z.mul_nonneg_nonneg (255 - d) (255 + d) ltac:(lia) ltac:(lia)) as S1.
  replace ((255 - d) * (255 + d)) with (65025 - d * d) in S1 by ring. lia.
Qed.

Lemma l_sse_list_eq_aux l :
  Forall (fun xy => byte (fst xy) /\ byte (snd xy)) l -> (length l <= 1024)%nat ->
  fold_right (fun v acc => wrap32 (v + acc)) 0 (map (fun xy => l_sq (fst xy) (snd xy)) l)
  = fold_right Z.add 0 (map (fun xy => (fst xy - snd xy) * (fst xy - snd xy)) l)
  /\ 0 <= fold_right Z.add 0 (map (fun xy => (fst xy - snd xy) * (fst xy - snd xy)) l) <= 65025 * Z.of_nat (length l).
Proof.
  induction l as [|[x y] l IH]; intros HF HL; [cbn; lia|].
  inversion HF as [|? ? [Hx Hy] HF']; subst. cbn [length] in HL.
  destruct (IH HF' ltac:(lia)) as [IH1 IH2]. cbn [map fold_right fst snd] in *.
  destruct (l_sq_eq x y Hx Hy) as [E B]. rewrite IH1, E. cbn [length].
  split; [|lia]. unfold wrap32. lia.
Qed.

Theorem lane16_sse_eq : forall a b, Forall byte a -> Forall byte b -> (length a <= 1024)%nat ->
  l_sse_list a b = sse_list a b.
Proof.
  intros a b Ha Hb HL. unfold l_sse_list, sse_list.
  apply l_sse_list_eq_aux.
  - clear HL. revert b Hb. induction Ha as [|x a Hx Ha IH]; intros b Hb; [constructor|].
    destruct Hb as [|y b Hy Hb]; [constructor|]. cbn [combine]. constructor; [cbn; auto|]. apply IH, Hb.
  - rewrite combine_length. lia.
Qed.

(** * Simple loop filter: one column. *)
Lemma clamp_minmax lo hi x : lo <= hi -> Z.max lo (Z.min hi x) = clampz lo hi x.
Proof. unfold clampz. intros H. destruct (x <? lo) eqn:E1; destruct (hi <? x) eqn:E2; lia. Qed.

Lemma clampz_range lo hi x : lo <= hi -> lo <= clampz lo hi x <= hi.
Proof. unfold clampz. intros H. destruct (x <? lo) eqn:E1; [lia|]. destruct (hi <? x) eqn:E2; lia. Qed.

Theorem lane16_simple_filter_eq : forall p1 p0 q0 q1 thresh,
  byte p1 -> byte p0 -> byte q0 -> byte q1 -> 0 <= thresh <= 32767 ->
  simple_filter_lane p1 p0 q0 q1 thresh = simple_filter_go p1 p0 q0 q1 thresh.
Proof.
  unfold byte. intros p1 p0 q0 q1 thresh H1 H0 G0 G1 HT.
  unfold simple_filter_lane, simple_filter_go, max16, min16. cbv zeta.
  assert (W : forall x, -32768 <= x <= 32767 -> wrap16 x = x) by (intros; apply wrap16_id; assumption).
  unfold sub16, add16, shl16. change (2 ^ 2) with 4.
  rewrite (W (p0 - q0)), (W (q0 - p0)), (W (p1 - q1)), (W (q1 - p1)) by lia.
  replace (Z.max (p0 - q0) (q0 - p0)) with (Z.abs (p0 - q0)) by lia.
  replace (Z.max (p1 - q1) (q1 - p1)) with (Z.abs (p1 - q1)) by lia.
  rewrite (W (Z.abs (p0 - q0) * 4)) by lia.
  rewrite (W (Z.abs (p0 - q0) * 4 + Z.abs (p1 - q1))) by lia.
  rewrite (clamp_minmax (-128) 127) by lia.
  set (s := clampz (-128) 127 (p1 - q1)).
  assert (Hs : -128 <= s <= 127) by (subst s; apply clampz_range; lia).
  rewrite (W (q0 - p0 + (q0 - p0))), (W (q0 - p0 + (q0 - p0) + (q0 - p0))) by lia.
  rewrite (W (q0 - p0 + (q0 - p0) + (q0 - p0) + s)) by lia.
  replace (q0 - p0 + (q0 - p0) + (q0 - p0) + s) with (3 * (q0 - p0) + s) by lia.
  set (a := 3 * (q0 - p0) + s).
  assert (Ha : -893 <= a <= 892) by (subst a; lia).
  rewrite (W (a + 4)), (W (a + 3)) by lia.
  unfold sra16. change (2 ^ 3) with 8.
  rewrite !(clamp_minmax (-16) 15) by lia.
  set (a1 := clampz (-16) 15 ((a + 4) / 8)). set (a2 := clampz (-16) 15 ((a + 3) / 8)).
  assert (Ha1 : -16 <= a1 <= 15) by (subst a1; apply clampz_range; lia).
  assert (Ha2 : -16 <= a2 <= 15) by (subst a2; apply clampz_range; lia).
  set (sum := Z.abs (p0 - q0) * 4 + Z.abs (p1 - q1)).
  assert (Hsum : 0 <= sum <= 1275) by (subst sum; lia).
  assert (Hm : (subus16 sum (wrap16 (2 * thresh + 1)) =? 0) = (4 * Z.abs (p0 - q0) + Z.abs (p1 - q1) <=? 2 * thresh + 1)).
  { unfold subus16, wrap16. fold sum. replace (4 * Z.abs (p0 - q0) + Z.abs (p1 - q1)) with sum by (subst sum; lia).
    destruct (sum <=? 2 * thresh + 1) eqn:E; lia. }
  rewrite Hm. destruct (4 * Z.abs (p0 - q0) + Z.abs (p1 - q1) <=? 2 * thresh + 1).
  - rewrite (W (p0 + a2)), (W (q0 - a1)) by lia. reflexivity.
  - rewrite (W (p0 + 0)), (W (q0 - 0)) by lia. unfold clip8.
    destruct (p0 + 0 <? 0) eqn:E1; [lia|]. destruct (255 <? p0 + 0) eqn:E2; [lia|].
    destruct (q0 - 0 <? 0) eqn:E3; [lia|]. destruct (255 <? q0 - 0) eqn:E4; [lia|]. f_equal; lia.
Qed.

(** The filter models are exercised by inputs on which the filter fires. *)
Example simple_filter_fires : simple_filter_go 100 104 120 118 63 = (108, 116) /\ simple_filter_lane 100 104 120 118 63 = (108, 116).
Proof. split; vm_compute; reflexivity. Qed.

(** * Forward DCT: 32-bit lanes never wrap and no pack saturates on byte input. *)
Lemma wrap32_id x : -2147483648 <= x <= 2147483647 -> wrap32 x = x.
Proof. unfold wrap32. lia. Qed.

Lemma sat16_id x : int16 x -> sat16 x = x.
Proof. unfold sat16, clampz, int16. intros H. destruct (x <? -32768) eqn:E1; [lia|]. destruct (32767 <? x) eqn:E2; lia. Qed.

Lemma l_frow_spec d0 d1 d2 d3 :
  in_box 255 d0 -> in_box 255 d1 -> in_box 255 d2 -> in_box 255 d3 ->
  l_frow (d0, d1, d2, d3) = frow (d0, d1, d2, d3) /\ forallQ (in_box 8160) (frow (d0, d1, d2, d3)).
Proof.
  unfold in_box. intros H0 H1 H2 H3. unfold l_frow, frow, pmadd, sra32. cbv zeta.
  change (2 ^ 9) with 512.
  rewrite (wrap32_id (d0 + d3)), (wrap32_id (d1 + d2)), (wrap32_id (d1 - d2)), (wrap32_id (d0 - d3)) by lia.
  rewrite (sat16_id (d1 - d2)), (sat16_id (d0 - d3)) by (unfold int16; lia).
  rewrite (wrap32_id (d0 + d3 + (d1 + d2))), (wrap32_id (d0 + d3 - (d1 + d2))) by lia.
  rewrite (wrap32_id ((d0 + d3 + (d1 + d2)) * 8)), (wrap32_id ((d0 + d3 - (d1 + d2)) * 8)) by lia.
  rewrite (wrap32_id ((d1 - d2) * 2217 + (d0 - d3) * 5352)), (wrap32_id ((d0 - d3) * 2217 + (d1 - d2) * -5352)) by lia.
  rewrite (wrap32_id ((d1 - d2) * 2217 + (d0 - d3) * 5352 + 1812)), (wrap32_id ((d0 - d3) * 2217 + (d1 - d2) * -5352 + 937)) by lia.
  replace ((d0 - d3) * 2217 + (d1 - d2) * -5352 + 937) with ((d0 - d3) * 2217 - (d1 - d2) * 5352 + 937) by lia.
  split; [reflexivity|]. cbn [forallQ]. unfold in_box. repeat split; lia.
Qed.

Lemma l_fcol_spec t0 t1 t2 t3 :
  in_box 8160 t0 -> in_box 8160 t1 -> in_box 8160 t2 -> in_box 8160 t3 ->
  l_fcol (t0, t1, t2, t3) = fcol (t0, t1, t2, t3) /\ forallQ (in_box 2040) (fcol (t0, t1, t2, t3)).
Proof.
  unfold in_box. intros H0 H1 H2 H3. unfold l_fcol, fcol, pmadd, sra32. cbv zeta.
  change (2 ^ 4) with 16. change (2 ^ 16) with 65536.
  rewrite (wrap32_id (t0 + t3)), (wrap32_id (t1 + t2)), (wrap32_id (t1 - t2)), (wrap32_id (t0 - t3)) by lia.
  rewrite (sat16_id (t1 - t2)), (sat16_id (t0 - t3)) by (unfold int16; lia).
  rewrite (wrap32_id (t0 + t3 + (t1 + t2))), (wrap32_id (t0 + t3 - (t1 + t2))) by lia.
  rewrite (wrap32_id (t0 + t3 + (t1 + t2) + 7)), (wrap32_id (t0 + t3 - (t1 + t2) + 7)) by lia.
  rewrite (wrap32_id ((t1 - t2) * 2217 + (t0 - t3) * 5352)), (wrap32_id ((t0 - t3) * 2217 + (t1 - t2) * -5352)) by lia.
  rewrite (wrap32_id ((t1 - t2) * 2217 + (t0 - t3) * 5352 + 12000)), (wrap32_id ((t0 - t3) * 2217 + (t1 - t2) * -5352 + 51000)) by lia.
  replace ((t0 - t3) * 2217 + (t1 - t2) * -5352 + 51000) with ((t0 - t3) * 2217 - (t1 - t2) * 5352 + 51000) by lia.
  set (o0 := (t0 + t3 + (t1 + t2) + 7) / 16).
  set (o2 := (t0 + t3 - (t1 + t2) + 7) / 16).
  set (e := if t0 - t3 =? 0 then 0 else 1).
  assert (He : 0 <= e <= 1) by (subst e; destruct (t0 - t3 =? 0); lia).
  set (o1 := ((t1 - t2) * 2217 + (t0 - t3) * 5352 + 12000) / 65536).
  set (o3 := ((t0 - t3) * 2217 - (t1 - t2) * 5352 + 51000) / 65536).
  assert (B0 : -2040 <= o0 <= 2040) by (subst o0; lia).
  assert (B2 : -2040 <= o2 <= 2040) by (subst o2; lia).
  assert (B1 : -2039 <= o1 <= 2039) by (subst o1; lia).
  assert (B3 : -2040 <= o3 <= 2040) by (subst o3; lia).
  rewrite (wrap32_id (o1 + e)) by lia.
  rewrite (sat16_id o0), (sat16_id (o1 + e)), (sat16_id o2), (sat16_id o3) by (unfold int16; lia).
  rewrite (wrap16_id o0), (wrap16_id (o1 + e)), (wrap16_id o2), (wrap16_id o3) by (unfold int16; lia).
  split; [reflexivity|]. cbn [forallQ]. unfold in_box. repeat split; lia.
Qed.

Lemma l_fdct_core_eq d : forallM (in_box 255) d ->
  l_fdct_core d = fdct_core d /\ forallM (in_box 2040) (fdct_core d).
Proof.
  destruct d as [[[[[[a0 a1] a2] a3] [[[b0 b1] b2] b3]] [[[c0 c1] c2] c3]] [[[d0 d1] d2] d3]].
  cbn [forallM forallQ].
  intros ((A0 & A1 & A2 & A3) & (B0 & B1 & B2 & B3) & (C0 & C1 & C2 & C3) & (D0 & D1 & D2 & D3)).
  unfold l_fdct_core, fdct_core. cbn [mapM].
  destruct (l_frow_spec _ _ _ _ A0 A1 A2 A3) as [-> Ka].
  destruct (l_frow_spec _ _ _ _ B0 B1 B2 B3) as [-> Kb].
  destruct (l_frow_spec _ _ _ _ C0 C1 C2 C3) as [-> Kc].
  destruct (l_frow_spec _ _ _ _ D0 D1 D2 D3) as [-> Kd].
  destruct (frow (a0, a1, a2, a3)) as [[[u0 u1] u2] u3].
  destruct (frow (b0, b1, b2, b3)) as [[[v0 v1] v2] v3].
  destruct (frow (c0, c1, c2, c3)) as [[[w0 w1] w2] w3].
  destruct (frow (d0, d1, d2, d3)) as [[[z0 z1] z2] z3].
  cbn [forallQ transpose mapM] in *.
  destruct Ka as (? & ? & ? & ?), Kb as (? & ? & ? & ?), Kc as (? & ? & ? & ?), Kd as (? & ? & ? & ?).
  destruct (l_fcol_spec u0 v0 w0 z0) as [-> L0]; try assumption.
  destruct (l_fcol_spec u1 v1 w1 z1) as [-> L1]; try assumption.
  destruct (l_fcol_spec u2 v2 w2 z2) as [-> L2]; try assumption.
  destruct (l_fcol_spec u3 v3 w3 z3) as [-> L3]; try assumption.
  split; [reflexivity|].
  destruct (fcol (u0, v0, w0, z0)) as [[[p0 p1] p2] p3].
  destruct (fcol (u1, v1, w1, z1)) as [[[q0 q1] q2] q3].
  destruct (fcol (u2, v2, w2, z2)) as [[[r0 r1] r2] r3].
  destruct (fcol (u3, v3, w3, z3)) as [[[s0 s1] s2] s3].
  cbn [forallQ forallM transpose] in *. tauto.
Qed.

Lemma diff_box s r : forallM byte s -> forallM byte r ->
  map2M sub16 s r = map2M Z.sub s r /\ forallM (in_box 255) (map2M Z.sub s r).
Proof.
  destruct s as [[[[[[a0 a1] a2] a3] [[[b0 b1] b2] b3]] [[[c0 c1] c2] c3]] [[[d0 d1] d2] d3]].
  destruct r as [[[[[[e0 e1] e2] e3] [[[f0 f1] f2] f3]] [[[g0 g1] g2] g3]] [[[h0 h1] h2] h3]].
  cbn [forallM forallQ map2M map2Q]. unfold byte, in_box, sub16.
  intros ((A0 & A1 & A2 & A3) & (B0 & B1 & B2 & B3) & (C0 & C1 & C2 & C3) & (D0 & D1 & D2 & D3)).
  intros ((E0 & E1 & E2 & E3) & (F0 & F1 & F2 & F3) & (G0 & G1 & G2 & G3) & (H0 & H1 & H2 & H3)).
  rewrite !wrap16_id by (unfold int16; lia). split; [reflexivity|]. repeat split; lia.
Qed.

(** [lane32_fdct_eq]: on all byte inputs. *)
Theorem lane32_fdct_eq : forall src ref, Forall byte src -> Forall byte ref ->
  lane32_fdct src ref = ftransform src ref.
Proof.
  intros src ref Hs Hr. unfold lane32_fdct, ftransform.
  destruct (blk16_cases src) as [[s Es]|Es]; rewrite Es; [|reflexivity].
  destruct (blk16_cases ref) as [[r Er]|Er]; rewrite Er; [|reflexivity]. cbn [bind]. do 2 f_equal.
  destruct (diff_box s r (blk16_Forall _ _ _ Es Hs) (blk16_Forall _ _ _ Er Hr)) as [-> Hd].
  apply l_fdct_core_eq, Hd.
Qed.

(** Every forward-DCT coefficient of byte blocks is within +-2040 ... *)
Theorem ftransform_bound : forall src ref s r, blk16 src = Ok s -> blk16 ref = Ok r ->
  Forall byte src -> Forall byte ref ->
  forallM (in_box 2040) (fdct_core (map2M Z.sub s r)).
Proof.
  intros src ref s r Es Er Hs Hr.
  destruct (diff_box s r (blk16_Forall _ _ _ Es Hs) (blk16_Forall _ _ _ Er Hr)) as [_ Hd].
  apply l_fdct_core_eq, Hd.
Qed.

(** ... hence the forward WHT, whose input in the encoder is the DC of sixteen
    forward DCTs, never leaves its no-wrap range on encoder-reachable input. *)
Theorem lane16_fwht_eq_on_encoder_input : forall dcs,
  Forall (fun dc => exists src ref s r, blk16 src = Ok s /\ blk16 ref = Ok r /\ Forall byte src /\ Forall byte ref /\
                    dc = nth 0 (listM (fdct_core (map2M Z.sub s r))) 0) dcs ->
  lane16_fwht dcs = ftransform_wht dcs.
Proof.
  intros dcs H. apply lane16_fwht_eq. unfold in_range_fwht, kFwhtBox.
  eapply Forall_impl; [|exact H]. cbn beta.
  intros dc (src & ref & s & r & Es & Er & Hs & Hr & ->).
  pose proof (ftransform_bound src ref s r Es Er Hs Hr) as B.
  destruct (fdct_core (map2M Z.sub s r)) as [[[[[[p0 p1] p2] p3] q] r'] z].
  cbn [forallM forallQ listM listQ app nth] in *. unfold in_box in B. lia.
Qed.

Example ftransform_example :
  ftransform (repeat 255 16) (repeat 0 16) = Ok [2040; 1; 0; 0; 0; 0; 0; 0; 0; 0; 0; 0; 0; 0; 0; 0] /\
  lane32_fdct [255; 0; 255; 0; 0; 255; 0; 255; 255; 0; 255; 0; 0; 255; 0; 255] (repeat 128 16)
  = ftransform [255; 0; 255; 0; 0; 255; 0; 255; 255; 0; 255; 0; 0; 255; 0; 255] (repeat 128 16).
Proof. split; vm_compute; reflexivity. Qed.

(** * YUV -> RGB: equal for all byte triples. *)
Lemma pack_clip_yuv x : -100000 <= x <= 100000 -> pack_u8 (x / 64) = clip_yuv x.
Proof.
  intros H. unfold pack_u8, clip_yuv, sat16, clampz, clip8.
  destruct (x / 64 <? -32768) eqn:E1; [lia|]. destruct (32767 <? x / 64) eqn:E2; [lia|].
  destruct (x <? 0) eqn:E3.
  - destruct (x / 64 <? 0) eqn:E4; lia.
  - destruct (16383 <? x) eqn:E5.
    + destruct (x / 64 <? 0) eqn:E4; [lia|]. destruct (255 <? x / 64) eqn:E6; lia.
    + reflexivity.
Qed.

Theorem lane32_yuv_eq : forall y u v, byte y -> byte u -> byte v ->
  l_yuv_r y v = yuv_r y v /\ l_yuv_g y u v = yuv_g y u v /\ l_yuv_b y u = yuv_b y u.
Proof.
  unfold byte. intros y u v Hy Hu Hv.
  unfold l_yuv_r, l_yuv_g, l_yuv_b, yuv_r, yuv_g, yuv_b, pmadd, sra32.
  change (2 ^ 8) with 256. change (2 ^ 7) with 128. change (2 ^ 6) with 64.
  rewrite !Z.mul_0_l, !Z.add_0_r.
  rewrite (wrap32_id (y * 19077)), (wrap32_id (v * 26149)), (wrap32_id (u * 6419)),
          (wrap32_id (v * 13320)), (wrap32_id (u * 16525)) by lia.
  replace (u * 16525 / 128) with (u * 33050 / 256) by lia.
  set (ys := y * 19077 / 256). set (rv := v * 26149 / 256). set (gu := u * 6419 / 256).
  set (gv := v * 13320 / 256). set (bu := u * 33050 / 256).
  assert (0 <= ys <= 19003) by (subst ys; lia). assert (0 <= rv <= 26047) by (subst rv; lia).
  assert (0 <= gu <= 6394) by (subst gu; lia). assert (0 <= gv <= 13268) by (subst gv; lia).
  assert (0 <= bu <= 32921) by (subst bu; lia).
  rewrite (wrap32_id (ys + rv)), (wrap32_id (ys + rv - 14234)) by lia.
  rewrite (wrap32_id (ys - gu)), (wrap32_id (ys - gu - gv)), (wrap32_id (ys - gu - gv + 8708)) by lia.
  rewrite (wrap32_id (ys + bu)), (wrap32_id (ys + bu - 17685)) by lia.
  repeat split; apply pack_clip_yuv; lia.
Qed.

Example yuv_example : yuv_r 235 240 = 255 /\ yuv_g 16 128 128 = 0 /\ yuv_b 128 50 = 0 /\ yuv_g 180 100 90 = 233.
Proof. repeat split; vm_compute; reflexivity. Qed.

(** * Hadamard distortion: byte blocks keep every lane within +-4080. *)
Lemma l_hadamard_eq m : forallM byte m -> l_hadamard m = hadamard m /\ forallM (in_box 4080) (hadamard m).
Proof.
  intros Hm. unfold l_hadamard, hadamard.
  assert (Hi : forallM int16 m) by (apply (forallM_impl byte int16); [unfold byte, int16; intros; lia|exact Hm]).
  rewrite (mapM_ext_rows l_fwht_b (fun q => mapQ wrap16 (fwht_b q)) int16 m (lin_int16 _ _ l_fwht_b_lin) Hi).
  destruct m as [[[[[[a0 a1] a2] a3] [[[b0 b1] b2] b3]] [[[c0 c1] c2] c3]] [[[d0 d1] d2] d3]].
  cbn [forallM forallQ] in Hm. unfold byte in Hm.
  destruct Hm as ((A0 & A1 & A2 & A3) & (B0 & B1 & B2 & B3) & (C0 & C1 & C2 & C3) & (D0 & D1 & D2 & D3)).
  cbn [mapM].
  assert (K : forall x0 x1 x2 x3, 0 <= x0 <= 255 -> 0 <= x1 <= 255 -> 0 <= x2 <= 255 -> 0 <= x3 <= 255 ->
     mapQ wrap16 (fwht_b (x0, x1, x2, x3)) = fwht_b (x0, x1, x2, x3) /\ forallQ (in_box 1020) (fwht_b (x0, x1, x2, x3))).
  { intros. unfold fwht_b, mapQ, forallQ, in_box. cbv zeta. rewrite !wrap16_id by (unfold int16; lia). split; [reflexivity|lia]. }
  destruct (K _ _ _ _ A0 A1 A2 A3) as [-> Ka], (K _ _ _ _ B0 B1 B2 B3) as [-> Kb],
           (K _ _ _ _ C0 C1 C2 C3) as [-> Kc], (K _ _ _ _ D0 D1 D2 D3) as [-> Kd].
  destruct (fwht_b (a0, a1, a2, a3)) as [[[u0 u1] u2] u3].
  destruct (fwht_b (b0, b1, b2, b3)) as [[[v0 v1] v2] v3].
  destruct (fwht_b (c0, c1, c2, c3)) as [[[w0 w1] w2] w3].
  destruct (fwht_b (d0, d1, d2, d3)) as [[[z0 z1] z2] z3].
  cbn [forallQ transpose mapM] in *. unfold in_box in *.
  assert (L : forall x0 x1 x2 x3, -1020 <= x0 <= 1020 -> -1020 <= x1 <= 1020 -> -1020 <= x2 <= 1020 -> -1020 <= x3 <= 1020 ->
     l_fwht_b (x0, x1, x2, x3) = fwht_b (x0, x1, x2, x3) /\ forallQ (in_box 4080) (fwht_b (x0, x1, x2, x3))).
  { intros. rewrite (lin_int16 _ _ l_fwht_b_lin) by (cbn [forallQ]; unfold int16; lia).
    unfold fwht_b, mapQ, forallQ, in_box. cbv zeta. rewrite !wrap16_id by (unfold int16; lia). split; [reflexivity|lia]. }
  destruct Ka as (? & ? & ? & ?), Kb as (? & ? & ? & ?), Kc as (? & ? & ? & ?), Kd as (? & ? & ? & ?).
  destruct (L u0 v0 w0 z0) as [-> L0]; try assumption.
  destruct (L u1 v1 w1 z1) as [-> L1]; try assumption.
  destruct (L u2 v2 w2 z2) as [-> L2]; try assumption.
  destruct (L u3 v3 w3 z3) as [-> L3]; try assumption.
  split; [reflexivity|].
  destruct (fwht_b (u0, v0, w0, z0)) as [[[p0 p1] p2] p3].
  destruct (fwht_b (u1, v1, w1, z1)) as [[[q0 q1] q2] q3].
  destruct (fwht_b (u2, v2, w2, z2)) as [[[r0 r1] r2] r3].
  destruct (fwht_b (u3, v3, w3, z3)) as [[[s0 s1] s2] s3].
  cbn [forallQ forallM transpose] in *. unfold in_box in *. tauto.
Qed.

Lemma l_wsum_eq w h : Forall (fun x => 0 <= x <= 255) w -> Forall (in_box 4080) h -> (length h <= 64)%nat ->
  l_wsum w h = wsum w h /\ 0 <= wsum w h <= 1040400 * Z.of_nat (length h).
Proof.
  unfold l_wsum, wsum. intros Hw. revert h. induction Hw as [|x w Hx Hw IH]; intros h Hh HL; [cbn [combine map fold_right]; lia|].
  destruct Hh as [|y h Hy Hh]; [cbn [combine map fold_right length]; lia|]. cbn [length] in HL.
  destruct (IH h Hh ltac:(lia)) as [E B]. cbn [combine map fold_right fst snd length]. rewrite E.
  unfold in_box in Hy. unfold abs16. rewrite (wrap16_id (Z.abs y)) by (unfold int16; lia).
  assert (0 <= x * Z.abs y <= 1040400) by nia.
  split; [unfold wrap32; lia|lia].
Qed.

Lemma forallM_listM P m : forallM P m -> Forall P (listM m).
Proof.
  destruct m as [[[[[[a0 a1] a2] a3] [[[b0 b1] b2] b3]] [[[c0 c1] c2] c3]] [[[d0 d1] d2] d3]].
  cbn [forallM forallQ listM listQ app].
  intros ((A0 & A1 & A2 & A3) & (B0 & B1 & B2 & B3) & (C0 & C1 & C2 & C3) & (D0 & D1 & D2 & D3)).
  repeat constructor; assumption.
Qed.

Lemma length_listM m : length (listM m) = 16%nat.
Proof. destruct m as [[[[[[a0 a1] a2] a3] [[[b0 b1] b2] b3]] [[[c0 c1] c2] c3]] [[[d0 d1] d2] d3]]. reflexivity. Qed.

Theorem lane16_tdisto_eq : forall w a b, Forall (fun x => 0 <= x <= 255) w -> Forall byte a -> Forall byte b ->
  l_tdisto w a b = tdisto w a b.
Proof.
  intros w a b Hw Ha Hb. unfold l_tdisto, tdisto.
  destruct (blk16_cases a) as [[x Ex]|Ex]; rewrite Ex; [|reflexivity].
  destruct (blk16_cases b) as [[y Ey]|Ey]; rewrite Ey; [|reflexivity]. cbn [bind].
  destruct (l_hadamard_eq x (blk16_Forall _ _ _ Ex Ha)) as [-> Bx].
  destruct (l_hadamard_eq y (blk16_Forall _ _ _ Ey Hb)) as [-> By].
  destruct (l_wsum_eq w (listM (hadamard x)) Hw (forallM_listM _ _ Bx)) as [-> _]; [rewrite length_listM; lia|].
  destruct (l_wsum_eq w (listM (hadamard y)) Hw (forallM_listM _ _ By)) as [-> _]; [rewrite length_listM; lia|].
  reflexivity.
Qed.

(** * AC quantisation: equal whenever the 32-bit product of the Go code does not wrap. *)
Theorem lane_quant_eq : forall x sharpen iq bias,
  -32767 <= x <= 32767 -> 0 <= sharpen -> Z.abs x + sharpen <= 32767 ->
  0 <= iq < 4294967296 -> 0 <= bias ->
  (Z.abs x + sharpen) * iq + bias < 4294967296 ->
  quant_lane x sharpen iq bias = quant_go x sharpen iq bias.
Proof.
  intros x sharpen iq bias Hx Hs Hv Hiq Hb Hp. unfold quant_lane, quant_go. cbv zeta.
  assert (Ea : (if x <? 0 then wrap16 (- x) else x) = Z.abs x).
  { destruct (Z.ltb_spec x 0) as [E|E]; [rewrite wrap16_id by (unfold int16; lia)|]; lia. }
  rewrite Ea. unfold add16. rewrite (wrap16_id (Z.abs x + sharpen)) by (unfold int16; lia).
  set (v := Z.abs x + sharpen) in *.
  replace (Z.max v 0) with v by lia.
  replace (if v <? 0 then 0 else v) with v by (destruct (Z.ltb_spec v 0); lia).
  assert (Hvi : 0 <= v * iq) by (apply Z.mul_nonneg_nonneg; lia).
  rewrite (Z.mod_small v), (Z.mod_small iq), (Z.mod_small bias) by lia.
  rewrite (Z.mod_small (v * iq + bias) 4294967296) by lia.
  rewrite (Z.mod_small (v * iq + bias) 18446744073709551616) by lia.
  set (p := (v * iq + bias) / 131072).
  assert (Hpp : 0 <= p < 32768) by (subst p; lia).
  rewrite (Z.mod_small p) by lia. rewrite (wrap32_id p) by lia.
  set (c := if 2047 <? p then 2047 else p).
  assert (Hc : 0 <= c <= 2047) by (subst c; destruct (Z.ltb_spec 2047 p); lia).
  rewrite (sat16_id c) by (unfold int16; lia).
  destruct (Z.ltb_spec x 0) as [E|E].
  - replace (-1 * c) with (- c) by lia. reflexivity.
  - rewrite wrap16_id by (unfold int16; lia). lia.
Qed.

Corollary lane_quant_eq_encoder : forall x sharpen iq bias,
  -4095 <= x <= 4095 -> 0 <= sharpen <= 255 -> 0 <= iq <= 131072 -> 0 <= bias <= 1048576 ->
  quant_lane x sharpen iq bias = quant_go x sharpen iq bias.
Proof.
  intros x sharpen iq bias Hx Hs Hiq Hb. apply lane_quant_eq; try lia.
  assert (Hv : 0 <= Z.abs x + sharpen <= 4350) by lia.
  pose proof (Z.mul_le_mono_nonneg _ _ _ _ (proj1 Hv) (proj2 Hv) (proj1 Hiq) (proj2 Hiq)). lia.
Qed.

Example quant_example : quant_go (-1000) 3 16384 65536 = -125 /\ quant_lane (-1000) 3 16384 65536 = -125.
Proof. split; vm_compute; reflexivity. Qed.
