(** C13 — encoder-side ranges: the coefficient blocks the encoder itself hands
    to the inverse DCT (ITransform: reconstruction of intra-4x4, intra-16x16 AC
    and chroma blocks) stay inside the region where the 16-bit-lane IDCT equals
    the portable one.

    Chain:  byte residuals --fTransform--> f  (|f_i| <= per-position bound F_i,
    proved)  --quantise (QuantizeCoeffs or trellis: 0 <= level <= (v*iq+b)>>17
    with b < 2^17) and dequantise--> c with |c_i| <= |f_i| + sharpen_i + q
    (proved)  =>  |c_i| <= B_i  (quantiser steps and sharpening from the tables
    of the source)  =>  idct_fits16 c  (proved, per-position box)  =>
    lane16_idct = transform_one. *)
From Coq Require Import ZArith List Bool Lia.
From Coq Require Import ZifyBool ZifyNat ZifyN.
From Webp Require Import Base.Res Arch.ArchLane16 Arch.ArchLane16Proofs.
Import ListNotations.
Open Scope Z_scope.
Ltac Zify.zify_post_hook ::= Z.div_mod_to_equations.

Definition forall2Q (R : Z -> Z -> Prop) (p q : Q) : Prop :=
  let '(a, b, c, d) := p in let '(a', b', c', d') := q in R a a' /\ R b b' /\ R c c' /\ R d d'.
Definition forall2M (R : Z -> Z -> Prop) (m n : M) : Prop :=
  let '(a, b, c, d) := m in let '(a', b', c', d') := n in
  forall2Q R a a' /\ forall2Q R b b' /\ forall2Q R c c' /\ forall2Q R d d'.

(** Per-position bounds of the forward DCT of byte residuals (raster order). *)
Definition fdctF : M :=
  ((2040, 1886, 2040, 1886), (1886, 1743, 1886, 1743), (2040, 1886, 2040, 1886), (1885, 1743, 1885, 1743)).
(** Per-position box of the dequantised coefficients: F_i + sharpen_i + q with
    the largest AC step 284 and sharpening (kFreqSharpening_i * 284) >> 11; the
    DC entry 2655 covers both the quantised DC of a 4x4 / chroma block
    (2040 + 157) and the DC an intra-16x16 block receives from the inverse WHT
    (at most 2654, see [encoder_wht_in_range]). *)
Definition encB : M :=
  ((2655, 2174, 2332, 2182), (2174, 2035, 2182, 2039), (2332, 2182, 2336, 2182), (2181, 2039, 2181, 2039)).
Definition encSlack : M := map2M Z.sub encB fdctF.

(** ** Forward DCT: per-position bounds *)
Lemma frow_bounds d0 d1 d2 d3 :
  in_box 255 d0 -> in_box 255 d1 -> in_box 255 d2 -> in_box 255 d3 ->
  forall2Q in_box (8160, 7543, 8160, 7543) (frow (d0, d1, d2, d3)).
Proof. unfold in_box, frow, forall2Q. cbv zeta. intros. repeat split; lia. Qed.

Lemma fcol_bounds_even t0 t1 t2 t3 :
  in_box 8160 t0 -> in_box 8160 t1 -> in_box 8160 t2 -> in_box 8160 t3 ->
  forall2Q in_box (2040, 1886, 2040, 1885) (fcol (t0, t1, t2, t3)).
Proof.
  unfold in_box, fcol, forall2Q. cbv zeta. intros H0 H1 H2 H3.
  set (e := if t0 - t3 =? 0 then 0 else 1). assert (0 <= e <= 1) by (subst e; destruct (t0 - t3 =? 0); lia).
  set (o0 := (t0 + t3 + (t1 + t2) + 7) / 16). set (o2 := (t0 + t3 - (t1 + t2) + 7) / 16).
  set (o1 := ((t1 - t2) * 2217 + (t0 - t3) * 5352 + 12000) / 65536).
  set (o3 := ((t0 - t3) * 2217 - (t1 - t2) * 5352 + 51000) / 65536).
  assert (-2040 <= o0 <= 2040) by (subst o0; lia). assert (-2040 <= o2 <= 2040) by (subst o2; lia).
  assert (-1885 <= o1 <= 1885) by (subst o1; lia). assert (-1885 <= o3 <= 1885) by (subst o3; lia).
  rewrite !wrap16_id by (unfold int16; lia). repeat split; lia.
Qed.

Lemma fcol_bounds_odd t0 t1 t2 t3 :
  in_box 7543 t0 -> in_box 7543 t1 -> in_box 7543 t2 -> in_box 7543 t3 ->
  forall2Q in_box (1886, 1743, 1886, 1743) (fcol (t0, t1, t2, t3)).
Proof.
  unfold in_box, fcol, forall2Q. cbv zeta. intros H0 H1 H2 H3.
  set (e := if t0 - t3 =? 0 then 0 else 1). assert (0 <= e <= 1) by (subst e; destruct (t0 - t3 =? 0); lia).
  set (o0 := (t0 + t3 + (t1 + t2) + 7) / 16). set (o2 := (t0 + t3 - (t1 + t2) + 7) / 16).
  set (o1 := ((t1 - t2) * 2217 + (t0 - t3) * 5352 + 12000) / 65536).
  set (o3 := ((t0 - t3) * 2217 - (t1 - t2) * 5352 + 51000) / 65536).
  assert (-1886 <= o0 <= 1886) by (subst o0; lia). assert (-1886 <= o2 <= 1886) by (subst o2; lia).
  assert (-1743 <= o1 <= 1742) by (subst o1; lia). assert (-1742 <= o3 <= 1743) by (subst o3; lia).
  rewrite !wrap16_id by (unfold int16; lia). repeat split; lia.
Qed.

Lemma fdct_core_pos_bounds d : forallM (in_box 255) d -> forall2M in_box fdctF (fdct_core d).
Proof.
  destruct d as [[[[[[a0 a1] a2] a3] [[[b0 b1] b2] b3]] [[[c0 c1] c2] c3]] [[[d0 d1] d2] d3]].
  cbn [forallM forallQ].
  intros ((A0 & A1 & A2 & A3) & (B0 & B1 & B2 & B3) & (C0 & C1 & C2 & C3) & (D0 & D1 & D2 & D3)).
  unfold fdct_core. cbn [mapM].
  pose proof (frow_bounds _ _ _ _ A0 A1 A2 A3) as Ka. pose proof (frow_bounds _ _ _ _ B0 B1 B2 B3) as Kb.
  pose proof (frow_bounds _ _ _ _ C0 C1 C2 C3) as Kc. pose proof (frow_bounds _ _ _ _ D0 D1 D2 D3) as Kd.
  destruct (frow (a0, a1, a2, a3)) as [[[u0 u1] u2] u3].
  destruct (frow (b0, b1, b2, b3)) as [[[v0 v1] v2] v3].
  destruct (frow (c0, c1, c2, c3)) as [[[w0 w1] w2] w3].
  destruct (frow (d0, d1, d2, d3)) as [[[z0 z1] z2] z3].
  cbn [forall2Q transpose mapM] in *.
  destruct Ka as (? & ? & ? & ?), Kb as (? & ? & ? & ?), Kc as (? & ? & ? & ?), Kd as (? & ? & ? & ?).
  pose proof (fcol_bounds_even u0 v0 w0 z0) as L0. pose proof (fcol_bounds_odd u1 v1 w1 z1) as L1.
  pose proof (fcol_bounds_even u2 v2 w2 z2) as L2. pose proof (fcol_bounds_odd u3 v3 w3 z3) as L3.
  destruct (fcol (u0, v0, w0, z0)) as [[[p0 p1] p2] p3].
  destruct (fcol (u1, v1, w1, z1)) as [[[q0 q1] q2] q3].
  destruct (fcol (u2, v2, w2, z2)) as [[[r0 r1] r2] r3].
  destruct (fcol (u3, v3, w3, z3)) as [[[s0 s1] s2] s3].
  cbn [forall2Q forall2M transpose fdctF] in *.
  specialize (L0 ltac:(assumption) ltac:(assumption) ltac:(assumption) ltac:(assumption)).
  specialize (L1 ltac:(assumption) ltac:(assumption) ltac:(assumption) ltac:(assumption)).
  specialize (L2 ltac:(assumption) ltac:(assumption) ltac:(assumption) ltac:(assumption)).
  specialize (L3 ltac:(assumption) ltac:(assumption) ltac:(assumption) ltac:(assumption)).
  unfold in_box in *. intuition lia.
Qed.

(** ** The per-position box implies the no-wrap condition of the lane IDCT *)
Lemma enc_col0 x0 x1 x2 x3 : in_box 2655 x0 -> in_box 2174 x1 -> in_box 2332 x2 -> in_box 2181 x3 ->
  forall2Q in_box (9009, 9013, 9013, 9009) (bfly (x0, x1, x2, x3)).
Proof. unfold in_box, bfly, mul1, mul2, kC1, kC2, forall2Q. cbv zeta. intros. repeat split; lia. Qed.
Lemma enc_col1 x0 x1 x2 x3 : in_box 2174 x0 -> in_box 2035 x1 -> in_box 2182 x2 -> in_box 2039 x3 ->
  forall2Q in_box (8119, 8122, 8122, 8119) (bfly (x0, x1, x2, x3)).
Proof. unfold in_box, bfly, mul1, mul2, kC1, kC2, forall2Q. cbv zeta. intros. repeat split; lia. Qed.
Lemma enc_col2 x0 x1 x2 x3 : in_box 2332 x0 -> in_box 2182 x1 -> in_box 2336 x2 -> in_box 2181 x3 ->
  forall2Q in_box (8700, 8698, 8698, 8700) (bfly (x0, x1, x2, x3)).
Proof. unfold in_box, bfly, mul1, mul2, kC1, kC2, forall2Q. cbv zeta. intros. repeat split; lia. Qed.
Lemma enc_col3 x0 x1 x2 x3 : in_box 2182 x0 -> in_box 2039 x1 -> in_box 2182 x2 -> in_box 2039 x3 ->
  forall2Q in_box (8133, 8132, 8132, 8133) (bfly (x0, x1, x2, x3)).
Proof. unfold in_box, bfly, mul1, mul2, kC1, kC2, forall2Q. cbv zeta. intros. repeat split; lia. Qed.
Lemma enc_row t0 t1 t2 t3 : in_box 9013 t0 -> in_box 8122 t1 -> in_box 8700 t2 -> in_box 8133 t3 ->
  row_fits (t0, t1, t2, t3).
Proof. unfold in_box, row_fits, bfly, bias0, forallQ, int16, mul1, mul2, kC1, kC2. cbv zeta. intros. repeat split; lia. Qed.

Lemma idct_fits16_enc_box c : forall2M in_box encB c -> idct_fits16 c.
Proof.
  destruct c as [[[[[[a0 a1] a2] a3] [[[b0 b1] b2] b3]] [[[c0 c1] c2] c3]] [[[d0 d1] d2] d3]].
  cbn [forall2M forall2Q encB].
  intros ((A0 & A1 & A2 & A3) & (B0 & B1 & B2 & B3) & (C0 & C1 & C2 & C3) & (D0 & D1 & D2 & D3)).
  unfold idct_fits16, idct_mid. cbn [transpose mapM].
  pose proof (enc_col0 _ _ _ _ A0 B0 C0 D0) as K0. pose proof (enc_col1 _ _ _ _ A1 B1 C1 D1) as K1.
  pose proof (enc_col2 _ _ _ _ A2 B2 C2 D2) as K2. pose proof (enc_col3 _ _ _ _ A3 B3 C3 D3) as K3.
  destruct (bfly (a0, b0, c0, d0)) as [[[u0 u1] u2] u3].
  destruct (bfly (a1, b1, c1, d1)) as [[[v0 v1] v2] v3].
  destruct (bfly (a2, b2, c2, d2)) as [[[w0 w1] w2] w3].
  destruct (bfly (a3, b3, c3, d3)) as [[[z0 z1] z2] z3].
  cbn [forall2Q transpose] in *.
  destruct K0 as (? & ? & ? & ?), K1 as (? & ? & ? & ?), K2 as (? & ? & ? & ?), K3 as (? & ? & ? & ?).
  split; [|split; [|split]]; apply enc_row; unfold in_box in *; lia.
Qed.

(** ** Quantise / dequantise never moves a coefficient further from zero than
    one quantiser step beyond |coefficient| + sharpening.  Covers
    quantizeCoeffsGo / the assembly (level = (v*iq + bias) >> 17, bias < 2^17,
    clamped to 2047) and the trellis (levels 0, L0 or L0+1 <= (v*iq + 2^16) >> 17). *)
Lemma dequant_upper v q iq b level :
  0 < q -> iq = 131072 / q -> 0 <= b < 131072 -> 0 <= v ->
  0 <= level <= (v * iq + b) / 131072 ->
  0 <= level * q <= v + q.
Proof.
  intros Hq Hiq Hb Hv HL.
  assert (E1 : iq * q <= 131072) by (subst iq; pose proof (Z.mul_div_le 131072 q Hq); lia).
  assert (Hi0 : 0 <= iq) by (subst iq; apply Z.div_pos; lia).
  assert (E2 : 131072 * level <= v * iq + b) by lia.
  split; [apply Z.mul_nonneg_nonneg; lia|].
  (* 131072 * level * q <= v*iq*q + b*q <= 131072*v + 131072*q *)
  assert (E3 : 131072 * (level * q) <= (v * iq + b) * q) by nia.
  assert (E4 : (v * iq + b) * q <= 131072 * v + 131072 * q) by nia.
  lia.
Qed.

(** ** The encoder's inverse DCT input is in range *)
Definition forall3Q (R : Z -> Z -> Z -> Prop) (p q r : Q) : Prop :=
  let '(a, b, c, d) := p in let '(a', b', c', d') := q in let '(a'', b'', c'', d'') := r in
  R a a' a'' /\ R b b' b'' /\ R c c' c'' /\ R d d' d''.
Definition forall3M (R : Z -> Z -> Z -> Prop) (m n o : M) : Prop :=
  let '(a, b, c, d) := m in let '(a', b', c', d') := n in let '(a'', b'', c'', d'') := o in
  forall3Q R a a' a'' /\ forall3Q R b b' b'' /\ forall3Q R c c' c'' /\ forall3Q R d d' d''.

(** [c] is a dequantised version of [f]: per position |c_i| <= |f_i| + slack_i. *)
Definition dequant_close (f c : M) : Prop :=
  forall3M (fun s fi ci => Z.abs ci <= Z.abs fi + s) encSlack f c.

Lemma close1 F s f c : - F <= f <= F -> Z.abs c <= Z.abs f + s -> - (F + s) <= c <= F + s.
Proof. lia. Qed.

Lemma dequant_close_box f c : forall2M in_box fdctF f -> dequant_close f c -> forall2M in_box encB c.
Proof.
  destruct f as [[[[[[f0 f1] f2] f3] [[[f4 f5] f6] f7]] [[[f8 f9] f10] f11]] [[[f12 f13] f14] f15]].
  destruct c as [[[[[[c0 c1] c2] c3] [[[c4 c5] c6] c7]] [[[c8 c9] c10] c11]] [[[c12 c13] c14] c15]].
  unfold dequant_close, encSlack, encB, fdctF.
  cbn [forall2M forall2Q forall3M forall3Q map2M map2Q]. unfold in_box.
  intros ((A0 & A1 & A2 & A3) & (B0 & B1 & B2 & B3) & (C0 & C1 & C2 & C3) & (D0 & D1 & D2 & D3)).
  intros ((E0 & E1 & E2 & E3) & (G0 & G1 & G2 & G3) & (H0 & H1 & H2 & H3) & (I0 & I1 & I2 & I3)).
  pose proof (close1 _ _ _ _ A0 E0) as K0.
  pose proof (close1 _ _ _ _ A1 E1) as K1.
  pose proof (close1 _ _ _ _ A2 E2) as K2.
  pose proof (close1 _ _ _ _ A3 E3) as K3.
  pose proof (close1 _ _ _ _ B0 G0) as K4.
  pose proof (close1 _ _ _ _ B1 G1) as K5.
  pose proof (close1 _ _ _ _ B2 G2) as K6.
  pose proof (close1 _ _ _ _ B3 G3) as K7.
  pose proof (close1 _ _ _ _ C0 H0) as K8.
  pose proof (close1 _ _ _ _ C1 H1) as K9.
  pose proof (close1 _ _ _ _ C2 H2) as K10.
  pose proof (close1 _ _ _ _ C3 H3) as K11.
  pose proof (close1 _ _ _ _ D0 I0) as K12.
  pose proof (close1 _ _ _ _ D1 I1) as K13.
  pose proof (close1 _ _ _ _ D2 I2) as K14.
  pose proof (close1 _ _ _ _ D3 I3) as K15.
  clear - K0 K1 K2 K3 K4 K5 K6 K7 K8 K9 K10 K11 K12 K13 K14 K15.
  repeat split; lia.
Qed.

Lemma box1_int16 B c : B <= 32767 -> - B <= c <= B -> int16 c.
Proof. unfold int16. lia. Qed.

Lemma box_int16 c : forall2M in_box encB c -> forallM int16 c.
Proof.
  destruct c as [[[[[[c0 c1] c2] c3] [[[c4 c5] c6] c7]] [[[c8 c9] c10] c11]] [[[c12 c13] c14] c15]].
  unfold encB. cbn [forall2M forall2Q forallM forallQ]. unfold in_box.
  intros ((A0 & A1 & A2 & A3) & (B0 & B1 & B2 & B3) & (C0 & C1 & C2 & C3) & (D0 & D1 & D2 & D3)).
  unfold int16. repeat split; lia.
Qed.

Theorem encoder_idct_in_range : forall src ref coeffs pred s r c,
  blk16 src = Ok s -> blk16 ref = Ok r -> Forall byte src -> Forall byte ref ->
  blk16 coeffs = Ok c -> Forall byte pred ->
  dequant_close (fdct_core (map2M Z.sub s r)) c ->
  lane16_idct coeffs pred = transform_one coeffs pred.
Proof.
  intros src ref coeffs pred s r c Es Er Hs Hr Ec Hp Hc.
  destruct (blk16_cases pred) as [[p Ep]|Ep]; [|unfold lane16_idct, transform_one; rewrite Ec, Ep; reflexivity].
  destruct (diff_box s r (blk16_Forall _ _ _ Es Hs) (blk16_Forall _ _ _ Er Hr)) as [_ Hd].
  pose proof (dequant_close_box _ _ (fdct_core_pos_bounds _ Hd) Hc) as Hb.
  apply (lane16_idct_eq_fits coeffs pred c p Ec Ep).
  - apply box_int16, Hb.
  - apply (blk16_Forall _ _ _ Ep Hp).
  - apply idct_fits16_enc_box, Hb.
Qed.

(** ** The encoder's inverse WHT input is in range, and the DC it hands to the
    inverse DCT of an intra-16x16 block is inside [encB].

    Chain: sixteen forward-DCT DCs (|dc| <= 2040, proved) --fTransformWHT--> w
    (|w_i| <= 16320) --QuantizeCoeffs with the Y2 steps (no trellis, no
    sharpening) / DequantCoeffs--> c with |c_0 - w_0| <= 237, |c_i - w_i| <= 311
    (proved from the quantiser formula for q_dc <= 314, q_ac <= 440, see
    [y2_quant_error]) --TransformWHT--> dc'. *)
Definition whtErr : M := ((237, 311, 311, 311), (311, 311, 311, 311), (311, 311, 311, 311), (311, 311, 311, 311)).
Definition wht_close (w c : M) : Prop := forall3M (fun e wi ci => - e <= ci - wi <= e) whtErr w c.

Lemma enc_wht_presums dcs c : forallM (in_box 2040) dcs -> wht_close (fwht_core dcs) c ->
  forallM (in_box 21233) (mapM (fun r => wht_b (bias0 3 r)) (transpose (mapM wht_b (transpose c)))) /\
  forallM (in_box 16631) c.
Proof.
  destruct dcs as [[[[[[d0 d1] d2] d3] [[[d4 d5] d6] d7]] [[[d8 d9] d10] d11]] [[[d12 d13] d14] d15]].
  destruct c as [[[[[[c0 c1] c2] c3] [[[c4 c5] c6] c7]] [[[c8 c9] c10] c11]] [[[c12 c13] c14] c15]].
  unfold wht_close, whtErr, fwht_core, fwht_b, wht_b, bias0, in_box.
  cbn [forallM forallQ forall3M forall3Q mapM mapQ transpose]. cbv zeta.
  intros ((A0 & A1 & A2 & A3) & (B0 & B1 & B2 & B3) & (C0 & C1 & C2 & C3) & (D0 & D1 & D2 & D3)).
  intros H. rewrite !wrap16_id in H by (unfold int16; lia).
  repeat split; lia.
Qed.

Theorem encoder_wht_in_range : forall dcs coeffs d c,
  blk16 dcs = Ok d -> Forall (in_box 2040) dcs -> blk16 coeffs = Ok c ->
  wht_close (fwht_core d) c ->
  lane16_wht coeffs = transform_wht coeffs /\ forallM (in_box 2655) (iwht_core c).
Proof.
  intros dcs coeffs d c Ed Hd Ec Hc.
  destruct (enc_wht_presums d c (blk16_Forall _ _ _ Ed Hd) Hc) as [HP HB].
  assert (Hfit : iwht_fits16 c).
  { unfold iwht_fits16. eapply forallM_impl; [|exact HP]. unfold in_box, int16. intros; lia. }
  split.
  - unfold lane16_wht, transform_wht. rewrite Ec. cbn [bind]. do 2 f_equal.
    apply l_iwht_core_eq; [|exact Hfit].
    eapply forallM_impl; [|exact HB]. unfold in_box, int16. intros; lia.
  - unfold iwht_core, two_pass. rewrite <- mapM_mapM with (f := mapQ (fun x => wrap16 (x / 8))) (g := fun r => wht_b (bias0 3 r)).
    set (P := mapM (fun r => wht_b (bias0 3 r)) (transpose (mapM wht_b (transpose c)))) in *.
    destruct P as [[[[[[p0 p1] p2] p3] [[[p4 p5] p6] p7]] [[[p8 p9] p10] p11]] [[[p12 p13] p14] p15]].
    cbn [forallM forallQ mapM mapQ] in *. unfold in_box in *.
    rewrite !wrap16_id by (unfold int16; lia). repeat split; lia.
Qed.

(** Quantiser error, both sides (QuantizeCoeffs without trellis): for
    level = (v*iq + b) >> 17 with iq = floor(2^17 / q),
      - q + (b*q - v*q) / 2^17  <  level*q - v  <=  b*q / 2^17. *)
Lemma quant_two_sided v q iq b :
  0 < q -> iq = 131072 / q -> 0 <= b < 131072 -> 0 <= v ->
  let level := (v * iq + b) / 131072 in
  131072 * (level * q - v) <= b * q /\
  b * q - v * q - 131072 * q < 131072 * (level * q - v).
Proof.
  intros Hq Hiq Hb Hv level.
  assert (E1 : iq * q <= 131072) by (subst iq; pose proof (Z.mul_div_le 131072 q Hq); lia).
  assert (E1' : 131072 < iq * q + q) by (subst iq; pose proof (Z.mul_succ_div_gt 131072 q Hq); lia).
  assert (Hi0 : 0 <= iq) by (subst iq; apply Z.div_pos; lia).
  assert (F1 : 131072 * level <= v * iq + b) by (subst level; lia).
  assert (F2 : v * iq + b < 131072 * level + 131072) by (subst level; lia).
  set (p := iq * q) in *.
  assert (G0 : (v * iq + b) * q = v * p + b * q) by (subst p; ring).
  assert (G1 : 131072 * level * q <= (v * iq + b) * q) by (apply Z.mul_le_mono_nonneg_r; lia).
  assert (G1' : (v * iq + b) * q < (131072 * level + 131072) * q) by (apply Z.mul_lt_mono_pos_r; lia).
  assert (G2 : v * p <= v * 131072) by (apply Z.mul_le_mono_nonneg_l; lia).
  assert (G3 : v * (131072 - q) <= v * p) by (apply Z.mul_le_mono_nonneg_l; lia).
  split.
  - replace (131072 * (level * q - v)) with (131072 * level * q - v * 131072) by ring. lia.
  - replace (131072 * (level * q - v)) with ((131072 * level + 131072) * q - 131072 * q - v * 131072) by ring.
    replace (v * (131072 - q)) with (v * 131072 - v * q) in G3 by ring. lia.
Qed.

(** Instantiated with the Y2 quantiser of the encoder: DC step <= 314 with
    BIAS(96), AC step <= 440 with BIAS(108), |w| <= 16320: the dequantised
    coefficient is within 237 resp. 311 of the exact one, and the level never
    reaches the 2047 clamp (steps are >= 8). *)
Lemma y2_quant_error v q iq b e :
  8 <= q -> iq = 131072 / q -> 0 <= v <= 16320 ->
  (b = 49152 /\ q <= 314 /\ e = 237) \/ (b = 55296 /\ q <= 440 /\ e = 311) ->
  let level := (v * iq + b) / 131072 in
  - e <= level * q - v <= e /\ 0 <= level <= 2047.
Proof.
  intros Hq Hiq Hv Hcase level.
  assert (Hb : 0 <= b < 131072) by (destruct Hcase as [(-> & _ & _)|(-> & _ & _)]; lia).
  destruct (quant_two_sided v q iq b ltac:(lia) Hiq Hb ltac:(lia)) as [U L]. fold level in U, L.
  assert (Hvq : 0 <= v * q <= 16320 * q) by (split; [apply Z.mul_nonneg_nonneg; lia|apply Z.mul_le_mono_nonneg_r; lia]).
  assert (E1 : iq * q <= 131072) by (subst iq; pose proof (Z.mul_div_le 131072 q ltac:(lia)); lia).
  assert (Hi0 : 0 <= iq <= 16384) by (subst iq; split; [apply Z.div_pos; lia|apply Z.div_le_upper_bound; lia]).
  assert (HL0 : 0 <= level) by (subst level; apply Z.div_pos; [apply Z.add_nonneg_nonneg; [apply Z.mul_nonneg_nonneg|]|]; lia).
  split.
  - destruct Hcase as [(-> & Hq2 & ->)|(-> & Hq2 & ->)]; lia.
  - split; [exact HL0|].
    (* level*q <= v + b*q/2^17 <= 16320 + q, and q >= 8 *)
    assert (131072 * (level * q) <= 131072 * (16320 + q)) by lia.
    assert (level * q <= 16320 + q) by lia.
    assert (level * 8 <= level * q) by (apply Z.mul_le_mono_nonneg_l; lia).
    nia.
Qed.
