(** C13 — every assembly routine of the module (amd64 and arm64) pinned by the
    digest of its canonical body (comments, spacing, label names and consistent
    register renamings do not matter), and the DATA tables of the amd64 files by
    theirs.  [Gen/AsmAmd64.v] is regenerated from the .s files on every run; an
    edited routine body, a new or a removed routine changes [asm_digests] and
    breaks [asm_bodies_pinned]: the lane models were read from exactly these
    bodies (and, for sse4x4SSE2, the model is *derived* from the body, see
    ArchAsm.v), so a changed body has to be re-read (the differential run looks
    for an input meanwhile).  To accept a reviewed change, copy the new digest
    here. *)
From Coq Require Import ZArith List String.
From WebpGen Require AsmAmd64.
Import ListNotations.
Open Scope string_scope.

Definition pinned_digests : list (string * string) := [
 ("addGreenToBlueAndRedAVX2", "5abda48fb01f5b21");
 ("addGreenToBlueAndRedNEON", "5240ee48b01ffd66");
 ("addGreenToBlueAndRedSSE2", "669b32051e30c37b");
 ("cpuidAVX2Check", "e676f3c9ad90ebb7");
 ("dc16asmNEON", "22c3cc2b746d615a");
 ("dc16asmSSE2", "151b4598ec70bfa4");
 ("dc8uvasmNEON", "cd896b7461b2167c");
 ("dc8uvasmSSE2", "39e24aaa05cd7ee5");
 ("dequantCoeffsSSE2", "a659193433cdaa03");
 ("fTransformAVX2", "567f1e3735ab117d");
 ("fTransformNEON", "0ea7bb9b9899753e");
 ("fTransformSSE2", "e1edacb058970359");
 ("fTransformWHTNEON", "437da7603f97878d");
 ("fTransformWHTSSE2", "98c14b635df56a11");
 ("he16asmNEON", "072e939ad723ba5a");
 ("he16asmSSE2", "e588f687f32fc148");
 ("he8uvasmNEON", "e56572f149e1d3b9");
 ("he8uvasmSSE2", "c3f5bcdbe1dcb677");
 ("iTransformOneAVX2", "dc25d8f4e15915e6");
 ("iTransformOneNEON", "7a1a9c7513174264");
 ("iTransformOneSSE2", "fad7c2aa5d6fd686");
 ("nzCountACSSE2", "d4ea7dfb9e8ee81c");
 ("quantizeACAVX2", "e03e6c346a95d6f1");
 ("quantizeACSSE2", "5adb9f954776e752");
 ("simpleVFilter16AVX2", "7f46b783ef152254");
 ("simpleVFilter16SSE2", "02e902883128e2da");
 ("sse16x16AVX2", "b2e197a96fa2bdac");
 ("sse16x16NEON", "a84a09e69a1bdd5d");
 ("sse16x16SSE2", "df1f693d55ae6330");
 ("sse4x4NEON", "2dfba460ece9ee49");
 ("sse4x4SSE2", "b17e21cb6ab9f093");
 ("subtractGreenAVX2", "aad67552addfd0c2");
 ("subtractGreenNEON", "dcf686d9617c9614");
 ("subtractGreenSSE2", "3f6864506180caad");
 ("tDisto4x4AVX2", "84aef9202fba592e");
 ("tDisto4x4SSE2", "fdab449fc8d8908e");
 ("tm16asmNEON", "3b06b55b441dfa0c");
 ("tm16asmSSE2", "565413565c5b31e1");
 ("tm8uvasmNEON", "48b239481e740aa9");
 ("tm8uvasmSSE2", "9c8c844313eccb42");
 ("transformWHTNEON", "26ce1b15de80b7de");
 ("transformWHTSSE2", "2af99508f7c6d81c");
 ("ve16asmNEON", "4552de528bd47c1d");
 ("ve16asmSSE2", "2a3a8fd5de9902a0");
 ("ve8uvasmNEON", "25944432e0826973");
 ("ve8uvasmSSE2", "9bd9a3c8549cb6a8");
 ("yuvPackedToNRGBABatchAVX2", "1c5b5c60d4d783ea");
 ("yuvPackedToNRGBABatchSSE2", "196e7c06489c33df")
].

Definition pinned_data_digest : string := "4a33599003dee710".

Lemma asm_bodies_pinned :
  AsmAmd64.asm_digests = pinned_digests /\ AsmAmd64.asm_data_digest = pinned_data_digest.
Proof. split; reflexivity. Qed.

(** The arm64 routines are also emitted as instruction lists (mnemonic, raw
    operands; no semantics yet): the list is complete. *)
Lemma arm64_lists_emitted :
  AsmAmd64.arm64_instruction_count = 924%Z /\
  List.length AsmAmd64.arm64_iTransformOneNEON = 106%nat.
Proof. split; reflexivity. Qed.
