(** C13 — every assembly routine of the module (amd64 and arm64) pinned by the
    digest of its normalised body, and the DATA tables of the amd64 files by
    theirs.  [Gen/AsmAmd64.v] is regenerated from the .s files on every run; an
    edited routine body, a new or a removed routine changes [asm_digests] and
    breaks [asm_bodies_pinned]: the lane models were read from exactly these
    bodies (and, for sse4x4SSE2, the model is *derived* from the body, see
    ArchAsm.v), so a changed body has to be re-read (the differential run looks
    for an input meanwhile).  To accept a reviewed change, copy the new digest
    here. *)
From Coq Require Import List String.
From WebpGen Require AsmAmd64.
Import ListNotations.
Open Scope string_scope.

Definition pinned_digests : list (string * string) := [
 ("addGreenToBlueAndRedAVX2", "b1404c5712ca25ff");
 ("addGreenToBlueAndRedNEON", "103304e382624b53");
 ("addGreenToBlueAndRedSSE2", "27f02d01a0209a58");
 ("cpuidAVX2Check", "efbc5e47a6dfa672");
 ("dc16asmNEON", "d32e36d3c068dda6");
 ("dc16asmSSE2", "6aee9a3894bfb326");
 ("dc8uvasmNEON", "d33ad736ad955686");
 ("dc8uvasmSSE2", "7269ff191d94ac40");
 ("dequantCoeffsSSE2", "e15203c710581204");
 ("fTransformAVX2", "5024407c312a5542");
 ("fTransformNEON", "93ec02e41b8247f8");
 ("fTransformSSE2", "18ae969b8b30acf2");
 ("fTransformWHTNEON", "bcc1ee03358d1676");
 ("fTransformWHTSSE2", "b934e6d60fdd6a07");
 ("he16asmNEON", "66e5f0eb82460f52");
 ("he16asmSSE2", "cbaadbcd3a0a1d09");
 ("he8uvasmNEON", "101a64dd9e420038");
 ("he8uvasmSSE2", "52f2512f68bb5373");
 ("iTransformOneAVX2", "88e0970c028ede5f");
 ("iTransformOneNEON", "49d761e859d68ffc");
 ("iTransformOneSSE2", "af9eeb57c16a9f3e");
 ("nzCountACSSE2", "95ed7d5f4f22219f");
 ("quantizeACAVX2", "f1ee11c56191c2dc");
 ("quantizeACSSE2", "3af33b22d12b4550");
 ("simpleVFilter16AVX2", "546e38b365251c5a");
 ("simpleVFilter16SSE2", "333af3f3caa66dd9");
 ("sse16x16AVX2", "aa8ca5ba8a95d951");
 ("sse16x16NEON", "f76f25daab39a4a8");
 ("sse16x16SSE2", "17142908b0c3b7c0");
 ("sse4x4NEON", "51744c444ad47011");
 ("sse4x4SSE2", "c3c7c02eaf63e6bd");
 ("subtractGreenAVX2", "bbe10a2c50d1a1dd");
 ("subtractGreenNEON", "b79af251ae90cd84");
 ("subtractGreenSSE2", "08302fa917b2b13f");
 ("tDisto4x4AVX2", "8bcc44af579f1710");
 ("tDisto4x4SSE2", "84e7a4494252191e");
 ("tm16asmNEON", "6ebae899ec1ece9f");
 ("tm16asmSSE2", "13191c3b71affcd6");
 ("tm8uvasmNEON", "63e1487ab1181ab0");
 ("tm8uvasmSSE2", "7a8a0d8aba643ee7");
 ("transformWHTNEON", "13291003454b5bbe");
 ("transformWHTSSE2", "d6f11003b351ce06");
 ("ve16asmNEON", "df7c5d842731c3de");
 ("ve16asmSSE2", "764fc223eaa1d3e1");
 ("ve8uvasmNEON", "6325d30cb16e17f8");
 ("ve8uvasmSSE2", "9cea1fa56f4669e7");
 ("yuvPackedToNRGBABatchAVX2", "5a8397e76948fd61");
 ("yuvPackedToNRGBABatchSSE2", "2d6c3083f23c13cc")
].

Definition pinned_data_digest : string := "4a33599003dee710".

Lemma asm_bodies_pinned :
  AsmAmd64.asm_digests = pinned_digests /\ AsmAmd64.asm_data_digest = pinned_data_digest.
Proof. split; reflexivity. Qed.
