(** C13 — every assembly routine of the module (amd64 and arm64) pinned by the
    digest of its canonical body, and the DATA tables of the amd64 files by
    theirs.  The canonical body of an amd64 routine does not depend on comments,
    spacing, label names, a consistent renaming of registers, nor on the order of
    instructions inside a basic block as far as they do not depend on each other
    (tools/gosrc2v/asmparse.go, asmReorder: a deterministic topological order of
    the dependency graph over registers, flags and memory, memory treated
    conservatively).  The six routines whose lane model is *derived* from the
    instruction list by proof (ArchAsm.v) carry the mark "proved" instead of a
    digest: an edit of their body is judged by those proofs.  [Gen/AsmAmd64.v] is
    regenerated from the .s files on every run; an edited routine body (beyond
    the above), a new or a removed routine changes [asm_digests] and breaks
    [asm_bodies_pinned]: the lane models were read from exactly these bodies,
    so a changed body has to be re-read (the differential run looks for an input
    meanwhile).  To accept a reviewed change, copy the new digest here. *)
From Coq Require Import ZArith List String.
From WebpGen Require AsmAmd64.
Import ListNotations.
Open Scope string_scope.

Definition pinned_digests : list (string * string) := [
 ("addGreenToBlueAndRedAVX2", "b532122c9f5a0c4b");
 ("addGreenToBlueAndRedNEON", "5240ee48b01ffd66");
 ("addGreenToBlueAndRedSSE2", "d57d2f51ea2c8d9e");
 ("cpuidAVX2Check", "01d790632b1df781");
 ("dc16asmNEON", "22c3cc2b746d615a");
 ("dc16asmSSE2", "8c33f466103a4d63");
 ("dc8uvasmNEON", "cd896b7461b2167c");
 ("dc8uvasmSSE2", "e528289a28b1b320");
 ("dequantCoeffsSSE2", "70c36425841c6ba4");
 ("fTransformAVX2", "d9d52b79b5f60ca0");
 ("fTransformNEON", "0ea7bb9b9899753e");
 ("fTransformSSE2", "9779bbe71c252d0b");
 ("fTransformWHTNEON", "437da7603f97878d");
 ("fTransformWHTSSE2", "proved");
 ("he16asmNEON", "072e939ad723ba5a");
 ("he16asmSSE2", "6e2aaeb6ef23b8a0");
 ("he8uvasmNEON", "e56572f149e1d3b9");
 ("he8uvasmSSE2", "41ecaf20ec1d8875");
 ("iTransformOneAVX2", "proved");
 ("iTransformOneNEON", "7a1a9c7513174264");
 ("iTransformOneSSE2", "proved");
 ("nzCountACSSE2", "97fe93362a35e982");
 ("quantizeACAVX2", "5974a3a8742db5bb");
 ("quantizeACSSE2", "58dae87f790246d9");
 ("simpleVFilter16AVX2", "889949f3e847cd98");
 ("simpleVFilter16SSE2", "3febef6958e063dc");
 ("sse16x16AVX2", "c73d809f2bcb037d");
 ("sse16x16NEON", "a84a09e69a1bdd5d");
 ("sse16x16SSE2", "proved");
 ("sse4x4NEON", "2dfba460ece9ee49");
 ("sse4x4SSE2", "proved");
 ("subtractGreenAVX2", "e764d290c7698a6b");
 ("subtractGreenNEON", "dcf686d9617c9614");
 ("subtractGreenSSE2", "0a5167f3034fb0e0");
 ("tDisto4x4AVX2", "1be01a9d5f3d89f1");
 ("tDisto4x4SSE2", "3cc0f476d65932a1");
 ("tm16asmNEON", "3b06b55b441dfa0c");
 ("tm16asmSSE2", "3c2ce6d3fe69ccef");
 ("tm8uvasmNEON", "48b239481e740aa9");
 ("tm8uvasmSSE2", "9f4bb71f85fb4532");
 ("transformWHTNEON", "26ce1b15de80b7de");
 ("transformWHTSSE2", "proved");
 ("ve16asmNEON", "4552de528bd47c1d");
 ("ve16asmSSE2", "378eb74be93041da");
 ("ve8uvasmNEON", "25944432e0826973");
 ("ve8uvasmSSE2", "0ede511009443a42");
 ("yuvPackedToNRGBABatchAVX2", "6061c8949740be2d");
 ("yuvPackedToNRGBABatchSSE2", "25b7c950fb9e0c23")
].

Definition pinned_data_digest : string := "4a33599003dee710".

Lemma asm_bodies_pinned :
  AsmAmd64.asm_digests = pinned_digests /\ AsmAmd64.asm_data_digest = pinned_data_digest.
Proof. split; reflexivity. Qed.

(** The arm64 routines are also emitted as instruction lists (mnemonic, raw
    operands; no semantics yet): the list is complete. *)
Lemma arm64_lists_emitted :
  AsmAmd64.arm64_instruction_count = 924%Z /\
  List.length AsmAmd64.arm64_iTransformOneNEON = 106%nat.
Proof. split; reflexivity. Qed.
