(** C13, part 2 — models of the SIMD algorithms with explicit 16-bit lanes.

    For each kernel that has an SSE2/AVX2 routine in /repo/internal/dsp/*_amd64.s
    this file holds two total Gallina definitions:

    - the *portable* semantics: what the Go function in transforms.go /
      predict_lossy.go / filter.go / lossless_dsp.go / ssim.go computes, over
      unbounded [Z] (Go's [int] is at least 32 bits and none of these kernels
      comes near that, see the bounds in ArchLane16Proofs.v);
    - the *lane-16* semantics: the algorithm the assembly routine implements,
      operation by operation on 16-bit lanes: [PADDW]/[PSUBW] wrap ([add16],
      [sub16]), [PMULHW] is the high half of the signed 16x16 product
      ([mulhi16]) with the constants 20091 and 35468-65536, [PSRAW] is an
      arithmetic shift of the lane, [PACKUSWB] saturates a signed lane to a
      byte, [PADDB] wraps a byte.

    The instruction *text* is not modelled instruction by instruction (register
    allocation, shuffles and transposes are abstracted to the 4x4 data flow they
    implement); the tie to the running assembly is the correspondence check. *)
From Coq Require Import ZArith List Bool Lia.
From Webp Require Import Base.Res.
Import ListNotations.
Open Scope Z_scope.

(** * 16-bit lane arithmetic *)

Definition wrap16 (x : Z) : Z := (x + 32768) mod 65536 - 32768.
Definition int16 (x : Z) : Prop := -32768 <= x <= 32767.
Definition is_int16 (x : Z) : bool := (-32768 <=? x) && (x <=? 32767).
Definition add16 (a b : Z) : Z := wrap16 (a + b).          (* PADDW *)
Definition sub16 (a b : Z) : Z := wrap16 (a - b).          (* PSUBW *)
Definition mulhi16 (a b : Z) : Z := (a * b) / 65536.       (* PMULHW, a b : int16 *)
Definition sra16 (a : Z) (n : Z) : Z := a / 2 ^ n.         (* PSRAW *)
Definition shl16 (a : Z) (n : Z) : Z := wrap16 (a * 2 ^ n). (* PSLLW *)
(** [Clip8b] of cliptables.go and, on a signed 16-bit lane, [PACKUSWB]. *)
Definition clip8 (x : Z) : Z := if x <? 0 then 0 else if 255 <? x then 255 else x.
Definition byte (x : Z) : Prop := 0 <= x <= 255.
Definition is_byte (x : Z) : bool := (0 <=? x) && (x <=? 255).

(** * 4x4 blocks *)

Definition Q := (Z * Z * Z * Z)%type.
Definition M := (Q * Q * Q * Q)%type.

Definition mapQ (f : Z -> Z) (q : Q) : Q :=
  let '(a, b, c, d) := q in (f a, f b, f c, f d).
Definition mapM (f : Q -> Q) (m : M) : M :=
  let '(a, b, c, d) := m in (f a, f b, f c, f d).
Definition map2Q (f : Z -> Z -> Z) (p q : Q) : Q :=
  let '(a, b, c, d) := p in let '(a', b', c', d') := q in (f a a', f b b', f c c', f d d').
Definition map2M (f : Z -> Z -> Z) (m n : M) : M :=
  let '(a, b, c, d) := m in let '(a', b', c', d') := n in
  (map2Q f a a', map2Q f b b', map2Q f c c', map2Q f d d').
Definition transpose (m : M) : M :=
  let '((a0, a1, a2, a3), (b0, b1, b2, b3), (c0, c1, c2, c3), (d0, d1, d2, d3)) := m in
  ((a0, b0, c0, d0), (a1, b1, c1, d1), (a2, b2, c2, d2), (a3, b3, c3, d3)).
Definition forallQ (P : Z -> Prop) (q : Q) : Prop :=
  let '(a, b, c, d) := q in P a /\ P b /\ P c /\ P d.
Definition forallM (P : Z -> Prop) (m : M) : Prop :=
  let '(a, b, c, d) := m in forallQ P a /\ forallQ P b /\ forallQ P c /\ forallQ P d.
Definition listQ (q : Q) : list Z := let '(a, b, c, d) := q in [a; b; c; d].
Definition listM (m : M) : list Z :=
  let '(a, b, c, d) := m in listQ a ++ listQ b ++ listQ c ++ listQ d.

(** A Go kernel reads [in[0..15]]: shorter slices panic, longer ones are fine. *)
Definition blk16 (l : list Z) : Res M :=
  if (16 <=? Z.of_nat (length l)) then
    let g := fun i => nth i l 0 in
    Ok ((g 0%nat, g 1%nat, g 2%nat, g 3%nat), (g 4%nat, g 5%nat, g 6%nat, g 7%nat),
        (g 8%nat, g 9%nat, g 10%nat, g 11%nat), (g 12%nat, g 13%nat, g 14%nat, g 15%nat))
  else Panic.

(** Both passes of every separable 4x4 transform: [b1] on the columns, then [b2]
    on the rows of the intermediate block. *)
Definition two_pass (b1 b2 : Q -> Q) (m : M) : M :=
  mapM b2 (transpose (mapM b1 (transpose m))).

Definition bias0 (k : Z) (q : Q) : Q := let '(a, b, c, d) := q in (a + k, b, c, d).
Definition l_bias0 (k : Z) (q : Q) : Q := let '(a, b, c, d) := q in (add16 a k, b, c, d).

(** * Inverse DCT (transformOne / iTransformOne; iTransformOneSSE2/AVX2) *)

Definition kC1 : Z := 20091.
Definition kC2 : Z := 35468.
Definition mul1 (a : Z) : Z := (a * kC1) / 65536 + a.
Definition mul2 (a : Z) : Z := (a * kC2) / 65536.

Definition bfly (q : Q) : Q :=
  let '(x0, x1, x2, x3) := q in
  let a := x0 + x2 in let b := x0 - x2 in
  let c := mul2 x1 - mul1 x3 in let d := mul1 x1 + mul2 x3 in
  (a + d, b + c, b - c, a - d).

Definition idct_core (m : M) : M := two_pass bfly (fun r => bfly (bias0 4 r)) m.

(** [store]: dst = Clip8b(dst + (x >> 3)). *)
Definition recon (p x : Z) : Z := clip8 (p + x / 8).

(** transformOne(in, dst) resp. iTransformOne(ref, in, dst): the 16 output
    samples in raster order; [pred] are the 16 prediction samples (the 4x4 block
    of dst/ref, stride removed). *)
Definition transform_one (coeffs pred : list Z) : Res (list Z) :=
  c <- blk16 coeffs ;; p <- blk16 pred ;; Ok (listM (map2M recon p (idct_core c))).

(** The SSE2 routine: constants 20091 and 35468 - 65536 = -30068 in 16-bit
    lanes, [mul(x) = PMULHW(x, k) + x], every add/sub a wrapping [PADDW]/[PSUBW],
    [PSRAW $3], then [PADDW] of the zero-extended reference row and [PACKUSWB]. *)
Definition kC2_lane : Z := kC2 - 65536.
Definition l_mul1 (x : Z) : Z := add16 (mulhi16 x kC1) x.
Definition l_mul2 (x : Z) : Z := add16 (mulhi16 x kC2_lane) x.

Definition l_bfly (q : Q) : Q :=
  let '(x0, x1, x2, x3) := q in
  let a := add16 x0 x2 in let b := sub16 x0 x2 in
  let c := sub16 (l_mul2 x1) (l_mul1 x3) in let d := add16 (l_mul1 x1) (l_mul2 x3) in
  (add16 a d, add16 b c, sub16 b c, sub16 a d).

Definition l_idct_core (m : M) : M :=
  two_pass l_bfly (fun r => mapQ (fun x => sra16 x 3) (l_bfly (l_bias0 4 r))) m.

Definition l_recon (p x : Z) : Z := clip8 (add16 x p).

Definition lane16_idct (coeffs pred : list Z) : Res (list Z) :=
  c <- blk16 coeffs ;; p <- blk16 pred ;; Ok (listM (map2M l_recon p (l_idct_core c))).

(** The condition under which no lane that feeds a non-linear operation
    ([PMULHW], [PSRAW]) has wrapped: the odd entries of every intermediate row
    and the 16 final sums are representable in 16 bits.  (Wraps of the other
    lanes are harmless: [wrap16] is a ring homomorphism.) *)
Definition idct_mid (m : M) : M := transpose (mapM bfly (transpose m)).
Definition row_fits (r : Q) : Prop :=
  let '(t0, t1, t2, t3) := r in int16 t1 /\ int16 t3 /\ forallQ int16 (bfly (bias0 4 r)).
Definition idct_fits16 (m : M) : Prop :=
  let '(r0, r1, r2, r3) := idct_mid m in row_fits r0 /\ row_fits r1 /\ row_fits r2 /\ row_fits r3.

(** The widest symmetric coefficient box inside [idct_fits16]
    (see [idct_box_maximal] in ArchLane16Proofs.v). *)
Definition kIdctBox : Z := 2212.
Definition in_range (coeffs : list Z) : Prop := Forall (fun c => - kIdctBox <= c <= kIdctBox) coeffs.

(** * Inverse WHT (transformWHT; transformWHTSSE2) *)

Definition wht_b (q : Q) : Q :=
  let '(x0, x1, x2, x3) := q in
  let a0 := x0 + x3 in let a1 := x1 + x2 in let a2 := x1 - x2 in let a3 := x0 - x3 in
  (a0 + a1, a3 + a2, a0 - a1, a3 - a2).

(** out[...] = int16((..) >> 3): the conversion to int16 truncates. *)
Definition iwht_core (m : M) : M :=
  two_pass wht_b (fun r => mapQ (fun x => wrap16 (x / 8)) (wht_b (bias0 3 r))) m.

Definition transform_wht (coeffs : list Z) : Res (list Z) :=
  c <- blk16 coeffs ;; Ok (listM (iwht_core c)).

Definition l_wht_b (q : Q) : Q :=
  let '(x0, x1, x2, x3) := q in
  let a0 := add16 x0 x3 in let a1 := add16 x1 x2 in let a2 := sub16 x1 x2 in let a3 := sub16 x0 x3 in
  (add16 a0 a1, add16 a3 a2, sub16 a0 a1, sub16 a3 a2).

Definition l_iwht_core (m : M) : M :=
  two_pass l_wht_b (fun r => mapQ (fun x => sra16 x 3) (l_wht_b (l_bias0 3 r))) m.

Definition lane16_wht (coeffs : list Z) : Res (list Z) :=
  c <- blk16 coeffs ;; Ok (listM (l_iwht_core c)).

Definition iwht_fits16 (m : M) : Prop :=
  forallM int16 (mapM (fun r => wht_b (bias0 3 r)) (transpose (mapM wht_b (transpose m)))).

Definition kWhtBox : Z := 2047.
Definition in_range_wht (coeffs : list Z) : Prop := Forall (fun c => - kWhtBox <= c <= kWhtBox) coeffs.

(** * Forward WHT (fTransformWHT; fTransformWHTSSE2) *)

Definition fwht_b (q : Q) : Q :=
  let '(x0, x1, x2, x3) := q in
  let a0 := x0 + x2 in let a1 := x1 + x3 in let a2 := x1 - x3 in let a3 := x0 - x2 in
  (a0 + a1, a3 + a2, a3 - a2, a0 - a1).

(** First pass over the rows, second over the columns (the result is laid out
    out[k*4+i] = b_k of column i). *)
Definition fwht_core (m : M) : M :=
  transpose (mapM (fun c => mapQ (fun x => wrap16 (x / 2)) (fwht_b c)) (transpose (mapM fwht_b m))).

Definition ftransform_wht (coeffs : list Z) : Res (list Z) :=
  c <- blk16 coeffs ;; Ok (listM (fwht_core c)).

Definition l_fwht_b (q : Q) : Q :=
  let '(x0, x1, x2, x3) := q in
  let a0 := add16 x0 x2 in let a1 := add16 x1 x3 in let a2 := sub16 x1 x3 in let a3 := sub16 x0 x2 in
  (add16 a0 a1, add16 a3 a2, sub16 a3 a2, sub16 a0 a1).

Definition l_fwht_core (m : M) : M :=
  transpose (mapM (fun c => mapQ (fun x => sra16 x 1) (l_fwht_b c)) (transpose (mapM l_fwht_b m))).

Definition lane16_fwht (coeffs : list Z) : Res (list Z) :=
  c <- blk16 coeffs ;; Ok (listM (l_fwht_core c)).

Definition fwht_fits16 (m : M) : Prop :=
  forallM int16 (mapM fwht_b (transpose (mapM fwht_b m))).

Definition kFwhtBox : Z := 2047.
Definition in_range_fwht (coeffs : list Z) : Prop := Forall (fun c => - kFwhtBox <= c <= kFwhtBox) coeffs.

(** * TrueMotion prediction (tm16 / tm8uv; tm16asmSSE2 / tm8uvasmSSE2)
    One output sample: Go [Clip8b(left - tl + top)]; SSE2: [(top - tl)] in a
    16-bit lane ([PSUBW]), [+ left] ([PADDW]), [PACKUSWB]. *)
Definition tm_sample (top left tl : Z) : Z := clip8 (left - tl + top).
Definition l_tm_sample (top left tl : Z) : Z := clip8 (add16 (sub16 top tl) left).

(** * AddGreenToBlueAndRed / SubtractGreen on one ARGB pixel given as bytes
    Go: packed uint32 arithmetic with masks; SSE2: byte-wise [PADDB]/[PSUBB]. *)
Definition argb_of (a r g b : Z) : Z := ((a * 256 + r) * 256 + g) * 256 + b.
(** The Go masks and shifts on a uint32 [p], written arithmetically:
    [p & 0x00ff00ff], [p & 0xff00ff00], and [|] of disjoint fields is [+]. *)
Definition and_00ff00ff (p : Z) : Z := p mod 256 + ((p / 65536) mod 256) * 65536.
Definition and_ff00ff00 (p : Z) : Z := ((p / 256) mod 256) * 256 + ((p / 16777216) mod 256) * 16777216.
Definition add_green_go (p : Z) : Z :=
  let green := (p / 256) mod 256 in
  let rb := (and_00ff00ff p + green * 65537) mod 4294967296 in
  and_ff00ff00 p + and_00ff00ff rb.
Definition add_green_lanes (a r g b : Z) : Z :=
  argb_of a ((r + g) mod 256) g ((b + g) mod 256).
Definition sub_green_go (p : Z) : Z :=
  let green := (p / 256) mod 256 in
  let r := (((p / 65536) mod 256) - green) mod 4294967296 in
  let b := ((p mod 256) - green) mod 4294967296 in
  and_ff00ff00 p + (r mod 256) * 65536 + b mod 256.
Definition sub_green_lanes (a r g b : Z) : Z :=
  argb_of a ((r - g) mod 256) g ((b - g) mod 256).

(** * SSE4x4 (sse4x4; sse4x4SSE2): differences in 16-bit lanes, [PMADDWD]
    squares and adds pairs in 32-bit lanes, [PADDD] accumulates. *)
Definition wrap32 (x : Z) : Z := (x + 2147483648) mod 4294967296 - 2147483648.
Definition sse_list (a b : list Z) : Z :=
  fold_right Z.add 0 (map (fun xy => (fst xy - snd xy) * (fst xy - snd xy)) (combine a b)).
Definition l_sq (x y : Z) : Z := let d := sub16 x y in d * d.
Definition l_sse_list (a b : list Z) : Z :=
  fold_right (fun v acc => wrap32 (v + acc)) 0 (map (fun xy => l_sq (fst xy) (snd xy)) (combine a b)).

(** * Simple in-loop filter on one column (needsFilter + doFilter2;
    simpleVFilter16SSE2/AVX2): returns the new (p0, q0). *)
Definition clampz (lo hi x : Z) : Z := if x <? lo then lo else if hi <? x then hi else x.
Definition simple_filter_go (p1 p0 q0 q1 thresh : Z) : Z * Z :=
  let thresh2 := 2 * thresh + 1 in
  if 4 * Z.abs (p0 - q0) + Z.abs (p1 - q1) <=? thresh2 then
    let a := 3 * (q0 - p0) + clampz (-128) 127 (p1 - q1) in
    let a1 := clampz (-16) 15 ((a + 4) / 8) in
    let a2 := clampz (-16) 15 ((a + 3) / 8) in
    (clip8 (p0 + a2), clip8 (q0 - a1))
  else (p0, q0).

Definition max16 (a b : Z) : Z := Z.max a b.   (* PMAXSW *)
Definition min16 (a b : Z) : Z := Z.min a b.   (* PMINSW *)
(** PSUBUSW: unsigned saturating subtract of 16-bit lanes. *)
Definition subus16 (a b : Z) : Z := Z.max 0 (a mod 65536 - b mod 65536).
Definition simple_filter_lane (p1 p0 q0 q1 thresh : Z) : Z * Z :=
  let thresh2 := wrap16 (2 * thresh + 1) in
  let d0 := max16 (sub16 p0 q0) (sub16 q0 p0) in
  let s1 := sub16 p1 q1 in
  let d1 := max16 s1 (sub16 q1 p1) in
  let sum := add16 (shl16 d0 2) d1 in
  let mask := subus16 sum thresh2 =? 0 in
  let s := max16 (-128) (min16 127 s1) in
  let qp := sub16 q0 p0 in
  let a := add16 (add16 (add16 qp qp) qp) s in
  let a1 := max16 (-16) (min16 15 (sra16 (add16 a 4) 3)) in
  let a2 := max16 (-16) (min16 15 (sra16 (add16 a 3) 3)) in
  let a1 := if mask then a1 else 0 in
  let a2 := if mask then a2 else 0 in
  (clip8 (add16 p0 a2), clip8 (sub16 q0 a1)).

(** * Forward DCT (fTransform; fTransformSSE2/AVX2)
    The assembly widens the byte differences to 32-bit lanes; only the operands
    of [PMADDWD] are packed (with signed saturation, [PACKSSDW]) to 16 bits, and
    the result is packed to int16 with saturation where Go truncates. *)
Definition sat16 (x : Z) : Z := clampz (-32768) 32767 x.
Definition pmadd (x0 y0 x1 y1 : Z) : Z := wrap32 (x0 * y0 + x1 * y1).   (* one 32-bit lane of PMADDWD *)
Definition sra32 (a n : Z) : Z := a / 2 ^ n.                             (* PSRAD *)

Definition frow (q : Q) : Q :=
  let '(d0, d1, d2, d3) := q in
  let a0 := d0 + d3 in let a1 := d1 + d2 in let a2 := d1 - d2 in let a3 := d0 - d3 in
  ((a0 + a1) * 8, (a2 * 2217 + a3 * 5352 + 1812) / 512, (a0 - a1) * 8, (a3 * 2217 - a2 * 5352 + 937) / 512).

Definition fcol (q : Q) : Q :=
  let '(t0, t1, t2, t3) := q in
  let a0 := t0 + t3 in let a1 := t1 + t2 in let a2 := t1 - t2 in let a3 := t0 - t3 in
  (wrap16 ((a0 + a1 + 7) / 16),
   wrap16 ((a2 * 2217 + a3 * 5352 + 12000) / 65536 + (if a3 =? 0 then 0 else 1)),
   wrap16 ((a0 - a1 + 7) / 16),
   wrap16 ((a3 * 2217 - a2 * 5352 + 51000) / 65536)).

Definition fdct_core (d : M) : M := transpose (mapM fcol (transpose (mapM frow d))).

(** fTransform(src, ref, out): the 16 coefficients in raster order. *)
Definition ftransform (src ref : list Z) : Res (list Z) :=
  s <- blk16 src ;; r <- blk16 ref ;; Ok (listM (fdct_core (map2M Z.sub s r))).

Definition l_frow (q : Q) : Q :=
  let '(d0, d1, d2, d3) := q in
  let a0 := wrap32 (d0 + d3) in let a1 := wrap32 (d1 + d2) in
  let a2 := wrap32 (d1 - d2) in let a3 := wrap32 (d0 - d3) in
  let s2 := sat16 a2 in let s3 := sat16 a3 in
  (wrap32 (wrap32 (a0 + a1) * 8),
   sra32 (wrap32 (pmadd s2 2217 s3 5352 + 1812)) 9,
   wrap32 (wrap32 (a0 - a1) * 8),
   sra32 (wrap32 (pmadd s3 2217 s2 (-5352) + 937)) 9).

Definition l_fcol (q : Q) : Q :=
  let '(t0, t1, t2, t3) := q in
  let a0 := wrap32 (t0 + t3) in let a1 := wrap32 (t1 + t2) in
  let a2 := wrap32 (t1 - t2) in let a3 := wrap32 (t0 - t3) in
  let s2 := sat16 a2 in let s3 := sat16 a3 in
  (sat16 (sra32 (wrap32 (wrap32 (a0 + a1) + 7)) 4),
   sat16 (wrap32 (sra32 (wrap32 (pmadd s2 2217 s3 5352 + 12000)) 16 + (if a3 =? 0 then 0 else 1))),
   sat16 (sra32 (wrap32 (wrap32 (a0 - a1) + 7)) 4),
   sat16 (sra32 (wrap32 (pmadd s3 2217 s2 (-5352) + 51000)) 16)).

Definition l_fdct_core (d : M) : M := transpose (mapM l_fcol (transpose (mapM l_frow d))).

(** The byte differences are formed in 16-bit lanes (PSUBW on zero-extended bytes). *)
Definition lane32_fdct (src ref : list Z) : Res (list Z) :=
  s <- blk16 src ;; r <- blk16 ref ;; Ok (listM (l_fdct_core (map2M sub16 s r))).

(** * YUV -> RGB of the fancy upsampler (YUVToRGB; yuvPackedToNRGBABatchSSE2/AVX2)
    Go: table-free formula with the clip table; assembly: PMADDWD products in
    32-bit lanes, PSRAD, saturating packs.  kBCb = 33050 does not fit an int16
    lane: the assembly uses 16525 and >> 7. *)
Definition clip_yuv (v : Z) : Z := if v <? 0 then 0 else if 16383 <? v then 255 else clip8 (v / 64).
Definition yuv_r (y v : Z) : Z := clip_yuv ((y * 19077) / 256 + (v * 26149) / 256 - 14234).
Definition yuv_g (y u v : Z) : Z := clip_yuv ((y * 19077) / 256 - (u * 6419) / 256 - (v * 13320) / 256 + 8708).
Definition yuv_b (y u : Z) : Z := clip_yuv ((y * 19077) / 256 + (u * 33050) / 256 - 17685).

Definition pack_u8 (x : Z) : Z := clip8 (sat16 x).  (* PACKSSDW then PACKUSWB *)
Definition l_yuv_r (y v : Z) : Z :=
  pack_u8 (sra32 (wrap32 (wrap32 (sra32 (pmadd y 19077 0 0) 8 + sra32 (pmadd v 26149 0 0) 8) - 14234)) 6).
Definition l_yuv_g (y u v : Z) : Z :=
  pack_u8 (sra32 (wrap32 (wrap32 (wrap32 (sra32 (pmadd y 19077 0 0) 8 - sra32 (pmadd u 6419 0 0) 8)
                                          - sra32 (pmadd v 13320 0 0) 8) + 8708)) 6).
Definition l_yuv_b (y u : Z) : Z :=
  pack_u8 (sra32 (wrap32 (wrap32 (sra32 (pmadd y 19077 0 0) 8 + sra32 (pmadd u 16525 0 0) 7) - 17685)) 6).

(** * Hadamard-domain distortion (tTransform / tDisto4x4Go; tDisto4x4SSE2/AVX2)
    Same butterfly as the forward WHT in both passes, no shift; then
    sum of weight * |coefficient|; the distortion is |sum_b - sum_a| >> 5. *)
Definition hadamard (m : M) : M := transpose (mapM fwht_b (transpose (mapM fwht_b m))).
Definition l_hadamard (m : M) : M := transpose (mapM l_fwht_b (transpose (mapM l_fwht_b m))).
Definition wsum (w h : list Z) : Z :=
  fold_right Z.add 0 (map (fun wh => fst wh * Z.abs (snd wh)) (combine w h)).
Definition abs16 (x : Z) : Z := wrap16 (Z.abs x).    (* (x ^ (x>>15)) - (x>>15) in a 16-bit lane *)
Definition l_wsum (w h : list Z) : Z :=
  fold_right (fun v acc => wrap32 (v + acc)) 0 (map (fun wh => fst wh * abs16 (snd wh)) (combine w h)).
Definition tdisto (w a b : list Z) : Res Z :=
  x <- blk16 a ;; y <- blk16 b ;;
  Ok (Z.abs (wsum w (listM (hadamard y)) - wsum w (listM (hadamard x))) / 32).
Definition l_tdisto (w a b : list Z) : Res Z :=
  x <- blk16 a ;; y <- blk16 b ;;
  Ok (Z.abs (l_wsum w (listM (l_hadamard y)) - l_wsum w (listM (l_hadamard x))) / 32).

(** * AC quantisation of one coefficient (quantizeCoeffsGo; quantizeACSSE2/AVX2)
    Go: uint32 arithmetic (wraps mod 2^32); assembly: |x| and + sharpen in 16-bit
    lanes, PMULUDQ 32x32->64, + bias and >> 17 in 64 bits, low dword compared
    (signed) with 2047, PACKSSDW, sign restored in the 16-bit lane. *)
Definition quant_go (x sharpen iq bias : Z) : Z :=
  let sign := if x <? 0 then -1 else 1 in
  let v := Z.abs x + sharpen in
  let v := if v <? 0 then 0 else v in
  let c := (((v mod 4294967296) * (iq mod 4294967296) + bias mod 4294967296) mod 4294967296) / 131072 in
  let c := if 2047 <? c then 2047 else c in
  wrap16 (sign * c).

Definition quant_lane (x sharpen iq bias : Z) : Z :=
  let a := if x <? 0 then wrap16 (- x) else x in
  let v := Z.max (add16 a sharpen) 0 in
  let p := ((v * (iq mod 4294967296) + bias) mod 18446744073709551616) / 131072 in
  let c32 := wrap32 (p mod 4294967296) in
  let c := if 2047 <? c32 then 2047 else c32 in
  let c := sat16 c in
  if x <? 0 then wrap16 (- c) else c.

