(** C13 — lane-16 results instantiated with tables regenerated from the source. *)
From Coq Require Import ZArith List Lia Bool.
From Webp Require Import Base.Res Arch.ArchLane16 Arch.ArchLane16Proofs.
From WebpGen Require Tables.
Import ListNotations.
Open Scope Z_scope.

(** The perceptual weights of ssim.go (kWeightY) fit the PMADDWD operand range
    the proof needs. *)
Lemma kWeightY_bytes : Forall (fun x => 0 <= x <= 255) WebpGen.Tables.dsp_kWeightY.
Proof. unfold WebpGen.Tables.dsp_kWeightY. repeat (apply Forall_cons; [lia|]). apply Forall_nil. Qed.

Lemma lane16_tdisto_eq_src : forall a b, Forall byte a -> Forall byte b ->
  l_tdisto WebpGen.Tables.dsp_kWeightY a b = tdisto WebpGen.Tables.dsp_kWeightY a b.
Proof. intros a b. apply lane16_tdisto_eq, kWeightY_bytes. Qed.

(** The IDCT constants of transforms.go are the ones the models use. *)
From WebpGen Require Consts.
Lemma idct_constants_match : WebpGen.Consts.dsp_c1 = kC1 /\ WebpGen.Consts.dsp_c2 = kC2 /\ WebpGen.Consts.dsp_BPS = 32.
Proof. repeat split; reflexivity. Qed.

Lemma yuv_constants_match :
  WebpGen.Consts.dsp_kYScale = 19077 /\ WebpGen.Consts.dsp_kRCr = 26149 /\ WebpGen.Consts.dsp_kGCb = 6419 /\
  WebpGen.Consts.dsp_kGCr = 13320 /\ WebpGen.Consts.dsp_kBCb = 2 * 16525 /\
  WebpGen.Consts.dsp_kRBias = 14234 /\ WebpGen.Consts.dsp_kGBias = 8708 /\ WebpGen.Consts.dsp_kBBias = 17685.
Proof. repeat split; reflexivity. Qed.

(** Entry points for the extracted runner. *)
Definition tdisto_src (a b : list Z) : Res Z := tdisto WebpGen.Tables.dsp_kWeightY a b.
Definition l_tdisto_src (a b : list Z) : Res Z := l_tdisto WebpGen.Tables.dsp_kWeightY a b.

(** ** range_reachable: the decoder hands the IDCT int16(level * dq) for any
    token level (|level| <= 2114) and any entry dq of the AC dequantisation
    table of the source (regenerated).  The set is not contained in [in_range]:
    the block of [lane16_idct_differs_refuted] is reachable. *)
Lemma idct_block_2300_reachable :
  Forall (reachable_coeff WebpGen.Tables.lossy_KAcTable) idct_block_2300.
Proof.
  assert (R : reachable_coeff WebpGen.Tables.lossy_KAcTable 2300).
  { exists 100, 23. split; [unfold kMaxLevel; lia|]. split; [|vm_compute; reflexivity].
    unfold WebpGen.Tables.lossy_KAcTable. cbn [In]. do 19 right. left. reflexivity. }
  unfold idct_block_2300. cbn [repeat]. repeat (apply Forall_cons; [exact R|]). apply Forall_nil.
Qed.

Theorem range_reachable_exceeds_in_range : exists coeffs pred,
  Forall (reachable_coeff WebpGen.Tables.lossy_KAcTable) coeffs /\ length coeffs = 16%nat /\
  Forall byte pred /\ ~ in_range coeffs /\
  lane16_idct coeffs pred <> transform_one coeffs pred.
Proof.
  exists idct_block_2300, (repeat 128 16).
  split; [exact idct_block_2300_reachable|]. split; [reflexivity|].
  split; [unfold byte; cbn [repeat]; repeat (apply Forall_cons; [lia|]); apply Forall_nil|].
  split.
  - unfold in_range, kIdctBox, idct_block_2300. cbn [repeat]. intros H. inversion H as [|? ? H1 _]. lia.
  - destruct lane16_idct_differs_witness as [-> ->]. discriminate.
Qed.

(** ** Encoder quantiser tables vs the slack of [ArchEncRange.encSlack]
    For every quantiser index: Y1 DC step <= 157 <= slack_0; for every AC
    position i, sharpen_i(q) + q = ((kFreqSharpening_i * q) >> 11) + q <= slack_i
    for every AC step q of the table; Y2 steps are within [8, 314] (DC, doubled
    kDcTable, floor 8) and [8, 440] (kAcTable2); the Y2 biases are BIAS(96) and
    BIAS(108). *)
From Webp Require Import Arch.ArchEncRange.
Open Scope bool_scope.
Definition enc_tables_ok : bool :=
  forallb (fun q => (4 <=? q) && (q <=? 157)) WebpGen.Tables.lossy_KDcTable &&
  forallb (fun q => (8 <=? Z.max 8 (2 * q)) && (Z.max 8 (2 * q) <=? 314)) WebpGen.Tables.lossy_KDcTable &&
  forallb (fun q => (8 <=? q) && (q <=? 440)) WebpGen.Tables.lossy_KAcTable2 &&
  forallb (fun q =>
     forallb (fun ks => (fst ks * q) / 2048 + q <=? snd ks)
             (combine (tl WebpGen.Tables.lossy_kFreqSharpening) (tl (listM encSlack))))
          WebpGen.Tables.lossy_KAcTable &&
  (157 <=? hd 0 (listM encSlack)) &&
  (nth 1 (nth 0 WebpGen.Tables.lossy_kBiasMatrices []) 0 * 512 <? 131072) &&
  (nth 0 (nth 1 WebpGen.Tables.lossy_kBiasMatrices []) 0 * 512 =? 49152) &&
  (nth 1 (nth 1 WebpGen.Tables.lossy_kBiasMatrices []) 0 * 512 =? 55296) &&
  (Z.of_nat (length WebpGen.Tables.lossy_kFreqSharpening) =? 16).

Lemma enc_tables_within_slack : enc_tables_ok = true.
Proof. vm_compute. reflexivity. Qed.
