(** C13 — checked facts about the source, over [Gen/LaneCalls.v] (regenerated
    from /repo on every run by tools/gosrc2v/lanecalls.go):

    1. every assembly routine of the module is accounted for: it has a lane
       model with a theorem in Properties/C13.v, or an explicit entry saying why
       it is covered by differential execution only;
    2. every call of a lane kernel in the encoder (internal/lossy) receives its
       coefficient input along the chain the range theorems of ArchEncRange.v
       assume:  two byte planes -> FDCT -> (DC gather -> FWHT ->) quantise with a
       segment quantiser -> dequantise with a segment quantiser (-> inverse WHT
       -> DC of a Y1 block) -> inverse DCT.
       The provenance kinds are computed by the translator (per function, source
       order, end-of-function summaries across functions); a call it cannot
       classify carries the kind "?" and fails [lane_events_follow_chain].  *)
From Coq Require Import List String Ascii Bool.
From WebpGen Require LaneCalls.
Import ListNotations.
Open Scope string_scope.

Definition mem (s : string) (l : list string) : bool := existsb (String.eqb s) l.
Definition subset (a b : list string) : bool := forallb (fun x => mem x b) a.

(** ** Call-site provenance *)
Definition event_ok (e : string * string * string * list string) : bool :=
  let '(pos, kernel, sq, kinds) := e in
  if String.prefix "internal/lossy/decode_" pos then
    (* decoder: the input is whatever the stream says (kind "stream"); the
       decoder theorems are range-conditional and the unconditional statement is
       refuted (known findings), nothing to check here *)
    true
  else if mem kernel ["FTransformDirect"; "FTransform"; "FTransform2"] then
    (* residual of two []byte planes: |d| <= 255, C13_lane32_fdct_eq, C13_fdct_core_pos_bounds *)
    subset kinds ["bytes"] && negb (match kinds with [] => true | _ => false end)
  else if String.eqb kernel "FTransformWHT" then
    (* elements of FDCT outputs (|dc| <= 2040): C13_lane16_fwht_eq_on_encoder_input *)
    subset kinds ["dcs"; "param-uncalled"]
  else if mem kernel ["QuantizeCoeffs"; "TrellisQuantizeBlock"; "quantizeCoeffsGo"] then
    if String.eqb sq "Y2" then subset kinds ["fwht"]                      (* C13_y2_quant_error *)
    else if mem sq ["Y1"; "UV"] then subset kinds ["fdct"; "fdct0"]       (* C13_dequant_upper, C13_lane_quant_eq_encoder *)
    else false
  else if mem kernel ["DequantCoeffs"; "dequantCoeffsGo"] then
    (* the levels being dequantised were quantised with the same matrix (Y1 / Y2 / UV):
       buffers are tracked per region of MBEncInfo.Coeffs (luma blocks, chroma blocks, [384:400]) *)
    if mem sq ["Y1"; "Y2"; "UV"] then subset kinds ["lv" ++ sq] && negb (match kinds with [] => true | _ => false end)
    else false
  else if String.eqb kernel "TransformWHT" then
    subset kinds ["dqY2"]                                                 (* C13_encoder_wht_in_range *)
  else if mem kernel ["ITransformDirect"; "ITransform"] then
    subset kinds ["dqY1"; "dqUV"; "dqY1+dc"]                              (* C13_encoder_idct_in_range *)
  else false.

Lemma lane_events_follow_chain : forallb event_ok LaneCalls.lane_events = true.
Proof. vm_compute. reflexivity. Qed.

(** The check has teeth: an unclassified input, a Y2-dequantised block fed to the
    IDCT, or a decoded ("stream") block fed to an encoder kernel is rejected. *)
Example event_ok_rejects :
  event_ok ("internal/lossy/encode_frame.go:1", "ITransformDirect", "", ["?"]) = false /\
  event_ok ("internal/lossy/encode_frame.go:1", "ITransformDirect", "", ["dqY2"]) = false /\
  event_ok ("internal/lossy/encode_frame.go:1", "TransformWHT", "", ["stream"]) = false /\
  event_ok ("internal/lossy/encode_frame.go:1", "QuantizeCoeffs", "Y1", ["lvY1"]) = false /\
  event_ok ("internal/lossy/encode_frame.go:1", "FTransformDirect", "", ["?"]) = false /\
  event_ok ("internal/lossy/encode_frame.go:1", "DequantCoeffs", "Y1", ["lvUV"]) = false /\
  event_ok ("internal/lossy/encode_frame.go:1", "DequantCoeffs", "UV", ["lvUV"; "lvY1"]) = false.
Proof. repeat split; reflexivity. Qed.

(** Every kind of call occurs (the list is not empty or truncated). *)
Lemma lane_events_cover_all_kernels :
  forallb (fun k => existsb (fun e => String.eqb (snd (fst (fst e))) k) LaneCalls.lane_events)
          ["FTransformDirect"; "FTransformWHT"; "QuantizeCoeffs"; "TrellisQuantizeBlock";
           "DequantCoeffs"; "TransformWHT"; "ITransformDirect"] = true.
Proof. vm_compute. reflexivity. Qed.

(** Functions that receive a coefficient buffer without being one of the
    kernels above: reviewed to be readers (token costs, statistics, flatness
    test), the decoder's own transforms, or the assembly bodies behind
    QuantizeCoeffs / DequantCoeffs.  A new one must be looked at. *)
Definition reviewed_readers : list string :=
  ["RecordCoeffs"; "TokenCostForCoeffs"; "Transform"; "TransformAC3"; "TransformUV"; "collectCoeffStats";
   "collectHistogramAlphaWith"; "computeMBAlphaDCTWith"; "computeMBUVAlphaDCTWith"; "dequantCoeffsSSE2";
   "doTransform"; "doTransformDCBlock"; "doUVTransform"; "getCoeffsInline"; "isFlat"; "nzCountACSSE2";
   "quantizeACAVX2"; "quantizeACSSE2"].

Lemma lane_buffer_readers_reviewed : subset LaneCalls.lane_buffer_readers reviewed_readers = true.
Proof. vm_compute. reflexivity. Qed.

(** ** Segment identity: the quantiser matrices all come from one segment

    Every quantiser argument is [&seg.Y1 / .Y2 / .UV] with [seg] a *parameter* of
    the function; every call that passes a *SegmentInfo passes its own [seg]; the
    only bindings of a *SegmentInfo in the encoding path are
    [seg := &enc.dqm[info.Segment]] in encodeFrame / encodeRow (the roots of the
    per-macroblock call trees, where [info] is that macroblock's MBEncInfo); the
    two other bindings are in set-up code that makes no such call.  Together with
    the per-region tracking above: a block is dequantised with the matrix of the
    same kind of the same segment it was quantised with. *)
Fixpoint after_bar (s : string) : string :=
  match s with
  | EmptyString => EmptyString
  | String c t => if Ascii.eqb c "|"%char then t else after_bar t
  end.
Fixpoint before_bar (s : string) : string :=
  match s with
  | EmptyString => EmptyString
  | String c t => if Ascii.eqb c "|"%char then EmptyString else String c (before_bar t)
  end.

Definition root_binders : list string := ["encodeFrame"; "encodeRow"].
Definition reviewed_segbinds : list string :=
  ["setupSegment|seg:=&enc.dqm[idx]"; "setupFilterStrength|m:=&enc.dqm[i]";
   "encodeFrame|seg:=&enc.dqm[info.Segment]"; "encodeRow|seg:=&enc.dqm[info.Segment]"].

Definition seg_fact_ok (all : list (string * string * string)) (f : string * string * string) : bool :=
  let '(pos, what, text) := f in
  if String.eqb what "sqroot" then String.eqb (after_bar text) "param:seg"
  else if String.eqb what "segcall" then
    String.eqb (after_bar text) "seg" &&
    (* the caller either received seg as a parameter or is one of the two roots *)
    (mem (before_bar text) root_binders ||
     negb (existsb (fun g => String.eqb (snd (fst g)) "segbind" && String.eqb (before_bar (snd g)) (before_bar text)) all))
  else if String.eqb what "segbind" then
    mem text reviewed_segbinds &&
    (if mem (before_bar text) root_binders then String.eqb (after_bar text) "seg:=&enc.dqm[info.Segment]" else true)
  else false.

Lemma lane_segments_consistent :
  forallb (seg_fact_ok LaneCalls.lane_seg_facts) LaneCalls.lane_seg_facts = true /\
  existsb (fun f => String.eqb (snd (fst f)) "sqroot") LaneCalls.lane_seg_facts = true /\
  existsb (fun f => String.eqb (snd f) "encodeFrame|seg:=&enc.dqm[info.Segment]") LaneCalls.lane_seg_facts = true.
Proof. vm_compute. repeat split; reflexivity. Qed.

Example seg_fact_ok_rejects :
  seg_fact_ok [] ("p", "sqroot", "f|local:&enc.dqm[0]") = false /\
  seg_fact_ok [] ("p", "segcall", "f|&enc.dqm[k]") = false /\
  seg_fact_ok [("q", "segbind", "f|seg:=&enc.dqm[idx]")] ("p", "segcall", "f|seg") = false /\
  seg_fact_ok [] ("p", "segbind", "encodeFrame|seg:=&enc.dqm[0]") = false.
Proof. repeat split; reflexivity. Qed.

(** ** Assembly inventory: routine -> how it is covered *)
Definition asm_covered : list (string * string) := [
  ("addGreenToBlueAndRedSSE2", "C13_lane16_add_green_eq + C13_row_8_4_1_eq");
  ("addGreenToBlueAndRedAVX2", "C13_lane16_add_green_eq + C13_row_8_4_1_eq");
  ("addGreenToBlueAndRedNEON", "same byte-wise add as SSE2: C13_lane16_add_green_eq; not executable here");
  ("subtractGreenSSE2", "C13_lane16_sub_green_eq + C13_row_8_4_1_eq");
  ("subtractGreenAVX2", "C13_lane16_sub_green_eq + C13_row_8_4_1_eq");
  ("subtractGreenNEON", "same byte-wise sub as SSE2: C13_lane16_sub_green_eq; not executable here");
  ("cpuidAVX2Check", "partial: CPU probe, no data path; AVX2 on/off pipeline runs must agree");
  ("dc16asmSSE2", "C13_lane_dc16_eq"); ("dc8uvasmSSE2", "C13_lane_dc8_eq");
  ("dc16asmNEON", "scalar sums: C13_lane_dc16_eq; not executable here");
  ("dc8uvasmNEON", "scalar sums: C13_lane_dc8_eq; not executable here");
  ("ve16asmSSE2", "partial: byte copy, differential only"); ("ve8uvasmSSE2", "partial: byte copy, differential only");
  ("he16asmSSE2", "partial: byte broadcast, differential only"); ("he8uvasmSSE2", "partial: byte broadcast, differential only");
  ("ve16asmNEON", "partial: byte copy, build matrix only"); ("ve8uvasmNEON", "partial: byte copy, build matrix only");
  ("he16asmNEON", "partial: byte broadcast, build matrix only"); ("he8uvasmNEON", "partial: byte broadcast, build matrix only");
  ("tm16asmSSE2", "C13_lane16_tm_eq"); ("tm8uvasmSSE2", "C13_lane16_tm_eq");
  ("tm16asmNEON", "16-bit add + SQXTUN = the SSE2 lane model: C13_lane16_tm_eq; not executable here");
  ("tm8uvasmNEON", "16-bit add + SQXTUN = the SSE2 lane model: C13_lane16_tm_eq; not executable here");
  ("dequantCoeffsSSE2", "C13_lane_dequant_eq");
  ("quantizeACSSE2", "C13_lane_quant_eq"); ("quantizeACAVX2", "C13_lane_quant_eq");
  ("nzCountACSSE2", "C13_lane_nz_scan_eq");
  ("fTransformSSE2", "C13_lane32_fdct_eq"); ("fTransformAVX2", "C13_lane32_fdct_eq");
  ("fTransformNEON", "partial: 32-bit lanes, truncating narrow; not dispatched (benchmark export only), not modelled");
  ("fTransformWHTSSE2", "C13_asm_fwht_is_lane16_fwht (derived from the instruction list) + C13_lane16_fwht_eq + C13_lane16_fwht_eq_on_encoder_input");
  ("fTransformWHTNEON", "scalar 64-bit registers: the portable arithmetic itself; not executable here");
  ("transformWHTSSE2", "C13_asm_iwht_is_lane16_wht (derived from the instruction list) + C13_lane16_wht_eq, refuted beyond |c|<=2047 (known finding)");
  ("transformWHTNEON", "scalar 64-bit registers: the portable arithmetic itself (so arm64 = portable, differs from amd64 beyond the box); not executable here");
  ("iTransformOneSSE2", "C13_asm_idct_is_lane16_idct (derived from the instruction list) + C13_lane16_idct_eq(_fits), refuted beyond |c|<=2212 (known finding)");
  ("iTransformOneAVX2", "C13_asm_idct_avx2_is_lane16_idct (derived from the instruction list, raw VEX encodings decoded) + C13_lane16_idct_eq(_fits)");
  ("iTransformOneNEON", "C13_idct32_eq (32-bit lanes), refuted beyond |c|<=15735: C13_idct_int_width_differs_refuted; not executable here");
  ("simpleVFilter16SSE2", "C13_lane16_simple_filter_eq"); ("simpleVFilter16AVX2", "C13_lane16_simple_filter_eq");
  ("sse4x4SSE2", "C13_asm_sse4x4_eq_model (model derived from the instruction list) + C13_lane16_sse_eq"); ("sse16x16SSE2", "C13_asm_sse16x16_eq_model (derived from the instruction list) + C13_lane16_sse_blocks_eq"); ("sse16x16AVX2", "C13_lane16_sse_blocks_eq");
  ("sse4x4NEON", "same lane model (16-bit diff, 32-bit squares): C13_lane16_sse_eq; not executable here");
  ("sse16x16NEON", "UABDL + UMULL: neon_abd_square + C13_lane16_sse_blocks_eq; not executable here");
  ("tDisto4x4SSE2", "C13_lane16_tdisto_eq"); ("tDisto4x4AVX2", "C13_lane16_tdisto_eq (two blocks per register)");
  ("yuvPackedToNRGBABatchSSE2", "C13_lane32_yuv_eq + C13_row_8_4_1_eq"); ("yuvPackedToNRGBABatchAVX2", "C13_lane32_yuv_eq + C13_row_8_4_1_eq")
].

Definition asm_inventory_ok : bool :=
  forallb (fun r => mem (snd r) (map fst asm_covered)) LaneCalls.asm_routines &&
  forallb (fun c => mem (fst c) (map snd LaneCalls.asm_routines)) asm_covered &&
  forallb (fun r => String.prefix "internal/dsp/" (fst r) || String.prefix "internal/lossy/" (fst r)) LaneCalls.asm_routines.

(** Every TEXT symbol of every .s file is in the table, the table has no stale
    entry, and assembly lives only in internal/dsp and internal/lossy. *)
Lemma asm_inventory_covered : asm_inventory_ok = true.
Proof. vm_compute. reflexivity. Qed.
