(** C13 — a small semantics for the SSE2 subset used by the SSE routines of
    internal/dsp/ssim_amd64.s, over the instruction lists regenerated from the
    assembly source (Gen/AsmAmd64.v), and the proof that interpreting
    [asm_sse4x4SSE2] / [asm_sse16x16SSE2] on any memory yields the lane model of
    ArchLane16.v (hence, by C13_lane16_sse_eq, the portable Go result).

    Machine state: general registers hold either a 64-bit integer or a pointer
    (named buffer + byte offset); XMM registers hold 128 bits viewed as 16 bytes,
    8 words or 4 dwords (a register written by a word instruction is kept as
    words: [bytes_of] gives the one meaning, see [as_words_bytes]); memory is a
    family of byte buffers; arguments and the result live in the FP frame.
    Control flow: straight-line code and backward conditional jumps to labels,
    executed with fuel. *)
From Coq Require Import ZArith List String Bool Lia.
From Coq Require Import ZifyBool.
From WebpGen Require Import AsmAmd64.
From Webp Require Import Base.Res Arch.ArchLane16 Arch.ArchLane16Proofs.
Import ListNotations.
Open Scope Z_scope.
Open Scope bool_scope.

(** ** lane arithmetic
    The interpreter is parameterised by the lane operations (section variables):
    symbolic execution - [vm_compute], re-run by the kernel's VM at Qed - treats
    them as atoms.  The theorems are proved from the defining equations of the
    operations (section hypotheses) and instantiated with the real operations at
    the end ([run_real]). *)
Definition sx16 (w : Z) : Z := if w <? 32768 then w else w - 65536.         (* signed reading of a word *)
Definition mkw_def (lo hi : Z) : Z := lo + 256 * hi.                       (* two bytes -> unsigned word *)
Definition sub16u_def (a b : Z) : Z := (a - b) mod 65536.                   (* PSUBW on unsigned word values *)
Definition madd32_def (a0 b0 a1 b1 : Z) : Z := (sx16 a0 * sx16 b0 + sx16 a1 * sx16 b1) mod 4294967296.  (* PMADDWD lane *)
Definition add32_def (a b : Z) : Z := (a + b) mod 4294967296.               (* PADDD lane *)

Section Sem.
Variable mkw : Z -> Z -> Z.
Variable sub16u : Z -> Z -> Z.
Variable madd32 : Z -> Z -> Z -> Z -> Z.
Variable add32 : Z -> Z -> Z.
(* signed 16-bit lanes (word kernels): PADDW / PSUBW / PSRAW / PMULHW / PACKUSWB lane *)
Variable add16v : Z -> Z -> Z.
Variable sub16v : Z -> Z -> Z.
Variable sra16v : Z -> Z -> Z.
Variable mulhi16v : Z -> Z -> Z.
Variable packus8v : Z -> Z.

Inductive vec : Type := VB (bytes : list Z) | VW (ws : list Z) | VD (ds : list Z)
  | VS (ss : list Z).   (* eight signed 16-bit lanes (registers of the word kernels) *)

Definition bytes_of_word (w : Z) : list Z := [w mod 256; (w / 256) mod 256].
Definition bytes_of_dword (d : Z) : list Z := [d mod 256; (d / 256) mod 256; (d / 65536) mod 256; (d / 16777216) mod 256].
Definition bytes_of (v : vec) : list Z :=
  match v with VB b => b | VW ws => flat_map bytes_of_word ws | VD ds => flat_map bytes_of_dword ds
  | VS ss => flat_map (fun w => bytes_of_word (w mod 65536)) ss end.
Fixpoint words_of_bytes (b : list Z) : list Z :=
  match b with lo :: hi :: t => mkw lo hi :: words_of_bytes t | _ => [] end.
Definition as_words (v : vec) : option (list Z) :=
  match v with VB b => Some (words_of_bytes b) | VW ws => Some ws | VD _ => None | VS _ => None end.
Definition as_dwords (v : vec) : option (list Z) := match v with VD ds => Some ds | _ => None end.

(** ** machine state *)
Inductive gval : Type := GInt (n : Z) | GPtr (buf : string) (off : Z).

Record state : Type := {
  gpr : list (string * gval);
  xmm : list (string * vec);
  mem : string -> Z -> Z;            (* byte buffers: buffer -> offset -> byte *)
  memw : string -> Z -> Z;           (* int16 buffers: buffer -> element index -> signed value *)
  wbufs : list string;               (* which buffers are int16 buffers *)
  wst : list (string * Z * Z);       (* words stored by the routine: (buffer, element index, value), newest first *)
  bst : list (string * Z * Z);       (* bytes stored by the routine *)
  args : list (string * gval);       (* FP frame: arguments *)
  retv : option Z;                   (* FP frame: result *)
  zf : bool
}.

Fixpoint lookup {A} (k : string) (l : list (string * A)) : option A :=
  match l with [] => None | (k', v) :: t => if String.eqb k k' then Some v else lookup k t end.

Definition upd (s : state) g x w b r z :=
  {| gpr := g; xmm := x; mem := mem s; memw := memw s; wbufs := wbufs s; wst := w; bst := b; args := args s; retv := r; zf := z |}.
Definition set_gpr (s : state) r v := upd s ((r, v) :: gpr s) (xmm s) (wst s) (bst s) (retv s) (zf s).
Definition set_xmm (s : state) r v := upd s (gpr s) ((r, v) :: xmm s) (wst s) (bst s) (retv s) (zf s).
Definition set_ret (s : state) v := upd s (gpr s) (xmm s) (wst s) (bst s) (Some v) (zf s).
Definition set_zf (s : state) b := upd s (gpr s) (xmm s) (wst s) (bst s) (retv s) b.
Definition store_w (s : state) buf i v := upd s (gpr s) (xmm s) ((buf, i, v) :: wst s) (bst s) (retv s) (zf s).
Definition store_b (s : state) buf i v := upd s (gpr s) (xmm s) (wst s) ((buf, i, v) :: bst s) (retv s) (zf s).

Fixpoint stored (l : list (string * Z * Z)) (buf : string) (i : Z) : option Z :=
  match l with
  | [] => None
  | (b, j, v) :: t => if String.eqb b buf && Z.eqb i j then Some v else stored t buf i
  end.

Definition is_xmm (r : string) : bool := String.prefix "X" r.

(** effective address of a memory operand: a pointer register plus displacement
    plus an integer index register times scale *)
Definition addr (s : state) (disp : Z) (base index : string) (scale : Z) : option (string * Z) :=
  match lookup base (gpr s) with
  | Some (GPtr b o) =>
    if String.eqb index "" then Some (b, o + disp)
    else match lookup index (gpr s) with
         | Some (GInt i) => Some (b, o + disp + i * scale)
         | _ => None
         end
  | _ => None
  end.

Definition load (s : state) (b : string) (o : Z) (n : nat) : list Z :=
  map (fun k => mem s b (o + Z.of_nat k)) (seq 0 n).
Definition zeros (n : nat) : list Z := repeat 0 n.

Fixpoint interleave (d s : list Z) : list Z :=
  match d, s with x :: d', y :: s' => x :: y :: interleave d' s' | _, _ => [] end.

Fixpoint map2o (f : Z -> Z -> Z) (a b : list Z) : list Z :=
  match a, b with x :: a', y :: b' => f x y :: map2o f a' b' | _, _ => [] end.

Fixpoint madd_pairs (d s : list Z) : list Z :=
  match d, s with d0 :: d1 :: d', s0 :: s1 :: s' => madd32 d0 s0 d1 s1 :: madd_pairs d' s' | _, _ => [] end.

Definition shufd (imm : Z) (ds : list Z) : list Z :=
  map (fun i => nth (Z.to_nat ((imm / 4 ^ i) mod 4)) ds 0) [0; 1; 2; 3].

(** one instruction; [None] = not covered by this semantics (the proofs below
    show the claimed routines never get there) *)
Definition is_wbuf (s : state) (b : string) : bool := existsb (String.eqb b) (wbufs s).
Definition loadw (s : state) (b : string) (o : Z) (n : nat) : list Z :=
  map (fun k => memw s b (o / 2 + Z.of_nat k)) (seq 0 n).
(* the four signed words of a 64-bit immediate *)
Definition sw (x : Z) : Z := let u := x mod 65536 in if u <? 32768 then u else u - 65536.
Definition words_of_imm (n : Z) : list Z := [sw n; sw (n / 65536); sw (n / 4294967296); sw (n / 281474976710656)].
Definition shufd_w (imm : Z) (ws : list Z) : list Z :=
  flat_map (fun i => let k := Z.to_nat ((imm / 4 ^ i) mod 4) in [nth (2 * k) ws 0; nth (2 * k + 1) ws 0]) [0; 1; 2; 3].
Fixpoint store_bytes (s : state) (b : string) (o : Z) (l : list Z) : state :=
  match l with [] => s | x :: t => store_bytes (store_b s b o x) b (o + 1) t end.
Fixpoint store_words (s : state) (b : string) (i : Z) (l : list Z) : state :=
  match l with [] => s | x :: t => store_words (store_w s b i x) b (i + 1) t end.

Definition is (m k : string) : bool := String.eqb m k.

Definition step (s : state) (m : string) (ops : list opnd) : option state :=
  if is m "MOVQ" then
    match ops with
    | [FP a _; R r] => option_map (set_gpr s r) (lookup a (args s))
    | [Imm n; R r] => Some (set_gpr s r (GInt n))
    | [R r; FP f _] =>
      if is f "ret" then match lookup r (gpr s) with Some (GInt n) => Some (set_ret s n) | _ => None end else None
    | [Mem d b i sc; R x] =>
      if is_xmm x then
        option_map (fun a => if is_wbuf s (fst a)
                             then set_xmm s x (VS (loadw s (fst a) (snd a) 4 ++ zeros 4))
                             else set_xmm s x (VB (load s (fst a) (snd a) 8 ++ zeros 8))) (addr s d b i sc)
      else None
    | [R a; R b] =>
      (* general register -> low 64 bits of an XMM register (upper half zero) *)
      if is_xmm b && negb (is_xmm a) then
        match lookup a (gpr s) with Some (GInt n) => Some (set_xmm s b (VS (words_of_imm n ++ zeros 4))) | _ => None end
      else None
    | [R x; Mem d b i sc] =>
      (* low 64 bits of a word register -> int16 buffer *)
      if is_xmm x then
        match lookup x (xmm s), addr s d b i sc with
        | Some (VS ws), Some a => if is_wbuf s (fst a) then Some (store_words s (fst a) (snd a / 2) (firstn 4 ws)) else None
        | _, _ => None
        end
      else None
    | _ => None
    end
  else if is m "MOVOU" then
    match ops with
    | [Mem d b i sc; R x] =>
      match addr s d b i sc with
      | Some a => if is_wbuf s (fst a) then Some (set_xmm s x (VS (loadw s (fst a) (snd a) 8))) else None
      | None => None
      end
    | _ => None
    end
  else if is m "MOVO" then
    match ops with
    | [R a; R b] => option_map (set_xmm s b) (lookup a (xmm s))
    | _ => None
    end
  else if is m "MOVW" then
    match ops with
    | [R r; Mem d b i sc] =>
      match lookup r (gpr s), addr s d b i sc with
      | Some (GInt v), Some a => if is_wbuf s (fst a) then Some (store_w s (fst a) (snd a / 2) v) else None
      | _, _ => None
      end
    | _ => None
    end
  else if is m "PEXTRW" then
    match ops with
    | [Imm n; R x; R r] =>
      match lookup x (xmm s) with
      | Some (VS ws) => Some (set_gpr s r (GInt (nth (Z.to_nat n) ws 0)))
      | _ => None
      end
    | _ => None
    end
  else if is m "PADDW" then
    match ops with
    | [R a; R b] =>
      match lookup a (xmm s), lookup b (xmm s) with
      | Some (VS wa), Some (VS wb) => Some (set_xmm s b (VS (map2o add16v wb wa)))
      | _, _ => None
      end
    | _ => None
    end
  else if is m "PSRAW" then
    match ops with
    | [Imm n; R b] =>
      match lookup b (xmm s) with
      | Some (VS wb) => Some (set_xmm s b (VS (map (fun w => sra16v w n) wb)))
      | _ => None
      end
    | _ => None
    end
  else if is m "PMULHW" then
    match ops with
    | [R a; R b] =>
      match lookup a (xmm s), lookup b (xmm s) with
      | Some (VS wa), Some (VS wb) => Some (set_xmm s b (VS (map2o mulhi16v wb wa)))
      | _, _ => None
      end
    | _ => None
    end
  else if is m "PUNPCKLWL" then
    match ops with
    | [R a; R b] =>
      match lookup a (xmm s), lookup b (xmm s) with
      | Some (VS wa), Some (VS wb) => Some (set_xmm s b (VS (interleave (firstn 4 wb) (firstn 4 wa))))
      | _, _ => None
      end
    | _ => None
    end
  else if is m "MOVLHPS" then
    match ops with
    | [R a; R b] =>
      match lookup a (xmm s), lookup b (xmm s) with
      | Some (VS wa), Some (VS wb) => Some (set_xmm s b (VS (firstn 4 wb ++ firstn 4 wa)))
      | _, _ => None
      end
    | _ => None
    end
  else if is m "MOVHLPS" then
    match ops with
    | [R a; R b] =>
      match lookup a (xmm s), lookup b (xmm s) with
      | Some (VS wa), Some (VS wb) => Some (set_xmm s b (VS (skipn 4 wa ++ skipn 4 wb)))
      | _, _ => None
      end
    | _ => None
    end
  else if is m "PACKUSWB" then
    match ops with
    | [R a; R b] =>
      match lookup a (xmm s), lookup b (xmm s) with
      | Some (VS wa), Some (VS wb) => Some (set_xmm s b (VB (map packus8v wb ++ map packus8v wa)))
      | _, _ => None
      end
    | _ => None
    end
  else if is m "MOVL" then
    match ops with
    | [Mem d b i sc; R x] =>
      if is_xmm x then option_map (fun a => set_xmm s x (VB (load s (fst a) (snd a) 4 ++ zeros 12))) (addr s d b i sc) else None
    | [R x; R r] =>
      if is_xmm x then
        match lookup x (xmm s) with
        | Some v => match as_dwords v with Some (d0 :: _) => Some (set_gpr s r (GInt d0)) | _ => None end
        | None => None
        end
      else None
    | [R x; Mem d b i sc] =>
      if is_xmm x then
        match lookup x (xmm s), addr s d b i sc with
        | Some (VB bs), Some a => if is_wbuf s (fst a) then None else Some (store_bytes s (fst a) (snd a) (firstn 4 bs))
        | _, _ => None
        end
      else None
    | _ => None
    end
  else if is m "XORQ" then
    match ops with
    | [R a; R b] => if String.eqb a b then Some (set_zf (set_gpr s b (GInt 0)) true) else None
    | _ => None
    end
  else if is m "PXOR" then
    match ops with
    | [R a; R b] => if String.eqb a b then Some (set_xmm s b (VB (zeros 16))) else None
    | _ => None
    end
  else if is m "PUNPCKLBW" then
    match ops with
    | [R a; R b] =>
      match lookup a (xmm s), lookup b (xmm s) with
      | Some (VB sa), Some (VB sb) =>
        if is_wbuf s "in" && forallb (Z.eqb 0) sa then
          (* word kernels: unpacking against a zero register zero-extends the low eight bytes to words *)
          Some (set_xmm s b (VS (firstn 8 sb)))
        else Some (set_xmm s b (VB (interleave (firstn 8 sb) (firstn 8 sa))))
      | _, _ => None
      end
    | _ => None
    end
  else if is m "PSUBW" then
    match ops with
    | [R a; R b] =>
      match lookup a (xmm s), lookup b (xmm s) with
      | Some (VS wa), Some (VS wb) => Some (set_xmm s b (VS (map2o sub16v wb wa)))
      | Some va, Some vb =>
        match as_words va, as_words vb with
        | Some wa, Some wb => Some (set_xmm s b (VW (map2o sub16u wb wa)))
        | _, _ => None
        end
      | _, _ => None
      end
    | _ => None
    end
  else if is m "PMADDWL" then
    match ops with
    | [R a; R b] =>
      match lookup a (xmm s), lookup b (xmm s) with
      | Some va, Some vb =>
        match as_words va, as_words vb with
        | Some wa, Some wb => Some (set_xmm s b (VD (madd_pairs wb wa)))
        | _, _ => None
        end
      | _, _ => None
      end
    | _ => None
    end
  else if is m "PADDL" then
    match ops with
    | [R a; R b] =>
      match lookup a (xmm s), lookup b (xmm s) with
      | Some (VD da), Some (VD db) => Some (set_xmm s b (VD (map2o add32 db da)))
      | Some (VD da), Some (VB zb) =>
        (* the accumulator right after PXOR: sixteen zero bytes = four zero dwords *)
        if forallb (Z.eqb 0) zb && Nat.eqb (List.length zb) 16 then Some (set_xmm s b (VD (map2o add32 [0; 0; 0; 0] da))) else None
      | _, _ => None
      end
    | _ => None
    end
  else if is m "PSHUFD" then
    match ops with
    | [Imm n; R a; R b] =>
      match lookup a (xmm s) with
      | Some (VD da) => Some (set_xmm s b (VD (shufd n da)))
      | Some (VS wa) => Some (set_xmm s b (VS (shufd_w n wa)))
      | _ => None
      end
    | _ => None
    end
  else if is m "ADDQ" then
    match ops with
    | [Imm n; R r] =>
      match lookup r (gpr s) with
      | Some (GInt v) => Some (set_zf (set_gpr s r (GInt (v + n))) (Z.eqb (v + n) 0))
      | Some (GPtr b o) => Some (set_gpr s r (GPtr b (o + n)))
      | None => None
      end
    | _ => None
    end
  else if is m "DECQ" then
    match ops with
    | [R r] =>
      match lookup r (gpr s) with
      | Some (GInt v) => Some (set_zf (set_gpr s r (GInt (v - 1))) (Z.eqb (v - 1) 0))
      | _ => None
      end
    | _ => None
    end
  (* VEX three-operand forms on 128-bit registers (Go order: second source, first source,
     destination): the destination is written, the sources are not modified *)
  else if is m "VPADDW" || is m "VPSUBW" || is m "VPMULHW" then
    match ops with
    | [R a; R b; R d] =>
      match lookup a (xmm s), lookup b (xmm s) with
      | Some (VS wa), Some (VS wb) =>
        Some (set_xmm s d (VS (map2o (if is m "VPADDW" then add16v else if is m "VPSUBW" then sub16v else mulhi16v) wb wa)))
      | _, _ => None
      end
    | _ => None
    end
  else if is m "VPSRAW" then
    match ops with
    | [Imm n; R a; R d] =>
      match lookup a (xmm s) with
      | Some (VS wa) => Some (set_xmm s d (VS (map (fun w => sra16v w n) wa)))
      | _ => None
      end
    | _ => None
    end
  else if is m "VPSHUFD" then
    match ops with
    | [Imm n; R a; R d] =>
      match lookup a (xmm s) with
      | Some (VS wa) => Some (set_xmm s d (VS (shufd_w n wa)))
      | _ => None
      end
    | _ => None
    end
  else if is m "VPUNPCKLWD" || is m "VPUNPCKLQDQ" || is m "VPUNPCKHQDQ" then
    match ops with
    | [R a; R b; R d] =>
      match lookup a (xmm s), lookup b (xmm s) with
      | Some (VS wa), Some (VS wb) =>
        Some (set_xmm s d (VS (if is m "VPUNPCKLWD" then interleave (firstn 4 wb) (firstn 4 wa)
                               else if is m "VPUNPCKLQDQ" then firstn 4 wb ++ firstn 4 wa
                               else skipn 4 wb ++ skipn 4 wa)))
      | _, _ => None
      end
    | _ => None
    end
  else if is m "VPXOR" then
    match ops with
    | [R a; R b; R d] => if String.eqb a b then Some (set_xmm s d (VB (zeros 16))) else None
    | _ => None
    end
  else if is m "VPUNPCKLBW" then
    match ops with
    | [R a; R b; R d] =>
      match lookup a (xmm s), lookup b (xmm s) with
      | Some (VB sa), Some (VB sb) =>
        if forallb (Z.eqb 0) sa then Some (set_xmm s d (VS (firstn 8 sb))) else None
      | _, _ => None
      end
    | _ => None
    end
  else if is m "VPACKUSWB" then
    match ops with
    | [R a; R b; R d] =>
      match lookup a (xmm s), lookup b (xmm s) with
      | Some (VS wa), Some (VS wb) => Some (set_xmm s d (VB (map packus8v wb ++ map packus8v wa)))
      | _, _ => None
      end
    | _ => None
    end
  else if is m "VZEROUPPER" then Some s   (* only 128-bit registers are modelled: the upper halves are never read *)
  else None.

Fixpoint find_label (l : string) (prog : list item) (pos : nat) : option nat :=
  match prog with
  | [] => None
  | L l' :: t => if String.eqb l l' then Some pos else find_label l t (S pos)
  | _ :: t => find_label l t (S pos)
  end.

(** run from program counter [pc]; result: the value stored to ret+..(FP) when
    RET is reached *)
Fixpoint run_st (fuel : nat) (prog : list item) (pc : nat) (s : state) : option state :=
  match fuel with
  | O => None
  | S fuel' =>
    match nth_error prog pc with
    | None => None
    | Some (L _) => run_st fuel' prog (S pc) s
    | Some (I m ops) =>
      if is m "RET" then Some s
      else if is m "JNZ" then
        match ops with
        | [Sym l _] =>
          if zf s then run_st fuel' prog (S pc) s
          else match find_label l prog 0 with Some p => run_st fuel' prog p s | None => None end
        | _ => None
        end
      else match step s m ops with Some s' => run_st fuel' prog (S pc) s' | None => None end
    end
  end.

Definition run (fuel : nat) (prog : list item) (pc : nat) (s : state) : option Z :=
  match run_st fuel prog pc s with Some s' => retv s' | None => None end.

Definition init_state (m : string -> Z -> Z) : state :=
  {| gpr := []; xmm := []; mem := m; memw := fun _ _ => 0; wbufs := []; wst := []; bst := [];
     args := [("pix_base", GPtr "pix" 0); ("ref_base", GPtr "ref" 0)]; retv := None; zf := false |}.

(** word kernels: int16 buffers "in" / "out", byte buffers "ref" / "dst" *)
Definition init_state_w (m mw : string -> Z -> Z) (a : list (string * gval)) : state :=
  {| gpr := []; xmm := []; mem := m; memw := mw; wbufs := ["in"; "out"]; wst := []; bst := [];
     args := a; retv := None; zf := false |}.

Hypothesis mkw_eq : forall lo hi, mkw lo hi = lo + 256 * hi.
Hypothesis sub16u_eq : forall a b, sub16u a b = (a - b) mod 65536.
Hypothesis madd32_eq : forall a0 b0 a1 b1, madd32 a0 b0 a1 b1 = (sx16 a0 * sx16 b0 + sx16 a1 * sx16 b1) mod 4294967296.
Hypothesis add32_eq : forall a b, add32 a b = (a + b) mod 4294967296.

Lemma as_words_bytes ws : Forall (fun w => 0 <= w < 65536) ws -> words_of_bytes (bytes_of (VW ws)) = ws.
Proof.
  induction 1 as [|w ws Hw _ IH]; [reflexivity|]. cbn [bytes_of flat_map bytes_of_word app words_of_bytes] in *.
  rewrite IH. f_equal. rewrite mkw_eq. pose proof (Z.div_mod w 256). rewrite (Z.mod_small (w / 256)); [lia|].
  split; [apply Z.div_pos; lia|apply Z.div_lt_upper_bound; lia].
Qed.

(** ** sse4x4SSE2: the interpreted assembly equals the lane model *)

Definition sq (p r : Z) : Z := (p - r) * (p - r).

Lemma sq_bound p r : 0 <= p <= 255 -> 0 <= r <= 255 -> 0 <= sq p r <= 65025.
Proof.
  intros Hp Hr. unfold sq. set (d := p - r). assert (Hd : -255 <= d <= 255) by (subst d; lia). clearbody d.
  pose proof (Z.square_nonneg d). pose proof (Z.mul_nonneg_nonneg (255 - d) (255 + d) ltac:(lia) ltac:(lia)) as S1.
  replace ((255 - d) * (255 + d)) with (65025 - d * d) in S1 by ring. lia.
Qed.

Lemma sx16_sub p r : 0 <= p <= 255 -> 0 <= r <= 255 -> sx16 (sub16u (mkw p 0) (mkw r 0)) = p - r.
Proof.
  intros Hp Hr. rewrite sub16u_eq, !mkw_eq. unfold sx16. rewrite !Z.mul_0_r, !Z.add_0_r.
  destruct (Z.le_gt_cases r p) as [H|H].
  - rewrite Z.mod_small by lia. destruct (Z.ltb_spec (p - r) 32768); lia.
  - replace ((p - r) mod 65536) with (p - r + 65536).
    + destruct (Z.ltb_spec (p - r + 65536) 32768); lia.
    + apply (Z.mod_unique_pos (p - r) 65536 (-1)); lia.
Qed.

Lemma madd32_sq p0 r0 p1 r1 :
  0 <= p0 <= 255 -> 0 <= r0 <= 255 -> 0 <= p1 <= 255 -> 0 <= r1 <= 255 ->
  madd32 (sub16u (mkw p0 0) (mkw r0 0)) (sub16u (mkw p0 0) (mkw r0 0))
         (sub16u (mkw p1 0) (mkw r1 0)) (sub16u (mkw p1 0) (mkw r1 0)) = sq p0 r0 + sq p1 r1.
Proof.
  intros. rewrite madd32_eq. rewrite !sx16_sub by assumption. fold (sq p0 r0) (sq p1 r1).
  pose proof (sq_bound p0 r0 ltac:(assumption) ltac:(assumption)).
  pose proof (sq_bound p1 r1 ltac:(assumption) ltac:(assumption)).
  apply Z.mod_small. lia.
Qed.

Lemma add32_small a b : 0 <= a -> 0 <= b -> a + b < 4294967296 -> add32 a b = a + b.
Proof. intros. rewrite add32_eq. apply Z.mod_small. lia. Qed.

(** the 4x4 block of a buffer at stride 32, in raster order *)
Definition block4 (m : string -> Z -> Z) (b : string) : list Z :=
  flat_map (fun row => map (fun col => m b (32 * row + col)) [0; 1; 2; 3]) [0; 1; 2; 3].

Definition block16 (m : string -> Z -> Z) (b : string) : list Z :=
  flat_map (fun row => map (fun col => m b (32 * row + col)) [0; 1; 2; 3; 4; 5; 6; 7; 8; 9; 10; 11; 12; 13; 14; 15])
           [0; 1; 2; 3; 4; 5; 6; 7; 8; 9; 10; 11; 12; 13; 14; 15].

(** ** The shape of what the SSE routines compute: a tree of wrapping 32-bit
    additions whose leaves are PMADDWD lanes of two pixel differences (or zero
    lanes).  A leaf records only the two byte offsets it reads. *)
Inductive sse_tree : Type :=
| TZ                                   (* literal 0 *)
| TZM                                  (* PMADDWD lane of four zero words (unused upper lanes of the 4x4 routine) *)
| TL (o0 o1 : Z)                       (* PMADDWD lane: pix/ref bytes at offsets o0 and o1 *)
| TN (a b : sse_tree).

Section Trees.
Variable m : string -> Z -> Z.
Hypothesis Hm : forall b o, 0 <= m b o <= 255.

Definition dlane (o : Z) : Z := sub16u (mkw (m "pix" o) 0) (mkw (m "ref" o) 0).
Definition zlane : Z := sub16u (mkw 0 0) (mkw 0 0).

Fixpoint eval32 (t : sse_tree) : Z :=
  match t with
  | TZ => 0
  | TZM => madd32 zlane zlane zlane zlane
  | TL o0 o1 => madd32 (dlane o0) (dlane o0) (dlane o1) (dlane o1)
  | TN a b => add32 (eval32 a) (eval32 b)
  end.

Definition sqo (o : Z) : Z := sq (m "pix" o) (m "ref" o).
Fixpoint evalsq (t : sse_tree) : Z :=
  match t with TZ | TZM => 0 | TL o0 o1 => sqo o0 + sqo o1 | TN a b => evalsq a + evalsq b end.
Fixpoint nleaves (t : sse_tree) : Z :=
  match t with TZ | TZM | TL _ _ => 1 | TN a b => nleaves a + nleaves b end.

Lemma nleaves_pos t : 1 <= nleaves t.
Proof. induction t; cbn [nleaves]; lia. Qed.

Lemma zlane_madd : madd32 zlane zlane zlane zlane = 0.
Proof. unfold zlane. rewrite madd32_eq, sub16u_eq, !mkw_eq. reflexivity. Qed.

Lemma eval32_sq t : 130050 * nleaves t < 4294967296 -> eval32 t = evalsq t /\ 0 <= evalsq t <= 130050 * nleaves t.
Proof.
  induction t as [| |o0 o1|a IHa b IHb]; cbn [eval32 evalsq nleaves]; intros HL.
  - lia.
  - rewrite zlane_madd. lia.
  - unfold dlane. rewrite madd32_sq by apply Hm. unfold sqo.
    pose proof (sq_bound _ _ (Hm "pix" o0) (Hm "ref" o0)). pose proof (sq_bound _ _ (Hm "pix" o1) (Hm "ref" o1)). lia.
  - pose proof (nleaves_pos a). pose proof (nleaves_pos b).
    destruct (IHa ltac:(lia)) as [Ea Ba]. destruct (IHb ltac:(lia)) as [Eb Bb].
    rewrite Ea, Eb. split; [apply add32_small; lia|lia].
Qed.
End Trees.

Ltac reify_sse t :=
  lazymatch t with
  | add32 ?a ?b => let ra := reify_sse a in let rb := reify_sse b in constr:(TN ra rb)
  | madd32 (sub16u (mkw (_ _ ?o0) 0) _) _ (sub16u (mkw (_ _ ?o1) 0) _) _ => constr:(TL o0 o1)
  | madd32 (sub16u (mkw 0 0) _) _ _ _ => constr:(TZM)
  | 0 => constr:(TZ)
  end.

(** ** sse4x4SSE2 *)
Definition res4 := Eval vm_compute in (fun m => run 100 asm_sse4x4SSE2 0 (init_state m)).

Lemma run_res4 m : run 100 asm_sse4x4SSE2 0 (init_state m) = res4 m.
Proof. vm_compute. reflexivity. Qed.

Section Reify4.
Variable mm : string -> Z -> Z.
Definition tree4 : sse_tree :=
  ltac:(let r := eval cbv beta delta [res4] in (res4 mm) in
        lazymatch r with Some ?e => let t := reify_sse e in exact t end).
End Reify4.

Lemma res4_tree m : res4 m = Some (eval32 m tree4).
Proof. vm_compute. reflexivity. Qed.

Lemma evalsq_tree4 m : evalsq m tree4 = sse_list (block4 m "pix") (block4 m "ref").
Proof.
  unfold tree4. cbn [evalsq]. unfold sqo, sq, sse_list, block4.
  cbn [flat_map map app combine fold_right fst snd Z.mul Z.add Pos.mul Pos.add]. lia.
Qed.

Theorem asm_sse4x4_eq_model : forall m, (forall b o, 0 <= m b o <= 255) ->
  run 100 asm_sse4x4SSE2 0 (init_state m) = Some (l_sse_list (block4 m "pix") (block4 m "ref")).
Proof.
  intros m Hm. rewrite run_res4, res4_tree. f_equal.
  rewrite lane16_sse_eq.
  - destruct (eval32_sq m Hm tree4) as [E _]; [vm_compute; reflexivity|]. rewrite E. apply evalsq_tree4.
  - unfold block4; cbn [flat_map map app]; repeat (apply Forall_cons; [apply Hm|]); apply Forall_nil.
  - unfold block4; cbn [flat_map map app]; repeat (apply Forall_cons; [apply Hm|]); apply Forall_nil.
  - unfold block4; cbn; lia.
Qed.

(** ** sse16x16SSE2: the counted loop (CX = 16) is run by the interpreter inside
    the VM; the result is the same kind of tree with 128 PMADDWD leaves. *)
Definition res16 := Eval vm_compute in (fun m => run 600 asm_sse16x16SSE2 0 (init_state m)).

Lemma run_res16 m : run 600 asm_sse16x16SSE2 0 (init_state m) = res16 m.
Proof. vm_compute. reflexivity. Qed.

Section Reify16.
Variable mm : string -> Z -> Z.
Definition tree16 : sse_tree :=
  ltac:(let r := eval cbv beta delta [res16] in (res16 mm) in
        lazymatch r with Some ?e => let t := reify_sse e in exact t end).
End Reify16.

Lemma res16_tree m : res16 m = Some (eval32 m tree16).
Proof. vm_compute. reflexivity. Qed.

Lemma evalsq_tree16 m : evalsq m tree16 = sse_list (block16 m "pix") (block16 m "ref").
Proof.
  unfold tree16. cbn [evalsq]. unfold sqo, sq, sse_list, block16.
  cbn [flat_map map app combine fold_right fst snd Z.mul Z.add Pos.mul Pos.add]. lia.
Qed.

Theorem asm_sse16x16_eq_model : forall m, (forall b o, 0 <= m b o <= 255) ->
  run 600 asm_sse16x16SSE2 0 (init_state m) = Some (l_sse_list (block16 m "pix") (block16 m "ref")).
Proof.
  intros m Hm. rewrite run_res16, res16_tree. f_equal.
  rewrite lane16_sse_eq.
  - destruct (eval32_sq m Hm tree16) as [E _]; [vm_compute; reflexivity|]. rewrite E. apply evalsq_tree16.
  - unfold block16; cbn [flat_map map app]; repeat (apply Forall_cons; [apply Hm|]); apply Forall_nil.
  - unfold block16; cbn [flat_map map app]; repeat (apply Forall_cons; [apply Hm|]); apply Forall_nil.
  - unfold block16; cbn; lia.
Qed.

(** ** transformWHTSSE2 / fTransformWHTSSE2: word kernels.
    The generic butterflies below are the lane models of ArchLane16.v with the
    lane operations abstracted; interpreting the instruction list inside the VM
    yields, for the sixteen stored words, literally the same operation trees. *)
Definition g_wht_b (q : Q) : Q :=
  let '(x0, x1, x2, x3) := q in
  let a0 := add16v x0 x3 in let a1 := add16v x1 x2 in let a2 := sub16v x1 x2 in let a3 := sub16v x0 x3 in
  (add16v a0 a1, add16v a3 a2, sub16v a0 a1, sub16v a3 a2).
Definition g_bias0 (k : Z) (q : Q) : Q := let '(a, b, c, d) := q in (add16v a k, b, c, d).
Definition g_iwht_core (c : M) : M :=
  two_pass g_wht_b (fun r => mapQ (fun x => sra16v x 3) (g_wht_b (g_bias0 3 r))) c.

Definition g_fwht_b (q : Q) : Q :=
  let '(x0, x1, x2, x3) := q in
  let a0 := add16v x0 x2 in let a1 := add16v x1 x3 in let a2 := sub16v x1 x3 in let a3 := sub16v x0 x2 in
  (add16v a0 a1, add16v a3 a2, sub16v a3 a2, sub16v a0 a1).
Definition g_fwht_core (c : M) : M :=
  transpose (mapM (fun q => mapQ (fun x => sra16v x 1) (g_fwht_b q)) (transpose (mapM g_fwht_b c))).

Definition blkw (mw : string -> Z -> Z) (b : string) : M :=
  ((mw b 0, mw b 1, mw b 2, mw b 3), (mw b 4, mw b 5, mw b 6, mw b 7),
   (mw b 8, mw b 9, mw b 10, mw b 11), (mw b 12, mw b 13, mw b 14, mw b 15)).

Definition wht_args : list (string * gval) := [("in_base", GPtr "in" 0); ("out_base", GPtr "out" 0)].
Definition out_words (s : state) (idx : list Z) : list (option Z) := map (stored (wst s) "out") idx.
Definition idx16 : list Z := [0; 1; 2; 3; 4; 5; 6; 7; 8; 9; 10; 11; 12; 13; 14; 15].

(** the rounding constant 3 is added as the vector (3,3,3,3,0,0,0,0): the upper
    lanes receive + 0, which a wrapping add absorbs *)
Hypothesis add16v_0 : forall a b, add16v (add16v a b) 0 = add16v a b.
Hypothesis add16v_0s : forall a b, add16v (sub16v a b) 0 = sub16v a b.

(** inverse WHT: the sixteen DCs are stored at element indices 0, 16, ..., 240 *)
Theorem asm_iwht_eq_model : forall m mw,
  option_map (fun s => out_words s (map (Z.mul 16) idx16))
             (run_st 200 asm_transformWHTSSE2 0 (init_state_w m mw wht_args))
  = Some (map Some (listM (g_iwht_core (blkw mw "in")))).
Proof. intros m mw. vm_compute. rewrite !add16v_0, !add16v_0s. reflexivity. Qed.

(** forward WHT: sixteen words stored contiguously *)
Theorem asm_fwht_eq_model : forall m mw,
  option_map (fun s => out_words s idx16)
             (run_st 200 asm_fTransformWHTSSE2 0 (init_state_w m mw wht_args))
  = Some (map Some (listM (g_fwht_core (blkw mw "in")))).
Proof. intros m mw. vm_compute. reflexivity. Qed.

(** ** iTransformOneSSE2: the 4x4 inverse DCT *)
Definition g_mul1 (x : Z) : Z := add16v (mulhi16v x 20091) x.
Definition g_mul2 (x : Z) : Z := add16v (mulhi16v x (-30068)) x.
Definition g_bfly (q : Q) : Q :=
  let '(x0, x1, x2, x3) := q in
  let a := add16v x0 x2 in let b := sub16v x0 x2 in
  let c := sub16v (g_mul2 x1) (g_mul1 x3) in let d := add16v (g_mul1 x1) (g_mul2 x3) in
  (add16v a d, add16v b c, sub16v b c, sub16v a d).
Definition g_idct_core (c : M) : M :=
  two_pass g_bfly (fun r => mapQ (fun x => sra16v x 3) (g_bfly (g_bias0 4 r))) c.
Definition g_recon (p x : Z) : Z := packus8v (add16v x p).

Definition blkb (m : string -> Z -> Z) (b : string) : M :=
  ((m b 0, m b 1, m b 2, m b 3), (m b 32, m b 33, m b 34, m b 35),
   (m b 64, m b 65, m b 66, m b 67), (m b 96, m b 97, m b 98, m b 99)).
Definition idct_args : list (string * gval) :=
  [("ref_base", GPtr "ref" 0); ("in_base", GPtr "in" 0); ("dst_base", GPtr "dst" 0)].
Definition dst_offsets : list Z := [0; 1; 2; 3; 32; 33; 34; 35; 64; 65; 66; 67; 96; 97; 98; 99].

Theorem asm_idct_eq_model : forall m mw,
  option_map (fun s => map (stored (bst s) "dst") dst_offsets)
             (run_st 300 asm_iTransformOneSSE2 0 (init_state_w m mw idct_args))
  = Some (map Some (listM (map2M g_recon (blkb m "ref") (g_idct_core (blkw mw "in"))))).
Proof. intros m mw. vm_compute. reflexivity. Qed.

(** iTransformOneAVX2: the VEX-encoded variant (three-operand forms on 128-bit
    registers, VPMULHW / VPACKUSWB decoded from their raw encodings by the
    translator) computes literally the same operation trees. *)
Theorem asm_idct_avx2_eq_model : forall m mw,
  option_map (fun s => map (stored (bst s) "dst") dst_offsets)
             (run_st 300 asm_iTransformOneAVX2 0 (init_state_w m mw idct_args))
  = Some (map Some (listM (map2M g_recon (blkb m "ref") (g_idct_core (blkw mw "in"))))).
Proof. intros m mw. vm_compute. reflexivity. Qed.

End Sem.

(** ** The real lane operations *)
Definition run_real := run mkw_def sub16u_def madd32_def add32_def add16 sub16 sra16 mulhi16 clip8.
Definition run_st_real := run_st mkw_def sub16u_def madd32_def add32_def add16 sub16 sra16 mulhi16 clip8.

Theorem asm_sse4x4_eq_model_real : forall m, (forall b o, 0 <= m b o <= 255) ->
  run_real 100 asm_sse4x4SSE2 0 (init_state m) = Some (l_sse_list (block4 m "pix") (block4 m "ref")).
Proof. intros m Hm. apply asm_sse4x4_eq_model; auto. Qed.

Theorem asm_sse16x16_eq_model_real : forall m, (forall b o, 0 <= m b o <= 255) ->
  run_real 600 asm_sse16x16SSE2 0 (init_state m) = Some (l_sse_list (block16 m "pix") (block16 m "ref")).
Proof. intros m Hm. apply asm_sse16x16_eq_model; auto. Qed.

(** ** Word kernels with the real lane operations: the interpreted assembly
    computes the lane models of ArchLane16.v. *)
Lemma add16_0 a b : add16 (add16 a b) 0 = add16 a b.
Proof. unfold add16, wrap16. rewrite Z.add_0_r. Z.div_mod_to_equations. lia. Qed.
Lemma add16_0s a b : add16 (sub16 a b) 0 = sub16 a b.
Proof. unfold add16, sub16, wrap16. rewrite Z.add_0_r. Z.div_mod_to_equations. lia. Qed.

Definition res_list (r : Res (list Z)) : option (list (option Z)) :=
  match r with Ok l => Some (map Some l) | _ => None end.

(** transformWHTSSE2 = [lane16_wht] on the sixteen coefficients of the "in" buffer;
    the DCs land at element indices 0, 16, ..., 240 of "out". *)
Theorem asm_iwht_is_lane16_wht : forall m mw,
  option_map (fun s => out_words s (map (Z.mul 16) idx16))
             (run_st_real 200 asm_transformWHTSSE2 0 (init_state_w m mw wht_args))
  = res_list (lane16_wht (map (mw "in") idx16)).
Proof.
  intros m mw. unfold run_st_real.
  rewrite (asm_iwht_eq_model mkw_def sub16u_def madd32_def add32_def add16 sub16 sra16 mulhi16 clip8 add16_0 add16_0s m mw).
  reflexivity.
Qed.

Theorem asm_fwht_is_lane16_fwht : forall m mw,
  option_map (fun s => out_words s idx16)
             (run_st_real 200 asm_fTransformWHTSSE2 0 (init_state_w m mw wht_args))
  = res_list (lane16_fwht (map (mw "in") idx16)).
Proof.
  intros m mw. unfold run_st_real.
  rewrite (asm_fwht_eq_model mkw_def sub16u_def madd32_def add32_def add16 sub16 sra16 mulhi16 clip8 m mw).
  reflexivity.
Qed.

(** iTransformOneSSE2 = [lane16_idct] on the coefficients of "in" and the 4x4
    block of "ref" (stride 32); the result is stored to the same block of "dst". *)
Theorem asm_idct_is_lane16_idct : forall m mw,
  option_map (fun s => map (stored (bst s) "dst") dst_offsets)
             (run_st_real 300 asm_iTransformOneSSE2 0 (init_state_w m mw idct_args))
  = res_list (lane16_idct (map (mw "in") idx16) (map (m "ref") dst_offsets)).
Proof.
  intros m mw. unfold run_st_real.
  rewrite (asm_idct_eq_model mkw_def sub16u_def madd32_def add32_def add16 sub16 sra16 mulhi16 clip8 m mw).
  reflexivity.
Qed.

Theorem asm_idct_avx2_is_lane16_idct : forall m mw,
  option_map (fun s => map (stored (bst s) "dst") dst_offsets)
             (run_st_real 300 asm_iTransformOneAVX2 0 (init_state_w m mw idct_args))
  = res_list (lane16_idct (map (mw "in") idx16) (map (m "ref") dst_offsets)).
Proof.
  intros m mw. unfold run_st_real.
  rewrite (asm_idct_avx2_eq_model mkw_def sub16u_def madd32_def add32_def add16 sub16 sra16 mulhi16 clip8 m mw).
  reflexivity.
Qed.
