(** C13 — a small semantics for the SSE2 subset used by the SSE routines of
    internal/dsp/ssim_amd64.s, over the instruction lists regenerated from the
    assembly source (Gen/AsmAmd64.v), and the proof that interpreting
    [asm_sse4x4SSE2] / [asm_sse16x16SSE2] on any memory yields the lane model of
    ArchLane16.v (hence, by C13_lane16_sse_eq, the portable Go result).

    Machine state: general registers hold either a 64-bit integer or a pointer
    (named buffer + byte offset); XMM registers hold 128 bits viewed as 16 bytes,
    8 words or 4 dwords (a register written by a word instruction is kept as
    words: [bytes_of] gives the one meaning, see [as_words_bytes]); memory is a
    family of byte buffers; arguments and the result live in the FP frame.
    Control flow: straight-line code and backward conditional jumps to labels,
    executed with fuel. *)
From Coq Require Import ZArith List String Bool Lia.
From WebpGen Require Import AsmAmd64.
Import ListNotations.
Open Scope Z_scope.
Open Scope bool_scope.

(** ** lane arithmetic (kept folded during symbolic execution) *)
Definition mkw (lo hi : Z) : Z := lo + 256 * hi.                       (* two bytes -> unsigned word *)
Definition sub16u (a b : Z) : Z := (a - b) mod 65536.                   (* PSUBW on unsigned word values *)
Definition sx16 (w : Z) : Z := if w <? 32768 then w else w - 65536.     (* signed reading of a word *)
Definition madd32 (a0 b0 a1 b1 : Z) : Z := (sx16 a0 * sx16 b0 + sx16 a1 * sx16 b1) mod 4294967296.  (* PMADDWD lane *)
Definition add32 (a b : Z) : Z := (a + b) mod 4294967296.               (* PADDD lane *)

Inductive vec : Type := VB (bytes : list Z) | VW (ws : list Z) | VD (ds : list Z).

Definition bytes_of_word (w : Z) : list Z := [w mod 256; (w / 256) mod 256].
Definition bytes_of_dword (d : Z) : list Z := [d mod 256; (d / 256) mod 256; (d / 65536) mod 256; (d / 16777216) mod 256].
Definition bytes_of (v : vec) : list Z :=
  match v with VB b => b | VW ws => flat_map bytes_of_word ws | VD ds => flat_map bytes_of_dword ds end.
Fixpoint words_of_bytes (b : list Z) : list Z :=
  match b with lo :: hi :: t => mkw lo hi :: words_of_bytes t | _ => [] end.
Definition as_words (v : vec) : option (list Z) :=
  match v with VB b => Some (words_of_bytes b) | VW ws => Some ws | VD _ => None end.
Definition as_dwords (v : vec) : option (list Z) := match v with VD ds => Some ds | _ => None end.

Lemma as_words_bytes ws : Forall (fun w => 0 <= w < 65536) ws -> words_of_bytes (bytes_of (VW ws)) = ws.
Proof.
  induction 1 as [|w ws Hw _ IH]; [reflexivity|]. cbn [bytes_of flat_map bytes_of_word app words_of_bytes] in *.
  rewrite IH. f_equal. unfold mkw. pose proof (Z.div_mod w 256). rewrite (Z.mod_small (w / 256)); [lia|].
  split; [apply Z.div_pos; lia|apply Z.div_lt_upper_bound; lia].
Qed.

(** ** machine state *)
Inductive gval : Type := GInt (n : Z) | GPtr (buf : string) (off : Z).

Record state : Type := {
  gpr : list (string * gval);
  xmm : list (string * vec);
  mem : string -> Z -> Z;            (* buffer -> offset -> byte *)
  args : list (string * gval);       (* FP frame: arguments *)
  retv : option Z;                   (* FP frame: result *)
  zf : bool
}.

Fixpoint lookup {A} (k : string) (l : list (string * A)) : option A :=
  match l with [] => None | (k', v) :: t => if String.eqb k k' then Some v else lookup k t end.

Definition set_gpr (s : state) r v := {| gpr := (r, v) :: gpr s; xmm := xmm s; mem := mem s; args := args s; retv := retv s; zf := zf s |}.
Definition set_xmm (s : state) r v := {| gpr := gpr s; xmm := (r, v) :: xmm s; mem := mem s; args := args s; retv := retv s; zf := zf s |}.
Definition set_ret (s : state) v := {| gpr := gpr s; xmm := xmm s; mem := mem s; args := args s; retv := Some v; zf := zf s |}.
Definition set_zf (s : state) b := {| gpr := gpr s; xmm := xmm s; mem := mem s; args := args s; retv := retv s; zf := b |}.

Definition is_xmm (r : string) : bool := String.prefix "X" r.

(** effective address of a memory operand: a pointer register plus displacement
    plus an integer index register times scale *)
Definition addr (s : state) (disp : Z) (base index : string) (scale : Z) : option (string * Z) :=
  match lookup base (gpr s) with
  | Some (GPtr b o) =>
    if String.eqb index "" then Some (b, o + disp)
    else match lookup index (gpr s) with
         | Some (GInt i) => Some (b, o + disp + i * scale)
         | _ => None
         end
  | _ => None
  end.

Definition load (s : state) (b : string) (o : Z) (n : nat) : list Z :=
  map (fun k => mem s b (o + Z.of_nat k)) (seq 0 n).
Definition zeros (n : nat) : list Z := repeat 0 n.

Fixpoint interleave (d s : list Z) : list Z :=
  match d, s with x :: d', y :: s' => x :: y :: interleave d' s' | _, _ => [] end.

Fixpoint map2o (f : Z -> Z -> Z) (a b : list Z) : list Z :=
  match a, b with x :: a', y :: b' => f x y :: map2o f a' b' | _, _ => [] end.

Fixpoint madd_pairs (d s : list Z) : list Z :=
  match d, s with d0 :: d1 :: d', s0 :: s1 :: s' => madd32 d0 s0 d1 s1 :: madd_pairs d' s' | _, _ => [] end.

Definition shufd (imm : Z) (ds : list Z) : list Z :=
  map (fun i => nth (Z.to_nat ((imm / 4 ^ i) mod 4)) ds 0) [0; 1; 2; 3].

(** one instruction; [None] = not covered by this semantics (the proofs below
    show the claimed routines never get there) *)
Definition is (m k : string) : bool := String.eqb m k.

Definition step (s : state) (m : string) (ops : list opnd) : option state :=
  if is m "MOVQ" then
    match ops with
    | [FP a _; R r] => option_map (set_gpr s r) (lookup a (args s))
    | [Imm n; R r] => Some (set_gpr s r (GInt n))
    | [R r; FP f _] =>
      if is f "ret" then match lookup r (gpr s) with Some (GInt n) => Some (set_ret s n) | _ => None end else None
    | [Mem d b i sc; R x] =>
      if is_xmm x then option_map (fun a => set_xmm s x (VB (load s (fst a) (snd a) 8 ++ zeros 8))) (addr s d b i sc) else None
    | _ => None
    end
  else if is m "MOVL" then
    match ops with
    | [Mem d b i sc; R x] =>
      if is_xmm x then option_map (fun a => set_xmm s x (VB (load s (fst a) (snd a) 4 ++ zeros 12))) (addr s d b i sc) else None
    | [R x; R r] =>
      if is_xmm x then
        match lookup x (xmm s) with
        | Some v => match as_dwords v with Some (d0 :: _) => Some (set_gpr s r (GInt d0)) | _ => None end
        | None => None
        end
      else None
    | _ => None
    end
  else if is m "XORQ" then
    match ops with
    | [R a; R b] => if String.eqb a b then Some (set_zf (set_gpr s b (GInt 0)) true) else None
    | _ => None
    end
  else if is m "PXOR" then
    match ops with
    | [R a; R b] => if String.eqb a b then Some (set_xmm s b (VB (zeros 16))) else None
    | _ => None
    end
  else if is m "PUNPCKLBW" then
    match ops with
    | [R a; R b] =>
      match lookup a (xmm s), lookup b (xmm s) with
      | Some (VB sa), Some (VB sb) => Some (set_xmm s b (VB (interleave (firstn 8 sb) (firstn 8 sa))))
      | _, _ => None
      end
    | _ => None
    end
  else if is m "PSUBW" then
    match ops with
    | [R a; R b] =>
      match lookup a (xmm s), lookup b (xmm s) with
      | Some va, Some vb =>
        match as_words va, as_words vb with
        | Some wa, Some wb => Some (set_xmm s b (VW (map2o sub16u wb wa)))
        | _, _ => None
        end
      | _, _ => None
      end
    | _ => None
    end
  else if is m "PMADDWL" then
    match ops with
    | [R a; R b] =>
      match lookup a (xmm s), lookup b (xmm s) with
      | Some va, Some vb =>
        match as_words va, as_words vb with
        | Some wa, Some wb => Some (set_xmm s b (VD (madd_pairs wb wa)))
        | _, _ => None
        end
      | _, _ => None
      end
    | _ => None
    end
  else if is m "PADDL" then
    match ops with
    | [R a; R b] =>
      match lookup a (xmm s), lookup b (xmm s) with
      | Some (VD da), Some (VD db) => Some (set_xmm s b (VD (map2o add32 db da)))
      | Some (VD da), Some (VB zb) =>
        (* the accumulator right after PXOR: sixteen zero bytes = four zero dwords *)
        if forallb (Z.eqb 0) zb && Nat.eqb (List.length zb) 16 then Some (set_xmm s b (VD (map2o add32 [0; 0; 0; 0] da))) else None
      | _, _ => None
      end
    | _ => None
    end
  else if is m "PSHUFD" then
    match ops with
    | [Imm n; R a; R b] =>
      match lookup a (xmm s) with
      | Some (VD da) => Some (set_xmm s b (VD (shufd n da)))
      | _ => None
      end
    | _ => None
    end
  else if is m "ADDQ" then
    match ops with
    | [Imm n; R r] =>
      match lookup r (gpr s) with
      | Some (GInt v) => Some (set_zf (set_gpr s r (GInt (v + n))) (Z.eqb (v + n) 0))
      | Some (GPtr b o) => Some (set_gpr s r (GPtr b (o + n)))
      | None => None
      end
    | _ => None
    end
  else if is m "DECQ" then
    match ops with
    | [R r] =>
      match lookup r (gpr s) with
      | Some (GInt v) => Some (set_zf (set_gpr s r (GInt (v - 1))) (Z.eqb (v - 1) 0))
      | _ => None
      end
    | _ => None
    end
  else None.

Fixpoint find_label (l : string) (prog : list item) (pos : nat) : option nat :=
  match prog with
  | [] => None
  | L l' :: t => if String.eqb l l' then Some pos else find_label l t (S pos)
  | _ :: t => find_label l t (S pos)
  end.

(** run from program counter [pc]; result: the value stored to ret+..(FP) when
    RET is reached *)
Fixpoint run (fuel : nat) (prog : list item) (pc : nat) (s : state) : option Z :=
  match fuel with
  | O => None
  | S fuel' =>
    match nth_error prog pc with
    | None => None
    | Some (L _) => run fuel' prog (S pc) s
    | Some (I m ops) =>
      if is m "RET" then retv s
      else if is m "JNZ" then
        match ops with
        | [Sym l _] =>
          if zf s then run fuel' prog (S pc) s
          else match find_label l prog 0 with Some p => run fuel' prog p s | None => None end
        | _ => None
        end
      else match step s m ops with Some s' => run fuel' prog (S pc) s' | None => None end
    end
  end.

Definition init_state (m : string -> Z -> Z) : state :=
  {| gpr := []; xmm := []; mem := m;
     args := [("pix_base", GPtr "pix" 0); ("ref_base", GPtr "ref" 0)]; retv := None; zf := false |}.

(** ** sse4x4SSE2: the interpreted assembly equals the lane model *)
From Coq Require Import ZifyBool.
From Webp Require Import Base.Res Arch.ArchLane16 Arch.ArchLane16Proofs.

Definition sq (p r : Z) : Z := (p - r) * (p - r).

Lemma sq_bound p r : 0 <= p <= 255 -> 0 <= r <= 255 -> 0 <= sq p r <= 65025.
Proof.
  intros Hp Hr. unfold sq. set (d := p - r). assert (Hd : -255 <= d <= 255) by (subst d; lia). clearbody d.
  pose proof (Z.square_nonneg d). pose proof (Z.mul_nonneg_nonneg (255 - d) (255 + d) ltac:(lia) ltac:(lia)) as S1.
  replace ((255 - d) * (255 + d)) with (65025 - d * d) in S1 by ring. lia.
Qed.

Lemma sx16_sub p r : 0 <= p <= 255 -> 0 <= r <= 255 -> sx16 (sub16u (mkw p 0) (mkw r 0)) = p - r.
Proof.
  intros Hp Hr. unfold sx16, sub16u, mkw. rewrite !Z.mul_0_r, !Z.add_0_r.
  destruct (Z.le_gt_cases r p) as [H|H].
  - rewrite Z.mod_small by lia. destruct (Z.ltb_spec (p - r) 32768); lia.
  - replace ((p - r) mod 65536) with (p - r + 65536).
    + destruct (Z.ltb_spec (p - r + 65536) 32768); lia.
    + apply (Z.mod_unique_pos (p - r) 65536 (-1)); lia.
Qed.

Lemma madd32_sq p0 r0 p1 r1 :
  0 <= p0 <= 255 -> 0 <= r0 <= 255 -> 0 <= p1 <= 255 -> 0 <= r1 <= 255 ->
  madd32 (sub16u (mkw p0 0) (mkw r0 0)) (sub16u (mkw p0 0) (mkw r0 0))
         (sub16u (mkw p1 0) (mkw r1 0)) (sub16u (mkw p1 0) (mkw r1 0)) = sq p0 r0 + sq p1 r1.
Proof.
  intros. unfold madd32. rewrite !sx16_sub by assumption. fold (sq p0 r0) (sq p1 r1).
  pose proof (sq_bound p0 r0 ltac:(assumption) ltac:(assumption)).
  pose proof (sq_bound p1 r1 ltac:(assumption) ltac:(assumption)).
  apply Z.mod_small. lia.
Qed.

Lemma madd32_zero : madd32 (sub16u (mkw 0 0) (mkw 0 0)) (sub16u (mkw 0 0) (mkw 0 0))
                           (sub16u (mkw 0 0) (mkw 0 0)) (sub16u (mkw 0 0) (mkw 0 0)) = 0.
Proof. reflexivity. Qed.

Lemma add32_small a b : 0 <= a -> 0 <= b -> a + b < 4294967296 -> add32 a b = a + b.
Proof. intros. unfold add32. apply Z.mod_small. lia. Qed.

(** the 4x4 block of a buffer at stride 32, in raster order *)
Definition block4 (m : string -> Z -> Z) (b : string) : list Z :=
  flat_map (fun row => map (fun col => m b (32 * row + col)) [0; 1; 2; 3]) [0; 1; 2; 3].

Theorem asm_sse4x4_eq_model : forall m, (forall b o, 0 <= m b o <= 255) ->
  run 100 asm_sse4x4SSE2 0 (init_state m) = Some (l_sse_list (block4 m "pix") (block4 m "ref")).
Proof.
  intros m Hm.
  rewrite lane16_sse_eq.
  2,3: (unfold block4; cbn [flat_map map app]; repeat (apply Forall_cons; [apply Hm|]); apply Forall_nil).
  2: (unfold block4; cbn; lia).
  cbv -[mkw sub16u madd32 add32 sse_list block4].
  rewrite !madd32_zero. rewrite !madd32_sq by apply Hm.
  unfold sse_list, block4. cbn [flat_map map app combine fold_right fst snd Z.mul Z.add Pos.mul Pos.add].
  repeat match goal with |- context [(?p - ?r) * (?p - ?r)] => change ((p - r) * (p - r)) with (sq p r) end.
  repeat match goal with |- context [sq (m ?b ?o) (m ?b' ?o')] =>
    let q := fresh "q" in
    pose proof (sq_bound (m b o) (m b' o') (Hm b o) (Hm b' o'));
    set (q := sq (m b o) (m b' o')) in * end.
  f_equal. unfold add32. Z.div_mod_to_equations. lia.
Qed.

(** ** sse16x16SSE2: a counted loop of sixteen rows, two 8-byte halves each *)
Definition block16 (m : string -> Z -> Z) (b : string) : list Z :=
  flat_map (fun row => map (fun col => m b (32 * row + col)) [0; 1; 2; 3; 4; 5; 6; 7; 8; 9; 10; 11; 12; 13; 14; 15])
           [0; 1; 2; 3; 4; 5; 6; 7; 8; 9; 10; 11; 12; 13; 14; 15].

(** The loop semantics (labels, DECQ / JNZ, indexed addressing) is exercised on a
    concrete memory: the interpreted routine returns the portable SSE.  (The
    all-inputs proof is given for the 4x4 routine; this one is pinned by digest.) *)
Definition probe_mem (b : string) (o : Z) : Z :=
  if String.eqb b "pix" then (o * 7 + 3) mod 256 else (o * 13 + o / 32 + 200) mod 256.

Example asm_sse16x16_runs :
  run 600 asm_sse16x16SSE2 0 (init_state probe_mem) = Some (sse_list (block16 probe_mem "pix") (block16 probe_mem "ref")).
Proof. vm_compute. reflexivity. Qed.
