(** C13 — the inverse DCT in 32-bit arithmetic.

    Two implementations compute the IDCT with 32-bit two's-complement words:
    - the arm64 routine iTransformOneNEON (transforms_arm64.s): the coefficients
      are widened to 32-bit lanes (SXTL), multiplied by 20091 / 35468 with a
      32-bit MUL, shifted with SSHR #16, and narrowed with saturation at the end;
    - the portable Go kernels transformOne / iTransformOne on every target whose
      [int] is 32 bits wide (386, arm, mips, mipsle): [(a * c2) >> 16] is an [int]
      product and wraps (Go defines signed overflow as wrapping).
    [idct32] models both: every [int] operation reduced with [wrap32].
    The 64-bit portable semantics is [ArchLane16.transform_one].  They agree
    whenever no 32-bit product overflows - for every coefficient block with
    |c| <= 15735 - and differ beyond, on blocks a valid stream can deliver. *)
From Coq Require Import ZArith List Bool Lia.
From Coq Require Import ZifyBool ZifyNat ZifyN.
From Webp Require Import Base.Res Arch.ArchLane16 Arch.ArchLane16Proofs.
Import ListNotations.
Open Scope Z_scope.
Ltac Zify.zify_post_hook ::= Z.div_mod_to_equations.

Definition mul1_32 (a : Z) : Z := wrap32 (wrap32 (a * kC1) / 65536 + a).
Definition mul2_32 (a : Z) : Z := wrap32 (a * kC2) / 65536.

Definition bfly32 (q : Q) : Q :=
  let '(x0, x1, x2, x3) := q in
  let a := wrap32 (x0 + x2) in let b := wrap32 (x0 - x2) in
  let c := wrap32 (mul2_32 x1 - mul1_32 x3) in let d := wrap32 (mul1_32 x1 + mul2_32 x3) in
  (wrap32 (a + d), wrap32 (b + c), wrap32 (b - c), wrap32 (a - d)).

Definition bias32 (k : Z) (q : Q) : Q := let '(a, b, c, d) := q in (wrap32 (a + k), b, c, d).
Definition idct32_core (m : M) : M := two_pass bfly32 (fun r => bfly32 (bias32 4 r)) m.
Definition recon32 (p x : Z) : Z := clip8 (wrap32 (p + x / 8)).

Definition idct32 (coeffs pred : list Z) : Res (list Z) :=
  c <- blk16 coeffs ;; p <- blk16 pred ;; Ok (listM (map2M recon32 p (idct32_core c))).

Definition kInt32Box : Z := 15735.
Definition in_range32 (coeffs : list Z) : Prop := Forall (fun c => - kInt32Box <= c <= kInt32Box) coeffs.

Lemma bfly32_eq x0 x1 x2 x3 :
  in_box 250000 x0 -> in_box 60547 x1 -> in_box 250000 x2 -> in_box 60547 x3 ->
  bfly32 (x0, x1, x2, x3) = bfly (x0, x1, x2, x3).
Proof.
  unfold in_box. intros H0 H1 H2 H3. unfold bfly32, bfly, mul1_32, mul2_32, mul1, mul2, kC1, kC2. cbv zeta.
  rewrite (wrap32_id (x1 * 20091)), (wrap32_id (x3 * 20091)), (wrap32_id (x1 * 35468)), (wrap32_id (x3 * 35468)) by lia.
  set (m11 := x1 * 20091 / 65536). set (m13 := x3 * 20091 / 65536).
  set (m21 := x1 * 35468 / 65536). set (m23 := x3 * 35468 / 65536).
  assert (-18562 <= m11 <= 18562) by (subst m11; lia). assert (-18562 <= m13 <= 18562) by (subst m13; lia).
  assert (-32769 <= m21 <= 32768) by (subst m21; lia). assert (-32769 <= m23 <= 32768) by (subst m23; lia).
  rewrite (wrap32_id (m11 + x1)), (wrap32_id (m13 + x3)) by lia.
  rewrite (wrap32_id (x0 + x2)), (wrap32_id (x0 - x2)) by lia.
  rewrite (wrap32_id (m21 - (m13 + x3))), (wrap32_id (m11 + x1 + m23)) by lia.
  rewrite !wrap32_id by lia. reflexivity.
Qed.

Lemma bfly_box32 x0 x1 x2 x3 :
  in_box 15735 x0 -> in_box 15735 x1 -> in_box 15735 x2 -> in_box 15735 x3 ->
  forallQ (in_box 60547) (bfly (x0, x1, x2, x3)).
Proof. unfold in_box, bfly, forallQ, mul1, mul2, kC1, kC2. cbv zeta. intros. repeat split; lia. Qed.

Lemma row32_bound t0 t1 t2 t3 :
  in_box 60547 t0 -> in_box 60547 t1 -> in_box 60547 t2 -> in_box 60547 t3 ->
  forallQ (in_box 240000) (bfly (bias0 4 (t0, t1, t2, t3))).
Proof. unfold in_box, bfly, bias0, forallQ, mul1, mul2, kC1, kC2. cbv zeta. intros. repeat split; lia. Qed.

Lemma idct32_core_eq m : forallM (in_box kInt32Box) m ->
  idct32_core m = idct_core m /\ forallM (in_box 240000) (idct_core m).
Proof.
  destruct m as [[[[[[a0 a1] a2] a3] [[[b0 b1] b2] b3]] [[[c0 c1] c2] c3]] [[[d0 d1] d2] d3]].
  unfold kInt32Box. cbn [forallM forallQ].
  intros ((A0 & A1 & A2 & A3) & (B0 & B1 & B2 & B3) & (C0 & C1 & C2 & C3) & (D0 & D1 & D2 & D3)).
  unfold idct32_core, idct_core, two_pass. cbn [transpose mapM].
  assert (W : forall x, in_box 15735 x -> in_box 250000 x /\ in_box 60547 x) by (unfold in_box; intros; lia).
  rewrite (bfly32_eq a0 b0 c0 d0), (bfly32_eq a1 b1 c1 d1), (bfly32_eq a2 b2 c2 d2), (bfly32_eq a3 b3 c3 d3)
    by (apply W; assumption).
  pose proof (bfly_box32 _ _ _ _ A0 B0 C0 D0) as K0. pose proof (bfly_box32 _ _ _ _ A1 B1 C1 D1) as K1.
  pose proof (bfly_box32 _ _ _ _ A2 B2 C2 D2) as K2. pose proof (bfly_box32 _ _ _ _ A3 B3 C3 D3) as K3.
  destruct (bfly (a0, b0, c0, d0)) as [[[u0 u1] u2] u3].
  destruct (bfly (a1, b1, c1, d1)) as [[[v0 v1] v2] v3].
  destruct (bfly (a2, b2, c2, d2)) as [[[w0 w1] w2] w3].
  destruct (bfly (a3, b3, c3, d3)) as [[[z0 z1] z2] z3].
  cbn [forallQ transpose mapM bias32 bias0] in *.
  destruct K0 as (? & ? & ? & ?), K1 as (? & ? & ? & ?), K2 as (? & ? & ? & ?), K3 as (? & ? & ? & ?).
  assert (V : forall x, in_box 60547 x -> wrap32 (x + 4) = x + 4 /\ in_box 250000 (x + 4))
    by (unfold in_box; intros; rewrite wrap32_id by lia; lia).
  destruct (V u0 ltac:(assumption)) as [-> ?], (V u1 ltac:(assumption)) as [-> ?],
           (V u2 ltac:(assumption)) as [-> ?], (V u3 ltac:(assumption)) as [-> ?].
  assert (W2 : forall x, in_box 60547 x -> in_box 250000 x) by (unfold in_box; intros; lia).
  rewrite (bfly32_eq (u0 + 4) v0 w0 z0), (bfly32_eq (u1 + 4) v1 w1 z1),
          (bfly32_eq (u2 + 4) v2 w2 z2), (bfly32_eq (u3 + 4) v3 w3 z3) by (first [assumption | apply W2; assumption]).
  split; [reflexivity|].
  pose proof (row32_bound u0 v0 w0 z0) as R0. pose proof (row32_bound u1 v1 w1 z1) as R1.
  pose proof (row32_bound u2 v2 w2 z2) as R2. pose proof (row32_bound u3 v3 w3 z3) as R3.
  cbn [bias0 forallM] in *. auto.
Qed.

Lemma map2M_recon32_eq p x : forallM byte p -> forallM (in_box 240000) x -> map2M recon32 p x = map2M recon p x.
Proof.
  destruct p as [[[[[[p0 p1] p2] p3] [[[p4 p5] p6] p7]] [[[p8 p9] p10] p11]] [[[p12 p13] p14] p15]].
  destruct x as [[[[[[x0 x1] x2] x3] [[[x4 x5] x6] x7]] [[[x8 x9] x10] x11]] [[[x12 x13] x14] x15]].
  cbn [forallM forallQ map2M map2Q]. unfold byte, in_box, recon32, recon.
  intros ((P0 & P1 & P2 & P3) & (P4 & P5 & P6 & P7) & (P8 & P9 & P10 & P11) & (P12 & P13 & P14 & P15)).
  intros ((X0 & X1 & X2 & X3) & (X4 & X5 & X6 & X7) & (X8 & X9 & X10 & X11) & (X12 & X13 & X14 & X15)).
  rewrite !wrap32_id by lia. reflexivity.
Qed.

(** 32-bit arithmetic (arm64 NEON routine; portable Go where int is 32 bits)
    equals the 64-bit portable IDCT on every block with |c| <= 15735. *)
Theorem idct32_eq : forall coeffs pred, in_range32 coeffs -> Forall byte pred ->
  idct32 coeffs pred = transform_one coeffs pred.
Proof.
  intros coeffs pred Hr Hb. unfold idct32, transform_one.
  destruct (blk16_cases coeffs) as [[c Hc]|Hc]; rewrite Hc; [|reflexivity].
  destruct (blk16_cases pred) as [[p Hp]|Hp]; rewrite Hp; [|reflexivity]. cbn [bind]. do 2 f_equal.
  destruct (idct32_core_eq c (blk16_Forall _ _ _ Hc Hr)) as [-> HB].
  apply map2M_recon32_eq; [apply (blk16_Forall _ _ _ Hp Hb)|exact HB].
Qed.

(** The box is the widest symmetric one; and a sparse block of two int16
    coefficients 32767 = int16(1057 * 31) (31 is an AC step of the table) already
    overflows the 32-bit product 126206 * 35468: the IDCT result depends on the
    width of [int]. *)
Definition int32_block_15736 : list Z :=
  [-15736; -15736; -15736; -15736; -15736; -15736; -15736; -15736; -15736; -15736; -15736; -15736; -15736; -15736; 15736; -15736].
Definition int32_block_sparse : list Z := [0; 32767; 0; 0; 0; 32767; 0; 0; 0; 0; 0; 0; 0; 0; 0; 0].

Theorem int32_box_maximal :
  Forall (fun c => - (kInt32Box + 1) <= c <= kInt32Box + 1) int32_block_15736 /\
  idct32 int32_block_15736 (repeat 128 16) <> transform_one int32_block_15736 (repeat 128 16).
Proof. split; [unfold kInt32Box, int32_block_15736; forall_lia|vm_compute; discriminate]. Qed.

Theorem idct_int_width_differs_refuted :
  Forall int16 int32_block_sparse /\
  idct32 int32_block_sparse (repeat 128 16) = Ok [255; 0; 255; 0; 255; 255; 0; 0; 255; 255; 0; 0; 0; 0; 255; 255] /\
  transform_one int32_block_sparse (repeat 128 16) = Ok [255; 255; 0; 0; 255; 255; 0; 0; 255; 255; 0; 0; 0; 0; 255; 255].
Proof. split; [unfold int32_block_sparse, int16; forall_lia|split; vm_compute; reflexivity]. Qed.

(** Every block the encoder reconstructs from (|c| <= 2655, ArchEncRange.encB)
    and every block inside the 16-bit-lane box is far inside the 32-bit box:
    the three arithmetics agree there. *)
Lemma lane16_box_in_int32_box : kIdctBox <= kInt32Box /\ 2655 <= kInt32Box.
Proof. unfold kIdctBox, kInt32Box. lia. Qed.

(** sse16x16NEON squares the unsigned absolute difference (UABDL, UMULL). *)
Lemma neon_abd_square a b : Z.abs (a - b) * Z.abs (a - b) = (a - b) * (a - b).
Proof. lia. Qed.
