(** C13, part 1 — the int-width obligations over the regenerated constant list.
    Complete finite checks ([vm_compute] over every listed constant), re-run
    whenever the source (hence [Gen/IntWidth.v]) changes. *)
From Coq Require Import ZArith List String Bool Lia.
From Webp Require Import Arch.ArchIntWidth.
From WebpGen Require IntWidth.
Import ListNotations.
Open Scope Z_scope.

Lemma no_int_constant_out_of_range : out_of_range fits_int32 IntWidth.int_constants = [].
Proof. vm_compute. reflexivity. Qed.

Lemma no_uint_constant_out_of_range : out_of_range fits_uint32 IntWidth.uint_constants = [].
Proof. vm_compute. reflexivity. Qed.

Lemma int_constants_fit_32bit : forall file l line col v,
  In (file, l) IntWidth.int_constants -> In (line, col, v) l -> -2^31 <= v < 2^31.
Proof.
  intros file l line col v Hf Hc. apply fits_int32_spec.
  exact (all_fit_sound _ _ (out_of_range_nil_all_fit _ _ no_int_constant_out_of_range) _ _ _ _ _ Hf Hc).
Qed.

Lemma uint_constants_fit_32bit : forall file l line col v,
  In (file, l) IntWidth.uint_constants -> In (line, col, v) l -> 0 <= v < 2^32.
Proof.
  intros file l line col v Hf Hc. apply fits_uint32_spec.
  exact (all_fit_sound _ _ (out_of_range_nil_all_fit _ _ no_uint_constant_out_of_range) _ _ _ _ _ Hf Hc).
Qed.

(** The list is the complete one the translator announced (guards against a
    truncated file) and is far from empty. *)
Lemma int_constant_list_is_complete :
  count_consts IntWidth.int_constants = IntWidth.int_constants_count /\
  count_consts IntWidth.uint_constants = IntWidth.uint_constants_count /\
  1000 <= IntWidth.int_constants_count /\ 10 <= IntWidth.uint_constants_count.
Proof. vm_compute. repeat split; discriminate. Qed.
