(** C19 — the direct accesses to the caller's pixel buffer, frozen.

    Copy of the lists that tools/gosrc2v/imguse.go extracts from the import functions (element
    reads of Pix with their index expressions, the slice read of the clean-up copy, and every
    assignment / increment of a variable occurring, transitively, in those index expressions).
    These are the expressions PlaceModel.v transcribes; the obligation [pix_sites_match_model]
    breaks when any of them changes, when a read is added or removed, and when a store through
    the caller's Pix appears ([U.pix_stores] must be empty). *)
From Coq Require Import ZArith List Bool String.
From WebpGen Require ImgUse.
Import ListNotations.
Open Scope Z_scope.

Module U := WebpGen.ImgUse.

Definition doc_pix_reads : list (Z * string) :=
  [ (8, "off + 3"%string);
    (8, "off"%string);
    (8, "off + 1"%string);
    (8, "off + 2"%string);
    (8, "off + 3"%string);
    (8, "off"%string);
    (8, "off + 1"%string);
    (8, "off + 2"%string);
    (9, "off + 3"%string);
    (9, "off"%string);
    (9, "off + 1"%string);
    (9, "off + 2"%string);
    (9, "off + 3"%string);
    (9, "off"%string);
    (9, "off + 1"%string);
    (9, "off + 2"%string);
    (11, "soff + 3"%string);
    (11, "soff"%string);
    (11, "soff + 1"%string);
    (11, "soff + 2"%string);
    (11, "soff"%string);
    (11, "soff + 1"%string);
    (11, "soff + 2"%string);
    (10, "off"%string);
    (10, "off"%string);
    (12, "srcOff"%string);
    (12, "srcOff + 1"%string);
    (12, "srcOff + 2"%string);
    (12, "srcOff"%string);
    (12, "srcOff + 1"%string);
    (12, "srcOff + 2"%string);
    (13, "rowOff"%string);
    (13, "rowOff"%string);
    (14, "off"%string);
    (14, "off + 1"%string);
    (14, "off + 2"%string);
    (14, "off + 3"%string);
    (14, "off"%string);
    (14, "off + 1"%string);
    (14, "off + 2"%string);
    (14, "off"%string);
    (14, "off + 1"%string);
    (14, "off + 2"%string);
    (14, "off"%string);
    (14, "off + 1"%string);
    (14, "off + 2"%string);
    (14, "off + 3"%string);
    (15, "rowOff + 3"%string);
    (15, "rowOff + 7"%string);
    (15, "rowOff + 11"%string);
    (15, "rowOff + 15"%string);
    (15, "rowOff + 3"%string);
    (15, "rowOff + 3"%string);
    (15, "rowOff + 7"%string);
    (15, "rowOff + 11"%string);
    (15, "rowOff + 15"%string);
    (15, "rowOff + 3"%string) ].

Definition doc_pix_slice_reads : list (Z * string) :=
  [ (11, "srcOff : srcOff + width*4"%string) ].

Definition doc_pix_offset_defs : list (Z * string) :=
  [ (8, "bounds := img.Bounds()"%string);
    (8, "nrgba, ok := img.(*image.NRGBA)"%string);
    (8, "y := 0"%string);
    (8, "y++"%string);
    (8, "rowOff := (y+bounds.Min.Y-nrgba.Rect.Min.Y)*nrgba.Stride + (bounds.Min.X-nrgba.Rect.Min.X)*4"%string);
    (8, "x := 0"%string);
    (8, "x++"%string);
    (8, "off := rowOff + x*4"%string);
    (8, "rgba, ok := img.(*image.RGBA)"%string);
    (8, "y := 0"%string);
    (8, "y++"%string);
    (8, "rowOff := (y+bounds.Min.Y-rgba.Rect.Min.Y)*rgba.Stride + (bounds.Min.X-rgba.Rect.Min.X)*4"%string);
    (8, "x := 0"%string);
    (8, "x++"%string);
    (8, "off := rowOff + x*4"%string);
    (8, "y := 0"%string);
    (8, "y++"%string);
    (8, "x := 0"%string);
    (8, "x++"%string);
    (9, "bounds := img.Bounds()"%string);
    (9, "nrgba, ok := img.(*image.NRGBA)"%string);
    (9, "y := 0"%string);
    (9, "y++"%string);
    (9, "rowOff := (y+bounds.Min.Y-nrgba.Rect.Min.Y)*nrgba.Stride + (bounds.Min.X-nrgba.Rect.Min.X)*4"%string);
    (9, "x := 0"%string);
    (9, "x++"%string);
    (9, "off := rowOff + x*4"%string);
    (9, "rgba, ok := img.(*image.RGBA)"%string);
    (9, "y := 0"%string);
    (9, "y++"%string);
    (9, "rowOff := (y+bounds.Min.Y-rgba.Rect.Min.Y)*rgba.Stride + (bounds.Min.X-rgba.Rect.Min.X)*4"%string);
    (9, "x := 0"%string);
    (9, "x++"%string);
    (9, "off := rowOff + x*4"%string);
    (9, "y := 0"%string);
    (9, "y++"%string);
    (9, "x := 0"%string);
    (9, "x++"%string);
    (11, "bounds := img.Bounds()"%string);
    (11, "width, height := bounds.Dx(), bounds.Dy()"%string);
    (11, "src, ok := img.(*image.NRGBA)"%string);
    (11, "y := 0"%string);
    (11, "y++"%string);
    (11, "srcOff := (y+bounds.Min.Y-src.Rect.Min.Y)*src.Stride + (bounds.Min.X-src.Rect.Min.X)*4"%string);
    (11, "src, ok := img.(*image.RGBA)"%string);
    (11, "y := 0"%string);
    (11, "y++"%string);
    (11, "srcOff := (y+bounds.Min.Y-src.Rect.Min.Y)*src.Stride + (bounds.Min.X-src.Rect.Min.X)*4"%string);
    (11, "x := 0"%string);
    (11, "x++"%string);
    (11, "soff := srcOff + x*4"%string);
    (11, "y := 0"%string);
    (11, "y++"%string);
    (11, "x := 0"%string);
    (11, "x++"%string);
    (10, "b := img.Bounds()"%string);
    (10, "nrgba, ok := img.(*image.NRGBA)"%string);
    (10, "y := b.Min.Y"%string);
    (10, "y++"%string);
    (10, "off := (y-b.Min.Y)*nrgba.Stride + 3"%string);
    (10, "off += 4"%string);
    (10, "rgba, ok := img.(*image.RGBA)"%string);
    (10, "y := b.Min.Y"%string);
    (10, "y++"%string);
    (10, "off := (y-b.Min.Y)*rgba.Stride + 3"%string);
    (10, "off += 4"%string);
    (10, "y := b.Min.Y"%string);
    (10, "y++"%string);
    (12, "bounds := img.Bounds()"%string);
    (12, "nrgba, ok := img.(*image.NRGBA)"%string);
    (12, "y := 0"%string);
    (12, "y++"%string);
    (12, "srcOff := (y+bounds.Min.Y-nrgba.Rect.Min.Y)*nrgba.Stride + (bounds.Min.X-nrgba.Rect.Min.X)*4"%string);
    (12, "srcOff += 4"%string);
    (12, "rgba, ok := img.(*image.RGBA)"%string);
    (12, "y := 0"%string);
    (12, "y++"%string);
    (12, "srcOff := (y+bounds.Min.Y-rgba.Rect.Min.Y)*rgba.Stride + (bounds.Min.X-rgba.Rect.Min.X)*4"%string);
    (12, "srcOff += 4"%string);
    (12, "y := 0"%string);
    (12, "y++"%string);
    (13, "b := img.Bounds()"%string);
    (13, "nrgba, ok := img.(*image.NRGBA)"%string);
    (13, "y := 0"%string);
    (13, "y++"%string);
    (13, "rowOff := (y+b.Min.Y-nrgba.Rect.Min.Y)*nrgba.Stride + (b.Min.X-nrgba.Rect.Min.X)*4 + 3"%string);
    (13, "rowOff += 4"%string);
    (13, "rgba, ok := img.(*image.RGBA)"%string);
    (13, "y := 0"%string);
    (13, "y++"%string);
    (13, "rowOff := (y+b.Min.Y-rgba.Rect.Min.Y)*rgba.Stride + (b.Min.X-rgba.Rect.Min.X)*4 + 3"%string);
    (13, "rowOff += 4"%string);
    (13, "y := 0"%string);
    (13, "y++"%string);
    (14, "bounds := img.Bounds()"%string);
    (14, "w := bounds.Dx()"%string);
    (14, "h := bounds.Dy()"%string);
    (14, "padH := enc.mbH * 16"%string);
    (14, "nrgba, isNRGBA := img.(*image.NRGBA)"%string);
    (14, "rgba, isRGBA := img.(*image.RGBA)"%string);
    (14, "pixStride = nrgba.Stride"%string);
    (14, "pixRect = nrgba.Rect"%string);
    (14, "pixStride = rgba.Stride"%string);
    (14, "pixRect = rgba.Rect"%string);
    (14, "sy := srcY + bounds.Min.Y"%string);
    (14, "sy = bounds.Min.Y + h - 1"%string);
    (14, "rowOff := (sy-pixRect.Min.Y)*pixStride + (bounds.Min.X-pixRect.Min.X)*4"%string);
    (14, "x := 0"%string);
    (14, "x++"%string);
    (14, "sx := x"%string);
    (14, "sx = w - 1"%string);
    (14, "off := rowOff + sx*4"%string);
    (14, "x := 0"%string);
    (14, "x++"%string);
    (14, "sx := x + bounds.Min.X"%string);
    (14, "sx = bounds.Min.X + w - 1"%string);
    (14, "nWorkers := runtime.GOMAXPROCS(0)"%string);
    (14, "nWorkers = verifhook.Workers(verifhook.SiteLossyImportY, nWorkers)"%string);
    (14, "nWorkers = padH"%string);
    (14, "wi := 0"%string);
    (14, "wi++"%string);
    (14, "startY := wi * padH / nWorkers"%string);
    (14, "srcBase := (bounds.Min.Y-pixRect.Min.Y)*pixStride + (bounds.Min.X-pixRect.Min.X)*4"%string);
    (14, "y := startY"%string);
    (14, "y++"%string);
    (14, "sy := y"%string);
    (14, "sy = h - 1"%string);
    (14, "rowOff := srcBase + sy*pixStride"%string);
    (14, "x := 0"%string);
    (14, "x++"%string);
    (14, "off := rowOff + x*4"%string);
    (14, "x := w"%string);
    (14, "x++"%string);
    (14, "y := 0"%string);
    (14, "y++"%string);
    (14, "sy := y + bounds.Min.Y"%string);
    (14, "sy = bounds.Min.Y + h - 1"%string);
    (14, "rowOff := (sy-pixRect.Min.Y)*pixStride + (bounds.Min.X-pixRect.Min.X)*4"%string);
    (14, "x := 0"%string);
    (14, "x++"%string);
    (14, "sx := x"%string);
    (14, "sx = w - 1"%string);
    (14, "off := rowOff + sx*4"%string);
    (14, "y := 0"%string);
    (14, "y++"%string);
    (14, "sy := y + bounds.Min.Y"%string);
    (14, "sy = bounds.Min.Y + h - 1"%string);
    (14, "x := 0"%string);
    (14, "x++"%string);
    (14, "sx := x + bounds.Min.X"%string);
    (14, "sx = bounds.Min.X + w - 1"%string);
    (14, "halfPadH := padH / 2"%string);
    (14, "nUVWorkers := runtime.GOMAXPROCS(0)"%string);
    (14, "nUVWorkers = verifhook.Workers(verifhook.SiteLossyImportUV, nUVWorkers)"%string);
    (14, "nUVWorkers = halfPadH"%string);
    (14, "wi := 0"%string);
    (14, "wi++"%string);
    (14, "startPair := wi * halfPadH / nUVWorkers"%string);
    (14, "srcBase := (bounds.Min.Y-pixRect.Min.Y)*pixStride + (bounds.Min.X-pixRect.Min.X)*4"%string);
    (14, "y := startPair"%string);
    (14, "y++"%string);
    (14, "row := 0"%string);
    (14, "row++"%string);
    (14, "srcY := y*2 + row"%string);
    (14, "sy := srcY"%string);
    (14, "sy = h - 1"%string);
    (14, "rowOff := srcBase + sy*pixStride"%string);
    (14, "x := 0"%string);
    (14, "x++"%string);
    (14, "off := rowOff + x*4"%string);
    (14, "x := w"%string);
    (14, "x++"%string);
    (14, "y := 0"%string);
    (14, "y++"%string);
    (15, "nrgba, ok := img.(*image.NRGBA)"%string);
    (15, "bounds := nrgba.Bounds()"%string);
    (15, "y := bounds.Min.Y"%string);
    (15, "y++"%string);
    (15, "rowOff := (y-nrgba.Rect.Min.Y)*nrgba.Stride + (bounds.Min.X-nrgba.Rect.Min.X)*4"%string);
    (15, "rowOff += 16"%string);
    (15, "rowOff += 4"%string);
    (15, "rgba, ok := img.(*image.RGBA)"%string);
    (15, "bounds := rgba.Bounds()"%string);
    (15, "y := bounds.Min.Y"%string);
    (15, "y++"%string);
    (15, "rowOff := (y-rgba.Rect.Min.Y)*rgba.Stride + (bounds.Min.X-rgba.Rect.Min.X)*4"%string);
    (15, "rowOff += 16"%string);
    (15, "rowOff += 4"%string);
    (15, "bounds := img.Bounds()"%string);
    (15, "y := bounds.Min.Y"%string);
    (15, "y++"%string) ].

Definition pix_sites_match_model : Prop :=
  U.pix_reads = doc_pix_reads /\ U.pix_slice_reads = doc_pix_slice_reads /\
  U.pix_offset_defs = doc_pix_offset_defs /\ U.pix_stores = [].

Lemma pix_sites_match_model_holds : pix_sites_match_model.
Proof. unfold pix_sites_match_model. repeat split; reflexivity. Qed.
