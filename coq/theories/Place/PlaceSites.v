(** C19 — the direct accesses to the caller's pixel buffer, frozen.

    Copy of the SETS that tools/gosrc2v/imguse.go extracts from the functions that read pixels
    (index expressions of the element reads of Pix, the slice read of the clean-up copy, and every
    assignment / increment of a variable occurring, transitively, in those index expressions).
    These are the expressions PlaceModel.v transcribes.  They are sets of source expressions,
    whichever function holds them and however often: moving a loop into a helper or merging two
    copies leaves them unchanged; a changed offset formula, a new read or a removed one changes
    them and breaks [pix_sites_match_model]; a store through the caller's Pix makes
    [U.pix_stores] non-empty. *)
From Coq Require Import ZArith List Bool String.
From WebpGen Require ImgUse.
Import ListNotations.
Open Scope Z_scope.

Module U := WebpGen.ImgUse.

Definition doc_pix_read_exprs : list string :=
  [ "off"%string;
    "off + 1"%string;
    "off + 2"%string;
    "off + 3"%string;
    "rowOff"%string;
    "rowOff + 11"%string;
    "rowOff + 15"%string;
    "rowOff + 3"%string;
    "rowOff + 7"%string;
    "soff"%string;
    "soff + 1"%string;
    "soff + 2"%string;
    "soff + 3"%string;
    "srcOff"%string;
    "srcOff + 1"%string;
    "srcOff + 2"%string ].

Definition doc_pix_slice_read_exprs : list string :=
  [ "srcOff : srcOff + width*4"%string ].

Definition doc_pix_offset_defs : list string :=
  [ "b := img.Bounds()"%string;
    "bounds := img.Bounds()"%string;
    "bounds := nrgba.Bounds()"%string;
    "bounds := rgba.Bounds()"%string;
    "h := bounds.Dy()"%string;
    "halfPadH := padH / 2"%string;
    "nUVWorkers := runtime.GOMAXPROCS(0)"%string;
    "nUVWorkers = halfPadH"%string;
    "nUVWorkers = verifhook.Workers(verifhook.SiteLossyImportUV, nUVWorkers)"%string;
    "nWorkers := runtime.GOMAXPROCS(0)"%string;
    "nWorkers = padH"%string;
    "nWorkers = verifhook.Workers(verifhook.SiteLossyImportY, nWorkers)"%string;
    "nrgba, isNRGBA := img.(*image.NRGBA)"%string;
    "nrgba, ok := img.(*image.NRGBA)"%string;
    "off += 4"%string;
    "off := (y-b.Min.Y)*nrgba.Stride + 3"%string;
    "off := (y-b.Min.Y)*rgba.Stride + 3"%string;
    "off := rowOff + sx*4"%string;
    "off := rowOff + x*4"%string;
    "padH := enc.mbH * 16"%string;
    "pixRect = nrgba.Rect"%string;
    "pixRect = rgba.Rect"%string;
    "pixStride = nrgba.Stride"%string;
    "pixStride = rgba.Stride"%string;
    "rgba, isRGBA := img.(*image.RGBA)"%string;
    "rgba, ok := img.(*image.RGBA)"%string;
    "row := 0"%string;
    "row++"%string;
    "rowOff += 16"%string;
    "rowOff += 4"%string;
    "rowOff := (sy-pixRect.Min.Y)*pixStride + (bounds.Min.X-pixRect.Min.X)*4"%string;
    "rowOff := (y+b.Min.Y-nrgba.Rect.Min.Y)*nrgba.Stride + (b.Min.X-nrgba.Rect.Min.X)*4 + 3"%string;
    "rowOff := (y+b.Min.Y-rgba.Rect.Min.Y)*rgba.Stride + (b.Min.X-rgba.Rect.Min.X)*4 + 3"%string;
    "rowOff := (y+bounds.Min.Y-nrgba.Rect.Min.Y)*nrgba.Stride + (bounds.Min.X-nrgba.Rect.Min.X)*4"%string;
    "rowOff := (y+bounds.Min.Y-rgba.Rect.Min.Y)*rgba.Stride + (bounds.Min.X-rgba.Rect.Min.X)*4"%string;
    "rowOff := (y-nrgba.Rect.Min.Y)*nrgba.Stride + (bounds.Min.X-nrgba.Rect.Min.X)*4"%string;
    "rowOff := (y-rgba.Rect.Min.Y)*rgba.Stride + (bounds.Min.X-rgba.Rect.Min.X)*4"%string;
    "rowOff := srcBase + sy*pixStride"%string;
    "soff := srcOff + x*4"%string;
    "src, ok := img.(*image.NRGBA)"%string;
    "src, ok := img.(*image.RGBA)"%string;
    "srcBase := (bounds.Min.Y-pixRect.Min.Y)*pixStride + (bounds.Min.X-pixRect.Min.X)*4"%string;
    "srcOff += 4"%string;
    "srcOff := (y+bounds.Min.Y-nrgba.Rect.Min.Y)*nrgba.Stride + (bounds.Min.X-nrgba.Rect.Min.X)*4"%string;
    "srcOff := (y+bounds.Min.Y-rgba.Rect.Min.Y)*rgba.Stride + (bounds.Min.X-rgba.Rect.Min.X)*4"%string;
    "srcOff := (y+bounds.Min.Y-src.Rect.Min.Y)*src.Stride + (bounds.Min.X-src.Rect.Min.X)*4"%string;
    "srcY := y*2 + row"%string;
    "startPair := wi * halfPadH / nUVWorkers"%string;
    "startY := wi * padH / nWorkers"%string;
    "sx := x"%string;
    "sx := x + bounds.Min.X"%string;
    "sx = bounds.Min.X + w - 1"%string;
    "sx = w - 1"%string;
    "sy := srcY"%string;
    "sy := srcY + bounds.Min.Y"%string;
    "sy := y"%string;
    "sy := y + bounds.Min.Y"%string;
    "sy = bounds.Min.Y + h - 1"%string;
    "sy = h - 1"%string;
    "w := bounds.Dx()"%string;
    "wi := 0"%string;
    "wi++"%string;
    "width, height := bounds.Dx(), bounds.Dy()"%string;
    "x := 0"%string;
    "x := w"%string;
    "x++"%string;
    "y := 0"%string;
    "y := b.Min.Y"%string;
    "y := bounds.Min.Y"%string;
    "y := startPair"%string;
    "y := startY"%string;
    "y++"%string ].

Definition pix_sites_match_model : Prop :=
  U.pix_read_exprs = doc_pix_read_exprs /\ U.pix_slice_read_exprs = doc_pix_slice_read_exprs /\
  U.pix_offset_defs = doc_pix_offset_defs /\ U.pix_stores = [].

Lemma pix_sites_match_model_holds : pix_sites_match_model.
Proof. unfold pix_sites_match_model. repeat split; reflexivity. Qed.
