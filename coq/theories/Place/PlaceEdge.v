(** C19 — edge replication: the direct import path (read x < w, replicate the last value up to
    the padded width) equals the serial path (clamp both coordinates). *)
From Coq Require Import ZArith List Bool Lia.
From Coq Require Import ZifyBool.
From Webp Require Import Base.Res Place.PlaceModel Place.PlaceProof.
Import ListNotations.
Open Scope Z_scope.

Lemma seq_shift0 : forall a n, seq a n = map (fun k => (a + k)%nat) (seq 0 n).
Proof.
  intros a n. revert a. induction n as [|n IH]; intros a; cbn; [reflexivity|].
  f_equal; [lia|]. rewrite (IH (Datatypes.S a)), (IH 1%nat), map_map. apply map_ext. intros; lia.
Qed.

Lemma zrange_app : forall a b, 0 <= a -> 0 <= b -> zrange (a + b) = zrange a ++ map (fun k => a + k) (zrange b).
Proof.
  intros a b Ha Hb. unfold zrange. rewrite Z2Nat.inj_add by lia. rewrite seq_app, map_app. f_equal.
  cbn [plus]. rewrite (seq_shift0 (Z.to_nat a)), !map_map. apply map_ext_in. intros k _. lia.
Qed.

Lemma map_const_repeat {A B} : forall (c : B) (l : list A), map (fun _ => c) l = repeat c (length l).
Proof. induction l; cbn; congruence. Qed.

Lemma last_map_zrange {T} : forall (G : Z -> T) w d, 1 <= w -> last (map G (zrange w)) d = G (w - 1).
Proof.
  intros G w d Hw. replace w with ((w - 1) + 1) at 1 by lia. rewrite zrange_app by lia.
  change (zrange 1) with [0]. cbn [map]. rewrite map_app. cbn [map]. rewrite last_last. f_equal. lia.
Qed.

Lemma clamp_row {T} : forall (G : Z -> T) (d : T) w n, 1 <= w <= n ->
  map (fun x => G (clampi w x)) (zrange n) = replicate_to d (map G (zrange w)) n.
Proof.
  intros G d w n H. unfold replicate_to. rewrite map_length, zrange_length, last_map_zrange by lia.
  replace n with (w + (n - w)) at 1 by lia. rewrite zrange_app by lia. rewrite map_app, map_map. f_equal.
  - apply map_ext_in. intros x Hx. apply In_zrange in Hx. unfold clampi. replace (x >=? w) with false by lia. reflexivity.
  - rewrite (map_ext_in _ (fun _ => G (w - 1))).
    + rewrite map_const_repeat, zrange_length. f_equal. lia.
    + intros k Hk. apply In_zrange in Hk. unfold clampi. replace (w + k >=? w) with true by lia. reflexivity.
Qed.

Lemma pad16_ge : forall n, 1 <= n -> n <= pad16 n.
Proof.
  intros n H. unfold pad16. pose proof (Z.div_mod (n + 15) 16 ltac:(lia)). pose proof (Z.mod_pos_bound (n + 15) 16 ltac:(lia)). lia.
Qed.

Theorem edge_replication {T} : forall (F : px -> T) d pl, valid pl ->
  fast_import_rows F d pl = fast_import_rows_serial F pl.
Proof.
  intros F d pl [W V].
  rewrite (fast_import_rows_ok pl W V), (fast_import_rows_serial_ok pl W V). f_equal.
  unfold gen_import_rows, gen_import_rows_serial.
  destruct W as (W1 & W2 & W3 & W4 & Hw & Hh).
  apply map_ext_in. intros y Hy. apply In_zrange in Hy. cbv zeta.
  assert (Hc : 0 <= clampi (ph pl) y < ph pl) by (unfold clampi; destruct (y >=? ph pl) eqn:E; lia).
  rewrite (pic_row pl _ Hc). rewrite map_map.
  rewrite <- (clamp_row (fun x => F (pix_at pl x (clampi (ph pl) y))) d (pw pl) (pad16 (pw pl))) by (split; [lia|apply pad16_ge; lia]).
  apply map_ext_in. intros x Hx. apply In_zrange in Hx.
  assert (Hcx : 0 <= clampi (pw pl) x < pw pl) by (unfold clampi; destruct (x >=? pw pl) eqn:E; lia).
  rewrite (nth_zrange_map (fun x => pix_at pl x (clampi (ph pl) y))) by assumption. reflexivity.
Qed.
