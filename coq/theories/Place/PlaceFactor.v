(** C19 — Encode factors through the import.

    [WebpGen.ImgUse] (regenerated from the source on every run by tools/gosrc2v/imguse.go) lists,
    for every function of the root and lossy packages that takes an image.Image, every use of
    that parameter.  [factors_through_import] checks the list: driver functions only look at the
    geometry (Bounds, nil test) and hand the image on to classified functions; pixels are read
    only by the import functions (the ones modelled in PlaceModel.v) and by the single import
    statement of encodeLossless / encodeLosslessToWriter, which precedes the codec call and is
    the last use of the image.  Hence everything Encode does after the imports is a function
    of the options, the dimensions and the extracted arrays: the encoder model below has exactly
    that shape, and composing it with the import-independence theorems gives "the output is a
    function of the logical picture". *)
From Coq Require Import ZArith List Bool Lia String.
From WebpGen Require ImgUse.
From Webp Require Import Base.Res Place.PlaceModel Place.PlaceProof.
Import ListNotations.
Open Scope Z_scope.

Module U := WebpGen.ImgUse.

Definition role_of (f : Z) : option Z :=
  match find (fun r => fst r =? f) U.ifn_roles with Some r => Some (snd r) | None => None end.

Definition classified (f : Z) : bool := match role_of f with Some _ => true | None => false end.

(** uses a driver may make *)
Definition driver_use_ok (u : U.iuse) : bool :=
  match u with
  | U.IUBounds | U.IUNil => true
  | U.IUPass f | U.IUReassign f => classified f
  | _ => false
  end.

(** uses anywhere: callees must be classified *)
Definition callee_ok (u : U.iuse) : bool :=
  match u with U.IUPass f | U.IUReassign f => classified f | _ => true end.

Definition fn_ok (e : Z * list U.iuse) : bool :=
  match role_of (fst e) with
  | Some 0 => forallb driver_use_ok (snd e)
  | Some 1 => forallb callee_ok (snd e)
  | Some 2 => forallb callee_ok (snd e) &&
              (* the import statement precedes the codec call and is the last use of the image *)
              existsb (fun r => let '(f, imp, codec, last) := r in (f =? fst e) && (imp <? codec) && (last <=? imp))
                      U.img_mixed_regions
  | _ => false
  end.

Definition factors_through_import : bool :=
  forallb fn_ok U.img_uses &&
  (* every classified function was found in the source *)
  forallb (fun r => existsb (fun e => fst e =? fst r) U.img_uses) U.ifn_roles.

Lemma source_factors_through_import : factors_through_import = true.
Proof. vm_compute. reflexivity. Qed.

(** Everything the import functions extract from a placement. *)
Record imports : Type := mkImports {
  i_argb : Res (list (list Z));
  i_root_has_alpha : Res bool;
  i_lossy_has_alpha : Res bool;
  i_alpha : Res (list (list Z));
  i_cleanup : Res (list (list px));
  i_sharp_rgb : Res (list (list (Z * Z * Z)));
  i_rows : Res (list (list px));          (* lossy import, direct path (Y and chroma rows are functions of these) *)
  i_rows_serial : Res (list (list px))    (* lossy import, serial path (dithering) *)
}.

Definition extract (pl : placement) : imports :=
  mkImports (fast_argb pl) (fast_root_has_alpha pl) (fast_lossy_has_alpha pl) (fast_extract_alpha pl)
            (fast_cleanup_copy pl) (fast_sharp_rgb pl)
            (fast_import_rows (fun p => p) (0, 0, 0, 0) pl) (fast_import_rows_serial (fun p => p) pl).

Section Encoder.
  (** options, output; [rest] = all of the encoder after the imports (analysis, heuristics, token
      emission, container writing): by [source_factors_through_import] it sees the source image
      only through the geometry and the extracted arrays. *)
  Variables (Cfg Out : Type).
  Variable rest : Cfg -> Z -> Z -> imports -> Out.

  Definition encode_model (cfg : Cfg) (pl : placement) : Out := rest cfg (pw pl) (ph pl) (extract pl).

  Theorem encode_factors_through_import : forall cfg pl1 pl2,
    valid pl1 -> valid pl2 -> picture pl1 = picture pl2 ->
    encode_model cfg pl1 = encode_model cfg pl2.
  Proof.
    intros cfg pl1 pl2 V1 V2 E. unfold encode_model, extract.
    destruct (same_picture_same_dims pl1 pl2 V1 V2 E) as [-> ->].
    rewrite (indep_argb pl1 pl2 V1 V2 E), (indep_root_has_alpha pl1 pl2 V1 V2 E),
      (indep_lossy_has_alpha pl1 pl2 V1 V2 E), (indep_extract_alpha pl1 pl2 V1 V2 E),
      (indep_cleanup_copy pl1 pl2 V1 V2 E), (indep_sharp_rgb pl1 pl2 V1 V2 E),
      (indep_import_rows pl1 pl2 V1 V2 E (fun p => p) (0, 0, 0, 0)),
      (indep_import_rows_serial pl1 pl2 V1 V2 E (fun p => p)).
    reflexivity.
  Qed.

  (** ... and the bytes of the backing buffer outside the bounds cannot matter. *)
  Theorem encode_ignores_bytes_outside_bounds : forall cfg pl1 pl2,
    valid pl1 -> valid pl2 -> same_geometry pl1 pl2 -> agree_in_bounds pl1 pl2 ->
    encode_model cfg pl1 = encode_model cfg pl2.
  Proof.
    intros cfg pl1 pl2 V1 V2 G A. apply encode_factors_through_import; try assumption.
    apply outside_bounds_irrelevant; assumption.
  Qed.
End Encoder.

(** The pixel-reading signatures the models and the harness were written against: the SET of
    (sorted) pixel-use kinds of the functions that read pixels - two Pix fast paths (NRGBA, RGBA)
    plus one generic At() loop; lossy.importImage has two At() loops (luma and extractRow);
    cleanupTransparentAreaLossyWith may also hand the image back.  Which function holds a loop
    is not pinned (extracting the duplicated import block of encodeLossless / encodeLosslessToWriter
    into a helper leaves the set unchanged); a NEW kind of reader (a function with only an At()
    loop, a third fast path, ...) changes the set and breaks this obligation: the harness'
    placement x type x configuration product must then be reviewed. *)
Definition doc_pixel_signatures : list string :=
  [ "IUAssert,IUAssert,IUAt"%string; "IUAssert,IUAssert,IUAt,IUAt"%string; "IUAssert,IUAssert,IUAt,IUReturn"%string ].

Lemma import_sites_match_model : U.img_pixel_signatures = doc_pixel_signatures.
Proof. reflexivity. Qed.

(** every offset the fast paths read lies in the buffer, in row y, in the columns of the bounds *)
Lemma in_bounds_offsets_in_range : forall pl, wf pl -> validb pl = true ->
  forall x y c, 0 <= x < pw pl -> 0 <= y < ph pl -> 0 <= c < 4 ->
  0 <= off pl x y c < plen pl /\ y * pStride pl <= off pl x y c < y * pStride pl + pw pl * 4.
Proof.
  intros pl W V x y c Hx Hy Hc. split; [exact (off_range pl W V x y c Hx Hy Hc)|].
  unfold off. lia.
Qed.
