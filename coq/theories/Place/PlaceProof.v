(** C19 — proofs: every fast path of a valid placement reads exactly the pixels of the
    picture, never panics, and therefore depends on the picture only. *)
From Coq Require Import ZArith List Bool Lia.
From Coq Require Import ZifyBool.
From Webp Require Import Base.Res Place.PlaceModel.
Import ListNotations.
Open Scope Z_scope.

(** * lists *)
Lemma In_zrange : forall n x, In x (zrange n) <-> 0 <= x < n.
Proof.
  intros n x. unfold zrange. rewrite in_map_iff. split.
  - intros [k [<- Hk]]. apply in_seq in Hk. lia.
  - intros H. exists (Z.to_nat x). split; [lia|]. apply in_seq. lia.
Qed.

Lemma zrange_length : forall n, length (zrange n) = Z.to_nat n.
Proof. intros. unfold zrange. rewrite map_length, seq_length. reflexivity. Qed.

Lemma nth_zrange_map {T} : forall (f : Z -> T) n i d, 0 <= i < n ->
  nth (Z.to_nat i) (map f (zrange n)) d = f i.
Proof.
  intros f n i d H. unfold zrange. rewrite map_map.
  rewrite (nth_indep _ d (f (Z.of_nat 0))) by (rewrite map_length, seq_length; lia).
  rewrite (map_nth (fun k => f (Z.of_nat k)) (seq 0 (Z.to_nat n)) 0%nat).
  rewrite seq_nth by lia. f_equal. lia.
Qed.

Lemma mapR_ok {A B} : forall (f : A -> Res B) (g : A -> B) l,
  (forall a, In a l -> f a = Ok (g a)) -> mapR f l = Ok (map g l).
Proof.
  intros f g l. induction l as [|a t IH]; intros H; cbn; [reflexivity|].
  rewrite (H a) by (left; reflexivity). cbn. rewrite IH by (intros; apply H; right; assumption). reflexivity.
Qed.

Lemma mapR2_ok {A B C} : forall (f : A -> B -> Res C) (g : A -> B -> C) ys xs,
  (forall y x, In y ys -> In x xs -> f y x = Ok (g y x)) ->
  mapR (fun y => mapR (f y) xs) ys = Ok (map (fun y => map (g y) xs) ys).
Proof.
  intros f g ys xs H. apply mapR_ok. intros y Hy. apply mapR_ok. intros x Hx. apply H; assumption.
Qed.

Lemma scan_alpha_ok : forall l, scan_alpha (map Ok l) = Ok (existsb (fun a => negb (a =? 255)) l).
Proof.
  induction l as [|a t IH]; cbn; [reflexivity|]. destruct (a =? 255); cbn; [exact IH|reflexivity].
Qed.

Lemma existsb_flat {T} : forall (f : T -> bool) (ll : list (list T)),
  existsb f (concat ll) = existsb (existsb f) ll.
Proof.
  induction ll as [|l t IH]; cbn; [reflexivity|]. rewrite existsb_app, IH. reflexivity.
Qed.

(** * reading a valid placement *)
Lemma index_nth : forall (l : list Z) i, 0 <= i < Z.of_nat (length l) -> index l i = Ok (nth (Z.to_nat i) l 0).
Proof.
  intros l i H. unfold index.
  replace ((0 <=? i) && (i <? Z.of_nat (length l))) with true by lia.
  rewrite (nth_error_nth' l 0) by lia. reflexivity.
Qed.

Section Valid.
  Variable pl : placement.
  Hypothesis Hwf : wf pl.
  Hypothesis Hv : validb pl = true.

  Let S := pStride pl.
  Let w := pw pl.
  Let h := ph pl.

  Lemma valid_facts : S >= w * 4 /\ plen pl >= (h - 1) * S + w * 4 /\ 1 <= w /\ 1 <= h.
  Proof.
    unfold validb in Hv. destruct Hwf as (_ & _ & _ & _ & Hw & Hh). subst S w h. lia.
  Qed.

  (** offset of byte c of logical pixel (x, y) *)
  Definition off (x y c : Z) : Z := y * pStride pl + x * 4 + c.

  Lemma off_range : forall x y c, 0 <= x < w -> 0 <= y < h -> 0 <= c < 4 -> 0 <= off x y c < plen pl.
  Proof.
    intros x y c Hx Hy Hc. destruct valid_facts as (H1 & H2 & H3 & H4). unfold off. fold S.
    assert (0 <= S) by lia.
    assert (y * S <= (h - 1) * S) by (apply Z.mul_le_mono_nonneg_r; lia).
    assert (0 <= y * S) by (apply Z.mul_nonneg_nonneg; lia).
    lia.
  Qed.

  Lemma rd_off : forall x y c, 0 <= x < w -> 0 <= y < h -> 0 <= c < 4 -> rd pl (off x y c) = Ok (pxb pl (off x y c)).
  Proof. intros. unfold rd, pxb. apply index_nth. apply off_range; assumption. Qed.

  (** the pixel of the picture at (x, y) *)
  Definition pix_at (x y : Z) : px := (pxb pl (off x y 0), pxb pl (off x y 1), pxb pl (off x y 2), pxb pl (off x y 3)).
  Definition pic : list (list px) := map (fun y => map (fun x => pix_at x y) (zrange w)) (zrange h).

  Lemma rd4_off : forall x y o, 0 <= x < w -> 0 <= y < h -> o = off x y 0 -> rd4 pl o = Ok (pix_at x y).
  Proof.
    intros x y o Hx Hy ->. unfold rd4, pix_at.
    replace (off x y 0 + 1) with (off x y 1) by (unfold off; lia).
    replace (off x y 0 + 2) with (off x y 2) by (unfold off; lia).
    replace (off x y 0 + 3) with (off x y 3) by (unfold off; lia).
    rewrite !rd_off by lia. reflexivity.
  Qed.

  Lemma bounds_eq : bMinX pl = rMinX pl /\ bMinY pl = rMinY pl /\ rMaxX pl = rMinX pl + w /\ rMaxY pl = rMinY pl + h.
  Proof. destruct Hwf as (A & B & C & D & _). subst w h. unfold pw, ph. lia. Qed.

  Lemma row_off_eq : forall y x c, row_off pl y + x * 4 + c = off x y c.
  Proof. intros. destruct bounds_eq as (A & B & _). unfold row_off, off. rewrite A, B. lia. Qed.

  (** the generic At() path never panics and defines the picture *)
  Theorem picture_ok : picture pl = Ok pic.
  Proof.
    unfold picture, pic. fold w h. apply mapR2_ok. intros y x Hy Hx.
    apply In_zrange in Hy. apply In_zrange in Hx. destruct bounds_eq as (A & B & C & D).
    unfold at_generic.
    replace ((rMinX pl <=? bMinX pl + x) && (bMinX pl + x <? rMaxX pl) && (rMinY pl <=? bMinY pl + y) && (bMinY pl + y <? rMaxY pl))
      with true by lia.
    apply rd4_off; try assumption. unfold off. rewrite A, B. lia.
  Qed.

  Theorem fast_argb_ok : fast_argb pl = Ok (gen_argb pic).
  Proof.
    unfold fast_argb. rewrite Hv. unfold gen_argb, pic. fold w h. rewrite map_map.
    erewrite (map_ext _ _ (fun y => map_map _ _ _)).
    apply mapR2_ok. intros y x Hy Hx. apply In_zrange in Hy. apply In_zrange in Hx.
    rewrite (rd4_off x y) by (try assumption; rewrite <- (row_off_eq y x 0); lia). reflexivity.
  Qed.

  Theorem fast_extract_alpha_ok : fast_extract_alpha pl = Ok (gen_alpha pic).
  Proof.
    unfold fast_extract_alpha. rewrite Hv. unfold gen_alpha, pic. fold w h. rewrite map_map.
    erewrite (map_ext _ _ (fun y => map_map _ _ _)).
    apply mapR2_ok. intros y x Hy Hx. apply In_zrange in Hy. apply In_zrange in Hx.
    replace (row_off pl y + 3 + 4 * x) with (off x y 3) by (rewrite <- row_off_eq; lia).
    rewrite rd_off by lia. reflexivity.
  Qed.

  Theorem fast_sharp_rgb_ok : fast_sharp_rgb pl = Ok (gen_sharp_rgb pic).
  Proof.
    unfold fast_sharp_rgb. rewrite Hv. unfold gen_sharp_rgb, pic. fold w h. rewrite map_map.
    erewrite (map_ext _ _ (fun y => map_map _ _ _)).
    apply mapR2_ok. intros y x Hy Hx. apply In_zrange in Hy. apply In_zrange in Hx. cbv zeta.
    replace (row_off pl y + x * 4) with (off x y 0) by (rewrite <- (row_off_eq y x 0); lia).
    replace (off x y 0 + 1) with (off x y 1) by (unfold off; lia).
    replace (off x y 0 + 2) with (off x y 2) by (unfold off; lia).
    rewrite !rd_off by lia. reflexivity.
  Qed.

  Theorem fast_cleanup_copy_ok : fast_cleanup_copy pl = Ok pic.
  Proof.
    unfold fast_cleanup_copy. rewrite Hv. unfold pic. fold w h.
    apply mapR_ok. intros y Hy. apply In_zrange in Hy. cbv zeta.
    destruct valid_facts as (H1 & H2 & H3 & H4).
    pose proof (off_range 0 y 0 ltac:(lia) Hy ltac:(lia)) as R0.
    pose proof (off_range (w - 1) y 3 ltac:(lia) Hy ltac:(lia)) as R1.
    pose proof (row_off_eq y 0 0) as E0. pose proof (row_off_eq y (w - 1) 3) as E1. fold w.
    replace ((0 <=? row_off pl y) && (row_off pl y <=? row_off pl y + w * 4) && (row_off pl y + w * 4 <=? plen pl))
      with true by lia.
    apply f_equal. apply map_ext_in. intros x Hx. apply In_zrange in Hx. unfold pix_at.
    rewrite <- !row_off_eq. replace (row_off pl y + x * 4 + 0) with (row_off pl y + x * 4) by lia. reflexivity.
  Qed.

  Lemma alpha_rows_flat :
    existsb (fun a => negb (a =? 255)) (flat_map (fun y => map (fun x => pxb pl (off x y 3)) (zrange w)) (zrange h))
    = gen_has_alpha pic.
  Proof.
    unfold gen_has_alpha, any_transparent, gen_alpha, pic. rewrite flat_map_concat_map, existsb_flat.
    rewrite !map_map. f_equal. apply map_ext. intros y. rewrite map_map. reflexivity.
  Qed.

  Theorem fast_root_has_alpha_ok : fast_root_has_alpha pl = Ok (gen_has_alpha pic).
  Proof.
    unfold fast_root_has_alpha. rewrite Hv. fold w h. rewrite <- alpha_rows_flat.
    rewrite <- scan_alpha_ok. f_equal. rewrite !flat_map_concat_map. rewrite concat_map, map_map. f_equal.
    apply map_ext_in. intros y Hy. apply In_zrange in Hy. rewrite map_map.
    apply map_ext_in. intros x Hx. apply In_zrange in Hx.
    replace (y * pStride pl + 3 + 4 * x) with (off x y 3) by (unfold off; lia).
    apply rd_off; lia.
  Qed.

  Theorem fast_lossy_has_alpha_ok : fast_lossy_has_alpha pl = Ok (gen_has_alpha pic).
  Proof.
    unfold fast_lossy_has_alpha. fold w h.
    rewrite (mapR2_ok _ (fun y x => pxb pl (off x y 3))).
    - cbn [bind]. f_equal. unfold gen_has_alpha, gen_alpha, pic. rewrite map_map. f_equal.
      apply map_ext. intros y. rewrite map_map. reflexivity.
    - intros y x Hy Hx. apply In_zrange in Hy. apply In_zrange in Hx. destruct bounds_eq as (A & B & _).
      replace ((bMinY pl + y - rMinY pl) * pStride pl + (bMinX pl - rMinX pl) * 4 + 4 * x + 3) with (off x y 3)
        by (unfold off; rewrite A, B; lia).
      apply rd_off; lia.
  Qed.

  Lemma pic_row : forall y, 0 <= y < h -> nth (Z.to_nat y) pic [] = map (fun x => pix_at x y) (zrange w).
  Proof. intros y Hy. unfold pic. apply (nth_zrange_map (fun y => map (fun x => pix_at x y) (zrange w))). assumption. Qed.

  Theorem fast_import_rows_ok {T} : forall (F : px -> T) d,
    fast_import_rows F d pl = Ok (gen_import_rows F d w h pic).
  Proof.
    intros F d. unfold fast_import_rows, gen_import_rows. fold w h.
    apply mapR_ok. intros y Hy. apply In_zrange in Hy. cbv zeta. destruct valid_facts as (H1 & H2 & H3 & H4).
    set (sy := if y >=? h then h - 1 else y).
    assert (Hsy : 0 <= sy < h) by (subst sy; destruct (y >=? h) eqn:E; lia).
    assert (Ec : clampi h y = sy) by reflexivity.
    rewrite (mapR_ok _ (fun x => F (pix_at x sy))).
    - cbn [bind]. rewrite Ec, pic_row by assumption. rewrite map_map. reflexivity.
    - intros x Hx. apply In_zrange in Hx. destruct bounds_eq as (A & B & _).
      rewrite (rd4_off x sy) by (try assumption; unfold src_base, off; rewrite A, B; lia). reflexivity.
  Qed.

  Theorem fast_import_rows_serial_ok {T} : forall (F : px -> T),
    fast_import_rows_serial F pl = Ok (gen_import_rows_serial F w h pic).
  Proof.
    intros F. unfold fast_import_rows_serial, gen_import_rows_serial. fold w h.
    apply mapR2_ok. intros y x Hy Hx. apply In_zrange in Hy. apply In_zrange in Hx. cbv zeta.
    destruct valid_facts as (H1 & H2 & H3 & H4). destruct bounds_eq as (A & B & _).
    set (cy := clampi h y). set (cx := clampi w x).
    assert (Hcy : 0 <= cy < h) by (subst cy; unfold clampi; destruct (y >=? h) eqn:E; lia).
    assert (Hcx : 0 <= cx < w) by (subst cx; unfold clampi; destruct (x >=? w) eqn:E; lia).
    rewrite pic_row by assumption. rewrite (nth_zrange_map (fun x => pix_at x cy)) by assumption.
    rewrite (rd4_off cx cy); [reflexivity|assumption|assumption|].
    subst cy cx. unfold clampi, off. rewrite A, B.
    destruct (y >=? h) eqn:E1; destruct (x >=? w) eqn:E2;
      replace (y + rMinY pl >=? rMinY pl + h) with (y >=? h) by lia; rewrite E1; lia.
  Qed.
End Valid.

(** * placement independence *)
Definition valid (pl : placement) : Prop := wf pl /\ validb pl = true.

Lemma pic_eq : forall pl1 pl2, valid pl1 -> valid pl2 -> picture pl1 = picture pl2 -> pic pl1 = pic pl2.
Proof.
  intros pl1 pl2 [W1 V1] [W2 V2] E. rewrite (picture_ok pl1 W1 V1), (picture_ok pl2 W2 V2) in E.
  injection E. trivial.
Qed.

Lemma pic_dims : forall pl, length (pic pl) = Z.to_nat (ph pl) /\
  (forall r, In r (pic pl) -> length r = Z.to_nat (pw pl)).
Proof.
  intros pl. unfold pic. split.
  - rewrite map_length, zrange_length. reflexivity.
  - intros r Hr. apply in_map_iff in Hr. destruct Hr as [y [<- _]]. rewrite map_length, zrange_length. reflexivity.
Qed.

Lemma same_picture_same_dims : forall pl1 pl2, valid pl1 -> valid pl2 -> picture pl1 = picture pl2 ->
  pw pl1 = pw pl2 /\ ph pl1 = ph pl2.
Proof.
  intros pl1 pl2 V1 V2 E. pose proof (pic_eq pl1 pl2 V1 V2 E) as Ep.
  destruct (pic_dims pl1) as [L1 R1]. destruct (pic_dims pl2) as [L2 R2].
  destruct (proj1 V1) as (_ & _ & _ & _ & Hw1 & Hh1). destruct (proj1 V2) as (_ & _ & _ & _ & Hw2 & Hh2).
  rewrite Ep in L1, R1.
  split; [|lia].
  destruct (pic pl2) as [|r t]; [cbn in L2; lia|].
  pose proof (R1 r (or_introl eq_refl)). pose proof (R2 r (or_introl eq_refl)). lia.
Qed.

Section Independence.
  Variables pl1 pl2 : placement.
  Hypothesis V1 : valid pl1.
  Hypothesis V2 : valid pl2.
  Hypothesis E : picture pl1 = picture pl2.

  Ltac indep lem :=
    rewrite (lem pl1 (proj1 V1) (proj2 V1)), (lem pl2 (proj1 V2) (proj2 V2)), (pic_eq pl1 pl2 V1 V2 E); reflexivity.

  Theorem indep_argb : fast_argb pl1 = fast_argb pl2. Proof. indep fast_argb_ok. Qed.
  Theorem indep_root_has_alpha : fast_root_has_alpha pl1 = fast_root_has_alpha pl2. Proof. indep fast_root_has_alpha_ok. Qed.
  Theorem indep_lossy_has_alpha : fast_lossy_has_alpha pl1 = fast_lossy_has_alpha pl2. Proof. indep fast_lossy_has_alpha_ok. Qed.
  Theorem indep_extract_alpha : fast_extract_alpha pl1 = fast_extract_alpha pl2. Proof. indep fast_extract_alpha_ok. Qed.
  Theorem indep_cleanup_copy : fast_cleanup_copy pl1 = fast_cleanup_copy pl2. Proof. indep fast_cleanup_copy_ok. Qed.
  Theorem indep_sharp_rgb : fast_sharp_rgb pl1 = fast_sharp_rgb pl2. Proof. indep fast_sharp_rgb_ok. Qed.

  Theorem indep_import_rows {T} : forall (F : px -> T) d, fast_import_rows F d pl1 = fast_import_rows F d pl2.
  Proof.
    intros F d. destruct (same_picture_same_dims pl1 pl2 V1 V2 E) as [Ew Eh].
    rewrite (fast_import_rows_ok pl1 (proj1 V1) (proj2 V1)), (fast_import_rows_ok pl2 (proj1 V2) (proj2 V2)).
    rewrite (pic_eq pl1 pl2 V1 V2 E), Ew, Eh. reflexivity.
  Qed.

  Theorem indep_import_rows_serial {T} : forall (F : px -> T), fast_import_rows_serial F pl1 = fast_import_rows_serial F pl2.
  Proof.
    intros F. destruct (same_picture_same_dims pl1 pl2 V1 V2 E) as [Ew Eh].
    rewrite (fast_import_rows_serial_ok pl1 (proj1 V1) (proj2 V1)), (fast_import_rows_serial_ok pl2 (proj1 V2) (proj2 V2)).
    rewrite (pic_eq pl1 pl2 V1 V2 E), Ew, Eh. reflexivity.
  Qed.
End Independence.

(** * bytes outside the bounds are irrelevant *)
Definition same_geometry (pl1 pl2 : placement) : Prop :=
  pStride pl1 = pStride pl2 /\ rMinX pl1 = rMinX pl2 /\ rMinY pl1 = rMinY pl2 /\ rMaxX pl1 = rMaxX pl2 /\
  rMaxY pl1 = rMaxY pl2 /\ bMinX pl1 = bMinX pl2 /\ bMinY pl1 = bMinY pl2 /\ bMaxX pl1 = bMaxX pl2 /\ bMaxY pl1 = bMaxY pl2.

(** in-bounds bytes: byte c of pixel (x, y), at y*Stride + x*4 + c *)
Definition agree_in_bounds (pl1 pl2 : placement) : Prop :=
  forall x y c, 0 <= x < pw pl1 -> 0 <= y < ph pl1 -> 0 <= c < 4 ->
    pxb pl1 (off pl1 x y c) = pxb pl2 (off pl2 x y c).

Theorem outside_bounds_irrelevant : forall pl1 pl2,
  valid pl1 -> valid pl2 -> same_geometry pl1 pl2 -> agree_in_bounds pl1 pl2 ->
  picture pl1 = picture pl2.
Proof.
  intros pl1 pl2 [W1 V1] [W2 V2] G A.
  rewrite (picture_ok pl1 W1 V1), (picture_ok pl2 W2 V2). f_equal.
  destruct G as (Gs & G1 & G2 & G3 & G4 & G5 & G6 & G7 & G8).
  assert (Ew : pw pl1 = pw pl2) by (unfold pw; lia).
  assert (Eh : ph pl1 = ph pl2) by (unfold ph; lia).
  unfold pic. rewrite <- Ew, <- Eh.
  apply map_ext_in. intros y Hy. apply In_zrange in Hy.
  apply map_ext_in. intros x Hx. apply In_zrange in Hx.
  unfold pix_at. rewrite !A by lia. reflexivity.
Qed.

(** * non-vacuity and sharpness *)

(** the picture [[(1,2,3,4); (5,6,7,8)]] (2x1) at the origin and as a sub-image view at
    (3,5) of a parent with stride 28 and noise around it *)
Definition ex_origin : placement := mkPl [1; 2; 3; 4; 5; 6; 7; 8] 8 0 0 2 1 0 0 2 1.
Definition ex_sub : placement :=
  mkPl [1; 2; 3; 4; 5; 6; 7; 8; 99; 98; 97; 96; 95; 94] 28 3 5 5 6 3 5 5 6.

Example ex_valid : valid ex_origin /\ valid ex_sub /\ picture ex_origin = picture ex_sub /\ pPix ex_origin <> pPix ex_sub.
Proof. unfold valid, wf. cbn. repeat split; try lia; try discriminate. Qed.

(** Without validNRGBA the unguarded lossy paths index out of range: a 2x2 placement whose
    Pix is one row short. *)
Definition ex_short : placement := mkPl [1; 2; 3; 255; 5; 6; 7; 255] 8 0 0 2 2 0 0 2 2.
Example short_placement_panics :
  validb ex_short = false /\ fast_lossy_has_alpha ex_short = Panic /\ fast_import_rows rgb_to_y 0 ex_short = Panic /\
  fast_extract_alpha ex_short = Panic.
Proof. vm_compute. repeat split. Qed.
