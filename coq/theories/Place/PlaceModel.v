(** C19 — Encode depends on the picture, not on how the pixels are stored.

    Implementation models of the index arithmetic of every *image.NRGBA fast path of
    encode.go and internal/lossy/encode.go (as of the committed tree), each as "which
    Pix index is read for logical (x, y)" with an explicit [Panic] when the index is
    out of range, and of the generic At() path (image.NRGBA.NRGBAAt / PixOffset).

    A placement = backing Pix, Stride, Rect and the bounds the code works with
    (for a real *image.NRGBA, Bounds() returns Rect: [wf]).  The logical picture is the
    h x w matrix of (R,G,B,A) read through the generic path. *)
From Coq Require Import ZArith List Bool Lia.
From WebpGen Require Consts.
From Webp Require Import Base.Res.
Import ListNotations.
Open Scope Z_scope.

Record placement : Type := mkPl {
  pPix : list Z; pStride : Z;
  rMinX : Z; rMinY : Z; rMaxX : Z; rMaxY : Z;    (* img.Rect *)
  bMinX : Z; bMinY : Z; bMaxX : Z; bMaxY : Z     (* img.Bounds() *)
}.

Definition pw (pl : placement) : Z := bMaxX pl - bMinX pl.
Definition ph (pl : placement) : Z := bMaxY pl - bMinY pl.
Definition plen (pl : placement) : Z := Z.of_nat (length (pPix pl)).

(** validNRGBA(img, w, h) *)
Definition validb (pl : placement) : bool :=
  (pStride pl >=? pw pl * 4) && (plen pl >=? (ph pl - 1) * pStride pl + pw pl * 4).

(** What *image.NRGBA and Encode guarantee: Bounds() = Rect, and 1 <= w, h (Encode
    rejects empty images first). *)
Definition wf (pl : placement) : Prop :=
  bMinX pl = rMinX pl /\ bMinY pl = rMinY pl /\ bMaxX pl = rMaxX pl /\ bMaxY pl = rMaxY pl /\
  1 <= pw pl /\ 1 <= ph pl.

Definition px : Type := (Z * Z * Z * Z)%type.   (* R, G, B, A *)

Definition rd (pl : placement) (off : Z) : Res Z := index (pPix pl) off.
Definition rd4 (pl : placement) (off : Z) : Res px :=
  r <- rd pl off ;; g <- rd pl (off + 1) ;; b <- rd pl (off + 2) ;; a <- rd pl (off + 3) ;; Ok (r, g, b, a).

Fixpoint mapR {A B} (f : A -> Res B) (l : list A) : Res (list B) :=
  match l with
  | [] => Ok []
  | a :: t => b <- f a ;; bs <- mapR f t ;; Ok (b :: bs)
  end.

Definition zrange (n : Z) : list Z := map Z.of_nat (seq 0 (Z.to_nat n)).

(** ---- generic path: img.At(bounds.Min.X+x, bounds.Min.Y+y) = NRGBAAt ---- *)
Definition at_generic (pl : placement) (X Y : Z) : Res px :=
  if (rMinX pl <=? X) && (X <? rMaxX pl) && (rMinY pl <=? Y) && (Y <? rMaxY pl)
  then rd4 pl ((Y - rMinY pl) * pStride pl + (X - rMinX pl) * 4)    (* PixOffset; Pix[i:i+4:i+4] *)
  else Ok (0, 0, 0, 0).

Definition picture (pl : placement) : Res (list (list px)) :=
  mapR (fun y => mapR (fun x => at_generic pl (bMinX pl + x) (bMinY pl + y)) (zrange (pw pl))) (zrange (ph pl)).

Definition argb_of (p : px) : Z := let '(r, g, b, a) := p in a * 2 ^ 24 + r * 2 ^ 16 + g * 2 ^ 8 + b.
Definition any_transparent (rows : list (list Z)) : bool :=
  existsb (existsb (fun a => negb (a =? 255))) rows.

(** ---- the same extractions as functions of the picture alone ---- *)
Definition gen_argb (p : list (list px)) : list (list Z) := map (map argb_of) p.
Definition alpha_of (q : px) : Z := let '(_, _, _, a) := q in a.
Definition rgb_of (q : px) : Z * Z * Z := let '(r, g, b, _) := q in (r, g, b).
Definition gen_alpha (p : list (list px)) : list (list Z) := map (map alpha_of) p.
Definition gen_has_alpha (p : list (list px)) : bool := any_transparent (gen_alpha p).
Definition gen_sharp_rgb (p : list (list px)) : list (list (Z * Z * Z)) := map (map rgb_of) p.


(** ---- fast paths ---- *)

(** rowOff := (y+bounds.Min.Y-Rect.Min.Y)*Stride + (bounds.Min.X-Rect.Min.X)*4 *)
Definition row_off (pl : placement) (y : Z) : Z :=
  (y + bMinY pl - rMinY pl) * pStride pl + (bMinX pl - rMinX pl) * 4.

(** encodeLossless / encodeLosslessToWriter: argb[y*w+x] *)
Definition fast_argb (pl : placement) : Res (list (list Z)) :=
  if validb pl then
    mapR (fun y => mapR (fun x => p <- rd4 pl (row_off pl y + x * 4) ;; Ok (argb_of p)) (zrange (pw pl))) (zrange (ph pl))
  else p <- picture pl ;; Ok (gen_argb p).   (* generic At() fallback *)

(** encode.go imageHasAlpha: off := (y-b.Min.Y)*Stride + 3; off += 4; returns true at the first
    alpha <> 255 (later pixels are not read); generic fallback: img.At(x, y).RGBA() in the same order. *)
Fixpoint scan_alpha (reads : list (Res Z)) : Res bool :=
  match reads with
  | [] => Ok false
  | r :: t => a <- r ;; if a =? 255 then scan_alpha t else Ok true
  end.

Definition fast_root_has_alpha (pl : placement) : Res bool :=
  if validb pl then
    scan_alpha (flat_map (fun y => map (fun x => rd pl (y * pStride pl + 3 + 4 * x)) (zrange (pw pl))) (zrange (ph pl)))
  else
    scan_alpha (flat_map (fun y => map (fun x => p <- at_generic pl (bMinX pl + x) (bMinY pl + y) ;; Ok (alpha_of p))
                                       (zrange (pw pl))) (zrange (ph pl))).

(** lossy.imageHasAlpha (no validNRGBA guard):
    rowOff := (y-Rect.Min.Y)*Stride + (bounds.Min.X-Rect.Min.X)*4 for y from bounds.Min.Y; reads rowOff+3+4x *)
Definition fast_lossy_has_alpha (pl : placement) : Res bool :=
  rows <- mapR (fun y => mapR (fun x =>
            rd pl ((bMinY pl + y - rMinY pl) * pStride pl + (bMinX pl - rMinX pl) * 4 + 4 * x + 3))
            (zrange (pw pl))) (zrange (ph pl)) ;;
  Ok (any_transparent rows).

(** extractAlphaWith: rowOff := row_off + 3; alpha[y*w+x] = Pix[rowOff]; rowOff += 4 *)
Definition fast_extract_alpha (pl : placement) : Res (list (list Z)) :=
  if validb pl then
    mapR (fun y => mapR (fun x => rd pl (row_off pl y + 3 + 4 * x)) (zrange (pw pl))) (zrange (ph pl))
  else p <- picture pl ;; Ok (gen_alpha p).

(** cleanupTransparentAreaLossyWith: copy(dst[dstOff:dstOff+w*4], src.Pix[srcOff:srcOff+w*4]) per row;
    the slice expression panics unless 0 <= srcOff <= srcOff+w*4 <= len (cap = len for our buffers). *)
Definition pxb (pl : placement) (off : Z) : Z := nth (Z.to_nat off) (pPix pl) 0.
Definition fast_cleanup_copy (pl : placement) : Res (list (list px)) :=
  if validb pl then
    mapR (fun y => let so := row_off pl y in
                   if (0 <=? so) && (so <=? so + pw pl * 4) && (so + pw pl * 4 <=? plen pl)
                   then Ok (map (fun x => (pxb pl (so + x * 4), pxb pl (so + x * 4 + 1), pxb pl (so + x * 4 + 2), pxb pl (so + x * 4 + 3)))
                                (zrange (pw pl)))
                   else Panic) (zrange (ph pl))
  else picture pl.

(** sharpYUVConvert: rgb[dstOff..+2] = Pix[srcOff..+2]; srcOff += 4 *)
Definition fast_sharp_rgb (pl : placement) : Res (list (list (Z * Z * Z))) :=
  if validb pl then
    mapR (fun y => mapR (fun x => let so := row_off pl y + x * 4 in
                                  r <- rd pl so ;; g <- rd pl (so + 1) ;; b <- rd pl (so + 2) ;; Ok (r, g, b))
                        (zrange (pw pl))) (zrange (ph pl))
  else p <- picture pl ;; Ok (gen_sharp_rgb p).

(** lossy.importImage (no validNRGBA guard), direct non-dithered paths: for each padded row
    y < padH, sy = min(y, h-1), rowOff = srcBase + sy*Stride, the pixels x < w are read and the
    last value is replicated up to padW.  [F] is what is stored: RGBToY for the Y plane, the
    raw R,G,B,A samples for the UV pair rows (rows 2y and 2y+1 of each pair). *)
Definition src_base (pl : placement) : Z :=
  (bMinY pl - rMinY pl) * pStride pl + (bMinX pl - rMinX pl) * 4.

Definition pad16 (n : Z) : Z := ((n + 15) / 16) * 16.

Definition replicate_to {T} (d : T) (vals : list T) (n : Z) : list T :=
  vals ++ repeat (last vals d) (Z.to_nat (n - Z.of_nat (length vals))).

Definition fast_import_rows {T} (F : px -> T) (d : T) (pl : placement) : Res (list (list T)) :=
  mapR (fun y => let sy := if y >=? ph pl then ph pl - 1 else y in
                 vals <- mapR (fun x => p <- rd4 pl (src_base pl + sy * pStride pl + x * 4) ;; Ok (F p)) (zrange (pw pl)) ;;
                 Ok (replicate_to d vals (pad16 (pw pl))))
       (zrange (pad16 (ph pl))).

(** serial path (dithering / extractRow): sy = min(srcY+bounds.Min.Y, bounds.Min.Y+h-1);
    rowOff = (sy-Rect.Min.Y)*Stride + (bounds.Min.X-Rect.Min.X)*4; sx = min(x, w-1) *)
Definition fast_import_rows_serial {T} (F : px -> T) (pl : placement) : Res (list (list T)) :=
  mapR (fun y => let sy := if y + bMinY pl >=? bMinY pl + ph pl then bMinY pl + ph pl - 1 else y + bMinY pl in
                 let ro := (sy - rMinY pl) * pStride pl + (bMinX pl - rMinX pl) * 4 in
                 mapR (fun x => let sx := if x >=? pw pl then pw pl - 1 else x in
                                p <- rd4 pl (ro + sx * 4) ;; Ok (F p)) (zrange (pad16 (pw pl))))
       (zrange (pad16 (ph pl))).

Module KC := WebpGen.Consts.
(** dsp.RGBToY *)
Definition rgb_to_y (p : px) : Z :=
  let '(r, g, b, _) := p in
  ((KC.dsp_kRGBToY0 * r + KC.dsp_kRGBToY1 * g + KC.dsp_kRGBToY2 * b + 2 ^ 15 + 16 * 2 ^ 16) / 2 ^ 16) mod 256.

Definition clampi (n i : Z) : Z := if i >=? n then n - 1 else i.
Definition gen_import_rows {T} (F : px -> T) (d : T) (w h : Z) (p : list (list px)) : list (list T) :=
  map (fun y => replicate_to d (map F (nth (Z.to_nat (clampi h y)) p [])) (pad16 w)) (zrange (pad16 h)).
Definition gen_import_rows_serial {T} (F : px -> T) (w h : Z) (p : list (list px)) : list (list T) :=
  map (fun y => let row := nth (Z.to_nat (clampi h y)) p [] in
                map (fun x => F (nth (Z.to_nat (clampi w x)) row (0, 0, 0, 0))) (zrange (pad16 w)))
      (zrange (pad16 h)).
