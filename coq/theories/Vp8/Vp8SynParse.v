(** Recovering the abstract syntax (Vp8FrameRT.frame_syn: header with its transmission flags,
    per-macroblock header, quantised levels) from the bytes of a key frame.  Used on every run
    to re-emit the Go encoder's own output through the model emitter
    (Vp8FrameRT.emit_key_frame) and compare the bytes: it ties the emitter + boolean-encoder
    model + layout to what the Go encoder writes for the choices it made. *)
From Coq Require Import List ZArith Lia Bool.
From Webp Require Import Base.Res Vp8.Vp8Bool Vp8.Vp8Tables Vp8.Vp8Syntax Vp8.Vp8Kernels Vp8.Vp8Recon
  Vp8.Vp8Filter Vp8.Vp8Spec Vp8.Vp8TokenRT Vp8.Vp8ModeRT Vp8.Vp8FrameRT.
Import ListNotations.
Open Scope Z_scope.

(** header parsers that also return the "update" flags (same reads as Vp8Syntax) *)
Definition syn_seg_hdr (abs_default : bool) (d : bdec) : seg_hdr * bool * bdec :=
  let '(en, d) := read_flag d in
  if negb en then (mkSeg false false false zeros4 zeros4 [255; 255; 255], false, d) else
  let '(um, d) := read_flag d in
  let '(ud, d) := read_flag d in
  let '(ab, q, lf, d) :=
    if ud then
      let '(a, d) := read_flag d in
      let '(q, d) := read_n 4 (read_opt_signed 7) d in
      let '(l, d) := read_n 4 (read_opt_signed 6) d in
      (a, q, l, d)
    else (abs_default, zeros4, zeros4, d) in
  let '(pr, d) :=
    if um then read_n 3 (fun d => let '(f, d1) := read_flag d in
                                  if f then read_lit 8 d1 else (255, d1)) d
    else ([255; 255; 255], d) in
  (mkSeg true um ab q lf pr, ud, d).

Definition syn_lf_hdr (d : bdec) : lf_hdr * bool * bdec :=
  let '(simple, d) := read_flag d in
  let '(level, d) := read_lit 6 d in
  let '(sharp, d) := read_lit 3 d in
  let '(de, d) := read_flag d in
  if negb de then (mkLf simple level sharp false zeros4 zeros4, false, d) else
  let '(upd, d) := read_flag d in
  if negb upd then (mkLf simple level sharp true zeros4 zeros4, false, d) else
  let '(r, d) := read_n 4 (read_opt_signed 6) d in
  let '(m, d) := read_n 4 (read_opt_signed 6) d in
  (mkLf simple level sharp true r m, true, d).

Definition syn_part1 (abs_default : bool) (w h xs ys : Z) (d : bdec) : frame_hdr * bool * bool * bool * bdec :=
  let '(cs, d) := read_flag d in
  let '(ct, d) := read_flag d in
  let '(sg, ud, d) := syn_seg_hdr abs_default d in
  let '(lf, ul, d) := syn_lf_hdr d in
  let '(lp, d) := read_lit 2 d in
  let '(q, d) := parse_q_hdr d in
  let '(rf, d) := read_flag d in
  let '(pr, d) := upd_probs d in
  let '(sk, d) := read_flag d in
  let '(skp, d) := if sk then read_lit 8 d else (0, d) in
  (mkFrame w h xs ys cs ct sg lf lp q pr sk skp, ud, ul, rf, d).

(** levels of one block in zig-zag order from [first] to the end of block *)
Definition block_levels (tp : list (list (list Z))) (first ctx : Z) (d : bdec) : list Z * bdec :=
  let '(toks, eob, d1) := tokens 17 tp first ctx false d [] in
  (map (tok_lookup toks) (zrange first (eob - first)), d1).

Fixpoint syn_blk_row (tp : list (list (list Z))) (first : Z) (above : list Z) (l : Z) (d : bdec)
  : list (list Z) * bdec :=
  match above with
  | [] => ([], d)
  | a :: tl =>
    let '(ls, d1) := block_levels tp first (l + a) d in
    let '(r, d2) := syn_blk_row tp first tl (bflag ls) d1 in
    (ls :: r, d2)
  end.

Fixpoint syn_blk_rows (tp : list (list (list Z))) (first : Z) (above lefts : list Z) (d : bdec)
  : list (list (list Z)) * bdec :=
  match lefts with
  | [] => ([], d)
  | l :: tl =>
    let '(row, d1) := syn_blk_row tp first above l d in
    let '(rows, d2) := syn_blk_rows tp first (map bflag row) tl d1 in
    (row :: rows, d2)
  end.

Definition syn_residuals (probs : list (list (list (list Z)))) (is4 : bool) (above left : nzctx) (d : bdec)
  : list Z * list (list (list Z)) * list (list (list Z)) * list (list (list Z)) * bdec :=
  let tp t := nthZ probs t [] in
  let '(y2, d) := if is4 then ([], d) else block_levels (tp 1) 0 (nz_y2 above + nz_y2 left) d in
  let '(ys, d) := syn_blk_rows (tp (if is4 then 3 else 0)) (if is4 then 0 else 1) (nz_y above) (nz_y left) d in
  let '(us, d) := syn_blk_rows (tp 2) 0 (nz_u above) (nz_u left) d in
  let '(vs, d) := syn_blk_rows (tp 2) 0 (nz_v above) (nz_v left) d in
  (y2, ys, us, vs, d).

Definition empty_rows4 (n : nat) : list (list (list Z)) := repeat (repeat [] n) n.

(** contexts only (no reconstruction) *)
Record sctx : Type := mkSctx { sc_b : list Z; sc_nz : nzctx }.

Fixpoint syn_row (h : frame_hdr) (cols : list sctx) (left : sctx) (d0 dt : bdec)
  : list sctx * list mb_syn * bdec * bdec :=
  match cols with
  | [] => ([], [], d0, dt)
  | c :: rest =>
    let '(mh, nb_above, nb_left, d0) := parse_mb_hdr h (sc_b c) (sc_b left) d0 in
    let is4 := mh_is4 mh in
    let '(m, na, nl, dt) :=
      if mh_skip mh then
        (mkMbSyn mh [] (empty_rows4 4) (empty_rows4 2) (empty_rows4 2), skip_ctx is4 (sc_nz c), skip_ctx is4 (sc_nz left), dt)
      else
        let '(y2, ys, us, vs, dt1) := syn_residuals (fh_probs h) is4 (sc_nz c) (sc_nz left) dt in
        let nz2 := nz_after is4 (sc_nz c) (sc_nz left) y2 ys us vs in
        (mkMbSyn mh y2 ys us vs, fst nz2, snd nz2, dt1) in
    let '(cols', out, d0, dt) := syn_row h rest (mkSctx nb_left nl) d0 dt in
    (mkSctx nb_above na :: cols', m :: out, d0, dt)
  end.

Fixpoint syn_rows (h : frame_hdr) (nrows : nat) (mby : Z) (cols : list sctx) (d0 : bdec) (parts : list bdec)
  : list (list mb_syn) * bdec * list bdec :=
  match nrows with
  | O => ([], d0, parts)
  | S n =>
    let pi := Z.to_nat (mby mod Z.of_nat (length parts)) in
    let '(cols', out, d0, dt) := syn_row h cols (mkSctx (rep4 B_DC) nz_zero) d0 (nth pi parts (bd_init [])) in
    let '(outs, d0, parts) := syn_rows h n (mby + 1) cols' d0 (set_nth pi dt parts) in
    (out :: outs, d0, parts)
  end.

Definition parse_syntax (qk : quirks) (data : list Z) : Res frame_syn :=
  ly <- parse_layout data ;;
  let '(h, ud, ul, rf, d0) := syn_part1 (qk_seg_abs_default qk) (ly_w ly) (ly_h ly) (ly_xs ly) (ly_ys ly)
                                 (bd_init (ly_part1 ly)) in
  parts <- token_parts (fh_log2parts h) (ly_rest ly) ;;
  let mbw := (fh_w h + 15) / 16 in
  let mbh := (fh_h h + 15) / 16 in
  let '(rows, _, _) := syn_rows h (Z.to_nat mbh) 0 (repeat (mkSctx (rep4 B_DC) nz_zero) (Z.to_nat mbw)) d0
                         (map bd_init parts) in
  Ok (mkFrameSyn h ud ul rf rows).

(** parse, then emit again *)
Definition reemit (qk : quirks) (data : list Z) : Res (list Z) :=
  s <- parse_syntax qk data ;; emit_key_frame qk s.
