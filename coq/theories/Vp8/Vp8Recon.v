(** Reconstruction of one macroblock (RFC 6386 sections 12 and 14): prediction
    from the unfiltered neighbouring samples, residual from the inverse
    transforms, sub-block by sub-block for B_PRED with the above-right rule. *)
From Coq Require Import List ZArith Lia Bool.
From Webp Require Import Vp8.Vp8Bool Vp8.Vp8Tables Vp8.Vp8Syntax Vp8.Vp8Kernels.
Import ListNotations.
Open Scope Z_scope.

Record mbpix : Type := mkPix { px_y : list (list Z); px_u : list (list Z); px_v : list (list Z) }.

Record edges : Type := mkEdges {
  e_have_above : bool; e_have_left : bool;
  e_above_y : list Z; e_ar : list Z; e_left_y : list Z; e_corner_y : Z;
  e_above_u : list Z; e_left_u : list Z; e_corner_u : Z;
  e_above_v : list Z; e_left_v : list Z; e_corner_v : Z }.

(** a 16-list in raster order as 4 rows *)
Definition rows4 (b : list Z) : list (list Z) :=
  [firstn 4 b; firstn 4 (skipn 4 b); firstn 4 (skipn 8 b); firstn 4 (skipn 12 b)].

Definition hcat (a b : list (list Z)) : list (list Z) :=
  map (fun '(x, y) => x ++ y) (combine a b).

Fixpoint hcat_all (n : nat) (bs : list (list (list Z))) : list (list Z) :=
  match bs with
  | [] => repeat [] n
  | b :: tl => hcat b (hcat_all n tl)
  end.

(** blocks (each 4 rows of 4) in raster block order, [nbx] per row -> sample rows *)
Fixpoint blocks_to_rows (fuel : nat) (nbx : nat) (bs : list (list (list Z))) : list (list Z) :=
  match fuel with
  | O => []
  | S f =>
    match bs with
    | [] => []
    | _ => hcat_all 4 (firstn nbx bs) ++ blocks_to_rows f nbx (skipn nbx bs)
    end
  end.

Definition add_rows (pred res : list (list Z)) : list (list Z) :=
  map (fun '(p, r) => add_residual p r) (combine pred res).

(** replace the DC position of a block *)
Definition set_dc (dc : Z) (b : list Z) : list Z :=
  match b with [] => [] | _ :: tl => dc :: tl end.

(** * 16x16 luma *)
Definition recon_y16 (mode : Z) (r : mb_res) (e : edges) : list (list Z) :=
  let pred := pred_block 16 4 mode (e_have_above e) (e_have_left e)
                (e_above_y e) (e_left_y e) (e_corner_y e) in
  let dcs := match r_y2 r with Some c => iwht c | None => repeat 0 16 end in
  let blocks := map (fun '(dc, b) => rows4 (idct (set_dc dc b))) (combine dcs (r_y r)) in
  add_rows pred (blocks_to_rows 4 4 blocks).

(** * B_PRED luma: work buffer of 17 rows x 21 columns; row 0 = corner, 16 above,
    4 above-right; row r+1 = left[r], 16 samples of row r, and again the 4
    above-right samples of the macroblock row above (12.3: sub-blocks 3, 7, 11
    and 15 all use the row above the macroblock). *)
Definition ext_init (e : edges) : list (list Z) :=
  (e_corner_y e :: e_above_y e ++ e_ar e)
  :: map (fun l => l :: repeat 0 16 ++ e_ar e) (e_left_y e).

Definition ext_edge (ext : list (list Z)) (bx by_ : nat) : list Z :=
  let l i := nth (4 * bx) (nth (4 * by_ + 1 + i) ext []) 0 in
  [l 3%nat; l 2%nat; l 1%nat; l 0%nat] ++ firstn 9 (skipn (4 * bx) (nth (4 * by_) ext [])).

Definition ext_set (ext : list (list Z)) (bx by_ : nat) (blk : list (list Z)) : list (list Z) :=
  firstn (4 * by_ + 1) ext
  ++ map (fun '(row, b) => firstn (4 * bx + 1) row ++ b ++ skipn (4 * bx + 5) row)
         (combine (firstn 4 (skipn (4 * by_ + 1) ext)) blk)
  ++ skipn (4 * by_ + 5) ext.

Definition recon_b (ext : list (list Z)) (bx by_ : nat) (mode : Z) (coeffs : list Z) : list (list Z) :=
  let pred := pred4 mode (ext_edge ext bx by_) in
  ext_set ext bx by_ (add_rows pred (rows4 (idct coeffs))).

Fixpoint recon_b_row (ext : list (list Z)) (bx by_ : nat) (modes : list Z) (cs : list (list Z))
  : list (list Z) * list (list Z) :=
  match modes with
  | [] => (ext, cs)
  | m :: ms =>
    match cs with
    | [] => (ext, [])
    | c :: ctl => recon_b_row (recon_b ext bx by_ m c) (S bx) by_ ms ctl
    end
  end.

Fixpoint recon_b_rows (ext : list (list Z)) (by_ : nat) (rows : list (list Z)) (cs : list (list Z))
  : list (list Z) :=
  match rows with
  | [] => ext
  | ms :: tl => let '(ext1, cs1) := recon_b_row ext 0 by_ ms cs in recon_b_rows ext1 (S by_) tl cs1
  end.

Definition recon_y4 (bmodes : list (list Z)) (r : mb_res) (e : edges) : list (list Z) :=
  let ext := recon_b_rows (ext_init e) 0 bmodes (r_y r) in
  map (fun row => firstn 16 (skipn 1 row)) (skipn 1 ext).

(** * chroma *)
Definition recon_c (mode : Z) (blocks : list (list Z)) (have_above have_left : bool)
  (above left : list Z) (corner : Z) : list (list Z) :=
  let pred := pred_block 8 3 mode have_above have_left above left corner in
  add_rows pred (blocks_to_rows 2 2 (map (fun b => rows4 (idct b)) blocks)).

Definition recon_mb (mh : mb_hdr) (r : mb_res) (e : edges) : mbpix :=
  mkPix
    (if mh_is4 mh then recon_y4 (mh_bmodes mh) r e else recon_y16 (mh_ymode mh) r e)
    (recon_c (mh_uvmode mh) (r_u r) (e_have_above e) (e_have_left e) (e_above_u e) (e_left_u e) (e_corner_u e))
    (recon_c (mh_uvmode mh) (r_v r) (e_have_above e) (e_have_left e) (e_above_v e) (e_left_v e) (e_corner_v e)).

(** * Border rules (12.2): 127 above the frame, 129 left of it; the corner is 127 on
    the first macroblock row and 129 on the first column of later rows; the 4
    above-right samples of the right-most macroblock repeat the last sample of
    the row above. *)
Definition last_row (p : list (list Z)) : list Z := last p [].
Definition last_col (p : list (list Z)) : list Z := map (fun r => last r 0) p.

Definition mk_edges (above left aboveleft aboveright : option mbpix) : edges :=
  let ha := match above with Some _ => true | None => false end in
  let hl := match left with Some _ => true | None => false end in
  let ab (sel : mbpix -> list (list Z)) (n : nat) :=
    match above with Some p => last_row (sel p) | None => repeat 127 n end in
  let lf (sel : mbpix -> list (list Z)) (n : nat) :=
    match left with Some p => last_col (sel p) | None => repeat 129 n end in
  let co (sel : mbpix -> list (list Z)) :=
    match above with
    | None => 127
    | Some _ => match aboveleft with Some p => last (last_row (sel p)) 0 | None => 129 end
    end in
  let ar :=
    match above with
    | None => repeat 127 4
    | Some p =>
      match aboveright with
      | Some q => firstn 4 (last_row (px_y q))
      | None => repeat (last (last_row (px_y p)) 0) 4
      end
    end in
  mkEdges ha hl (ab px_y 16%nat) ar (lf px_y 16%nat) (co px_y)
          (ab px_u 8%nat) (lf px_u 8%nat) (co px_u)
          (ab px_v 8%nat) (lf px_v 8%nat) (co px_v).
