(** Row-by-row filtering as the Go decoder does it (parseFrame: reconstruct macroblock row y from
    the UNFILTERED top samples kept aside, then filter row y in the frame cache whose rows above
    are already filtered) gives the same picture as filtering after the whole frame has been
    reconstructed (RFC 6386 section 15), for every frame syntax. *)
From Coq Require Import List ZArith Lia Bool.
From Webp Require Import Vp8.Vp8Bool Vp8.Vp8Syntax Vp8.Vp8Kernels Vp8.Vp8Recon Vp8.Vp8Filter Vp8.Vp8Spec
  Vp8.Vp8FrameRT.
Import ListNotations.
Open Scope Z_scope.

(** one step of the Go order: reconstruct the next row from the contexts, then filter it against the
    (already filtered) row above; [acc] collects the rows that are final *)
Fixpoint go_order (qk : quirks) (h : frame_hdr) (simple : bool) (cols : list colctx)
  (above : list (option mbpix)) (rows : list (list mb_syn)) : list (list (option mbpix)) :=
  match rows with
  | [] => [above]
  | mbs :: rtl =>
    let '(cols', out, _, _) := row_syn qk h cols left0 None mbs in
    let '(a', c') := filter_cols simple above out None in
    a' :: go_order qk h simple cols' (map Some c') rtl
  end.

Theorem row_filter_order_eq qk h simple : forall rows cols above,
  go_order qk h simple cols above rows =
  filter_rows simple above (fst (fst (rows_syn qk h cols rows))).
Proof.
  induction rows as [|mbs rtl IH]; intros cols above; cbn [go_order rows_syn]; [reflexivity|].
  destruct (row_syn qk h cols left0 None mbs) as [[[cols' out] s0] sT].
  specialize (IH cols').
  destruct (rows_syn qk h cols' rtl) as [[outs s0s] sTs]. cbn [fst snd] in IH |- *.
  cbn [filter_rows]. destruct (filter_cols simple above out None) as [a' c']. rewrite IH. reflexivity.
Qed.

(** hence the filtered planes of Vp8Spec.decode are those of the row-by-row order *)
Corollary row_filter_order_frame qk h rows cols :
  match fst (fst (rows_syn qk h cols rows)) with
  | [] => True
  | r :: _ =>
    filter_frame (lf_is_simple (fh_lf h)) (fst (fst (rows_syn qk h cols rows))) =
    map keep_some (tl (go_order qk h (lf_is_simple (fh_lf h)) cols (map (fun _ => None) r) rows))
  end.
Proof.
  destruct (fst (fst (rows_syn qk h cols rows))) as [|r rt] eqn:E; [exact I|].
  unfold filter_frame. rewrite row_filter_order_eq, E. reflexivity.
Qed.
