(** The encoder's token buffer (internal/lossy/encode_token.go): tokens are recorded into pages of
    tokenPageSize entries with per-macroblock start marks, and replayed into the boolean writers
    afterwards (EmitTokens: everything; EmitTokensPartitioned: the macroblock rows of one partition,
    each macroblock's range walked in page-aligned chunks).  Record + replay = direct emission of
    the same tokens in recording order, for every writer. *)
From Coq Require Import List ZArith Lia Bool.
Import ListNotations.
Open Scope Z_scope.

Section TokenBuf.
  Variable tok : Type.
  Variable W : Type.                      (* the writer: BoolWriter state *)
  Variable put : W -> tok -> W.            (* PutBit of one recorded (bit, prob) *)
  Variable P : nat.                        (* tokenPageSize *)
  Hypothesis HP : (0 < P)%nat.

  (** PutBitBatchPacked over a run of tokens *)
  Definition puts (l : list tok) (w : W) : W := fold_left put l w.

  Lemma puts_app l1 l2 w : puts (l1 ++ l2) w = puts l2 (puts l1 w).
  Proof. apply fold_left_app. Qed.

  (** pages: the full ones in order, then the current one *)
  Record tokbuf : Type := mkTb { tb_full : list (list tok); tb_cur : list tok; tb_marks : list Z }.

  Definition tb_pages (tb : tokbuf) : list (list tok) := tb_full tb ++ [tb_cur tb].
  Definition tb_flat (tb : tokbuf) : list tok := concat (tb_full tb) ++ tb_cur tb.
  (** tokenCount: (len(pages)-1)*tokenPageSize + curPage.count *)
  Definition tb_count (tb : tokbuf) : nat := (length (tb_full tb) * P + length (tb_cur tb))%nat.

  Definition tb_reset (totalMB : nat) : tokbuf := mkTb [] [] (repeat (-1) (S totalMB)).

  (** RecordToken: "if curPage.count >= tokenPageSize { addPage() }; curPage.tokens[count] = t; count++" *)
  Definition tb_record (t : tok) (tb : tokbuf) : tokbuf :=
    if (P <=? length (tb_cur tb))%nat then mkTb (tb_full tb ++ [tb_cur tb]) [t] (tb_marks tb)
    else mkTb (tb_full tb) (tb_cur tb ++ [t]) (tb_marks tb).

  Definition tb_inv (tb : tokbuf) : Prop :=
    Forall (fun pg => length pg = P) (tb_full tb) /\ (length (tb_cur tb) <= P)%nat.

  Lemma tb_reset_inv n : tb_inv (tb_reset n).
  Proof. split; [constructor|cbn; lia]. Qed.

  Lemma tb_record_inv t tb : tb_inv tb -> tb_inv (tb_record t tb).
  Proof.
    intros [H1 H2]. unfold tb_record. destruct (Nat.leb_spec P (length (tb_cur tb))) as [Hle|Hlt].
    - split; cbn [tb_full tb_cur length]; [|lia]. apply Forall_app. split; [exact H1|]. constructor; [lia|constructor].
    - split; cbn [tb_full tb_cur]; [exact H1|]. rewrite app_length. cbn. lia.
  Qed.

  Lemma tb_record_flat t tb : tb_flat (tb_record t tb) = tb_flat tb ++ [t].
  Proof.
    unfold tb_record, tb_flat. destruct (P <=? length (tb_cur tb))%nat; cbn [tb_full tb_cur].
    - rewrite concat_app. cbn [concat]. rewrite app_nil_r. reflexivity.
    - rewrite app_assoc. reflexivity.
  Qed.

  Lemma concat_full_length full : Forall (fun pg : list tok => length pg = P) full ->
    length (concat full) = (length full * P)%nat.
  Proof.
    induction full as [|f tl IH]; intros H; [reflexivity|]. cbn [concat length].
    rewrite app_length, (Forall_inv H), IH by exact (Forall_inv_tail H). lia.
  Qed.

  Lemma tb_count_flat tb : tb_inv tb -> tb_count tb = length (tb_flat tb).
  Proof. intros [H1 _]. unfold tb_count, tb_flat. rewrite app_length, concat_full_length by exact H1. reflexivity. Qed.

  (** * EmitTokens *)
  Definition emit_all (tb : tokbuf) (w : W) : W := fold_left (fun w pg => puts pg w) (tb_pages tb) w.

  Lemma emit_pages_concat : forall pages w, fold_left (fun w pg => puts pg w) pages w = puts (concat pages) w.
  Proof.
    induction pages as [|pg tl IH]; intros w; [reflexivity|]. cbn [fold_left concat]. rewrite IH, puts_app. reflexivity.
  Qed.

  Theorem emit_all_eq tb w : emit_all tb w = puts (tb_flat tb) w.
  Proof.
    unfold emit_all, tb_pages, tb_flat. rewrite emit_pages_concat, concat_app. cbn [concat]. rewrite app_nil_r. reflexivity.
  Qed.

  (** * a token range walked in page-aligned chunks *)
  Lemma slice_page : forall full cur pi ti cnt,
    Forall (fun pg : list tok => length pg = P) full -> (length cur <= P)%nat ->
    (ti + cnt <= P)%nat -> (pi * P + ti + cnt <= length full * P + length cur)%nat ->
    firstn cnt (skipn ti (nth pi (full ++ [cur]) [])) = firstn cnt (skipn (pi * P + ti) (concat full ++ cur)).
  Proof.
    induction full as [|f tl IH]; intros cur pi ti cnt Hf Hc Ht Hb.
    - cbn [app concat length Nat.mul Nat.add] in *. destruct pi as [|pi].
      + reflexivity.
      + assert (cnt = 0%nat) by nia. subst cnt. reflexivity.
    - pose proof (Forall_inv Hf) as Hlen. cbv beta in Hlen. cbn [app concat]. destruct pi as [|pi].
      + cbn [nth Nat.mul Nat.add]. rewrite <- app_assoc, skipn_app, firstn_app.
        replace (cnt - length (skipn ti f))%nat with 0%nat by (rewrite skipn_length; lia).
        cbn [firstn]. rewrite app_nil_r. reflexivity.
      + cbn [nth]. rewrite <- app_assoc, skipn_app.
        rewrite (skipn_all2 f) by (rewrite Hlen; cbn; lia). cbn [app].
        replace (S pi * P + ti - length f)%nat with (pi * P + ti)%nat by (rewrite Hlen; cbn; lia).
        apply IH; [exact (Forall_inv_tail Hf)|exact Hc|exact Ht|]. cbn [length] in Hb. lia.
  Qed.

  (** the loop of EmitTokensPartitioned over one macroblock's range [tok, endt) *)
  Fixpoint emit_range (fuel : nat) (tb : tokbuf) (tk endt : nat) (w : W) : W :=
    match fuel with
    | O => w
    | S f =>
      if (endt <=? tk)%nat then w else
      let pi := (tk / P)%nat in
      let ti := (tk mod P)%nat in
      let pageEnd := Nat.min P (endt - pi * P) in
      let count := (pageEnd - ti)%nat in
      if (count <=? 0)%nat then emit_range f tb (tk + 1) endt w
      else emit_range f tb (tk + count) endt (puts (firstn count (skipn ti (nth pi (tb_pages tb) []))) w)
    end.

  Lemma firstn_add {A} : forall a b (l : list A), firstn (a + b) l = firstn a l ++ firstn b (skipn a l).
  Proof.
    induction a as [|a IH]; intros b l; [reflexivity|]. destruct l as [|x l]; [cbn; rewrite firstn_nil; reflexivity|].
    cbn [Nat.add firstn skipn app]. f_equal. apply IH.
  Qed.

  Lemma skipn_add {A} : forall a b (l : list A), skipn (a + b) l = skipn b (skipn a l).
  Proof.
    induction a as [|a IH]; intros b l; [reflexivity|]. destruct l as [|x l]; [cbn; rewrite skipn_nil; reflexivity|].
    cbn [Nat.add skipn]. apply IH.
  Qed.

  Theorem emit_range_eq tb : tb_inv tb -> forall fuel tk endt w,
    (tk <= endt)%nat -> (endt <= tb_count tb)%nat -> (endt - tk <= fuel)%nat ->
    emit_range fuel tb tk endt w = puts (firstn (endt - tk) (skipn tk (tb_flat tb))) w.
  Proof.
    intros [Hf Hc]. induction fuel as [|fuel IH]; intros tk endt w H1 H2 H3.
    - replace (endt - tk)%nat with 0%nat by lia. reflexivity.
    - cbn [emit_range]. destruct (Nat.leb_spec endt tk) as [Hle|Hlt].
      { replace (endt - tk)%nat with 0%nat by lia. reflexivity. }
      pose proof (Nat.div_mod tk P ltac:(lia)) as Hdm. pose proof (Nat.mod_upper_bound tk P ltac:(lia)) as Hmb.
      set (pi := (tk / P)%nat) in *. set (ti := (tk mod P)%nat) in *.
      set (cnt := (Nat.min P (endt - pi * P) - ti)%nat).
      assert (Hpi : (P * pi = pi * P)%nat) by lia.
      assert (Hcnt : (0 < cnt)%nat) by (unfold cnt; lia).
      destruct (Nat.leb_spec cnt 0) as [Hz|_]; [lia|].
      unfold tb_pages. rewrite slice_page; try assumption; [|unfold cnt; lia|unfold cnt, tb_count in *; lia].
      replace (pi * P + ti)%nat with tk by lia. fold (tb_flat tb).
      rewrite IH by (unfold cnt in *; lia).
      rewrite <- puts_app. f_equal.
      replace (endt - tk)%nat with (cnt + (endt - (tk + cnt)))%nat by (unfold cnt; lia).
      rewrite firstn_add, skipn_add. reflexivity.
  Qed.

  (** * per-macroblock marks *)
  Fixpoint set_nth (n : nat) (a : Z) (l : list Z) : list Z :=
    match l, n with
    | [], _ => []
    | _ :: t, O => a :: t
    | h :: t, S m => h :: set_nth m a t
    end.

  (** MarkMBStart *)
  Definition tb_mark (mb : nat) (tb : tokbuf) : tokbuf :=
    mkTb (tb_full tb) (tb_cur tb) (set_nth mb (Z.of_nat (tb_count tb)) (tb_marks tb)).

  (** the recording pass: a skipped macroblock records nothing and sets no mark *)
  Definition record_list (l : list tok) (tb : tokbuf) : tokbuf := fold_left (fun tb t => tb_record t tb) l tb.
  Definition record_mb (mb : nat) (o : option (list tok)) (tb : tokbuf) : tokbuf :=
    match o with None => tb | Some l => record_list l (tb_mark mb tb) end.
  Fixpoint record_mbs (mb : nat) (os : list (option (list tok))) (tb : tokbuf) : tokbuf :=
    match os with
    | [] => tb
    | o :: tl => record_mbs (S mb) tl (record_mb mb o tb)
    end.
  Definition session (os : list (option (list tok))) : tokbuf := record_mbs 0 os (tb_reset (length os)).

  Definition mb_toks (o : option (list tok)) : list tok := match o with Some l => l | None => [] end.

  Lemma record_list_facts : forall l tb, tb_inv tb ->
    tb_inv (record_list l tb) /\ tb_flat (record_list l tb) = tb_flat tb ++ l /\
    tb_marks (record_list l tb) = tb_marks tb.
  Proof.
    induction l as [|t l IH]; intros tb Hi; cbn [record_list fold_left].
    - split; [exact Hi|]. split; [rewrite app_nil_r; reflexivity|reflexivity].
    - destruct (IH (tb_record t tb) (tb_record_inv t tb Hi)) as (I1 & I2 & I3). fold (record_list l (tb_record t tb)).
      split; [exact I1|]. split.
      + rewrite I2, tb_record_flat, <- app_assoc. reflexivity.
      + rewrite I3. unfold tb_record. destruct (P <=? length (tb_cur tb))%nat; reflexivity.
  Qed.

  (** "mbStart[totalMB] = tokenCount(); for i := totalMB-1; i >= 0; i-- { if mbStart[i] < 0 { mbStart[i] = mbStart[i+1] } }" *)
  Fixpoint fill_marks (ms : list Z) (endv : Z) : list Z :=
    match ms with
    | [] => [endv]
    | m :: tl => let tl' := fill_marks tl endv in (if m <? 0 then hd endv tl' else m) :: tl'
    end.

  (** what the recording pass leaves in mbStart, and the token offsets of the macroblocks *)
  Fixpoint raw_marks (base : nat) (os : list (option (list tok))) : list Z :=
    match os with
    | [] => []
    | o :: tl => (match o with Some _ => Z.of_nat base | None => -1 end) :: raw_marks (base + length (mb_toks o)) tl
    end.
  Fixpoint offs (base : nat) (os : list (option (list tok))) : list Z :=
    match os with
    | [] => [Z.of_nat base]
    | o :: tl => Z.of_nat base :: offs (base + length (mb_toks o)) tl
    end.
  Definition total_len (os : list (option (list tok))) : nat := length (concat (map mb_toks os)).

  Lemma raw_marks_length : forall os b, length (raw_marks b os) = length os.
  Proof. induction os as [|o tl IH]; intros b; [reflexivity|]. cbn [raw_marks length]. f_equal. apply IH. Qed.

  Lemma offs_hd base os d : hd d (offs base os) = Z.of_nat base.
  Proof. destruct os; reflexivity. Qed.

  Lemma fill_raw : forall os base, fill_marks (raw_marks base os) (Z.of_nat (base + total_len os)) = offs base os.
  Proof.
    induction os as [|o tl IH]; intros base.
    - cbn. rewrite Nat.add_0_r. reflexivity.
    - cbn [raw_marks fill_marks offs].
      assert (E : (base + total_len (o :: tl) = base + length (mb_toks o) + total_len tl)%nat).
      { unfold total_len. cbn [map concat]. rewrite app_length. lia. }
      rewrite E, IH. f_equal. destruct o as [l|].
      + replace (Z.of_nat base <? 0) with false by (symmetry; apply Z.ltb_ge; lia). reflexivity.
      + cbn [mb_toks length]. rewrite Nat.add_0_r. change (-1 <? 0) with true. cbn beta iota. apply offs_hd.
  Qed.

  Lemma set_nth_app pre a x post : set_nth (length pre) a (pre ++ x :: post) = pre ++ a :: post.
  Proof. induction pre as [|p pre IH]; [reflexivity|]. cbn [length app set_nth]. f_equal. exact IH. Qed.

  Lemma record_mbs_facts : forall os mb tb pre k,
    tb_inv tb -> length pre = mb -> tb_marks tb = pre ++ repeat (-1) (length os + k) ->
    let tb' := record_mbs mb os tb in
    tb_inv tb' /\ tb_flat tb' = tb_flat tb ++ concat (map mb_toks os) /\
    tb_marks tb' = pre ++ raw_marks (tb_count tb) os ++ repeat (-1) k.
  Proof.
    induction os as [|o tl IH]; intros mb tb pre k Hi Hp Hm; cbv zeta.
    - cbn [record_mbs map concat raw_marks app length Nat.add] in *. split; [exact Hi|]. split; [rewrite app_nil_r; reflexivity|exact Hm].
    - cbn [record_mbs].
      assert (Hstep : tb_inv (record_mb mb o tb) /\ tb_flat (record_mb mb o tb) = tb_flat tb ++ mb_toks o /\
                      tb_marks (record_mb mb o tb) =
                        (pre ++ [match o with Some _ => Z.of_nat (tb_count tb) | None => -1 end]) ++ repeat (-1) (length tl + k)).
      { destruct o as [l|]; cbn [record_mb mb_toks].
        - assert (Him : tb_inv (tb_mark mb tb)) by exact Hi.
          destruct (record_list_facts l (tb_mark mb tb) Him) as (R1 & R2 & R3).
          split; [exact R1|]. split; [exact R2|]. rewrite R3. cbn [tb_mark tb_marks]. rewrite Hm.
          cbn [length Nat.add repeat]. rewrite <- Hp, set_nth_app, <- app_assoc. reflexivity.
        - split; [exact Hi|]. split; [rewrite app_nil_r; reflexivity|]. rewrite Hm.
          cbn [length Nat.add repeat]. rewrite <- app_assoc. reflexivity. }
      destruct Hstep as (S1 & S2 & S3).
      destruct (IH (S mb) (record_mb mb o tb) (pre ++ [match o with Some _ => Z.of_nat (tb_count tb) | None => -1 end]) k S1
                  ltac:(rewrite app_length; cbn; lia) S3) as (I1 & I2 & I3).
      split; [exact I1|]. split.
      + rewrite I2, S2, <- app_assoc. cbn [map concat]. reflexivity.
      + rewrite I3, <- app_assoc. cbn [app raw_marks]. do 2 f_equal.
        rewrite (tb_count_flat _ S1), S2, app_length, <- (tb_count_flat _ Hi). reflexivity.
  Qed.

  (** * EmitTokensPartitioned (numParts > 1): the macroblocks selected by [sel] (row & (numParts-1) = partIdx) *)
  Fixpoint emit_mbs (tb : tokbuf) (marks : list Z) (sel : nat -> bool) (mbIdx n : nat) (w : W) : W :=
    match n with
    | O => w
    | S n' =>
      let startTok := Z.to_nat (nth mbIdx marks 0) in
      let endTok := Z.to_nat (nth (S mbIdx) marks 0) in
      emit_mbs tb marks sel (S mbIdx) n' (if sel mbIdx then emit_range endTok tb startTok endTok w else w)
    end.

  Definition emit_part (totalMB : nat) (sel : nat -> bool) (tb : tokbuf) (w : W) : W :=
    emit_mbs tb (fill_marks (firstn totalMB (tb_marks tb)) (Z.of_nat (tb_count tb))) sel 0 totalMB w.

  (** direct emission: the tokens of the selected macroblocks in macroblock order *)
  Fixpoint sel_toks (sel : nat -> bool) (mbIdx : nat) (os : list (option (list tok))) : list tok :=
    match os with
    | [] => []
    | o :: tl => (if sel mbIdx then mb_toks o else []) ++ sel_toks sel (S mbIdx) tl
    end.

  Lemma nth_skipn_hd {A} (d : A) : forall k (l : list A), nth k l d = hd d (skipn k l).
  Proof. induction k as [|k IH]; intros l; destruct l; try reflexivity. cbn [nth skipn]. apply IH. Qed.

  Lemma skipn_S_tl {A} : forall k (l : list A), skipn (S k) l = tl (skipn k l).
  Proof. induction k as [|k IH]; intros l; destruct l as [|x l]; try reflexivity. cbn [skipn] in *. rewrite <- IH. reflexivity. Qed.

  Lemma emit_mbs_eq tb sel : tb_inv tb -> forall os M k base rest w,
    skipn k M = offs base os -> (base <= length (tb_flat tb))%nat ->
    skipn base (tb_flat tb) = concat (map mb_toks os) ++ rest ->
    emit_mbs tb M sel k (length os) w = puts (sel_toks sel k os) w.
  Proof.
    intros Hi. induction os as [|o tl IH]; intros M k base rest w HM Hb HF; [reflexivity|].
    cbn [length emit_mbs sel_toks offs] in *.
    assert (E1 : nth k M 0 = Z.of_nat base) by (rewrite nth_skipn_hd, HM; reflexivity).
    assert (E2 : skipn (S k) M = offs (base + length (mb_toks o)) tl) by (rewrite skipn_S_tl, HM; reflexivity).
    assert (E3 : nth (S k) M 0 = Z.of_nat (base + length (mb_toks o))) by (rewrite nth_skipn_hd, E2; apply offs_hd).
    cbn [map concat] in HF. rewrite <- app_assoc in HF.
    assert (HF2 : skipn (base + length (mb_toks o)) (tb_flat tb) = concat (map mb_toks tl) ++ rest).
    { rewrite skipn_add, HF, skipn_app, skipn_all, Nat.sub_diag. reflexivity. }
    assert (Hle : (base + length (mb_toks o) <= length (tb_flat tb))%nat).
    { assert (L : length (skipn base (tb_flat tb)) = (length (tb_flat tb) - base)%nat) by apply skipn_length.
      rewrite HF, app_length in L. lia. }
    rewrite puts_app, <- (IH M (S k) (base + length (mb_toks o))%nat rest _ E2 Hle HF2).
    f_equal. destruct (sel k); [|reflexivity].
    rewrite E1, E3, !Nat2Z.id. rewrite <- (tb_count_flat _ Hi) in Hle.
    rewrite emit_range_eq by (try assumption; lia).
    replace (base + length (mb_toks o) - base)%nat with (length (mb_toks o)) by lia.
    rewrite HF, firstn_app, firstn_all, Nat.sub_diag. cbn [firstn]. rewrite app_nil_r. reflexivity.
  Qed.

  (** record, then replay one partition = the tokens of its macroblocks put directly, in order *)
  Theorem emit_part_session os sel w :
    emit_part (length os) sel (session os) w = puts (sel_toks sel 0 os) w.
  Proof.
    unfold emit_part, session.
    destruct (record_mbs_facts os 0 (tb_reset (length os)) [] 1 (tb_reset_inv _) eq_refl) as (I1 & I2 & I3).
    { cbn [tb_reset tb_marks app]. f_equal. lia. }
    cbn [app] in I3. cbn [tb_reset tb_flat tb_full tb_cur concat app] in I2.
    set (tb := record_mbs 0 os (tb_reset (length os))) in *.
    assert (Hc0 : tb_count (tb_reset (length os)) = 0%nat) by reflexivity. rewrite Hc0 in I3.
    pose proof (raw_marks_length os 0) as Hraw.
    rewrite I3, firstn_app, Hraw, Nat.sub_diag, firstn_all2 by lia. cbn [firstn]. rewrite app_nil_r.
    assert (Hcnt : tb_count tb = (0 + total_len os)%nat).
    { rewrite (tb_count_flat _ I1), I2. reflexivity. }
    rewrite Hcnt, fill_raw.
    apply (emit_mbs_eq tb sel I1 os (offs 0 os) 0%nat 0%nat []); [reflexivity|lia|].
    cbn [skipn]. rewrite I2, app_nil_r. reflexivity.
  Qed.

  (** record, then EmitTokens (one partition) = all recorded tokens put directly, in order *)
  Theorem emit_all_session os w : emit_all (session os) w = puts (concat (map mb_toks os)) w.
  Proof.
    rewrite emit_all_eq. unfold session.
    destruct (record_mbs_facts os 0 (tb_reset (length os)) [] 1 (tb_reset_inv _) eq_refl) as (_ & I2 & _).
    { cbn [tb_reset tb_marks app]. f_equal. lia. }
    rewrite I2. reflexivity.
  Qed.
End TokenBuf.

(** * the partitions of the frame model: EmitTokensPartitioned selects macroblock mbIdx for partition
    partIdx when (mbIdx / mbW) & (numParts-1) == partIdx; with numParts a power of two and the
    macroblocks grouped in rows of mbW this is Vp8FrameRT.part_syms (rows r with r mod numParts = i) *)
From Webp Require Import Vp8.Vp8FrameRT.

Definition part_sel (mbW numParts partIdx : Z) (mbIdx : nat) : bool :=
  Z.land (Z.of_nat mbIdx / mbW) (numParts - 1) =? partIdx.

Lemma sel_toks_app {tok} sel : forall (a : list (option (list tok))) k b,
  sel_toks tok sel k (a ++ b) = sel_toks tok sel k a ++ sel_toks tok sel (k + length a) b.
Proof.
  induction a as [|o a IH]; intros k b; cbn [app sel_toks length].
  - rewrite Nat.add_0_r. reflexivity.
  - rewrite IH, <- app_assoc. do 3 f_equal. lia.
Qed.

Lemma sel_toks_const {tok} sel (c : bool) : forall (row : list (option (list tok))) k,
  (forall j, (j < length row)%nat -> sel (k + j)%nat = c) ->
  sel_toks tok sel k row = if c then concat (map (mb_toks tok) row) else [].
Proof.
  induction row as [|o row IH]; intros k H; cbn [sel_toks map concat].
  - destruct c; reflexivity.
  - rewrite (IH (S k)) by (intros j Hj; replace (S k + j)%nat with (k + S j)%nat by lia; apply H; cbn [length]; lia).
    replace (sel k) with c by (symmetry; replace k with (k + 0)%nat by lia; apply H; cbn [length]; lia).
    destruct c; reflexivity.
Qed.

Theorem sel_toks_rows (w : nat) (lg i : Z) : (0 < w)%nat -> 0 <= lg ->
  forall (rows : list (list (option (list (bool * Z))))) (r0 : nat),
  Forall (fun r => length r = w) rows ->
  sel_toks (bool * Z) (part_sel (Z.of_nat w) (2 ^ lg) i) (r0 * w) (concat rows) =
  part_syms (2 ^ lg) i (Z.of_nat r0) (map (fun r => concat (map (mb_toks (bool * Z)) r)) rows).
Proof.
  intros Hw Hlg. induction rows as [|row tl IH]; intros r0 H; [reflexivity|].
  pose proof (Forall_inv H) as Hr. cbv beta in Hr.
  cbn [concat map part_syms]. rewrite sel_toks_app, Hr.
  replace (r0 * w + w)%nat with (S r0 * w)%nat by lia.
  rewrite (IH (S r0) (Forall_inv_tail H)). rewrite Nat2Z.inj_succ. unfold Z.succ. f_equal.
  apply sel_toks_const. intros j Hj. unfold part_sel.
  rewrite Nat2Z.inj_add, Nat2Z.inj_mul, Z.div_add_l by lia.
  rewrite (Z.div_small (Z.of_nat j)) by lia. rewrite Z.add_0_r.
  replace (2 ^ lg - 1) with (Z.ones lg) by (rewrite Z.ones_equiv; lia).
  rewrite Z.land_ones by exact Hlg. reflexivity.
Qed.

(** record + replay of partition i = the frame model's symbols of partition i put directly *)
Theorem token_buffer_partition_eq W (put : W -> bool * Z -> W) (P : nat) : (0 < P)%nat ->
  forall (w : nat) (lg i : Z) (rows : list (list (option (list (bool * Z))))) (bw : W),
  (0 < w)%nat -> 0 <= lg -> Forall (fun r => length r = w) rows ->
  emit_part (bool * Z) W put P (length (concat rows)) (part_sel (Z.of_nat w) (2 ^ lg) i)
            (session (bool * Z) P (concat rows)) bw =
  puts (bool * Z) W put (part_syms (2 ^ lg) i 0 (map (fun r => concat (map (mb_toks (bool * Z)) r)) rows)) bw.
Proof.
  intros HP w lg i rows bw Hw Hlg Hrows.
  rewrite (emit_part_session (bool * Z) W put P HP).
  pose proof (sel_toks_rows w lg i Hw Hlg rows 0%nat Hrows) as E.
  change (Z.of_nat 0) with 0 in E. change (0 * w)%nat with 0%nat in E. rewrite <- E. reflexivity.
Qed.
