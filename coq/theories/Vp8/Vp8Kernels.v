(** VP8 reconstruction kernels, written from RFC 6386: inverse DCT and inverse
    Walsh-Hadamard transform (14.3, 14.4), intra predictors (12.2, 12.3),
    loop-filter edge arithmetic (15.2-15.4).  The second half models the
    short-cuts of the Go decoder (TransformDC, TransformAC3, DC-only WHT, the
    2-bit per-block code, table-based clamps, the unsigned filter arithmetic)
    so that Vp8KernelProofs.v can prove them equal to the definitions. *)
From Coq Require Import List ZArith Lia Bool.
From Webp Require Import Vp8.Vp8Bool Vp8.Vp8Tables Vp8.Vp8Syntax.
Import ListNotations.
Open Scope Z_scope.

Definition clamp255 (x : Z) : Z := clampz 0 255 x.
Definition asr (x n : Z) : Z := x / 2 ^ n.   (* arithmetic shift right = floor division *)

(** * 14.3 inverse DCT *)
Definition sinpi8sqrt2 := 35468.
Definition cospi8sqrt2minus1 := 20091.

(** one 1-D pass on (i0, i1, i2, i3) *)
Definition idct1 (i0 i1 i2 i3 : Z) : Z * Z * Z * Z :=
  let a1 := i0 + i2 in
  let b1 := i0 - i2 in
  let c1 := asr (i1 * sinpi8sqrt2) 16 - (i3 + asr (i3 * cospi8sqrt2minus1) 16) in
  let d1 := (i1 + asr (i1 * cospi8sqrt2minus1) 16) + asr (i3 * sinpi8sqrt2) 16 in
  (a1 + d1, b1 + c1, b1 - c1, a1 - d1).

Definition g (l : list Z) (i : nat) : Z := nth i l 0.

(** coefficients in raster order (index 4*row + col) -> 16 residuals in raster order *)
Definition idct (c : list Z) : list Z :=
  (* vertical pass: column i uses c[i], c[4+i], c[8+i], c[12+i] *)
  let col i := idct1 (g c i) (g c (4 + i)) (g c (8 + i)) (g c (12 + i)) in
  let '(a0, a1, a2, a3) := col 0%nat in
  let '(b0, b1, b2, b3) := col 1%nat in
  let '(c0, c1, c2, c3) := col 2%nat in
  let '(d0, d1, d2, d3) := col 3%nat in
  (* horizontal pass on each row of the intermediate, with (x + 4) >> 3 *)
  let row x0 x1 x2 x3 :=
    let '(y0, y1, y2, y3) := idct1 x0 x1 x2 x3 in
    [asr (y0 + 4) 3; asr (y1 + 4) 3; asr (y2 + 4) 3; asr (y3 + 4) 3] in
  row a0 b0 c0 d0 ++ row a1 b1 c1 d1 ++ row a2 b2 c2 d2 ++ row a3 b3 c3 d3.

(** * 14.3 inverse WHT; the 16 outputs are the DC coefficients of the 16 luma
    blocks in raster order and are stored on 16 bits. *)
Definition iwht1 (i0 i1 i2 i3 : Z) : Z * Z * Z * Z :=
  let a1 := i0 + i3 in
  let b1 := i1 + i2 in
  let c1 := i1 - i2 in
  let d1 := i0 - i3 in
  (a1 + b1, c1 + d1, a1 - b1, d1 - c1).

Definition iwht (c : list Z) : list Z :=
  let col i := iwht1 (g c i) (g c (4 + i)) (g c (8 + i)) (g c (12 + i)) in
  let '(a0, a1, a2, a3) := col 0%nat in
  let '(b0, b1, b2, b3) := col 1%nat in
  let '(c0, c1, c2, c3) := col 2%nat in
  let '(d0, d1, d2, d3) := col 3%nat in
  let row x0 x1 x2 x3 :=
    let '(y0, y1, y2, y3) := iwht1 x0 x1 x2 x3 in
    [wrap16 (asr (y0 + 3) 3); wrap16 (asr (y1 + 3) 3); wrap16 (asr (y2 + 3) 3); wrap16 (asr (y3 + 3) 3)] in
  row a0 b0 c0 d0 ++ row a1 b1 c1 d1 ++ row a2 b2 c2 d2 ++ row a3 b3 c3 d3.

(** prediction + residual, clamped to 8 bits; both in raster order *)
Definition add_residual (pred res : list Z) : list Z :=
  map (fun '(p, r) => clamp255 (p + r)) (combine pred res).

(** * 12.2 whole-block predictors for 16x16 luma (n = 16, sh = 4) and 8x8 chroma (n = 8, sh = 3).
    [above], [left] and [corner] already contain the 127 / 129 substitutes at
    frame borders; the availability flags matter to DC_PRED only. *)
Definition sumz (l : list Z) : Z := fold_left Z.add l 0.

Definition pred_dc_val (n sh : Z) (have_above have_left : bool) (above left : list Z) : Z :=
  match have_above, have_left with
  | true, true => asr (sumz above + sumz left + n) (sh + 1)
  | true, false => asr (sumz above + n / 2) sh
  | false, true => asr (sumz left + n / 2) sh
  | false, false => 128
  end.

Definition pred_block (n sh : Z) (mode : Z) (have_above have_left : bool)
  (above left : list Z) (corner : Z) : list (list Z) :=
  if mode =? DC_PRED then
    let v := pred_dc_val n sh have_above have_left above left in
    repeat (repeat v (Z.to_nat n)) (Z.to_nat n)
  else if mode =? V_PRED then repeat above (Z.to_nat n)
  else if mode =? H_PRED then map (fun l => repeat l (Z.to_nat n)) left
  else map (fun l => map (fun a => clamp255 (l + a - corner)) above) left.

(** * 12.3 sub-block predictors.  E = [L3; L2; L1; L0; P; A0; ...; A7]. *)
Definition avg2 (x y : Z) : Z := asr (x + y + 1) 1.
Definition avg3 (x y z : Z) : Z := asr (x + y + y + z + 2) 2.

Definition pred4 (mode : Z) (E : list Z) : list (list Z) :=
  let e i := nth i E 0 in
  let A i := nth (5 + i) E 0 in
  let L i := nth (3 - i) E 0 in
  let P := e 4%nat in
  let a3 i := avg3 (e (i - 1)%nat) (e i) (e (i + 1)%nat) in
  let a2 i := avg2 (e i) (e (i + 1)%nat) in
  if mode =? B_DC then
    let v := asr (A 0%nat + A 1%nat + A 2%nat + A 3%nat + L 0%nat + L 1%nat + L 2%nat + L 3%nat + 4) 3 in
    repeat (repeat v 4) 4
  else if mode =? B_TM then
    map (fun r => map (fun c => clamp255 (L r + A c - P)) [0; 1; 2; 3]%nat) [0; 1; 2; 3]%nat
  else if mode =? B_VE then
    repeat [avg3 P (A 0%nat) (A 1%nat); avg3 (A 0%nat) (A 1%nat) (A 2%nat);
            avg3 (A 1%nat) (A 2%nat) (A 3%nat); avg3 (A 2%nat) (A 3%nat) (A 4%nat)] 4
  else if mode =? B_HE then
    [repeat (avg3 P (L 0%nat) (L 1%nat)) 4; repeat (avg3 (L 0%nat) (L 1%nat) (L 2%nat)) 4;
     repeat (avg3 (L 1%nat) (L 2%nat) (L 3%nat)) 4; repeat (avg3 (L 2%nat) (L 3%nat) (L 3%nat)) 4]
  else if mode =? B_LD then
    let d i := avg3 (A i) (A (i + 1)%nat) (A (i + 2)%nat) in
    let last := avg3 (A 6%nat) (A 7%nat) (A 7%nat) in
    [[d 0%nat; d 1%nat; d 2%nat; d 3%nat]; [d 1%nat; d 2%nat; d 3%nat; d 4%nat];
     [d 2%nat; d 3%nat; d 4%nat; d 5%nat]; [d 3%nat; d 4%nat; d 5%nat; last]]
  else if mode =? B_RD then
    [[a3 4%nat; a3 5%nat; a3 6%nat; a3 7%nat]; [a3 3%nat; a3 4%nat; a3 5%nat; a3 6%nat];
     [a3 2%nat; a3 3%nat; a3 4%nat; a3 5%nat]; [a3 1%nat; a3 2%nat; a3 3%nat; a3 4%nat]]
  else if mode =? B_VR then
    [[a2 4%nat; a2 5%nat; a2 6%nat; a2 7%nat];
     [a3 4%nat; a3 5%nat; a3 6%nat; a3 7%nat];
     [a3 3%nat; a2 4%nat; a2 5%nat; a2 6%nat];
     [a3 2%nat; a3 4%nat; a3 5%nat; a3 6%nat]]
  else if mode =? B_VL then
    let v2 i := avg2 (A i) (A (i + 1)%nat) in
    let v3 i := avg3 (A i) (A (i + 1)%nat) (A (i + 2)%nat) in
    [[v2 0%nat; v2 1%nat; v2 2%nat; v2 3%nat];
     [v3 0%nat; v3 1%nat; v3 2%nat; v3 3%nat];
     [v2 1%nat; v2 2%nat; v2 3%nat; v3 4%nat];
     [v3 1%nat; v3 2%nat; v3 3%nat; v3 5%nat]]
  else if mode =? B_HD then
    [[a2 3%nat; a3 4%nat; a3 5%nat; a3 6%nat];
     [a2 2%nat; a3 3%nat; a2 3%nat; a3 4%nat];
     [a2 1%nat; a3 2%nat; a2 2%nat; a3 3%nat];
     [a2 0%nat; a3 1%nat; a2 1%nat; a3 2%nat]]
  else (* B_HU *)
    let l3 := L 3%nat in
    [[avg2 (L 0%nat) (L 1%nat); avg3 (L 0%nat) (L 1%nat) (L 2%nat); avg2 (L 1%nat) (L 2%nat); avg3 (L 1%nat) (L 2%nat) l3];
     [avg2 (L 1%nat) (L 2%nat); avg3 (L 1%nat) (L 2%nat) l3; avg2 (L 2%nat) l3; avg3 (L 2%nat) l3 l3];
     [avg2 (L 2%nat) l3; avg3 (L 2%nat) l3 l3; l3; l3];
     [l3; l3; l3; l3]].

(** * 15 loop-filter arithmetic on one 8-sample segment [p3;p2;p1;p0;q0;q1;q2;q3]
    crossing an edge, in the RFC's signed formulation. *)
Definition sc (x : Z) : Z := clampz (-128) 127 x.    (* c() *)
Definition u2s (x : Z) : Z := x - 128.
Definition s2u (x : Z) : Z := sc x + 128.

Definition lf_edge_ok (E p1 p0 q0 q1 : Z) : bool :=
  Z.abs (p0 - q0) * 2 + asr (Z.abs (p1 - q1)) 1 <=? E.

Definition lf_hev (t p1 p0 q0 q1 : Z) : bool :=
  (t <? Z.abs (p1 - p0)) || (t <? Z.abs (q1 - q0)).

Definition lf_filter_yes (I E p3 p2 p1 p0 q0 q1 q2 q3 : Z) : bool :=
  lf_edge_ok E p1 p0 q0 q1 &&
  (Z.abs (p3 - p2) <=? I) && (Z.abs (p2 - p1) <=? I) && (Z.abs (p1 - p0) <=? I) &&
  (Z.abs (q3 - q2) <=? I) && (Z.abs (q2 - q1) <=? I) && (Z.abs (q1 - q0) <=? I).

(** common_adjust: returns (new p0, new q0, a) on unsigned samples *)
Definition common_adjust (outer : bool) (p1 p0 q0 q1 : Z) : Z * Z * Z :=
  let P1 := u2s p1 in let P0 := u2s p0 in let Q0 := u2s q0 in let Q1 := u2s q1 in
  let a := sc ((if outer then sc (P1 - Q1) else 0) + 3 * (Q0 - P0)) in
  let b := asr (sc (a + 3)) 3 in
  let a' := asr (sc (a + 4)) 3 in
  (s2u (P0 + b), s2u (Q0 - a'), a').

Definition seg8 (l : list Z) : Z * Z * Z * Z * Z * Z * Z * Z :=
  (g l 0, g l 1, g l 2, g l 3, g l 4, g l 5, g l 6, g l 7).

Definition lf_simple (E : Z) (l : list Z) : list Z :=
  let '(p3, p2, p1, p0, q0, q1, q2, q3) := seg8 l in
  if lf_edge_ok E p1 p0 q0 q1 then
    let '(np0, nq0, _) := common_adjust true p1 p0 q0 q1 in
    [p3; p2; p1; np0; nq0; q1; q2; q3]
  else l.

Definition lf_subblock (hevt I E : Z) (l : list Z) : list Z :=
  let '(p3, p2, p1, p0, q0, q1, q2, q3) := seg8 l in
  if lf_filter_yes I E p3 p2 p1 p0 q0 q1 q2 q3 then
    let hv := lf_hev hevt p1 p0 q0 q1 in
    let '(np0, nq0, a0) := common_adjust hv p1 p0 q0 q1 in
    let a := asr (a0 + 1) 1 in
    if hv then [p3; p2; p1; np0; nq0; q1; q2; q3]
    else [p3; p2; s2u (u2s p1 + a); np0; nq0; s2u (u2s q1 - a); q2; q3]
  else l.

Definition lf_mbedge (hevt I E : Z) (l : list Z) : list Z :=
  let '(p3, p2, p1, p0, q0, q1, q2, q3) := seg8 l in
  if lf_filter_yes I E p3 p2 p1 p0 q0 q1 q2 q3 then
    if lf_hev hevt p1 p0 q0 q1 then
      let '(np0, nq0, _) := common_adjust true p1 p0 q0 q1 in
      [p3; p2; p1; np0; nq0; q1; q2; q3]
    else
      let P2 := u2s p2 in let P1 := u2s p1 in let P0 := u2s p0 in
      let Q0 := u2s q0 in let Q1 := u2s q1 in let Q2 := u2s q2 in
      let w := sc (sc (P1 - Q1) + 3 * (Q0 - P0)) in
      let a1 := sc (asr (27 * w + 63) 7) in
      let a2 := sc (asr (18 * w + 63) 7) in
      let a3 := sc (asr (9 * w + 63) 7) in
      [p3; s2u (P2 + a3); s2u (P1 + a2); s2u (P0 + a1);
       s2u (Q0 - a1); s2u (Q1 - a2); s2u (Q2 - a3); q3]
  else l.

(** 15.2 / 9.6 filter parameters of a macroblock *)
Record lf_params : Type := mkLfp { lp_level : Z; lp_interior : Z; lp_hev : Z }.

Definition lf_base_level (h : frame_hdr) (seg : Z) : Z :=
  let sg := fh_seg h in
  let lvl := lf_level (fh_lf h) in
  if sg_enabled sg then
    if sg_abs sg then nthZ (sg_lf sg) seg 0 else lvl + nthZ (sg_lf sg) seg 0
  else lvl.

(** [mid_clamp] selects whether the level is also clamped to 0..63 between the
    segment adjustment and the delta adjustment (see Vp8Spec for the discussion). *)
Definition lf_mb_level (mid_clamp : bool) (h : frame_hdr) (seg : Z) (is4 : bool) : Z :=
  let l0 := lf_base_level h seg in
  let l1 := if mid_clamp then clampz 0 63 l0 else l0 in
  let lf := fh_lf h in
  let l2 := if lf_delta_enabled lf
            then l1 + nthZ (lf_ref lf) 0 0 + (if is4 then nthZ (lf_mode lf) 0 0 else 0)
            else l1 in
  clampz 0 63 l2.

Definition lf_interior (level sharp : Z) : Z :=
  let i := if 0 <? sharp then
             Z.min (asr level (if 4 <? sharp then 2 else 1)) (9 - sharp)
           else level in
  if i <? 1 then 1 else i.

Definition lf_hev_thresh (level : Z) : Z :=
  if 40 <=? level then 2 else if 15 <=? level then 1 else 0.

Definition lf_mb_params (mid_clamp : bool) (h : frame_hdr) (seg : Z) (is4 : bool) : lf_params :=
  let lvl := lf_mb_level mid_clamp h seg is4 in
  mkLfp lvl (lf_interior lvl (lf_sharp (fh_lf h))) (lf_hev_thresh lvl).

Definition mbedge_limit (p : lf_params) : Z := (lp_level p + 2) * 2 + lp_interior p.
Definition subedge_limit (p : lf_params) : Z := lp_level p * 2 + lp_interior p.

(** * Go short-cuts *)

(** dsp.transformOne: vertical pass into tmp (transposed), then horizontal pass with
    dc = tmp[0] + 4 folded in; returns the 16 values that [store] shifts by 3. *)
Definition mul1 (a : Z) : Z := asr (a * 20091) 16 + a.
Definition mul2 (a : Z) : Z := asr (a * 35468) 16.

Definition go_col (i0 i4 i8 i12 : Z) : Z * Z * Z * Z :=
  let a := i0 + i8 in let b := i0 - i8 in
  let cc := mul2 i4 - mul1 i12 in
  let d := mul1 i4 + mul2 i12 in
  (a + d, b + cc, b - cc, a - d).

Definition go_row (t0 t1 t2 t3 : Z) : list Z :=
  let dc := t0 + 4 in
  let a := dc + t2 in let b := dc - t2 in
  let cc := mul2 t1 - mul1 t3 in
  let d := mul1 t1 + mul2 t3 in
  [asr (a + d) 3; asr (b + cc) 3; asr (b - cc) 3; asr (a - d) 3].

Definition go_transform_one (c : list Z) : list Z :=
  let '(a0, a1, a2, a3) := go_col (g c 0) (g c 4) (g c 8) (g c 12) in
  let '(b0, b1, b2, b3) := go_col (g c 1) (g c 5) (g c 9) (g c 13) in
  let '(c0, c1, c2, c3) := go_col (g c 2) (g c 6) (g c 10) (g c 14) in
  let '(d0, d1, d2, d3) := go_col (g c 3) (g c 7) (g c 11) (g c 15) in
  go_row a0 b0 c0 d0 ++ go_row a1 b1 c1 d1 ++ go_row a2 b2 c2 d2 ++ go_row a3 b3 c3 d3.

(** doTransform case 1 / transformDC: every sample gets (in[0] + 4) >> 3 *)
Definition go_transform_dc (c : list Z) : list Z := repeat (asr (g c 0 + 4) 3) 16.

(** transformAC3 *)
Definition go_transform_ac3 (c : list Z) : list Z :=
  let a := g c 0 + 4 in
  let c4 := mul2 (g c 4) in let d4 := mul1 (g c 4) in
  let c1v := mul2 (g c 1) in let d1v := mul1 (g c 1) in
  let row x := [asr (x + d1v) 3; asr (x + c1v) 3; asr (x - c1v) 3; asr (x - d1v) 3] in
  row (a + d4) ++ row (a + c4) ++ row (a - c4) ++ row (a - d4).

(** transformWHT *)
Definition go_wht (c : list Z) : list Z :=
  let col i :=
    let a0 := g c i + g c (12 + i) in let a1 := g c (4 + i) + g c (8 + i) in
    let a2 := g c (4 + i) - g c (8 + i) in let a3 := g c i - g c (12 + i) in
    (a0 + a1, a3 + a2, a0 - a1, a3 - a2) in
  let '(a0, a1, a2, a3) := col 0%nat in
  let '(b0, b1, b2, b3) := col 1%nat in
  let '(c0, c1, c2, c3) := col 2%nat in
  let '(d0, d1, d2, d3) := col 3%nat in
  let row t0 t1 t2 t3 :=
    let dc := t0 + 3 in
    let x0 := dc + t3 in let x1 := t1 + t2 in let x2 := t1 - t2 in let x3 := dc - t3 in
    [wrap16 (asr (x0 + x1) 3); wrap16 (asr (x3 + x2) 3); wrap16 (asr (x0 - x1) 3); wrap16 (asr (x3 - x2) 3)] in
  row a0 b0 c0 d0 ++ row a1 b1 c1 d1 ++ row a2 b2 c2 d2 ++ row a3 b3 c3 d3.

(** parseResiduals, nz <= 1: dc0 = int16((dc[0] + 3) >> 3) for all 16 blocks *)
Definition go_wht_dc_only (c : list Z) : list Z := repeat (wrap16 (asr (g c 0 + 3) 3)) 16.

(** nzCodeBits: the 2-bit code from the end-of-block position nz and "dst[0] != 0" *)
Definition go_nz_code (nz : Z) (dc_nz : bool) : Z :=
  if 3 <? nz then 3 else if 1 <? nz then 2 else if dc_nz then 1 else 0.

(** doTransform dispatch on the code *)
Definition go_do_transform (code : Z) (c : list Z) : list Z :=
  if code =? 3 then go_transform_one c
  else if code =? 2 then go_transform_ac3 c
  else if code =? 1 then go_transform_dc c
  else repeat 0 16.

(** clip tables of internal/dsp/cliptables.go as built by initClipTables *)
Definition go_tab (lo hi : Z) (f : Z -> Z) : list Z := map f (zrange lo (hi - lo + 1)).
Definition go_sclip1_tab : list Z := go_tab (-893) 892 (clampz (-128) 127).
Definition go_sclip2_tab : list Z := go_tab (-112) 112 (clampz (-16) 15).
Definition go_clip1_tab : list Z := go_tab (-255) 511 (clampz 0 255).
Definition go_abs0_tab : list Z := go_tab (-255) 255 Z.abs.
(** table look-up with the offset; None = index out of range (a Go panic) *)
Definition tab_get (t : list Z) (off v : Z) : option Z :=
  if (0 <=? off + v) then nth_error t (Z.to_nat (off + v)) else None.

(** Go loop-filter arithmetic (decode_frame.go), unsigned samples, clamps as functions *)
Definition gsclip1 := clampz (-128) 127.
Definition gsclip2 := clampz (-16) 15.

Definition go_needs_filter (thresh2 p1 p0 q0 q1 : Z) : bool :=
  4 * Z.abs (p0 - q0) + Z.abs (p1 - q1) <=? thresh2.

Definition go_filter2 (p1 p0 q0 q1 : Z) : Z * Z :=
  let a := 3 * (q0 - p0) + gsclip1 (p1 - q1) in
  let a1 := gsclip2 (asr (a + 4) 3) in
  let a2 := gsclip2 (asr (a + 3) 3) in
  (clamp255 (p0 + a2), clamp255 (q0 - a1)).

Definition go_filter4 (p1 p0 q0 q1 : Z) : Z * Z * Z * Z :=
  let a := 3 * (q0 - p0) in
  let a1 := gsclip2 (asr (a + 4) 3) in
  let a2 := gsclip2 (asr (a + 3) 3) in
  let a3 := asr (a1 + 1) 1 in
  (clamp255 (p1 + a3), clamp255 (p0 + a2), clamp255 (q0 - a1), clamp255 (q1 - a3)).

Definition go_filter6 (p2 p1 p0 q0 q1 q2 : Z) : list Z :=
  let a := gsclip1 (3 * (q0 - p0) + gsclip1 (p1 - q1)) in
  let a1 := asr (27 * a + 63) 7 in
  let a2 := asr (18 * a + 63) 7 in
  let a3 := asr (9 * a + 63) 7 in
  [clamp255 (p2 + a3); clamp255 (p1 + a2); clamp255 (p0 + a1);
   clamp255 (q0 - a1); clamp255 (q1 - a2); clamp255 (q2 - a3)].

Definition go_simple_seg (thresh : Z) (l : list Z) : list Z :=
  let '(p3, p2, p1, p0, q0, q1, q2, q3) := seg8 l in
  if go_needs_filter (2 * thresh + 1) p1 p0 q0 q1 then
    let '(np0, nq0) := go_filter2 p1 p0 q0 q1 in [p3; p2; p1; np0; nq0; q1; q2; q3]
  else l.

Definition go_needs_filter2 (thresh2 ithresh p3 p2 p1 p0 q0 q1 q2 q3 : Z) : bool :=
  if negb (go_needs_filter thresh2 p1 p0 q0 q1) then false else
  (Z.abs (p3 - p2) <=? ithresh) && (Z.abs (p2 - p1) <=? ithresh) && (Z.abs (p1 - p0) <=? ithresh) &&
  (Z.abs (q3 - q2) <=? ithresh) && (Z.abs (q2 - q1) <=? ithresh) && (Z.abs (q1 - q0) <=? ithresh).

Definition go_hev (t p1 p0 q0 q1 : Z) : bool := (t <? Z.abs (p1 - p0)) || (t <? Z.abs (q0 - q1)).

(** filterLoop26: macroblock edges *)
Definition go_loop26_seg (thresh ithresh hevt : Z) (l : list Z) : list Z :=
  let '(p3, p2, p1, p0, q0, q1, q2, q3) := seg8 l in
  if go_needs_filter2 (2 * thresh + 1) ithresh p3 p2 p1 p0 q0 q1 q2 q3 then
    if go_hev hevt p1 p0 q0 q1 then
      let '(np0, nq0) := go_filter2 p1 p0 q0 q1 in [p3; p2; p1; np0; nq0; q1; q2; q3]
    else p3 :: go_filter6 p2 p1 p0 q0 q1 q2 ++ [q3]
  else l.

(** filterLoop24: inner edges *)
Definition go_loop24_seg (thresh ithresh hevt : Z) (l : list Z) : list Z :=
  let '(p3, p2, p1, p0, q0, q1, q2, q3) := seg8 l in
  if go_needs_filter2 (2 * thresh + 1) ithresh p3 p2 p1 p0 q0 q1 q2 q3 then
    if go_hev hevt p1 p0 q0 q1 then
      let '(np0, nq0) := go_filter2 p1 p0 q0 q1 in [p3; p2; p1; np0; nq0; q1; q2; q3]
    else
      let '(np1, np0, nq0, nq1) := go_filter4 p1 p0 q0 q1 in [p3; p2; np1; np0; nq0; nq1; q2; q3]
  else l.

(** precomputeFilterStrengths: (FLimit, FILevel, HevThresh) of a (segment, i4x4) pair;
    FLimit = 0 means "no filtering" *)
Definition go_ilevel (level sharp : Z) : Z :=
  let il := level in
  let il := if 0 <? sharp then
              let il := if 4 <? sharp then asr il 2 else asr il 1 in
              if 9 - sharp <? il then 9 - sharp else il
            else il in
  if il <? 1 then 1 else il.

Definition go_level (h : frame_hdr) (seg : Z) (is4 : bool) : Z :=
  let sg := fh_seg h in let lf := fh_lf h in
  let base := if sg_enabled sg then
                (if sg_abs sg then nthZ (sg_lf sg) seg 0 else nthZ (sg_lf sg) seg 0 + lf_level lf)
              else lf_level lf in
  let level := if lf_delta_enabled lf
               then base + nthZ (lf_ref lf) 0 0 + (if is4 then nthZ (lf_mode lf) 0 0 else 0)
               else base in
  if level <? 0 then 0 else if 63 <? level then 63 else level.

Definition go_fstrength (h : frame_hdr) (seg : Z) (is4 : bool) : Z * Z * Z :=
  let level := go_level h seg is4 in
  let sharp := lf_sharp (fh_lf h) in
  if 0 <? level then
    (2 * level + go_ilevel level sharp, go_ilevel level sharp,
     if 40 <=? level then 2 else if 15 <=? level then 1 else 0)
  else (0, 0, 0).

(** ParseQuant: the six factors of a segment *)
Definition go_clip (v m : Z) : Z := if v <? 0 then 0 else if m <? v then m else v.
Definition go_dq (qh : q_hdr) (q : Z) : dqf :=
  let y2ac := asr (nthZ ac_table (go_clip (q + q_y2ac qh) 127) 0 * 101581) 16 in
  mkDq (nthZ dc_table (go_clip (q + q_y1dc qh) 127) 0)
       (nthZ ac_table (go_clip q 127) 0)
       (nthZ dc_table (go_clip (q + q_y2dc qh) 127) 0 * 2)
       (if y2ac <? 8 then 8 else y2ac)
       (nthZ dc_table (go_clip (q + q_uvdc qh) 117) 0)
       (nthZ ac_table (go_clip (q + q_uvac qh) 127) 0).
