(** Model of the Go boolean decoder as the hand-inlined coefficient reader uses it
    (internal/bitio/reader_bool.go + internal/lossy/decode_mb.go): a 64-bit value register
    holding Bits + 8 bits of the stream, Range = range - 1, bulk loads of 7 bytes (one byte
    near the end), fastBit with the kVP8Log2Range / kVP8NewRange tables, fastSigned.
    [gr_bit_refines] / [gr_signed_refines]: each read refines the exact-integer decoder of
    Vp8BoolAbs, which the RFC 6386 decoder refines too (Vp8BoolAbs.read_bool_refines). *)
From Coq Require Import List ZArith Lia Bool.
From WebpGen Require Tables.
From Webp Require Import Vp8.Vp8Bool Vp8.Vp8BoolAbs.
Import ListNotations.
Open Scope Z_scope.

Definition kLog2Range : list Z := WebpGen.Tables.lossy_kVP8Log2Range.
Definition kNewRange8 : list Z := WebpGen.Tables.lossy_kVP8NewRange.

Record greader : Type := mkGr {
  gr_value : Z;         (* uint64 *)
  gr_range : Z;         (* range - 1 *)
  gr_bits : Z;          (* number of look-ahead bits below the 8-bit window; < 0: a load is due *)
  gr_rest : list Z;     (* bytes not loaded yet *)
  gr_eof : bool }.

Definition w64 (x : Z) : Z := x mod 2 ^ 64.

(** loadNewBytes / loadFinalBytes *)
Definition gr_load (g : greader) : greader :=
  if (8 <=? length (gr_rest g))%nat then
    mkGr (w64 (gr_value g * 2 ^ 56) + bval (firstn 7 (gr_rest g))) (gr_range g) (gr_bits g + 56)
         (skipn 7 (gr_rest g)) (gr_eof g)
  else
    match gr_rest g with
    | b :: tl => mkGr (b + w64 (gr_value g * 256)) (gr_range g) (gr_bits g + 8) tl (gr_eof g)
    | [] => if gr_eof g then mkGr (gr_value g) (gr_range g) 0 [] true
            else mkGr (w64 (gr_value g * 256)) (gr_range g) (gr_bits g + 8) [] true
    end.

(** fastBit on the hoisted state *)
Definition gr_fast_bit (prob : Z) (g : greader) : bool * greader :=
  let split := gr_range g * prob / 256 in
  let val := gr_value g / 2 ^ gr_bits g in
  let bit := split <? val in
  let r1 := if bit then gr_range g - (split + 1) else split in
  let v1 := if bit then gr_value g - (split + 1) * 2 ^ gr_bits g else gr_value g in
  if r1 <=? 126 then
    (bit, mkGr v1 (nth (Z.to_nat r1) kNewRange8 0) (gr_bits g - nth (Z.to_nat r1) kLog2Range 0) (gr_rest g) (gr_eof g))
  else (bit, mkGr v1 r1 (gr_bits g) (gr_rest g) (gr_eof g)).

(** "if brB < 0 { brLoad }" followed by fastBit *)
Definition gr_bit (prob : Z) (g : greader) : bool * greader :=
  gr_fast_bit prob (if gr_bits g <? 0 then gr_load g else g).

(** fastSigned: returns whether the value is negated *)
Definition gr_fast_signed (g : greader) : bool * greader :=
  let split := gr_range g / 2 in
  let val := gr_value g / 2 ^ gr_bits g in
  let neg := split <? val in
  (neg, mkGr (if neg then gr_value g - (split + 1) * 2 ^ gr_bits g else gr_value g)
             (Z.lor (if neg then gr_range g - 1 else gr_range g) 1) (gr_bits g - 1) (gr_rest g) (gr_eof g)).

Definition gr_signed (g : greader) : bool * greader :=
  gr_fast_signed (if gr_bits g <? 0 then gr_load g else g).

(** * relation with the exact-integer decoder state (R, D, j) *)
Definition grel (g : greader) (R D j : Z) : Prop :=
  gr_range g + 1 = R /\ Forall is_byte (gr_rest g) /\ 0 <= gr_value g /\ -8 <= gr_bits g <= 56 /\
  D = gr_value g * 2 ^ (8 * Z.of_nat (length (gr_rest g))) + bval (gr_rest g) /\
  j = gr_bits g + 8 * Z.of_nat (length (gr_rest g)) /\ 0 <= D < R * 2 ^ j /\ gr_eof g = false.

Lemma log2range_sweep :
  forallb (fun r => let '(r2, sh) := norm_loop 8 (r + 1) 0 in
                    (nth (Z.to_nat r) kNewRange8 0 + 1 =? r2) && (nth (Z.to_nat r) kLog2Range 0 =? sh) &&
                    (1 <=? sh) && (sh <=? 7)) (zrange 0 127) = true.
Proof. vm_compute. reflexivity. Qed.

Lemma log2range_spec r : 0 <= r <= 126 ->
  norm_loop 8 (r + 1) 0 = (nth (Z.to_nat r) kNewRange8 0 + 1, nth (Z.to_nat r) kLog2Range 0) /\
  1 <= nth (Z.to_nat r) kLog2Range 0 <= 7.
Proof.
  intros H.
  pose proof (proj1 (forallb_forall _ _) log2range_sweep r (in_zrange 0 127 r ltac:(lia) ltac:(lia))) as Hx.
  cbv beta in Hx. destruct (norm_loop 8 (r + 1) 0) as [r2 sh].
  rewrite !andb_true_iff in Hx. destruct Hx as [[[H1 H2] H3] H4].
  apply Z.eqb_eq in H1, H2. apply Z.leb_le in H3, H4. subst. split; [reflexivity|lia].
Qed.

(** fastSigned = fastBit at probability 128 for range_ in 127..253 ("shift is always 1") *)
Lemma signed_sweep :
  forallb (fun r => forallb (fun neg : bool =>
     let split := r / 2 in
     let r1 := if neg then r - (split + 1) else split in
     (split =? r * 128 / 256) && (r1 <=? 126) &&
     (nth (Z.to_nat r1) kNewRange8 0 =? Z.lor (if neg then r - 1 else r) 1) &&
     (nth (Z.to_nat r1) kLog2Range 0 =? 1)) [false; true]) (zrange 127 127) = true.
Proof. vm_compute. reflexivity. Qed.

Global Opaque kLog2Range kNewRange8.

Lemma bval_app a b : bval (a ++ b) = bval a * 2 ^ (8 * Z.of_nat (length b)) + bval b.
Proof.
  induction a as [|x t IH]; cbn [app bval length].
  - lia.
  - rewrite IH, app_length, Nat2Z.inj_add.
    replace (8 * (Z.of_nat (length t) + Z.of_nat (length b))) with (8 * Z.of_nat (length t) + 8 * Z.of_nat (length b)) by lia.
    rewrite Z.pow_add_r by lia. ring.
Qed.

(** a due load keeps the abstract state (enough bytes are left) *)
Lemma gr_load_rel g R D j : grel g R D j -> gr_bits g < 0 -> 1 <= R <= 255 -> 16 <= j ->
  grel (gr_load g) R D j /\ 0 <= gr_bits (gr_load g).
Proof.
  intros (ER & Hb & Hv & HB & ED & Ej & HD & Heof) Hneg HR Hj.
  set (m := Z.of_nat (length (gr_rest g))) in *.
  assert (Hm : 2 <= m) by lia.
  (* the value register holds fewer than 8 bits *)
  assert (Hv8 : gr_value g < 256).
  { pose proof (bval_bound _ Hb) as HF. fold m in HF.
    assert (HW : 0 < 2 ^ (8 * m)) by (apply Z.pow_pos_nonneg; lia).
    assert (Hle : 2 ^ j <= 2 ^ (8 * m)) by (apply Z.pow_le_mono_r; lia).
    assert (0 < 2 ^ j) by (apply Z.pow_pos_nonneg; lia). nia. }
  unfold gr_load.
  destruct (8 <=? length (gr_rest g))%nat eqn:E8.
  - apply Nat.leb_le in E8.
    assert (Hsplit : gr_rest g = firstn 7 (gr_rest g) ++ skipn 7 (gr_rest g)) by (symmetry; apply firstn_skipn).
    assert (Hl7 : length (firstn 7 (gr_rest g)) = 7%nat) by (rewrite firstn_length; lia).
    assert (Hls : Z.of_nat (length (skipn 7 (gr_rest g))) = m - 7) by (rewrite skipn_length; unfold m; lia).
    assert (Hb78 : Forall is_byte (firstn 7 (gr_rest g)) /\ Forall is_byte (skipn 7 (gr_rest g))).
    { apply Forall_app. rewrite <- Hsplit. exact Hb. }
    destruct Hb78 as [Hb7 Hbs].
    pose proof (bval_bound _ Hb7) as H7. rewrite Hl7 in H7. change (2 ^ (8 * Z.of_nat 7)) with (2 ^ 56) in H7.
    assert (P56 : 0 < 2 ^ 56) by reflexivity.
    unfold w64. rewrite Z.mod_small by (change (2 ^ 64) with (256 * 2 ^ 56); split;
      [apply Z.mul_nonneg_nonneg; lia|apply Z.mul_lt_mono_pos_r; [exact P56|lia]]).
    unfold grel. cbn [gr_range gr_rest gr_value gr_bits gr_eof]. split; [|lia].
    assert (Hvp : 0 <= gr_value g * 2 ^ 56) by (apply Z.mul_nonneg_nonneg; lia).
    split; [exact ER|]. split; [exact Hbs|]. split; [lia|]. split; [lia|].
    split.
    { rewrite ED. replace (bval (gr_rest g)) with (bval (firstn 7 (gr_rest g) ++ skipn 7 (gr_rest g))) by (rewrite <- Hsplit; reflexivity).
      rewrite bval_app. rewrite Hls.
      replace (8 * m) with (56 + 8 * (m - 7)) by lia. rewrite Z.pow_add_r by lia. ring. }
    split; [rewrite Hls; lia|]. split; [exact HD|exact Heof].
  - destruct (gr_rest g) as [|b tl] eqn:Er; [cbn [length] in m; lia|].
    pose proof (Forall_inv Hb) as Hb1. pose proof (Forall_inv_tail Hb) as Hbt. unfold is_byte in Hb1.
    unfold w64. rewrite Z.mod_small by (change (2 ^ 64) with 18446744073709551616; lia).
    unfold grel. cbn [gr_range gr_rest gr_value gr_bits gr_eof]. split; [|lia].
    split; [exact ER|]. split; [exact Hbt|]. split; [lia|]. split; [lia|].
    cbn [length bval] in ED, Ej, m.
    split.
    { rewrite ED. unfold m. rewrite Nat2Z.inj_succ.
      replace (8 * Z.succ (Z.of_nat (length tl))) with (8 + 8 * Z.of_nat (length tl)) by lia.
      rewrite Z.pow_add_r by lia. change (2 ^ 8) with 256. ring. }
    split; [unfold m in *; lia|]. split; [exact HD|exact Heof].
Qed.

(** fastBit on a state whose window is loaded *)
Lemma gr_fast_bit_refines g R D j p : grel g R D j -> 0 <= gr_bits g -> 128 <= R <= 255 -> 0 <= p <= 255 -> 8 <= j ->
  let '(b, (R2, D2, j2)) := aget p (R, D, j) in
  exists g', gr_fast_bit p g = (b, g') /\ grel g' R2 D2 j2 /\ 128 <= R2 <= 254 /\ j - 7 <= j2 /\
             gr_rest g' = gr_rest g.
Proof.
  intros (ER & Hb & Hv & HB & ED & Ej & HD & Heof) HB0 HR Hp Hj8.
  pose proof (nsplit_bounds R p HR Hp) as Hs.
  unfold aget. set (s := nsplit R p) in *.
  set (m8 := 8 * Z.of_nat (length (gr_rest g))) in *.
  assert (Ejp : 2 ^ j = 2 ^ gr_bits g * 2 ^ m8) by (rewrite Ej, Z.pow_add_r by lia; reflexivity).
  set (T := 2 ^ gr_bits g) in *. set (W := 2 ^ m8) in *.
  assert (HT : 0 < T) by (unfold T; apply Z.pow_pos_nonneg; lia).
  assert (HW : 0 < W) by (unfold W, m8; apply Z.pow_pos_nonneg; lia).
  pose proof (bval_bound _ Hb) as HF. fold m8 W in HF.
  assert (Es : s = gr_range g * p / 256 + 1).
  { unfold s, nsplit, bd_split. rewrite <- ER. replace (gr_range g + 1 - 1) with (gr_range g) by lia. lia. }
  set (sg := gr_range g * p / 256) in *.
  (* decision *)
  assert (Edec : (sg <? gr_value g / T) = (s * 2 ^ j <=? D)).
  { rewrite Ejp, ED.
    destruct (Z.ltb_spec sg (gr_value g / T)) as [H1|H1]; destruct (Z.leb_spec (s * (T * W)) (gr_value g * W + bval (gr_rest g))) as [H2|H2];
      try reflexivity; exfalso.
    - assert (s * T <= gr_value g).
      { assert (s <= gr_value g / T) by lia. pose proof (Z.mul_div_le (gr_value g) T HT). nia. }
      nia.
    - assert (s * T <= gr_value g) by nia.
      assert (s <= gr_value g / T) by (apply Z.div_le_lower_bound; lia). lia. }
  unfold gr_fast_bit. fold sg T. rewrite Edec.
  set (b := s * 2 ^ j <=? D) in *.
  set (R1 := if b then R - s else s).
  set (D1 := if b then D - s * 2 ^ j else D).
  assert (HR1 : 1 <= R1 <= 255) by (unfold R1; destruct b; lia).
  assert (Er1 : (if b then gr_range g - (sg + 1) else sg) = R1 - 1) by (unfold R1; destruct b; lia).
  rewrite Er1.
  assert (HD1 : 0 <= D1 < R1 * 2 ^ j).
  { unfold D1, R1, b. destruct (Z.leb_spec (s * 2 ^ j) D); nia. }
  assert (ED1 : D1 = (if b then gr_value g - (sg + 1) * T else gr_value g) * W + bval (gr_rest g)).
  { unfold D1. destruct b; [rewrite ED, Ejp; ring_simplify; lia|exact ED]. }
  assert (Hv1 : 0 <= (if b then gr_value g - (sg + 1) * T else gr_value g)).
  { destruct b eqn:Eb; [|exact Hv]. unfold b in Eb. apply Z.leb_le in Eb. rewrite Ejp, ED in Eb.
    assert (s * T <= gr_value g) by nia. lia. }
  destruct (norm_loop_spec 8 R1 0) as (t & Ht & En). rewrite En.
  pose proof (norm_range R1 HR1) as [Hr2 Hsh]. rewrite En in Hr2, Hsh. cbn [fst snd] in Hr2, Hsh.
  assert (Ejt : R1 * 2 ^ t * 2 ^ (j - (0 + t)) = R1 * 2 ^ j).
  { rewrite <- Z.mul_assoc, <- Z.pow_add_r by lia. f_equal. f_equal. lia. }
  destruct (R1 - 1 <=? 126) eqn:E126.
  - apply Z.leb_le in E126.
    destruct (log2range_spec (R1 - 1) ltac:(lia)) as [Hn Hn2]. replace (R1 - 1 + 1) with R1 in Hn by lia.
    rewrite En in Hn. apply pair_equal_spec in Hn. destruct Hn as [Hnr Hnt].
    eexists. split; [reflexivity|]. unfold grel. cbn [gr_range gr_rest gr_value gr_bits gr_eof].
    rewrite <- Hnt, <- Hnr. fold m8.
    assert (Hle254 : R1 * 2 ^ t <= 254).
    { assert (2 ^ t = 2 * 2 ^ (t - 1)) by (rewrite <- Z.pow_succ_r by lia; f_equal; lia). lia. }
    repeat split; try assumption; try lia; try (rewrite Ejt; lia).
  - apply Z.leb_gt in E126.
    assert (t = 0).
    { cbn [norm_loop] in En. assert (R1 <? 128 = false) by (apply Z.ltb_ge; lia). rewrite H in En.
      apply pair_equal_spec in En. lia. }
    subst t. rewrite Z.pow_0_r, Z.mul_1_r in *.
    eexists. split; [reflexivity|]. unfold grel. cbn [gr_range gr_rest gr_value gr_bits gr_eof]. fold m8.
    replace (j - (0 + 0)) with j by lia.
    assert (R1 <= 254) by (unfold R1; destruct b; lia).
    repeat split; try assumption; try lia.
Qed.

Lemma gr_fast_signed_eq g : 127 <= gr_range g <= 253 -> gr_fast_signed g = gr_fast_bit 128 g.
Proof.
  intros Hr.
  pose proof (proj1 (forallb_forall _ _) signed_sweep (gr_range g) (in_zrange 127 127 (gr_range g) ltac:(lia) ltac:(lia))) as Hx.
  cbv beta in Hx. unfold gr_fast_signed, gr_fast_bit. cbv zeta.
  set (val := gr_value g / 2 ^ gr_bits g).
  pose proof (proj1 (forallb_forall _ _) Hx (gr_range g / 2 <? val) ltac:(destruct (gr_range g / 2 <? val); cbn; auto)) as Hb.
  cbv beta zeta in Hb. rewrite !andb_true_iff in Hb. destruct Hb as [[[H1 H2] H3] H4].
  apply Z.eqb_eq in H1, H3, H4. rewrite <- H1. rewrite H2, H3, H4. reflexivity.
Qed.

(** one inlined read: load if due, then fastBit *)
Theorem gr_bit_refines g R D j p : grel g R D j -> 128 <= R <= 255 -> 0 <= p <= 255 -> 16 <= j ->
  let '(b, (R2, D2, j2)) := aget p (R, D, j) in
  exists g', gr_bit p g = (b, g') /\ grel g' R2 D2 j2 /\ 128 <= R2 <= 254 /\ j - 7 <= j2.
Proof.
  intros Hrel HR Hp Hj. unfold gr_bit.
  destruct (gr_bits g <? 0) eqn:Eb.
  - apply Z.ltb_lt in Eb. destruct (gr_load_rel g R D j Hrel Eb ltac:(lia) Hj) as [Hrel2 Hb2].
    pose proof (gr_fast_bit_refines (gr_load g) R D j p Hrel2 Hb2 HR Hp ltac:(lia)) as H.
    destruct (aget p (R, D, j)) as [b [[R2 D2] j2]]. destruct H as (g' & E & H1 & H2 & H3 & _).
    exists g'. exact (conj E (conj H1 (conj H2 H3))).
  - apply Z.ltb_ge in Eb.
    pose proof (gr_fast_bit_refines g R D j p Hrel Eb HR Hp ltac:(lia)) as H.
    destruct (aget p (R, D, j)) as [b [[R2 D2] j2]]. destruct H as (g' & E & H1 & H2 & H3 & _).
    exists g'. exact (conj E (conj H1 (conj H2 H3))).
Qed.

Theorem gr_signed_refines g R D j : grel g R D j -> 128 <= R <= 254 -> 16 <= j ->
  let '(b, (R2, D2, j2)) := aget 128 (R, D, j) in
  exists g', gr_signed g = (b, g') /\ grel g' R2 D2 j2 /\ 128 <= R2 <= 254 /\ j - 7 <= j2.
Proof.
  intros Hrel HR Hj. unfold gr_signed.
  assert (Hload : forall g0, grel g0 R D j -> gr_fast_signed g0 = gr_fast_bit 128 g0).
  { intros g0 (E & _). apply gr_fast_signed_eq. lia. }
  destruct (gr_bits g <? 0) eqn:Eb.
  - apply Z.ltb_lt in Eb. destruct (gr_load_rel g R D j Hrel Eb ltac:(lia) Hj) as [Hrel2 Hb2].
    rewrite (Hload _ Hrel2).
    pose proof (gr_fast_bit_refines (gr_load g) R D j 128 Hrel2 Hb2 ltac:(lia) ltac:(lia) ltac:(lia)) as H.
    destruct (aget 128 (R, D, j)) as [b [[R2 D2] j2]]. destruct H as (g' & E & H1 & H2 & H3 & _).
    exists g'. exact (conj E (conj H1 (conj H2 H3))).
  - apply Z.ltb_ge in Eb. rewrite (Hload _ Hrel).
    pose proof (gr_fast_bit_refines g R D j 128 Hrel Eb ltac:(lia) ltac:(lia) ltac:(lia)) as H.
    destruct (aget 128 (R, D, j)) as [b [[R2 D2] j2]]. destruct H as (g' & E & H1 & H2 & H3 & _).
    exists g'. exact (conj E (conj H1 (conj H2 H3))).
Qed.
