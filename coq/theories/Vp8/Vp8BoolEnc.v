(** Model of the Go boolean encoder (internal/bitio/writer_bool.go: range_, value,
    run of pending 0xff bytes, nbBits, carry propagation in flush, PutBit,
    PutBitUniform, PutBits, Finish) and the proof that it refines the abstract
    arithmetic encoder of Vp8BoolAbs; with the decoder refinement this gives the
    round trip [bool_roundtrip]: the RFC 6386 decoder reads back every bit
    sequence written by the Go encoder, carries included. *)
From Coq Require Import List ZArith Lia Bool.
From WebpGen Require Tables.
From Webp Require Import Vp8.Vp8Bool Vp8.Vp8BoolAbs.
Import ListNotations.
Open Scope Z_scope.

Definition kNorm : list Z := WebpGen.Tables.bitio_kNorm.
Definition kNewRange : list Z := WebpGen.Tables.bitio_kNewRange.

Record bwst : Type := mkBw {
  bw_range : Z;        (* range_ = range - 1 *)
  bw_value : Z;
  bw_run : Z;          (* pending 0xff bytes *)
  bw_nb : Z;           (* nbBits *)
  bw_buf : list Z }.   (* bytes written so far, LAST byte first *)

Definition bw_init : bwst := mkBw 254 0 0 (-8) [].

Definition inc_last (l : list Z) : list Z :=
  match l with [] => [] | b :: tl => (b + 1) mod 256 :: tl end.

Definition bw_flush (w : bwst) : bwst :=
  let s := 8 + bw_nb w in
  let bits := bw_value w / 2 ^ s in
  let v' := bw_value w - bits * 2 ^ s in
  let nb' := bw_nb w - 8 in
  if bits mod 256 =? 255 then mkBw (bw_range w) v' (bw_run w + 1) nb' (bw_buf w)
  else
    let carry := (bits / 256) mod 2 =? 1 in
    let buf1 := if carry then inc_last (bw_buf w) else bw_buf w in
    let buf2 := repeat (if carry then 0 else 255) (Z.to_nat (bw_run w)) ++ buf1 in
    mkBw (bw_range w) v' 0 nb' (bits mod 256 :: buf2).

Definition bw_norm (shift_of : Z -> Z) (r1 v1 : Z) (w : bwst) : bwst :=
  if r1 <? 127 then
    let shift := shift_of r1 in
    let w2 := mkBw (nth (Z.to_nat r1) kNewRange 0) (v1 * 2 ^ shift) (bw_run w) (bw_nb w + shift) (bw_buf w) in
    if 0 <? bw_nb w2 then bw_flush w2 else w2
  else mkBw r1 v1 (bw_run w) (bw_nb w) (bw_buf w).

Definition bw_put (bit : bool) (prob : Z) (w : bwst) : bwst :=
  let split := bw_range w * prob / 256 in
  let r1 := if bit then bw_range w - (split + 1) else split in
  let v1 := if bit then bw_value w + split + 1 else bw_value w in
  bw_norm (fun r => nth (Z.to_nat r) kNorm 0) r1 v1 w.

(** PutBitUniform: split = range_ >> 1, shift fixed to 1 *)
Definition bw_put_uniform (bit : bool) (w : bwst) : bwst :=
  let split := bw_range w / 2 in
  let r1 := if bit then bw_range w - (split + 1) else split in
  let v1 := if bit then bw_value w + split + 1 else bw_value w in
  bw_norm (fun _ => 1) r1 v1 w.

(** PutBits(value, n): n bits of value, most significant first *)
Fixpoint bw_put_bits (value : Z) (n : nat) (w : bwst) : bwst :=
  match n with
  | O => w
  | S m => bw_put_bits value m (bw_put_uniform (Z.testbit value (Z.of_nat m)) w)
  end.

(** PutSignedBits(value, n): flag "non-zero", then |value| << 1 | sign on n+1 bits *)
Definition bw_put_signed (value : Z) (n : nat) (w : bwst) : bwst :=
  let w1 := bw_put_uniform (negb (value =? 0)) w in
  if value =? 0 then w1
  else bw_put_bits (if value <? 0 then (- value) * 2 + 1 else value * 2) (S n) w1.

Definition bw_finish (w : bwst) : list Z :=
  let w1 := bw_put_bits 0 (Z.to_nat (9 - bw_nb w)) w in
  let w2 := bw_flush (mkBw (bw_range w1) (bw_value w1) (bw_run w1) 0 (bw_buf w1)) in
  rev (bw_buf w2).

Fixpoint bw_encode_all (ps : list (bool * Z)) (w : bwst) : bwst :=
  match ps with
  | [] => w
  | (b, p) :: tl => bw_encode_all tl (bw_put b p w)
  end.

(** the bytes the Go encoder produces for a sequence of (bit, probability) pairs *)
Definition bool_encode (ps : list (bool * Z)) : list Z := bw_finish (bw_encode_all ps bw_init).

(** * buffer value (last byte first) *)
Fixpoint ival (l : list Z) : Z :=
  match l with [] => 0 | b :: tl => b + 256 * ival tl end.

Lemma ival_repeat255 n l : ival (repeat 255 n ++ l) = 256 ^ Z.of_nat n * (ival l + 1) - 1.
Proof.
  induction n as [|n IH]; cbn [repeat app ival].
  - change (Z.of_nat 0) with 0. rewrite Z.pow_0_r. ring.
  - rewrite IH. rewrite Nat2Z.inj_succ, Z.pow_succ_r by lia. ring.
Qed.

Lemma ival_repeat0 n l : ival (repeat 0 n ++ l) = 256 ^ Z.of_nat n * ival l.
Proof.
  induction n as [|n IH]; cbn [repeat app ival].
  - change (Z.of_nat 0) with 0. rewrite Z.pow_0_r. ring.
  - rewrite IH. rewrite Nat2Z.inj_succ, Z.pow_succ_r by lia. ring.
Qed.

(** * normalisation tables = the RFC loop *)
Lemma knorm_sweep :
  forallb (fun r => let '(r2, sh) := norm_loop 8 (r + 1) 0 in
                    (nth (Z.to_nat r) kNewRange 0 + 1 =? r2) && (nth (Z.to_nat r) kNorm 0 =? sh) &&
                    (1 <=? sh) && (sh <=? 7)) (zrange 0 127) = true.
Proof. vm_compute. reflexivity. Qed.

Lemma knorm_spec r : 0 <= r <= 126 ->
  norm_loop 8 (r + 1) 0 = (nth (Z.to_nat r) kNewRange 0 + 1, nth (Z.to_nat r) kNorm 0) /\
  1 <= nth (Z.to_nat r) kNorm 0 <= 7.
Proof.
  intros H.
  pose proof (proj1 (forallb_forall _ _) knorm_sweep r (in_zrange 0 127 r ltac:(lia) ltac:(lia))) as Hx.
  cbv beta in Hx. destruct (norm_loop 8 (r + 1) 0) as [r2 sh].
  rewrite !andb_true_iff in Hx. destruct Hx as [[[H1 H2] H3] H4].
  apply Z.eqb_eq in H1, H2. apply Z.leb_le in H3, H4. subst. split; [reflexivity|lia].
Qed.

(** uniform bits: for range_ in 127..254 the new range is 63..126 or no shift at all, and
    kNorm is 1 there: PutBitUniform = PutBit with probability 128 *)
Lemma uniform_sweep :
  forallb (fun r => forallb (fun b : bool =>
     let split := r / 2 in
     let r1 := if b then r - (split + 1) else split in
     (split =? r * 128 / 256) && ((127 <=? r1) || (nth (Z.to_nat r1) kNorm 0 =? 1))) [false; true])
    (zrange 127 128) = true.
Proof. vm_compute. reflexivity. Qed.

Global Opaque kNorm kNewRange.

(** * Relation between the Go encoder state and the abstract interval (R, L, k).
    With e = nbBits + 8 and P = the number formed by the written bytes followed by
    [run] bytes 0xff:  L = P * 2^(e+8) + value,  k = 8 * (bytes + run) + e. *)
Definition wrel (emax : Z) (w : bwst) (R L k : Z) : Prop :=
  let e := bw_nb w + 8 in
  let v := bw_value w in
  let P := (ival (bw_buf w) + 1) * 256 ^ bw_run w - 1 in
  bw_range w + 1 = R /\ 0 <= e <= emax /\ 0 <= bw_run w /\
  Forall is_byte (bw_buf w) /\ (match bw_buf w with [] => True | b :: _ => b <> 255 end) /\
  0 <= v /\ L = P * 2 ^ (e + 8) + v /\
  k = 8 * (Z.of_nat (length (bw_buf w)) + bw_run w) + e /\
  v + R <= 2 ^ (e + 8) + 255 * 2 ^ e /\ L + R <= 2 ^ (k + 8) /\ 1 <= R <= 255.

Lemma pow256 n : 0 <= n -> 256 ^ n = 2 ^ (8 * n).
Proof. intros H. change 256 with (2 ^ 8). rewrite <- Z.pow_mul_r by lia. reflexivity. Qed.

Lemma ival_nonneg l : Forall is_byte l -> 0 <= ival l.
Proof.
  induction l as [|b tl IH]; intros H; cbn [ival]; [lia|].
  pose proof (Forall_inv H) as Hb. specialize (IH (Forall_inv_tail H)). unfold is_byte in Hb. lia.
Qed.

Lemma flush_rel w R L k : wrel 15 w R L k -> 9 <= bw_nb w + 8 -> wrel 7 (bw_flush w) R L k.
Proof.
  destruct w as [rg v run nb buf]. unfold wrel. cbn [bw_range bw_value bw_run bw_nb bw_buf].
  intros (HR & He & Hrun & Hbytes & Hlast & Hv & HL & Hk & Hb & Ha & HRr) Hnb.
  assert (Hnb1 : 1 <= nb <= 7) by lia.
  set (E' := 2 ^ nb) in *.
  assert (HE' : 2 <= E') by (unfold E'; change 2 with (2 ^ 1) at 1; apply Z.pow_le_mono_r; lia).
  assert (P1 : 2 ^ (8 + nb) = 256 * E') by (rewrite Z.pow_add_r by lia; reflexivity).
  assert (P2 : 2 ^ (nb + 8 + 8) = 65536 * E').
  { replace (nb + 8 + 8) with (16 + nb) by lia. rewrite Z.pow_add_r by lia. reflexivity. }
  assert (P3 : 2 ^ (nb + 8) = 256 * E') by (rewrite Z.add_comm; exact P1).
  assert (P4 : 2 ^ (nb - 8 + 8) = E') by (unfold E'; f_equal; lia).
  assert (P5 : 2 ^ (nb - 8 + 8 + 8) = 256 * E') by (replace (nb - 8 + 8 + 8) with (8 + nb) by lia; exact P1).
  rewrite P2, P3 in *.
  set (Q := 256 ^ run) in *.
  assert (HQ : 1 <= Q) by (unfold Q; apply (Z.pow_le_mono_r 256 0 run); lia).
  pose proof (ival_nonneg buf Hbytes) as HI. set (I := ival buf) in *.
  unfold bw_flush. cbn [bw_range bw_value bw_run bw_nb bw_buf]. rewrite P1.
  set (bits := v / (256 * E')).
  assert (Hdiv : v = 256 * E' * bits + v mod (256 * E')) by (apply Z.div_mod; lia).
  assert (Hmod : 0 <= v mod (256 * E') < 256 * E') by (apply Z.mod_pos_bound; lia).
  set (v' := v - bits * (256 * E')).
  assert (Ev' : v' = v mod (256 * E')) by (unfold v'; lia).
  assert (Hbits : 0 <= bits <= 510).
  { split; [apply Z.div_pos; lia|]. assert (bits < 511); [|lia].
    apply Z.div_lt_upper_bound; [lia|]. nia. }
  assert (Hd : 0 <= bits mod 256 < 256) by (apply Z.mod_pos_bound; lia).
  assert (Hbd : bits = 256 * (bits / 256) + bits mod 256) by (apply Z.div_mod; lia).
  assert (Hc : bits / 256 = 0 \/ bits / 256 = 1).
  { assert (0 <= bits / 256 <= 1); [|lia]. split; [apply Z.div_pos; lia|].
    assert (bits / 256 < 2); [|lia]. apply Z.div_lt_upper_bound; lia. }
  destruct (bits mod 256 =? 255) eqn:Ed.
  - (* a 0xff byte is held back *)
    apply Z.eqb_eq in Ed. cbn [bw_range bw_value bw_run bw_nb bw_buf].
    assert (Ec : bits / 256 = 0) by lia.
    rewrite P4, P5.
    replace (256 ^ (run + 1)) with (256 * Q) by (unfold Q; rewrite Z.pow_add_r by lia; ring).
    repeat split; try assumption; try lia; try (rewrite HL; nia).
  - apply Z.eqb_neq in Ed. cbn [bw_range bw_value bw_run bw_nb bw_buf].
    rewrite P4, P5. rewrite Z.pow_0_r.
    destruct Hc as [Ec|Ec]; rewrite Ec.
    + (* no carry *)
      change (0 mod 2 =? 1) with false. cbv iota.
      cbn [ival length]. rewrite ival_repeat255, app_length, repeat_length, Z2Nat.id by lia. fold Q I.
      repeat split; try assumption; try lia; try (rewrite HL; nia);
        try (rewrite Hk; rewrite Nat2Z.inj_succ, Nat2Z.inj_add, Z2Nat.id by lia; lia).
      constructor; [unfold is_byte; lia|]. apply Forall_app. split; [|assumption].
      apply Forall_forall. intros x Hx. apply repeat_spec in Hx. subst. unfold is_byte. lia.
    + (* carry into the last written byte; the pending 0xff bytes become 0x00 *)
      change (1 mod 2 =? 1) with true. cbv iota.
      destruct buf as [|b0 tl].
      { (* no byte to carry into: impossible, the interval would leave [0, 1) *)
        exfalso. rewrite Hk in Ha. cbn [ival length] in *. unfold I in *.
        replace (8 * (Z.of_nat 0 + run) + (nb + 8) + 8) with (8 * run + (16 + nb)) in Ha by lia.
        rewrite Z.pow_add_r in Ha by lia. rewrite <- pow256 in Ha by lia. fold Q in Ha.
        replace (2 ^ (16 + nb)) with (65536 * E') in Ha by (rewrite Z.pow_add_r by lia; reflexivity).
        nia. }
      pose proof (Forall_inv Hbytes) as Hb0. pose proof (Forall_inv_tail Hbytes) as Htl. unfold is_byte in Hb0.
      cbn [inc_last]. rewrite (Z.mod_small (b0 + 1) 256) by lia.
      cbn [ival length]. rewrite ival_repeat0, app_length, repeat_length, Z2Nat.id by lia. cbn [ival length].
      unfold I in *. cbn [ival] in HL, HI. fold Q.
      repeat split; try assumption; try lia; try (rewrite HL; nia);
        try (rewrite Hk; cbn [length]; rewrite !Nat2Z.inj_succ, Nat2Z.inj_add, Z2Nat.id by lia;
             rewrite ?Nat2Z.inj_succ; lia).
      constructor; [unfold is_byte; lia|]. apply Forall_app. split.
      * apply Forall_forall. intros x Hx. apply repeat_spec in Hx. subst. unfold is_byte. lia.
      * constructor; [unfold is_byte; lia|assumption].
Qed.

Lemma wrel_mono e1 e2 w R L k : e1 <= e2 -> wrel e1 w R L k -> wrel e2 w R L k.
Proof.
  unfold wrel. intros He (H1 & H2 & H3). split; [exact H1|]. split; [lia|exact H3].
Qed.

(** renormalisation step (shared by PutBit and PutBitUniform) *)
Lemma norm_rel shift_of w r1 v1 R1 L1 k t :
  wrel 8 (mkBw r1 v1 (bw_run w) (bw_nb w) (bw_buf w)) R1 L1 k ->
  norm_loop 8 R1 0 = (R1 * 2 ^ t, t) -> 0 <= t -> 128 <= R1 * 2 ^ t <= 255 ->
  (r1 < 127 -> shift_of r1 = t) ->
  wrel 8 (bw_norm shift_of r1 v1 w) (R1 * 2 ^ t) (L1 * 2 ^ t) (k + t).
Proof.
  intros Hrel Hn Ht HR2 Hshift. unfold bw_norm.
  pose proof Hrel as Hrel0.
  unfold wrel in Hrel. cbn [bw_range bw_value bw_run bw_nb bw_buf] in Hrel.
  destruct Hrel as (HR & He & Hrun & Hbytes & Hlast & Hv & HL & Hk & Hb & Ha & HRr).
  destruct (r1 <? 127) eqn:E127.
  - apply Z.ltb_lt in E127. rewrite (Hshift E127).
    assert (Hr1 : 0 <= r1 <= 126) by lia.
    destruct (knorm_spec r1 Hr1) as [Hkn Hkn2]. rewrite HR in Hkn. rewrite Hn in Hkn.
    apply pair_equal_spec in Hkn. destruct Hkn as [Hnr Hnt].
    assert (Ht7 : 1 <= t <= 7) by lia.
    set (w2 := mkBw (nth (Z.to_nat r1) kNewRange 0) (v1 * 2 ^ t) (bw_run w) (bw_nb w + t) (bw_buf w)).
    assert (Hw2 : wrel 15 w2 (R1 * 2 ^ t) (L1 * 2 ^ t) (k + t)).
    { unfold wrel, w2. cbn [bw_range bw_value bw_run bw_nb bw_buf].
      assert (Tp : 0 < 2 ^ t) by (apply Z.pow_pos_nonneg; lia).
      replace (bw_nb w + t + 8 + 8) with ((bw_nb w + 8 + 8) + t) by lia.
      replace (bw_nb w + t + 8) with ((bw_nb w + 8) + t) by lia.
      replace (k + t + 8) with ((k + 8) + t) by lia.
      rewrite (Z.pow_add_r 2 (bw_nb w + 8 + 8) t), (Z.pow_add_r 2 (bw_nb w + 8) t), (Z.pow_add_r 2 (k + 8) t) by lia.
      set (A := 2 ^ (bw_nb w + 8 + 8)) in *. set (B := 2 ^ (bw_nb w + 8)) in *.
      set (C := 2 ^ (k + 8)) in *. set (T := 2 ^ t) in *.
      split; [lia|]. split; [lia|]. split; [assumption|]. split; [assumption|]. split; [assumption|].
      split; [nia|]. split; [rewrite HL; ring|]. split; [lia|].
      split; [clear - Hb Tp; nia|]. split; [clear - Ha Tp; nia|]. lia. }
    destruct (0 <? bw_nb w2) eqn:Enb.
    + apply Z.ltb_lt in Enb. apply (wrel_mono 7 8); [lia|]. apply flush_rel; [exact Hw2|].
      unfold w2 in *. cbn [bw_nb] in *. lia.
    + apply Z.ltb_ge in Enb. unfold w2 in *. cbn [bw_nb] in Enb.
      destruct Hw2 as (G1 & G2 & G3). split; [exact G1|]. split; [|exact G3].
      cbn [bw_nb] in *. lia.
  - apply Z.ltb_ge in E127.
    assert (E0 : t = 0).
    { cbn [norm_loop] in Hn. assert (R1 <? 128 = false) by (apply Z.ltb_ge; lia).
      rewrite H in Hn. apply pair_equal_spec in Hn. destruct Hn as [_ Hn]. lia. }
    subst t. rewrite Z.pow_0_r, !Z.mul_1_r, Z.add_0_r. exact Hrel0.
Qed.

Theorem put_rel w R L k b p : wrel 8 w R L k -> 128 <= R <= 255 -> 0 <= p <= 255 ->
  let '(R2, L2, k2) := aput b p (R, L, k) in wrel 8 (bw_put b p w) R2 L2 k2.
Proof.
  intros Hrel HR Hp.
  destruct (aput_spec b p R L k HR Hp) as (t & Ht & Hput & Hn & HR1 & HR2). cbv zeta in *.
  rewrite Hput. pose proof (nsplit_bounds R p HR Hp) as Hs.
  unfold bw_put.
  unfold wrel in Hrel.
  destruct Hrel as (ER & He & Hrun & Hbytes & Hlast & Hv & HL & Hk & Hb & Ha & HRr).
  assert (Es : nsplit R p = bw_range w * p / 256 + 1).
  { unfold nsplit, bd_split. rewrite <- ER. replace (bw_range w + 1 - 1) with (bw_range w) by lia. lia. }
  set (sg := bw_range w * p / 256) in *.
  apply norm_rel; try assumption.
  - unfold wrel. cbn [bw_range bw_value bw_run bw_nb bw_buf].
    destruct b; repeat split; try assumption; try lia.
  - intros Hlt.
    destruct (knorm_spec (if b then bw_range w - (sg + 1) else sg)) as [Hkn _].
    { destruct b; lia. }
    replace ((if b then bw_range w - (sg + 1) else sg) + 1) with (if b then R - nsplit R p else nsplit R p) in Hkn
      by (destruct b; lia).
    rewrite Hn in Hkn. apply pair_equal_spec in Hkn. destruct Hkn as [_ Hkn]. symmetry. exact Hkn.
Qed.

(** * whole symbol sequences *)
Lemma init_rel : wrel 8 bw_init 255 0 0.
Proof. unfold wrel, bw_init. cbn. repeat split; try lia. constructor. Qed.

Lemma aput_le254 b p R L k : 128 <= R <= 255 -> 0 <= p <= 255 ->
  let '(R2, _, _) := aput b p (R, L, k) in 128 <= R2 <= 254.
Proof.
  intros HR Hp. destruct (aput_spec b p R L k HR Hp) as (t & Ht & Hput & Hn & HR1 & HR2). cbv zeta in *.
  rewrite Hput. pose proof (nsplit_bounds R p HR Hp) as Hs.
  destruct (Z.eq_dec t 0) as [->|Hne].
  - rewrite Z.pow_0_r, Z.mul_1_r in *. destruct b; lia.
  - assert (2 ^ t = 2 * 2 ^ (t - 1)) by (rewrite <- Z.pow_succ_r by lia; f_equal; lia). lia.
Qed.

Theorem encode_all_rel : forall ps w R L k, wrel 8 w R L k -> 128 <= R <= 255 -> probs_ok ps ->
  let '(Rf, Lf, kf) := aenc ps (R, L, k) in
  wrel 8 (bw_encode_all ps w) Rf Lf kf /\ 128 <= Rf <= 255 /\ (ps <> [] -> Rf <= 254).
Proof.
  induction ps as [|[b p] tl IH]; intros w R L k Hrel HR Hps; cbn [aenc bw_encode_all].
  - split; [exact Hrel|]. split; [exact HR|]. intros H. congruence.
  - pose proof (Forall_inv Hps) as Hp. cbn [snd] in Hp. pose proof (Forall_inv_tail Hps) as Htl.
    pose proof (put_rel w R L k b p Hrel HR Hp) as H1.
    pose proof (aput_le254 b p R L k HR Hp) as H2.
    destruct (aput b p (R, L, k)) as [[R1 L1] k1].
    specialize (IH (bw_put b p w) R1 L1 k1 H1 ltac:(lia) Htl).
    destruct (aenc tl (R1, L1, k1)) as [[Rf Lf] kf] eqn:Ea.
    destruct IH as (I1 & I2 & I3). split; [exact I1|]. split; [exact I2|]. intros _.
    destruct tl as [|x tl']; [cbn [aenc] in Ea; injection Ea as <- <- <-; lia|].
    apply I3. congruence.
Qed.

(** * Finish: 9 - nbBits zero bits, then one forced flush *)
Definition e_of (u : Z) : Z := if u <=? 8 then u else if u <=? 16 then u - 8 else u - 16.

(** state during the trailing zero bits: i zero bits written, u = (e at the start) + i *)
Definition zphase (w : bwst) (R L k i u : Z) : Prop :=
  wrel 8 w R L k /\ 128 <= R <= 254 /\ (2 ^ i | bw_value w) /\ bw_nb w + 8 = e_of u /\
  (9 <= u -> bw_value w < 2 ^ (bw_nb w + 16)) /\ 0 <= i /\ 0 <= u <= 17.

Lemma aput_zero R L k : 128 <= R <= 254 ->
  exists R', aput false 128 (R, L, k) = (R', L * 2, k + 1) /\ 128 <= R' <= 254.
Proof.
  intros HR.
  destruct (aput_spec false 128 R L k ltac:(lia) ltac:(lia)) as (t & Ht & Hput & Hn & HR1 & HR2). cbv zeta in *.
  assert (Hs : 64 <= nsplit R 128 <= 127) by (unfold nsplit, bd_split; Z.div_mod_to_equations; lia).
  assert (Et : t = 1).
  { destruct (Z.eq_dec t 0) as [->|H0]; [rewrite Z.pow_0_r in HR2; lia|].
    destruct (Z.eq_dec t 1) as [->|H1]; [reflexivity|].
    assert (4 <= 2 ^ t) by (change 4 with (2 ^ 2); apply Z.pow_le_mono_r; lia). nia. }
  subst t. change (2 ^ 1) with 2 in *. exists (nsplit R 128 * 2). split; [exact Hput|lia].
Qed.

Lemma uniform_eq_put b w R L k : wrel 8 w R L k -> 128 <= R <= 255 ->
  bw_put_uniform b w = bw_put b 128 w.
Proof.
  intros Hrel HR. destruct Hrel as (ER & _).
  assert (Hr : 127 <= bw_range w <= 254) by lia.
  pose proof (proj1 (forallb_forall _ _) uniform_sweep (bw_range w)
                (in_zrange 127 128 (bw_range w) ltac:(lia) ltac:(lia))) as Hx. cbv beta in Hx.
  pose proof (proj1 (forallb_forall _ _) Hx b ltac:(destruct b; cbn; auto)) as Hb. cbv beta zeta in Hb.
  apply andb_true_iff in Hb. destruct Hb as [Hs Hk]. apply Z.eqb_eq in Hs.
  unfold bw_put_uniform, bw_put. rewrite <- Hs.
  set (r1 := if b then bw_range w - (bw_range w / 2 + 1) else bw_range w / 2) in *.
  unfold bw_norm. destruct (r1 <? 127) eqn:E; [|reflexivity].
  apply Z.ltb_lt in E. apply orb_true_iff in Hk. destruct Hk as [Hk|Hk]; [apply Z.leb_le in Hk; lia|].
  apply Z.eqb_eq in Hk. rewrite Hk. reflexivity.
Qed.

Lemma flush_fields w : 0 <= 8 + bw_nb w ->
  bw_value (bw_flush w) = bw_value w mod 2 ^ (8 + bw_nb w) /\ bw_nb (bw_flush w) = bw_nb w - 8.
Proof.
  intros Hs. unfold bw_flush. cbv zeta.
  assert (Hp : 0 < 2 ^ (8 + bw_nb w)) by (apply Z.pow_pos_nonneg; lia).
  assert (E : bw_value w - bw_value w / 2 ^ (8 + bw_nb w) * 2 ^ (8 + bw_nb w) = bw_value w mod 2 ^ (8 + bw_nb w)).
  { rewrite Z.mod_eq by lia. ring. }
  destruct (bw_value w / 2 ^ (8 + bw_nb w) mod 256 =? 255); cbn [bw_value bw_nb]; rewrite E; split; reflexivity.
Qed.

Lemma zero_step w R L k i u : zphase w R L k i u -> u <= 16 ->
  exists R', zphase (bw_put_uniform false w) R' (L * 2) (k + 1) (i + 1) (u + 1).
Proof.
  intros (Hrel & HR & Hdiv & He & Hnc & Hi & Hu) Hu16.
  destruct (aput_zero R L k HR) as (R' & Ea & HR').
  pose proof (put_rel w R L k false 128 Hrel ltac:(lia) ltac:(lia)) as Hrel'. rewrite Ea in Hrel'.
  rewrite <- (uniform_eq_put false w R L k Hrel ltac:(lia)) in Hrel'.
  exists R'. split; [exact Hrel'|]. split; [exact HR'|].
  (* the fields of the new state *)
  pose proof Hrel as (ER & He8 & _ & _ & _ & Hv & _).
  assert (Hsp : 63 <= bw_range w / 2 <= 126) by (Z.div_mod_to_equations; lia).
  unfold bw_put_uniform, bw_norm. cbv zeta.
  assert (E127 : bw_range w / 2 <? 127 = true) by (apply Z.ltb_lt; lia). rewrite E127.
  cbn [bw_nb]. change (2 ^ 1) with 2.
  assert (Hd2 : (2 ^ (i + 1) | bw_value w * 2)).
  { rewrite Z.pow_add_r by lia. change (2 ^ 1) with 2. apply Z.mul_divide_mono_r. exact Hdiv. }
  destruct (0 <? bw_nb w + 1) eqn:Enb.
  - (* flush: e was 8 *)
    apply Z.ltb_lt in Enb. assert (Hnb0 : bw_nb w = 0) by lia.
    set (w2 := mkBw _ _ _ _ _).
    destruct (flush_fields w2) as [Fv Fn]; [unfold w2; cbn [bw_nb]; lia|].
    rewrite Fv, Fn. unfold w2. cbn [bw_value bw_nb]. rewrite Hnb0. change (2 ^ (8 + (0 + 1))) with 512.
    assert (Hu2 : u = 8 \/ u = 16).
    { unfold e_of in He. destruct (u <=? 8) eqn:E1; [apply Z.leb_le in E1; lia|].
      destruct (u <=? 16) eqn:E2; [apply Z.leb_le in E2; lia|]. apply Z.leb_gt in E2. lia. }
    split.
    { destruct (Z_le_gt_dec (i + 1) 9) as [Hle|Hgt].
      - rewrite Z.mod_eq by lia. apply Z.divide_sub_r; [exact Hd2|].
        apply Z.divide_mul_l. change 512 with (2 ^ 9).
        exists (2 ^ (9 - (i + 1))). rewrite <- Z.pow_add_r by lia. f_equal. lia.
      - assert (H512 : (512 | bw_value w * 2)).
        { eapply Z.divide_trans; [|exact Hd2]. change 512 with (2 ^ 9).
          exists (2 ^ (i + 1 - 9)). rewrite <- Z.pow_add_r by lia. f_equal. lia. }
        apply Z.mod_divide in H512; [|lia]. rewrite H512. apply Z.divide_0_r. }
    split.
    { unfold e_of. destruct Hu2 as [->| ->]; reflexivity. }
    split.
    { intros _. change (2 ^ (0 + 1 - 8 + 16)) with 512. apply Z.mod_pos_bound. lia. }
    lia.
  - apply Z.ltb_ge in Enb. cbn [bw_value bw_nb].
    split; [exact Hd2|].
    assert (Hu3 : u <> 8 /\ u <> 16).
    { unfold e_of in He. destruct (u <=? 8) eqn:E1; [apply Z.leb_le in E1; lia|].
      destruct (u <=? 16) eqn:E2; [apply Z.leb_le in E2; apply Z.leb_gt in E1; lia|]. apply Z.leb_gt in E2. lia. }
    split.
    { unfold e_of in *. destruct (u <=? 8) eqn:E1; destruct (u + 1 <=? 8) eqn:E1'; try lia.
      destruct (u <=? 16) eqn:E2; destruct (u + 1 <=? 16) eqn:E2'; lia. }
    split; [|lia].
    intros H9. assert (9 <= u) by lia. specialize (Hnc H).
    replace (bw_nb w + 1 + 16) with ((bw_nb w + 16) + 1) by lia.
    rewrite Z.pow_add_r by lia. change (2 ^ 1) with 2. lia.
Qed.

Lemma testbit0 m : Z.testbit 0 m = false.
Proof. apply Z.testbit_0_l. Qed.

Lemma zero_steps : forall n w R L k i u, zphase w R L k i u -> u + Z.of_nat n <= 17 ->
  exists R', zphase (bw_put_bits 0 n w) R' (L * 2 ^ Z.of_nat n) (k + Z.of_nat n) (i + Z.of_nat n) (u + Z.of_nat n).
Proof.
  induction n as [|n IH]; intros w R L k i u Hz Hn.
  - exists R. cbn [bw_put_bits]. change (Z.of_nat 0) with 0. rewrite Z.pow_0_r, Z.mul_1_r, !Z.add_0_r. exact Hz.
  - cbn [bw_put_bits]. rewrite testbit0.
    destruct (zero_step w R L k i u Hz ltac:(lia)) as (R1 & Hz1).
    destruct (IH _ R1 (L * 2) (k + 1) (i + 1) (u + 1) Hz1 ltac:(lia)) as (R2 & Hz2).
    exists R2. rewrite Nat2Z.inj_succ, Z.pow_succ_r by lia.
    replace (L * (2 * 2 ^ Z.of_nat n)) with (L * 2 * 2 ^ Z.of_nat n) by ring.
    replace (k + Z.succ (Z.of_nat n)) with (k + 1 + Z.of_nat n) by lia.
    replace (i + Z.succ (Z.of_nat n)) with (i + 1 + Z.of_nat n) by lia.
    replace (u + Z.succ (Z.of_nat n)) with (u + 1 + Z.of_nat n) by lia.
    exact Hz2.
Qed.

Lemma bval_snoc l b : bval (l ++ [b]) = bval l * 256 + b.
Proof.
  induction l as [|a tl IH]; cbn [app bval length].
  - cbn. lia.
  - rewrite IH, app_length. cbn [length]. rewrite Nat2Z.inj_add. change (Z.of_nat 1) with 1.
    replace (8 * (Z.of_nat (length tl) + 1)) with (8 * Z.of_nat (length tl) + 8) by lia.
    rewrite Z.pow_add_r by lia. change (2 ^ 8) with 256. ring.
Qed.

Lemma bval_rev l : bval (rev l) = ival l.
Proof.
  induction l as [|b tl IH]; cbn [rev ival]; [reflexivity|]. rewrite bval_snoc, IH. ring.
Qed.

(** The finished stream is exactly the low end L of the final interval, written out at
    scale J = 8 * (length - 1) >= k. *)
Theorem finish_value w R L k : wrel 8 w R L k -> 128 <= R <= 254 ->
  let out := bw_finish w in
  let J := 8 * (Z.of_nat (length out) - 1) in
  k + 8 <= J /\ bval out = L * 2 ^ (J - k) /\ (2 <= length out)%nat /\ Forall is_byte out.
Proof.
  intros Hrel HR.
  pose proof Hrel as (ER & He & Hrun & Hbytes & Hlast & Hv & HL & Hk & Hb & Ha & HRr).
  set (e0 := bw_nb w + 8) in *.
  assert (Hz0 : zphase w R L k 0 e0).
  { split; [exact Hrel|]. split; [exact HR|]. split; [apply Z.divide_1_l|].
    split; [unfold e_of; destruct (e0 <=? 8) eqn:E; [reflexivity|apply Z.leb_gt in E; lia]|].
    split; [intros; lia|]. lia. }
  set (n := Z.to_nat (9 - bw_nb w)).
  assert (Hn : Z.of_nat n = 17 - e0) by (unfold n, e0; rewrite Z2Nat.id by lia; lia).
  destruct (zero_steps n w R L k 0 e0 Hz0 ltac:(lia)) as (R1 & Hz1).
  rewrite Hn in Hz1. replace (e0 + (17 - e0)) with 17 in Hz1 by lia.
  destruct Hz1 as (Hrel1 & HR1 & Hdiv1 & He1 & Hnc1 & _ & _).
  unfold bw_finish. fold n. set (w1 := bw_put_bits 0 n w) in *.
  change (e_of 17) with 1 in He1.
  assert (Hnb1 : bw_nb w1 = -7) by lia.
  specialize (Hnc1 ltac:(lia)). rewrite Hnb1 in Hnc1. change (2 ^ (-7 + 16)) with 512 in Hnc1.
  pose proof Hrel1 as (ER1 & He1' & Hrun1 & Hbytes1 & Hlast1 & Hv1 & HL1 & Hk1 & _).
  assert (Hv0 : bw_value w1 = 0).
  { assert (H512 : (512 | bw_value w1)).
    { eapply Z.divide_trans; [|exact Hdiv1]. change 512 with (2 ^ 9).
      exists (2 ^ (0 + (17 - e0) - 9)). rewrite <- Z.pow_add_r by lia. f_equal. lia. }
    destruct H512 as [q Hq]. lia. }
  unfold bw_flush. cbn [bw_range bw_value bw_run bw_nb bw_buf]. rewrite Hv0.
  change (0 / 2 ^ (8 + 0)) with 0. change (0 mod 256 =? 255) with false. cbv iota.
  change (0 / 256 mod 2 =? 1) with false. cbv iota. cbn [bw_buf]. change (0 mod 256) with 0.
  set (l := 0 :: repeat 255 (Z.to_nat (bw_run w1)) ++ bw_buf w1).
  assert (Hlen : Z.of_nat (length (rev l)) = Z.of_nat (length (bw_buf w1)) + bw_run w1 + 1).
  { rewrite rev_length. unfold l. cbn [length]. rewrite app_length, repeat_length.
    rewrite Nat2Z.inj_succ, Nat2Z.inj_add, Z2Nat.id by lia. lia. }
  cbv zeta. rewrite Hlen, bval_rev.
  rewrite Hnb1 in Hk1, HL1. rewrite Hv0 in HL1.
  replace (-7 + 8 + 8) with 9 in HL1 by lia. change (2 ^ 9) with 512 in HL1.
  split; [lia|]. split.
  - unfold l. cbn [ival]. rewrite ival_repeat255, Z2Nat.id by lia.
    replace (8 * (Z.of_nat (length (bw_buf w1)) + bw_run w1 + 1 - 1) - k) with ((17 - e0) - 1) by lia.
    assert (E2 : 2 ^ (17 - e0) = 2 * 2 ^ (17 - e0 - 1)).
    { rewrite <- Z.pow_succ_r by lia. f_equal. lia. }
    rewrite E2 in HL1. rewrite Z.add_0_r in HL1.
    set (T := 2 ^ (17 - e0 - 1)) in *.
    replace (256 ^ bw_run w1 * (ival (bw_buf w1) + 1)) with ((ival (bw_buf w1) + 1) * 256 ^ bw_run w1) by ring.
    lia.
  - split.
    + assert (2 <= Z.of_nat (length (rev l))); [|lia]. rewrite Hlen.
      assert (0 <= Z.of_nat (length (bw_buf w1))) by lia.
      (* k >= 0 and 8*(len+run)+1 = k + 17 - e0 >= 9 *)
      assert (0 <= k) by (rewrite Hk; lia). lia.
    + apply Forall_rev. unfold l. constructor; [unfold is_byte; lia|]. apply Forall_app. split; [|exact Hbytes1].
      apply Forall_forall. intros x Hx. apply repeat_spec in Hx. subst. unfold is_byte. lia.
Qed.

(** * trailing zero bytes do not change what the RFC decoder reads (it reads zeros
    beyond the end of its input) *)
Definition same_upto_zeros (d d' : bdec) : Prop :=
  bd_value d = bd_value d' /\ bd_range d = bd_range d' /\ bd_count d = bd_count d' /\
  exists z, bd_rest d' = bd_rest d ++ repeat 0 z.

Lemma normalize_zeros : forall fuel v r c rest z pos pos',
  exists z2 p2 p2',
    let '(v1, r1, c1, rest1, _) := bd_normalize fuel v r c rest pos in
    bd_normalize fuel v r c (rest ++ repeat 0 z) pos' = (v1, r1, c1, rest1 ++ repeat 0 z2, p2') /\
    bd_normalize fuel v r c rest pos = (v1, r1, c1, rest1, p2).
Proof.
  induction fuel as [|f IH]; intros v r c rest z pos pos'; cbn [bd_normalize].
  - exists z, pos, pos'. split; reflexivity.
  - destruct (r <? 128).
    2:{ exists z, pos, pos'. split; reflexivity. }
    unfold bd_shift1. destruct (c + 1 =? 8).
    + destruct rest as [|b rest'].
      * destruct z as [|z']; cbn [app repeat].
        -- destruct (IH (v * 2 mod 65536) (r * 2) 0 [] 0%nat (pos + 1) (pos' + 1)) as (z2 & p2 & p2' & H).
           exists z2, p2, p2'. exact H.
        -- destruct (IH (v * 2 mod 65536) (r * 2) 0 [] z' (pos + 1) (pos' + 1)) as (z2 & p2 & p2' & H).
           exists z2, p2, p2'. rewrite Z.add_0_r. exact H.
      * cbn [app]. destruct (IH (v * 2 mod 65536 + b) (r * 2) 0 rest' z (pos + 1) (pos' + 1)) as (z2 & p2 & p2' & H).
        exists z2, p2, p2'. exact H.
    + destruct (IH (v * 2 mod 65536) (r * 2) (c + 1) rest z (pos + 1) (pos' + 1)) as (z2 & p2 & p2' & H).
      exists z2, p2, p2'. exact H.
Qed.

Lemma read_bool_zeros p d d' : same_upto_zeros d d' ->
  fst (read_bool p d) = fst (read_bool p d') /\ same_upto_zeros (snd (read_bool p d)) (snd (read_bool p d')).
Proof.
  intros (Ev & Er & Ec & z & Erest). unfold read_bool. rewrite <- Ev, <- Er, <- Ec, Erest.
  set (split := bd_split (bd_range d) p).
  destruct (split * 256 <=? bd_value d).
  - destruct (normalize_zeros 8 (bd_value d - split * 256) (bd_range d - split) (bd_count d) (bd_rest d) z
                (bd_pos d) (bd_pos d')) as (z2 & p2 & p2' & H).
    destruct (bd_normalize 8 (bd_value d - split * 256) (bd_range d - split) (bd_count d) (bd_rest d) (bd_pos d))
      as [[[[v1 r1] c1] rest1] p1].
    destruct H as [H1 H2]. rewrite H1. cbn [fst snd]. split; [reflexivity|].
    repeat split; cbn; try reflexivity. exists z2. reflexivity.
  - destruct (normalize_zeros 8 (bd_value d) split (bd_count d) (bd_rest d) z (bd_pos d) (bd_pos d'))
      as (z2 & p2 & p2' & H).
    destruct (bd_normalize 8 (bd_value d) split (bd_count d) (bd_rest d) (bd_pos d)) as [[[[v1 r1] c1] rest1] p1].
    destruct H as [H1 H2]. rewrite H1. cbn [fst snd]. split; [reflexivity|].
    repeat split; cbn; try reflexivity. exists z2. reflexivity.
Qed.

Lemma rfc_bits_zeros : forall probs d d', same_upto_zeros d d' -> rfc_bits probs d = rfc_bits probs d'.
Proof.
  induction probs as [|p tl IH]; intros d d' H; [reflexivity|]. cbn [rfc_bits].
  destruct (read_bool_zeros p d d' H) as [H1 H2].
  destruct (read_bool p d) as [b d1]. destruct (read_bool p d') as [b' d1']. cbn [fst snd] in *.
  subst b'. f_equal. apply IH. exact H2.
Qed.

Lemma bd_init_zeros a b rest z : same_upto_zeros (bd_init (a :: b :: rest)) (bd_init ((a :: b :: rest) ++ repeat 0 z)).
Proof. cbn [app bd_init]. repeat split; cbn; try reflexivity. exists z. reflexivity. Qed.

Lemma bval_app_zeros l z : bval (l ++ repeat 0 z) = bval l * 2 ^ (8 * Z.of_nat z).
Proof.
  induction z as [|z IH].
  - cbn [repeat]. rewrite app_nil_r. change (Z.of_nat 0) with 0. cbn. lia.
  - replace (repeat 0 (S z)) with (repeat 0 z ++ [0]) by (rewrite <- repeat_cons; reflexivity).
    rewrite app_assoc, bval_snoc, IH. rewrite Nat2Z.inj_succ.
    replace (8 * Z.succ (Z.of_nat z)) with (8 * Z.of_nat z + 8) by lia.
    rewrite Z.pow_add_r by lia. change (2 ^ 8) with 256. ring.
Qed.

(** * The round trip *)
Theorem bool_roundtrip : forall ps z, probs_ok ps ->
  rfc_bits (map snd ps) (bd_init (bool_encode ps ++ repeat 0 z)) = map fst ps.
Proof.
  intros ps z Hps.
  destruct ps as [|bp tl]; [reflexivity|]. set (ps := bp :: tl) in *.
  pose proof (encode_all_rel ps bw_init 255 0 0 init_rel ltac:(lia) Hps) as Henc.
  pose proof (abs_roundtrip ps 255 0 0 Hps ltac:(lia)) as Habs.
  destruct (aenc ps (255, 0, 0)) as [[Rf Lf] kf].
  destruct Henc as (Hrel & HRf & HRf2). specialize (HRf2 ltac:(unfold ps; congruence)).
  destruct Habs as (Hk0 & _ & Habs).
  unfold bool_encode.
  pose proof (finish_value (bw_encode_all ps bw_init) Rf Lf kf Hrel ltac:(lia)) as Hfin. cbv zeta in Hfin.
  set (out := bw_finish (bw_encode_all ps bw_init)) in *.
  destruct Hfin as (HkJ & Hval & Hlen & Hbytes).
  (* enough zeros for the refinement, then drop / add zeros freely *)
  set (zz := (length ps + 2)%nat).
  destruct out as [|a [|b rest]] eqn:Eout; [cbn in Hlen; lia|cbn in Hlen; lia|].
  transitivity (rfc_bits (map snd ps) (bd_init ((a :: b :: rest) ++ repeat 0 zz))).
  { rewrite <- (rfc_bits_zeros _ _ _ (bd_init_zeros a b rest z)).
    apply rfc_bits_zeros. apply bd_init_zeros. }
  set (J0 := 8 * (Z.of_nat (length (a :: b :: rest)) - 1)) in *.
  set (J := J0 + 8 * Z.of_nat zz).
  set (X := bval ((a :: b :: rest) ++ repeat 0 zz)).
  assert (EX : X = Lf * 2 ^ (J - kf)).
  { unfold X. rewrite bval_app_zeros, Hval. rewrite <- Z.mul_assoc, <- Z.pow_add_r by lia. f_equal. f_equal. unfold J. lia. }
  assert (HP : 0 < 2 ^ (J - kf)) by (apply Z.pow_pos_nonneg; unfold J; lia).
  destruct (Habs J X ltac:(unfold J; lia) ltac:(rewrite EX; nia)) as [Hin Hdec].
  rewrite Z.mul_0_l, Z.sub_0_r, Z.add_0_l in *.
  rewrite <- Hdec.
  pose proof (Forall_inv Hbytes) as Ha. pose proof (Forall_inv (Forall_inv_tail Hbytes)) as Hb.
  pose proof (Forall_inv_tail (Forall_inv_tail Hbytes)) as Hr.
  assert (Hr2 : Forall is_byte (rest ++ repeat 0 zz)).
  { apply Forall_app. split; [exact Hr|]. apply Forall_forall. intros x Hx. apply repeat_spec in Hx. subst. unfold is_byte. lia. }
  assert (EJ : 8 * Z.of_nat (length (rest ++ repeat 0 zz)) + 8 = J).
  { rewrite app_length, repeat_length, Nat2Z.inj_add. unfold J, J0. cbn [length]. rewrite !Nat2Z.inj_succ. lia. }
  change ((a :: b :: rest) ++ repeat 0 zz) with (a :: b :: (rest ++ repeat 0 zz)) in *.
  destruct (bd_init_rel a b (rest ++ repeat 0 zz) Ha Hb Hr2) as [Hrel0 HX0].
  { rewrite EJ. fold X. lia. }
  rewrite EJ in Hrel0. fold X in Hrel0, HX0.
  replace (J - 0) with J by lia.
  apply rfc_refines_abs; try assumption; try lia.
  - clear - Hps. unfold probs_ok in Hps. induction Hps; cbn [map]; constructor; assumption.
  - rewrite map_length. unfold J, zz. rewrite Nat2Z.inj_add. unfold J0. cbn [length]. rewrite !Nat2Z.inj_succ. lia.
Qed.
