(** getCoeffsInline (internal/lossy/decode_mb.go) as the Go code runs it - reader state
    hoisted into locals, "if brB < 0 { brLoad }" before every inlined fastBit / fastSigned,
    the unrolled value tree, the kCat3456 extra-bit loop with its 0 terminator, bands[n+1]
    prefetched - proved equal to the token-tree reader Vp8Syntax.tokens on the RFC 6386
    decoder, for every pair of reader states that describe the same stream position with
    enough look-ahead. *)
From Coq Require Import List ZArith Lia Bool.
From WebpGen Require Tables.
From Webp Require Import Vp8.Vp8Bool Vp8.Vp8BoolAbs Vp8.Vp8GoReader Vp8.Vp8Tables Vp8.Vp8Syntax.
Import ListNotations.
Open Scope Z_scope.

(** * the two readers at the same stream position; k further reads are guaranteed *)
Definition both (k : nat) (g : greader) (d : bdec) : Prop :=
  exists R D j, grel g R D j /\ drel (bd_value d) (bd_range d) (bd_count d) (bd_rest d) R D j /\
    128 <= R <= 255 /\ 16 + 7 * Z.of_nat k <= j.
Definition both1 (k : nat) (g : greader) (d : bdec) : Prop :=
  exists R D j, grel g R D j /\ drel (bd_value d) (bd_range d) (bd_count d) (bd_rest d) R D j /\
    128 <= R <= 254 /\ 16 + 7 * Z.of_nat k <= j.

Lemma both1_both k g d : both1 k g d -> both k g d.
Proof. intros (R & D & j & H1 & H2 & H3 & H4). exists R, D, j. split; [exact H1|]. split; [exact H2|]. split; lia. Qed.

Lemma both1_le k k' g d : (k' <= k)%nat -> both1 k g d -> both1 k' g d.
Proof. intros Hk (R & D & j & H1 & H2 & H3 & H4). exists R, D, j. split; [exact H1|]. split; [exact H2|]. split; lia. Qed.

Lemma bit_step k g d p : both (S k) g d -> 0 <= p <= 255 ->
  exists b g' d', gr_bit p g = (b, g') /\ read_bool p d = (b, d') /\ both1 k g' d'.
Proof.
  intros (R & D & j & Hg & Hd & HR & Hj) Hp.
  pose proof (gr_bit_refines g R D j p Hg HR Hp ltac:(lia)) as H1.
  pose proof Hg as (_ & _ & _ & _ & _ & _ & HD & _).
  pose proof (read_bool_refines d R D j p Hd ltac:(lia) HR Hp) as H2.
  destruct (aget p (R, D, j)) as [b [[R2 D2] j2]].
  destruct H1 as (g' & E1 & G1 & G2 & G3).
  destruct (H2 ltac:(lia)) as (d' & E2 & G4 & _).
  exists b, g', d'. split; [exact E1|]. split; [exact E2|].
  exists R2, D2, j2. split; [exact G1|]. split; [exact G4|]. split; lia.
Qed.

Lemma sign_step k g d : both1 (S k) g d ->
  exists b g' d', gr_signed g = (b, g') /\ read_flag d = (b, d') /\ both1 k g' d'.
Proof.
  intros (R & D & j & Hg & Hd & HR & Hj).
  pose proof (gr_signed_refines g R D j Hg HR ltac:(lia)) as H1.
  pose proof Hg as (_ & _ & _ & _ & _ & _ & HD & _).
  pose proof (read_bool_refines d R D j 128 Hd ltac:(lia) ltac:(lia) ltac:(lia)) as H2.
  destruct (aget 128 (R, D, j)) as [b [[R2 D2] j2]].
  destruct H1 as (g' & E1 & G1 & G2 & G3).
  destruct (H2 ltac:(lia)) as (d' & E2 & G4 & _).
  exists b, g', d'. split; [exact E1|]. split; [exact E2|].
  exists R2, D2, j2. split; [exact G1|]. split; [exact G4|]. split; lia.
Qed.

(** * the Go reader's control structure *)
Definition gbands : list Z := WebpGen.Tables.lossy_KBands.
Definition bandp (tp : list (list (list Z))) (n ctx : Z) : list Z := nthZ (nthZ tp (nthZ gbands n 0) []) ctx [].

Definition b2z (b : bool) : Z := if b then 1 else 0.

(** for _, tabProb := range kCat3456[cat] { if tabProb == 0 { break }; v = v + v + bit } *)
Fixpoint go_cat_bits (tab : list Z) (v : Z) (g : greader) : Z * greader :=
  match tab with
  | [] => (v, g)
  | t :: tl => if t =? 0 then (v, g)
               else let '(b, g1) := gr_bit t g in go_cat_bits tl (v + v + b2z b) g1
  end.

Definition kCat3456 (cat : Z) : list Z :=
  if cat =? 0 then WebpGen.Tables.lossy_KCat3 else if cat =? 1 then WebpGen.Tables.lossy_KCat4
  else if cat =? 2 then WebpGen.Tables.lossy_KCat5 else WebpGen.Tables.lossy_KCat6.

(** from "bit(p[2])" to the magnitude v *)
Definition go_large (p : list Z) (g : greader) : Z * greader :=
  let pr i := nth i p 0 in
  let '(b2, g) := gr_bit (pr 2%nat) g in
  if negb b2 then (1, g) else
  let '(b3, g) := gr_bit (pr 3%nat) g in
  if negb b3 then
    let '(b4, g) := gr_bit (pr 4%nat) g in
    if negb b4 then (2, g) else
    let '(b5, g) := gr_bit (pr 5%nat) g in (3 + b2z b5, g)
  else
    let '(b6, g) := gr_bit (pr 6%nat) g in
    if negb b6 then
      let '(b7, g) := gr_bit (pr 7%nat) g in
      if negb b7 then
        let '(b, g) := gr_bit 159 g in (5 + b2z b, g)
      else
        let '(ba, g) := gr_bit 165 g in
        let '(bb, g) := gr_bit 145 g in (7 + 2 * b2z ba + b2z bb, g)
    else
      let '(bit1, g) := gr_bit (pr 8%nat) g in
      let '(bit0, g) := gr_bit (pr (9 + (if bit1 then 1 else 0))%nat) g in
      let cat := 2 * b2z bit1 + b2z bit0 in
      let '(v, g) := go_cat_bits (kCat3456 cat) 0 g in
      (v + 3 + 8 * 2 ^ cat, g).

(** the loop of getCoeffsInline; [acc] = the (position, signed value) pairs written so far *)
Fixpoint go_coeffs (fuel : nat) (tp : list (list (list Z))) (n : Z) (p : list Z) (skip_eob : bool)
  (g : greader) (acc : list (Z * Z)) : list (Z * Z) * Z * greader :=
  match fuel with
  | O => (acc, n, g)
  | S f =>
    let '(more, g1) := if skip_eob then (true, g) else gr_bit (nth 0 p 0) g in
    if negb more then (acc, n, g1) else
    let '(nz, g2) := gr_bit (nth 1 p 0) g1 in
    if negb nz then
      if n + 1 =? 16 then (acc, 16, g2) else go_coeffs f tp (n + 1) (bandp tp (n + 1) 0) true g2 acc
    else
      let '(v, g3) := go_large p g2 in
      let '(neg, g4) := gr_signed g3 in
      let acc' := (n, if neg then - v else v) :: acc in
      if n + 1 <? 16 then go_coeffs f tp (n + 1) (bandp tp (n + 1) (if v =? 1 then 1 else 2)) false g4 acc'
      else (acc', 16, g4)
  end.

(** getCoeffsInline(br, bands, ctx, dq0, dq1, n, out): returns the end-of-block position; the
    writes out[KZigzag[n]] = int16(sv * dq) give the dequantised block *)
Definition go_get_coeffs (tp : list (list (list Z))) (first ctx dqdc dqac : Z) (g : greader) : list Z * Z * greader :=
  let '(acc, eob, g') := go_coeffs 17 tp first (bandp tp first ctx) false g [] in
  (dequant_block acc dqdc dqac, eob, g').

Definition tp_ok (tp : list (list (list Z))) : Prop :=
  forall n ctx i, 0 <= nth i (bandp tp n ctx) 0 <= 255.

(** * equivalence *)
Lemma cat_bits_eq : forall ps v k g d, Forall (fun t => 1 <= t <= 255) ps ->
  both1 (length ps + k) g d ->
  exists v' g' d', go_cat_bits (ps ++ [0]) v g = (v', g') /\ read_extra ps v d = (v', d') /\ both1 k g' d'.
Proof.
  induction ps as [|t tl IH]; intros v k g d Hps H; cbn [app go_cat_bits read_extra length] in *.
  - exists v, g, d. split; [reflexivity|]. split; [reflexivity|exact H].
  - pose proof (Forall_inv Hps) as Ht. cbv beta in Ht. assert (E0 : t =? 0 = false) by (apply Z.eqb_neq; lia). rewrite E0.
    destruct (bit_step _ g d t (both1_both _ _ _ H) ltac:(lia)) as (b & g1 & d1 & E1 & E2 & H1).
    rewrite E1, E2.
    destruct (IH (v + v + b2z b) k g1 d1 (Forall_inv_tail Hps) H1) as (v' & g' & d' & G1 & G2 & G3).
    exists v', g', d'. split; [exact G1|]. split; [|exact G3].
    replace (2 * v + (if b then 1 else 0)) with (v + v + b2z b) by (unfold b2z; destruct b; lia). exact G2.
Qed.

Definition rfc_large (p : list Z) (d : bdec) : Z * bdec :=
  let '((base, extra), d1) := read_tree value_tree p d in
  let '(e, d2) := read_extra extra 0 d1 in (base + e, d2).

Ltac bstep H p Hp b g1 d1 H1 :=
  let E1 := fresh "E" in let E2 := fresh "E" in
  destruct (bit_step _ _ _ p (both1_both _ _ _ H) Hp) as (b & g1 & d1 & E1 & E2 & H1);
  rewrite E1; cbn [read_tree]; rewrite E2; cbn [negb].

Lemma pcat_ok : Forall (fun t => 1 <= t <= 255) pcat3 /\ Forall (fun t => 1 <= t <= 255) pcat4 /\
  Forall (fun t => 1 <= t <= 255) pcat5 /\ Forall (fun t => 1 <= t <= 255) pcat6.
Proof. repeat split; repeat constructor; lia. Qed.

Lemma large_eq p k g d : (forall i, 0 <= nth i p 0 <= 255) -> both1 (18 + k) g d ->
  exists v g' d', go_large p g = (v, g') /\ rfc_large p d = (v, d') /\ both1 k g' d'.
Proof.
  intros Hp H. unfold go_large, rfc_large, value_tree. cbv zeta.
  bstep H (nth 2 p 0) (Hp 2%nat) b2 g1 d1 H1. destruct b2; cbn [negb].
  2:{ cbn [read_extra]. exists 1, g1, d1. split; [reflexivity|]. split; [reflexivity|]. eapply both1_le; [|exact H1]. lia. }
  bstep H1 (nth 3 p 0) (Hp 3%nat) b3 g2 d2 H2. destruct b3; cbn [negb].
  2:{ bstep H2 (nth 4 p 0) (Hp 4%nat) b4 g3 d3 H3. destruct b4; cbn [negb].
      2:{ cbn [read_extra]. exists 2, g3, d3. split; [reflexivity|]. split; [reflexivity|]. eapply both1_le; [|exact H3]. lia. }
      bstep H3 (nth 5 p 0) (Hp 5%nat) b5 g4 d4 H4.
      destruct b5; cbn [read_extra b2z]; eexists _, g4, d4; (split; [reflexivity|]); (split; [reflexivity|]);
        (eapply both1_le; [|exact H4]; lia). }
  bstep H2 (nth 6 p 0) (Hp 6%nat) b6 g3 d3 H3. destruct b6; cbn [negb].
  2:{ bstep H3 (nth 7 p 0) (Hp 7%nat) b7 g4 d4 H4. destruct b7; cbn [negb].
      - (* cat2: 165, 145 *)
        unfold pcat2. cbn [read_extra].
        destruct (bit_step _ g4 d4 165 (both1_both _ _ _ H4) ltac:(lia)) as (ba & g5 & d5 & EA & EB & H5). rewrite EA, EB.
        destruct (bit_step _ g5 d5 145 (both1_both _ _ _ H5) ltac:(lia)) as (bb & g6 & d6 & EC & ED & H6). rewrite EC, ED.
        eexists _, g6, d6. split; [reflexivity|]. split; [|eapply both1_le; [|exact H6]; lia].
        unfold b2z; destruct ba, bb; reflexivity.
      - (* cat1: 159 *)
        unfold pcat1. cbn [read_extra].
        destruct (bit_step _ g4 d4 159 (both1_both _ _ _ H4) ltac:(lia)) as (ba & g5 & d5 & EA & EB & H5). rewrite EA, EB.
        eexists _, g5, d5. split; [reflexivity|]. split; [|eapply both1_le; [|exact H5]; lia].
        unfold b2z; destruct ba; reflexivity. }
  (* cat3..cat6 *)
  bstep H3 (nth 8 p 0) (Hp 8%nat) b8 g4 d4 H4.
  destruct pcat_ok as (P3 & P4 & P5 & P6).
  destruct b8; cbn [negb Nat.add].
  - bstep H4 (nth 10 p 0) (Hp 10%nat) b9 g5 d5 H5.
    destruct b9; cbn [b2z].
    + change (kCat3456 (2 * 1 + 1)) with (pcat6 ++ [0]).
      destruct (cat_bits_eq pcat6 0 (2 + k) g5 d5 P6 H5) as (v' & g' & d' & G1 & G2 & G3). rewrite G1, G2.
      eexists _, g', d'. split; [reflexivity|]. split; [f_equal; change (2 ^ (2 * 1 + 1)) with 8; lia|].
      eapply both1_le; [|exact G3]; lia.
    + change (kCat3456 (2 * 1 + 0)) with (pcat5 ++ [0]).
      destruct (cat_bits_eq pcat5 0 (8 + k) g5 d5 P5 H5) as (v' & g' & d' & G1 & G2 & G3). rewrite G1, G2.
      eexists _, g', d'. split; [reflexivity|]. split; [f_equal; change (2 ^ (2 * 1 + 0)) with 4; lia|].
      eapply both1_le; [|exact G3]; lia.
  - bstep H4 (nth 9 p 0) (Hp 9%nat) b9 g5 d5 H5.
    destruct b9; cbn [b2z].
    + change (kCat3456 (2 * 0 + 1)) with (pcat4 ++ [0]).
      destruct (cat_bits_eq pcat4 0 (9 + k) g5 d5 P4 H5) as (v' & g' & d' & G1 & G2 & G3). rewrite G1, G2.
      eexists _, g', d'. split; [reflexivity|]. split; [f_equal; change (2 ^ (2 * 0 + 1)) with 2; lia|].
      eapply both1_le; [|exact G3]; lia.
    + change (kCat3456 (2 * 0 + 0)) with (pcat3 ++ [0]).
      destruct (cat_bits_eq pcat3 0 (10 + k) g5 d5 P3 H5) as (v' & g' & d' & G1 & G2 & G3). rewrite G1, G2.
      eexists _, g', d'. split; [reflexivity|]. split; [f_equal; change (2 ^ (2 * 0 + 0)) with 1; lia|].
      eapply both1_le; [|exact G3]; lia.
Qed.

Lemma both_le k k' g d : (k' <= k)%nat -> both k g d -> both k' g d.
Proof. intros Hk (R & D & j & H1 & H2 & H3 & H4). exists R, D, j. split; [exact H1|]. split; [exact H2|]. split; lia. Qed.

Lemma bandp_bands tp n ctx : bandp tp n ctx = nthZ (nthZ tp (nthZ bands n 0) []) ctx [].
Proof. reflexivity. Qed.

Theorem go_coeffs_eq tp : tp_ok tp -> forall fuel n ctx noeob g d acc, 0 <= n < 16 ->
  both (21 * fuel) g d ->
  exists acc' eob g' d',
    go_coeffs fuel tp n (bandp tp n ctx) noeob g acc = (acc', eob, g') /\
    tokens fuel tp n ctx noeob d acc = (acc', eob, d') /\ both 0 g' d'.
Proof.
  intros Htp. induction fuel as [|f IH]; intros n ctx noeob g d acc Hn H.
  - cbn [go_coeffs tokens]. exists acc, n, g, d. split; [reflexivity|]. split; [reflexivity|exact H].
  - cbn [go_coeffs tokens].
    assert (E16 : 16 <=? n = false) by (apply Z.leb_gt; lia). rewrite E16.
    rewrite <- bandp_bands. set (p := bandp tp n ctx).
    assert (Hp : forall i, 0 <= nth i p 0 <= 255) by (intros i; apply Htp).
    replace (21 * S f)%nat with (21 + 21 * f)%nat in H by lia.
    (* end-of-block check *)
    assert (H0 : exists more g1 d1,
               (if noeob then (true, g) else gr_bit (nth 0 p 0) g) = (more, g1) /\
               (if noeob then (true, d) else read_bool (nth 0 p 0) d) = (more, d1) /\
               both (20 + 21 * f) g1 d1).
    { destruct noeob.
      - exists true, g, d. split; [reflexivity|]. split; [reflexivity|].
        eapply both_le; [|exact H]. lia.
      - destruct (bit_step _ g d (nth 0 p 0) H (Hp 0%nat)) as (b & g1 & d1 & E1 & E2 & H1).
        exists b, g1, d1. split; [exact E1|]. split; [exact E2|]. apply both1_both. exact H1. }
    destruct H0 as (more & g1 & d1 & E1 & E2 & H1). rewrite E1, E2.
    destruct more; cbn [negb].
    2:{ exists acc, n, g1, d1. split; [reflexivity|]. split; [reflexivity|].
        eapply both_le; [|exact H1]. lia. }
    destruct (bit_step _ g1 d1 (nth 1 p 0) H1 (Hp 1%nat)) as (nz & g2 & d2 & E3 & E4 & H2). rewrite E3, E4.
    destruct nz; cbn [negb].
    + (* a value *)
      destruct (large_eq p (1 + 21 * f) g2 d2 Hp H2) as (v & g3 & d3 & E5 & E6 & H3). rewrite E5.
      unfold rfc_large in E6.
      destruct (read_tree value_tree p d2) as [[base extra] dx]. destruct (read_extra extra 0 dx) as [e dy].
      injection E6 as Ev Ed. subst dy. rewrite Ev.
      destruct (sign_step _ g3 d3 H3) as (neg & g4 & d4 & E7 & E8 & H4). rewrite E7, E8.
      destruct (n + 1 <? 16) eqn:En.
      * apply Z.ltb_lt in En.
        destruct (IH (n + 1) (if v =? 1 then 1 else 2) false g4 d4 ((n, if neg then - v else v) :: acc)
                    ltac:(lia) (both1_both _ _ _ H4)) as (acc' & eob & g' & d' & G1 & G2 & G3).
        exists acc', eob, g', d'. split; [exact G1|]. split; [exact G2|exact G3].
      * apply Z.ltb_ge in En. assert (n = 15) by lia. subst n.
        exists ((15, if neg then - v else v) :: acc), 16, g4, d4. split; [reflexivity|].
        split.
        { destruct f; cbn [tokens]; reflexivity. }
        apply both1_both. eapply both1_le; [|exact H4]. lia.
    + (* a zero *)
      destruct (n + 1 =? 16) eqn:En.
      * apply Z.eqb_eq in En. assert (n = 15) by lia. subst n.
        exists acc, 16, g2, d2. split; [reflexivity|]. split.
        { destruct f; cbn [tokens]; reflexivity. }
        apply both1_both. eapply both1_le; [|exact H2]. lia.
      * apply Z.eqb_neq in En.
        destruct (IH (n + 1) 0 true g2 d2 acc ltac:(lia)) as (acc' & eob & g' & d' & G1 & G2 & G3).
        { apply both1_both. eapply both1_le; [|exact H2]. lia. }
        exists acc', eob, g', d'. split; [exact G1|]. split; [exact G2|exact G3].
Qed.

(** getCoeffsInline = the specification's block reader, on the dequantised block, the end-of-block
    position and the reader position, for every block type, start position and context *)
Theorem inline_coeffs_eq_lookahead tp first ctx dqdc dqac g d : tp_ok tp -> 0 <= first < 16 ->
  both 357 g d ->
  exists g' d', go_get_coeffs tp first ctx dqdc dqac g = (fst (fst (decode_block tp first ctx dqdc dqac d)),
                                                          snd (fst (decode_block tp first ctx dqdc dqac d)), g') /\
    snd (decode_block tp first ctx dqdc dqac d) = d' /\ both 0 g' d'.
Proof.
  intros Htp Hf H. unfold go_get_coeffs, decode_block.
  destruct (go_coeffs_eq tp Htp 17 first ctx false g d [] Hf H) as (acc' & eob & g' & d' & G1 & G2 & G3).
  rewrite G1, G2. cbn [fst snd]. exists g', d'. split; [reflexivity|]. split; [reflexivity|exact G3].
Qed.
