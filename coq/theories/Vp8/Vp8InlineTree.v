(** getCoeffsInline = the specification's token reader, for EVERY reader state: either the Go
    reader raises its end-of-input flag while reading the block (decodeMB then rejects the frame)
    or it returns the specification's block, end-of-block position and stream position.
    Both readers are presented as interpreters of one decision tree of reads. *)
From Coq Require Import List ZArith Lia Bool.
From Webp Require Import Vp8.Vp8Bool Vp8.Vp8BoolAbs Vp8.Vp8BoolEnc Vp8.Vp8GoReader Vp8.Vp8Tables Vp8.Vp8Syntax
  Vp8.Vp8InlineCoeffs Riff.PrefixBitio.
Import ListNotations.
Open Scope Z_scope.

(** * decision trees of reads *)
Inductive rtree (A : Type) : Type :=
| Ret (a : A)
| Rd (p : Z) (k : bool -> rtree A)      (* a bool at probability p *)
| Sg (k : bool -> rtree A).             (* a sign: GetSigned / read_flag *)
Arguments Ret {A} a.
Arguments Rd {A} p k.
Arguments Sg {A} k.

Fixpoint bindt {A B} (t : rtree A) (f : A -> rtree B) : rtree B :=
  match t with
  | Ret a => f a
  | Rd p k => Rd p (fun b => bindt (k b) f)
  | Sg k => Sg (fun b => bindt (k b) f)
  end.

Fixpoint run_go {A} (t : rtree A) (g : greader) : A * greader :=
  match t with
  | Ret a => (a, g)
  | Rd p k => let '(b, g1) := gr_bit p g in run_go (k b) g1
  | Sg k => let '(b, g1) := gr_signed g in run_go (k b) g1
  end.

Fixpoint run_rfc {A} (t : rtree A) (d : bdec) : A * bdec :=
  match t with
  | Ret a => (a, d)
  | Rd p k => let '(b, d1) := read_bool p d in run_rfc (k b) d1
  | Sg k => let '(b, d1) := read_flag d in run_rfc (k b) d1
  end.

Lemma run_go_bind {A B} (t : rtree A) (f : A -> rtree B) : forall g,
  run_go (bindt t f) g = let '(a, g1) := run_go t g in run_go (f a) g1.
Proof.
  induction t as [a|p k IH|k IH]; intros g; cbn [bindt run_go]; [reflexivity| |].
  - destruct (gr_bit p g) as [b g1]. apply IH.
  - destruct (gr_signed g) as [b g1]. apply IH.
Qed.

Lemma run_rfc_bind {A B} (t : rtree A) (f : A -> rtree B) : forall d,
  run_rfc (bindt t f) d = let '(a, d1) := run_rfc t d in run_rfc (f a) d1.
Proof.
  induction t as [a|p k IH|k IH]; intros d; cbn [bindt run_rfc]; [reflexivity| |].
  - destruct (read_bool p d) as [b d1]. apply IH.
  - destruct (read_flag d) as [b d1]. apply IH.
Qed.

(** probabilities are bytes; a sign is never the first read of a tree that may start in the
    initial reader state *)
Fixpoint tree_ok {A} (fresh : bool) (t : rtree A) : Prop :=
  match t with
  | Ret _ => True
  | Rd p k => 0 <= p <= 255 /\ forall b, tree_ok false (k b)
  | Sg k => fresh = false /\ forall b, tree_ok false (k b)
  end.

(** * the two readers at the same position of the same data (the abstract decoder runs over the
    data followed by three zero bytes; the RFC decoder reads zeros there anyway) *)
Definition bothp (fresh : bool) (g : greader) (d : bdec) : Prop :=
  exists R D j dp, grel (pad3 g) R D j /\ same_upto_zeros d dp /\
    drel (bd_value dp) (bd_range dp) (bd_count dp) (bd_rest dp) R D j /\
    128 <= R <= (if fresh then 255 else 254).

Lemma bothp_weaken g d : bothp false g d -> bothp true g d.
Proof. intros (R & D & j & dp & H1 & H2 & H3 & H4). exists R, D, j, dp. split; [exact H1|]. split; [exact H2|]. split; [exact H3|]. cbn in *. lia. Qed.

Lemma gr_load_range g : gr_range (gr_load g) = gr_range g.
Proof.
  unfold gr_load. destruct (8 <=? length (gr_rest g))%nat; [reflexivity|].
  destruct (gr_rest g); [destruct (gr_eof g)|]; reflexivity.
Qed.

Lemma gr_signed_eq_bit g : 127 <= gr_range g <= 253 -> gr_signed g = gr_bit 128 g.
Proof.
  intros H. unfold gr_signed, gr_bit. apply gr_fast_signed_eq.
  destruct (gr_bits g <? 0); [rewrite gr_load_range|]; exact H.
Qed.

Lemma bit_stepp fresh g d p : bothp fresh g d -> 0 <= p <= 255 ->
  gr_eof (snd (gr_bit p g)) = false ->
  exists d1, read_bool p d = (fst (gr_bit p g), d1) /\ bothp false (snd (gr_bit p g)) d1.
Proof.
  intros (R & D & j & dp & Hg & Hz & Hd & HR) Hp Heof.
  assert (HR' : 128 <= R <= 255) by (destruct fresh; lia).
  rewrite gr_bit_eof in Heof. apply orb_false_iff in Heof. destruct Heof as [_ Hno].
  destruct (bit_pad g R D j p Hg HR' Hp Hno) as (g1 & E1 & H1).
  pose proof (no_eof_j g R D j Hg Hno) as Hj.
  pose proof Hg as (_ & _ & _ & _ & _ & _ & HD & _).
  pose proof (read_bool_refines dp R D j p Hd ltac:(lia) HR' Hp) as H2.
  pose proof (read_bool_zeros p d dp Hz) as [Hb Hz2].
  destruct (aget p (R, D, j)) as [b [[R2 D2] j2]] eqn:Ea. cbn [fst snd] in E1, H1.
  destruct H1 as [G1 G2].
  assert (Hj2 : j - 7 <= j2).
  { unfold aget in Ea. pose proof (nsplit_bounds R p HR' Hp) as Hs.
    set (R1 := if nsplit R p * 2 ^ j <=? D then R - nsplit R p else nsplit R p) in *.
    assert (HR1 : 1 <= R1 <= 255) by (unfold R1; destruct (nsplit R p * 2 ^ j <=? D); lia).
    pose proof (proj2 (norm_range R1 HR1)) as Hsh.
    destruct (norm_loop 8 R1 0) as [r2 sh]. cbn [snd] in Hsh. injection Ea as _ _ _ <-. lia. }
  destruct (H2 ltac:(lia)) as (dp' & E2 & G3 & _).
  rewrite E1. cbn [fst snd].
  destruct (read_bool p d) as [b' d1] eqn:Ed. rewrite E2 in Hb, Hz2. cbn [fst snd] in Hb, Hz2. subst b'.
  exists d1. split; [reflexivity|].
  exists R2, D2, j2, dp'. split; [exact G1|]. split; [exact Hz2|]. split; [exact G3|]. cbn. lia.
Qed.

Lemma gr_fast_signed_fields g :
  gr_eof (snd (gr_fast_signed g)) = gr_eof g /\ gr_rest (snd (gr_fast_signed g)) = gr_rest g.
Proof. unfold gr_fast_signed. cbn [snd gr_eof gr_rest]. auto. Qed.

Lemma gr_signed_eof g : gr_eof (snd (gr_signed g)) = gr_eof g || ((gr_bits g <? 0) && is_nil (gr_rest g)).
Proof.
  unfold gr_signed. rewrite (proj1 (gr_fast_signed_fields _)).
  destruct (gr_bits g <? 0); cbn [andb]; [apply gr_load_eof|rewrite orb_false_r; reflexivity].
Qed.

Lemma run_go_eof_mono {A} (t : rtree A) : forall g, gr_eof g = true -> gr_eof (snd (run_go t g)) = true.
Proof.
  induction t as [a|p k IH|k IH]; intros g H; cbn [run_go]; [exact H| |].
  - pose proof (gr_bit_eof p g) as E. destruct (gr_bit p g) as [b g1]. cbn [snd] in E. apply IH. rewrite E, H. reflexivity.
  - pose proof (gr_signed_eof g) as E. destruct (gr_signed g) as [b g1]. cbn [snd] in E. apply IH. rewrite E, H. reflexivity.
Qed.

(** the interpreters agree on every tree, from every pair of related reader states, unless the Go
    reader runs out of data *)
Theorem tree_eq {A} (t : rtree A) : forall fresh g d, tree_ok fresh t -> bothp fresh g d ->
  gr_eof (snd (run_go t g)) = false ->
  exists d', run_rfc t d = (fst (run_go t g), d') /\ bothp true (snd (run_go t g)) d'.
Proof.
  induction t as [a|p k IH|k IH]; intros fresh g d Hok Hb Heof; cbn [run_go run_rfc] in *.
  - exists d. split; [reflexivity|]. destruct fresh; [exact Hb|apply bothp_weaken; exact Hb].
  - destruct Hok as [Hp Hk].
    destruct (gr_bit p g) as [b g1] eqn:Eg.
    assert (He1 : gr_eof g1 = false).
    { destruct (gr_eof g1) eqn:E; [|reflexivity]. rewrite (run_go_eof_mono (k b) g1 E) in Heof. discriminate. }
    pose proof (bit_stepp fresh g d p Hb Hp) as Hs. rewrite Eg in Hs. cbn [fst snd] in Hs.
    destruct (Hs He1) as (d1 & E1 & Hb1). rewrite E1.
    exact (IH b false g1 d1 (Hk b) Hb1 Heof).
  - destruct Hok as [-> Hk].
    assert (Hrg : 127 <= gr_range g <= 253).
    { destruct Hb as (R & D & j & dp & (ER & _) & _ & _ & HR). cbn [pad3 gr_range] in ER. cbn in HR. lia. }
    rewrite (gr_signed_eq_bit g Hrg) in *.
    destruct (gr_bit 128 g) as [b g1] eqn:Eg.
    assert (He1 : gr_eof g1 = false).
    { destruct (gr_eof g1) eqn:E; [|reflexivity]. rewrite (run_go_eof_mono (k b) g1 E) in Heof. discriminate. }
    pose proof (bit_stepp false g d 128 Hb ltac:(lia)) as Hs. rewrite Eg in Hs. cbn [fst snd] in Hs.
    destruct (Hs He1) as (d1 & E1 & Hb1). unfold read_flag. rewrite E1.
    exact (IH b false g1 d1 (Hk b) Hb1 Heof).
Qed.

(** * getCoeffsInline and the token reader as trees *)
Fixpoint cat_tree (tab : list Z) (v : Z) : rtree Z :=
  match tab with
  | [] => Ret v
  | t :: tl => if t =? 0 then Ret v else Rd t (fun b => cat_tree tl (v + v + b2z b))
  end.

Definition large_tree (p : list Z) : rtree Z :=
  let pr i := nth i p 0 in
  Rd (pr 2%nat) (fun b2 => if negb b2 then Ret 1 else
  Rd (pr 3%nat) (fun b3 => if negb b3 then
      Rd (pr 4%nat) (fun b4 => if negb b4 then Ret 2 else Rd (pr 5%nat) (fun b5 => Ret (3 + b2z b5)))
    else
      Rd (pr 6%nat) (fun b6 => if negb b6 then
          Rd (pr 7%nat) (fun b7 => if negb b7 then Rd 159 (fun b => Ret (5 + b2z b))
                                   else Rd 165 (fun ba => Rd 145 (fun bb => Ret (7 + 2 * b2z ba + b2z bb))))
        else
          Rd (pr 8%nat) (fun bit1 => Rd (pr (9 + (if bit1 then 1 else 0))%nat) (fun bit0 =>
            let cat := 2 * b2z bit1 + b2z bit0 in
            bindt (cat_tree (kCat3456 cat) 0) (fun v => Ret (v + 3 + 8 * 2 ^ cat))))))).

Fixpoint coeffs_tree (fuel : nat) (tp : list (list (list Z))) (n : Z) (p : list Z) (skip_eob : bool)
  (acc : list (Z * Z)) : rtree (list (Z * Z) * Z) :=
  match fuel with
  | O => Ret (acc, n)
  | S f =>
    let after_eob :=
      Rd (nth 1 p 0) (fun nz =>
        if negb nz then
          if n + 1 =? 16 then Ret (acc, 16) else coeffs_tree f tp (n + 1) (bandp tp (n + 1) 0) true acc
        else
          bindt (large_tree p) (fun v => Sg (fun neg =>
            let acc' := (n, if neg then - v else v) :: acc in
            if n + 1 <? 16 then coeffs_tree f tp (n + 1) (bandp tp (n + 1) (if v =? 1 then 1 else 2)) false acc'
            else Ret (acc', 16)))) in
    if skip_eob then after_eob
    else Rd (nth 0 p 0) (fun more => if negb more then Ret (acc, n) else after_eob)
  end.

Lemma go_cat_tree : forall tab v g, go_cat_bits tab v g = run_go (cat_tree tab v) g.
Proof.
  induction tab as [|t tl IH]; intros v g; cbn [go_cat_bits cat_tree run_go]; [reflexivity|].
  destruct (t =? 0); [reflexivity|]. cbn [run_go]. destruct (gr_bit t g) as [b g1]. apply IH.
Qed.

Lemma go_large_tree p g : go_large p g = run_go (large_tree p) g.
Proof.
  unfold go_large, large_tree. cbv zeta. cbn [run_go].
  destruct (gr_bit (nth 2 p 0) g) as [[] g1]; cbn [negb run_go]; [|reflexivity].
  destruct (gr_bit (nth 3 p 0) g1) as [[] g2]; cbn [negb run_go].
  - destruct (gr_bit (nth 6 p 0) g2) as [[] g3]; cbn [negb run_go].
    + destruct (gr_bit (nth 8 p 0) g3) as [bit1 g4].
      destruct (gr_bit (nth (9 + (if bit1 then 1 else 0)) p 0) g4) as [bit0 g5].
      rewrite run_go_bind, <- go_cat_tree. destruct (go_cat_bits _ 0 g5) as [v g6]. reflexivity.
    + destruct (gr_bit (nth 7 p 0) g3) as [[] g4]; cbn [negb run_go].
      * destruct (gr_bit 165 g4) as [ba g5]. destruct (gr_bit 145 g5) as [bb g6]. reflexivity.
      * destruct (gr_bit 159 g4) as [b g5]. reflexivity.
  - destruct (gr_bit (nth 4 p 0) g2) as [[] g3]; cbn [negb run_go]; [|reflexivity].
    destruct (gr_bit (nth 5 p 0) g3) as [b5 g4]. reflexivity.
Qed.

Lemma go_coeffs_tree tp : forall fuel n p skip g acc,
  go_coeffs fuel tp n p skip g acc =
  (let '((acc', eob), g') := run_go (coeffs_tree fuel tp n p skip acc) g in (acc', eob, g')).
Proof.
  induction fuel as [|f IH]; intros n p skip g acc; cbn [go_coeffs coeffs_tree]; [reflexivity|].
  assert (Hafter : forall g1,
    (let '(nz, g2) := gr_bit (nth 1 p 0) g1 in
     if negb nz then
       if n + 1 =? 16 then (acc, 16, g2) else go_coeffs f tp (n + 1) (bandp tp (n + 1) 0) true g2 acc
     else
       let '(v, g3) := go_large p g2 in
       let '(neg, g4) := gr_signed g3 in
       let acc' := (n, if neg then - v else v) :: acc in
       if n + 1 <? 16 then go_coeffs f tp (n + 1) (bandp tp (n + 1) (if v =? 1 then 1 else 2)) false g4 acc'
       else (acc', 16, g4)) =
    (let '((acc', eob), g') :=
       run_go (Rd (nth 1 p 0) (fun nz =>
        if negb nz then
          if n + 1 =? 16 then Ret (acc, 16) else coeffs_tree f tp (n + 1) (bandp tp (n + 1) 0) true acc
        else
          bindt (large_tree p) (fun v => Sg (fun neg =>
            let acc' := (n, if neg then - v else v) :: acc in
            if n + 1 <? 16 then coeffs_tree f tp (n + 1) (bandp tp (n + 1) (if v =? 1 then 1 else 2)) false acc'
            else Ret (acc', 16))))) g1 in (acc', eob, g'))).
  { intros g1. cbn [run_go]. destruct (gr_bit (nth 1 p 0) g1) as [[] g2]; cbn [negb].
    - rewrite run_go_bind, <- go_large_tree. destruct (go_large p g2) as [v g3]. cbn [run_go].
      destruct (gr_signed g3) as [neg g4]. cbv zeta.
      destruct (n + 1 <? 16); [apply IH|reflexivity].
    - destruct (n + 1 =? 16); [reflexivity|apply IH]. }
  destruct skip.
  - apply Hafter.
  - cbn [run_go]. destruct (gr_bit (nth 0 p 0) g) as [[] g1]; cbn [negb]; [apply Hafter|reflexivity].
Qed.

(** the specification's token reader is the same tree *)
Lemma rfc_cat_tree : forall ps v d, Forall (fun t => 1 <= t <= 255) ps ->
  read_extra ps v d = run_rfc (cat_tree (ps ++ [0]) v) d.
Proof.
  induction ps as [|t tl IH]; intros v d Hps; cbn [app read_extra cat_tree run_rfc]; [reflexivity|].
  pose proof (Forall_inv Hps) as Ht. cbv beta in Ht.
  assert (E0 : t =? 0 = false) by (apply Z.eqb_neq; lia). rewrite E0. cbn [run_rfc].
  destruct (read_bool t d) as [b d1].
  replace (2 * v + (if b then 1 else 0)) with (v + v + b2z b) by (unfold b2z; destruct b; lia).
  apply IH. exact (Forall_inv_tail Hps).
Qed.

Lemma rfc_large_tree p d : rfc_large p d = run_rfc (large_tree p) d.
Proof.
  unfold rfc_large, large_tree, value_tree. cbv zeta. cbn [run_rfc read_tree].
  destruct pcat_ok as (P3 & P4 & P5 & P6).
  destruct (read_bool (nth 2 p 0) d) as [[] d1]; cbn [negb run_rfc read_tree read_extra]; [|reflexivity].
  destruct (read_bool (nth 3 p 0) d1) as [[] d2]; cbn [negb run_rfc read_tree].
  - destruct (read_bool (nth 6 p 0) d2) as [[] d3]; cbn [negb run_rfc read_tree].
    + destruct (read_bool (nth 8 p 0) d3) as [[] d4]; cbn [Nat.add read_tree].
      * destruct (read_bool (nth 10 p 0) d4) as [[] d5]; cbn [b2z]; rewrite run_rfc_bind.
        -- change (kCat3456 (2 * 1 + 1)) with (pcat6 ++ [0]). rewrite <- rfc_cat_tree by exact P6.
           destruct (read_extra pcat6 0 d5) as [e d6]. cbn [run_rfc]. f_equal. change (2 ^ (2 * 1 + 1)) with 8. lia.
        -- change (kCat3456 (2 * 1 + 0)) with (pcat5 ++ [0]). rewrite <- rfc_cat_tree by exact P5.
           destruct (read_extra pcat5 0 d5) as [e d6]. cbn [run_rfc]. f_equal. change (2 ^ (2 * 1 + 0)) with 4. lia.
      * destruct (read_bool (nth 9 p 0) d4) as [[] d5]; cbn [b2z]; rewrite run_rfc_bind.
        -- change (kCat3456 (2 * 0 + 1)) with (pcat4 ++ [0]). rewrite <- rfc_cat_tree by exact P4.
           destruct (read_extra pcat4 0 d5) as [e d6]. cbn [run_rfc]. f_equal. change (2 ^ (2 * 0 + 1)) with 2. lia.
        -- change (kCat3456 (2 * 0 + 0)) with (pcat3 ++ [0]). rewrite <- rfc_cat_tree by exact P3.
           destruct (read_extra pcat3 0 d5) as [e d6]. cbn [run_rfc]. f_equal. change (2 ^ (2 * 0 + 0)) with 1. lia.
    + destruct (read_bool (nth 7 p 0) d3) as [[] d4]; cbn [negb run_rfc read_tree].
      * unfold pcat2. cbn [read_extra]. destruct (read_bool 165 d4) as [ba d5]. destruct (read_bool 145 d5) as [bb d6].
        destruct ba, bb; reflexivity.
      * unfold pcat1. cbn [read_extra]. destruct (read_bool 159 d4) as [ba d5].
        destruct ba; reflexivity.
  - destruct (read_bool (nth 4 p 0) d2) as [[] d3]; cbn [negb run_rfc read_tree read_extra]; [|reflexivity].
    destruct (read_bool (nth 5 p 0) d3) as [[] d4]; reflexivity.
Qed.

Lemma rfc_tokens_tree tp : forall fuel n ctx noeob d acc, 0 <= n < 16 ->
  tokens fuel tp n ctx noeob d acc =
  (let '((acc', eob), d') := run_rfc (coeffs_tree fuel tp n (bandp tp n ctx) noeob acc) d in (acc', eob, d')).
Proof.
  induction fuel as [|f IH]; intros n ctx noeob d acc Hn; cbn [tokens coeffs_tree]; [reflexivity|].
  assert (E16 : 16 <=? n = false) by (apply Z.leb_gt; lia). rewrite E16.
  rewrite <- bandp_bands. set (p := bandp tp n ctx).
  assert (Hafter : forall d1,
    (let '(nz, d2) := read_bool (nth 1 p 0) d1 in
     if negb nz then tokens f tp (n + 1) 0 true d2 acc else
     let '((base, extra), d3) := read_tree value_tree p d2 in
     let '(e, d4) := read_extra extra 0 d3 in
     let v := base + e in
     let '(neg, d5) := read_flag d4 in
     tokens f tp (n + 1) (if v =? 1 then 1 else 2) false d5 ((n, if neg then - v else v) :: acc)) =
    (let '((acc', eob), d') :=
       run_rfc (Rd (nth 1 p 0) (fun nz =>
        if negb nz then
          if n + 1 =? 16 then Ret (acc, 16) else coeffs_tree f tp (n + 1) (bandp tp (n + 1) 0) true acc
        else
          bindt (large_tree p) (fun v => Sg (fun neg =>
            let acc' := (n, if neg then - v else v) :: acc in
            if n + 1 <? 16 then coeffs_tree f tp (n + 1) (bandp tp (n + 1) (if v =? 1 then 1 else 2)) false acc'
            else Ret (acc', 16))))) d1 in (acc', eob, d'))).
  { intros d1. cbn [run_rfc]. destruct (read_bool (nth 1 p 0) d1) as [[] d2]; cbn [negb].
    - rewrite run_rfc_bind, <- rfc_large_tree. unfold rfc_large.
      destruct (read_tree value_tree p d2) as [[base extra] d3]. destruct (read_extra extra 0 d3) as [e d4].
      cbv zeta. cbn [run_rfc]. destruct (read_flag d4) as [neg d5].
      destruct (n + 1 <? 16) eqn:En.
      + apply Z.ltb_lt in En. apply IH. lia.
      + apply Z.ltb_ge in En. assert (n = 15) by lia. subst n. destruct f; cbn [tokens run_rfc]; reflexivity.
    - destruct (n + 1 =? 16) eqn:En.
      + apply Z.eqb_eq in En. assert (n = 15) by lia. subst n. destruct f; cbn [tokens run_rfc]; reflexivity.
      + apply Z.eqb_neq in En. apply IH. lia. }
  destruct noeob.
  - cbn [negb]. apply Hafter.
  - cbn [run_rfc]. destruct (read_bool (nth 0 p 0) d) as [[] d1]; cbn [negb]; [apply Hafter|reflexivity].
Qed.

(** * the trees read with byte probabilities and never start with the sign read *)
Lemma tree_ok_bind {A B} (t : rtree A) (f : A -> rtree B) :
  tree_ok false t -> (forall a, tree_ok false (f a)) -> tree_ok false (bindt t f).
Proof.
  induction t as [a|p k IH|k IH]; intros Ht Hf; cbn [bindt tree_ok] in *.
  - apply Hf.
  - split; [apply Ht|]. intros b. apply IH; [apply Ht|exact Hf].
  - split; [reflexivity|]. intros b. apply IH; [apply Ht|exact Hf].
Qed.

Lemma cat_tree_ok : forall tab v fresh, Forall (fun t => 0 <= t <= 255) tab -> tree_ok fresh (cat_tree tab v).
Proof.
  induction tab as [|t tl IH]; intros v fresh H; cbn [cat_tree tree_ok]; [exact I|].
  destruct (t =? 0); cbn [tree_ok]; [exact I|].
  split; [exact (Forall_inv H)|]. intros b. apply IH. exact (Forall_inv_tail H).
Qed.

Lemma kcat_ok cat : Forall (fun t => 0 <= t <= 255) (kCat3456 cat).
Proof.
  unfold kCat3456. destruct (cat =? 0); [|destruct (cat =? 1); [|destruct (cat =? 2)]];
    vm_compute; repeat constructor; intros E; discriminate E.
Qed.

Lemma large_tree_ok p fresh : (forall i, 0 <= nth i p 0 <= 255) -> tree_ok fresh (large_tree p).
Proof.
  intros Hp. unfold large_tree. cbv zeta. cbn [tree_ok].
  split; [apply Hp|]. intros [|]; cbn [negb tree_ok]; [|exact I].
  split; [apply Hp|]. intros [|]; cbn [negb tree_ok].
  - split; [apply Hp|]. intros [|]; cbn [negb tree_ok].
    + split; [apply Hp|]. intros b1. split; [apply Hp|]. intros b0.
      apply tree_ok_bind; [apply cat_tree_ok, kcat_ok|]. intros a. exact I.
    + split; [apply Hp|]. intros [|]; cbn [negb tree_ok].
      * split; [lia|]. intros ba. split; [lia|]. intros bb. exact I.
      * split; [lia|]. intros b. exact I.
  - split; [apply Hp|]. intros [|]; cbn [negb tree_ok]; [|exact I].
    split; [apply Hp|]. intros b. exact I.
Qed.

Lemma coeffs_tree_ok tp : tp_ok tp -> forall fuel n ctx skip acc fresh,
  tree_ok fresh (coeffs_tree fuel tp n (bandp tp n ctx) skip acc).
Proof.
  intros Htp. induction fuel as [|f IH]; intros n ctx skip acc fresh; cbn [coeffs_tree tree_ok]; [exact I|].
  set (p := bandp tp n ctx).
  assert (Hp : forall i, 0 <= nth i p 0 <= 255) by (intros i; apply Htp).
  assert (Hafter : forall fr, tree_ok fr
    (Rd (nth 1 p 0) (fun nz =>
        if negb nz then
          if n + 1 =? 16 then Ret (acc, 16) else coeffs_tree f tp (n + 1) (bandp tp (n + 1) 0) true acc
        else
          bindt (large_tree p) (fun v => Sg (fun neg =>
            let acc' := (n, if neg then - v else v) :: acc in
            if n + 1 <? 16 then coeffs_tree f tp (n + 1) (bandp tp (n + 1) (if v =? 1 then 1 else 2)) false acc'
            else Ret (acc', 16)))))).
  { intros fr. cbn [tree_ok]. split; [apply Hp|]. intros [|]; cbn [negb].
    - apply tree_ok_bind; [apply large_tree_ok, Hp|]. intros v. cbn [tree_ok]. split; [reflexivity|].
      intros neg. cbv zeta. destruct (n + 1 <? 16); [apply IH|exact I].
    - destruct (n + 1 =? 16); [exact I|apply IH]. }
  destruct skip; [apply Hafter|].
  cbn [tree_ok]. split; [apply Hp|]. intros [|]; cbn [negb]; [apply Hafter|exact I].
Qed.

(** * getCoeffsInline = the specification's block reader wherever the Go reader has not run past
    the end of its partition: no condition on how many bytes are left *)
Theorem inline_coeffs_eq tp first ctx dqdc dqac g d : tp_ok tp -> 0 <= first < 16 ->
  bothp true g d ->
  gr_eof (snd (go_get_coeffs tp first ctx dqdc dqac g)) = false ->
  exists d', decode_block tp first ctx dqdc dqac d =
             (fst (fst (go_get_coeffs tp first ctx dqdc dqac g)),
              snd (fst (go_get_coeffs tp first ctx dqdc dqac g)), d') /\
             bothp true (snd (go_get_coeffs tp first ctx dqdc dqac g)) d'.
Proof.
  intros Htp Hf H. unfold go_get_coeffs, decode_block.
  rewrite go_coeffs_tree, rfc_tokens_tree by exact Hf.
  pose proof (tree_eq (coeffs_tree 17 tp first (bandp tp first ctx) false []) true g d
                (coeffs_tree_ok tp Htp 17%nat first ctx false [] true) H) as T.
  destruct (run_go (coeffs_tree 17 tp first (bandp tp first ctx) false []) g) as [[acc eob] g'].
  cbn [fst snd] in *. intros He. destruct (T He) as (d' & E & B). rewrite E.
  exists d'. split; [reflexivity|exact B].
Qed.

(** when the flag is raised, it stays raised: the caller tests it once per macroblock row *)
Lemma go_get_coeffs_eof_mono tp first ctx dqdc dqac g :
  gr_eof g = true -> gr_eof (snd (go_get_coeffs tp first ctx dqdc dqac g)) = true.
Proof.
  intros H. unfold go_get_coeffs. rewrite go_coeffs_tree.
  pose proof (run_go_eof_mono (coeffs_tree 17 tp first (bandp tp first ctx) false []) g H) as M.
  destruct (run_go (coeffs_tree 17 tp first (bandp tp first ctx) false []) g) as [[acc eob] g'].
  exact M.
Qed.

(** * the freshly created readers are related (at least two bytes, the first below 255) *)
Lemma bothp_init a b rest : is_byte a -> is_byte b -> Forall is_byte rest -> a < 255 ->
  bothp true (gr_init (a :: b :: rest)) (bd_init (a :: b :: rest)).
Proof.
  intros Ha Hb Hr Hlt.
  assert (Hr3 : Forall is_byte (rest ++ [0; 0; 0])).
  { apply Forall_app. split; [exact Hr|]. repeat constructor; unfold is_byte; lia. }
  assert (Hbv : bval (a :: b :: rest ++ [0; 0; 0]) < 255 * 2 ^ (8 * Z.of_nat (length (rest ++ [0; 0; 0])) + 8)).
  { cbn [bval length]. pose proof (bval_bound _ Hr3) as B3. set (m := length (rest ++ [0; 0; 0])) in *.
    replace (8 * Z.of_nat (S m)) with (8 * Z.of_nat m + 8) by lia.
    rewrite Z.pow_add_r by lia. change (2 ^ 8) with 256. set (W := 2 ^ (8 * Z.of_nat m)) in *.
    unfold is_byte in *. nia. }
  destruct (bd_init_rel a b (rest ++ [0; 0; 0]) Ha Hb Hr3 Hbv) as [D0 D1]. cbv zeta in D0.
  exists 255, (bval (a :: b :: rest ++ [0; 0; 0])), (8 * Z.of_nat (length (rest ++ [0; 0; 0])) + 8),
         (bd_init (a :: b :: rest ++ [0; 0; 0])).
  split; [|split; [exact (bd_init_zeros a b rest 3)|split; [exact D0|cbn; lia]]].
  unfold grel, pad3, gr_init. cbn [gr_range gr_rest gr_value gr_bits gr_eof app].
  split; [reflexivity|]. split; [constructor; [exact Ha|constructor; [exact Hb|exact Hr3]]|].
  split; [lia|]. split; [lia|]. split; [lia|]. split; [cbn [length]; lia|]. split; [|reflexivity].
  split; [exact D1|]. destruct D0 as (_ & _ & _ & a0 & _ & _ & _ & _ & _ & Hlt2). exact Hlt2.
Qed.

(** NewBoolReader loads before the first read *)
Lemma bothp_new a b rest : is_byte a -> is_byte b -> Forall is_byte rest -> a < 255 ->
  bothp true (gr_new (a :: b :: rest)) (bd_init (a :: b :: rest)).
Proof.
  intros Ha Hb Hr Hlt. destruct (bothp_init a b rest Ha Hb Hr Hlt) as (R & D & j & dp & H1 & H2 & H3 & H4).
  exists R, D, j, dp. split; [|split; [exact H2|split; [exact H3|exact H4]]].
  unfold gr_new. apply load_pad; [exact H1|cbn; lia|cbn in H4; lia|cbn; discriminate].
Qed.
