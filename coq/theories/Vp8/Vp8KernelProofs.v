(** Proofs that the Go decoder's short-cuts and table/unsigned formulations
    equal the RFC 6386 definitions of Vp8Kernels.v / Vp8Bool.v. *)
From Coq Require Import List ZArith Lia Bool.
From Coq Require Import ZifyBool.
From Webp Require Import Vp8.Vp8Bool Vp8.Vp8Tables Vp8.Vp8Syntax Vp8.Vp8Kernels.
Import ListNotations.
Open Scope Z_scope.

Ltac Zify.zify_post_hook ::= Z.div_mod_to_equations.

Ltac list_eq tac :=
  repeat match goal with
  | |- _ :: _ = _ :: _ => apply f_equal2
  | |- (_, _) = (_, _) => apply f_equal2
  | |- asr _ ?n = asr _ ?n => apply (f_equal (fun x => asr x n))
  | |- wrap16 _ = wrap16 _ => apply (f_equal wrap16)
  | |- @nil _ = @nil _ => reflexivity
  end; try reflexivity; tac.

(** * lists of 16 coefficients *)
Lemma list16 {A} (l : list A) : length l = 16%nat ->
  exists a0 a1 a2 a3 a4 a5 a6 a7 a8 a9 a10 a11 a12 a13 a14 a15,
    l = [a0; a1; a2; a3; a4; a5; a6; a7; a8; a9; a10; a11; a12; a13; a14; a15].
Proof.
  intros H.
  do 16 (destruct l as [|? l]; [discriminate H|]).
  destruct l; [|discriminate H]. repeat eexists.
Qed.


(** * IDCT: the Go full transform is the RFC transform *)
Lemma go_col_eq i0 i1 i2 i3 : go_col i0 i1 i2 i3 = idct1 i0 i1 i2 i3.
Proof.
  unfold go_col, idct1, mul1, mul2, sinpi8sqrt2, cospi8sqrt2minus1.
  list_eq lia.
Qed.

Lemma go_row_eq t0 t1 t2 t3 :
  go_row t0 t1 t2 t3 =
  let '(y0, y1, y2, y3) := idct1 t0 t1 t2 t3 in
  [asr (y0 + 4) 3; asr (y1 + 4) 3; asr (y2 + 4) 3; asr (y3 + 4) 3].
Proof.
  unfold go_row, idct1, mul1, mul2, sinpi8sqrt2, cospi8sqrt2minus1.
  cbv zeta beta. list_eq lia.
Qed.

Theorem go_transform_one_eq_idct : forall c, go_transform_one c = idct c.
Proof.
  intros c. unfold go_transform_one, idct.
  rewrite !go_col_eq.
  change (g c (4 + 0)) with (g c 4). change (g c (8 + 0)) with (g c 8). change (g c (12 + 0)) with (g c 12).
  change (g c (4 + 1)) with (g c 5). change (g c (8 + 1)) with (g c 9). change (g c (12 + 1)) with (g c 13).
  change (g c (4 + 2)) with (g c 6). change (g c (8 + 2)) with (g c 10). change (g c (12 + 2)) with (g c 14).
  change (g c (4 + 3)) with (g c 7). change (g c (8 + 3)) with (g c 11). change (g c (12 + 3)) with (g c 15).
  destruct (idct1 (g c 0) (g c 4) (g c 8) (g c 12)) as [[[a0 a1] a2] a3].
  destruct (idct1 (g c 1) (g c 5) (g c 9) (g c 13)) as [[[b0 b1] b2] b3].
  destruct (idct1 (g c 2) (g c 6) (g c 10) (g c 14)) as [[[c0 c1] c2] c3].
  destruct (idct1 (g c 3) (g c 7) (g c 11) (g c 15)) as [[[d0 d1] d2] d3].
  rewrite !go_row_eq. reflexivity.
Qed.

(** * DC-only and three-coefficient short-cuts *)
Lemma idct1_zero : idct1 0 0 0 0 = (0, 0, 0, 0).
Proof. reflexivity. Qed.

Lemma idct1_dc x : idct1 x 0 0 0 = (x, x, x, x).
Proof.
  unfold idct1. change (asr (0 * sinpi8sqrt2) 16) with 0. change (asr (0 * cospi8sqrt2minus1) 16) with 0.
  list_eq lia.
Qed.

Lemma idct1_two x y : idct1 x y 0 0 = (x + mul1 y, x + mul2 y, x - mul2 y, x - mul1 y).
Proof.
  unfold idct1, mul1, mul2, sinpi8sqrt2, cospi8sqrt2minus1.
  change (asr (0 * 35468) 16) with 0. change (asr (0 * 20091) 16) with 0.
  list_eq lia.
Qed.

Theorem transform_dc_eq : forall dc,
  go_transform_dc (dc :: repeat 0 15) = idct (dc :: repeat 0 15).
Proof.
  intros dc. unfold go_transform_dc, idct, g. cbn [nth Nat.add repeat].
  rewrite idct1_dc, idct1_zero, !idct1_dc. reflexivity.
Qed.

Theorem transform_ac3_eq : forall c0 c1 c4,
  let c := [c0; c1; 0; 0; c4; 0; 0; 0; 0; 0; 0; 0; 0; 0; 0; 0] in
  go_transform_ac3 c = idct c.
Proof.
  intros c0 c1 c4 c. subst c.
  unfold go_transform_ac3, idct, g. cbn [nth Nat.add].
  rewrite idct1_two, idct1_dc, idct1_zero, !idct1_two. cbv zeta beta. cbn [app].
  list_eq lia.
Qed.

(** * WHT *)
Theorem go_wht_eq_iwht : forall c, go_wht c = iwht c.
Proof.
  intros c. unfold go_wht, iwht, iwht1. cbv beta iota zeta. cbn [app].
  list_eq lia.
Qed.

Lemma iwht1_dc x : iwht1 x 0 0 0 = (x, x, x, x).
Proof. unfold iwht1. list_eq lia. Qed.

Theorem wht_dc_only_eq : forall dc,
  go_wht_dc_only (dc :: repeat 0 15) = iwht (dc :: repeat 0 15).
Proof.
  intros dc. unfold go_wht_dc_only, iwht, iwht1, g. cbn [nth Nat.add repeat].
  cbv beta iota zeta. cbn [app]. list_eq lia.
Qed.

(** * The 2-bit code never selects a short-cut that drops a coefficient.
    [nz] is the end-of-block position reported by the token reader: every
    coefficient at a zig-zag position >= nz is zero. *)
Lemma rfc_zigzag_eq : zigzag = rfc_zigzag.
Proof. reflexivity. Qed.

Theorem nz_code_sound : forall c nz, length c = 16%nat -> 0 <= nz <= 16 ->
  (forall n, nz <= n < 16 -> nthZ c (nthZ zigzag n 0) 0 = 0) ->
  go_do_transform (go_nz_code nz (negb (g c 0 =? 0))) c = idct c.
Proof.
  intros c nz H Hnz Hz.
  destruct (list16 c H) as (a0&a1&a2&a3&a4&a5&a6&a7&a8&a9&a10&a11&a12&a13&a14&a15&->).
  rewrite rfc_zigzag_eq in Hz.
  unfold go_nz_code.
  destruct (Z.ltb_spec 3 nz) as [H3|H3].
  { change (go_do_transform 3 ?c) with (go_transform_one c). apply go_transform_one_eq_idct. }
  (* positions 3..15 are zero: indices 8 5 2 3 6 9 12 13 10 7 11 14 15 *)
  assert (Z3 := Hz 3 ltac:(lia)). assert (Z4 := Hz 4 ltac:(lia)). assert (Z5 := Hz 5 ltac:(lia)).
  assert (Z6 := Hz 6 ltac:(lia)). assert (Z7 := Hz 7 ltac:(lia)). assert (Z8 := Hz 8 ltac:(lia)).
  assert (Z9 := Hz 9 ltac:(lia)). assert (Z10 := Hz 10 ltac:(lia)). assert (Z11 := Hz 11 ltac:(lia)).
  assert (Z12 := Hz 12 ltac:(lia)). assert (Z13 := Hz 13 ltac:(lia)). assert (Z14 := Hz 14 ltac:(lia)).
  assert (Z15 := Hz 15 ltac:(lia)).
  unfold nthZ, rfc_zigzag in Z3, Z4, Z5, Z6, Z7, Z8, Z9, Z10, Z11, Z12, Z13, Z14, Z15.
  vm_compute in Z3, Z4, Z5, Z6, Z7, Z8, Z9, Z10, Z11, Z12, Z13, Z14, Z15. subst.
  destruct (Z.ltb_spec 1 nz) as [H1|H1].
  { change (go_do_transform 2 ?c) with (go_transform_ac3 c). apply transform_ac3_eq. }
  (* nz <= 1: positions 1, 2 (indices 1, 4) are zero too *)
  assert (Z1 := Hz 1 ltac:(lia)). assert (Z2 := Hz 2 ltac:(lia)).
  unfold nthZ, rfc_zigzag in Z1, Z2. vm_compute in Z1, Z2. subst.
  unfold g. cbn [nth].
  destruct (Z.eqb_spec a0 0) as [->|Hne]; cbn [negb].
  - vm_compute. reflexivity.
  - change (go_do_transform 1 ?c) with (go_transform_dc c). apply (transform_dc_eq a0).
Qed.

(** * Boolean decoder: the Go normalisation variants = the RFC loop, for every
    range 128..255, probability 0..255 and decision.  Complete finite sweep.
    GetSigned / fastSigned ("shift is always 1") is exact except in the state
    range = 255, which exists only before the first bool of a partition (the
    last conjunct: no step ever produces range 255) - and the first bool of a
    partition is never read with GetSigned. *)
From WebpGen Require Tables.

Lemma triple_eqb_eq a b : triple_eqb a b = true -> a = b.
Proof.
  destruct a as [[a1 a2] a3], b as [[b1 b2] b3]. unfold triple_eqb.
  rewrite !andb_true_iff, !Z.eqb_eq. intros [[-> ->] ->]. reflexivity.
Qed.

Definition bool_case_ok (R p : Z) (b : bool) : bool :=
  triple_eqb (rfc_step R p b) (go_getbit_step R p b) &&
  triple_eqb (rfc_step R p b)
    (go_lut_step WebpGen.Tables.lossy_kVP8Log2Range WebpGen.Tables.lossy_kVP8NewRange R p b) &&
  triple_eqb (rfc_step R p b)
    (go_lut_step WebpGen.Tables.bitio_kVP8Log2Range WebpGen.Tables.bitio_kVP8NewRange R p b) &&
  (negb (p =? 128) || (R =? 255) || triple_eqb (rfc_step R p b) (go_signed_step R b)) &&
  negb (snd (fst (rfc_step R p b)) =? 255).

Lemma bool_sweep_ok :
  forallb (fun R => forallb (fun p => bool_case_ok R p false && bool_case_ok R p true)
                            (zrange 0 256)) (zrange 128 128) = true.
Proof. vm_compute. reflexivity. Qed.

Theorem bool_variants_agree : forall R p b, 128 <= R <= 255 -> 0 <= p <= 255 ->
  go_getbit_step R p b = rfc_step R p b /\
  go_lut_step WebpGen.Tables.lossy_kVP8Log2Range WebpGen.Tables.lossy_kVP8NewRange R p b = rfc_step R p b /\
  go_lut_step WebpGen.Tables.bitio_kVP8Log2Range WebpGen.Tables.bitio_kVP8NewRange R p b = rfc_step R p b /\
  (p = 128 -> R <> 255 -> go_signed_step R b = rfc_step R p b) /\
  snd (fst (rfc_step R p b)) <> 255.
Proof.
  intros R p b HR Hp.
  pose proof bool_sweep_ok as H.
  assert (HR' : In R (zrange 128 128)) by (apply in_zrange; lia).
  assert (Hp' : In p (zrange 0 256)) by (apply in_zrange; lia).
  pose proof (proj1 (forallb_forall _ _) H R HR') as H1'. cbv beta in H1'.
  pose proof (proj1 (forallb_forall _ _) H1' p Hp') as H2'. cbv beta in H2'.
  clear H H1'. rename H2' into H.
  apply andb_true_iff in H. destruct H as [Hf Ht].
  assert (Hb : bool_case_ok R p b = true) by (destruct b; assumption).
  unfold bool_case_ok in Hb. rewrite !andb_true_iff in Hb. destruct Hb as [[[[H1 H2] H3] H4] H5].
  apply triple_eqb_eq in H1, H2, H3.
  repeat split; try congruence.
  - intros -> HR255. change (negb (128 =? 128)) with false in H4. cbn [orb] in H4.
    apply orb_true_iff in H4. destruct H4 as [H4|H4]; [apply Z.eqb_eq in H4; lia|].
    apply triple_eqb_eq in H4. congruence.
  - apply negb_true_iff in H5. apply Z.eqb_neq in H5. exact H5.
Qed.

(** * Dequantisation factors: ParseQuant = 14.1, for every quantiser index and every delta *)
Lemma clampz_range lo hi x : lo <= hi -> lo <= clampz lo hi x <= hi.
Proof. intros H. unfold clampz. destruct (x <? lo) eqn:E1; [lia|]. destruct (hi <? x) eqn:E2; lia. Qed.

Definition y2ac_ok (j : Z) : bool :=
  let a := nthZ ac_table j 0 in
  let g := asr (a * 101581) 16 in
  (if g <? 8 then 8 else g) =? Z.max 8 (a * 155 / 100).
Definition uvdc_ok (j : Z) : bool :=
  Z.min 132 (nthZ dc_table j 0) =? nthZ dc_table (Z.min j 117) 0.

Lemma dq_sweep_ok : forallb (fun j => y2ac_ok j && uvdc_ok j) (zrange 0 128) = true.
Proof. vm_compute. reflexivity. Qed.

Theorem dequant_matrix_eq : forall qh q, go_dq qh q = dq_of qh q.
Proof.
  intros qh q. unfold go_dq, dq_of, qidx.
  change go_clip with (fun v m => clampz 0 m v). cbv beta.
  pose proof dq_sweep_ok as H.
  f_equal.
  - apply Z.mul_comm.
  - set (j := clampz 0 127 (q + q_y2ac qh)).
    assert (Hr : 0 <= j <= 127) by (apply clampz_range; lia).
    assert (Hin : In j (zrange 0 128)) by (apply in_zrange; lia).
    pose proof (proj1 (forallb_forall _ _) H j Hin) as Hj. cbv beta in Hj.
    apply andb_true_iff in Hj. destruct Hj as [Hj _]. unfold y2ac_ok in Hj. cbv zeta in Hj.
    apply Z.eqb_eq in Hj. exact Hj.
  - set (j := clampz 0 127 (q + q_uvdc qh)).
    assert (Hr : 0 <= j <= 127) by (apply clampz_range; lia).
    assert (Hin : In j (zrange 0 128)) by (apply in_zrange; lia).
    pose proof (proj1 (forallb_forall _ _) H j Hin) as Hj. cbv beta in Hj.
    apply andb_true_iff in Hj. destruct Hj as [_ Hj]. unfold uvdc_ok in Hj.
    apply Z.eqb_eq in Hj. rewrite Hj. f_equal.
    subst j. unfold clampz. destruct (q + q_uvdc qh <? 0) eqn:E1; [lia|].
    destruct (127 <? q + q_uvdc qh) eqn:E2; destruct (117 <? q + q_uvdc qh) eqn:E3; lia.
Qed.

(** * Filter strengths: precomputeFilterStrengths = 9.6 / 15.2, for every header *)
Lemma go_ilevel_eq level sharp : go_ilevel level sharp = lf_interior level sharp.
Proof.
  unfold go_ilevel, lf_interior. cbv zeta.
  destruct (0 <? sharp) eqn:E0; [|reflexivity].
  destruct (4 <? sharp) eqn:E4.
  - destruct (9 - sharp <? asr level 2) eqn:E9; destruct (Z.min (asr level 2) (9 - sharp) <? 1) eqn:E1;
      destruct (9 - sharp <? 1) eqn:E2; destruct (asr level 2 <? 1) eqn:E3; lia.
  - destruct (9 - sharp <? asr level 1) eqn:E9; destruct (Z.min (asr level 1) (9 - sharp) <? 1) eqn:E1;
      destruct (9 - sharp <? 1) eqn:E2; destruct (asr level 1 <? 1) eqn:E3; lia.
Qed.

Lemma go_level_eq h seg is4 : go_level h seg is4 = lf_mb_level false h seg is4.
Proof.
  unfold go_level, lf_mb_level, lf_base_level, clampz. cbv zeta.
  destruct (sg_enabled (fh_seg h)); destruct (sg_abs (fh_seg h));
    destruct (lf_delta_enabled (fh_lf h)); destruct is4;
    rewrite ?(Z.add_comm (nthZ (sg_lf (fh_seg h)) seg 0) (lf_level (fh_lf h))); reflexivity.
Qed.

Theorem filter_strength_table_eq : forall h seg is4,
  go_fstrength h seg is4 =
  let p := lf_mb_params false h seg is4 in
  if lp_level p =? 0 then (0, 0, 0) else (subedge_limit p, lp_interior p, lp_hev p).
Proof.
  intros h seg is4. unfold go_fstrength, lf_mb_params, subedge_limit, lf_hev_thresh. cbv zeta.
  cbn [lp_level lp_interior lp_hev].
  rewrite go_level_eq, go_ilevel_eq.
  set (L := lf_mb_level false h seg is4).
  assert (HL : 0 <= L <= 63) by (unfold L, lf_mb_level; apply clampz_range; lia).
  destruct (0 <? L) eqn:E0; destruct (L =? 0) eqn:E1; try lia; [|reflexivity].
  f_equal. f_equal. lia.
Qed.

(** the only difference between the two readings of the level computation:
    they agree whenever the segment-adjusted level is already within 0..63 *)
Theorem filter_level_mid_clamp_agree : forall h seg is4,
  0 <= lf_base_level h seg <= 63 ->
  lf_mb_level true h seg is4 = lf_mb_level false h seg is4.
Proof.
  intros h seg is4 H. unfold lf_mb_level. cbv zeta.
  replace (clampz 0 63 (lf_base_level h seg)) with (lf_base_level h seg); [reflexivity|].
  unfold clampz. destruct (lf_base_level h seg <? 0) eqn:E1; [lia|].
  destruct (63 <? lf_base_level h seg) eqn:E2; lia.
Qed.

(** * Clip tables = clamp over their whole index range (finite, complete) *)
Definition tab_ok (t : list Z) (off lo hi : Z) (f : Z -> Z) : bool :=
  forallb (fun v => match tab_get t off v with Some x => x =? f v | None => false end)
          (zrange lo (hi - lo + 1)).

Lemma clip_tables_sweep :
  tab_ok go_sclip1_tab 893 (-893) 892 (clampz (-128) 127) &&
  tab_ok go_sclip2_tab 112 (-112) 112 (clampz (-16) 15) &&
  tab_ok go_clip1_tab 255 (-255) 511 (clampz 0 255) &&
  tab_ok go_abs0_tab 255 (-255) 255 Z.abs = true.
Proof. vm_compute. reflexivity. Qed.

Lemma tab_ok_spec t off lo hi f v :
  tab_ok t off lo hi f = true -> lo <= v <= hi -> tab_get t off v = Some (f v).
Proof.
  unfold tab_ok. intros H Hv.
  pose proof (proj1 (forallb_forall _ _) H v (in_zrange lo (hi - lo + 1) v ltac:(lia) ltac:(lia))) as Hx.
  cbv beta in Hx. destruct (tab_get t off v); [|discriminate]. apply Z.eqb_eq in Hx. congruence.
Qed.

Theorem clip_tables_eq_clamp :
  (forall v, -893 <= v <= 892 -> tab_get go_sclip1_tab 893 v = Some (clampz (-128) 127 v)) /\
  (forall v, -112 <= v <= 112 -> tab_get go_sclip2_tab 112 v = Some (clampz (-16) 15 v)) /\
  (forall v, -255 <= v <= 511 -> tab_get go_clip1_tab 255 v = Some (clampz 0 255 v)) /\
  (forall v, -255 <= v <= 255 -> tab_get go_abs0_tab 255 v = Some (Z.abs v)).
Proof.
  pose proof clip_tables_sweep as H. rewrite !andb_true_iff in H. destruct H as [[[H1 H2] H3] H4].
  repeat split; intros v Hv; eapply tab_ok_spec; eauto.
Qed.

(** * Loop-filter arithmetic: the Go (libwebp-style, unsigned, table-clamped)
    formulas = the RFC's signed formulation, for all 8-bit samples and all limits *)
Definition bytes8 (l : list Z) : Prop := length l = 8%nat /\ Forall (fun x => 0 <= x <= 255) l.

Lemma bytes8_inv l : bytes8 l -> exists p3 p2 p1 p0 q0 q1 q2 q3,
  l = [p3; p2; p1; p0; q0; q1; q2; q3] /\
  0 <= p3 <= 255 /\ 0 <= p2 <= 255 /\ 0 <= p1 <= 255 /\ 0 <= p0 <= 255 /\
  0 <= q0 <= 255 /\ 0 <= q1 <= 255 /\ 0 <= q2 <= 255 /\ 0 <= q3 <= 255.
Proof.
  intros [Hl Hf].
  do 8 (destruct l as [|? l]; [discriminate Hl|]). destruct l; [|discriminate Hl].
  repeat match goal with H : Forall _ (_ :: _) |- _ => inversion H; clear H; subst end.
  do 8 eexists. split; [reflexivity|]. repeat split; lia.
Qed.

Lemma needs_filter_eq E p1 p0 q0 q1 :
  go_needs_filter (2 * E + 1) p1 p0 q0 q1 = lf_edge_ok E p1 p0 q0 q1.
Proof.
  unfold go_needs_filter, lf_edge_ok, asr. change (2 ^ 1) with 2.
  destruct (Z.leb_spec (4 * Z.abs (p0 - q0) + Z.abs (p1 - q1)) (2 * E + 1));
    destruct (Z.leb_spec (Z.abs (p0 - q0) * 2 + Z.abs (p1 - q1) / 2) E); try reflexivity; lia.
Qed.

Lemma abs_sub_comm a b : Z.abs (a - b) = Z.abs (b - a).
Proof. lia. Qed.

Lemma hev_eq t p1 p0 q0 q1 : go_hev t p1 p0 q0 q1 = lf_hev t p1 p0 q0 q1.
Proof. unfold go_hev, lf_hev. rewrite (abs_sub_comm q0 q1). reflexivity. Qed.

Lemma needs_filter2_eq E I p3 p2 p1 p0 q0 q1 q2 q3 :
  go_needs_filter2 (2 * E + 1) I p3 p2 p1 p0 q0 q1 q2 q3 = lf_filter_yes I E p3 p2 p1 p0 q0 q1 q2 q3.
Proof.
  unfold go_needs_filter2, lf_filter_yes. rewrite needs_filter_eq.
  destruct (lf_edge_ok E p1 p0 q0 q1); reflexivity.
Qed.

Definition adj_ok (a : Z) : bool :=
  (gsclip2 (asr (a + 4) 3) =? asr (sc (sc a + 4)) 3) &&
  (gsclip2 (asr (a + 3) 3) =? asr (sc (sc a + 3)) 3).

Lemma adj_sweep : forallb adj_ok (zrange (-893) 1786) = true.
Proof. vm_compute. reflexivity. Qed.

Lemma adj_eq a : -893 <= a <= 892 ->
  gsclip2 (asr (a + 4) 3) = asr (sc (sc a + 4)) 3 /\ gsclip2 (asr (a + 3) 3) = asr (sc (sc a + 3)) 3.
Proof.
  intros H.
  pose proof (proj1 (forallb_forall _ _) adj_sweep a (in_zrange (-893) 1786 a ltac:(lia) ltac:(lia))) as Hx.
  unfold adj_ok in Hx. apply andb_true_iff in Hx. destruct Hx as [H1 H2].
  apply Z.eqb_eq in H1, H2. split; assumption.
Qed.

Definition w_ok (w : Z) : bool :=
  (sc (asr (27 * w + 63) 7) =? asr (27 * w + 63) 7) &&
  (sc (asr (18 * w + 63) 7) =? asr (18 * w + 63) 7) &&
  (sc (asr (9 * w + 63) 7) =? asr (9 * w + 63) 7).
Lemma w_sweep : forallb w_ok (zrange (-128) 256) = true.
Proof. vm_compute. reflexivity. Qed.

Lemma s2u_u2s p d : s2u (u2s p + d) = clamp255 (p + d).
Proof.
  unfold s2u, u2s, sc, clamp255, clampz.
  destruct (p - 128 + d <? -128) eqn:E1; destruct (p + d <? 0) eqn:E2; try lia.
  destruct (127 <? p - 128 + d) eqn:E3; destruct (255 <? p + d) eqn:E4; lia.
Qed.

Lemma s2u_u2s_sub p d : s2u (u2s p - d) = clamp255 (p - d).
Proof. replace (u2s p - d) with (u2s p + - d) by lia. rewrite s2u_u2s. reflexivity. Qed.

Lemma sc_range x : -128 <= sc x <= 127.
Proof. apply clampz_range. lia. Qed.

Lemma filter2_eq p1 p0 q0 q1 :
  0 <= p1 <= 255 -> 0 <= p0 <= 255 -> 0 <= q0 <= 255 -> 0 <= q1 <= 255 ->
  common_adjust true p1 p0 q0 q1 =
  (fst (go_filter2 p1 p0 q0 q1), snd (go_filter2 p1 p0 q0 q1),
   gsclip2 (asr (3 * (q0 - p0) + gsclip1 (p1 - q1) + 4) 3)).
Proof.
  intros H1 H2 H3 H4. unfold common_adjust, go_filter2. cbv zeta. cbn [fst snd].
  replace (u2s p1 - u2s q1) with (p1 - q1) by (unfold u2s; lia).
  replace (u2s q0 - u2s p0) with (q0 - p0) by (unfold u2s; lia).
  change gsclip1 with sc.
  replace (sc (p1 - q1) + 3 * (q0 - p0)) with (3 * (q0 - p0) + sc (p1 - q1)) by lia.
  set (a := 3 * (q0 - p0) + sc (p1 - q1)).
  assert (Ha : -893 <= a <= 892) by (pose proof (sc_range (p1 - q1)); unfold a; lia).
  destruct (adj_eq a Ha) as [E4 E3]. rewrite <- E4, <- E3.
  rewrite s2u_u2s, s2u_u2s_sub. reflexivity.
Qed.

Theorem simple_filter_eq : forall E l, bytes8 l -> go_simple_seg E l = lf_simple E l.
Proof.
  intros E l Hl. destruct (bytes8_inv l Hl) as (p3&p2&p1&p0&q0&q1&q2&q3&->&B3&B2&B1&B0&C0&C1&C2&C3).
  unfold go_simple_seg, lf_simple, seg8, g. cbn [nth].
  rewrite needs_filter_eq. destruct (lf_edge_ok E p1 p0 q0 q1); [|reflexivity].
  rewrite (filter2_eq p1 p0 q0 q1 B1 B0 C0 C1).
  destruct (go_filter2 p1 p0 q0 q1) as [x y]. reflexivity.
Qed.

Lemma filter6_eq p2 p1 p0 q0 q1 q2 :
  0 <= p2 <= 255 -> 0 <= p1 <= 255 -> 0 <= p0 <= 255 -> 0 <= q0 <= 255 -> 0 <= q1 <= 255 -> 0 <= q2 <= 255 ->
  go_filter6 p2 p1 p0 q0 q1 q2 =
  (let P2 := u2s p2 in let P1 := u2s p1 in let P0 := u2s p0 in
   let Q0 := u2s q0 in let Q1 := u2s q1 in let Q2 := u2s q2 in
   let w := sc (sc (P1 - Q1) + 3 * (Q0 - P0)) in
   let a1 := sc (asr (27 * w + 63) 7) in
   let a2 := sc (asr (18 * w + 63) 7) in
   let a3 := sc (asr (9 * w + 63) 7) in
   [s2u (P2 + a3); s2u (P1 + a2); s2u (P0 + a1); s2u (Q0 - a1); s2u (Q1 - a2); s2u (Q2 - a3)]).
Proof.
  intros. unfold go_filter6. cbv zeta.
  replace (u2s p1 - u2s q1) with (p1 - q1) by (unfold u2s; lia).
  replace (u2s q0 - u2s p0) with (q0 - p0) by (unfold u2s; lia).
  change gsclip1 with sc.
  replace (sc (p1 - q1) + 3 * (q0 - p0)) with (3 * (q0 - p0) + sc (p1 - q1)) by lia.
  set (w := sc (3 * (q0 - p0) + sc (p1 - q1))).
  assert (Hw : -128 <= w <= 127) by apply sc_range.
  pose proof (proj1 (forallb_forall _ _) w_sweep w (in_zrange (-128) 256 w ltac:(lia) ltac:(lia))) as Hx.
  unfold w_ok in Hx. rewrite !andb_true_iff in Hx. destruct Hx as [[W1 W2] W3].
  apply Z.eqb_eq in W1, W2, W3. rewrite W1, W2, W3.
  rewrite !s2u_u2s, !s2u_u2s_sub. reflexivity.
Qed.

Theorem mbedge_filter_eq : forall E I T l, bytes8 l -> go_loop26_seg E I T l = lf_mbedge T I E l.
Proof.
  intros E I T l Hl. destruct (bytes8_inv l Hl) as (p3&p2&p1&p0&q0&q1&q2&q3&->&B3&B2&B1&B0&C0&C1&C2&C3).
  unfold go_loop26_seg, lf_mbedge, seg8, g. cbn [nth].
  rewrite needs_filter2_eq, hev_eq.
  destruct (lf_filter_yes I E p3 p2 p1 p0 q0 q1 q2 q3); [|reflexivity].
  destruct (lf_hev T p1 p0 q0 q1).
  - rewrite (filter2_eq p1 p0 q0 q1 B1 B0 C0 C1).
    destruct (go_filter2 p1 p0 q0 q1) as [x y]. reflexivity.
  - rewrite (filter6_eq p2 p1 p0 q0 q1 q2 B2 B1 B0 C0 C1 C2). reflexivity.
Qed.

Lemma filter4_eq p1 p0 q0 q1 :
  0 <= p1 <= 255 -> 0 <= p0 <= 255 -> 0 <= q0 <= 255 -> 0 <= q1 <= 255 ->
  go_filter4 p1 p0 q0 q1 =
  (let '(np0, nq0, a0) := common_adjust false p1 p0 q0 q1 in
   let a := asr (a0 + 1) 1 in
   (s2u (u2s p1 + a), np0, nq0, s2u (u2s q1 - a))).
Proof.
  intros H1 H2 H3 H4. unfold common_adjust, go_filter4. cbv zeta.
  replace (u2s q0 - u2s p0) with (q0 - p0) by (unfold u2s; lia).
  replace (0 + 3 * (q0 - p0)) with (3 * (q0 - p0)) by lia.
  set (a := 3 * (q0 - p0)).
  assert (Ha : -893 <= a <= 892) by (unfold a; lia).
  destruct (adj_eq a Ha) as [E4 E3]. rewrite <- E4, <- E3.
  rewrite !s2u_u2s, !s2u_u2s_sub. reflexivity.
Qed.

Theorem subblock_filter_eq : forall E I T l, bytes8 l -> go_loop24_seg E I T l = lf_subblock T I E l.
Proof.
  intros E I T l Hl. destruct (bytes8_inv l Hl) as (p3&p2&p1&p0&q0&q1&q2&q3&->&B3&B2&B1&B0&C0&C1&C2&C3).
  unfold go_loop24_seg, lf_subblock, seg8, g. cbn [nth].
  rewrite needs_filter2_eq, hev_eq.
  destruct (lf_filter_yes I E p3 p2 p1 p0 q0 q1 q2 q3); [|reflexivity].
  destruct (lf_hev T p1 p0 q0 q1).
  - rewrite (filter2_eq p1 p0 q0 q1 B1 B0 C0 C1).
    destruct (go_filter2 p1 p0 q0 q1) as [x y]. reflexivity.
  - rewrite (filter4_eq p1 p0 q0 q1 B1 B0 C0 C1).
    destruct (common_adjust false p1 p0 q0 q1) as [[x y] z]. reflexivity.
Qed.

Example bytes8_example : bytes8 [10; 20; 30; 120; 140; 33; 22; 11].
Proof. split; [reflexivity|]. repeat constructor; lia. Qed.

(** Hypotheses of nz_code_sound are met by a non-trivial block (end of block at 3). *)
Example nz_code_example :
  let c := [7; -3; 0; 0; 12; 0; 0; 0; 0; 0; 0; 0; 0; 0; 0; 0] in
  (forall n, 3 <= n < 16 -> nthZ c (nthZ zigzag n 0) 0 = 0) /\ go_nz_code 3 true = 2.
Proof.
  split; [|reflexivity]. intros n Hn.
  assert (H : n = 3 \/ n = 4 \/ n = 5 \/ n = 6 \/ n = 7 \/ n = 8 \/ n = 9 \/ n = 10 \/ n = 11 \/
              n = 12 \/ n = 13 \/ n = 14 \/ n = 15) by lia.
  repeat (destruct H as [->|H]; [reflexivity|]). subst n. reflexivity.
Qed.
