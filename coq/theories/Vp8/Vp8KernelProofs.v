(** Proofs that the Go decoder's short-cuts and table/unsigned formulations
    equal the RFC 6386 definitions of Vp8Kernels.v / Vp8Bool.v. *)
From Coq Require Import List ZArith Lia Bool.
From Coq Require Import ZifyBool.
From Webp Require Import Vp8.Vp8Bool Vp8.Vp8Tables Vp8.Vp8Syntax Vp8.Vp8Kernels.
Import ListNotations.
Open Scope Z_scope.

Ltac Zify.zify_post_hook ::= Z.div_mod_to_equations.

(** * lists of 16 coefficients *)
Lemma list16 {A} (l : list A) : length l = 16%nat ->
  exists a0 a1 a2 a3 a4 a5 a6 a7 a8 a9 a10 a11 a12 a13 a14 a15,
    l = [a0; a1; a2; a3; a4; a5; a6; a7; a8; a9; a10; a11; a12; a13; a14; a15].
Proof.
  intros H.
  do 16 (destruct l as [|? l]; [discriminate H|]).
  destruct l; [|discriminate H]. repeat eexists.
Qed.


(** * IDCT: the Go full transform is the RFC transform *)
Lemma go_col_eq i0 i1 i2 i3 : go_col i0 i1 i2 i3 = idct1 i0 i1 i2 i3.
Proof.
  unfold go_col, idct1, mul1, mul2, sinpi8sqrt2, cospi8sqrt2minus1.
  f_equal; [f_equal; [f_equal|]|]; lia.
Qed.

Lemma go_row_eq t0 t1 t2 t3 :
  go_row t0 t1 t2 t3 =
  let '(y0, y1, y2, y3) := idct1 t0 t1 t2 t3 in
  [asr (y0 + 4) 3; asr (y1 + 4) 3; asr (y2 + 4) 3; asr (y3 + 4) 3].
Proof.
  unfold go_row, idct1, mul1, mul2, sinpi8sqrt2, cospi8sqrt2minus1.
  cbv zeta. repeat (apply f_equal2; [apply (f_equal (fun x => asr x 3)); lia|]). reflexivity.
Qed.

Theorem go_transform_one_eq_idct : forall c, go_transform_one c = idct c.
Proof.
  intros c. unfold go_transform_one, idct.
  rewrite !go_col_eq.
  change (g c (4 + 0)) with (g c 4). change (g c (8 + 0)) with (g c 8). change (g c (12 + 0)) with (g c 12).
  change (g c (4 + 1)) with (g c 5). change (g c (8 + 1)) with (g c 9). change (g c (12 + 1)) with (g c 13).
  change (g c (4 + 2)) with (g c 6). change (g c (8 + 2)) with (g c 10). change (g c (12 + 2)) with (g c 14).
  change (g c (4 + 3)) with (g c 7). change (g c (8 + 3)) with (g c 11). change (g c (12 + 3)) with (g c 15).
  destruct (idct1 (g c 0) (g c 4) (g c 8) (g c 12)) as [[[a0 a1] a2] a3].
  destruct (idct1 (g c 1) (g c 5) (g c 9) (g c 13)) as [[[b0 b1] b2] b3].
  destruct (idct1 (g c 2) (g c 6) (g c 10) (g c 14)) as [[[c0 c1] c2] c3].
  destruct (idct1 (g c 3) (g c 7) (g c 11) (g c 15)) as [[[d0 d1] d2] d3].
  rewrite !go_row_eq. reflexivity.
Qed.

(** * DC-only and three-coefficient short-cuts *)
Theorem transform_dc_eq : forall dc,
  go_transform_dc (dc :: repeat 0 15) = idct (dc :: repeat 0 15).
Proof.
  intros dc. unfold go_transform_dc, idct, idct1, g, asr, sinpi8sqrt2, cospi8sqrt2minus1.
  cbn [nth Nat.add app repeat].
  change (0 * 35468) with 0. change (0 * 20091) with 0. change (0 / 2 ^ 16) with 0.
  cbn [app]. repeat (f_equal; try lia).
Qed.

Theorem transform_ac3_eq : forall c0 c1 c4,
  let c := [c0; c1; 0; 0; c4; 0; 0; 0; 0; 0; 0; 0; 0; 0; 0; 0] in
  go_transform_ac3 c = idct c.
Proof.
  intros c0 c1 c4 c. subst c.
  unfold go_transform_ac3, idct, idct1, mul1, mul2, g, asr, sinpi8sqrt2, cospi8sqrt2minus1.
  cbn [nth Nat.add app].
  change (0 * 35468) with 0. change (0 * 20091) with 0. change (0 / 2 ^ 16) with 0.
  cbn [app]. repeat (f_equal; try (f_equal; lia)).
Qed.

(** * WHT *)
Theorem go_wht_eq_iwht : forall c, length c = 16%nat -> go_wht c = iwht c.
Proof.
  intros c H. destruct (list16 c H) as (a0&a1&a2&a3&a4&a5&a6&a7&a8&a9&a10&a11&a12&a13&a14&a15&->).
  unfold go_wht, iwht, iwht1, g. cbn [nth Nat.add app].
  repeat (f_equal; try (f_equal; f_equal; lia)).
Qed.

Theorem wht_dc_only_eq : forall dc,
  go_wht_dc_only (dc :: repeat 0 15) = iwht (dc :: repeat 0 15).
Proof.
  intros dc. unfold go_wht_dc_only, iwht, iwht1, g. cbn [nth Nat.add app repeat].
  repeat (f_equal; try (f_equal; f_equal; lia)).
Qed.

(** * The 2-bit code never selects a short-cut that drops a coefficient.
    [nz] is the end-of-block position reported by the token reader: every
    coefficient at a zig-zag position >= nz is zero. *)
Lemma rfc_zigzag_eq : zigzag = rfc_zigzag.
Proof. reflexivity. Qed.

Theorem nz_code_sound : forall c nz, length c = 16%nat -> 0 <= nz <= 16 ->
  (forall n, nz <= n < 16 -> nthZ c (nthZ zigzag n 0) 0 = 0) ->
  go_do_transform (go_nz_code nz (negb (g c 0 =? 0))) c = idct c.
Proof.
  intros c nz H Hnz Hz.
  destruct (list16 c H) as (a0&a1&a2&a3&a4&a5&a6&a7&a8&a9&a10&a11&a12&a13&a14&a15&->).
  rewrite rfc_zigzag_eq in Hz.
  unfold go_nz_code.
  destruct (Z.ltb_spec 3 nz) as [H3|H3].
  { unfold go_do_transform. cbn [Z.eqb]. apply go_transform_one_eq_idct. }
  (* positions 3..15 are zero: indices 8 5 2 3 6 9 12 13 10 7 11 14 15 *)
  assert (Z3 := Hz 3 ltac:(lia)). assert (Z4 := Hz 4 ltac:(lia)). assert (Z5 := Hz 5 ltac:(lia)).
  assert (Z6 := Hz 6 ltac:(lia)). assert (Z7 := Hz 7 ltac:(lia)). assert (Z8 := Hz 8 ltac:(lia)).
  assert (Z9 := Hz 9 ltac:(lia)). assert (Z10 := Hz 10 ltac:(lia)). assert (Z11 := Hz 11 ltac:(lia)).
  assert (Z12 := Hz 12 ltac:(lia)). assert (Z13 := Hz 13 ltac:(lia)). assert (Z14 := Hz 14 ltac:(lia)).
  assert (Z15 := Hz 15 ltac:(lia)).
  unfold nthZ, rfc_zigzag in Z3, Z4, Z5, Z6, Z7, Z8, Z9, Z10, Z11, Z12, Z13, Z14, Z15.
  cbn in Z3, Z4, Z5, Z6, Z7, Z8, Z9, Z10, Z11, Z12, Z13, Z14, Z15. subst.
  destruct (Z.ltb_spec 1 nz) as [H1|H1].
  { unfold go_do_transform. cbn [Z.eqb]. apply transform_ac3_eq. }
  (* nz <= 1: positions 1, 2 (indices 1, 4) are zero too *)
  assert (Z1 := Hz 1 ltac:(lia)). assert (Z2 := Hz 2 ltac:(lia)).
  unfold nthZ, rfc_zigzag in Z1, Z2. cbn in Z1, Z2. subst.
  unfold g. cbn [nth].
  destruct (Z.eqb_spec a0 0) as [->|Hne]; cbn [negb].
  - unfold go_do_transform. cbn [Z.eqb]. vm_compute. reflexivity.
  - unfold go_do_transform. cbn [Z.eqb]. apply (transform_dc_eq a0).
Qed.
