(** Encoder-side data path pieces relevant to "no drift" (C06): the encoder's inverse
    transform on a reference block, its quantiser step sizes (setupSegment) against the
    decoder's dequantisation factors derived from the header the encoder writes
    (writeQuantParams), skipped macroblocks, and the range of coded levels. *)
From Coq Require Import List ZArith Lia Bool.
From WebpGen Require Tables.
From Webp Require Import Base.Res Vp8.Vp8Bool Vp8.Vp8Tables Vp8.Vp8Syntax Vp8.Vp8Kernels Vp8.Vp8KernelProofs
  Vp8.Vp8Recon Vp8.Vp8Filter Vp8.Vp8Spec.
Import ListNotations.
Open Scope Z_scope.

Ltac Zify.zify_post_hook ::= Z.div_mod_to_equations.

(** dsp.iTransformOne(ref, in, dst): dst = clip8(ref + (x >> 3)) with the same two passes
    as the decoder's transformOne *)
Definition enc_itransform (ref c : list Z) : list Z :=
  map (fun '(r, x) => clamp255 (r + x)) (combine ref (go_transform_one c)).

Theorem itransform_eq_transform : forall ref c, enc_itransform ref c = add_residual ref (idct c).
Proof. intros ref c. unfold enc_itransform, add_residual. rewrite go_transform_one_eq_idct. reflexivity. Qed.

(** setupSegment: quantiser step sizes of a segment with index q; the deltas are the
    ones written by writeQuantParams (fields of q_hdr) *)
Definition enc_clamp (v lo hi : Z) : Z := if v <? lo then lo else if hi <? v then hi else v.
Definition enc_dq (qh : q_hdr) (q : Z) : dqf :=
  let y2dc := nthZ dc_table (enc_clamp (q + q_y2dc qh) 0 127) 0 * 2 in
  mkDq (nthZ dc_table (enc_clamp (q + q_y1dc qh) 0 127) 0)
       (nthZ ac_table (enc_clamp q 0 127) 0)
       (if y2dc <? 8 then 8 else y2dc)
       (nthZ WebpGen.Tables.lossy_KAcTable2 (enc_clamp (q + q_y2ac qh) 0 127) 0)
       (nthZ dc_table (enc_clamp (q + q_uvdc qh) 0 117) 0)
       (nthZ ac_table (enc_clamp (q + q_uvac qh) 0 127) 0).

Definition enc_tab_ok (j : Z) : bool :=
  (nthZ WebpGen.Tables.lossy_KAcTable2 j 0 =? Z.max 8 (nthZ ac_table j 0 * 155 / 100)) &&
  (8 <=? nthZ dc_table j 0 * 2) && uvdc_ok j.

Lemma enc_tab_sweep : forallb enc_tab_ok (zrange 0 128) = true.
Proof. vm_compute. reflexivity. Qed.

Theorem enc_dequant_eq_dec : forall qh q, enc_dq qh q = dq_of qh q.
Proof.
  intros qh q. unfold enc_dq, dq_of, qidx.
  change enc_clamp with (fun v lo hi => clampz lo hi v). cbv beta zeta.
  pose proof enc_tab_sweep as H.
  assert (T : forall x, let j := clampz 0 127 x in enc_tab_ok j = true).
  { intros x j. assert (Hr : 0 <= j <= 127) by (apply clampz_range; lia).
    exact (proj1 (forallb_forall _ _) H j (in_zrange 0 128 j ltac:(lia) ltac:(lia))). }
  f_equal.
  - specialize (T (q + q_y2dc qh)). cbv zeta in T. unfold enc_tab_ok in T.
    rewrite !andb_true_iff in T. destruct T as [[_ T] _]. apply Z.leb_le in T.
    destruct (nthZ dc_table (clampz 0 127 (q + q_y2dc qh)) 0 * 2 <? 8) eqn:E; [lia|]. apply Z.mul_comm.
  - specialize (T (q + q_y2ac qh)). cbv zeta in T. unfold enc_tab_ok in T.
    rewrite !andb_true_iff in T. destruct T as [[T _] _]. apply Z.eqb_eq in T. exact T.
  - specialize (T (q + q_uvdc qh)). cbv zeta in T. unfold enc_tab_ok in T.
    rewrite !andb_true_iff in T. destruct T as [_ T]. unfold uvdc_ok in T. apply Z.eqb_eq in T.
    rewrite T. f_equal. unfold clampz.
    destruct (q + q_uvdc qh <? 0) eqn:E1; [lia|].
    destruct (127 <? q + q_uvdc qh) eqn:E2; destruct (117 <? q + q_uvdc qh) eqn:E3; lia.
Qed.

(** A skipped macroblock (all levels zero): the decoder's skip path adds a zero residual,
    i.e. reconstructs the prediction alone. *)
Lemma clamp255_byte p : 0 <= p <= 255 -> clamp255 (p + 0) = p.
Proof. intros H. unfold clamp255, clampz. destruct (p + 0 <? 0) eqn:E1; [lia|]. destruct (255 <? p + 0) eqn:E2; lia. Qed.

Theorem skip_sound : forall pred, length pred = 16%nat -> Forall (fun x => 0 <= x <= 255) pred ->
  idct (repeat 0 16) = repeat 0 16 /\ iwht (repeat 0 16) = repeat 0 16 /\
  add_residual pred (idct (repeat 0 16)) = pred.
Proof.
  intros pred Hl Hf. split; [reflexivity|]. split; [reflexivity|].
  change (idct (repeat 0 16)) with (repeat 0 16).
  do 16 (destruct pred as [|? pred]; [discriminate Hl|]). destruct pred; [|discriminate Hl].
  repeat match goal with H : Forall _ (_ :: _) |- _ => inversion H; clear H; subst end.
  unfold add_residual. cbn [repeat combine map]. rewrite !clamp255_byte by assumption. reflexivity.
Qed.

(** Every level magnitude 1..2114 (the encoder caps at 2047) has exactly one token:
    a leaf of the value tree with base <= a < base + 2^(number of extra bits). *)
Fixpoint tree_leaves {A} (t : tree A) : list A :=
  match t with Leaf a => [a] | Node _ z o => tree_leaves z ++ tree_leaves o end.

Definition level_leaves (a : Z) : list (Z * list Z) :=
  filter (fun '(base, extra) => (base <=? a) && (a <? base + 2 ^ Z.of_nat (length extra)))
         (tree_leaves value_tree).

Lemma level_sweep : forallb (fun a => Nat.eqb (length (level_leaves a)) 1) (zrange 1 2114) = true.
Proof. vm_compute. reflexivity. Qed.

Theorem level_range : forall a, 1 <= a <= 2114 -> length (level_leaves a) = 1%nat.
Proof.
  intros a H.
  pose proof (proj1 (forallb_forall _ _) level_sweep a (in_zrange 1 2114 a ltac:(lia) ltac:(lia))) as Hx.
  cbv beta in Hx. apply Nat.eqb_eq in Hx. exact Hx.
Qed.

(** coded level times step size is stored on 16 bits on both sides by the same conversion *)
Theorem level_store_agrees : forall level dqe dqd, dqe = dqd -> wrap16 (level * dqe) = wrap16 (level * dqd).
Proof. intros level dqe dqd ->. reflexivity. Qed.

(** Full statement (not proved): for an encoder data path [enc] mapping a source picture, options
    and heuristic choices to the emitted bytes and the reconstruction it used as reference,
    every well-formed choice gives bytes that the specification decodes, before the loop
    filter, to exactly that reconstruction, with the source's dimensions. *)
Definition no_drift_statement {Src Opts Choices : Type}
  (enc : Src -> Opts -> Choices -> list Z * (Z * Z * planes)) (wf : Src -> Opts -> Choices -> Prop) : Prop :=
  forall s o c, wf s o c -> decode_unfiltered (fst (enc s o c)) = Ok (snd (enc s o c)).
