(** C06 - no drift.  Encoder-side reconstruction of a key frame from its choices (modes and
    quantised levels), modelled from internal/lossy/encode_frame.go reconstructMB /
    encodeI4Residuals: levels are kept in raster order and dequantised with the encoder's own
    step sizes (setupSegment: Vp8EncPath.enc_dq), the inverse WHT (dsp.TransformWHT) feeds the
    DC of the 16 luma blocks, every block goes through dsp.ITransform onto the prediction
    built from the encoder's own reconstructed neighbours, 4x4 blocks one after the other.
    [enc_mb_eq_dec]: for one macroblock this is the decoder-side reconstruction (Vp8Recon) of
    the syntax elements recorded for it; [no_drift]: for the whole frame, what the
    specification decoder reconstructs (before the loop filter) from the emitted bytes is the
    encoder's reconstruction, and the dimensions are the source's. *)
From Coq Require Import List ZArith Lia Bool.
From Webp Require Import Base.Res Vp8.Vp8Bool Vp8.Vp8BoolAbs Vp8.Vp8BoolEnc Vp8.Vp8Tables Vp8.Vp8Syntax
  Vp8.Vp8SyntaxRT Vp8.Vp8TokenRT Vp8.Vp8ModeRT Vp8.Vp8Kernels Vp8.Vp8KernelProofs Vp8.Vp8Recon Vp8.Vp8Filter
  Vp8.Vp8Spec Vp8.Vp8FrameRT Vp8.Vp8EncPath.
Import ListNotations.
Open Scope Z_scope.

(** * levels: zig-zag list (as recorded into tokens) and raster block (as kept in MBEncInfo.Coeffs) *)
Definition level_at (first : Z) (ls : list Z) (n : Z) : Z :=
  if (first <=? n) && (n <? first + Z.of_nat (length ls)) then nth (Z.to_nat (n - first)) ls 0 else 0.

Definition raster_of (first : Z) (ls : list Z) : list Z := map (level_at first ls) unzig.

(** DequantCoeffs: out[i] = int16(in[i] * q), q = DC step for index 0 *)
Definition enc_dequant (dc ac : Z) (lv : list Z) : list Z :=
  map (fun '(i, v) => wrap16 (v * (if i =? 0 then dc else ac))) (combine (zrange 0 16) lv).

Lemma tok_lookup_acc : forall ls first acc n, first <= n ->
  tok_lookup (acc_of first ls acc) n =
  (if n <? first + Z.of_nat (length ls)
   then (let v := nth (Z.to_nat (n - first)) ls 0 in if v =? 0 then tok_lookup acc n else v)
   else tok_lookup acc n).
Proof.
  induction ls as [|v tl IH]; intros first acc n Hn; cbn [acc_of length].
  - rewrite Z.add_0_r. destruct (Z.ltb_spec n first); [lia|reflexivity].
  - destruct (Z.eq_dec n first) as [->|Hne].
    + (* position of v: nothing after it stores at [first] *)
      replace (first - first) with 0 by lia. cbn [Z.to_nat nth].
      assert (E : first <? first + Z.of_nat (S (length tl)) = true) by (apply Z.ltb_lt; lia). rewrite E.
      assert (G : forall l f a, first < f -> tok_lookup (acc_of f l a) first = tok_lookup a first).
      { clear. induction l as [|x t IHl]; intros f a Hf; cbn [acc_of]; [reflexivity|].
        rewrite IHl by lia. destruct (x =? 0); [reflexivity|]. cbn [tok_lookup].
        destruct (Z.eqb_spec f first); [lia|reflexivity]. }
      rewrite G by lia. destruct (Z.eqb_spec v 0) as [->|Hv]; [reflexivity|].
      cbn [tok_lookup]. rewrite Z.eqb_refl. reflexivity.
    + rewrite IH by lia.
      replace (first + 1 + Z.of_nat (length tl)) with (first + Z.of_nat (S (length tl))) by lia.
      destruct (n <? first + Z.of_nat (S (length tl))) eqn:E.
      * replace (Z.to_nat (n - first)) with (S (Z.to_nat (n - (first + 1)))) by lia. cbn [nth].
        destruct (nth (Z.to_nat (n - (first + 1))) tl 0 =? 0); [|reflexivity].
        destruct (v =? 0); [reflexivity|]. cbn [tok_lookup]. destruct (Z.eqb_spec first n); [lia|reflexivity].
      * destruct (v =? 0); [reflexivity|]. cbn [tok_lookup]. destruct (Z.eqb_spec first n); [lia|reflexivity].
Qed.

Lemma unzig_range : Forall (fun n => 0 <= n < 16) unzig.
Proof. repeat constructor; lia. Qed.

(** the decoder's dequantised block = the encoder's dequantisation of the raster levels *)
Lemma deq_link first dc ac ls : 0 <= first ->
  deq first dc ac ls = enc_dequant dc ac (raster_of first ls).
Proof.
  intros H0. unfold deq, dequant_block, enc_dequant, raster_of, unzig.
  change (zrange 0 16) with [0; 1; 2; 3; 4; 5; 6; 7; 8; 9; 10; 11; 12; 13; 14; 15].
  cbn [map combine].
  assert (L : forall n, 0 <= n ->
            (let v := tok_lookup (acc_of first ls []) n in if v =? 0 then 0 else wrap16 (v * (if n =? 0 then dc else ac)))
            = wrap16 (level_at first ls n * (if n =? 0 then dc else ac))).
  { intros n Hn. cbv zeta. unfold level_at.
    destruct (Z.leb_spec first n) as [Hf|Hf]; cbn [andb].
    - rewrite tok_lookup_acc by lia. cbn [tok_lookup].
      destruct (n <? first + Z.of_nat (length ls)); [|reflexivity].
      destruct (nth (Z.to_nat (n - first)) ls 0 =? 0) eqn:E0.
      + apply Z.eqb_eq in E0. rewrite E0. reflexivity.
      + rewrite E0. reflexivity.
    - assert (G : forall l f a, n < f -> tok_lookup (acc_of f l a) n = tok_lookup a n).
      { clear. induction l as [|x t IHl]; intros f a Hf; cbn [acc_of]; [reflexivity|].
        rewrite IHl by lia. destruct (x =? 0); [reflexivity|]. cbn [tok_lookup].
        destruct (Z.eqb_spec f n); [lia|reflexivity]. }
      rewrite G by lia. reflexivity. }
  repeat (apply f_equal2;
    [match goal with |- _ = wrap16 (level_at _ _ ?n * _) =>
       transitivity (wrap16 (level_at first ls n * (if n =? 0 then dc else ac))); [exact (L n ltac:(lia))|reflexivity] end|]).
  reflexivity.
Qed.

(** * encoder-side reconstruction of one macroblock *)
Definition enc_blocks (dc ac first : Z) (rows : list (list (list Z))) : list (list Z) :=
  map (fun ls => enc_dequant dc ac (raster_of first ls)) (concat rows).

Definition enc_recon_y16 (mode : Z) (q : dqf) (y2 : list Z) (ys : list (list (list Z))) (e : edges) : list (list Z) :=
  let pred := pred_block 16 4 mode (e_have_above e) (e_have_left e) (e_above_y e) (e_left_y e) (e_corner_y e) in
  let dcs := go_wht (enc_dequant (dq_y2dc q) (dq_y2ac q) (raster_of 0 y2)) in
  let blocks := map (fun '(dc, b) => rows4 (go_transform_one (set_dc dc b)))
                    (combine dcs (enc_blocks (dq_y1dc q) (dq_y1ac q) 1 ys)) in
  add_rows pred (blocks_to_rows 4 4 blocks).

Definition enc_recon_b (ext : list (list Z)) (bx by_ : nat) (mode : Z) (coeffs : list Z) : list (list Z) :=
  let pred := pred4 mode (ext_edge ext bx by_) in
  ext_set ext bx by_ (add_rows pred (rows4 (go_transform_one coeffs))).

Fixpoint enc_recon_b_row (ext : list (list Z)) (bx by_ : nat) (modes : list Z) (cs : list (list Z))
  : list (list Z) * list (list Z) :=
  match modes with
  | [] => (ext, cs)
  | m :: ms => match cs with [] => (ext, []) | c :: ctl => enc_recon_b_row (enc_recon_b ext bx by_ m c) (S bx) by_ ms ctl end
  end.

Fixpoint enc_recon_b_rows (ext : list (list Z)) (by_ : nat) (rows : list (list Z)) (cs : list (list Z)) : list (list Z) :=
  match rows with
  | [] => ext
  | ms :: tl => let '(ext1, cs1) := enc_recon_b_row ext 0 by_ ms cs in enc_recon_b_rows ext1 (S by_) tl cs1
  end.

Definition enc_recon_y4 (bmodes : list (list Z)) (q : dqf) (ys : list (list (list Z))) (e : edges) : list (list Z) :=
  let ext := enc_recon_b_rows (ext_init e) 0 bmodes (enc_blocks (dq_y1dc q) (dq_y1ac q) 0 ys) in
  map (fun row => firstn 16 (skipn 1 row)) (skipn 1 ext).

Definition enc_recon_c (mode : Z) (blocks : list (list Z)) (have_above have_left : bool)
  (above left : list Z) (corner : Z) : list (list Z) :=
  let pred := pred_block 8 3 mode have_above have_left above left corner in
  add_rows pred (blocks_to_rows 2 2 (map (fun b => rows4 (go_transform_one b)) blocks)).

(** the step sizes are the encoder's (setupSegment) for the segment's quantiser index *)
Definition enc_seg_dq (h : frame_hdr) (seg : Z) : dqf := enc_dq (fh_q h) (seg_q h seg).

Definition enc_recon_mb (h : frame_hdr) (m : mb_syn) (e : edges) : mbpix :=
  let mh := ms_hdr m in
  let q := enc_seg_dq h (mh_seg mh) in
  mkPix
    (if mh_is4 mh then enc_recon_y4 (mh_bmodes mh) q (ms_ys m) e else enc_recon_y16 (mh_ymode mh) q (ms_y2 m) (ms_ys m) e)
    (enc_recon_c (mh_uvmode mh) (enc_blocks (dq_uvdc q) (dq_uvac q) 0 (ms_us m)) (e_have_above e) (e_have_left e)
       (e_above_u e) (e_left_u e) (e_corner_u e))
    (enc_recon_c (mh_uvmode mh) (enc_blocks (dq_uvdc q) (dq_uvac q) 0 (ms_vs m)) (e_have_above e) (e_have_left e)
       (e_above_v e) (e_left_v e) (e_corner_v e)).

Lemma enc_recon_b_eq ext bx by_ m c : enc_recon_b ext bx by_ m c = recon_b ext bx by_ m c.
Proof. unfold enc_recon_b, recon_b. rewrite go_transform_one_eq_idct. reflexivity. Qed.

Lemma enc_recon_b_row_eq : forall ms ext bx by_ cs, enc_recon_b_row ext bx by_ ms cs = recon_b_row ext bx by_ ms cs.
Proof.
  induction ms as [|m ms IH]; intros ext bx by_ cs; cbn [enc_recon_b_row recon_b_row]; [reflexivity|].
  destruct cs as [|c ctl]; [reflexivity|]. rewrite enc_recon_b_eq. apply IH.
Qed.

Lemma enc_recon_b_rows_eq : forall rows ext by_ cs, enc_recon_b_rows ext by_ rows cs = recon_b_rows ext by_ rows cs.
Proof.
  induction rows as [|ms tl IH]; intros ext by_ cs; cbn [enc_recon_b_rows recon_b_rows]; [reflexivity|].
  rewrite enc_recon_b_row_eq. destruct (recon_b_row ext 0 by_ ms cs) as [ext1 cs1]. apply IH.
Qed.

Lemma enc_blocks_eq dc ac first rows : 0 <= first ->
  enc_blocks dc ac first rows = map (deq first dc ac) (concat rows).
Proof. intros H. unfold enc_blocks. apply map_ext. intros ls. symmetry. apply deq_link. exact H. Qed.

Lemma map_pair_ext {A B C} (f g : A * B -> C) l : (forall a b, f (a, b) = g (a, b)) -> map f l = map g l.
Proof. intros H. apply map_ext. intros [a b]. apply H. Qed.

(** One macroblock: the encoder's reconstruction = the decoder-side reconstruction of the recorded
    syntax elements, on the same neighbouring samples. *)
Theorem enc_mb_eq_dec h m e :
  enc_recon_mb h m e =
  recon_mb (ms_hdr m) (res_of (seg_dq h (mh_seg (ms_hdr m))) (mh_is4 (ms_hdr m)) (ms_y2 m) (ms_ys m) (ms_us m) (ms_vs m)) e.
Proof.
  unfold enc_recon_mb, recon_mb, enc_seg_dq, seg_dq. rewrite enc_dequant_eq_dec.
  set (q := dq_of (fh_q h) (seg_q h (mh_seg (ms_hdr m)))).
  unfold res_of. destruct (mh_is4 (ms_hdr m)) eqn:E4.
  - f_equal.
    + unfold enc_recon_y4, recon_y4. cbn [r_y]. rewrite enc_recon_b_rows_eq, enc_blocks_eq by lia. reflexivity.
    + unfold enc_recon_c, recon_c. cbn [r_u]. rewrite enc_blocks_eq by lia.
      f_equal. f_equal. apply map_ext. intros b. rewrite go_transform_one_eq_idct. reflexivity.
    + unfold enc_recon_c, recon_c. cbn [r_v]. rewrite enc_blocks_eq by lia.
      f_equal. f_equal. apply map_ext. intros b. rewrite go_transform_one_eq_idct. reflexivity.
  - f_equal.
    + unfold enc_recon_y16, recon_y16. cbn [r_y2 r_y]. rewrite enc_blocks_eq by lia.
      rewrite go_wht_eq_iwht. rewrite <- (deq_link 0 (dq_y2dc q) (dq_y2ac q) (ms_y2 m)) by lia.
      f_equal. f_equal. apply map_pair_ext. intros dc b. rewrite go_transform_one_eq_idct. reflexivity.
    + unfold enc_recon_c, recon_c. cbn [r_u]. rewrite enc_blocks_eq by lia.
      f_equal. f_equal. apply map_ext. intros b. rewrite go_transform_one_eq_idct. reflexivity.
    + unfold enc_recon_c, recon_c. cbn [r_v]. rewrite enc_blocks_eq by lia.
      f_equal. f_equal. apply map_ext. intros b. rewrite go_transform_one_eq_idct. reflexivity.
Qed.

(** a skipped macroblock has no level at all (encode_frame.go: Skip = no non-zero coefficient) *)
Definition empty_rows (n : nat) : list (list (list Z)) := repeat (repeat [] n) n.
Definition skip_canon (m : mb_syn) : Prop :=
  ms_y2 m = [] /\ ms_ys m = empty_rows 4 /\ ms_us m = empty_rows 2 /\ ms_vs m = empty_rows 2.

Lemma res_of_empty q is4 : res_of q is4 [] (empty_rows 4) (empty_rows 2) (empty_rows 2) = zero_res (negb is4).
Proof. destruct is4; reflexivity. Qed.

(** * the frame: macroblocks in raster order, each predicted from the encoder's own reconstruction *)
Fixpoint enc_row (h : frame_hdr) (aboves : list (option mbpix)) (left al : option mbpix) (mbs : list mb_syn)
  : list mbpix :=
  match aboves, mbs with
  | a :: rest, m :: mtl =>
    let ar := match rest with a' :: _ => a' | [] => None end in
    let pix := enc_recon_mb h m (mk_edges a left al ar) in
    pix :: enc_row h rest (Some pix) a mtl
  | _, _ => []
  end.

Fixpoint enc_rows (h : frame_hdr) (aboves : list (option mbpix)) (rows : list (list mb_syn)) : list (list mbpix) :=
  match rows with
  | [] => []
  | mbs :: rtl => let out := enc_row h aboves None None mbs in out :: enc_rows h (map Some out) rtl
  end.

(** the encoder's choices: skip only what has no level *)
Definition choices_ok (rows : list (list mb_syn)) : Prop :=
  Forall (Forall (fun m => mh_skip (ms_hdr m) = true -> skip_canon m)) rows.

Lemma enc_row_eq qk h : forall cols left al mbs,
  Forall (fun m => mh_skip (ms_hdr m) = true -> skip_canon m) mbs -> length mbs = length cols ->
  let r := row_syn qk h cols left al mbs in
  enc_row h (map cc_pix cols) (lc_pix left) al mbs = map fst (snd (fst (fst r))) /\
  map cc_pix (fst (fst (fst r))) = map Some (map fst (snd (fst (fst r)))).
Proof.
  induction cols as [|c rest IH]; intros left al mbs Hsk Hlen; destruct mbs as [|m mtl]; try discriminate Hlen;
    cbn [row_syn enc_row map fst snd].
  - split; reflexivity.
  - pose proof (Forall_inv Hsk) as Hm. pose proof (Forall_inv_tail Hsk) as Htl.
    assert (Ear : match map cc_pix rest with a' :: _ => a' | [] => None end
                  = match rest with c' :: _ => cc_pix c' | [] => None end) by (destruct rest; reflexivity).
    rewrite Ear. set (e := mk_edges (cc_pix c) (lc_pix left) al match rest with c' :: _ => cc_pix c' | [] => None end).
    destruct (mh_skip (ms_hdr m)) eqn:Esk.
    + destruct (Hm Esk) as (C1 & C2 & C3 & C4).
      assert (Epix : enc_recon_mb h m e = recon_mb (ms_hdr m) (zero_res (negb (mh_is4 (ms_hdr m)))) e).
      { rewrite enc_mb_eq_dec, C1, C2, C3, C4, res_of_empty. reflexivity. }
      rewrite Epix. set (pix := recon_mb (ms_hdr m) (zero_res (negb (mh_is4 (ms_hdr m)))) e).
      specialize (IH (mkLeft (snd (bctx_after (ms_hdr m) (cc_b c) (lc_b left)))
                             (skip_ctx (mh_is4 (ms_hdr m)) (lc_nz left)) (Some pix)) (cc_pix c) mtl Htl
                     ltac:(cbn [length] in Hlen; lia)).
      cbv zeta in IH. cbn [lc_pix] in IH.
      destruct (row_syn qk h rest _ (cc_pix c) mtl) as [[[cols' out] s0] sT]. cbn [fst snd] in IH |- *.
      destruct IH as [I1 I2]. cbn [map cc_pix fst]. rewrite I1, I2. split; reflexivity.
    + rewrite enc_mb_eq_dec.
      set (pix := recon_mb (ms_hdr m) _ e).
      specialize (IH (mkLeft (snd (bctx_after (ms_hdr m) (cc_b c) (lc_b left)))
                             (snd (nz_after (mh_is4 (ms_hdr m)) (cc_nz c) (lc_nz left) (ms_y2 m) (ms_ys m) (ms_us m) (ms_vs m)))
                             (Some pix)) (cc_pix c) mtl Htl ltac:(cbn [length] in Hlen; lia)).
      cbv zeta in IH. cbn [lc_pix] in IH.
      destruct (row_syn qk h rest _ (cc_pix c) mtl) as [[[cols' out] s0] sT]. cbn [fst snd] in IH |- *.
      destruct IH as [I1 I2]. cbn [map cc_pix fst]. rewrite I1, I2. split; reflexivity.
Qed.

Lemma wf_row_len h : forall cols left mbs, wf_row h cols left mbs -> length mbs = length cols.
Proof.
  induction cols as [|c rest IH]; intros left mbs H; destruct mbs as [|m mtl]; cbn [wf_row] in H; try contradiction; [reflexivity|].
  destruct H as (_ & _ & _ & _ & H). cbn [length]. f_equal. eapply IH. exact H.
Qed.

Lemma enc_rows_eq qk h : forall rows cols, choices_ok rows -> wf_rows_syn qk h cols rows ->
  enc_rows h (map cc_pix cols) rows = map (map fst) (fst (fst (rows_syn qk h cols rows))).
Proof.
  induction rows as [|mbs rtl IH]; intros cols Hc Hwf; cbn [enc_rows rows_syn]; [reflexivity|].
  cbn [wf_rows_syn] in Hwf. destruct Hwf as [Hrow Hrest].
  pose proof (enc_row_eq qk h cols left0 None mbs (Forall_inv Hc) (wf_row_len h _ _ _ Hrow)) as H. cbv zeta in H.
  destruct (row_syn qk h cols left0 None mbs) as [[[cols' out] s0] sT]. cbn [fst snd] in H, Hrest.
  destruct H as [H1 H2]. cbn [lc_pix left0] in H1.
  specialize (IH cols' (Forall_inv_tail Hc) Hrest).
  destruct (rows_syn qk h cols' rtl) as [[outs s0s] sTs]. cbn [fst snd map] in IH |- *.
  rewrite H1. f_equal. rewrite <- H2. exact IH.
Qed.

(** the encoder data path: choices (header, modes, levels) -> emitted bytes and reconstruction *)
Definition enc_frame (s : frame_syn) : Res (list Z) * (Z * Z * planes) :=
  let h := fs_hdr s in
  (emit_key_frame rfc_quirks s,
   (fh_w h, fh_h h, planes_of (fh_w h) (fh_h h) (enc_rows h (map cc_pix (fs_cols s)) (fs_rows s)))).

(** No drift: for every well-formed set of choices whose frame passes the encoder's size guards,
    the specification decoder reconstructs from the emitted bytes, before the loop filter,
    exactly the encoder's reconstruction, with the source's dimensions; with the loop filter off
    (level 0) the decoded picture itself is that reconstruction. *)
Theorem no_drift s bs : wf_frame_syn rfc_quirks s -> choices_ok (fs_rows s) ->
  fst (enc_frame s) = Ok bs ->
  decode_unfiltered bs = Ok (snd (enc_frame s)) /\
  (lf_level (fh_lf (fs_hdr s)) = 0 ->
   exists r, decode bs = Ok r /\ (dc_w r, dc_h r, dc_filtered r) = snd (enc_frame s)).
Proof.
  intros Hwf Hc Hemit. unfold enc_frame in *. cbn [fst snd] in *.
  destruct (vp8_emit_decode rfc_quirks s bs Hwf Hemit) as (r & Hdec & Hw & Hh & _ & Hunf & Hfil).
  pose proof Hwf as (_ & _ & _ & _ & _ & _ & Hrows & _).
  pose proof (enc_rows_eq rfc_quirks (fs_hdr s) (fs_rows s) (fs_cols s) Hc Hrows) as Henc.
  assert (Eu : dc_unfiltered r = planes_of (fh_w (fs_hdr s)) (fh_h (fs_hdr s))
                 (enc_rows (fs_hdr s) (map cc_pix (fs_cols s)) (fs_rows s))).
  { rewrite Hunf, Henc. unfold reconstruct. reflexivity. }
  split.
  - unfold decode_unfiltered, decode. rewrite Hdec. cbn [bind]. rewrite Hw, Hh, Eu. reflexivity.
  - intros Hlvl. exists r. split; [exact Hdec|].
    rewrite Hw, Hh, Hfil, <- Eu, Hunf. unfold reconstruct. cbn [fst snd]. rewrite Hlvl. reflexivity.
Qed.

(** * the hypotheses are satisfiable: a 16x16 frame with one 16x16-predicted macroblock carrying a
    Y2 block and one luma AC level, default probabilities, normal loop filter *)
Definition ex_hdr : frame_hdr :=
  mkFrame 16 16 0 0 false false (mkSeg false false false zeros4 zeros4 [255; 255; 255])
          (mkLf false 10 0 false zeros4 zeros4) 0 (mkQ 40 0 0 0 0 0) coeff_probs0 false 0.
Definition ex_mb : mb_syn :=
  mkMbSyn (mkMbHdr 0 false false DC_PRED [] TM_PRED) [3; -1]
          [[[2]; []; []; []]; [[]; []; []; []]; [[]; [0; 0; -5]; []; []]; [[]; []; []; []]]
          (empty_rows 2) [[[]; [1]]; [[]; []]].
Definition ex_frame : frame_syn := mkFrameSyn ex_hdr false false false [[ex_mb]].

Lemma probs_ok_b ps : forallb (fun bp => (0 <=? snd bp) && (snd bp <=? 255)) ps = true -> probs_ok ps.
Proof.
  intros H. apply Forall_forall. intros x Hx. rewrite forallb_forall in H. specialize (H x Hx).
  apply andb_true_iff in H. destruct H as [H1 H2]. apply Z.leb_le in H1, H2. lia.
Qed.

Lemma probs_ok_bb l : forallb (forallb (fun bp => (0 <=? snd bp) && (snd bp <=? 255))) l = true -> Forall probs_ok l.
Proof.
  intros H. apply Forall_forall. intros ps Hps. apply probs_ok_b. rewrite forallb_forall in H. exact (H ps Hps).
Qed.

Example ex_frame_wf : wf_frame_syn rfc_quirks ex_frame /\ choices_ok (fs_rows ex_frame) /\
  exists bs, emit_key_frame rfc_quirks ex_frame = Ok bs.
Proof.
  split; [|split].
  - unfold wf_frame_syn. cbv zeta.
    split.
    { unfold wf_frame_hdr, ex_frame, ex_hdr. cbn [fs_hdr fs_upd_seg fs_upd_lf fh_seg fh_lf fh_log2parts fh_q fh_probs fh_skip_prob fh_skip_enabled].
      split; [unfold wf_seg_hdr; cbn; repeat split; try lia; try reflexivity; repeat constructor; lia|].
      split; [unfold wf_lf_hdr; cbn; repeat split; try lia; try reflexivity; repeat constructor; lia|].
      split; [lia|]. split; [unfold wf_q_hdr; cbn; lia|]. split; [exact wf_probs_default|]. split; [lia|reflexivity]. }
    split; [cbn; lia|]. split; [cbn; lia|]. split; [reflexivity|]. split; [reflexivity|]. split; [reflexivity|].
    split.
    { cbn [wf_rows_syn ex_frame fs_rows fs_hdr fs_cols]. split; [|exact I].
      vm_compute. repeat split; try lia; try discriminate; repeat constructor; try lia; auto;
        try (let HH := fresh in intro HH; discriminate HH). }
    split.
    + apply probs_ok_b. vm_compute. reflexivity.
    + apply probs_ok_bb. vm_compute. reflexivity.
  - constructor; [constructor; [cbn; intros Hsk; discriminate Hsk|constructor]|constructor].
  - eexists. vm_compute. reflexivity.
Qed.
