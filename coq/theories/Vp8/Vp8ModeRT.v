(** Round trip of the per-macroblock header (RFC 6386 19.3, 11.2, 11.3): segment id,
    skip flag, luma mode, the 16 contextual sub-block modes, chroma mode, over
    (bit, probability) streams; generic tree-coding round trip (8.1). *)
From Coq Require Import List ZArith Lia Bool.
From Webp Require Import Vp8.Vp8Bool Vp8.Vp8BoolAbs Vp8.Vp8Tables Vp8.Vp8Syntax Vp8.Vp8SyntaxRT Vp8.Vp8TokenRT.
Import ListNotations.
Open Scope Z_scope.

(** * trees *)
Fixpoint tree_path {A} (eqb : A -> A -> bool) (t : tree A) (a : A) : option (list (nat * bool)) :=
  match t with
  | Leaf x => if eqb x a then Some [] else None
  | Node i z o =>
    match tree_path eqb z a with
    | Some p => Some ((i, false) :: p)
    | None => match tree_path eqb o a with Some p => Some ((i, true) :: p) | None => None end
    end
  end.

Definition e_tree {A} (eqb : A -> A -> bool) (t : tree A) (probs : list Z) (a : A) : list (bool * Z) :=
  match tree_path eqb t a with Some p => e_path probs p | None => [] end.

Lemma rt_tree {A} (eqb : A -> A -> bool) (Heq : forall x y, eqb x y = true -> x = y) :
  forall (t : tree A) probs a path d rest, tree_path eqb t a = Some path ->
  sync d (e_path probs path ++ rest) ->
  exists d', read_tree t probs d = (a, d') /\ sync d' rest.
Proof.
  induction t as [x|i z IHz o IHo]; intros probs a path d rest Hp Hs; cbn [tree_path read_tree] in *.
  - destruct (eqb x a) eqn:E; [|discriminate]. injection Hp as <-. apply Heq in E. subst.
    exists d. split; [reflexivity|exact Hs].
  - destruct (tree_path eqb z a) as [pz|] eqn:Ez.
    + injection Hp as <-. cbn [e_path map fst snd app] in Hs. apply sync_cons in Hs.
      destruct Hs as (d1 & E1 & S1). rewrite E1. eapply IHz; eauto.
    + destruct (tree_path eqb o a) as [po|] eqn:Eo; [|discriminate].
      injection Hp as <-. cbn [e_path map fst snd app] in Hs. apply sync_cons in Hs.
      destruct Hs as (d1 & E1 & S1). rewrite E1. eapply IHo; eauto.
Qed.

Lemma rt_etree {A} (eqb : A -> A -> bool) (Heq : forall x y, eqb x y = true -> x = y)
  (t : tree A) probs a d rest : tree_path eqb t a <> None ->
  sync d (e_tree eqb t probs a ++ rest) -> exists d', read_tree t probs d = (a, d') /\ sync d' rest.
Proof.
  intros Hn Hs. unfold e_tree in Hs. destruct (tree_path eqb t a) as [p|] eqn:E; [|congruence].
  eapply rt_tree; eauto.
Qed.

Lemma zeqb_sound x y : Z.eqb x y = true -> x = y.
Proof. apply Z.eqb_eq. Qed.

Definition oeqb (x y : option Z) : bool :=
  match x, y with Some a, Some b => a =? b | None, None => true | _, _ => false end.
Lemma oeqb_sound x y : oeqb x y = true -> x = y.
Proof. destruct x, y; cbn; try discriminate; try reflexivity. intros H. apply Z.eqb_eq in H. subst. reflexivity. Qed.

Lemma small_cases n m : 0 <= m < n -> n <= 10 ->
  m = 0 \/ m = 1 \/ m = 2 \/ m = 3 \/ m = 4 \/ m = 5 \/ m = 6 \/ m = 7 \/ m = 8 \/ m = 9.
Proof. lia. Qed.

Lemma bmode_has_path m : 0 <= m < 10 -> tree_path Z.eqb bmode_tree m <> None.
Proof. intros H. destruct (small_cases 10 m H ltac:(lia)) as [->|[->|[->|[->|[->|[->|[->|[->|[->| ->]]]]]]]]]; vm_compute; discriminate. Qed.
Lemma seg_has_path m : 0 <= m < 4 -> tree_path Z.eqb segment_tree m <> None.
Proof. intros H. assert (m = 0 \/ m = 1 \/ m = 2 \/ m = 3) as [->|[->|[->| ->]]] by lia; vm_compute; discriminate. Qed.
Lemma uv_has_path m : 0 <= m < 4 -> tree_path Z.eqb uv_mode_tree m <> None.
Proof. intros H. assert (m = 0 \/ m = 1 \/ m = 2 \/ m = 3) as [->|[->|[->| ->]]] by lia; vm_compute; discriminate. Qed.
Lemma ymode_has_path m : 0 <= m < 4 -> tree_path oeqb kf_ymode_tree (Some m) <> None.
Proof. intros H. assert (m = 0 \/ m = 1 \/ m = 2 \/ m = 3) as [->|[->|[->| ->]]] by lia; vm_compute; discriminate. Qed.
Lemma bpred_has_path : tree_path oeqb kf_ymode_tree None <> None.
Proof. vm_compute. discriminate. Qed.

(** * the 16 sub-block modes with their contexts *)
Definition bprobs (a l : Z) : list Z := nthZ (nthZ kf_bmode_probs a []) l [].

Fixpoint e_brow (above : list Z) (l : Z) (modes : list Z) : list (bool * Z) :=
  match above, modes with
  | a :: tl, m :: ms => e_tree Z.eqb bmode_tree (bprobs a l) m ++ e_brow tl m ms
  | _, _ => []
  end.

Lemma rt_brow : forall above modes l d rest, length modes = length above ->
  Forall (fun m => 0 <= m < 10) modes -> sync d (e_brow above l modes ++ rest) ->
  exists d', bmode_row above l d = (modes, d') /\ sync d' rest.
Proof.
  induction above as [|a tl IH]; intros modes l d rest Hl Hm Hs; destruct modes as [|m ms]; try discriminate Hl;
    cbn [bmode_row e_brow] in *.
  - exists d. split; [reflexivity|exact Hs].
  - rewrite <- app_assoc in Hs. fold (bprobs a l).
    destruct (rt_etree Z.eqb zeqb_sound bmode_tree (bprobs a l) m d _ (bmode_has_path m (Forall_inv Hm)) Hs) as (d1 & E1 & S1).
    rewrite E1.
    destruct (IH ms m d1 rest ltac:(cbn [length] in Hl; lia) (Forall_inv_tail Hm) S1) as (d2 & E2 & S2). rewrite E2.
    exists d2. split; [reflexivity|exact S2].
Qed.

Lemma last_default {A} (l : list A) x d1 d2 : last (x :: l) d1 = last (x :: l) d2.
Proof. revert x. induction l as [|y t IH]; intros x; [reflexivity|]. change (last (y :: t) d1 = last (y :: t) d2). apply IH. Qed.

Lemma last_in {A} (l : list A) x d : In (last (x :: l) d) (x :: l).
Proof.
  revert x. induction l as [|y t IH]; intros x; [left; reflexivity|].
  change (In (last (y :: t) d) (x :: y :: t)). right. apply IH.
Qed.

Fixpoint e_brows (above lefts : list Z) (rows : list (list Z)) : list (bool * Z) :=
  match lefts, rows with
  | l :: ltl, row :: rtl => e_brow above l row ++ e_brows row ltl rtl
  | _, _ => []
  end.

Fixpoint bleft (lefts : list Z) (rows : list (list Z)) : list Z :=
  match lefts, rows with
  | l :: ltl, row :: rtl => last row l :: bleft ltl rtl
  | _, _ => []
  end.

Lemma rt_brows : forall lefts rows above d rest, length rows = length lefts ->
  Forall (fun row => length row = length above /\ Forall (fun m => 0 <= m < 10) row) rows ->
  sync d (e_brows above lefts rows ++ rest) ->
  exists d', bmode_rows above lefts d = (rows, last rows above, bleft lefts rows, d') /\ sync d' rest.
Proof.
  induction lefts as [|l ltl IH]; intros rows above d rest Hl Hr Hs; destruct rows as [|row rtl]; try discriminate Hl;
    cbn [bmode_rows e_brows bleft] in *.
  - exists d. split; [reflexivity|exact Hs].
  - rewrite <- app_assoc in Hs. destruct (Forall_inv Hr) as [Hlen Hmodes].
    destruct (rt_brow above row l d _ Hlen Hmodes Hs) as (d1 & E1 & S1). rewrite E1.
    assert (Hr2 : Forall (fun r => length r = length row /\ Forall (fun m => 0 <= m < 10) r) rtl).
    { eapply Forall_impl; [|exact (Forall_inv_tail Hr)]. cbv beta. intros r [H1 H2]. split; [lia|exact H2]. }
    destruct (IH rtl row d1 rest ltac:(cbn [length] in Hl; lia) Hr2 S1) as (d2 & E2 & S2).
    rewrite E2. exists d2. split; [|exact S2]. f_equal. f_equal. f_equal.
    destruct rtl as [|r1 rt]; [reflexivity|]. change (last (row :: r1 :: rt) above) with (last (r1 :: rt) above). apply last_default.
Qed.

(** * the macroblock header *)
Definition e_mb_hdr (h : frame_hdr) (above_b left_b : list Z) (mh : mb_hdr) : list (bool * Z) :=
  (if sg_update_map (fh_seg h) then e_tree Z.eqb segment_tree (sg_probs (fh_seg h)) (mh_seg mh) else []) ++
  (if fh_skip_enabled h then [(mh_skip mh, fh_skip_prob h)] else []) ++
  e_tree oeqb kf_ymode_tree kf_ymode_probs (if mh_is4 mh then None else Some (mh_ymode mh)) ++
  (if mh_is4 mh then e_brows above_b left_b (mh_bmodes mh) else []) ++
  e_tree Z.eqb uv_mode_tree kf_uv_mode_probs (mh_uvmode mh).

Definition wf_mb_hdr (h : frame_hdr) (above_b left_b : list Z) (mh : mb_hdr) : Prop :=
  0 <= mh_seg mh < 4 /\ (sg_update_map (fh_seg h) = false -> mh_seg mh = 0) /\
  (fh_skip_enabled h = false -> mh_skip mh = false) /\
  0 <= mh_uvmode mh < 4 /\ length above_b = 4%nat /\ length left_b = 4%nat /\
  (if mh_is4 mh then
     mh_ymode mh = 0 /\ length (mh_bmodes mh) = 4%nat /\
     Forall (fun row => length row = 4%nat /\ Forall (fun m => 0 <= m < 10) row) (mh_bmodes mh)
   else 0 <= mh_ymode mh < 4 /\ mh_bmodes mh = []).

(** mode contexts handed to the macroblocks below and to the right *)
Definition bctx_after (mh : mb_hdr) (above_b left_b : list Z) : list Z * list Z :=
  if mh_is4 mh then (last (mh_bmodes mh) above_b, bleft left_b (mh_bmodes mh))
  else (rep4 (bmode_of_ymode (mh_ymode mh)), rep4 (bmode_of_ymode (mh_ymode mh))).

Theorem parse_mb_hdr_rt h above_b left_b mh d rest : wf_mb_hdr h above_b left_b mh ->
  sync d (e_mb_hdr h above_b left_b mh ++ rest) ->
  exists d', parse_mb_hdr h above_b left_b d =
               (mh, fst (bctx_after mh above_b left_b), snd (bctx_after mh above_b left_b), d') /\ sync d' rest.
Proof.
  intros (Hseg & Hseg0 & Hsk0 & Huv & La & Ll & Hmode) Hs. unfold e_mb_hdr in Hs. rewrite <- !app_assoc in Hs.
  unfold parse_mb_hdr, bctx_after.
  destruct mh as [seg skip is4 ym bm uv]. cbn [mh_seg mh_skip mh_is4 mh_ymode mh_bmodes mh_uvmode] in *.
  assert (H1 : exists d1, (if sg_update_map (fh_seg h) then read_tree segment_tree (sg_probs (fh_seg h)) d else (0, d)) = (seg, d1) /\
            sync d1 ((if fh_skip_enabled h then [(skip, fh_skip_prob h)] else []) ++
                     e_tree oeqb kf_ymode_tree kf_ymode_probs (if is4 then None else Some ym) ++
                     (if is4 then e_brows above_b left_b bm else []) ++ e_tree Z.eqb uv_mode_tree kf_uv_mode_probs uv ++ rest)).
  { destruct (sg_update_map (fh_seg h)).
    - exact (rt_etree Z.eqb zeqb_sound segment_tree _ seg d _ (seg_has_path seg Hseg) Hs).
    - rewrite (Hseg0 eq_refl). exists d. split; [reflexivity|exact Hs]. }
  destruct H1 as (d1 & E1 & S1). rewrite E1.
  assert (H2 : exists d2, (if fh_skip_enabled h then read_bool (fh_skip_prob h) d1 else (false, d1)) = (skip, d2) /\
            sync d2 (e_tree oeqb kf_ymode_tree kf_ymode_probs (if is4 then None else Some ym) ++
                     (if is4 then e_brows above_b left_b bm else []) ++ e_tree Z.eqb uv_mode_tree kf_uv_mode_probs uv ++ rest)).
  { destruct (fh_skip_enabled h).
    - cbn [app] in S1. apply sync_cons in S1. exact S1.
    - rewrite (Hsk0 eq_refl). exists d1. split; [reflexivity|exact S1]. }
  destruct H2 as (d2 & E2 & S2). rewrite E2.
  destruct is4.
  - destruct Hmode as (Hym & Lb & Hrows). subst ym.
    destruct (rt_etree oeqb oeqb_sound kf_ymode_tree kf_ymode_probs None d2 _ bpred_has_path S2) as (d3 & E3 & S3).
    rewrite E3.
    assert (Hrows2 : Forall (fun row => length row = length above_b /\ Forall (fun m => 0 <= m < 10) row) bm).
    { eapply Forall_impl; [|exact Hrows]. cbv beta. intros r [H1 H2]. split; [lia|exact H2]. }
    destruct (rt_brows left_b bm above_b d3 _ ltac:(lia) Hrows2 S3) as (d4 & E4 & S4).
    rewrite E4.
    destruct (rt_etree Z.eqb zeqb_sound uv_mode_tree kf_uv_mode_probs uv d4 rest (uv_has_path uv Huv) S4) as (d5 & E5 & S5).
    rewrite E5. exists d5. split; [reflexivity|exact S5].
  - destruct Hmode as (Hym & Hbm). subst bm.
    destruct (rt_etree oeqb oeqb_sound kf_ymode_tree kf_ymode_probs (Some ym) d2 _ (ymode_has_path ym Hym) S2) as (d3 & E3 & S3).
    rewrite E3. cbn [app] in S3.
    destruct (rt_etree Z.eqb zeqb_sound uv_mode_tree kf_uv_mode_probs uv d3 rest (uv_has_path uv Huv) S3) as (d5 & E5 & S5).
    rewrite E5. exists d5. split; [reflexivity|exact S5].
Qed.

(** * residual data of a macroblock (13): blocks in raster order with the left / above
    "has coefficients" contexts *)
Definition bflag (ls : list Z) : Z := match ls with [] => 0 | _ => 1 end.
Definition bany (ls : list Z) : bool := match ls with [] => false | _ => true end.

Lemma flag_spec first (ls : list Z) :
  (if first <? first + Z.of_nat (length ls) then 1 else 0) = bflag ls /\
  (first <? first + Z.of_nat (length ls)) = bany ls.
Proof.
  destruct ls as [|x t]; cbn [length bflag bany].
  - rewrite Z.add_0_r, Z.ltb_irrefl. split; reflexivity.
  - assert (H : first <? first + Z.of_nat (S (length t)) = true) by (apply Z.ltb_lt; lia). rewrite H. split; reflexivity.
Qed.

Fixpoint e_blk_row (tp : list (list (list Z))) (first : Z) (above : list Z) (l : Z) (blocks : list (list Z))
  : list (bool * Z) :=
  match above, blocks with
  | a :: tl, ls :: bt => e_tokens tp first (l + a) false ls ++ e_blk_row tp first tl (bflag ls) bt
  | _, _ => []
  end.

Definition deq (first dqdc dqac : Z) (ls : list Z) : list Z := dequant_block (acc_of first ls []) dqdc dqac.

Lemma rt_blk_row tp first dqdc dqac : 0 <= first ->
  forall above blocks l d rest, length blocks = length above ->
  Forall (wf_levels first false) blocks ->
  sync d (e_blk_row tp first above l blocks ++ rest) ->
  exists d', blk_row (fun ctx => decode_block tp first ctx dqdc dqac) first above l d =
    (map (deq first dqdc dqac) blocks, map bflag blocks, last (map bflag blocks) l, existsb bany blocks, d') /\
    sync d' rest.
Proof.
  intros H0. induction above as [|a tl IH]; intros blocks l d rest Hl Hw Hs; destruct blocks as [|ls bt]; try discriminate Hl;
    cbn [blk_row e_blk_row map existsb] in *.
  - exists d. split; [reflexivity|exact Hs].
  - rewrite <- app_assoc in Hs.
    destruct (decode_block_rt tp first (l + a) dqdc dqac ls d _ (Forall_inv Hw) H0 Hs) as (d1 & E1 & S1). rewrite E1.
    destruct (flag_spec first ls) as [F1 F2]. rewrite F1, F2.
    destruct (IH bt (bflag ls) d1 rest ltac:(cbn [length] in Hl; lia) (Forall_inv_tail Hw) S1) as (d2 & E2 & S2).
    rewrite E2. exists d2. split; [|exact S2].
    assert (EL : last (bflag ls :: map bflag bt) l = last (map bflag bt) (bflag ls)).
    { destruct bt as [|b1 bt']; [reflexivity|]. cbn [map].
      change (last (bflag ls :: bflag b1 :: map bflag bt') l) with (last (bflag b1 :: map bflag bt') l).
      apply last_default. }
    rewrite EL. reflexivity.
Qed.

(** rows of blocks: [rows] is a list of block rows, each as long as [above] *)
Fixpoint e_blk_rows (tp : list (list (list Z))) (first : Z) (above lefts : list Z) (rows : list (list (list Z)))
  : list (bool * Z) :=
  match lefts, rows with
  | l :: ltl, row :: rtl => e_blk_row tp first above l row ++ e_blk_rows tp first (map bflag row) ltl rtl
  | _, _ => []
  end.

(** contexts after a plane: above = flags of the last block row, left = flag of the last block of each row *)
Fixpoint ctx_above (above : list Z) (rows : list (list (list Z))) : list Z :=
  match rows with [] => above | row :: tl => ctx_above (map bflag row) tl end.
Fixpoint ctx_left (lefts : list Z) (rows : list (list (list Z))) : list Z :=
  match lefts, rows with
  | l :: ltl, row :: rtl => last (map bflag row) l :: ctx_left ltl rtl
  | _, _ => []
  end.

Lemma rt_blk_rows tp first dqdc dqac : 0 <= first ->
  forall lefts rows above d rest, length rows = length lefts ->
  Forall (fun row => length row = length above /\ Forall (wf_levels first false) row) rows ->
  sync d (e_blk_rows tp first above lefts rows ++ rest) ->
  exists d', blk_rows (fun ctx => decode_block tp first ctx dqdc dqac) first above lefts d =
    (map (deq first dqdc dqac) (concat rows), ctx_above above rows, ctx_left lefts rows,
     existsb bany (concat rows), d') /\ sync d' rest.
Proof.
  intros H0. induction lefts as [|l ltl IH]; intros rows above d rest Hl Hr Hs; destruct rows as [|row rtl]; try discriminate Hl;
    cbn [blk_rows e_blk_rows concat map existsb ctx_above ctx_left] in *.
  - exists d. split; [reflexivity|exact Hs].
  - rewrite <- app_assoc in Hs. destruct (Forall_inv Hr) as [Hlen Hwf].
    destruct (rt_blk_row tp first dqdc dqac H0 above row l d _ Hlen Hwf Hs) as (d1 & E1 & S1). rewrite E1.
    assert (Hr2 : Forall (fun r => length r = length (map bflag row) /\ Forall (wf_levels first false) r) rtl).
    { eapply Forall_impl; [|exact (Forall_inv_tail Hr)]. cbv beta. intros r [H1 H2]. rewrite map_length. split; [lia|exact H2]. }
    destruct (IH rtl (map bflag row) d1 rest ltac:(cbn [length] in Hl; lia) Hr2 S1) as (d2 & E2 & S2).
    rewrite E2. exists d2. split; [|exact S2].
    rewrite map_app, existsb_app. reflexivity.
Qed.

(** the residual record: Y2 (16x16 modes only), 16 luma, 4 + 4 chroma blocks *)
Definition e_residuals (probs : list (list (list (list Z)))) (is4 : bool) (above left : nzctx)
  (y2 : list Z) (ys us vs : list (list (list Z))) : list (bool * Z) :=
  let tp t := nthZ probs t [] in
  (if is4 then [] else e_tokens (tp 1) 0 (nz_y2 above + nz_y2 left) false y2) ++
  e_blk_rows (tp (if is4 then 3 else 0)) (if is4 then 0 else 1) (nz_y above) (nz_y left) ys ++
  e_blk_rows (tp 2) 0 (nz_u above) (nz_u left) us ++
  e_blk_rows (tp 2) 0 (nz_v above) (nz_v left) vs.

Definition wf_rows (first : Z) (n : nat) (rows : list (list (list Z))) : Prop :=
  length rows = n /\ Forall (fun row => length row = n /\ Forall (wf_levels first false) row) rows.

Definition res_of (q : dqf) (is4 : bool) (y2 : list Z) (ys us vs : list (list (list Z))) : mb_res :=
  mkRes (if is4 then None else Some (deq 0 (dq_y2dc q) (dq_y2ac q) y2))
        (map (deq (if is4 then 0 else 1) (dq_y1dc q) (dq_y1ac q)) (concat ys))
        (map (deq 0 (dq_uvdc q) (dq_uvac q)) (concat us))
        (map (deq 0 (dq_uvdc q) (dq_uvac q)) (concat vs))
        ((if is4 then false else bany y2) || existsb bany (concat ys) || existsb bany (concat us) || existsb bany (concat vs)).

Definition nz_after (is4 : bool) (above left : nzctx) (y2 : list Z) (ys us vs : list (list (list Z))) : nzctx * nzctx :=
  (mkNz (ctx_above (nz_y above) ys) (ctx_above (nz_u above) us) (ctx_above (nz_v above) vs)
        (if is4 then nz_y2 above else bflag y2),
   mkNz (ctx_left (nz_y left) ys) (ctx_left (nz_u left) us) (ctx_left (nz_v left) vs)
        (if is4 then nz_y2 left else bflag y2)).

Theorem parse_residuals_rt probs q (is4 : bool) above left y2 ys us vs d rest :
  length (nz_y above) = 4%nat -> length (nz_y left) = 4%nat ->
  length (nz_u above) = 2%nat -> length (nz_u left) = 2%nat ->
  length (nz_v above) = 2%nat -> length (nz_v left) = 2%nat ->
  wf_levels 0 false y2 -> wf_rows (if is4 then 0 else 1) 4 ys -> wf_rows 0 2 us -> wf_rows 0 2 vs ->
  sync d (e_residuals probs is4 above left y2 ys us vs ++ rest) ->
  exists d', parse_residuals probs q is4 above left d =
    (res_of q is4 y2 ys us vs, fst (nz_after is4 above left y2 ys us vs), snd (nz_after is4 above left y2 ys us vs), d')
    /\ sync d' rest.
Proof.
  intros La Ll Lua Lul Lva Lvl Hy2 (Lys & Hys) (Lus & Hus) (Lvs & Hvs) Hs.
  unfold e_residuals in Hs. cbv zeta in Hs. rewrite <- !app_assoc in Hs.
  unfold parse_residuals. cbv zeta.
  assert (Hrows : forall first n (rows : list (list (list Z))) (ab : list Z), length ab = n ->
            Forall (fun row => length row = n /\ Forall (wf_levels first false) row) rows ->
            Forall (fun row => length row = length ab /\ Forall (wf_levels first false) row) rows).
  { intros first n rows ab Hab Hf. eapply Forall_impl; [|exact Hf]. cbv beta. intros r [H1 H2]. split; [lia|exact H2]. }
  destruct is4.
  - cbn [app] in Hs.
    destruct (rt_blk_rows (nthZ probs 3 []) 0 (dq_y1dc q) (dq_y1ac q) ltac:(lia) (nz_y left) ys (nz_y above) d _
                ltac:(lia) (Hrows 0 4%nat ys _ La Hys) Hs) as (d1 & E1 & S1).
    rewrite E1.
    destruct (rt_blk_rows (nthZ probs 2 []) 0 (dq_uvdc q) (dq_uvac q) ltac:(lia) (nz_u left) us (nz_u above) d1 _
                ltac:(lia) (Hrows 0 2%nat us _ Lua Hus) S1) as (d2 & E2 & S2).
    rewrite E2.
    destruct (rt_blk_rows (nthZ probs 2 []) 0 (dq_uvdc q) (dq_uvac q) ltac:(lia) (nz_v left) vs (nz_v above) d2 _
                ltac:(lia) (Hrows 0 2%nat vs _ Lva Hvs) S2) as (d3 & E3 & S3).
    rewrite E3. exists d3. split; [reflexivity|exact S3].
  - destruct (decode_block_rt (nthZ probs 1 []) 0 (nz_y2 above + nz_y2 left) (dq_y2dc q) (dq_y2ac q) y2 d _ Hy2 ltac:(lia) Hs)
      as (d0 & E0 & S0). rewrite E0.
    destruct (flag_spec 0 y2) as [F1 F2]. rewrite F1, F2.
    destruct (rt_blk_rows (nthZ probs 0 []) 1 (dq_y1dc q) (dq_y1ac q) ltac:(lia) (nz_y left) ys (nz_y above) d0 _
                ltac:(lia) (Hrows 1 4%nat ys _ La Hys) S0) as (d1 & E1 & S1).
    rewrite E1.
    destruct (rt_blk_rows (nthZ probs 2 []) 0 (dq_uvdc q) (dq_uvac q) ltac:(lia) (nz_u left) us (nz_u above) d1 _
                ltac:(lia) (Hrows 0 2%nat us _ Lua Hus) S1) as (d2 & E2 & S2).
    rewrite E2.
    destruct (rt_blk_rows (nthZ probs 2 []) 0 (dq_uvdc q) (dq_uvac q) ltac:(lia) (nz_v left) vs (nz_v above) d2 _
                ltac:(lia) (Hrows 0 2%nat vs _ Lva Hvs) S2) as (d3 & E3 & S3).
    rewrite E3. exists d3. split; [reflexivity|exact S3].
Qed.
