(** Position bookkeeping of the RFC decoder: the number of bits it shifts while reading a
    symbol sequence is the number the encoder shifted while writing it, so after reading
    everything the Go encoder wrote (Finish pads at least 8 bits beyond the last symbol's
    interval) the decoder has never decoded a bool from beyond the end of its input. *)
From Coq Require Import List ZArith Lia Bool.
From Webp Require Import Vp8.Vp8Bool Vp8.Vp8BoolAbs Vp8.Vp8BoolEnc.
Import ListNotations.
Open Scope Z_scope.

Fixpoint rfc_run (probs : list Z) (d : bdec) : bdec :=
  match probs with
  | [] => d
  | p :: tl => rfc_run tl (snd (read_bool p d))
  end.

Lemma bd_normalize_shift : forall fuel v r c rest pos s,
  let '(_, r', _, _, pos') := bd_normalize fuel v r c rest pos in
  norm_loop fuel r s = (r', s + (pos' - pos)).
Proof.
  induction fuel as [|f IH]; intros v r c rest pos s; cbn [bd_normalize norm_loop].
  - f_equal. lia.
  - destruct (r <? 128).
    + destruct (bd_shift1 v c rest) as [[v1 c1] r1].
      specialize (IH v1 (r * 2) c1 r1 (pos + 1) (s + 1)).
      destruct (bd_normalize f v1 (r * 2) c1 r1 (pos + 1)) as [[[[v' r'] c'] rest'] pos'].
      rewrite IH. f_equal. lia.
    + f_equal. lia.
Qed.

(** what one read does to range, position, limit and the "past the end" flag *)
Lemma read_bool_fields p d :
  let s := bd_split (bd_range d) p in
  let b := fst (read_bool p d) in
  let d' := snd (read_bool p d) in
  norm_loop 8 (if b then bd_range d - s else s) 0 = (bd_range d', bd_pos d' - bd_pos d) /\
  bd_lim d' = bd_lim d /\ bd_past d' = bd_past d || (bd_lim d <? bd_pos d).
Proof.
  cbv zeta. unfold read_bool. set (s := bd_split (bd_range d) p).
  destruct (s * 256 <=? bd_value d).
  - pose proof (bd_normalize_shift 8 (bd_value d - s * 256) (bd_range d - s) (bd_count d) (bd_rest d) (bd_pos d) 0) as H.
    destruct (bd_normalize 8 (bd_value d - s * 256) (bd_range d - s) (bd_count d) (bd_rest d) (bd_pos d)) as [[[[v' r'] c'] rest'] pos'].
    cbn [fst snd bd_range bd_pos bd_lim bd_past]. rewrite H. repeat split.
  - pose proof (bd_normalize_shift 8 (bd_value d) s (bd_count d) (bd_rest d) (bd_pos d) 0) as H.
    destruct (bd_normalize 8 (bd_value d) s (bd_count d) (bd_rest d) (bd_pos d)) as [[[[v' r'] c'] rest'] pos'].
    cbn [fst snd bd_range bd_pos bd_lim bd_past]. rewrite H. repeat split.
Qed.

(** reading the bits that were encoded: range and shift count follow the encoder's *)
Lemma run_pos : forall ps d L k, rfc_bits (map snd ps) d = map fst ps ->
  let '(Rf, _, kf) := aenc ps (bd_range d, L, k) in
  let d' := rfc_run (map snd ps) d in
  bd_range d' = Rf /\ bd_pos d' = bd_pos d + (kf - k) /\ k <= kf /\ bd_lim d' = bd_lim d /\
  (bd_past d' = true -> bd_past d = true \/ bd_lim d < bd_pos d').
Proof.
  induction ps as [|[b p] tl IH]; intros d L k Hs; cbn [aenc map fst snd rfc_run rfc_bits] in *.
  - repeat split; try lia. intros H. left. exact H.
  - pose proof (read_bool_fields p d) as Hf. cbv zeta in Hf.
    destruct (read_bool p d) as [b' d1] eqn:Er. cbn [fst snd] in Hf |- *.
    injection Hs as Eb Hs. subst b'.
    destruct Hf as (Hn & Hlim & Hpast).
    unfold aput. fold (nsplit (bd_range d) p). unfold nsplit. rewrite Hn.
    destruct (norm_loop_spec 8 (if b then bd_range d - bd_split (bd_range d) p else bd_split (bd_range d) p) 0) as (t & Ht & Hn2).
    rewrite Hn in Hn2. apply pair_equal_spec in Hn2. destruct Hn2 as [_ Hsh].
    specialize (IH d1 ((if b then L + bd_split (bd_range d) p else L) * 2 ^ (bd_pos d1 - bd_pos d)) (k + (bd_pos d1 - bd_pos d)) Hs).
    destruct (aenc tl (bd_range d1, _, k + (bd_pos d1 - bd_pos d))) as [[Rf Lf] kf].
    destruct IH as (I1 & I2 & I3 & I4 & I5).
    split; [exact I1|]. split; [lia|]. split; [lia|]. split; [congruence|].
    intros Hp. destruct (I5 Hp) as [Hq|Hq].
    + rewrite Hpast in Hq. apply orb_true_iff in Hq. destruct Hq as [Hq|Hq]; [left; exact Hq|].
      right. apply Z.ltb_lt in Hq. lia.
    + right. lia.
Qed.

(** after the Go encoder's output for [ps] (any zero padding), the decoder that has read [ps]
    has not looked beyond its input *)
Theorem encode_no_past ps z : probs_ok ps ->
  bd_past (rfc_run (map snd ps) (bd_init (bool_encode ps ++ repeat 0 z))) = false.
Proof.
  intros Hps.
  destruct ps as [|bp tl].
  { cbn [map rfc_run]. destruct (bool_encode [] ++ repeat 0 z) as [|a [|b r]]; reflexivity. }
  set (ps := bp :: tl) in *.
  pose proof (bool_roundtrip ps z Hps) as Hrt.
  pose proof (encode_all_rel ps bw_init 255 0 0 init_rel ltac:(lia) Hps) as Henc.
  set (d0 := bd_init (bool_encode ps ++ repeat 0 z)) in *.
  assert (Er : bd_range d0 = 255 /\ bd_pos d0 = 0 /\ bd_past d0 = false /\
               bd_lim d0 = 8 * (Z.of_nat (length (bool_encode ps ++ repeat 0 z)) - 1)).
  { unfold d0, bd_init. destruct (bool_encode ps ++ repeat 0 z) as [|a [|b r]]; repeat split. }
  destruct Er as (Er & Ep & Epast & Elim).
  pose proof (run_pos ps d0 0 0 Hrt) as Hrun. rewrite Er in Hrun.
  destruct (aenc ps (255, 0, 0)) as [[Rf Lf] kf].
  destruct Henc as (Hrel & HRf & HRf2). specialize (HRf2 ltac:(unfold ps; congruence)).
  pose proof (finish_value (bw_encode_all ps bw_init) Rf Lf kf Hrel ltac:(lia)) as Hfin. cbv zeta in Hfin.
  destruct Hfin as (HkJ & _).
  destruct Hrun as (_ & Hpos & _ & _ & Hpast).
  destruct (bd_past (rfc_run (map snd ps) d0)) eqn:E; [|reflexivity].
  exfalso. destruct (Hpast eq_refl) as [H|H]; [congruence|].
  rewrite Elim, Hpos, Ep in H. rewrite app_length, Nat2Z.inj_add in H.
  unfold bool_encode in H. lia.
Qed.
