(** Colour of a lossy picture that carries alpha: webp.Decode builds an NRGBA image from
    the decoded planes with the fancy upsampler, one call per row pair (webp.go
    buildNRGBA).  Row 0 mirrors its chroma row; rows 2k+1 and 2k+2 lie between chroma
    rows k and k+1; the last row of an even-height picture mirrors its chroma row. *)
From Coq Require Import List ZArith Lia Bool.
From Webp Require Import Base.Res Vp8.Vp8Bool Vp8.Vp8Syntax Vp8.Vp8Filter Vp8.Vp8Spec Vp8.Vp8Upsample.
Import ListNotations.
Open Scope Z_scope.

Definition chroma_rows_of (h r : Z) : Z * Z :=   (* (near, far) chroma row of luma row r *)
  if r =? 0 then (0, 0)
  else if Z.odd r then let k := (r - 1) / 2 in (k, if r <=? h - 2 then k + 1 else k)
  else (r / 2, r / 2 - 1).

Definition frame_rgb (p : planes) : list (list Z) :=
  let h := Z.of_nat (length (pl_y p)) in
  map (fun '(r, yrow) =>
         let '(kn, kf) := chroma_rows_of h r in
         upsample_row yrow (nthZ (pl_u p) kn []) (nthZ (pl_v p) kn []) (nthZ (pl_u p) kf []) (nthZ (pl_v p) kf []))
      (combine (zrange 0 h) (pl_y p)).

(** R, G, B of every pixel of the decoded (loop-filtered) picture, row by row *)
Definition decode_rgb (data : list Z) : Res (Z * Z * list (list Z)) :=
  r <- decode data ;;
  if dc_past_end r then Err E_TRUNC else Ok (dc_w r, dc_h r, frame_rgb (dc_filtered r)).

(** every luma row gets chroma rows that exist *)
Lemma chroma_rows_in_range h r : 1 <= h -> 0 <= r < h ->
  let '(kn, kf) := chroma_rows_of h r in 0 <= kn < (h + 1) / 2 /\ 0 <= kf < (h + 1) / 2.
Proof.
  intros Hh Hr. unfold chroma_rows_of.
  destruct (r =? 0) eqn:E0; [split; (split; [lia|apply Z.div_str_pos; lia])|].
  apply Z.eqb_neq in E0.
  destruct (Z.odd r) eqn:Eo.
  - apply Zodd_bool_iff in Eo. destruct (Zodd_ex r Eo) as [m Hm].
    replace ((r - 1) / 2) with m by (subst r; replace (2 * m + 1 - 1) with (m * 2) by lia; rewrite Z.div_mul; lia).
    assert ((h + 1) / 2 * 2 <= h + 1 < (h + 1) / 2 * 2 + 2).
    { pose proof (Z.div_mod (h + 1) 2 ltac:(lia)). pose proof (Z.mod_pos_bound (h + 1) 2 ltac:(lia)). lia. }
    destruct (r <=? h - 2) eqn:E2; [apply Z.leb_le in E2|apply Z.leb_gt in E2]; lia.
  - assert (Ee : Z.even r = true) by (rewrite <- Z.negb_odd, Eo; reflexivity).
    apply Zeven_bool_iff in Ee. destruct (Zeven_ex r Ee) as [m Hm].
    replace (r / 2) with m by (subst r; rewrite Z.mul_comm, Z.div_mul; lia).
    assert ((h + 1) / 2 * 2 <= h + 1 < (h + 1) / 2 * 2 + 2).
    { pose proof (Z.div_mod (h + 1) 2 ltac:(lia)). pose proof (Z.mod_pos_bound (h + 1) 2 ltac:(lia)). lia. }
    lia.
Qed.
