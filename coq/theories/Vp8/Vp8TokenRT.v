(** Round trip of the coefficient tokens of one block (RFC 6386 section 13) over
    (bit, probability) streams: an emitter that walks the token tree (end-of-block,
    zero, literal values 1..4, the six value categories with their extra bits, sign;
    no end-of-block check after a zero token) and the proof that Vp8Syntax.tokens
    reads the levels back, with the end-of-block position. *)
From Coq Require Import List ZArith Lia Bool.
From Webp Require Import Vp8.Vp8Bool Vp8.Vp8BoolAbs Vp8.Vp8BoolEnc Vp8.Vp8Tables Vp8.Vp8Syntax Vp8.Vp8SyntaxRT.
Import ListNotations.
Open Scope Z_scope.

(** extra bits of a category: most significant first, one probability per bit *)
Fixpoint e_extra (ps : list Z) (v : Z) : list (bool * Z) :=
  match ps with
  | [] => []
  | p :: tl => let w := 2 ^ Z.of_nat (length tl) in
               let b := w <=? v in (b, p) :: e_extra tl (if b then v - w else v)
  end.

Lemma rt_extra : forall ps v acc d rest, 0 <= v < 2 ^ Z.of_nat (length ps) ->
  sync d (e_extra ps v ++ rest) ->
  exists d', read_extra ps acc d = (acc * 2 ^ Z.of_nat (length ps) + v, d') /\ sync d' rest.
Proof.
  induction ps as [|p tl IH]; intros v acc d rest Hv H; cbn [e_extra read_extra app length] in *.
  - exists d. change (Z.of_nat 0) with 0 in *. rewrite Z.pow_0_r in *. split; [f_equal; lia|exact H].
  - rewrite Nat2Z.inj_succ, Z.pow_succ_r in * by lia.
    apply sync_cons in H. destruct H as (d1 & E1 & H1). rewrite E1.
    set (w := 2 ^ Z.of_nat (length tl)) in *. set (b := w <=? v) in *.
    assert (Hw : 0 < w) by (unfold w; apply Z.pow_pos_nonneg; lia).
    destruct (IH (if b then v - w else v) (2 * acc + (if b then 1 else 0)) d1 rest) as (d2 & E2 & H2).
    + unfold b. destruct (Z.leb_spec w v); lia.
    + exact H1.
    + exists d2. split; [|exact H2]. rewrite E2. f_equal. unfold b. destruct (w <=? v); ring.
Qed.

(** the path of a magnitude a >= 1 through the value tree: (probability index, bit) list,
    base value and extra-bit probabilities of the leaf *)
Definition ib (i : nat) (b : bool) : nat * bool := (i, b).

Definition value_path (a : Z) : list (nat * bool) * Z * list Z :=
  if a =? 1 then ([ib 2 false], 1, [])
  else if a =? 2 then ([ib 2 true; ib 3 false; ib 4 false], 2, [])
  else if a =? 3 then ([ib 2 true; ib 3 false; ib 4 true; ib 5 false], 3, [])
  else if a =? 4 then ([ib 2 true; ib 3 false; ib 4 true; ib 5 true], 4, [])
  else if a <? 7 then ([ib 2 true; ib 3 true; ib 6 false; ib 7 false], 5, pcat1)
  else if a <? 11 then ([ib 2 true; ib 3 true; ib 6 false; ib 7 true], 7, pcat2)
  else if a <? 19 then ([ib 2 true; ib 3 true; ib 6 true; ib 8 false; ib 9 false], 11, pcat3)
  else if a <? 35 then ([ib 2 true; ib 3 true; ib 6 true; ib 8 false; ib 9 true], 19, pcat4)
  else if a <? 67 then ([ib 2 true; ib 3 true; ib 6 true; ib 8 true; ib 10 false], 35, pcat5)
  else ([ib 2 true; ib 3 true; ib 6 true; ib 8 true; ib 10 true], 67, pcat6).

Definition e_path (p : list Z) (path : list (nat * bool)) : list (bool * Z) :=
  map (fun ib => (snd ib, nth (fst ib) p 0)) path.

Definition e_value (p : list Z) (a : Z) : list (bool * Z) :=
  let '(path, base, extra) := value_path a in e_path p path ++ e_extra extra (a - base).

Ltac pw pc := let x := eval vm_compute in (2 ^ Z.of_nat (length pc)) in
  change (2 ^ Z.of_nat (length pc)) with x; lia.

Ltac step_tree H :=
  unfold ib in H; cbn [e_path map fst snd app] in H; apply sync_cons in H;
  let d1 := fresh "d" in let E := fresh "E" in destruct H as (d1 & E & H);
  cbn [read_tree]; rewrite E.

Lemma rt_value p a d rest : 1 <= a <= 2114 -> sync d (e_value p a ++ rest) ->
  exists d' base extra e, read_tree value_tree p d = ((base, extra), d') /\
    (exists d'', read_extra extra 0 d' = (e, d'') /\ sync d'' rest) /\ base + e = a.
Proof.
  intros Ha H. unfold e_value, value_path in H. unfold value_tree.
  destruct (a =? 1) eqn:E1; [apply Z.eqb_eq in E1; subst a|apply Z.eqb_neq in E1].
  { step_tree H. eexists _, 1, [], 0. split; [reflexivity|]. split; [|reflexivity].
    eexists. split; [reflexivity|]. exact H. }
  destruct (a =? 2) eqn:E2; [apply Z.eqb_eq in E2; subst a|apply Z.eqb_neq in E2].
  { do 3 step_tree H. eexists _, 2, [], 0. split; [reflexivity|]. split; [|reflexivity].
    eexists. split; [reflexivity|]. exact H. }
  destruct (a =? 3) eqn:E3; [apply Z.eqb_eq in E3; subst a|apply Z.eqb_neq in E3].
  { do 4 step_tree H. eexists _, 3, [], 0. split; [reflexivity|]. split; [|reflexivity].
    eexists. split; [reflexivity|]. exact H. }
  destruct (a =? 4) eqn:E4; [apply Z.eqb_eq in E4; subst a|apply Z.eqb_neq in E4].
  { do 4 step_tree H. eexists _, 4, [], 0. split; [reflexivity|]. split; [|reflexivity].
    eexists. split; [reflexivity|]. exact H. }
  destruct (a <? 7) eqn:L1; [apply Z.ltb_lt in L1|apply Z.ltb_ge in L1].
  { rewrite <- app_assoc in H. do 4 step_tree H.
    destruct (rt_extra pcat1 (a - 5) 0 _ rest ltac:(pw pcat1) H) as (d' & E' & S').
    eexists _, 5, pcat1, _. split; [reflexivity|]. split; [eexists; split; [exact E'|exact S']|]. lia. }
  destruct (a <? 11) eqn:L2; [apply Z.ltb_lt in L2|apply Z.ltb_ge in L2].
  { rewrite <- app_assoc in H. do 4 step_tree H.
    destruct (rt_extra pcat2 (a - 7) 0 _ rest ltac:(pw pcat2) H) as (d' & E' & S').
    eexists _, 7, pcat2, _. split; [reflexivity|]. split; [eexists; split; [exact E'|exact S']|]. lia. }
  destruct (a <? 19) eqn:L3; [apply Z.ltb_lt in L3|apply Z.ltb_ge in L3].
  { rewrite <- app_assoc in H. do 5 step_tree H.
    destruct (rt_extra pcat3 (a - 11) 0 _ rest ltac:(pw pcat3) H) as (d' & E' & S').
    eexists _, 11, pcat3, _. split; [reflexivity|]. split; [eexists; split; [exact E'|exact S']|]. lia. }
  destruct (a <? 35) eqn:L4; [apply Z.ltb_lt in L4|apply Z.ltb_ge in L4].
  { rewrite <- app_assoc in H. do 5 step_tree H.
    destruct (rt_extra pcat4 (a - 19) 0 _ rest ltac:(pw pcat4) H) as (d' & E' & S').
    eexists _, 19, pcat4, _. split; [reflexivity|]. split; [eexists; split; [exact E'|exact S']|]. lia. }
  destruct (a <? 67) eqn:L5; [apply Z.ltb_lt in L5|apply Z.ltb_ge in L5].
  { rewrite <- app_assoc in H. do 5 step_tree H.
    destruct (rt_extra pcat5 (a - 35) 0 _ rest ltac:(pw pcat5) H) as (d' & E' & S').
    eexists _, 35, pcat5, _. split; [reflexivity|]. split; [eexists; split; [exact E'|exact S']|]. lia. }
  rewrite <- app_assoc in H. do 5 step_tree H.
  destruct (rt_extra pcat6 (a - 67) 0 _ rest ltac:(pw pcat6) H) as (d' & E' & S').
  eexists _, 67, pcat6, _. split; [reflexivity|]. split; [eexists; split; [exact E'|exact S']|]. lia.
Qed.

(** * tokens of one block *)
Definition tprobs (tp : list (list (list Z))) (n ctx : Z) : list Z :=
  nthZ (nthZ tp (nthZ bands n 0) []) ctx [].

(** [ls]: the levels at zig-zag positions n, n+1, ... up to the end of block *)
Fixpoint e_tokens (tp : list (list (list Z))) (n ctx : Z) (noeob : bool) (ls : list Z) : list (bool * Z) :=
  match ls with
  | [] => if (16 <=? n) || noeob then [] else [(false, nth 0 (tprobs tp n ctx) 0)]
  | v :: tl =>
    let p := tprobs tp n ctx in
    (if noeob then [] else [(true, nth 0 p 0)]) ++
    (if v =? 0 then (false, nth 1 p 0) :: e_tokens tp (n + 1) 0 true tl
     else (true, nth 1 p 0) :: (e_value p (Z.abs v) ++ e_flag (v <? 0) ++
          e_tokens tp (n + 1) (if Z.abs v =? 1 then 1 else 2) false tl))
  end.

(** a block may not end right after a zero token unless position 16 is reached *)
Fixpoint wf_levels (n : Z) (noeob : bool) (ls : list Z) : Prop :=
  match ls with
  | [] => n <= 16 /\ (noeob = false \/ n = 16)
  | v :: tl => n < 16 /\ Z.abs v <= 2114 /\ wf_levels (n + 1) (v =? 0) tl
  end.

Fixpoint acc_of (n : Z) (ls : list Z) (acc : list (Z * Z)) : list (Z * Z) :=
  match ls with
  | [] => acc
  | v :: tl => acc_of (n + 1) tl (if v =? 0 then acc else (n, v) :: acc)
  end.

Theorem tokens_rt tp : forall ls fuel n ctx noeob d acc rest,
  wf_levels n noeob ls -> (length ls < fuel)%nat ->
  sync d (e_tokens tp n ctx noeob ls ++ rest) ->
  exists d', tokens fuel tp n ctx noeob d acc = (acc_of n ls acc, n + Z.of_nat (length ls), d') /\ sync d' rest.
Proof.
  induction ls as [|v tl IH]; intros fuel n ctx noeob d acc rest Hwf Hfuel Hs;
    (destruct fuel as [|f]; [cbn [length] in Hfuel; lia|]); cbn [tokens e_tokens acc_of length wf_levels] in *.
  - destruct Hwf as [Hn Hend]. rewrite Z.add_0_r.
    destruct (16 <=? n) eqn:E16.
    + apply Z.leb_le in E16. assert (n = 16) by lia. subst n. cbn [orb app] in Hs.
      exists d. split; [reflexivity|exact Hs].
    + apply Z.leb_gt in E16. destruct Hend as [->|Hn16]; [|lia]. cbn [orb app] in Hs.
      fold (tprobs tp n ctx). apply sync_cons in Hs. destruct Hs as (d1 & E1 & S1). rewrite E1. cbn [negb].
      exists d1. split; [reflexivity|exact S1].
  - destruct Hwf as (Hn & Hv & Hwf).
    assert (E16 : 16 <=? n = false) by (apply Z.leb_gt; lia). rewrite E16.
    fold (tprobs tp n ctx). set (p := tprobs tp n ctx) in *.
    assert (Hmore : exists d1, (if noeob then (true, d) else read_bool (nth 0 p 0) d) = (true, d1) /\
              sync d1 ((if v =? 0 then (false, nth 1 p 0) :: e_tokens tp (n + 1) 0 true tl
                        else (true, nth 1 p 0) :: (e_value p (Z.abs v) ++ e_flag (v <? 0) ++
                             e_tokens tp (n + 1) (if Z.abs v =? 1 then 1 else 2) false tl)) ++ rest)).
    { destruct noeob.
      - exists d. split; [reflexivity|]. cbn [app] in Hs. exact Hs.
      - rewrite <- app_assoc in Hs. cbn [app] in Hs. apply sync_cons in Hs. destruct Hs as (d1 & E1 & S1).
        exists d1. split; [exact E1|exact S1]. }
    destruct Hmore as (d1 & E1 & S1). rewrite E1. cbn [negb].
    replace (n + Z.of_nat (S (length tl))) with (n + 1 + Z.of_nat (length tl)) by lia.
    destruct (Z.eqb_spec v 0) as [->|Hne].
    + cbn [app] in S1. apply sync_cons in S1. destruct S1 as (d2 & E2 & S2). rewrite E2. cbn [negb].
      apply IH; [exact Hwf|lia|exact S2].
    + cbn [app] in S1. apply sync_cons in S1. destruct S1 as (d2 & E2 & S2). rewrite E2. cbn [negb].
      rewrite <- !app_assoc in S2.
      destruct (rt_value p (Z.abs v) d2 _ ltac:(lia) S2) as (d3 & base & extra & e & E3 & (d4 & E4 & S4) & Hbe).
      rewrite E3, E4.
      destruct (rt_flag _ d4 _ S4) as (d5 & E5 & S5). rewrite E5.
      rewrite Hbe.
      replace (if v <? 0 then - Z.abs v else Z.abs v) with v by (destruct (Z.ltb_spec v 0); lia).
      apply IH; [exact Hwf|lia|exact S5].
Qed.

(** the dequantised block the decoder stores *)
Corollary decode_block_rt tp first ctx dqdc dqac ls d rest :
  wf_levels first false ls -> 0 <= first ->
  sync d (e_tokens tp first ctx false ls ++ rest) ->
  exists d', decode_block tp first ctx dqdc dqac d =
               (dequant_block (acc_of first ls []) dqdc dqac, first + Z.of_nat (length ls), d') /\ sync d' rest.
Proof.
  intros Hwf H0 Hs. unfold decode_block.
  assert (Hlen : (length ls < 17)%nat).
  { assert (G : forall l n b, wf_levels n b l -> n + Z.of_nat (length l) <= 16).
    { induction l as [|x t IHl]; intros n b Hw; cbn [wf_levels length] in *; [lia|].
      destruct Hw as (_ & _ & Hw). specialize (IHl _ _ Hw). lia. }
    specialize (G ls first false Hwf). lia. }
  destruct (tokens_rt tp ls 17 first ctx false d [] rest Hwf Hlen Hs) as (d' & E & S). rewrite E.
  exists d'. split; [reflexivity|exact S].
Qed.

Example wf_levels_example : wf_levels 0 false [5; 0; 0; -2114; 1] /\ wf_levels 1 false [0; 0; 0; 0; 0; 0; 0; 0; 0; 0; 0; 0; 0; 0; 0].
Proof. cbn. repeat split; try lia; auto. Qed.
