(** Frame assembly: an abstract key frame (header, per-macroblock header and residual
    levels in raster order) is emitted as one symbol list for the first partition and
    one per token partition (macroblock rows round-robin), each list is boolean-coded
    by the Go encoder model, the byte layout is ConformVp8Hdr.assemble; Vp8Spec.decode
    parses the bytes back to the same syntax elements and reconstructs exactly what
    the bit-free function [rows_syn] reconstructs from the syntax ([vp8_emit_decode]). *)
From Coq Require Import List ZArith Lia Bool.
From Webp Require Import Base.Res Vp8.Vp8Bool Vp8.Vp8BoolAbs Vp8.Vp8BoolEnc Vp8.Vp8Tables Vp8.Vp8Syntax
  Vp8.Vp8SyntaxRT Vp8.Vp8TokenRT Vp8.Vp8ModeRT Vp8.Vp8Kernels Vp8.Vp8Recon Vp8.Vp8Filter Vp8.Vp8Spec.
Import ListNotations.
Open Scope Z_scope.

Record mb_syn : Type := mkMbSyn {
  ms_hdr : mb_hdr;
  ms_y2 : list Z;                       (* levels of the Y2 block (16x16 modes), zig-zag order *)
  ms_ys : list (list (list Z));         (* 4 rows of 4 luma blocks *)
  ms_us : list (list (list Z)); ms_vs : list (list (list Z)) }.   (* 2 rows of 2 chroma blocks *)

(** one macroblock row from the syntax: new column contexts, reconstructed macroblocks, the
    symbols of the first partition and of the token partition *)
Fixpoint row_syn (qk : quirks) (h : frame_hdr) (cols : list colctx) (left : leftctx)
  (aboveleft : option mbpix) (mbs : list mb_syn)
  : list colctx * list (mbpix * finfo) * list (bool * Z) * list (bool * Z) :=
  match cols, mbs with
  | c :: rest, m :: mtl =>
    let mh := ms_hdr m in
    let is4 := mh_is4 mh in
    let sym0 := e_mb_hdr h (cc_b c) (lc_b left) mh in
    let nb := bctx_after mh (cc_b c) (lc_b left) in
    let '(res, na, nl, symT) :=
      if mh_skip mh then
        (zero_res (negb is4), skip_ctx is4 (cc_nz c), skip_ctx is4 (lc_nz left), [])
      else
        (res_of (seg_dq h (mh_seg mh)) is4 (ms_y2 m) (ms_ys m) (ms_us m) (ms_vs m),
         fst (nz_after is4 (cc_nz c) (lc_nz left) (ms_y2 m) (ms_ys m) (ms_us m) (ms_vs m)),
         snd (nz_after is4 (cc_nz c) (lc_nz left) (ms_y2 m) (ms_ys m) (ms_us m) (ms_vs m)),
         e_residuals (fh_probs h) is4 (cc_nz c) (lc_nz left) (ms_y2 m) (ms_ys m) (ms_us m) (ms_vs m)) in
    let ar := match rest with c' :: _ => cc_pix c' | [] => None end in
    let pix := recon_mb mh res (mk_edges (cc_pix c) (lc_pix left) aboveleft ar) in
    let has_coeffs := if qk_inner_by_flag qk then negb (mh_skip mh) else r_any res in
    let fi := mkFi (lf_mb_params (negb (qk_no_mid_clamp qk)) h (mh_seg mh) is4) (is4 || has_coeffs) in
    let '(cols', out, s0, sT) := row_syn qk h rest (mkLeft (snd nb) nl (Some pix)) (cc_pix c) mtl in
    (mkCol (fst nb) na (Some pix) :: cols', (pix, fi) :: out, sym0 ++ s0, symT ++ sT)
  | _, _ => ([], [], [], [])
  end.

Definition nz_shape (c : nzctx) : Prop :=
  length (nz_y c) = 4%nat /\ length (nz_u c) = 2%nat /\ length (nz_v c) = 2%nat.

(** shape conditions of one row, on the contexts as they evolve *)
Fixpoint wf_row (h : frame_hdr) (cols : list colctx) (left : leftctx) (mbs : list mb_syn) : Prop :=
  match cols, mbs with
  | c :: rest, m :: mtl =>
    let mh := ms_hdr m in
    let is4 := mh_is4 mh in
    wf_mb_hdr h (cc_b c) (lc_b left) mh /\ nz_shape (cc_nz c) /\ nz_shape (lc_nz left) /\
    (mh_skip mh = false ->
       wf_levels 0 false (ms_y2 m) /\ wf_rows (if is4 then 0 else 1) 4 (ms_ys m) /\
       wf_rows 0 2 (ms_us m) /\ wf_rows 0 2 (ms_vs m)) /\
    let nb := bctx_after mh (cc_b c) (lc_b left) in
    let nl := if mh_skip mh then skip_ctx is4 (lc_nz left)
              else snd (nz_after is4 (cc_nz c) (lc_nz left) (ms_y2 m) (ms_ys m) (ms_us m) (ms_vs m)) in
    wf_row h rest (mkLeft (snd nb) nl None) mtl
  | [], [] => True
  | _, _ => False
  end.

(** wf_row does not look at pixels *)
Lemma wf_row_pix h : forall cols l1 l2 mbs, lc_b l1 = lc_b l2 -> lc_nz l1 = lc_nz l2 ->
  wf_row h cols l1 mbs -> wf_row h cols l2 mbs.
Proof.
  induction cols as [|c rest IH]; intros l1 l2 mbs Hb Hn H; destruct mbs as [|m mtl]; cbn [wf_row] in *; try exact H.
  rewrite <- Hb, <- Hn. exact H.
Qed.

Theorem row_loop_rt qk h : forall cols left al mbs d0 dt r0 rt,
  wf_row h cols left mbs ->
  sync d0 (snd (fst (row_syn qk h cols left al mbs)) ++ r0) ->
  sync dt (snd (row_syn qk h cols left al mbs) ++ rt) ->
  exists d0' dt', row_loop qk h cols left al d0 dt =
    (fst (fst (fst (row_syn qk h cols left al mbs))), snd (fst (fst (row_syn qk h cols left al mbs))), d0', dt') /\
    sync d0' r0 /\ sync dt' rt.
Proof.
  induction cols as [|c rest IH]; intros left al mbs d0 dt r0 rt Hwf H0 Ht; destruct mbs as [|m mtl];
    cbn [wf_row] in Hwf; try contradiction.
  - cbn [row_syn row_loop fst snd app] in *. exists d0, dt. split; [reflexivity|split; assumption].
  - destruct Hwf as (Hmh & Hsa & Hsl & Hres & Hrest).
    cbn [row_syn] in H0, Ht |- *. cbn [row_loop].
    set (mh := ms_hdr m) in *. set (is4 := mh_is4 mh) in *.
    set (nb := bctx_after mh (cc_b c) (lc_b left)) in *.
    (* unfold the recursive call's tuple *)
    destruct (mh_skip mh) eqn:Esk.
    + set (pix := recon_mb mh (zero_res (negb is4)) (mk_edges (cc_pix c) (lc_pix left) al
                    match rest with c' :: _ => cc_pix c' | [] => None end)) in *.
      destruct (row_syn qk h rest (mkLeft (snd nb) (skip_ctx is4 (lc_nz left)) (Some pix)) (cc_pix c) mtl)
        as [[[cols' out] s0] sT] eqn:Erec.
      cbn [fst snd] in H0, Ht |- *. cbn [app] in Ht. rewrite <- app_assoc in H0.
      destruct (parse_mb_hdr_rt h (cc_b c) (lc_b left) mh d0 _ Hmh H0) as (d1 & E1 & S1).
      rewrite E1. fold is4. rewrite Esk. fold nb.
      specialize (IH (mkLeft (snd nb) (skip_ctx is4 (lc_nz left)) (Some pix)) (cc_pix c) mtl d1 dt r0 rt).
      rewrite Erec in IH. cbn [fst snd] in IH.
      destruct IH as (d0' & dt' & E2 & S0' & St').
      { eapply wf_row_pix; [| |exact Hrest]; reflexivity. }
      { exact S1. } { exact Ht. }
      fold pix. rewrite E2. exists d0', dt'. split; [reflexivity|split; assumption].
    + destruct (Hres eq_refl) as (Hy2 & Hys & Hus & Hvs).
      destruct Hsa as (A1 & A2 & A3). destruct Hsl as (L1 & L2 & L3).
      set (res := res_of (seg_dq h (mh_seg mh)) is4 (ms_y2 m) (ms_ys m) (ms_us m) (ms_vs m)) in *.
      set (nz2 := nz_after is4 (cc_nz c) (lc_nz left) (ms_y2 m) (ms_ys m) (ms_us m) (ms_vs m)) in *.
      set (pix := recon_mb mh res (mk_edges (cc_pix c) (lc_pix left) al
                    match rest with c' :: _ => cc_pix c' | [] => None end)) in *.
      destruct (row_syn qk h rest (mkLeft (snd nb) (snd nz2) (Some pix)) (cc_pix c) mtl)
        as [[[cols' out] s0] sT] eqn:Erec.
      cbn [fst snd] in H0, Ht |- *. rewrite <- app_assoc in H0, Ht.
      destruct (parse_mb_hdr_rt h (cc_b c) (lc_b left) mh d0 _ Hmh H0) as (d1 & E1 & S1).
      rewrite E1. fold is4. rewrite Esk. fold nb.
      destruct (parse_residuals_rt (fh_probs h) (seg_dq h (mh_seg mh)) is4 (cc_nz c) (lc_nz left)
                  (ms_y2 m) (ms_ys m) (ms_us m) (ms_vs m) dt _ A1 L1 A2 L2 A3 L3 Hy2 Hys Hus Hvs Ht) as (dt1 & E3 & S3).
      rewrite E3. fold res nz2.
      specialize (IH (mkLeft (snd nb) (snd nz2) (Some pix)) (cc_pix c) mtl d1 dt1 r0 rt).
      rewrite Erec in IH. cbn [fst snd] in IH.
      destruct IH as (d0' & dt' & E2 & S0' & St').
      { eapply wf_row_pix; [| |exact Hrest]; reflexivity. }
      { exact S1. } { exact S3. }
      fold pix. rewrite E2. exists d0', dt'. split; [reflexivity|split; assumption].
Qed.

(** * all rows; token symbols of row r go to partition r mod n *)
Fixpoint rows_syn (qk : quirks) (h : frame_hdr) (cols : list colctx) (rows : list (list mb_syn))
  : list (list (mbpix * finfo)) * list (bool * Z) * list (list (bool * Z)) :=
  match rows with
  | [] => ([], [], [])
  | mbs :: rtl =>
    let '(cols', out, s0, sT) := row_syn qk h cols left0 None mbs in
    let '(outs, s0s, sTs) := rows_syn qk h cols' rtl in
    (out :: outs, s0 ++ s0s, sT :: sTs)
  end.

Fixpoint wf_rows_syn (qk : quirks) (h : frame_hdr) (cols : list colctx) (rows : list (list mb_syn)) : Prop :=
  match rows with
  | [] => True
  | mbs :: rtl => wf_row h cols left0 mbs /\ wf_rows_syn qk h (fst (fst (fst (row_syn qk h cols left0 None mbs)))) rtl
  end.

(** symbols of partition i: the rows r >= mby with r mod n = i, in order *)
Fixpoint part_syms (n i mby : Z) (row_syms : list (list (bool * Z))) : list (bool * Z) :=
  match row_syms with
  | [] => []
  | s :: tl => (if mby mod n =? i then s else []) ++ part_syms n i (mby + 1) tl
  end.

Lemma nth_set_nth {A} (l : list A) : forall n i x d, (n < length l)%nat ->
  nth i (set_nth n x l) d = if Nat.eqb i n then x else nth i l d.
Proof.
  induction l as [|y t IH]; intros n i x d Hn; [cbn in Hn; lia|].
  destruct n as [|n]; cbn [set_nth].
  - destruct i; reflexivity.
  - destruct i as [|i]; [reflexivity|]. cbn [nth Nat.eqb]. apply IH. cbn [length] in Hn. lia.
Qed.

Lemma set_nth_length {A} (l : list A) : forall n x, length (set_nth n x l) = length l.
Proof. induction l as [|y t IH]; intros [|n] x; cbn [set_nth length]; try reflexivity. rewrite IH. reflexivity. Qed.

Theorem rows_loop_rt qk h : forall rows mby cols d0 ds r0 (tails : nat -> list (bool * Z)),
  wf_rows_syn qk h cols rows -> 0 <= mby -> ds <> [] ->
  let n := Z.of_nat (length ds) in
  sync d0 (snd (fst (rows_syn qk h cols rows)) ++ r0) ->
  (forall i, (i < length ds)%nat ->
     sync (nth i ds (bd_init [])) (part_syms n (Z.of_nat i) mby (snd (rows_syn qk h cols rows)) ++ tails i)) ->
  exists d0' ds', rows_loop qk h (length rows) mby cols d0 ds = (fst (fst (rows_syn qk h cols rows)), d0', ds') /\
    sync d0' r0 /\ length ds' = length ds /\
    (forall i, (i < length ds)%nat -> sync (nth i ds' (bd_init [])) (tails i)).
Proof.
  induction rows as [|mbs rtl IH]; intros mby cols d0 ds r0 tails Hwf Hmby Hne n H0 Hparts.
  - cbn [rows_syn rows_loop length fst snd app part_syms] in *. exists d0, ds. split; [reflexivity|].
    split; [exact H0|]. split; [reflexivity|]. intros i Hi. exact (Hparts i Hi).
  - cbn [wf_rows_syn] in Hwf. destruct Hwf as [Hrow Hrest].
    cbn [rows_syn] in H0, Hparts |- *. cbn [rows_loop length].
    destruct (row_syn qk h cols left0 None mbs) as [[[cols' out] s0] sT] eqn:Er. cbn [fst] in Hrest.
    destruct (rows_syn qk h cols' rtl) as [[outs s0s] sTs] eqn:Ers.
    cbn [fst snd] in H0, Hparts |- *. rewrite <- app_assoc in H0.
    assert (Hn : 0 < n) by (unfold n; destruct ds; [congruence|cbn [length]; lia]).
    set (pi := Z.to_nat (mby mod n)).
    assert (Hpi : (pi < length ds)%nat).
    { unfold pi. pose proof (Z.mod_pos_bound mby n Hn). unfold n in *. lia. }
    pose proof (Hparts pi Hpi) as Hp. cbn [part_syms] in Hp.
    assert (Epi : mby mod n =? Z.of_nat pi = true).
    { apply Z.eqb_eq. unfold pi. rewrite Z2Nat.id; [reflexivity|]. apply Z.mod_pos_bound. exact Hn. }
    rewrite Epi in Hp. rewrite <- app_assoc in Hp.
    pose proof (row_loop_rt qk h cols left0 None mbs d0 (nth pi ds (bd_init [])) (s0s ++ r0)
                  (part_syms n (Z.of_nat pi) (mby + 1) sTs ++ tails pi) Hrow) as Hstep.
    rewrite Er in Hstep. cbn [fst snd] in Hstep.
    destruct (Hstep H0 Hp) as (d1 & dt1 & E1 & S1 & St1).
    fold n. fold pi. rewrite E1.
    specialize (IH (mby + 1) cols' d1 (set_nth pi dt1 ds) r0 tails Hrest ltac:(lia)).
    rewrite Ers in IH. cbn [fst snd] in IH. rewrite set_nth_length in IH. fold n in IH.
    destruct IH as (d0' & ds' & E2 & S2 & L2 & P2).
    + intros Hc. apply (f_equal (@length _)) in Hc. rewrite set_nth_length in Hc. destruct ds; [congruence|discriminate Hc].
    + exact S1.
    + intros i Hi. rewrite nth_set_nth by exact Hpi.
      destruct (Nat.eqb_spec i pi) as [->|Hne2]; [exact St1|].
      pose proof (Hparts i Hi) as Hq. cbn [part_syms] in Hq.
      assert (Eq : mby mod n =? Z.of_nat i = false).
      { apply Z.eqb_neq. intros Hc. apply Hne2. unfold pi. rewrite Hc. rewrite Nat2Z.id. reflexivity. }
      rewrite Eq in Hq. cbn [app] in Hq. exact Hq.
    + rewrite E2. exists d0', ds'. split; [reflexivity|]. split; [exact S2|].
      split; [exact L2|exact P2].
Qed.

(** * byte layout: Vp8Syntax.parse_layout / token_parts read back ConformVp8Hdr.assemble *)
From Webp Require Import Base.Bytes Conform.ConformVp8Hdr.
From Coq Require Import Zeven.

Lemma parse_layout_assemble w h part0 tail : 1 <= w < 16384 -> 1 <= h < 16384 -> len part0 < 2 ^ 19 ->
  parse_layout (frame_tag (len part0) ++ pic_header w h ++ part0 ++ tail) = Ok (mkLayout w h 0 0 0 part0 tail).
Proof.
  intros Hw Hh Hp. pose proof (len_nonneg part0) as Hl0.
  destruct (tag_fields (len part0) (conj Hl0 Hp)) as (T0 & T1 & T2 & T3 & T4 & T5).
  destruct (dim_fields w Hw) as [W1 W2]. destruct (dim_fields h Hh) as [H1 H2].
  unfold frame_tag, pic_header, le16. rewrite T0. cbn [app]. unfold parse_layout.
  set (tag := 16 + len part0 * 32) in *.
  rewrite T1.
  assert (Ev : Z.even tag = true) by (rewrite Zeven_mod, T2; reflexivity).
  assert (Eo : Z.odd (tag / 16) = true) by (rewrite Zodd_mod, T4; reflexivity).
  rewrite Ev, Eo, T3, T5, W1, W2, H1, H2. cbn [negb Z.ltb Z.compare Z.eqb Pos.eqb andb orb].
  assert (Ew : (w =? 0) = false) by (apply Z.eqb_neq; lia).
  assert (Eh : (h =? 0) = false) by (apply Z.eqb_neq; lia). rewrite Ew, Eh. cbn [orb].
  assert (El : Z.of_nat (length (part0 ++ tail)) <? len part0 = false).
  { apply Z.ltb_ge. rewrite app_length. unfold len. lia. }
  rewrite El. unfold len. rewrite Nat2Z.id, firstn_app_exact, skipn_app_exact. reflexivity.
Qed.

Lemma split_parts_table : forall parts, parts <> [] -> sized_parts_ok parts = true ->
  Vp8Syntax.split_parts (length parts - 1) (size_table parts) (concat parts) = Ok parts.
Proof.
  induction parts as [|p rest IH]; intros Hne Hok; [congruence|].
  destruct rest as [|q rest'].
  - cbn. rewrite app_nil_r. reflexivity.
  - change (size_table (p :: q :: rest')) with (size3 (len p) ++ size_table (q :: rest')).
    cbn [sized_parts_ok] in Hok. apply andb_prop in Hok as [Hp Hrest]. apply Z.ltb_lt in Hp.
    replace (length (p :: q :: rest') - 1)%nat with (S (length (q :: rest') - 1)) by (cbn; lia).
    cbn [Vp8Syntax.split_parts].
    assert (Hsz : 0 <= len p < 2 ^ 24) by (pose proof (len_nonneg p); lia).
    assert (Er : rd24le (size3 (len p) ++ size_table (q :: rest')) = len p).
    { pose proof (size3_read (len p) (size_table (q :: rest')) Hsz) as Hr. unfold size3 in *. cbn [app] in *. exact Hr. }
    rewrite Er.
    change (concat (p :: q :: rest')) with (p ++ concat (q :: rest')).
    assert (El : Z.of_nat (length (p ++ concat (q :: rest'))) <? len p = false).
    { apply Z.ltb_ge. rewrite app_length. unfold len. lia. }
    rewrite El. unfold len. rewrite Nat2Z.id, firstn_app_exact, skipn_app_exact.
    unfold size3. cbn [app skipn].
    rewrite (IH ltac:(discriminate) Hrest). reflexivity.
Qed.

Lemma token_parts_assemble lp parts : 0 <= lp -> length parts = Z.to_nat (2 ^ lp) -> sized_parts_ok parts = true ->
  token_parts lp (size_table parts ++ concat parts) = Ok parts.
Proof.
  intros Hlp Hlen Hok. unfold token_parts. rewrite <- Hlen.
  assert (Hne : parts <> []).
  { intros ->. cbn [length] in Hlen. assert (0 < 2 ^ lp) by (apply Z.pow_pos_nonneg; lia). lia. }
  pose proof (size_table_len parts Hne) as Ht. unfold len in Ht.
  assert (Et : length (size_table parts) = (3 * (length parts - 1))%nat) by lia.
  assert (E1 : (length (size_table parts ++ concat parts) <? 3 * (length parts - 1))%nat = false).
  { apply Nat.ltb_ge. rewrite app_length. lia. }
  rewrite E1. rewrite <- Et. rewrite firstn_app_exact, skipn_app_exact.
  apply split_parts_table; assumption.
Qed.

Lemma nth_map_seq {A} (f : nat -> A) n i d : (i < n)%nat -> nth i (map f (seq 0 n)) d = f i.
Proof.
  intros H. rewrite (nth_indep _ d (f 0%nat)) by (rewrite map_length, seq_length; exact H).
  rewrite (map_nth f (seq 0 n) 0%nat i), seq_nth by exact H. reflexivity.
Qed.

(** * the whole key frame *)
Record frame_syn : Type := mkFrameSyn {
  fs_hdr : frame_hdr;
  fs_upd_seg : bool; fs_upd_lf : bool; fs_refresh : bool;   (* header flags that do not reach frame_hdr *)
  fs_rows : list (list mb_syn) }.

Definition fs_cols (s : frame_syn) : list colctx := repeat col0 (Z.to_nat ((fh_w (fs_hdr s) + 15) / 16)).
Definition fs_nparts (s : frame_syn) : Z := 2 ^ fh_log2parts (fs_hdr s).

(** symbol lists: first partition, and the token partitions *)
Definition frame_syms (qk : quirks) (s : frame_syn) : list (bool * Z) * list (list (bool * Z)) :=
  let '(_, s0, sTs) := rows_syn qk (fs_hdr s) (fs_cols s) (fs_rows s) in
  (e_part1_hdr (fs_upd_seg s) (fs_upd_lf s) (fs_refresh s) (fs_hdr s) ++ s0,
   map (fun i => part_syms (fs_nparts s) (Z.of_nat i) 0 sTs) (seq 0 (Z.to_nat (fs_nparts s)))).

(** the bytes: every symbol list through the Go boolean encoder, then assembleFrame's layout
    (with its size guards) *)
Definition emit_key_frame (qk : quirks) (s : frame_syn) : Res (list Z) :=
  let '(s0, sps) := frame_syms qk s in
  emit_frame (fh_w (fs_hdr s)) (fh_h (fs_hdr s)) (bool_encode s0) (map bool_encode sps).

(** what the frame reconstructs to, straight from the syntax *)
Definition reconstruct (qk : quirks) (s : frame_syn) : planes * planes :=
  let h := fs_hdr s in
  let rows := fst (fst (rows_syn qk h (fs_cols s) (fs_rows s))) in
  let unf := map (map fst) rows in
  let filt := if lf_level (fh_lf h) =? 0 then unf else filter_frame (lf_is_simple (fh_lf h)) rows in
  (planes_of (fh_w h) (fh_h h) unf, planes_of (fh_w h) (fh_h h) filt).

Definition wf_frame_syn (qk : quirks) (s : frame_syn) : Prop :=
  let h := fs_hdr s in
  wf_frame_hdr (qk_seg_abs_default qk) (fs_upd_seg s) (fs_upd_lf s) h /\
  1 <= fh_w h < 16384 /\ 1 <= fh_h h < 16384 /\ fh_xscale h = 0 /\ fh_yscale h = 0 /\
  length (fs_rows s) = Z.to_nat ((fh_h h + 15) / 16) /\
  wf_rows_syn qk h (fs_cols s) (fs_rows s) /\
  probs_ok (fst (frame_syms qk s)) /\ Forall probs_ok (snd (frame_syms qk s)).

Lemma vp8_emit_decode_full qk s bs : wf_frame_syn qk s -> emit_key_frame qk s = Ok bs ->
  exists r, decode_gen qk bs = Ok r /\
    dc_w r = fh_w (fs_hdr s) /\ dc_h r = fh_h (fs_hdr s) /\ dc_hdr r = fs_hdr s /\
    dc_unfiltered r = fst (reconstruct qk s) /\ dc_filtered r = snd (reconstruct qk s) /\
    dc_past_end r = false.
Proof.
  intros (Hhdr & Hw & Hh & Hxs & Hys & Hlen & Hrows & Hok0 & Hoks) Hemit.
  unfold emit_key_frame, frame_syms in *.
  set (h := fs_hdr s) in *.
  destruct (rows_syn qk h (fs_cols s) (fs_rows s)) as [[outs s0] sTs] eqn:Ers.
  cbn [fst snd] in Hok0, Hoks.
  set (sym0 := e_part1_hdr (fs_upd_seg s) (fs_upd_lf s) (fs_refresh s) h ++ s0) in *.
  set (n := fs_nparts s) in *.
  set (sps := map (fun i => part_syms n (Z.of_nat i) 0 sTs) (seq 0 (Z.to_nat n))) in *.
  unfold emit_frame in Hemit.
  destruct (2 ^ 19 <=? len (bool_encode sym0)) eqn:E19; [discriminate|]. apply Z.leb_gt in E19.
  destruct (sized_parts_ok (map bool_encode sps)) eqn:Esz; cbn [negb] in Hemit; [|discriminate].
  injection Hemit as <-. unfold assemble.
  unfold decode_gen.
  rewrite (parse_layout_assemble (fh_w h) (fh_h h) (bool_encode sym0) _ Hw Hh E19).
  cbn [bind ly_w ly_h ly_xs ly_ys ly_part1 ly_rest].
  (* first partition: header *)
  pose proof (sync_encode sym0 0 Hok0) as S0. cbn [repeat] in S0. rewrite app_nil_r in S0.
  unfold sym0 in S0.
  destruct (syntax_roundtrip (qk_seg_abs_default qk) (fs_upd_seg s) (fs_upd_lf s) (fs_refresh s) h _ _ Hhdr S0)
    as (d0 & Eh & S1).
  rewrite Hxs, Hys in Eh. unfold sym0. rewrite Eh.
  (* token partitions *)
  assert (Hlp : 0 <= fh_log2parts h) by (destruct Hhdr as (_ & _ & Hlp & _); lia).
  assert (Hn : 0 < n) by (unfold n, fs_nparts; fold h; apply Z.pow_pos_nonneg; lia).
  assert (Hlsps : length sps = Z.to_nat n) by (unfold sps; rewrite map_length, seq_length; reflexivity).
  rewrite (token_parts_assemble (fh_log2parts h) (map bool_encode sps) Hlp
             ltac:(rewrite map_length, Hlsps; reflexivity) Esz).
  cbn [bind].
  (* macroblock rows *)
  pose proof (rows_loop_rt qk h (fs_rows s) 0 (fs_cols s) d0 (map bd_init (map bool_encode sps)) [] (fun _ => [])
                Hrows ltac:(lia)) as Hloop.
  rewrite Ers in Hloop. cbn [fst snd] in Hloop.
  rewrite !map_length, Hlsps, Z2Nat.id in Hloop by lia.
  destruct Hloop as (d0' & ds' & Eloop & Sd0 & Lds & Sds).
  { intros Hc. apply (f_equal (@length _)) in Hc. rewrite !map_length, Hlsps in Hc. cbn [length] in Hc. lia. }
  { rewrite app_nil_r. exact S1. }
  { intros i Hi. rewrite app_nil_r.
    rewrite map_map. rewrite (nth_indep _ (bd_init []) (bd_init (bool_encode []))) by (rewrite map_length; lia).
    rewrite (map_nth (fun x => bd_init (bool_encode x)) sps [] i).
    assert (Ei : nth i sps [] = part_syms n (Z.of_nat i) 0 sTs).
    { unfold sps. apply (nth_map_seq (fun i => part_syms n (Z.of_nat i) 0 sTs)). lia. }
    pose proof (proj1 (Forall_forall _ _) Hoks (nth i sps []) ltac:(apply nth_In; lia)) as Hoki.
    pose proof (sync_encode (nth i sps []) 0 Hoki) as Si. cbn [repeat] in Si. rewrite app_nil_r in Si.
    rewrite Ei in Si. rewrite Ei. exact Si. }
  unfold fs_cols in Eloop. fold h in Eloop.
  rewrite <- Hlen. rewrite Eloop.
  eexists. split; [reflexivity|]. cbn [dc_w dc_h dc_hdr dc_unfiltered dc_filtered dc_past_end].
  unfold reconstruct. fold h. rewrite Ers. cbn [fst snd].
  split; [reflexivity|]. split; [reflexivity|]. split; [reflexivity|]. split; [reflexivity|]. split; [reflexivity|].
  (* no decoder has looked beyond its partition *)
  rewrite (sync_nil_past d0' Sd0). cbn [orb].
  destruct (existsb bd_past ds') eqn:Ex; [|reflexivity]. exfalso.
  apply existsb_exists in Ex. destruct Ex as (x & Hin & Hx).
  destruct (In_nth _ _ (bd_init []) Hin) as (i & Hi & Hnth).
  rewrite Lds in Hi. specialize (Sds i Hi). rewrite Hnth in Sds.
  rewrite (sync_nil_past x Sds) in Hx. discriminate Hx.
Qed.

Theorem vp8_emit_decode qk s bs : wf_frame_syn qk s -> emit_key_frame qk s = Ok bs ->
  exists r, decode_gen qk bs = Ok r /\
    dc_w r = fh_w (fs_hdr s) /\ dc_h r = fh_h (fs_hdr s) /\ dc_hdr r = fs_hdr s /\
    dc_unfiltered r = fst (reconstruct qk s) /\ dc_filtered r = snd (reconstruct qk s).
Proof.
  intros Hwf He. destruct (vp8_emit_decode_full qk s bs Hwf He) as (r & H1 & H2 & H3 & H4 & H5 & H6 & _).
  exists r. repeat split; assumption.
Qed.

(** The emitted frame never makes the specification decoder read a bool from beyond the end of a
    partition: BoolWriter.Finish pads at least 8 bits beyond the last symbol's interval. *)
Theorem emit_no_past_end qk s bs : wf_frame_syn qk s -> emit_key_frame qk s = Ok bs ->
  exists r, decode_gen qk bs = Ok r /\ dc_past_end r = false.
Proof.
  intros Hwf He. destruct (vp8_emit_decode_full qk s bs Hwf He) as (r & H1 & _ & _ & _ & _ & _ & H7).
  exists r. split; assumption.
Qed.
