(** VP8 boolean entropy decoder, RFC 6386 section 7 (value / range / bit_count
    formulation, byte-wise refill, zeros after the end of the data), and
    one-step models of the three normalisation variants the Go code uses
    (bitio.BoolReader.GetBit, GetBitAlt / lossy.fastBit, GetSigned / fastSigned). *)
From Coq Require Import List ZArith Lia Bool.
Import ListNotations.
Open Scope Z_scope.

(** * Specification decoder (RFC 6386 7.3) *)

Record bdec : Type := mkBdec {
  bd_value : Z;        (* 2 bytes: window byte and one byte of look-ahead *)
  bd_range : Z;        (* 128..255 between calls *)
  bd_count : Z;        (* number of shifts since the last byte was appended, 0..7 *)
  bd_rest  : list Z;   (* bytes not yet appended *)
  bd_pos   : Z;        (* total number of bits shifted out so far *)
  bd_lim   : Z;        (* 8*(len-1): reading a bool with bd_pos > bd_lim needs bits beyond the data *)
  bd_past  : bool      (* some bool was decoded from a window that reached beyond the data *)
}.

Definition bd_init (data : list Z) : bdec :=
  let lim := 8 * (Z.of_nat (length data) - 1) in
  match data with
  | [] => mkBdec 0 255 0 [] 0 lim false
  | [a] => mkBdec (a * 256) 255 0 [] 0 lim false
  | a :: b :: r => mkBdec (a * 256 + b) 255 0 r 0 lim false
  end.

(** One iteration of the RFC normalisation loop: shift value and range left
    by one; after 8 shifts append the next byte (0 when the data is exhausted). *)
Definition bd_shift1 (value count : Z) (rest : list Z) : Z * Z * list Z :=
  let v := (value * 2) mod 65536 in
  if count + 1 =? 8 then
    match rest with
    | [] => (v, 0, [])
    | b :: r => (v + b, 0, r)
    end
  else (v, count + 1, rest).

Fixpoint bd_normalize (fuel : nat) (value range count : Z) (rest : list Z) (pos : Z)
  : Z * Z * Z * list Z * Z :=
  match fuel with
  | O => (value, range, count, rest, pos)
  | S f =>
    if range <? 128 then
      let '(v, c, r) := bd_shift1 value count rest in
      bd_normalize f v (range * 2) c r (pos + 1)
    else (value, range, count, rest, pos)
  end.

(** [split = 1 + (((range - 1) * prob) >> 8)] *)
Definition bd_split (range prob : Z) : Z := 1 + ((range - 1) * prob) / 256.

Definition read_bool (prob : Z) (d : bdec) : bool * bdec :=
  let split := bd_split (bd_range d) prob in
  let bigsplit := split * 256 in
  let past := orb (bd_past d) (bd_lim d <? bd_pos d) in
  let '(bit, range1, value1) :=
    if bigsplit <=? bd_value d then (true, bd_range d - split, bd_value d - bigsplit)
    else (false, split, bd_value d) in
  let '(v, rg, c, r, p) := bd_normalize 8 value1 range1 (bd_count d) (bd_rest d) (bd_pos d) in
  (bit, mkBdec v rg c r p (bd_lim d) past).

(** L(n): an n-bit unsigned literal, most significant bit first, each bit at probability 128. *)
Fixpoint read_literal (n : nat) (acc : Z) (d : bdec) : Z * bdec :=
  match n with
  | O => (acc, d)
  | S m => let '(b, d1) := read_bool 128 d in
           read_literal m (2 * acc + (if b then 1 else 0)) d1
  end.

Definition read_lit (n : nat) (d : bdec) : Z * bdec := read_literal n 0 d.

Definition read_flag (d : bdec) : bool * bdec := read_bool 128 d.

(** magnitude L(n) followed by a sign bit *)
Definition read_signed (n : nat) (d : bdec) : Z * bdec :=
  let '(m, d1) := read_lit n d in
  let '(s, d2) := read_flag d1 in
  ((if s then - m else m), d2).

(** optional signed value: flag, then magnitude and sign; 0 when the flag is clear *)
Definition read_opt_signed (n : nat) (d : bdec) : Z * bdec :=
  let '(f, d1) := read_flag d in
  if f then read_signed n d1 else (0, d1).

(** Generic tree reader (RFC 8.1): inner nodes carry the index of their probability. *)
Inductive tree (A : Type) : Type :=
| Leaf (a : A)
| Node (pidx : nat) (zero one : tree A).
Arguments Leaf {A} a.
Arguments Node {A} pidx zero one.

Fixpoint read_tree {A} (t : tree A) (probs : list Z) (d : bdec) : A * bdec :=
  match t with
  | Leaf a => (a, d)
  | Node i z o =>
    let '(b, d1) := read_bool (nth i probs 0) d in
    if b then read_tree o probs d1 else read_tree z probs d1
  end.

(** * One-step views used to compare the Go decoder's normalisation variants.

    RFC state between calls: range R in 128..255 and an 8-bit window W (the
    high byte of [value]) plus following bits.  libwebp / Go keep [range-1]
    and compare [window > split'] with [split' = (range-1)*prob >> 8].
    For a given (R, prob) and decision bit, each variant yields a new range
    and a shift count; the window arithmetic is the same subtraction. *)

(** RFC: returns (threshold T such that bit = (W >= T), new range if 0, new range if 1) *)
Definition rfc_split (R prob : Z) : Z := bd_split R prob.
Definition rfc_range_after (R prob : Z) (bit : bool) : Z :=
  if bit then R - rfc_split R prob else rfc_split R prob.

Fixpoint norm_loop (fuel : nat) (range shift : Z) : Z * Z :=
  match fuel with
  | O => (range, shift)
  | S f => if range <? 128 then norm_loop f (range * 2) (shift + 1) else (range, shift)
  end.
Definition rfc_step (R prob : Z) (bit : bool) : Z * Z * Z :=
  (* (threshold, normalised range, shift) *)
  let '(r, s) := norm_loop 8 (rfc_range_after R prob bit) 0 in
  (rfc_split R prob, r, s).

(** floor(log2 x) for 1 <= x < 256 *)
Definition log2_8 (x : Z) : Z := Z.log2 x.

(** bitio.BoolReader.GetBit: range_ = Range (= R-1); split = range_*prob>>8;
    bit = value > split; bit: range_ -= split else range_ = split+1;
    shift = 7 ^ (Len32(range_)-1); range_ <<= shift; Range = range_ - 1.
    Expressed on R = Range+1: threshold = split+1, new R = range_<<shift. *)
Definition go_getbit_step (R prob : Z) (bit : bool) : Z * Z * Z :=
  let range_ := R - 1 in
  let split := (range_ * prob) / 256 in
  let r1 := if bit then range_ - split else split + 1 in
  let shift := Z.lxor 7 (log2_8 r1) in
  (split + 1, r1 * 2 ^ shift, shift).

(** GetBitAlt / fastBit: bit: range_ -= split+1 else range_ = split;
    if range_ <= 0x7e { shift = kVP8Log2Range[range_]; range_ = kVP8NewRange[range_] }. *)
Definition go_lut_step (log2range newrange : list Z) (R prob : Z) (bit : bool) : Z * Z * Z :=
  let range_ := R - 1 in
  let split := (range_ * prob) / 256 in
  let r1 := if bit then range_ - (split + 1) else split in
  if r1 <=? 126 then
    (split + 1, nth (Z.to_nat r1) newrange 0 + 1, nth (Z.to_nat r1) log2range 0)
  else (split + 1, r1 + 1, 0).

(** GetSigned / fastSigned (prob = 0x80 only): split = Range>>1; bit = value > split;
    Bits--; Range = (Range + mask) | 1 where mask = -1 if bit. Shift is always 1. *)
Definition go_signed_step (R : Z) (bit : bool) : Z * Z * Z :=
  let range_ := R - 1 in
  let split := range_ / 2 in
  let r1 := Z.lor (if bit then range_ - 1 else range_) 1 in
  (split + 1, r1 + 1, 1).

Definition triple_eqb (a b : Z * Z * Z) : bool :=
  let '(a1, a2, a3) := a in let '(b1, b2, b3) := b in
  (a1 =? b1) && (a2 =? b2) && (a3 =? b3).

Definition zrange (lo n : Z) : list Z := map (fun i => lo + Z.of_nat i) (seq 0 (Z.to_nat n)).

Lemma in_zrange lo n x : 0 <= n -> lo <= x < lo + n -> In x (zrange lo n).
Proof.
  intros Hn Hx. unfold zrange. apply in_map_iff. exists (Z.to_nat (x - lo)). split; [lia|].
  apply in_seq. lia.
Qed.
