(** Frame-level loop filter (RFC 6386 section 15): after the whole frame is
    reconstructed, macroblocks are visited in raster order; for each one the
    left macroblock edge, the inner vertical edges, the top macroblock edge and
    the inner horizontal edges are filtered, in that order.  The frame is kept
    as a grid of macroblocks; filtering macroblock (x, y) rewrites the last
    columns of (x-1, y) and the last rows of (x, y-1). *)
From Coq Require Import List ZArith Lia Bool.
From Webp Require Import Vp8.Vp8Bool Vp8.Vp8Tables Vp8.Vp8Syntax Vp8.Vp8Kernels Vp8.Vp8Recon.
Import ListNotations.
Open Scope Z_scope.

Record finfo : Type := mkFi { fi_params : lf_params; fi_inner : bool }.

(** apply an 8-sample edge function to the window starting at [off] *)
Definition apply_win (f : list Z -> list Z) (off : nat) (row : list Z) : list Z :=
  firstn off row ++ f (firstn 8 (skipn off row)) ++ skipn (off + 8) row.

Fixpoint apply_wins (f : list Z -> list Z) (offs : list nat) (row : list Z) : list Z :=
  match offs with
  | [] => row
  | o :: tl => apply_wins f tl (apply_win f o row)
  end.

Fixpoint transpose_aux (n : nat) (rows : list (list Z)) : list (list Z) :=
  match n with
  | O => []
  | S m => map (fun r => hd 0 r) rows :: transpose_aux m (map (fun r => tl r) rows)
  end.
Definition transpose (rows : list (list Z)) : list (list Z) :=
  transpose_aux (length (hd [] rows)) rows.

(** edge between two horizontally adjacent blocks of width n *)
Definition edge_h (n : nat) (f : list Z -> list Z) (l c : list (list Z)) : list (list Z) * list (list Z) :=
  let j := map (fun '(a, b) => apply_win f (n - 4) (a ++ b)) (combine l c) in
  (map (firstn n) j, map (skipn n) j).

(** edge between two vertically adjacent blocks of height n *)
Definition edge_v (n : nat) (f : list Z -> list Z) (a c : list (list Z)) : list (list Z) * list (list Z) :=
  let cols := map (apply_win f (n - 4)) (transpose (a ++ c)) in
  let rows := transpose cols in
  (firstn n rows, skipn n rows).

Definition inner_h (f : list Z -> list Z) (offs : list nat) (c : list (list Z)) : list (list Z) :=
  map (apply_wins f offs) c.
Definition inner_v (f : list Z -> list Z) (offs : list nat) (c : list (list Z)) : list (list Z) :=
  transpose (map (apply_wins f offs) (transpose c)).

(** one plane of one macroblock *)
Definition filter_plane (n : nat) (offs : list nat) (fmb finner : list Z -> list Z) (inner : bool)
  (left above : option (list (list Z))) (cur : list (list Z))
  : option (list (list Z)) * option (list (list Z)) * list (list Z) :=
  let '(left1, cur1) :=
    match left with
    | Some l => let '(l', c') := edge_h n fmb l cur in (Some l', c')
    | None => (None, cur)
    end in
  let cur2 := if inner then inner_h finner offs cur1 else cur1 in
  let '(above1, cur3) :=
    match above with
    | Some a => let '(a', c') := edge_v n fmb a cur2 in (Some a', c')
    | None => (None, cur2)
    end in
  let cur4 := if inner then inner_v finner offs cur3 else cur3 in
  (left1, above1, cur4).

Definition omap {A B} (f : A -> B) (o : option A) : option B :=
  match o with Some a => Some (f a) | None => None end.

Definition filter_mb (simple : bool) (fi : finfo) (left above : option mbpix) (cur : mbpix)
  : option mbpix * option mbpix * mbpix :=
  let p := fi_params fi in
  if lp_level p =? 0 then (left, above, cur) else
  let me := mbedge_limit p in let se := subedge_limit p in
  if simple then
    let '(ly, ay, cy) := filter_plane 16 [0; 4; 8]%nat (lf_simple me) (lf_simple se) (fi_inner fi)
                           (omap px_y left) (omap px_y above) (px_y cur) in
    (match left, ly with Some l, Some y => Some (mkPix y (px_u l) (px_v l)) | _, _ => left end,
     match above, ay with Some a, Some y => Some (mkPix y (px_u a) (px_v a)) | _, _ => above end,
     mkPix cy (px_u cur) (px_v cur))
  else
    let fmb := lf_mbedge (lp_hev p) (lp_interior p) me in
    let fin := lf_subblock (lp_hev p) (lp_interior p) se in
    let '(ly, ay, cy) := filter_plane 16 [0; 4; 8]%nat fmb fin (fi_inner fi)
                           (omap px_y left) (omap px_y above) (px_y cur) in
    let '(lu, au, cu) := filter_plane 8 [0]%nat fmb fin (fi_inner fi)
                           (omap px_u left) (omap px_u above) (px_u cur) in
    let '(lv, av, cv) := filter_plane 8 [0]%nat fmb fin (fi_inner fi)
                           (omap px_v left) (omap px_v above) (px_v cur) in
    (match ly, lu, lv with Some y, Some u, Some v => Some (mkPix y u v) | _, _, _ => left end,
     match ay, au, av with Some y, Some u, Some v => Some (mkPix y u v) | _, _, _ => above end,
     mkPix cy cu cv).

Fixpoint filter_cols (simple : bool) (aboves : list (option mbpix)) (curs : list (mbpix * finfo))
  (left : option mbpix) : list (option mbpix) * list mbpix :=
  match curs with
  | [] => ([], match left with Some l => [l] | None => [] end)
  | (cur, fi) :: ctl =>
    let '(left', a', cur') := filter_mb simple fi left (hd None aboves) cur in
    let '(as', cs') := filter_cols simple (tl aboves) ctl (Some cur') in
    (a' :: as', match left' with Some l => l :: cs' | None => cs' end)
  end.

Fixpoint filter_rows (simple : bool) (above : list (option mbpix)) (rows : list (list (mbpix * finfo)))
  : list (list (option mbpix)) :=
  match rows with
  | [] => [above]
  | r :: tl =>
    let '(a', c') := filter_cols simple above r None in
    a' :: filter_rows simple (map Some c') tl
  end.

Definition keep_some (l : list (option mbpix)) : list mbpix :=
  flat_map (fun o => match o with Some p => [p] | None => [] end) l.

Definition filter_frame (simple : bool) (rows : list (list (mbpix * finfo))) : list (list mbpix) :=
  match rows with
  | [] => []
  | r :: _ => map keep_some (tl (filter_rows simple (map (fun _ => None) r) rows))
  end.

(** planes of a macroblock grid, cropped to w x h (chroma (w+1)/2 x (h+1)/2) *)
Definition plane_rows (sel : mbpix -> list (list Z)) (n : nat) (rows : list (list mbpix)) : list (list Z) :=
  flat_map (fun r => hcat_all n (map sel r)) rows.

Definition crop (w h : Z) (rows : list (list Z)) : list (list Z) :=
  map (firstn (Z.to_nat w)) (firstn (Z.to_nat h) rows).

Record planes : Type := mkPlanes { pl_y : list (list Z); pl_u : list (list Z); pl_v : list (list Z) }.

Definition planes_of (w h : Z) (rows : list (list mbpix)) : planes :=
  let cw := (w + 1) / 2 in let ch := (h + 1) / 2 in
  mkPlanes (crop w h (plane_rows px_y 16 rows))
           (crop cw ch (plane_rows px_u 8 rows))
           (crop cw ch (plane_rows px_v 8 rows)).
