(** Constant tables of the VP8 key-frame format.  The tables used by the
    specification decoder are the ones regenerated from the Go source
    (WebpGen.Tables); the frozen copies / closed forms below are what
    RFC 6386 prescribes, and Properties/C04.v proves the two equal, so a
    mutated table in /repo breaks an obligation. *)
From Coq Require Import List ZArith Lia Bool.
From WebpGen Require Tables Consts.
From Webp Require Import Vp8.Vp8Bool.
Import ListNotations.
Open Scope Z_scope.

(** tables in use (from the source) *)
Definition zigzag : list Z := WebpGen.Tables.lossy_KZigzag.
Definition bands : list Z := WebpGen.Tables.lossy_KBands.
Definition dc_table : list Z := WebpGen.Tables.lossy_KDcTable.
Definition ac_table : list Z := WebpGen.Tables.lossy_KAcTable.
Definition coeff_probs0 : list (list (list (list Z))) := WebpGen.Tables.lossy_CoeffsProba0.
Definition coeff_update_probs : list (list (list (list Z))) := WebpGen.Tables.lossy_CoeffsUpdateProba.
Definition kf_bmode_probs : list (list (list Z)) := WebpGen.Tables.lossy_KBModesProba.

(** * RFC 6386 values *)

(** 13: zig-zag scan and coefficient bands *)
Definition rfc_zigzag : list Z := [0; 1; 4; 8; 5; 2; 3; 6; 9; 12; 13; 10; 7; 11; 14; 15].
Definition rfc_bands : list Z := [0; 1; 2; 3; 6; 4; 5; 6; 6; 6; 6; 6; 6; 6; 6; 7].

(** 13.2: extra-bit probabilities of the DCT value categories *)
Definition pcat1 : list Z := [159].
Definition pcat2 : list Z := [165; 145].
Definition pcat3 : list Z := [173; 148; 140].
Definition pcat4 : list Z := [176; 155; 140; 135].
Definition pcat5 : list Z := [180; 157; 141; 134; 130].
Definition pcat6 : list Z := [254; 254; 243; 230; 196; 177; 153; 140; 133; 130; 129].

(** 14.1: dequantisation index tables *)
Definition rfc_DcTable : list Z :=
  [4; 5; 6; 7; 8; 9; 10; 10; 11; 12; 13; 14; 15; 16; 17; 17; 18; 19; 20; 20; 21; 21;
   22; 22; 23; 23; 24; 25; 25; 26; 27; 28; 29; 30; 31; 32; 33; 34; 35; 36; 37; 37; 38; 39; 40;
   41; 42; 43; 44; 45; 46; 46; 47; 48; 49; 50; 51; 52; 53; 54; 55; 56; 57; 58; 59; 60; 61; 62;
   63; 64; 65; 66; 67; 68; 69; 70; 71; 72; 73; 74; 75; 76; 76; 77; 78; 79; 80; 81; 82; 83; 84;
   85; 86; 87; 88; 89; 91; 93; 95; 96; 98; 100; 101; 102; 104; 106; 108; 110; 112; 114; 116;
   118; 122; 124; 126; 128; 130; 132; 134; 136; 138; 140; 143; 145; 148; 151; 154; 157].
Definition rfc_AcTable : list Z :=
  [4; 5; 6; 7; 8; 9; 10; 11; 12; 13; 14; 15; 16; 17; 18; 19; 20; 21; 22; 23; 24; 25;
   26; 27; 28; 29; 30; 31; 32; 33; 34; 35; 36; 37; 38; 39; 40; 41; 42; 43; 44; 45; 46; 47; 48;
   49; 50; 51; 52; 53; 54; 55; 56; 57; 58; 60; 62; 64; 66; 68; 70; 72; 74; 76; 78; 80; 82; 84;
   86; 88; 90; 92; 94; 96; 98; 100; 102; 104; 106; 108; 110; 112; 114; 116; 119; 122; 125; 128;
   131; 134; 137; 140; 143; 146; 149; 152; 155; 158; 161; 164; 167; 170; 173; 177; 181; 185;
   189; 193; 197; 201; 205; 209; 213; 217; 221; 225; 229; 234; 239; 245; 249; 254; 259; 264;
   269; 274; 279; 284].

(** Intra modes are numbered as the Go code numbers them (a naming only):
    16x16/chroma: DC 0, TM 1, V 2, H 3;
    4x4: B_DC 0, B_TM 1, B_VE 2, B_HE 3, B_RD 4, B_VR 5, B_LD 6, B_VL 7, B_HD 8, B_HU 9. *)
Definition DC_PRED := 0. Definition TM_PRED := 1. Definition V_PRED := 2. Definition H_PRED := 3.
Definition B_DC := 0. Definition B_TM := 1. Definition B_VE := 2. Definition B_HE := 3.
Definition B_RD := 4. Definition B_VR := 5. Definition B_LD := 6. Definition B_VL := 7.
Definition B_HD := 8. Definition B_HU := 9.

(** 8.1 / 11.2: key-frame luma mode tree; None = B_PRED.  Fixed probabilities {145,156,163,128}. *)
Definition kf_ymode_tree : tree (option Z) :=
  Node 0 (Leaf None)
    (Node 1 (Node 2 (Leaf (Some DC_PRED)) (Leaf (Some V_PRED)))
            (Node 3 (Leaf (Some H_PRED)) (Leaf (Some TM_PRED)))).
Definition kf_ymode_probs : list Z := [145; 156; 163; 128].

(** chroma mode tree, fixed probabilities {142,114,183} *)
Definition uv_mode_tree : tree Z :=
  Node 0 (Leaf DC_PRED) (Node 1 (Leaf V_PRED) (Node 2 (Leaf H_PRED) (Leaf TM_PRED))).
Definition kf_uv_mode_probs : list Z := [142; 114; 183].

(** 11.2: sub-block mode tree *)
Definition bmode_tree : tree Z :=
  Node 0 (Leaf B_DC)
   (Node 1 (Leaf B_TM)
    (Node 2 (Leaf B_VE)
     (Node 3
       (Node 4 (Leaf B_HE) (Node 5 (Leaf B_RD) (Leaf B_VR)))
       (Node 6 (Leaf B_LD) (Node 7 (Leaf B_VL) (Node 8 (Leaf B_HD) (Leaf B_HU))))))).

(** 9.3: segment-id tree *)
Definition segment_tree : tree Z :=
  Node 0 (Node 1 (Leaf 0) (Leaf 1)) (Node 2 (Leaf 2) (Leaf 3)).

(** 13.2: the part of the coefficient token tree below "not EOB, not zero":
    leaves are (base value, extra-bit probabilities). *)
Definition value_tree : tree (Z * list Z) :=
  Node 2 (Leaf (1, []))
   (Node 3
     (Node 4 (Leaf (2, [])) (Node 5 (Leaf (3, [])) (Leaf (4, []))))
     (Node 6
       (Node 7 (Leaf (5, pcat1)) (Leaf (7, pcat2)))
       (Node 8 (Node 9 (Leaf (11, pcat3)) (Leaf (19, pcat4)))
               (Node 10 (Leaf (35, pcat5)) (Leaf (67, pcat6)))))).

(** Flattening of a tree in the "tree_index array" form the Go code uses for the
    sub-block modes (KYModesIntra4: entry 2*i+bit is the next node index, or
    minus the leaf value; node numbering = probability index). *)
Fixpoint tree_entries (t : tree Z) : list (nat * (Z * Z)) :=
  match t with
  | Leaf _ => []
  | Node i z o =>
    let ent (c : tree Z) := match c with Leaf a => - a | Node j _ _ => Z.of_nat j end in
    (i, (ent z, ent o)) :: tree_entries z ++ tree_entries o
  end.

Definition flat_tree (t : tree Z) (n : nat) : list Z :=
  flat_map (fun i =>
    match find (fun e => Nat.eqb (fst e) i) (tree_entries t) with
    | Some (_, (a, b)) => [a; b]
    | None => [0; 0]
    end) (seq 0 n).

(** checksum used to freeze the big probability tables *)
Definition wsum (l : list Z) : Z :=
  snd (fold_left (fun '(i, s) x => (i + 1, (s + i * x) mod 1000003)) l (1, 0)).
Definition flat2 (l : list (list Z)) : list Z := concat l.
Definition flat3 (l : list (list (list Z))) : list Z := concat (map flat2 l).
Definition flat4 (l : list (list (list (list Z)))) : list Z := concat (map flat3 l).

Fixpoint sorted_le (l : list Z) : bool :=
  match l with
  | a :: ((b :: _) as tl) => (a <=? b) && sorted_le tl
  | _ => true
  end.

Definition is_perm16 (l : list Z) : bool :=
  forallb (fun i => existsb (Z.eqb i) l) (zrange 0 16) && (Z.of_nat (length l) =? 16).
