(** Round trip of the fixed part of the key-frame header over (bit, probability)
    streams: an emitter for the literal / flag / signed / optional-signed fields and
    for the quantiser, loop-filter and segment headers (the field order and encodings
    of emitPartition0: PutBits, PutSignedBits), and the proof that the parsers of
    Vp8Syntax read the emitted fields back.  [sync d ps] says that the RFC decoder [d]
    will read the symbols [ps]; by Vp8BoolEnc.bool_roundtrip the decoder started on
    the Go encoder's output for [ps] is in sync with [ps], so the theorems compose with
    the boolean-coder round trip. *)
From Coq Require Import List ZArith Lia Bool.
From Webp Require Import Vp8.Vp8Bool Vp8.Vp8BoolAbs Vp8.Vp8BoolEnc Vp8.Vp8BoolPos Vp8.Vp8Tables Vp8.Vp8Syntax.
Import ListNotations.
Open Scope Z_scope.

(** [sync d ps]: the decoder will read the symbols [ps], and reading them never takes a bool from
    beyond the end of its input *)
Definition sync (d : bdec) (ps : list (bool * Z)) : Prop :=
  rfc_bits (map snd ps) d = map fst ps /\ bd_past (rfc_run (map snd ps) d) = false.

Lemma sync_cons d b p tl : sync d ((b, p) :: tl) -> exists d', read_bool p d = (b, d') /\ sync d' tl.
Proof.
  unfold sync. cbn [map fst snd rfc_bits rfc_run]. destruct (read_bool p d) as [b' d'].
  intros [H Hp]. injection H as -> H. exists d'. split; [reflexivity|]. split; [exact H|exact Hp].
Qed.

Lemma sync_nil_past d : sync d [] -> bd_past d = false.
Proof. intros [_ H]. exact H. Qed.

Theorem sync_encode ps z : probs_ok ps -> sync (bd_init (bool_encode ps ++ repeat 0 z)) ps.
Proof. intros H. split; [apply bool_roundtrip; exact H|apply encode_no_past; exact H]. Qed.

(** * field emitters *)
Definition e_flag (b : bool) : list (bool * Z) := [(b, 128)].

Fixpoint e_lit (n : nat) (v : Z) : list (bool * Z) :=
  match n with
  | O => []
  | S m => let b := 2 ^ Z.of_nat m <=? v in
           (b, 128) :: e_lit m (if b then v - 2 ^ Z.of_nat m else v)
  end.

Definition e_signed (n : nat) (v : Z) : list (bool * Z) := e_lit n (Z.abs v) ++ e_flag (v <? 0).
Definition e_opt (n : nat) (v : Z) : list (bool * Z) :=
  if v =? 0 then e_flag false else e_flag true ++ e_signed n v.

Lemma rt_flag b d rest : sync d (e_flag b ++ rest) -> exists d', read_flag d = (b, d') /\ sync d' rest.
Proof. intros H. apply sync_cons in H. exact H. Qed.

Lemma rt_literal : forall n v acc d rest, 0 <= v < 2 ^ Z.of_nat n -> sync d (e_lit n v ++ rest) ->
  exists d', read_literal n acc d = (acc * 2 ^ Z.of_nat n + v, d') /\ sync d' rest.
Proof.
  induction n as [|m IH]; intros v acc d rest Hv H; cbn [e_lit read_literal app] in *.
  - exists d. change (Z.of_nat 0) with 0 in *. rewrite Z.pow_0_r in *. split; [f_equal; lia|exact H].
  - rewrite Nat2Z.inj_succ, Z.pow_succ_r in * by lia.
    apply sync_cons in H. destruct H as (d1 & E1 & H1). rewrite E1.
    set (b := 2 ^ Z.of_nat m <=? v) in *.
    assert (Hp : 0 < 2 ^ Z.of_nat m) by (apply Z.pow_pos_nonneg; lia).
    destruct (IH (if b then v - 2 ^ Z.of_nat m else v) (2 * acc + (if b then 1 else 0)) d1 rest) as (d2 & E2 & H2).
    + unfold b. destruct (Z.leb_spec (2 ^ Z.of_nat m) v); lia.
    + exact H1.
    + exists d2. split; [|exact H2]. rewrite E2. f_equal. unfold b. destruct (2 ^ Z.of_nat m <=? v); ring.
Qed.

Lemma rt_lit n v d rest : 0 <= v < 2 ^ Z.of_nat n -> sync d (e_lit n v ++ rest) ->
  exists d', read_lit n d = (v, d') /\ sync d' rest.
Proof.
  intros Hv H. destruct (rt_literal n v 0 d rest Hv H) as (d' & E & H'). exists d'. split; [|exact H'].
  unfold read_lit. rewrite E. f_equal.
Qed.

Lemma rt_signed n v d rest : Z.abs v < 2 ^ Z.of_nat n -> sync d (e_signed n v ++ rest) ->
  exists d', read_signed n d = (v, d') /\ sync d' rest.
Proof.
  intros Hv H. unfold e_signed in H. rewrite <- app_assoc in H.
  destruct (rt_lit n (Z.abs v) d _ ltac:(lia) H) as (d1 & E1 & H1).
  destruct (rt_flag _ d1 rest H1) as (d2 & E2 & H2).
  exists d2. split; [|exact H2]. unfold read_signed. rewrite E1, E2. f_equal.
  destruct (Z.ltb_spec v 0); lia.
Qed.

Lemma rt_opt n v d rest : Z.abs v < 2 ^ Z.of_nat n -> sync d (e_opt n v ++ rest) ->
  exists d', read_opt_signed n d = (v, d') /\ sync d' rest.
Proof.
  intros Hv H. unfold e_opt in H. unfold read_opt_signed. destruct (Z.eqb_spec v 0) as [->|Hne].
  - destruct (rt_flag _ d rest H) as (d1 & E1 & H1). rewrite E1. exists d1. split; [reflexivity|exact H1].
  - rewrite <- app_assoc in H. destruct (rt_flag _ d _ H) as (d1 & E1 & H1). rewrite E1.
    apply rt_signed; assumption.
Qed.

(** four optional signed values in a row (read_n 4) *)
Definition e_opt4 (n : nat) (l : list Z) : list (bool * Z) := concat (map (e_opt n) l).

Lemma rt_opt_n n : forall l d rest, Forall (fun v => Z.abs v < 2 ^ Z.of_nat n) l ->
  sync d (e_opt4 n l ++ rest) ->
  exists d', read_n (length l) (read_opt_signed n) d = (l, d') /\ sync d' rest.
Proof.
  induction l as [|v tl IH]; intros d rest Hl H; cbn [length read_n].
  - exists d. split; [reflexivity|exact H].
  - unfold e_opt4 in H. cbn [map concat] in H. rewrite <- app_assoc in H.
    destruct (rt_opt n v d _ (Forall_inv Hl) H) as (d1 & E1 & H1). rewrite E1.
    destruct (IH d1 rest (Forall_inv_tail Hl) H1) as (d2 & E2 & H2). rewrite E2.
    exists d2. split; [reflexivity|exact H2].
Qed.

(** * quantiser header (9.6) *)
Definition e_q_hdr (q : q_hdr) : list (bool * Z) :=
  e_lit 7 (q_base q) ++ e_opt 4 (q_y1dc q) ++ e_opt 4 (q_y2dc q) ++ e_opt 4 (q_y2ac q) ++
  e_opt 4 (q_uvdc q) ++ e_opt 4 (q_uvac q).

Definition wf_q_hdr (q : q_hdr) : Prop :=
  0 <= q_base q < 128 /\ Z.abs (q_y1dc q) < 16 /\ Z.abs (q_y2dc q) < 16 /\ Z.abs (q_y2ac q) < 16 /\
  Z.abs (q_uvdc q) < 16 /\ Z.abs (q_uvac q) < 16.

Theorem parse_q_hdr_rt q d rest : wf_q_hdr q -> sync d (e_q_hdr q ++ rest) ->
  exists d', parse_q_hdr d = (q, d') /\ sync d' rest.
Proof.
  intros (H0 & H1 & H2 & H3 & H4 & H5) H. unfold e_q_hdr in H. rewrite <- !app_assoc in H.
  unfold parse_q_hdr.
  destruct (rt_lit 7 _ d _ H0 H) as (d1 & E1 & S1). rewrite E1.
  destruct (rt_opt 4 _ d1 _ H1 S1) as (d2 & E2 & S2). rewrite E2.
  destruct (rt_opt 4 _ d2 _ H2 S2) as (d3 & E3 & S3). rewrite E3.
  destruct (rt_opt 4 _ d3 _ H3 S3) as (d4 & E4 & S4). rewrite E4.
  destruct (rt_opt 4 _ d4 _ H4 S4) as (d5 & E5 & S5). rewrite E5.
  destruct (rt_opt 4 _ d5 _ H5 S5) as (d6 & E6 & S6). rewrite E6.
  exists d6. split; [|exact S6]. destruct q; reflexivity.
Qed.

(** * loop-filter header (9.6): type, level, sharpness, delta flag, update flag, 4 + 4 deltas *)
Definition e_lf_hdr (upd : bool) (h : lf_hdr) : list (bool * Z) :=
  e_flag (lf_is_simple h) ++ e_lit 6 (lf_level h) ++ e_lit 3 (lf_sharp h) ++ e_flag (lf_delta_enabled h) ++
  (if lf_delta_enabled h then
     e_flag upd ++ (if upd then e_opt4 6 (lf_ref h) ++ e_opt4 6 (lf_mode h) else [])
   else []).

Definition wf_lf_hdr (upd : bool) (h : lf_hdr) : Prop :=
  0 <= lf_level h < 64 /\ 0 <= lf_sharp h < 8 /\
  length (lf_ref h) = 4%nat /\ length (lf_mode h) = 4%nat /\
  Forall (fun v => Z.abs v < 64) (lf_ref h) /\ Forall (fun v => Z.abs v < 64) (lf_mode h) /\
  (* deltas that are not transmitted are the key-frame defaults *)
  (lf_delta_enabled h && upd = false -> lf_ref h = zeros4 /\ lf_mode h = zeros4).

Theorem parse_lf_hdr_rt upd h d rest : wf_lf_hdr upd h -> sync d (e_lf_hdr upd h ++ rest) ->
  exists d', parse_lf_hdr d = (h, d') /\ sync d' rest.
Proof.
  intros (H0 & H1 & L1 & L2 & F1 & F2 & Hdef) H. unfold e_lf_hdr in H. rewrite <- !app_assoc in H.
  unfold parse_lf_hdr.
  destruct (rt_flag _ d _ H) as (d1 & E1 & S1). rewrite E1.
  destruct (rt_lit 6 _ d1 _ H0 S1) as (d2 & E2 & S2). rewrite E2.
  destruct (rt_lit 3 _ d2 _ H1 S2) as (d3 & E3 & S3). rewrite E3.
  destruct (rt_flag _ d3 _ S3) as (d4 & E4 & S4). rewrite E4.
  destruct h as [simple level sharp de refs modes]. cbn [lf_is_simple lf_level lf_sharp lf_delta_enabled lf_ref lf_mode] in *.
  destruct de; cbn [negb].
  - rewrite <- !app_assoc in S4.
    destruct (rt_flag _ d4 _ S4) as (d5 & E5 & S5). rewrite E5.
    destruct upd; cbn [negb].
    + rewrite <- !app_assoc in S5.
      pose proof (rt_opt_n 6 refs d5 _ F1 S5) as (d6 & E6 & S6). rewrite L1 in E6. rewrite E6.
      pose proof (rt_opt_n 6 modes d6 _ F2 S6) as (d7 & E7 & S7). rewrite L2 in E7. rewrite E7.
      exists d7. split; [reflexivity|exact S7].
    + destruct (Hdef eq_refl) as [-> ->]. exists d5. split; [reflexivity|exact S5].
  - destruct (Hdef eq_refl) as [-> ->]. exists d4. split; [reflexivity|exact S4].
Qed.

(** * segment header (9.3) *)
Definition e_prob (p : Z) : list (bool * Z) :=
  if p =? 255 then e_flag false else e_flag true ++ e_lit 8 p.

Definition read_prob (d : bdec) : Z * bdec :=
  let '(f, d1) := read_flag d in if f then read_lit 8 d1 else (255, d1).

Lemma rt_prob p d rest : 0 <= p <= 255 -> sync d (e_prob p ++ rest) ->
  exists d', read_prob d = (p, d') /\ sync d' rest.
Proof.
  intros Hp H. unfold e_prob in H. unfold read_prob. destruct (Z.eqb_spec p 255) as [->|Hne].
  - destruct (rt_flag _ d rest H) as (d1 & E1 & H1). rewrite E1. exists d1. split; [reflexivity|exact H1].
  - rewrite <- app_assoc in H. destruct (rt_flag _ d _ H) as (d1 & E1 & H1). rewrite E1.
    apply rt_lit; [change (2 ^ Z.of_nat 8) with 256; lia|exact H1].
Qed.

Lemma rt_prob_n : forall l d rest, Forall (fun p => 0 <= p <= 255) l ->
  sync d (concat (map e_prob l) ++ rest) ->
  exists d', read_n (length l) read_prob d = (l, d') /\ sync d' rest.
Proof.
  induction l as [|v tl IH]; intros d rest Hl H; cbn [length read_n].
  - exists d. split; [reflexivity|exact H].
  - cbn [map concat] in H. rewrite <- app_assoc in H.
    destruct (rt_prob v d _ (Forall_inv Hl) H) as (d1 & E1 & H1). rewrite E1.
    destruct (IH d1 rest (Forall_inv_tail Hl) H1) as (d2 & E2 & H2). rewrite E2.
    exists d2. split; [reflexivity|exact H2].
Qed.

Definition e_seg_hdr (upd_data : bool) (h : seg_hdr) : list (bool * Z) :=
  e_flag (sg_enabled h) ++
  (if sg_enabled h then
     e_flag (sg_update_map h) ++ e_flag upd_data ++
     (if upd_data then e_flag (sg_abs h) ++ e_opt4 7 (sg_quant h) ++ e_opt4 6 (sg_lf h) else []) ++
     (if sg_update_map h then concat (map e_prob (sg_probs h)) else [])
   else []).

Definition wf_seg_hdr (abs_default upd_data : bool) (h : seg_hdr) : Prop :=
  length (sg_quant h) = 4%nat /\ length (sg_lf h) = 4%nat /\ length (sg_probs h) = 3%nat /\
  Forall (fun v => Z.abs v < 128) (sg_quant h) /\ Forall (fun v => Z.abs v < 64) (sg_lf h) /\
  Forall (fun p => 0 <= p <= 255) (sg_probs h) /\
  (sg_enabled h = false -> h = mkSeg false false false zeros4 zeros4 [255; 255; 255]) /\
  (upd_data = false -> sg_abs h = abs_default /\ sg_quant h = zeros4 /\ sg_lf h = zeros4) /\
  (sg_update_map h = false -> sg_probs h = [255; 255; 255]).

Theorem parse_seg_hdr_rt abs_default upd h d rest : wf_seg_hdr abs_default upd h ->
  sync d (e_seg_hdr upd h ++ rest) ->
  exists d', parse_seg_hdr abs_default d = (h, d') /\ sync d' rest.
Proof.
  intros (L1 & L2 & L3 & F1 & F2 & F3 & Hoff & Hnd & Hnm) H. unfold e_seg_hdr in H. rewrite <- !app_assoc in H.
  unfold parse_seg_hdr.
  destruct (rt_flag _ d _ H) as (d1 & E1 & S1). rewrite E1.
  destruct (sg_enabled h) eqn:Een; cbn [negb].
  2:{ rewrite (Hoff eq_refl). exists d1. split; [reflexivity|]. cbn [app] in S1. exact S1. }
  rewrite <- !app_assoc in S1.
  destruct (rt_flag _ d1 _ S1) as (d2 & E2 & S2). rewrite E2.
  destruct (rt_flag _ d2 _ S2) as (d3 & E3 & S3). rewrite E3.
  destruct h as [en um ab qs lfs prs]. cbn [sg_enabled sg_update_map sg_abs sg_quant sg_lf sg_probs] in *. subst en.
  destruct upd.
  - rewrite <- !app_assoc in S3.
    destruct (rt_flag _ d3 _ S3) as (d4 & E4 & S4). rewrite E4.
    pose proof (rt_opt_n 7 qs d4 _ F1 S4) as (d5 & E5 & S5). rewrite L1 in E5. rewrite E5.
    pose proof (rt_opt_n 6 lfs d5 _ F2 S5) as (d6 & E6 & S6). rewrite L2 in E6. rewrite E6.
    destruct um.
    + pose proof (rt_prob_n prs d6 _ F3 S6) as (d7 & E7 & S7). rewrite L3 in E7.
      change (read_n 3 read_prob d6) with (read_n 3 (fun d => let '(f, d1) := read_flag d in if f then read_lit 8 d1 else (255, d1)) d6) in E7.
      rewrite E7. exists d7. split; [reflexivity|exact S7].
    + rewrite (Hnm eq_refl). exists d6. split; [reflexivity|exact S6].
  - destruct (Hnd eq_refl) as (-> & -> & ->). cbn [app] in S3.
    destruct um.
    + pose proof (rt_prob_n prs d3 _ F3 S3) as (d7 & E7 & S7). rewrite L3 in E7.
      change (read_n 3 read_prob d3) with (read_n 3 (fun d => let '(f, d1) := read_flag d in if f then read_lit 8 d1 else (255, d1)) d3) in E7.
      rewrite E7. exists d7. split; [reflexivity|exact S7].
    + rewrite (Hnm eq_refl). exists d3. split; [reflexivity|exact S3].
Qed.

(** * the fixed part of the first partition: colour space, clamping, segment header,
    filter header, partition count, quantiser header *)
Definition e_fixed_hdr (upd_seg upd_lf : bool) (cs ct : bool) (sg : seg_hdr) (lf : lf_hdr) (lp : Z) (q : q_hdr)
  : list (bool * Z) :=
  e_flag cs ++ e_flag ct ++ e_seg_hdr upd_seg sg ++ e_lf_hdr upd_lf lf ++ e_lit 2 lp ++ e_q_hdr q.

Theorem syntax_roundtrip_fixed abs_default upd_seg upd_lf cs ct sg lf lp q d rest :
  wf_seg_hdr abs_default upd_seg sg -> wf_lf_hdr upd_lf lf -> 0 <= lp < 4 -> wf_q_hdr q ->
  sync d (e_fixed_hdr upd_seg upd_lf cs ct sg lf lp q ++ rest) ->
  exists d', parse_fixed_hdr abs_default d = ((cs, ct, sg, lf, lp, q), d') /\ sync d' rest.
Proof.
  intros Hsg Hlf Hlp Hq H. unfold e_fixed_hdr in H. rewrite <- !app_assoc in H. unfold parse_fixed_hdr.
  destruct (rt_flag _ d _ H) as (d1 & E1 & S1). rewrite E1.
  destruct (rt_flag _ d1 _ S1) as (d2 & E2 & S2). rewrite E2.
  destruct (parse_seg_hdr_rt abs_default upd_seg sg d2 _ Hsg S2) as (d3 & E3 & S3). rewrite E3.
  destruct (parse_lf_hdr_rt upd_lf lf d3 _ Hlf S3) as (d4 & E4 & S4). rewrite E4.
  destruct (rt_lit 2 lp d4 _ Hlp S4) as (d5 & E5 & S5). rewrite E5.
  destruct (parse_q_hdr_rt q d5 _ Hq S5) as (d6 & E6 & S6). rewrite E6.
  exists d6. split; [reflexivity|exact S6].
Qed.

(** composed with the boolean coder: the header parsed from the Go encoder's bytes *)
Corollary syntax_roundtrip_fixed_bytes abs_default upd_seg upd_lf cs ct sg lf lp q tail z :
  wf_seg_hdr abs_default upd_seg sg -> wf_lf_hdr upd_lf lf -> 0 <= lp < 4 -> wf_q_hdr q ->
  probs_ok (e_fixed_hdr upd_seg upd_lf cs ct sg lf lp q ++ tail) ->
  fst (parse_fixed_hdr abs_default
         (bd_init (bool_encode (e_fixed_hdr upd_seg upd_lf cs ct sg lf lp q ++ tail) ++ repeat 0 z)))
  = (cs, ct, sg, lf, lp, q).
Proof.
  intros Hsg Hlf Hlp Hq Hok.
  destruct (syntax_roundtrip_fixed abs_default upd_seg upd_lf cs ct sg lf lp q _ tail Hsg Hlf Hlp Hq
              (sync_encode _ z Hok)) as (d' & E & _).
  rewrite E. reflexivity.
Qed.

(** the hypotheses are satisfiable by a non-trivial header (segments in delta mode with
    a map, loop-filter deltas transmitted, negative quantiser delta) *)
Example wf_headers_example :
  wf_seg_hdr false true (mkSeg true true false [0; -5; 12; 127] [3; 0; -63; 1] [200; 255; 1]) /\
  wf_lf_hdr true (mkLf true 40 5 true [-3; 0; 0; 10] [4; 0; 0; 0]) /\
  wf_q_hdr (mkQ 77 0 (-15) 15 (-4) 0).
Proof.
  unfold wf_seg_hdr, wf_lf_hdr, wf_q_hdr. cbn.
  repeat split; try lia; try discriminate; repeat constructor; try lia.
Qed.

(** * coefficient probability updates (13.4) and the skip probability: the whole header *)
Fixpoint e_map2 {A B} (e : A -> B -> list (bool * Z)) (la : list A) (lb : list B) : list (bool * Z) :=
  match la, lb with
  | a :: ta, b :: tb => e a b ++ e_map2 e ta tb
  | _, _ => []
  end.

Lemma rt_map_st {A B} (f : A -> bdec -> B * bdec) (e : A -> B -> list (bool * Z)) (P : A -> B -> Prop) :
  (forall a b d rest, P a b -> sync d (e a b ++ rest) -> exists d', f a d = (b, d') /\ sync d' rest) ->
  forall la lb d rest, Forall2 P la lb -> sync d (e_map2 e la lb ++ rest) ->
  exists d', map_st f la d = (lb, d') /\ sync d' rest.
Proof.
  intros Hf la lb d rest H. revert d rest. induction H as [|a b ta tb Hab Ht IH]; intros d rest Hs; cbn [map_st e_map2] in *.
  - exists d. split; [reflexivity|exact Hs].
  - rewrite <- app_assoc in Hs. destruct (Hf a b d _ Hab Hs) as (d1 & E1 & S1). rewrite E1.
    destruct (IH d1 rest S1) as (d2 & E2 & S2). rewrite E2. exists d2. split; [reflexivity|exact S2].
Qed.

(** one probability: flag coded with the update probability, then the new value if it differs *)
Definition e_upd (uo : Z * Z) (n : Z) : list (bool * Z) :=
  let '(up, old) := uo in if n =? old then [(false, up)] else (true, up) :: e_lit 8 n.

Definition P1 (uo : Z * Z) (n : Z) : Prop := 0 <= n <= 255.

Lemma rt_upd1 : forall l news d rest, Forall2 P1 l news -> sync d (e_map2 e_upd l news ++ rest) ->
  exists d', upd_probs1 l d = (news, d') /\ sync d' rest.
Proof.
  intros l news d rest H. revert d rest.
  induction H as [|[up old] n tl ntl Hn Ht IH]; intros d rest Hs; cbn [upd_probs1 e_map2] in *.
  - exists d. split; [reflexivity|exact Hs].
  - rewrite <- app_assoc in Hs. unfold e_upd in Hs. unfold P1 in Hn.
    destruct (Z.eqb_spec n old) as [->|Hne].
    + apply sync_cons in Hs. destruct Hs as (d1 & E1 & S1). rewrite E1.
      destruct (IH d1 rest S1) as (d2 & E2 & S2). rewrite E2. exists d2. split; [reflexivity|exact S2].
    + cbn [app] in Hs. apply sync_cons in Hs. destruct Hs as (d1 & E1 & S1). rewrite E1.
      destruct (rt_lit 8 n d1 _ ltac:(change (2 ^ Z.of_nat 8) with 256; lia) S1) as (d2 & E2 & S2). rewrite E2.
      destruct (IH d2 rest S2) as (d3 & E3 & S3). rewrite E3. exists d3. split; [reflexivity|exact S3].
Qed.

Definition e2 (uo : list Z * list Z) (n : list Z) := e_map2 e_upd (combine (fst uo) (snd uo)) n.
Definition P2 (uo : list Z * list Z) (n : list Z) := Forall2 P1 (combine (fst uo) (snd uo)) n.
Definition e3 (uo : list (list Z) * list (list Z)) (n : list (list Z)) := e_map2 e2 (combine (fst uo) (snd uo)) n.
Definition P3 (uo : list (list Z) * list (list Z)) (n : list (list Z)) := Forall2 P2 (combine (fst uo) (snd uo)) n.
Definition e4 (uo : list (list (list Z)) * list (list (list Z))) (n : list (list (list Z))) :=
  e_map2 e3 (combine (fst uo) (snd uo)) n.
Definition P4 (uo : list (list (list Z)) * list (list (list Z))) (n : list (list (list Z))) :=
  Forall2 P3 (combine (fst uo) (snd uo)) n.

Definition e_probs (news : list (list (list (list Z)))) : list (bool * Z) :=
  e_map2 e4 (combine coeff_update_probs coeff_probs0) news.
(** the new table has the shape of the default one and holds bytes *)
Definition wf_probs (news : list (list (list (list Z)))) : Prop :=
  Forall2 P4 (combine coeff_update_probs coeff_probs0) news.

Theorem upd_probs_rt news d rest : wf_probs news -> sync d (e_probs news ++ rest) ->
  exists d', upd_probs d = (news, d') /\ sync d' rest.
Proof.
  intros Hw Hs. unfold upd_probs.
  apply (rt_map_st _ e4 P4); [|exact Hw|exact Hs].
  intros [u3 o3] n3 d3 r3 H3 S3.
  apply (rt_map_st _ e3 P3); [|exact H3|exact S3].
  intros [u2 o2] n2 d2 r2 H2 S2.
  apply (rt_map_st _ e2 P2); [|exact H2|exact S2].
  intros [u1 o1] n1 d1 r1 H1 S1.
  apply rt_upd1; [exact H1|exact S1].
Qed.

Definition e_part1_hdr (upd_seg upd_lf refresh : bool) (h : frame_hdr) : list (bool * Z) :=
  e_fixed_hdr upd_seg upd_lf (fh_color h) (fh_clamp h) (fh_seg h) (fh_lf h) (fh_log2parts h) (fh_q h) ++
  e_flag refresh ++ e_probs (fh_probs h) ++ e_flag (fh_skip_enabled h) ++
  (if fh_skip_enabled h then e_lit 8 (fh_skip_prob h) else []).

Definition wf_frame_hdr (abs_default upd_seg upd_lf : bool) (h : frame_hdr) : Prop :=
  wf_seg_hdr abs_default upd_seg (fh_seg h) /\ wf_lf_hdr upd_lf (fh_lf h) /\ 0 <= fh_log2parts h < 4 /\
  wf_q_hdr (fh_q h) /\ wf_probs (fh_probs h) /\ 0 <= fh_skip_prob h <= 255 /\
  (fh_skip_enabled h = false -> fh_skip_prob h = 0).

(** The whole first-partition header: every field the parser returns is the emitted one
    (width, height and scales come from the uncompressed frame start, they are passed through). *)
Theorem syntax_roundtrip abs_default upd_seg upd_lf refresh h d rest :
  wf_frame_hdr abs_default upd_seg upd_lf h ->
  sync d (e_part1_hdr upd_seg upd_lf refresh h ++ rest) ->
  exists d', parse_part1_hdr abs_default (fh_w h) (fh_h h) (fh_xscale h) (fh_yscale h) d = (h, d') /\ sync d' rest.
Proof.
  intros (Hsg & Hlf & Hlp & Hq & Hpr & Hsk & Hsk0) H. unfold e_part1_hdr in H. rewrite <- !app_assoc in H.
  unfold parse_part1_hdr.
  destruct (syntax_roundtrip_fixed abs_default upd_seg upd_lf _ _ _ _ _ _ d _ Hsg Hlf Hlp Hq H) as (d1 & E1 & S1).
  rewrite E1.
  destruct (rt_flag _ d1 _ S1) as (d2 & E2 & S2). rewrite E2.
  destruct (upd_probs_rt _ d2 _ Hpr S2) as (d3 & E3 & S3). rewrite E3.
  destruct (rt_flag _ d3 _ S3) as (d4 & E4 & S4). rewrite E4.
  destruct h as [w hh xs ys cs ct sg lf lp q pr sk skp].
  cbn [fh_w fh_h fh_xscale fh_yscale fh_color fh_clamp fh_seg fh_lf fh_log2parts fh_q fh_probs fh_skip_enabled fh_skip_prob] in *.
  destruct sk.
  - destruct (rt_lit 8 skp d4 _ ltac:(change (2 ^ Z.of_nat 8) with 256; lia) S4) as (d5 & E5 & S5). rewrite E5.
    exists d5. split; [reflexivity|exact S5].
  - rewrite (Hsk0 eq_refl). exists d4. split; [reflexivity|]. cbn [app] in S4. exact S4.
Qed.

(** the default table is a well-formed "new" table (no update at all) *)
Example wf_probs_default : wf_probs coeff_probs0.
Proof.
  unfold wf_probs, P4, P3, P2, P1.
  repeat (constructor; cbn [fst snd combine]); lia.
Qed.
