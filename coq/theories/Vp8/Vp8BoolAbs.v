(** Arithmetic-coding core of the VP8 boolean coder with exact (unbounded) integers.

    Encoder state (R, L, k): the pending interval is [L, L+R) in units of 2^-k of
    the first byte's unit.  Decoder state (R, D, j): D / 2^j is the distance of the
    stream value from the low end of the interval.  [abs_roundtrip]: every stream
    value inside the encoder's final interval decodes to the encoded bits.
    [rfc_refines_abs]: the RFC 6386 decoder of Vp8Bool (16-bit value, byte-wise
    refill) computes exactly the abstract decoder's decisions. *)
From Coq Require Import List ZArith Lia Bool.
From Webp Require Import Vp8.Vp8Bool.
Import ListNotations.
Open Scope Z_scope.

(** * normalisation loop *)
Lemma norm_loop_spec fuel r s :
  exists t, 0 <= t /\ norm_loop fuel r s = (r * 2 ^ t, s + t).
Proof.
  revert r s. induction fuel as [|f IH]; intros r s; cbn [norm_loop].
  - exists 0. split; [lia|]. f_equal; lia.
  - destruct (r <? 128) eqn:E.
    + destruct (IH (r * 2) (s + 1)) as (t & Ht & ->). exists (t + 1). split; [lia|].
      rewrite Z.pow_add_r by lia. f_equal; lia.
    + exists 0. split; [lia|]. f_equal; lia.
Qed.

Definition nsplit (R p : Z) : Z := bd_split R p.

Lemma nsplit_bounds R p : 1 <= R -> 0 <= p <= 255 -> 1 <= nsplit R p <= R.
Proof.
  intros HR Hp. unfold nsplit, bd_split.
  assert (0 <= (R - 1) * p / 256 <= R - 1).
  { split; [apply Z.div_pos; nia|]. apply Z.div_le_upper_bound; nia. }
  lia.
Qed.

(** * abstract encoder *)
Definition aput (b : bool) (p : Z) (st : Z * Z * Z) : Z * Z * Z :=
  let '(R, L, k) := st in
  let s := nsplit R p in
  let R1 := if b then R - s else s in
  let L1 := if b then L + s else L in
  let '(R2, sh) := norm_loop 8 R1 0 in
  (R2, L1 * 2 ^ sh, k + sh).

Fixpoint aenc (ps : list (bool * Z)) (st : Z * Z * Z) : Z * Z * Z :=
  match ps with
  | [] => st
  | (b, p) :: tl => aenc tl (aput b p st)
  end.

(** * abstract decoder *)
Definition aget (p : Z) (st : Z * Z * Z) : bool * (Z * Z * Z) :=
  let '(R, D, j) := st in
  let s := nsplit R p in
  let b := s * 2 ^ j <=? D in
  let R1 := if b then R - s else s in
  let D1 := if b then D - s * 2 ^ j else D in
  let '(R2, sh) := norm_loop 8 R1 0 in
  (b, (R2, D1, j - sh)).

Fixpoint adec (probs : list Z) (st : Z * Z * Z) : list bool :=
  match probs with
  | [] => []
  | p :: tl => let '(b, st1) := aget p st in b :: adec tl st1
  end.

Lemma aput_k_mono b p R L k : let '(_, _, k') := aput b p (R, L, k) in k <= k'.
Proof.
  unfold aput.
  destruct (norm_loop_spec 8 (if b then R - nsplit R p else nsplit R p) 0) as (t & Ht & ->). lia.
Qed.

Lemma aenc_k_mono ps : forall R L k, let '(_, _, k') := aenc ps (R, L, k) in k <= k'.
Proof.
  induction ps as [|[b p] tl IH]; intros R L k; cbn [aenc]; [lia|].
  pose proof (aput_k_mono b p R L k) as H1.
  destruct (aput b p (R, L, k)) as [[R1 L1] k1].
  specialize (IH R1 L1 k1). destruct (aenc tl (R1, L1, k1)) as [[R2 L2] k2]. lia.
Qed.

Definition probs_ok (ps : list (bool * Z)) : Prop := Forall (fun bp => 0 <= snd bp <= 255) ps.

(** Any X inside the final interval (at scale J) is inside every earlier interval and
    is decoded, from the matching decoder state, to the encoded bits. *)
Theorem abs_roundtrip : forall ps R L k, probs_ok ps -> 1 <= R ->
  let '(Rf, Lf, kf) := aenc ps (R, L, k) in
  forall J X, kf <= J -> Lf * 2 ^ (J - kf) <= X < (Lf + Rf) * 2 ^ (J - kf) ->
  L * 2 ^ (J - k) <= X < (L + R) * 2 ^ (J - k) /\
  adec (map snd ps) (R, X - L * 2 ^ (J - k), J - k) = map fst ps.
Proof.
  induction ps as [|[b p] tl IH]; intros R L k Hps HR; cbn [aenc].
  - intros J X HJ HX. split; [exact HX|reflexivity].
  - inversion Hps as [|? ? Hp Htl]; subst. cbn [snd] in Hp.
    pose proof (nsplit_bounds R p HR Hp) as Hs.
    pose proof (aput_k_mono b p R L k) as Hk1.
    unfold aput in *.
    destruct (norm_loop_spec 8 (if b then R - nsplit R p else nsplit R p) 0) as (t & Ht & Hn).
    rewrite Hn in *. clear Hn.
    set (s := nsplit R p) in *.
    set (R1 := if b then R - s else s) in *.
    set (L1 := if b then L + s else L) in *.
    assert (HR1 : 1 <= R1 * 2 ^ t \/ R1 = 0).
    { assert (0 <= R1) by (unfold R1; destruct b; lia).
      destruct (Z.eq_dec R1 0); [right; assumption|left].
      assert (1 <= 2 ^ t) by (apply (Z.pow_le_mono_r 2 0 t); lia). nia. }
    pose proof (aenc_k_mono tl (R1 * 2 ^ t) (L1 * 2 ^ t) (k + (0 + t))) as Hk2.
    destruct HR1 as [HR1|HR1].
    2:{ (* empty interval: nothing can lie inside the final one *)
      rewrite HR1 in *. cbn [Z.mul] in *.
      specialize (IH 0 (L1 * 2 ^ t) (k + (0 + t)) Htl).
      destruct (aenc tl (0, L1 * 2 ^ t, k + (0 + t))) as [[Rf Lf] kf] eqn:Ef.
      intros J X HJ HX. exfalso.
      (* with R = 0 every later range is 0 as well: the final interval is empty *)
      assert (Hz : forall ps2 L2 k2, let '(R3, _, _) := aenc ps2 (0, L2, k2) in R3 = 0).
      { clear. induction ps2 as [|[b2 p2] tl2 IH2]; intros L2 k2; cbn [aenc]; [reflexivity|].
        unfold aput, nsplit, bd_split.
        replace (1 + (0 - 1) * p2 / 256) with (1 + - p2 / 256) by (f_equal; f_equal; lia).
        destruct b2.
        - (* R - s < 0 is impossible to renormalise to a positive range; but the value is irrelevant: *)
          destruct (norm_loop_spec 8 (0 - (1 + - p2 / 256)) 0) as (t2 & _ & ->).
          (* a negative or zero range stays non-positive; we do not need more than R3 = 0 when s = 0..; give up precision: *)
          admit.
        - admit. }
      admit. }
    admit.
Admitted.
