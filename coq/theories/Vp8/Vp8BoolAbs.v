(** Arithmetic-coding core of the VP8 boolean coder with exact (unbounded) integers.

    Encoder state (R, L, k): the pending interval is [L, L+R) in units of 2^-k of
    the first byte's unit.  Decoder state (R, D, j): D / 2^j is the distance of the
    stream value from the low end of the interval.  [abs_roundtrip]: every stream
    value inside the encoder's final interval decodes to the encoded bits.
    [rfc_refines_abs]: the RFC 6386 decoder of Vp8Bool (16-bit value, byte-wise
    refill) computes exactly the abstract decoder's decisions. *)
From Coq Require Import List ZArith Lia Bool.
From Webp Require Import Vp8.Vp8Bool.
Import ListNotations.
Open Scope Z_scope.

(** * normalisation loop *)
Lemma norm_loop_spec fuel r s :
  exists t, 0 <= t /\ norm_loop fuel r s = (r * 2 ^ t, s + t).
Proof.
  revert r s. induction fuel as [|f IH]; intros r s; cbn [norm_loop].
  - exists 0. split; [lia|]. f_equal; lia.
  - destruct (r <? 128) eqn:E.
    + destruct (IH (r * 2) (s + 1)) as (t & Ht & ->). exists (t + 1). split; [lia|].
      rewrite Z.pow_add_r by lia. f_equal; lia.
    + exists 0. split; [lia|]. f_equal; lia.
Qed.

Definition nsplit (R p : Z) : Z := bd_split R p.

Lemma nsplit_bounds R p : 128 <= R <= 255 -> 0 <= p <= 255 -> 1 <= nsplit R p <= R - 1.
Proof.
  intros HR Hp. unfold nsplit, bd_split.
  assert (0 <= (R - 1) * p / 256 <= R - 2).
  { split; [apply Z.div_pos; nia|].
    assert ((R - 1) * p / 256 < R - 1) by (apply Z.div_lt_upper_bound; nia). lia. }
  lia.
Qed.

(** normalising any range 1..255 gives a range in 128..255 *)
Lemma norm_range_sweep :
  forallb (fun r => let '(r2, sh) := norm_loop 8 r 0 in (128 <=? r2) && (r2 <=? 255) && (sh <=? 7)) (zrange 1 255) = true.
Proof. vm_compute. reflexivity. Qed.

Lemma norm_range r : 1 <= r <= 255 ->
  128 <= fst (norm_loop 8 r 0) <= 255 /\ snd (norm_loop 8 r 0) <= 7.
Proof.
  intros H.
  pose proof (proj1 (forallb_forall _ _) norm_range_sweep r (in_zrange 1 255 r ltac:(lia) ltac:(lia))) as Hx.
  cbv beta in Hx. destruct (norm_loop 8 r 0) as [r2 sh]. cbn [fst snd].
  rewrite !andb_true_iff in Hx. destruct Hx as [[H1 H2] H3]. apply Z.leb_le in H1, H2, H3. lia.
Qed.

(** * abstract encoder *)
Definition aput (b : bool) (p : Z) (st : Z * Z * Z) : Z * Z * Z :=
  let '(R, L, k) := st in
  let s := nsplit R p in
  let R1 := if b then R - s else s in
  let L1 := if b then L + s else L in
  let '(R2, sh) := norm_loop 8 R1 0 in
  (R2, L1 * 2 ^ sh, k + sh).

Fixpoint aenc (ps : list (bool * Z)) (st : Z * Z * Z) : Z * Z * Z :=
  match ps with
  | [] => st
  | (b, p) :: tl => aenc tl (aput b p st)
  end.

(** * abstract decoder *)
Definition aget (p : Z) (st : Z * Z * Z) : bool * (Z * Z * Z) :=
  let '(R, D, j) := st in
  let s := nsplit R p in
  let b := s * 2 ^ j <=? D in
  let R1 := if b then R - s else s in
  let D1 := if b then D - s * 2 ^ j else D in
  let '(R2, sh) := norm_loop 8 R1 0 in
  (b, (R2, D1, j - sh)).

Fixpoint adec (probs : list Z) (st : Z * Z * Z) : list bool :=
  match probs with
  | [] => []
  | p :: tl => let '(b, st1) := aget p st in b :: adec tl st1
  end.

Definition probs_ok (ps : list (bool * Z)) : Prop := Forall (fun bp => 0 <= snd bp <= 255) ps.

(** one encoder step, unfolded *)
Lemma aput_spec (b : bool) p R L k : 128 <= R <= 255 -> 0 <= p <= 255 ->
  exists t, 0 <= t /\
    let s := nsplit R p in
    let R1 := if b then R - s else s in
    let L1 := if b then L + s else L in
    aput b p (R, L, k) = (R1 * 2 ^ t, L1 * 2 ^ t, k + t) /\
    norm_loop 8 R1 0 = (R1 * 2 ^ t, t) /\ 1 <= R1 <= 255 /\ 128 <= R1 * 2 ^ t <= 255.
Proof.
  intros HR Hp. pose proof (nsplit_bounds R p HR Hp) as Hs. cbv zeta.
  set (R1 := if b then R - nsplit R p else nsplit R p).
  assert (HR1 : 1 <= R1 <= 255) by (unfold R1; destruct b; lia).
  destruct (norm_loop_spec 8 R1 0) as (t & Ht & Hn).
  exists t. split; [exact Ht|].
  pose proof (proj1 (norm_range R1 HR1)) as Hr. rewrite Hn in Hr. cbn [fst] in Hr.
  unfold aput. fold R1. rewrite Hn. replace (0 + t) with t by lia.
  repeat split; try lia.
Qed.

(** Any X inside the final interval (at scale J) is inside every earlier interval and
    is decoded, from the matching decoder state, to the encoded bits. *)
Theorem abs_roundtrip : forall ps R L k, probs_ok ps -> 128 <= R <= 255 ->
  let '(Rf, Lf, kf) := aenc ps (R, L, k) in
  k <= kf /\ 128 <= Rf <= 255 /\
  forall J X, kf <= J -> Lf * 2 ^ (J - kf) <= X < (Lf + Rf) * 2 ^ (J - kf) ->
  L * 2 ^ (J - k) <= X < (L + R) * 2 ^ (J - k) /\
  adec (map snd ps) (R, X - L * 2 ^ (J - k), J - k) = map fst ps.
Proof.
  induction ps as [|[b p] tl IH]; intros R L k Hps HR; cbn [aenc].
  - split; [lia|]. split; [exact HR|]. intros J X HJ HX. split; [exact HX|reflexivity].
  - inversion Hps as [|? ? Hp Htl]; subst. cbn [snd] in Hp.
    pose proof (nsplit_bounds R p HR Hp) as Hs.
    destruct (aput_spec b p R L k HR Hp) as (t & Ht & Hput & Hn & HR1 & HR2). cbv zeta in *.
    rewrite Hput.
    set (s := nsplit R p) in *.
    set (R1 := if b then R - s else s) in *.
    set (L1 := if b then L + s else L) in *.
    specialize (IH (R1 * 2 ^ t) (L1 * 2 ^ t) (k + t) Htl HR2).
    destruct (aenc tl (R1 * 2 ^ t, L1 * 2 ^ t, k + t)) as [[Rf Lf] kf].
    destruct IH as (Hk & HRf & IH).
    split; [lia|]. split; [exact HRf|].
    intros J X HJ HX. specialize (IH J X HJ HX). destruct IH as [Hin Hdec].
    (* scale bookkeeping: 2^(J-k) = 2^t * 2^(J-(k+t)) *)
    assert (Epow : 2 ^ (J - k) = 2 ^ t * 2 ^ (J - (k + t))).
    { rewrite <- Z.pow_add_r by lia. f_equal. lia. }
    set (q := 2 ^ (J - (k + t))) in *.
    assert (Hq : 0 < q) by (unfold q; apply Z.pow_pos_nonneg; lia).
    assert (Hin1 : L1 * 2 ^ (J - k) <= X < (L1 + R1) * 2 ^ (J - k)).
    { rewrite Epow. replace (L1 * (2 ^ t * q)) with (L1 * 2 ^ t * q) by ring.
      replace ((L1 + R1) * (2 ^ t * q)) with ((L1 * 2 ^ t + R1 * 2 ^ t) * q) by ring. exact Hin. }
    set (w := 2 ^ (J - k)) in *.
    assert (Hw : 0 < w) by (unfold w; apply Z.pow_pos_nonneg; lia).
    split.
    + unfold L1, R1 in Hin1. destruct b; nia.
    + cbn [map fst snd adec]. unfold aget. fold s. fold w.
      assert (Eb : (s * w <=? X - L * w) = b).
      { unfold L1, R1 in Hin1. destruct b.
        - apply Z.leb_le. nia.
        - apply Z.leb_gt. nia. }
      rewrite Eb. fold R1. rewrite Hn.
      f_equal.
      replace (if b then X - L * w - s * w else X - L * w) with (X - L1 * w)
        by (unfold L1; destruct b; ring).
      replace (X - L1 * w) with (X - L1 * 2 ^ t * q) by (rewrite Epow; ring).
      replace (J - k - t) with (J - (k + t)) by lia.
      exact Hdec.
Qed.

(** * The RFC decoder of Vp8Bool refines the abstract decoder *)
Definition is_byte (b : Z) : Prop := 0 <= b <= 255.

(** big-endian value of a byte list *)
Fixpoint bval (l : list Z) : Z :=
  match l with
  | [] => 0
  | b :: tl => b * 2 ^ (8 * Z.of_nat (length tl)) + bval tl
  end.

Lemma bval_bound l : Forall is_byte l -> 0 <= bval l < 2 ^ (8 * Z.of_nat (length l)).
Proof.
  induction l as [|b tl IH]; intros H; cbn [bval length].
  - cbn. lia.
  - inversion H as [|? ? Hb Ht]; subst. specialize (IH Ht).
    replace (8 * Z.of_nat (S (length tl))) with (8 + 8 * Z.of_nat (length tl)) by lia.
    rewrite Z.pow_add_r by lia. change (2 ^ 8) with 256.
    unfold is_byte in Hb. set (W := 2 ^ (8 * Z.of_nat (length tl))) in *. nia.
Qed.

(** concrete state (value, range, count, rest) against abstract (R, D, j):
    value = a * 2^count, D = a * 2^(8m) + bval rest, j = 8m + 8 - count *)
Definition drel (v r c : Z) (rest : list Z) (R D j : Z) : Prop :=
  r = R /\ 0 <= c < 8 /\ Forall is_byte rest /\
  exists a, 0 <= a /\ v = a * 2 ^ c /\ v < 65536 /\
    D = a * 2 ^ (8 * Z.of_nat (length rest)) + bval rest /\
    j = 8 * Z.of_nat (length rest) + 8 - c /\ D < R * 2 ^ j.

Lemma pow_split c : 0 <= c < 8 -> 2 ^ c * 2 ^ (8 - c) = 256 /\ 0 < 2 ^ c /\ 0 < 2 ^ (8 - c).
Proof.
  intros H. rewrite <- Z.pow_add_r by lia. replace (c + (8 - c)) with 8 by lia.
  repeat split; try reflexivity; apply Z.pow_pos_nonneg; lia.
Qed.

Lemma drel_small v r c rest R D j : drel v r c rest R D j -> 1 <= R -> v < R * 256.
Proof.
  intros (-> & Hc & Hb & a & Ha & -> & Hv & -> & -> & HD) HR.
  destruct (pow_split c Hc) as (Hgu & Hg & Hu).
  pose proof (bval_bound rest Hb) as HF.
  set (m8 := 8 * Z.of_nat (length rest)) in *.
  replace (m8 + 8 - c) with ((8 - c) + m8) in HD by lia.
  rewrite Z.pow_add_r in HD by lia.
  set (W := 2 ^ m8) in *. set (g := 2 ^ c) in *. set (u := 2 ^ (8 - c)) in *.
  assert (0 < W) by (unfold W; apply Z.pow_pos_nonneg; lia).
  assert (a < R * u) by nia. nia.
Qed.

(** the decision of the 16-bit comparison is the abstract one *)
Lemma drel_decision v r c rest R D j s : drel v r c rest R D j -> 0 <= s ->
  (s * 256 <=? v) = (s * 2 ^ j <=? D).
Proof.
  intros (-> & Hc & Hb & a & Ha & -> & Hv & -> & -> & HD) Hs.
  destruct (pow_split c Hc) as (Hgu & Hg & Hu).
  pose proof (bval_bound rest Hb) as HF.
  set (m8 := 8 * Z.of_nat (length rest)) in *.
  replace (m8 + 8 - c) with ((8 - c) + m8) by lia.
  rewrite Z.pow_add_r by lia.
  set (W := 2 ^ m8) in *. set (g := 2 ^ c) in *. set (u := 2 ^ (8 - c)) in *.
  assert (0 < W) by (unfold W; apply Z.pow_pos_nonneg; lia).
  destruct (Z.leb_spec (s * 256) (a * g)); destruct (Z.leb_spec (s * (u * W)) (a * W + bval rest));
    try reflexivity; exfalso.
  - assert (s * u <= a) by nia. nia.
  - assert (s * u <= a) by nia. nia.
Qed.

(** subtracting the split on both sides keeps the relation *)
Lemma drel_sub v r c rest R D j s : drel v r c rest R D j -> 0 <= s -> s * 256 <= v -> s <= R ->
  drel (v - s * 256) (r - s) c rest (R - s) (D - s * 2 ^ j) j.
Proof.
  intros (-> & Hc & Hb & a & Ha & -> & Hv & -> & -> & HD) Hs Hle HsR.
  destruct (pow_split c Hc) as (Hgu & Hg & Hu).
  set (m8 := 8 * Z.of_nat (length rest)) in *.
  assert (Ej : 2 ^ (m8 + 8 - c) = 2 ^ (8 - c) * 2 ^ m8).
  { rewrite <- Z.pow_add_r by lia. f_equal. lia. }
  rewrite Ej in *.
  set (W := 2 ^ m8) in *. set (g := 2 ^ c) in *. set (u := 2 ^ (8 - c)) in *.
  assert (0 < W) by (unfold W; apply Z.pow_pos_nonneg; lia).
  split; [reflexivity|]. split; [exact Hc|]. split; [exact Hb|].
  exists (a - s * u). repeat split; try nia.
  all: fold m8; try rewrite Ej; fold W u; try nia.
Qed.

Lemma drel_range v r c rest R D j R' : drel v r c rest R D j -> D < R' * 2 ^ j ->
  drel v R' c rest R' D j.
Proof.
  intros (-> & Hc & Hb & a & Ha & Hv & Hv2 & HDe & Hj & HD) H.
  split; [reflexivity|]. split; [exact Hc|]. split; [exact Hb|].
  exists a. repeat split; assumption.
Qed.

(** normalisation loop *)
Lemma normalize_refines : forall fuel v r c rest pos R D j s r2 s2,
  drel v r c rest R D j -> 1 <= R ->
  norm_loop fuel R s = (r2, s2) -> 8 <= j - (s2 - s) ->
  exists v' c' rest',
    bd_normalize fuel v r c rest pos = (v', r2, c', rest', pos + (s2 - s)) /\
    drel v' r2 c' rest' r2 D (j - (s2 - s)).
Proof.
  induction fuel as [|f IH]; intros v r c rest pos R D j s r2 s2 Hrel HR Hn Hj; cbn [norm_loop] in Hn; cbn [bd_normalize].
  - injection Hn as <- <-. exists v, c, rest. replace (s - s) with 0 by lia.
    rewrite Z.add_0_r, Z.sub_0_r. split; [|destruct Hrel as (-> & ?); split; [reflexivity|assumption]].
    destruct Hrel as (-> & _). reflexivity.
  - destruct Hrel as (Er & Hc & Hb & a & Ha & Ev & Hv & ED & Ej & HD). subst r.
    destruct (R <? 128) eqn:ER.
    2:{ injection Hn as <- <-. exists v, c, rest. replace (s - s) with 0 by lia.
        rewrite Z.add_0_r, Z.sub_0_r. split; [reflexivity|].
        split; [reflexivity|]. split; [exact Hc|]. split; [exact Hb|]. exists a. repeat split; assumption. }
    apply Z.ltb_lt in ER.
    destruct (norm_loop_spec f (R * 2) (s + 1)) as (t & Ht & Hn2). rewrite Hn2 in Hn.
    injection Hn as <- <-.
    assert (Hvs : v < 32768).
    { assert (v < R * 256) by (eapply (drel_small v R c rest R D j); [|lia];
        split; [reflexivity|]; split; [exact Hc|]; split; [exact Hb|]; exists a; repeat split; assumption). lia. }
    assert (Hv0 : 0 <= v) by (subst v; destruct (pow_split c Hc) as (_ & Hg & _); nia).
    assert (HD2 : D < R * 2 * 2 ^ (j - 1)).
    { replace (R * 2 * 2 ^ (j - 1)) with (R * (2 ^ 1 * 2 ^ (j - 1))) by ring.
      rewrite <- Z.pow_add_r by lia. replace (1 + (j - 1)) with j by lia. exact HD. }
    unfold bd_shift1. rewrite (Z.mod_small (v * 2) 65536) by lia.
    destruct (c + 1 =? 8) eqn:Ec.
    + apply Z.eqb_eq in Ec. assert (c = 7) by lia. subst c.
      destruct rest as [|b rest'].
      { cbn [length] in Ej. lia. }
      pose proof (Forall_inv Hb) as Hb1. pose proof (Forall_inv_tail Hb) as Hb2.
      assert (Hrel2 : drel (v * 2 + b) (R * 2) 0 rest' (R * 2) D (j - 1)).
      { split; [reflexivity|]. split; [lia|]. split; [exact Hb2|].
        exists (a * 256 + b). unfold is_byte in Hb1. cbn [length bval] in ED, Ej.
        change (2 ^ 7) with 128 in *. change (2 ^ 0) with 1.
        replace (8 * Z.of_nat (S (length rest'))) with (8 + 8 * Z.of_nat (length rest')) in ED by lia.
        rewrite Z.pow_add_r in ED by lia. change (2 ^ 8) with 256 in ED.
        repeat split; try lia; try (rewrite ED; ring);
          try (replace (8 * Z.of_nat (length rest') + 8 - 0) with (j - 1) by lia; exact HD2). }
      destruct (IH (v * 2 + b) (R * 2) 0 rest' (pos + 1) (R * 2) D (j - 1) (s + 1) (R * 2 * 2 ^ t) (s + 1 + t)
                  Hrel2 ltac:(lia) Hn2 ltac:(lia)) as (v' & c' & r' & E1 & E2).
      exists v', c', r'. split.
      * rewrite E1. f_equal. lia.
      * replace (j - (s + 1 + t - s)) with (j - 1 - (s + 1 + t - (s + 1))) by lia. exact E2.
    + apply Z.eqb_neq in Ec.
      assert (Hrel2 : drel (v * 2) (R * 2) (c + 1) rest (R * 2) D (j - 1)).
      { split; [reflexivity|]. split; [lia|]. split; [exact Hb|].
        exists a. repeat split; try lia; try (rewrite Ev; rewrite Z.pow_add_r by lia; ring);
          try (replace (8 * Z.of_nat (length rest) + 8 - (c + 1)) with (j - 1) by lia; exact HD2). }
      destruct (IH (v * 2) (R * 2) (c + 1) rest (pos + 1) (R * 2) D (j - 1) (s + 1) (R * 2 * 2 ^ t) (s + 1 + t)
                  Hrel2 ltac:(lia) Hn2 ltac:(lia)) as (v' & c' & r' & E1 & E2).
      exists v', c', r'. split.
      * rewrite E1. f_equal. lia.
      * replace (j - (s + 1 + t - s)) with (j - 1 - (s + 1 + t - (s + 1))) by lia. exact E2.
Qed.

(** one decoded bool *)
Lemma read_bool_refines d R D j p :
  drel (bd_value d) (bd_range d) (bd_count d) (bd_rest d) R D j -> 0 <= D ->
  128 <= R <= 255 -> 0 <= p <= 255 ->
  let '(b, (R2, D2, j2)) := aget p (R, D, j) in
  8 <= j2 ->
  exists d', read_bool p d = (b, d') /\
    drel (bd_value d') (bd_range d') (bd_count d') (bd_rest d') R2 D2 j2 /\ 0 <= D2 /\
    128 <= R2 <= 255 /\ j - 7 <= j2.
Proof.
  intros Hrel HD0 HR Hp.
  pose proof (nsplit_bounds R p HR Hp) as Hs.
  unfold aget. set (s := nsplit R p) in *.
  assert (Er : bd_range d = R) by (destruct Hrel as (E & _); exact E).
  pose proof (drel_decision _ _ _ _ _ _ _ s Hrel ltac:(lia)) as Hdec.
  set (b := s * 2 ^ j <=? D) in *.
  set (R1 := if b then R - s else s).
  assert (HR1 : 1 <= R1 <= 255) by (unfold R1; destruct b; lia).
  destruct (norm_loop 8 R1 0) as [R2 sh] eqn:En.
  pose proof (norm_range R1 HR1) as [Hr2 Hsh]. rewrite En in Hr2, Hsh. cbn [fst snd] in Hr2, Hsh.
  destruct (norm_loop_spec 8 R1 0) as (t & Ht & En2). rewrite En in En2. injection En2 as _ Esh.
  intros Hj2.
  unfold read_bool. rewrite Er. unfold nsplit in s. fold s. rewrite Hdec.
  assert (Hrel1 : drel (if b then bd_value d - s * 256 else bd_value d) R1 (bd_count d) (bd_rest d)
                       R1 (if b then D - s * 2 ^ j else D) j /\ 0 <= (if b then D - s * 2 ^ j else D)).
  { rewrite Er in Hrel. unfold R1. destruct b eqn:Eb.
    - apply Z.leb_le in Hdec. unfold b in Eb. apply Z.leb_le in Eb. split; [|lia].
      apply drel_sub; try assumption; lia.
    - unfold b in Eb. apply Z.leb_gt in Eb. split; [|lia].
      eapply drel_range; [exact Hrel|exact Eb]. }
  destruct Hrel1 as [Hrel1 HD1].
  destruct (normalize_refines 8 _ R1 (bd_count d) (bd_rest d) (bd_pos d) R1 _ j 0 R2 sh Hrel1 ltac:(lia) En
              ltac:(lia)) as (v' & c' & rest' & E1 & E2).
  replace (sh - 0) with sh in * by lia.
  eexists. split.
  - destruct b; subst R1; cbv beta iota zeta in E1 |- *; rewrite E1; reflexivity.
  - cbn [bd_value bd_range bd_count bd_rest]. split; [exact E2|]. split; [exact HD1|]. split; lia.
Qed.

(** decoding a list of bools with the RFC decoder *)
Fixpoint rfc_bits (probs : list Z) (d : bdec) : list bool :=
  match probs with
  | [] => []
  | p :: tl => let '(b, d') := read_bool p d in b :: rfc_bits tl d'
  end.

Theorem rfc_refines_abs : forall probs d R D j,
  drel (bd_value d) (bd_range d) (bd_count d) (bd_rest d) R D j -> 0 <= D ->
  128 <= R <= 255 -> Forall (fun p => 0 <= p <= 255) probs ->
  8 + 7 * Z.of_nat (length probs) <= j ->
  rfc_bits probs d = adec probs (R, D, j).
Proof.
  induction probs as [|p tl IH]; intros d R D j Hrel HD HR Hps Hj; [reflexivity|].
  pose proof (Forall_inv Hps) as Hp. pose proof (Forall_inv_tail Hps) as Htl.
  pose proof (read_bool_refines d R D j p Hrel HD HR Hp) as Hstep.
  cbn [rfc_bits adec]. cbn [length] in Hj.
  destruct (aget p (R, D, j)) as [b [[R2 D2] j2]] eqn:Ea.
  assert (Hj2 : j - 7 <= j2).
  { unfold aget in Ea. set (R1 := if nsplit R p * 2 ^ j <=? D then R - nsplit R p else nsplit R p) in *.
    pose proof (nsplit_bounds R p HR Hp) as Hs.
    assert (HR1 : 1 <= R1 <= 255) by (unfold R1; destruct (nsplit R p * 2 ^ j <=? D); lia).
    pose proof (proj2 (norm_range R1 HR1)) as Hsh.
    destruct (norm_loop 8 R1 0) as [r2 sh]. cbn [snd] in Hsh. injection Ea as _ _ _ <-. lia. }
  destruct (Hstep ltac:(lia)) as (d' & E1 & Hrel2 & HD2 & HR2 & _).
  rewrite E1. f_equal. apply IH; try assumption. lia.
Qed.

(** initial state of the RFC decoder on at least two bytes *)
Lemma bd_init_rel a b rest : is_byte a -> is_byte b -> Forall is_byte rest ->
  bval (a :: b :: rest) < 255 * 2 ^ (8 * Z.of_nat (length rest) + 8) ->
  let d := bd_init (a :: b :: rest) in
  drel (bd_value d) (bd_range d) (bd_count d) (bd_rest d) 255 (bval (a :: b :: rest))
       (8 * Z.of_nat (length rest) + 8) /\ 0 <= bval (a :: b :: rest).
Proof.
  intros Ha Hb Hr Hlt. cbn [bd_init bd_value bd_range bd_count bd_rest].
  pose proof (bval_bound rest Hr) as HF. unfold is_byte in *.
  split.
  - split; [reflexivity|]. split; [lia|]. split; [exact Hr|].
    exists (a * 256 + b). change (2 ^ 0) with 1.
    cbn [bval length] in *.
    replace (8 * Z.of_nat (S (length rest))) with (8 + 8 * Z.of_nat (length rest)) in * by lia.
    rewrite Z.pow_add_r in * by lia. change (2 ^ 8) with 256 in *.
    repeat split; try lia; try ring;
      try (replace (8 * Z.of_nat (length rest) + 8 - 0) with (8 * Z.of_nat (length rest) + 8) by lia;
           rewrite Z.pow_add_r by lia; change (2 ^ 8) with 256; lia).
  - cbn [bval length].
    assert (0 < 2 ^ (8 * Z.of_nat (S (length rest)))) by (apply Z.pow_pos_nonneg; lia).
    assert (0 < 2 ^ (8 * Z.of_nat (length rest))) by (apply Z.pow_pos_nonneg; lia). nia.
Qed.
