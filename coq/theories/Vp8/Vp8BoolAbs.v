(** Arithmetic-coding core of the VP8 boolean coder with exact (unbounded) integers.

    Encoder state (R, L, k): the pending interval is [L, L+R) in units of 2^-k of
    the first byte's unit.  Decoder state (R, D, j): D / 2^j is the distance of the
    stream value from the low end of the interval.  [abs_roundtrip]: every stream
    value inside the encoder's final interval decodes to the encoded bits.
    [rfc_refines_abs]: the RFC 6386 decoder of Vp8Bool (16-bit value, byte-wise
    refill) computes exactly the abstract decoder's decisions. *)
From Coq Require Import List ZArith Lia Bool.
From Webp Require Import Vp8.Vp8Bool.
Import ListNotations.
Open Scope Z_scope.

(** * normalisation loop *)
Lemma norm_loop_spec fuel r s :
  exists t, 0 <= t /\ norm_loop fuel r s = (r * 2 ^ t, s + t).
Proof.
  revert r s. induction fuel as [|f IH]; intros r s; cbn [norm_loop].
  - exists 0. split; [lia|]. f_equal; lia.
  - destruct (r <? 128) eqn:E.
    + destruct (IH (r * 2) (s + 1)) as (t & Ht & ->). exists (t + 1). split; [lia|].
      rewrite Z.pow_add_r by lia. f_equal; lia.
    + exists 0. split; [lia|]. f_equal; lia.
Qed.

Definition nsplit (R p : Z) : Z := bd_split R p.

Lemma nsplit_bounds R p : 128 <= R <= 255 -> 0 <= p <= 255 -> 1 <= nsplit R p <= R - 1.
Proof.
  intros HR Hp. unfold nsplit, bd_split.
  assert (0 <= (R - 1) * p / 256 <= R - 2).
  { split; [apply Z.div_pos; nia|].
    assert ((R - 1) * p / 256 < R - 1) by (apply Z.div_lt_upper_bound; nia). lia. }
  lia.
Qed.

(** normalising any range 1..255 gives a range in 128..255 *)
Lemma norm_range_sweep :
  forallb (fun r => let '(r2, _) := norm_loop 8 r 0 in (128 <=? r2) && (r2 <=? 255)) (zrange 1 255) = true.
Proof. vm_compute. reflexivity. Qed.

Lemma norm_range r : 1 <= r <= 255 -> 128 <= fst (norm_loop 8 r 0) <= 255.
Proof.
  intros H.
  pose proof (proj1 (forallb_forall _ _) norm_range_sweep r (in_zrange 1 255 r ltac:(lia) ltac:(lia))) as Hx.
  cbv beta in Hx. destruct (norm_loop 8 r 0) as [r2 sh]. cbn [fst].
  apply andb_true_iff in Hx. destruct Hx as [H1 H2]. apply Z.leb_le in H1, H2. lia.
Qed.

(** * abstract encoder *)
Definition aput (b : bool) (p : Z) (st : Z * Z * Z) : Z * Z * Z :=
  let '(R, L, k) := st in
  let s := nsplit R p in
  let R1 := if b then R - s else s in
  let L1 := if b then L + s else L in
  let '(R2, sh) := norm_loop 8 R1 0 in
  (R2, L1 * 2 ^ sh, k + sh).

Fixpoint aenc (ps : list (bool * Z)) (st : Z * Z * Z) : Z * Z * Z :=
  match ps with
  | [] => st
  | (b, p) :: tl => aenc tl (aput b p st)
  end.

(** * abstract decoder *)
Definition aget (p : Z) (st : Z * Z * Z) : bool * (Z * Z * Z) :=
  let '(R, D, j) := st in
  let s := nsplit R p in
  let b := s * 2 ^ j <=? D in
  let R1 := if b then R - s else s in
  let D1 := if b then D - s * 2 ^ j else D in
  let '(R2, sh) := norm_loop 8 R1 0 in
  (b, (R2, D1, j - sh)).

Fixpoint adec (probs : list Z) (st : Z * Z * Z) : list bool :=
  match probs with
  | [] => []
  | p :: tl => let '(b, st1) := aget p st in b :: adec tl st1
  end.

Definition probs_ok (ps : list (bool * Z)) : Prop := Forall (fun bp => 0 <= snd bp <= 255) ps.

(** one encoder step, unfolded *)
Lemma aput_spec b p R L k : 128 <= R <= 255 -> 0 <= p <= 255 ->
  exists t, 0 <= t /\
    let s := nsplit R p in
    let R1 := if b then R - s else s in
    let L1 := if b then L + s else L in
    aput b p (R, L, k) = (R1 * 2 ^ t, L1 * 2 ^ t, k + t) /\
    norm_loop 8 R1 0 = (R1 * 2 ^ t, t) /\ 1 <= R1 <= 255 /\ 128 <= R1 * 2 ^ t <= 255.
Proof.
  intros HR Hp. pose proof (nsplit_bounds R p HR Hp) as Hs. cbv zeta.
  set (R1 := if b then R - nsplit R p else nsplit R p).
  assert (HR1 : 1 <= R1 <= 255) by (unfold R1; destruct b; lia).
  destruct (norm_loop_spec 8 R1 0) as (t & Ht & Hn).
  exists t. split; [exact Ht|].
  pose proof (norm_range R1 HR1) as Hr. rewrite Hn in Hr. cbn [fst] in Hr.
  unfold aput. fold R1. rewrite Hn. replace (0 + t) with t by lia.
  repeat split; try lia.
Qed.

(** Any X inside the final interval (at scale J) is inside every earlier interval and
    is decoded, from the matching decoder state, to the encoded bits. *)
Theorem abs_roundtrip : forall ps R L k, probs_ok ps -> 128 <= R <= 255 ->
  let '(Rf, Lf, kf) := aenc ps (R, L, k) in
  k <= kf /\ 128 <= Rf <= 255 /\
  forall J X, kf <= J -> Lf * 2 ^ (J - kf) <= X < (Lf + Rf) * 2 ^ (J - kf) ->
  L * 2 ^ (J - k) <= X < (L + R) * 2 ^ (J - k) /\
  adec (map snd ps) (R, X - L * 2 ^ (J - k), J - k) = map fst ps.
Proof.
  induction ps as [|[b p] tl IH]; intros R L k Hps HR; cbn [aenc].
  - split; [lia|]. split; [exact HR|]. intros J X HJ HX. split; [exact HX|reflexivity].
  - inversion Hps as [|? ? Hp Htl]; subst. cbn [snd] in Hp.
    pose proof (nsplit_bounds R p HR Hp) as Hs.
    destruct (aput_spec b p R L k HR Hp) as (t & Ht & Hput & Hn & HR1 & HR2). cbv zeta in *.
    rewrite Hput.
    set (s := nsplit R p) in *.
    set (R1 := if b then R - s else s) in *.
    set (L1 := if b then L + s else L) in *.
    specialize (IH (R1 * 2 ^ t) (L1 * 2 ^ t) (k + t) Htl HR2).
    destruct (aenc tl (R1 * 2 ^ t, L1 * 2 ^ t, k + t)) as [[Rf Lf] kf].
    destruct IH as (Hk & HRf & IH).
    split; [lia|]. split; [exact HRf|].
    intros J X HJ HX. specialize (IH J X HJ HX). destruct IH as [Hin Hdec].
    (* scale bookkeeping: 2^(J-k) = 2^t * 2^(J-(k+t)) *)
    assert (Epow : 2 ^ (J - k) = 2 ^ t * 2 ^ (J - (k + t))).
    { rewrite <- Z.pow_add_r by lia. f_equal. lia. }
    set (q := 2 ^ (J - (k + t))) in *.
    assert (Hq : 0 < q) by (unfold q; apply Z.pow_pos_nonneg; lia).
    assert (Hin1 : L1 * 2 ^ (J - k) <= X < (L1 + R1) * 2 ^ (J - k)).
    { rewrite Epow. replace (L1 * (2 ^ t * q)) with (L1 * 2 ^ t * q) by ring.
      replace ((L1 + R1) * (2 ^ t * q)) with ((L1 * 2 ^ t + R1 * 2 ^ t) * q) by ring. exact Hin. }
    set (w := 2 ^ (J - k)) in *.
    assert (Hw : 0 < w) by (unfold w; apply Z.pow_pos_nonneg; lia).
    split.
    + unfold L1, R1 in Hin1. destruct b; nia.
    + cbn [map fst snd adec]. unfold aget. fold s. fold w.
      assert (Eb : (s * w <=? X - L * w) = b).
      { unfold L1, R1 in Hin1. destruct b.
        - apply Z.leb_le. nia.
        - apply Z.leb_gt. nia. }
      rewrite Eb. fold R1. rewrite Hn.
      f_equal.
      replace (if b then X - L * w - s * w else X - L * w) with (X - L1 * w)
        by (unfold L1; destruct b; ring).
      replace (X - L1 * w) with (X - L1 * 2 ^ t * q) by (unfold w; rewrite Epow; ring).
      replace (J - k - t) with (J - (k + t)) by lia.
      exact Hdec.
Qed.
