(** The output cache of the lossy decoder as a flat buffer: reconstructRow's transfer loops
    ("yOut := dec.cacheY[mbX*16+mbY*16*yStride:]; for j { copy(yOut[j*yStride:...], ...) }", the same
    with 8 for U and V) write every macroblock's samples at flat index  y*stride + x ; after the
    loops over all macroblocks the flat buffer is the plane the macroblock-grid model assembles
    (Vp8Filter.plane_rows), row after row.  Loops and ownership lemmas in the style of
    Anim/AnimDecLoops.v (there over canvases of pixels, here over byte buffers). *)
From Coq Require Import List ZArith Lia Bool.
From WebpGen Require Consts.
From Webp Require Import Vp8.Vp8Recon Vp8.Vp8Filter.
Import ListNotations.
Open Scope Z_scope.

Definition fget (c : list Z) (i : Z) : Z := nth (Z.to_nat i) c 0.

(** Go's copy(dst[off:off+len(src)], src) *)
Fixpoint copy_nat (c : list Z) (off : nat) (src : list Z) : list Z :=
  match c with
  | [] => []
  | h :: t =>
    match off with
    | S o => h :: copy_nat t o src
    | O => match src with [] => c | s :: st => s :: copy_nat t O st end
    end
  end.
Definition copy_at (c : list Z) (off : Z) (src : list Z) : list Z := copy_nat c (Z.to_nat off) src.

Lemma copy_nat_length : forall c off src, length (copy_nat c off src) = length c.
Proof.
  induction c as [|h t IH]; intros off src; cbn [copy_nat]; [reflexivity|].
  destruct off; [destruct src|]; cbn [length]; try reflexivity; f_equal; apply IH.
Qed.

Lemma copy_nat0_nth : forall c src i, (length src <= length c)%nat ->
  nth i (copy_nat c 0 src) 0 = if (i <? length src)%nat then nth i src 0 else nth i c 0.
Proof.
  induction c as [|h t IH]; intros src i H.
  - destruct src; [|cbn in H; lia]. cbn. destruct i; reflexivity.
  - destruct src as [|s st]; [cbn; reflexivity|]. cbn [copy_nat]. destruct i; [reflexivity|].
    cbn [nth length]. rewrite IH by (cbn in H; lia). reflexivity.
Qed.

Lemma copy_nat_nth : forall c off src i, (off + length src <= length c)%nat ->
  nth i (copy_nat c off src) 0 =
  if ((off <=? i) && (i <? off + length src))%nat then nth (i - off) src 0 else nth i c 0.
Proof.
  induction c as [|h t IH]; intros off src i H.
  - destruct src; [|cbn in H; lia]. assert (off = 0%nat) by (cbn in H; lia). subst off.
    cbn. destruct i; reflexivity.
  - destruct off as [|o].
    + rewrite copy_nat0_nth by (cbn in *; lia). cbn [Nat.leb andb Nat.add]. rewrite Nat.sub_0_r. reflexivity.
    + cbn [copy_nat]. destruct i; [reflexivity|]. cbn [nth]. rewrite IH by (cbn in H; lia). reflexivity.
Qed.

Lemma copy_at_length c off src : length (copy_at c off src) = length c.
Proof. apply copy_nat_length. Qed.

Lemma copy_at_get c off src i : 0 <= off -> off + Z.of_nat (length src) <= Z.of_nat (length c) -> 0 <= i ->
  fget (copy_at c off src) i =
  if (off <=? i) && (i <? off + Z.of_nat (length src)) then fget src (i - off) else fget c i.
Proof.
  intros H0 H1 Hi. unfold fget, copy_at. rewrite copy_nat_nth by lia.
  destruct (Z.leb_spec off i) as [A|A]; destruct (Nat.leb_spec (Z.to_nat off) (Z.to_nat i)) as [B|B]; try lia;
    cbn [andb]; try reflexivity.
  destruct (Z.ltb_spec i (off + Z.of_nat (length src))) as [C|C];
    destruct (Nat.ltb_spec (Z.to_nat i) (Z.to_nat off + length src)) as [D|D]; try lia; try reflexivity.
  f_equal. lia.
Qed.

(** * counted loops *)
Fixpoint loopn (n : nat) (v : Z) (body : Z -> list Z -> list Z) (c : list Z) : list Z :=
  match n with
  | O => c
  | S m => loopn m (v + 1) body (body v c)
  end.
Definition for_range (lo hi : Z) (body : Z -> list Z -> list Z) (c : list Z) : list Z :=
  loopn (Z.to_nat (hi - lo)) lo body c.

(** cell (x, y) of a buffer of rows of S samples *)
Definition cget (S : Z) (c : list Z) (x y : Z) : Z := fget c (y * S + x).

Section LoopSpec.
  Variables (S Ht : Z) (lo0 hi0 : Z).
  (* [owns v x y]: cell (x,y) is written (only) by iteration v, with value [val v c x y] computed from
     the buffer c the iteration starts from, through cells no other iteration of the loop writes *)
  Variables (owns : Z -> Z -> Z -> bool) (val : Z -> list Z -> Z -> Z -> Z) (body : Z -> list Z -> list Z).
  Hypothesis owns_unique : forall v v' x y, lo0 <= v < hi0 -> lo0 <= v' < hi0 ->
    owns v x y = true -> owns v' x y = true -> v = v'.
  Hypothesis body_len : forall v c, length (body v c) = length c.
  Hypothesis body_spec : forall v c x y, lo0 <= v < hi0 ->
    length c = Z.to_nat (S * Ht) -> 0 <= x < S -> 0 <= y < Ht ->
    cget S (body v c) x y = if owns v x y then val v c x y else cget S c x y.
  Hypothesis val_frame : forall v c c' x y, lo0 <= v < hi0 -> 0 <= x < S -> 0 <= y < Ht -> owns v x y = true ->
    (forall x' y', 0 <= x' < S -> 0 <= y' < Ht -> (forall u, lo0 <= u < hi0 -> u <> v -> owns u x' y' = false) ->
                   cget S c x' y' = cget S c' x' y') ->
    val v c x y = val v c' x y.

  Lemma loop_spec n : forall lo c x y, lo0 <= lo -> lo + Z.of_nat n <= hi0 ->
    length c = Z.to_nat (S * Ht) -> 0 <= x < S -> 0 <= y < Ht ->
    length (loopn n lo body c) = length c /\
    (forall v, lo <= v < lo + Z.of_nat n -> owns v x y = true -> cget S (loopn n lo body c) x y = val v c x y) /\
    ((forall v, lo <= v < lo + Z.of_nat n -> owns v x y = false) -> cget S (loopn n lo body c) x y = cget S c x y).
  Proof.
    induction n as [|n IH]; intros lo c x y Hlo Hhi Hlen Hx Hy.
    - cbn [loopn]. split; [reflexivity|]. split; [intros v Hv; lia|reflexivity].
    - cbn [loopn].
      destruct (IH (lo + 1) (body lo c) x y ltac:(lia) ltac:(lia) ltac:(rewrite body_len; exact Hlen) Hx Hy)
        as (L & A & B).
      split; [rewrite L; apply body_len|]. split.
      + intros v Hv Ho. destruct (Z.eq_dec v lo) as [->|Hne].
        * rewrite B.
          { rewrite body_spec by (try assumption; lia). rewrite Ho. reflexivity. }
          intros v' Hv'. destruct (owns v' x y) eqn:E; [|reflexivity].
          assert (lo = v') by (apply (owns_unique lo v' x y); try assumption; lia). lia.
        * rewrite (A v) by (try assumption; lia).
          apply val_frame; try assumption; [lia|].
          intros x' y' Hx' Hy' Hnone. rewrite body_spec by (try assumption; lia).
          rewrite Hnone by lia. reflexivity.
      + intros Hnone. rewrite B by (intros v Hv; apply Hnone; lia).
        rewrite body_spec by (try assumption; lia). rewrite Hnone by lia. reflexivity.
  Qed.
End LoopSpec.

Lemma loopn_length body : (forall v c, length (body v c) = length c) ->
  forall n lo c, length (loopn n lo body c) = length c.
Proof. intros Hb. induction n as [|n IH]; intros lo c; cbn [loopn]; [reflexivity|]. rewrite IH. apply Hb. Qed.

Ltac zb := repeat match goal with
  | |- context [?a <=? ?b] => destruct (Z.leb_spec a b)
  | |- context [?a <? ?b] => destruct (Z.ltb_spec a b)
  | |- context [?a =? ?b] => destruct (Z.eqb_spec a b)
  end; cbn [andb].

(** * one block: n rows of n samples, cell origin (x0, y0), i.e. flat offset y0*S + x0 *)
Definition store_block (S n base : Z) (blk : list (list Z)) (c : list Z) : list Z :=
  for_range 0 n (fun j c => copy_at c (base + j * S) (nth (Z.to_nat j) blk [])) c.

Definition blk_ok (n : Z) (blk : list (list Z)) : Prop :=
  Z.of_nat (length blk) = n /\ Forall (fun r => Z.of_nat (length r) = n) blk.

Lemma store_block_length S n base blk c : length (store_block S n base blk c) = length c.
Proof. unfold store_block, for_range. apply loopn_length. intros v c'. apply copy_at_length. Qed.

Lemma store_block_spec S Ht n x0 y0 blk c x y :
  0 < n -> 0 <= x0 -> x0 + n <= S -> 0 <= y0 -> y0 + n <= Ht -> blk_ok n blk ->
  length c = Z.to_nat (S * Ht) -> 0 <= x < S -> 0 <= y < Ht ->
  cget S (store_block S n (y0 * S + x0) blk c) x y =
    if (y0 <=? y) && (y <? y0 + n) && (x0 <=? x) && (x <? x0 + n)
    then fget (nth (Z.to_nat (y - y0)) blk []) (x - x0) else cget S c x y.
Proof.
  intros Hn Hx0 Hx0n Hy0 Hy0n [Hb1 Hb2] Hlen Hx Hy.
  set (owns := fun j x y : Z => (y =? y0 + j) && (x0 <=? x) && (x <? x0 + n)).
  set (val := fun j (_ : list Z) x (y : Z) => fget (nth (Z.to_nat j) blk []) (x - x0)).
  set (body := fun j c => copy_at c (y0 * S + x0 + j * S) (nth (Z.to_nat j) blk [])).
  assert (Hu : forall v v' x y, 0 <= v < n -> 0 <= v' < n -> owns v x y = true -> owns v' x y = true -> v = v').
  { unfold owns. intros v v' x1 y1 _ _ H1 H2. rewrite !andb_true_iff, Z.eqb_eq in H1, H2. lia. }
  assert (Hl : forall v c, length (body v c) = length c) by (intros; apply copy_at_length).
  assert (Hs : forall v c x y, 0 <= v < n -> length c = Z.to_nat (S * Ht) -> 0 <= x < S -> 0 <= y < Ht ->
               cget S (body v c) x y = if owns v x y then val v c x y else cget S c x y).
  { intros j c1 x1 y1 Hj Hl1 Hx1 Hy1. unfold cget, body, owns, val.
    set (row := nth (Z.to_nat j) blk []).
    assert (Hrow : Z.of_nat (length row) = n).
    { unfold row. rewrite Forall_forall in Hb2. apply Hb2. apply nth_In. lia. }
    assert (HS : 0 < S) by lia.
    assert (P1 : 0 <= (y0 + j) * S) by nia.
    assert (P2 : (y0 + j + 1) * S <= Ht * S) by nia.
    assert (P3 : 0 <= y1 * S) by nia.
    assert (Hlc : Z.of_nat (length c1) = S * Ht) by (rewrite Hl1; apply Z2Nat.id; nia).
    replace (y0 * S + x0 + j * S) with ((y0 + j) * S + x0) by ring.
    rewrite copy_at_get by (rewrite ?Hrow; lia). rewrite Hrow.
    destruct (Z.eqb_spec y1 (y0 + j)) as [->|Hne].
    - zb; try lia; try reflexivity. f_equal. lia.
    - cbn [andb].
      destruct (Z_lt_le_dec y1 (y0 + j)) as [Hlt|Hge].
      + assert ((y1 + 1) * S <= (y0 + j) * S) by nia. zb; try lia; reflexivity.
      + assert ((y0 + j + 1) * S <= y1 * S) by nia. zb; try lia; reflexivity. }
  unfold store_block, for_range. replace (n - 0) with n by lia.
  destruct (loop_spec S Ht 0 n owns val body Hu Hl Hs ltac:(intros; reflexivity) (Z.to_nat n) 0 c x y ltac:(lia) ltac:(lia) Hlen Hx Hy)
    as (_ & A & B).
  fold body.
  destruct ((y0 <=? y) && (y <? y0 + n) && (x0 <=? x) && (x <? x0 + n)) eqn:E.
  - rewrite !andb_true_iff in E. destruct E as [[[E1 E2] E3] E4].
    apply Z.leb_le in E1, E3. apply Z.ltb_lt in E2, E4.
    rewrite (A (y - y0)); [reflexivity|lia|]. unfold owns.
    replace (y0 + (y - y0)) with y by lia. rewrite Z.eqb_refl. cbn [andb].
    apply andb_true_iff. split; [apply Z.leb_le|apply Z.ltb_lt]; lia.
  - apply B. intros v Hv. unfold owns.
    destruct (Z.eqb_spec y (y0 + v)) as [->|Hne]; [|reflexivity]. cbn [andb].
    destruct ((x0 <=? x) && (x <? x0 + n)) eqn:E2; [|reflexivity].
    assert (Ea : (y0 <=? y0 + v) = true) by (apply Z.leb_le; lia).
    assert (Eb : (y0 + v <? y0 + n) = true) by (apply Z.ltb_lt; lia).
    rewrite <- andb_assoc, E2, Ea, Eb in E. discriminate E.
Qed.

(** * one macroblock row, then all rows: reconstructRow's
    "yOut := dec.cacheY[mbX*16 + mbY*16*yStride:]" with yStride = 16*mbW (8 for U, V) *)
Definition dpix : mbpix := mkPix [] [] [].

Definition store_mbrow (n W mby : Z) (sel : mbpix -> list (list Z)) (row : list mbpix) (c : list Z) : list Z :=
  for_range 0 W (fun mbx c =>
    store_block (n * W) n (mbx * n + mby * n * (n * W)) (sel (nth (Z.to_nat mbx) row dpix)) c) c.

Definition store_frame (n W H : Z) (sel : mbpix -> list (list Z)) (rows : list (list mbpix)) (c : list Z) : list Z :=
  for_range 0 H (fun mby c => store_mbrow n W mby sel (nth (Z.to_nat mby) rows []) c) c.

Definition row_ok (n W : Z) (sel : mbpix -> list (list Z)) (row : list mbpix) : Prop :=
  Z.of_nat (length row) = W /\ Forall (fun p => blk_ok n (sel p)) row.

Lemma store_mbrow_length n W mby sel row c : length (store_mbrow n W mby sel row c) = length c.
Proof. unfold store_mbrow, for_range. apply loopn_length. intros v c'. apply store_block_length. Qed.

Lemma store_mbrow_spec n W H mby sel row c x y :
  0 < n -> 0 < W -> 0 <= mby < H -> row_ok n W sel row ->
  length c = Z.to_nat (n * W * (n * H)) -> 0 <= x < n * W -> 0 <= y < n * H ->
  cget (n * W) (store_mbrow n W mby sel row c) x y =
    if (mby * n <=? y) && (y <? mby * n + n)
    then fget (nth (Z.to_nat (y - mby * n)) (sel (nth (Z.to_nat (x / n)) row dpix)) []) (x mod n)
    else cget (n * W) c x y.
Proof.
  intros Hn HW Hmby [Hr1 Hr2] Hlen Hx Hy.
  set (S := n * W) in *. set (Ht := n * H) in *.
  set (owns := fun mbx x y : Z => (mby * n <=? y) && (y <? mby * n + n) && (mbx * n <=? x) && (x <? mbx * n + n)).
  set (val := fun (mbx : Z) (_ : list Z) (x y : Z) => fget (nth (Z.to_nat (y - mby * n)) (sel (nth (Z.to_nat mbx) row dpix)) []) (x - mbx * n)).
  set (body := fun mbx c => store_block S n (mbx * n + mby * n * S) (sel (nth (Z.to_nat mbx) row dpix)) c).
  assert (Hu : forall v v' x y, 0 <= v < W -> 0 <= v' < W -> owns v x y = true -> owns v' x y = true -> v = v').
  { unfold owns. intros v v' x1 y1 _ _ H1 H2. rewrite !andb_true_iff, !Z.leb_le, !Z.ltb_lt in H1, H2. nia. }
  assert (Hl : forall v c, length (body v c) = length c) by (intros; apply store_block_length).
  assert (Hs : forall v c x y, 0 <= v < W -> length c = Z.to_nat (S * Ht) -> 0 <= x < S -> 0 <= y < Ht ->
               cget S (body v c) x y = if owns v x y then val v c x y else cget S c x y).
  { intros mbx c1 x1 y1 Hv Hl1 Hx1 Hy1. unfold body, owns, val.
    replace (mbx * n + mby * n * S) with (mby * n * S + mbx * n) by ring.
    apply (store_block_spec S Ht n (mbx * n) (mby * n)); try assumption; unfold S, Ht; try nia.
    rewrite Forall_forall in Hr2. apply Hr2. apply nth_In. lia. }
  unfold store_mbrow, for_range. replace (W - 0) with W by lia.
  destruct (loop_spec S Ht 0 W owns val body Hu Hl Hs ltac:(intros; reflexivity) (Z.to_nat W) 0 c x y ltac:(lia) ltac:(lia) Hlen Hx Hy)
    as (_ & A & B).
  fold S. fold body.
  pose proof (Z.div_mod x n ltac:(lia)) as Hdm. pose proof (Z.mod_pos_bound x n Hn) as Hmb.
  destruct ((mby * n <=? y) && (y <? mby * n + n)) eqn:E.
  - assert (Hq : 0 <= x / n < W).
    { split; [apply Z.div_pos; lia|]. apply Z.div_lt_upper_bound; [lia|]. unfold S in Hx. lia. }
    rewrite (A (x / n)); [unfold val; f_equal; lia|lia|].
    unfold owns. rewrite E. cbn [andb]. apply andb_true_iff. split; [apply Z.leb_le|apply Z.ltb_lt]; lia.
  - apply B. intros v Hv. unfold owns. rewrite E. reflexivity.
Qed.

Definition grid_ok (n W H : Z) (sel : mbpix -> list (list Z)) (rows : list (list mbpix)) : Prop :=
  Z.of_nat (length rows) = H /\ Forall (row_ok n W sel) rows.

(** every cell of the flat buffer holds the sample of its macroblock in the grid *)
Theorem store_frame_cell n W H sel rows c x y :
  0 < n -> 0 < W -> 0 < H -> grid_ok n W H sel rows ->
  length c = Z.to_nat (n * W * (n * H)) -> 0 <= x < n * W -> 0 <= y < n * H ->
  length (store_frame n W H sel rows c) = length c /\
  cget (n * W) (store_frame n W H sel rows c) x y =
    fget (nth (Z.to_nat (y mod n)) (sel (nth (Z.to_nat (x / n)) (nth (Z.to_nat (y / n)) rows []) dpix)) []) (x mod n).
Proof.
  intros Hn HW HH [Hg1 Hg2] Hlen Hx Hy.
  set (owns := fun mby (x y : Z) => (mby * n <=? y) && (y <? mby * n + n)).
  set (val := fun (mby : Z) (_ : list Z) (x y : Z) =>
    fget (nth (Z.to_nat (y - mby * n)) (sel (nth (Z.to_nat (x / n)) (nth (Z.to_nat mby) rows []) dpix)) []) (x mod n)).
  set (body := fun mby c => store_mbrow n W mby sel (nth (Z.to_nat mby) rows []) c).
  assert (Hu : forall v v' x y, 0 <= v < H -> 0 <= v' < H -> owns v x y = true -> owns v' x y = true -> v = v').
  { unfold owns. intros v v' x1 y1 _ _ H1 H2. rewrite !andb_true_iff, !Z.leb_le, !Z.ltb_lt in H1, H2. nia. }
  assert (Hl : forall v c, length (body v c) = length c) by (intros; apply store_mbrow_length).
  assert (Hs : forall v c x y, 0 <= v < H -> length c = Z.to_nat (n * W * (n * H)) -> 0 <= x < n * W -> 0 <= y < n * H ->
               cget (n * W) (body v c) x y = if owns v x y then val v c x y else cget (n * W) c x y).
  { intros mby c1 x1 y1 Hv Hl1 Hx1 Hy1. unfold body, owns, val.
    apply (store_mbrow_spec n W H); try assumption.
    rewrite Forall_forall in Hg2. apply Hg2. apply nth_In. lia. }
  unfold store_frame, for_range. replace (H - 0) with H by lia.
  destruct (loop_spec (n * W) (n * H) 0 H owns val body Hu Hl Hs ltac:(intros; reflexivity) (Z.to_nat H) 0 c x y ltac:(lia) ltac:(lia) Hlen Hx Hy)
    as (L & A & _).
  fold body. split; [exact L|].
  pose proof (Z.div_mod y n ltac:(lia)) as Hdm. pose proof (Z.mod_pos_bound y n Hn) as Hmb.
  assert (Hq : 0 <= y / n < H).
  { split; [apply Z.div_pos; lia|]. apply Z.div_lt_upper_bound; lia. }
  rewrite (A (y / n)); [unfold val; do 3 f_equal; lia|lia|].
  unfold owns. apply andb_true_iff. split; [apply Z.leb_le|apply Z.ltb_lt]; lia.
Qed.

(** * the grid model's plane, cell by cell *)
Lemma concat_length_uniform {A} (rows : list (list A)) w :
  Forall (fun r => length r = w) rows -> length (concat rows) = (length rows * w)%nat.
Proof.
  induction rows as [|r tl IH]; intros H; cbn [concat length]; [reflexivity|].
  rewrite app_length, (Forall_inv H), IH by exact (Forall_inv_tail H). lia.
Qed.

Lemma concat_nth_uniform {A} (d : A) : forall (rows : list (list A)) w y x,
  Forall (fun r => length r = w) rows -> (y < length rows)%nat -> (x < w)%nat ->
  nth (y * w + x) (concat rows) d = nth x (nth y rows []) d.
Proof.
  induction rows as [|r tl IH]; intros w y x H Hy Hx; [cbn in Hy; lia|].
  pose proof (Forall_inv H) as Hr. cbn beta in Hr. cbn [concat].
  destruct y as [|y].
  - cbn [Nat.mul Nat.add nth]. apply app_nth1. lia.
  - cbn [nth]. rewrite app_nth2 by lia. rewrite Hr.
    replace (S y * w + x - w)%nat with (y * w + x)%nat by lia.
    apply IH; [exact (Forall_inv_tail H)|cbn in Hy; lia|exact Hx].
Qed.

Definition blkN (n : nat) (b : list (list Z)) : Prop := length b = n /\ Forall (fun r => length r = n) b.

Lemma hcat_length a b : length (hcat a b) = Nat.min (length a) (length b).
Proof. unfold hcat. rewrite map_length, combine_length. reflexivity. Qed.

Lemma hcat_nth a b j : length a = length b -> (j < length a)%nat ->
  nth j (hcat a b) [] = nth j a [] ++ nth j b [].
Proof.
  intros Hl Hj. unfold hcat.
  change (@nil Z) with ((fun '(x, y) => x ++ y) (@nil Z, @nil Z)) at 1.
  rewrite map_nth, combine_nth by exact Hl. reflexivity.
Qed.

Lemma hcat_all_length n bs : Forall (blkN n) bs -> length (hcat_all n bs) = n.
Proof.
  induction bs as [|b tl IH]; intros H; cbn [hcat_all]; [apply repeat_length|].
  rewrite hcat_length, IH by exact (Forall_inv_tail H). destruct (Forall_inv H) as [Hb _]. lia.
Qed.

Lemma hcat_all_row n : forall bs j, Forall (blkN n) bs -> (j < n)%nat ->
  length (nth j (hcat_all n bs) []) = (length bs * n)%nat /\
  forall mbx ix, (mbx < length bs)%nat -> (ix < n)%nat ->
    nth (mbx * n + ix) (nth j (hcat_all n bs) []) 0 = nth ix (nth j (nth mbx bs []) []) 0.
Proof.
  induction bs as [|b tl IH]; intros j H Hj.
  - cbn [hcat_all length]. split; [|intros mbx ix Hm; cbn in Hm; lia].
    rewrite nth_repeat. reflexivity.
  - destruct (Forall_inv H) as [Hb1 Hb2]. pose proof (Forall_inv_tail H) as Ht.
    destruct (IH j Ht Hj) as [L N]. cbn [hcat_all].
    rewrite hcat_nth by (rewrite ?hcat_all_length by exact Ht; lia).
    assert (Hrow : length (nth j b []) = n).
    { rewrite Forall_forall in Hb2. apply Hb2. apply nth_In. lia. }
    split; [rewrite app_length, L, Hrow; cbn [length]; lia|].
    intros mbx ix Hm Hi. destruct mbx as [|mbx].
    + cbn [Nat.mul Nat.add nth]. apply app_nth1. lia.
    + cbn [nth]. rewrite app_nth2 by lia. rewrite Hrow.
      replace (S mbx * n + ix - n)%nat with (mbx * n + ix)%nat by lia.
      apply N; [cbn in Hm; lia|exact Hi].
Qed.

Lemma lt_mul_add a b n m : (a < m)%nat -> (b < n)%nat -> (a * n + b < m * n)%nat.
Proof. intros Ha Hb. assert ((a + 1) * n <= m * n)%nat by (apply Nat.mul_le_mono_r; lia). lia. Qed.

(** the flat buffer after the transfer loops of all macroblocks = the rows of the grid model's
    plane, one after the other (stride = plane width) *)
Theorem store_frame_eq n W H sel rows c :
  0 < n -> 0 < W -> 0 < H -> grid_ok n W H sel rows ->
  length c = Z.to_nat (n * W * (n * H)) ->
  store_frame n W H sel rows c = concat (plane_rows sel (Z.to_nat n) rows).
Proof.
  intros Hn HW HH Hg Hlen. pose proof Hg as [Hg1 Hg2].
  set (nn := Z.to_nat n). set (Wn := Z.to_nat W). set (Hh := Z.to_nat H).
  set (f := fun r : list mbpix => hcat_all nn (map sel r)).
  assert (Hblk : forall row, In row rows -> Forall (blkN nn) (map sel row) /\ length row = Wn).
  { intros row Hin. rewrite Forall_forall in Hg2. destruct (Hg2 row Hin) as [R1 R2]. split; [|unfold Wn; lia].
    apply Forall_forall. intros b Hb. apply in_map_iff in Hb as (p & <- & Hp).
    rewrite Forall_forall in R2. destruct (R2 p Hp) as [B1 B2]. split; [unfold nn; lia|].
    eapply Forall_impl; [|exact B2]. intros r Hr. cbv beta in Hr. unfold nn. lia. }
  assert (Hf : Forall (fun r => length r = nn) (map f rows)).
  { apply Forall_forall. intros r Hr. apply in_map_iff in Hr as (row & <- & Hin). unfold f.
    apply hcat_all_length. apply Hblk. exact Hin. }
  assert (Hplane : plane_rows sel nn rows = concat (map f rows)) by (unfold plane_rows; apply flat_map_concat_map).
  assert (Hprow : Forall (fun r => length r = (Wn * nn)%nat) (plane_rows sel nn rows)).
  { rewrite Hplane. apply Forall_forall. intros r Hr. apply in_concat in Hr as (l & Hl & Hr).
    apply in_map_iff in Hl as (row & <- & Hin). apply In_nth with (d := []) in Hr as (j & Hj & <-).
    destruct (Hblk row Hin) as [K1 K2]. unfold f in *. rewrite hcat_all_length in Hj by exact K1.
    rewrite (proj1 (hcat_all_row nn (map sel row) j K1 Hj)), map_length, K2. reflexivity. }
  assert (Hpl : length (plane_rows sel nn rows) = (Hh * nn)%nat).
  { rewrite Hplane, (concat_length_uniform _ nn Hf), map_length. unfold Hh. f_equal. lia. }
  assert (Hlen2 : length (concat (plane_rows sel nn rows)) = length c).
  { rewrite (concat_length_uniform _ _ Hprow), Hpl, Hlen. unfold Hh, nn, Wn. nia. }
  apply nth_ext with (d := 0) (d' := 0).
  { rewrite Hlen2. apply loopn_length. intros v c'. apply store_mbrow_length. }
  intros i Hi.
  assert (Hi2 : (i < length c)%nat).
  { unfold store_frame, for_range in Hi. rewrite loopn_length in Hi; [exact Hi|]. intros v c'. apply store_mbrow_length. }
  set (S := n * W). assert (HS : 0 < S) by (unfold S; nia).
  set (y := Z.of_nat i / S). set (x := Z.of_nat i mod S).
  pose proof (Z.div_mod (Z.of_nat i) S ltac:(lia)) as Hdm. fold y x in Hdm.
  pose proof (Z.mod_pos_bound (Z.of_nat i) S HS) as Hx. fold x in Hx.
  assert (Hy : 0 <= y < n * H).
  { split; [apply Z.div_pos; lia|]. apply Z.div_lt_upper_bound; [lia|]. rewrite Hlen in Hi2. unfold S. nia. }
  destruct (store_frame_cell n W H sel rows c x y Hn HW HH Hg Hlen Hx Hy) as [_ Hc].
  unfold cget, fget in Hc. fold S in Hc. replace (Z.to_nat (y * S + x)) with i in Hc by lia. rewrite Hc.
  (* the model side *)
  pose proof (Z.div_mod y n ltac:(lia)) as Hdy. pose proof (Z.mod_pos_bound y n Hn) as Hmy.
  pose proof (Z.div_mod x n ltac:(lia)) as Hdx. pose proof (Z.mod_pos_bound x n Hn) as Hmx.
  assert (Hqy : 0 <= y / n < H) by (split; [apply Z.div_pos; lia|apply Z.div_lt_upper_bound; lia]).
  assert (Hqx : 0 <= x / n < W) by (split; [apply Z.div_pos; lia|apply Z.div_lt_upper_bound; unfold S in Hx; lia]).
  set (mby := Z.to_nat (y / n)). set (iy := Z.to_nat (y mod n)).
  set (mbx := Z.to_nat (x / n)). set (ix := Z.to_nat (x mod n)).
  assert (Ei : i = ((mby * nn + iy) * (Wn * nn) + (mbx * nn + ix))%nat).
  { unfold mby, iy, mbx, ix, nn, Wn. apply Nat2Z.inj. rewrite Nat2Z.inj_add, !Nat2Z.inj_mul, !Nat2Z.inj_add, !Nat2Z.inj_mul.
    rewrite !Z2Nat.id by lia. unfold S in *. nia. }
  assert (Bmby : (mby < length rows)%nat) by (unfold mby; lia).
  assert (Biy : (iy < nn)%nat) by (unfold iy, nn; lia).
  assert (Bmbx : (mbx < Wn)%nat) by (unfold mbx, Wn; lia).
  assert (Bix : (ix < nn)%nat) by (unfold ix, nn; lia).
  rewrite Ei.
  rewrite (concat_nth_uniform 0 _ (Wn * nn)%nat (mby * nn + iy) (mbx * nn + ix) Hprow)
    by (rewrite ?Hpl; apply lt_mul_add; try assumption; unfold Hh; lia).
  rewrite Hplane.
  rewrite (concat_nth_uniform [] _ nn mby iy Hf) by (rewrite ?map_length; lia).
  rewrite (nth_indep _ [] (f [])) by (rewrite map_length; exact Bmby). rewrite map_nth.
  set (row := nth mby rows []).
  assert (Hin : In row rows) by (apply nth_In; exact Bmby).
  destruct (Hblk row Hin) as [K1 K2]. unfold f.
  rewrite (proj2 (hcat_all_row nn (map sel row) iy K1 Biy) mbx ix) by (rewrite ?map_length; lia).
  rewrite (nth_indep _ [] (sel dpix)) by (rewrite map_length; lia). rewrite map_nth. reflexivity.
Qed.

Lemma nth_skipn_add {A} (d : A) : forall k (l : list A) i, nth i (skipn k l) d = nth (k + i) l d.
Proof.
  induction k as [|k IH]; intros l i; [reflexivity|]. destruct l as [|a l]; [destruct i; reflexivity|].
  cbn [skipn Nat.add nth]. apply IH.
Qed.

Lemma nth_firstn_lt {A} (d : A) : forall k (l : list A) i, (i < k)%nat -> nth i (firstn k l) d = nth i l d.
Proof.
  induction k as [|k IH]; intros l i H; [lia|]. destruct l as [|a l]; [reflexivity|]. cbn [firstn].
  destruct i; [reflexivity|]. cbn [nth]. apply IH. lia.
Qed.

(** * the work buffer of reconstructRow (dec.yuvB, stride BPS): a block of n x n samples at cell
    (X0, Y0) with its prediction context around it - the row above at y = Y0-1 (with [tr] more
    samples to the right for luma), the column to the left at x = X0-1 (the code keeps 4 columns) *)
Section WorkBuf.
  Variables (S Ht n tr X0 Y0 : Z).

  Definition put_cells (c : list Z) (x0 y : Z) (src : list Z) : list Z := copy_at c (y * S + x0) src.
  Definition row_cells (c : list Z) (x0 y : Z) (len : nat) : list Z :=
    map (fun k => cget S c (x0 + Z.of_nat k) y) (seq 0 len).

  Lemma put_cells_length c x0 y src : length (put_cells c x0 y src) = length c.
  Proof. apply copy_at_length. Qed.

  Lemma put_cells_spec c x0 y src x y' :
    length c = Z.to_nat (S * Ht) -> 0 <= x0 -> x0 + Z.of_nat (length src) <= S -> 0 <= y < Ht ->
    0 <= x < S -> 0 <= y' < Ht ->
    cget S (put_cells c x0 y src) x y' =
      if (y' =? y) && (x0 <=? x) && (x <? x0 + Z.of_nat (length src)) then fget src (x - x0) else cget S c x y'.
  Proof.
    intros Hl Hx0 Hx0n Hy Hx Hy'. unfold cget, put_cells.
    assert (HS : 0 < S) by lia.
    assert (P1 : 0 <= y * S) by nia. assert (P2 : (y + 1) * S <= Ht * S) by nia.
    assert (P3 : 0 <= y' * S) by nia.
    assert (Hlc : Z.of_nat (length c) = S * Ht) by (rewrite Hl; apply Z2Nat.id; nia).
    rewrite copy_at_get by lia.
    destruct (Z.eqb_spec y' y) as [->|Hne].
    - zb; try lia; try reflexivity. f_equal. lia.
    - cbn [andb]. destruct (Z_lt_le_dec y' y).
      + assert ((y' + 1) * S <= y * S) by nia. zb; try lia; reflexivity.
      + assert ((y + 1) * S <= y' * S) by nia. zb; try lia; reflexivity.
  Qed.

  Lemma row_cells_length c x0 y len : length (row_cells c x0 y len) = len.
  Proof. unfold row_cells. rewrite map_length, seq_length. reflexivity. Qed.

  Lemma fget_row_cells c x0 y len k : 0 <= k < Z.of_nat len -> fget (row_cells c x0 y len) k = cget S c (x0 + k) y.
  Proof.
    intros Hk. unfold fget, row_cells.
    set (f := fun k : nat => cget S c (x0 + Z.of_nat k) y).
    rewrite (nth_indep _ 0 (f 0%nat)) by (rewrite map_length, seq_length; lia).
    rewrite map_nth, seq_nth by lia. unfold f. f_equal. lia.
  Qed.

  Hypothesis geo : 4 <= n /\ 4 <= X0 /\ 0 <= tr /\ X0 + n + tr <= S /\ 1 <= Y0 /\ Y0 + n <= Ht /\
                   (tr = 0 \/ (tr = 4 /\ 12 <= n)).

  (** "Rotate left samples from the previous block": for j := -1; j < n; j++ { copy(buf[base+j*bps-4 : base+j*bps], buf[base+j*bps+n-4 : base+j*bps+n]) } *)
  Definition rotate (c : list Z) : list Z :=
    for_range (-1) n (fun j c => put_cells c (X0 - 4) (Y0 + j) (row_cells c (X0 + n - 4) (Y0 + j) 4)) c.

  Lemma rotate_spec c x y : length c = Z.to_nat (S * Ht) -> 0 <= x < S -> 0 <= y < Ht ->
    length (rotate c) = length c /\
    cget S (rotate c) x y =
      if (Y0 - 1 <=? y) && (y <? Y0 + n) && (X0 - 4 <=? x) && (x <? X0) then cget S c (x + n) y else cget S c x y.
  Proof.
    intros Hlen Hx Hy. destruct geo as (G1 & G2 & G3 & G4 & G5 & G6 & G7).
    set (owns := fun j x y : Z => (y =? Y0 + j) && (X0 - 4 <=? x) && (x <? X0)).
    set (val := fun (j : Z) (c : list Z) (x y : Z) => cget S c (x + n) y).
    set (body := fun j c => put_cells c (X0 - 4) (Y0 + j) (row_cells c (X0 + n - 4) (Y0 + j) 4)).
    assert (Hu : forall v v' x y, -1 <= v < n -> -1 <= v' < n -> owns v x y = true -> owns v' x y = true -> v = v').
    { unfold owns. intros v v' x1 y1 _ _ H1 H2. rewrite !andb_true_iff, Z.eqb_eq in H1, H2. lia. }
    assert (Hl : forall v c, length (body v c) = length c) by (intros; apply put_cells_length).
    assert (Hs : forall v c x y, -1 <= v < n -> length c = Z.to_nat (S * Ht) -> 0 <= x < S -> 0 <= y < Ht ->
                 cget S (body v c) x y = if owns v x y then val v c x y else cget S c x y).
    { intros j c1 x1 y1 Hj Hl1 Hx1 Hy1. unfold body, owns, val.
      rewrite put_cells_spec by (rewrite ?row_cells_length; try assumption; lia).
      rewrite row_cells_length. change (Z.of_nat 4) with 4.
      zb; try lia; try reflexivity. rewrite fget_row_cells by lia. subst y1. f_equal. lia. }
    assert (Hf : forall v c c' x y, -1 <= v < n -> 0 <= x < S -> 0 <= y < Ht -> owns v x y = true ->
      (forall x' y', 0 <= x' < S -> 0 <= y' < Ht -> (forall u, -1 <= u < n -> u <> v -> owns u x' y' = false) ->
                     cget S c x' y' = cget S c' x' y') -> val v c x y = val v c' x y).
    { intros v c1 c2 x1 y1 Hv Hx1 Hy1 Ho Hsame. unfold val. unfold owns in Ho.
      rewrite !andb_true_iff, Z.eqb_eq, Z.leb_le, Z.ltb_lt in Ho.
      apply Hsame; [lia|lia|]. intros u Hu' _. unfold owns.
      replace (x1 + n <? X0) with false by (symmetry; apply Z.ltb_ge; lia). apply andb_false_r. }
    unfold rotate, for_range.
    destruct (loop_spec S Ht (-1) n owns val body Hu Hl Hs Hf (Z.to_nat (n - -1)) (-1) c x y ltac:(lia) ltac:(lia) Hlen Hx Hy)
      as (L & A & B).
    fold body. split; [exact L|].
    destruct ((Y0 - 1 <=? y) && (y <? Y0 + n) && (X0 - 4 <=? x) && (x <? X0)) eqn:E.
    - rewrite !andb_true_iff, !Z.leb_le, !Z.ltb_lt in E.
      rewrite (A (y - Y0)); [reflexivity|lia|]. unfold owns.
      rewrite !andb_true_iff, Z.eqb_eq, Z.leb_le, Z.ltb_lt. lia.
    - apply B. intros v Hv. unfold owns. destruct (Z.eqb_spec y (Y0 + v)) as [->|]; [|reflexivity]. cbn [andb].
      destruct ((X0 - 4 <=? x) && (x <? X0)) eqn:E2; [|reflexivity].
      assert (Ea : (Y0 - 1 <=? Y0 + v) = true) by (apply Z.leb_le; lia).
      assert (Eb : (Y0 + v <? Y0 + n) = true) by (apply Z.ltb_lt; lia).
      rewrite <- andb_assoc, E2, Ea, Eb in E. discriminate E.
  Qed.

  (** start of a row: "for j := 0; j < n; j++ { buf[base+j*bps-1] = 129 }", then the corner
      (129 below the first row) or, on the first row, 127 from the corner to the end of the row above *)
  Definition init_left (c : list Z) : list Z :=
    for_range 0 n (fun j c => put_cells c (X0 - 1) (Y0 + j) [129]) c.
  Definition init_corner (mby : Z) (c : list Z) : list Z :=
    if 0 <? mby then put_cells c (X0 - 1) (Y0 - 1) [129]
    else put_cells c (X0 - 1) (Y0 - 1) (repeat 127 (Z.to_nat (n + tr + 1))).

  Lemma init_left_spec c x y : length c = Z.to_nat (S * Ht) -> 0 <= x < S -> 0 <= y < Ht ->
    length (init_left c) = length c /\
    cget S (init_left c) x y = if (Y0 <=? y) && (y <? Y0 + n) && (x =? X0 - 1) then 129 else cget S c x y.
  Proof.
    intros Hlen Hx Hy. destruct geo as (G1 & G2 & G3 & G4 & G5 & G6 & G7).
    set (owns := fun j x y : Z => (y =? Y0 + j) && (x =? X0 - 1)).
    set (val := fun (j : Z) (c : list Z) (x y : Z) => 129).
    set (body := fun j c => put_cells c (X0 - 1) (Y0 + j) [129]).
    assert (Hu : forall v v' x y, 0 <= v < n -> 0 <= v' < n -> owns v x y = true -> owns v' x y = true -> v = v').
    { unfold owns. intros v v' x1 y1 _ _ H1 H2. rewrite !andb_true_iff, !Z.eqb_eq in H1, H2. lia. }
    assert (Hl : forall v c, length (body v c) = length c) by (intros; apply put_cells_length).
    assert (Hs : forall v c x y, 0 <= v < n -> length c = Z.to_nat (S * Ht) -> 0 <= x < S -> 0 <= y < Ht ->
                 cget S (body v c) x y = if owns v x y then val v c x y else cget S c x y).
    { intros j c1 x1 y1 Hj Hl1 Hx1 Hy1. unfold body, owns, val.
      rewrite put_cells_spec by (cbn [length]; try assumption; lia). cbn [length]. change (Z.of_nat 1) with 1.
      zb; try lia; try reflexivity. replace (x1 - (X0 - 1)) with 0 by lia. reflexivity. }
    unfold init_left, for_range. replace (n - 0) with n by lia.
    destruct (loop_spec S Ht 0 n owns val body Hu Hl Hs ltac:(intros; reflexivity) (Z.to_nat n) 0 c x y ltac:(lia) ltac:(lia) Hlen Hx Hy)
      as (L & A & B).
    fold body. split; [exact L|].
    destruct ((Y0 <=? y) && (y <? Y0 + n) && (x =? X0 - 1)) eqn:E.
    - rewrite !andb_true_iff, Z.leb_le, Z.ltb_lt, Z.eqb_eq in E.
      rewrite (A (y - Y0)); [reflexivity|lia|]. unfold owns. rewrite andb_true_iff, !Z.eqb_eq. lia.
    - apply B. intros v Hv. unfold owns. destruct (Z.eqb_spec y (Y0 + v)) as [->|]; [|reflexivity]. cbn [andb].
      destruct (x =? X0 - 1) eqn:E2; [|reflexivity].
      assert (Ea : (Y0 <=? Y0 + v) = true) by (apply Z.leb_le; lia).
      assert (Eb : (Y0 + v <? Y0 + n) = true) by (apply Z.ltb_lt; lia).
      rewrite Ea, Eb in E. discriminate E.
  Qed.
  Lemma fget_repeat v k i : 0 <= i < Z.of_nat k -> fget (repeat v k) i = v.
  Proof.
    intros H. unfold fget. assert (Hi : (Z.to_nat i < k)%nat) by lia. revert Hi. generalize (Z.to_nat i). clear H.
    induction k as [|k IH]; intros m Hm; [lia|]. cbn [repeat]. destruct m; [reflexivity|]. cbn [nth]. apply IH. lia.
  Qed.

  Lemma init_corner_spec mby c x y : length c = Z.to_nat (S * Ht) -> 0 <= x < S -> 0 <= y < Ht ->
    length (init_corner mby c) = length c /\
    cget S (init_corner mby c) x y =
      if 0 <? mby then (if (y =? Y0 - 1) && (x =? X0 - 1) then 129 else cget S c x y)
      else (if (y =? Y0 - 1) && (X0 - 1 <=? x) && (x <? X0 + n + tr) then 127 else cget S c x y).
  Proof.
    intros Hlen Hx Hy. destruct geo as (G1 & G2 & G3 & G4 & G5 & G6 & G7).
    unfold init_corner. destruct (0 <? mby).
    - split; [apply put_cells_length|].
      rewrite put_cells_spec by (cbn [length]; try assumption; lia). cbn [length]. change (Z.of_nat 1) with 1.
      zb; try lia; try reflexivity. replace (x - (X0 - 1)) with 0 by lia. reflexivity.
    - split; [apply put_cells_length|].
      rewrite put_cells_spec by (rewrite ?repeat_length; try assumption; lia). rewrite repeat_length.
      zb; try lia; try reflexivity. apply fget_repeat. lia.
  Qed.

  (** "Replicate top-right below for each sub-block row": for r := 1; r <= 3; r++ { copy(topRight[r*4*bps:...+4], topRight[:4]) } *)
  Definition replicate (c : list Z) : list Z :=
    for_range 1 4 (fun r c => put_cells c (X0 + n) (Y0 - 1 + 4 * r) (row_cells c (X0 + n) (Y0 - 1) 4)) c.

  Lemma replicate_spec c x y : tr = 4 -> length c = Z.to_nat (S * Ht) -> 0 <= x < S -> 0 <= y < Ht ->
    length (replicate c) = length c /\
    cget S (replicate c) x y =
      if (X0 + n <=? x) && (x <? X0 + n + 4) && ((y =? Y0 + 3) || (y =? Y0 + 7) || (y =? Y0 + 11))
      then cget S c x (Y0 - 1) else cget S c x y.
  Proof.
    intros Htr Hlen Hx Hy. destruct geo as (G1 & G2 & G3 & G4 & G5 & G6 & G7).
    assert (Hn12 : 12 <= n) by lia.
    set (owns := fun r x y : Z => (y =? Y0 - 1 + 4 * r) && (X0 + n <=? x) && (x <? X0 + n + 4)).
    set (val := fun (r : Z) (c : list Z) (x y : Z) => cget S c x (Y0 - 1)).
    set (body := fun r c => put_cells c (X0 + n) (Y0 - 1 + 4 * r) (row_cells c (X0 + n) (Y0 - 1) 4)).
    assert (Hu : forall v v' x y, 1 <= v < 4 -> 1 <= v' < 4 -> owns v x y = true -> owns v' x y = true -> v = v').
    { unfold owns. intros v v' x1 y1 _ _ H1 H2. rewrite !andb_true_iff, Z.eqb_eq in H1, H2. lia. }
    assert (Hl : forall v c, length (body v c) = length c) by (intros; apply put_cells_length).
    assert (Hs : forall v c x y, 1 <= v < 4 -> length c = Z.to_nat (S * Ht) -> 0 <= x < S -> 0 <= y < Ht ->
                 cget S (body v c) x y = if owns v x y then val v c x y else cget S c x y).
    { intros r c1 x1 y1 Hr Hl1 Hx1 Hy1. unfold body, owns, val.
      rewrite put_cells_spec by (rewrite ?row_cells_length; try assumption; lia).
      rewrite row_cells_length. change (Z.of_nat 4) with 4.
      zb; try lia; try reflexivity. rewrite fget_row_cells by lia. f_equal. lia. }
    assert (Hf : forall v c c' x y, 1 <= v < 4 -> 0 <= x < S -> 0 <= y < Ht -> owns v x y = true ->
      (forall x' y', 0 <= x' < S -> 0 <= y' < Ht -> (forall u, 1 <= u < 4 -> u <> v -> owns u x' y' = false) ->
                     cget S c x' y' = cget S c' x' y') -> val v c x y = val v c' x y).
    { intros v c1 c2 x1 y1 Hv Hx1 Hy1 Ho Hsame. unfold val. apply Hsame; [lia|lia|].
      intros u Hu' _. unfold owns. replace (Y0 - 1 =? Y0 - 1 + 4 * u) with false by (symmetry; apply Z.eqb_neq; lia).
      reflexivity. }
    unfold replicate, for_range.
    destruct (loop_spec S Ht 1 4 owns val body Hu Hl Hs Hf (Z.to_nat (4 - 1)) 1 c x y ltac:(lia) ltac:(lia) Hlen Hx Hy)
      as (L & A & B).
    fold body. split; [exact L|].
    destruct ((X0 + n <=? x) && (x <? X0 + n + 4) && ((y =? Y0 + 3) || (y =? Y0 + 7) || (y =? Y0 + 11))) eqn:E.
    - rewrite !andb_true_iff, !orb_true_iff, Z.leb_le, Z.ltb_lt, !Z.eqb_eq in E.
      destruct E as [Ex Ey].
      assert (Hv : exists v, 1 <= v < 4 /\ y = Y0 - 1 + 4 * v)
        by (destruct Ey as [[->| ->]| ->]; [exists 1|exists 2|exists 3]; lia).
      destruct Hv as (v & Hv1 & Hv2).
      rewrite (A v); [reflexivity|change (Z.of_nat (Z.to_nat (4 - 1))) with 3; lia|].
      unfold owns. rewrite !andb_true_iff, Z.eqb_eq, Z.leb_le, Z.ltb_lt. lia.
    - apply B. intros v Hv. change (Z.of_nat (Z.to_nat (4 - 1))) with 3 in Hv. unfold owns.
      destruct ((X0 + n <=? x) && (x <? X0 + n + 4)) eqn:E2.
      + cbn [andb] in E. rewrite <- andb_assoc, E2, andb_true_r.
        apply Z.eqb_neq. intros ->. rewrite !orb_false_iff, !Z.eqb_neq in E. lia.
      + rewrite <- andb_assoc, E2. apply andb_false_r.
  Qed.
  (** the state after the two start-of-row steps is the entry state of macroblock 0 *)
  Lemma row_start_entry mby c0 : 0 <= mby -> length c0 = Z.to_nat (S * Ht) ->
    let c := init_corner mby (init_left c0) in
    length c = length c0 /\
    (forall j, 0 <= j < n -> cget S c (X0 - 1) (Y0 + j) = 129) /\
    cget S c (X0 - 1) (Y0 - 1) = (if 0 <? mby then 129 else 127) /\
    (mby = 0 -> forall i, 0 <= i < n + tr -> cget S c (X0 + i) (Y0 - 1) = 127).
  Proof.
    intros Hmby Hlen0. cbv zeta. destruct geo as (G1 & G2 & G3 & G4 & G5 & G6 & G7).
    assert (L1 : length (init_left c0) = Z.to_nat (S * Ht)).
    { rewrite (proj1 (init_left_spec c0 0 0 Hlen0 ltac:(lia) ltac:(lia))). exact Hlen0. }
    split; [rewrite (proj1 (init_corner_spec mby _ 0 0 L1 ltac:(lia) ltac:(lia))), L1; symmetry; exact Hlen0|].
    split; [|split].
    - intros j Hj.
      rewrite (proj2 (init_corner_spec mby _ (X0 - 1) (Y0 + j) L1 ltac:(lia) ltac:(lia))).
      replace (Y0 + j =? Y0 - 1) with false by (symmetry; apply Z.eqb_neq; lia). cbn [andb].
      rewrite (proj2 (init_left_spec c0 (X0 - 1) (Y0 + j) Hlen0 ltac:(lia) ltac:(lia))).
      destruct (0 <? mby); zb; try lia; reflexivity.
    - rewrite (proj2 (init_corner_spec mby _ (X0 - 1) (Y0 - 1) L1 ltac:(lia) ltac:(lia))).
      destruct (0 <? mby); zb; try lia; reflexivity.
    - intros Hy0 i Hi.
      rewrite (proj2 (init_corner_spec mby _ (X0 + i) (Y0 - 1) L1 ltac:(lia) ltac:(lia))).
      replace (0 <? mby) with false by (symmetry; apply Z.ltb_ge; lia).
      zb; try lia; reflexivity.
  Qed.

  (** what reconstructRow does to the buffer before predicting macroblock mbx of row mby:
      rotate (mbx > 0), "copy(buf[base-bps:], topYUV.Y[:])" (mby > 0), and for 4x4-predicted luma
      the above-right samples (next macroblock's top samples, or the last top sample repeated on
      the right-most macroblock) and their copies beside rows 3, 7, 11 *)
  Definition prep (mbx mby mbW : Z) (is4 : bool) (tops : list (list Z)) (c : list Z) : list Z :=
    let c1 := if 0 <? mbx then rotate c else c in
    let c2 := if 0 <? mby then put_cells c1 X0 (Y0 - 1) (nth (Z.to_nat mbx) tops []) else c1 in
    if is4 && (0 <? tr) then
      replicate (if 0 <? mby
                 then put_cells c2 (X0 + n) (Y0 - 1)
                        (if mbW - 1 <=? mbx then repeat (fget (nth (Z.to_nat mbx) tops []) (n - 1)) 4
                         else firstn 4 (nth (Z.to_nat (mbx + 1)) tops []))
                 else c2)
    else c2.

  Section Prep.
    Variables (mbx mby mbW : Z) (is4 : bool) (tops : list (list Z)) (c : list Z).
    (* the grid: sample i of the last row of macroblock k of the row above; sample (i, j) of the
       macroblock to the left *)
    Variables (abv_row : Z -> Z -> Z) (prev : Z -> Z -> Z).
    Hypothesis Hmb : 0 <= mbx < mbW /\ 0 <= mby.
    Hypothesis Hlen : length c = Z.to_nat (S * Ht).
    Hypothesis Hprev : 0 < mbx -> forall i j, 0 <= i < n -> 0 <= j < n -> cget S c (X0 + i) (Y0 + j) = prev i j.
    Hypothesis Hptop : 0 < mbx -> 0 < mby -> forall i, n - 4 <= i < n -> cget S c (X0 + i) (Y0 - 1) = abv_row (mbx - 1) i.
    Hypothesis Htop0 : mby = 0 -> forall i, 0 <= i < n + tr -> cget S c (X0 + i) (Y0 - 1) = 127.
    Hypothesis Hleft0 : mbx = 0 -> forall j, 0 <= j < n -> cget S c (X0 - 1) (Y0 + j) = 129.
    Hypothesis Hcorner0 : mbx = 0 -> cget S c (X0 - 1) (Y0 - 1) = if 0 <? mby then 129 else 127.
    Hypothesis Htops : 0 < mby -> forall k, mbx <= k < mbW ->
      Z.of_nat (length (nth (Z.to_nat k) tops [])) = n /\
      forall i, 0 <= i < n -> fget (nth (Z.to_nat k) tops []) i = abv_row k i.

    Let c1 := if 0 <? mbx then rotate c else c.
    Let c2 := if 0 <? mby then put_cells c1 X0 (Y0 - 1) (nth (Z.to_nat mbx) tops []) else c1.

    Lemma c1_spec x y : 0 <= x < S -> 0 <= y < Ht ->
      length c1 = length c /\
      cget S c1 x y = if (0 <? mbx) && ((Y0 - 1 <=? y) && (y <? Y0 + n) && (X0 - 4 <=? x) && (x <? X0))
                      then cget S c (x + n) y else cget S c x y.
    Proof.
      intros Hx Hy. unfold c1. destruct (0 <? mbx); cbn [andb]; [|split; reflexivity].
      apply rotate_spec; assumption.
    Qed.

    Lemma c2_spec x y : 0 <= x < S -> 0 <= y < Ht ->
      length c2 = length c /\
      cget S c2 x y = if (0 <? mby) && ((y =? Y0 - 1) && (X0 <=? x) && (x <? X0 + n))
                      then abv_row mbx (x - X0) else cget S c1 x y.
    Proof.
      intros Hx Hy. destruct geo as (G1 & G2 & G3 & G4 & G5 & G6 & G7).
      destruct (c1_spec x y Hx Hy) as [L1 _]. unfold c2.
      destruct (Z.ltb_spec 0 mby) as [Hy0|Hy0]; cbn [andb]; [|split; [exact L1|reflexivity]].
      destruct (Htops Hy0 mbx ltac:(lia)) as [T1 T2].
      split; [rewrite put_cells_length; exact L1|].
      rewrite put_cells_spec by (rewrite ?T1, ?L1; try assumption; lia). rewrite T1.
      zb; try lia; try reflexivity. apply T2. lia.
    Qed.

    Lemma prep_low x y : 0 <= x < X0 + n -> 0 <= y < Ht ->
      length (prep mbx mby mbW is4 tops c) = length c /\
      cget S (prep mbx mby mbW is4 tops c) x y = cget S c2 x y.
    Proof.
      intros Hx Hy. destruct geo as (G1 & G2 & G3 & G4 & G5 & G6 & G7).
      assert (Hx' : 0 <= x < S) by lia.
      destruct (c2_spec x y Hx' Hy) as [L2 _]. unfold prep. fold c1. fold c2.
      destruct (is4 && (0 <? tr)) eqn:E4; [|split; [exact L2|reflexivity]].
      apply andb_true_iff in E4 as [_ E4]. apply Z.ltb_lt in E4. assert (Htr : tr = 4) by lia.
      set (src := if mbW - 1 <=? mbx then repeat (fget (nth (Z.to_nat mbx) tops []) (n - 1)) 4
                  else firstn 4 (nth (Z.to_nat (mbx + 1)) tops [])).
      set (c3 := if 0 <? mby then put_cells c2 (X0 + n) (Y0 - 1) src else c2).
      assert (Hsrc : 0 < mby -> length src = 4%nat).
      { intros Hy0. unfold src. destruct (Z.leb_spec (mbW - 1) mbx); [apply repeat_length|].
        destruct (Htops Hy0 (mbx + 1) ltac:(lia)) as [T1 _]. rewrite firstn_length. lia. }
      assert (L3 : length c3 = length c).
      { unfold c3. destruct (0 <? mby); [rewrite put_cells_length|]; exact L2. }
      destruct (replicate_spec c3 x y Htr ltac:(rewrite L3; exact Hlen) Hx' Hy) as [L4 E].
      split; [rewrite L4; exact L3|]. rewrite E.
      replace (X0 + n <=? x) with false by (symmetry; apply Z.leb_gt; lia). cbn [andb].
      unfold c3. destruct (Z.ltb_spec 0 mby) as [Hy0|Hy0]; [|reflexivity].
      rewrite put_cells_spec by (rewrite ?Hsrc, ?L2 by exact Hy0; try assumption; lia).
      replace (X0 + n <=? x) with false by (symmetry; apply Z.leb_gt; lia).
      rewrite andb_false_r. reflexivity.
    Qed.

    (** the cells the predictors read hold what the grid model's border rules (Vp8Recon.mk_edges) say *)
    Theorem prep_edges :
      let P := prep mbx mby mbW is4 tops c in
      length P = length c /\
      (forall i, 0 <= i < n -> cget S P (X0 + i) (Y0 - 1) = if 0 <? mby then abv_row mbx i else 127) /\
      (forall j, 0 <= j < n -> cget S P (X0 - 1) (Y0 + j) = if 0 <? mbx then prev (n - 1) j else 129) /\
      cget S P (X0 - 1) (Y0 - 1) = (if 0 <? mby then (if 0 <? mbx then abv_row (mbx - 1) (n - 1) else 129) else 127) /\
      (is4 = true -> forall i r, 0 <= i < tr -> 0 <= r <= 3 ->
         cget S P (X0 + n + i) (Y0 - 1 + 4 * r) =
           if 0 <? mby then (if mbx + 1 <? mbW then abv_row (mbx + 1) i else abv_row mbx (n - 1)) else 127).
    Proof.
      cbv zeta. destruct geo as (G1 & G2 & G3 & G4 & G5 & G6 & G7). destruct Hmb as [Hmbx Hmby].
      split; [apply (prep_low (X0 - 1) (Y0 - 1)); lia|]. split; [|split; [|split]].
      - intros i Hi.
        rewrite (proj2 (prep_low (X0 + i) (Y0 - 1) ltac:(lia) ltac:(lia))).
        rewrite (proj2 (c2_spec (X0 + i) (Y0 - 1) ltac:(lia) ltac:(lia))).
        destruct (Z.ltb_spec 0 mby) as [Hy0|Hy0]; cbn [andb].
        + zb; try lia. f_equal. lia.
        + rewrite (proj2 (c1_spec (X0 + i) (Y0 - 1) ltac:(lia) ltac:(lia))).
          replace (X0 + i <? X0) with false by (symmetry; apply Z.ltb_ge; lia). rewrite !andb_false_r.
          apply Htop0; lia.
      - intros j Hj.
        rewrite (proj2 (prep_low (X0 - 1) (Y0 + j) ltac:(lia) ltac:(lia))).
        rewrite (proj2 (c2_spec (X0 - 1) (Y0 + j) ltac:(lia) ltac:(lia))).
        replace (Y0 + j =? Y0 - 1) with false by (symmetry; apply Z.eqb_neq; lia). rewrite !andb_false_r.
        rewrite (proj2 (c1_spec (X0 - 1) (Y0 + j) ltac:(lia) ltac:(lia))).
        destruct (Z.ltb_spec 0 mbx) as [Hx0|Hx0]; cbn [andb].
        + zb; try lia. replace (X0 - 1 + n) with (X0 + (n - 1)) by lia. apply Hprev; lia.
        + apply Hleft0; lia.
      - rewrite (proj2 (prep_low (X0 - 1) (Y0 - 1) ltac:(lia) ltac:(lia))).
        rewrite (proj2 (c2_spec (X0 - 1) (Y0 - 1) ltac:(lia) ltac:(lia))).
        replace (X0 <=? X0 - 1) with false by (symmetry; apply Z.leb_gt; lia). rewrite !andb_false_r. cbn [andb].
        rewrite (proj2 (c1_spec (X0 - 1) (Y0 - 1) ltac:(lia) ltac:(lia))).
        destruct (Z.ltb_spec 0 mbx) as [Hx0|Hx0]; cbn [andb].
        + zb; try lia; replace (X0 - 1 + n) with (X0 + (n - 1)) by lia;
            first [apply Hptop; lia|apply Htop0; lia].
        + rewrite Hcorner0 by lia. reflexivity.
      - intros H4 i r Hi Hr. assert (Htr : tr = 4) by lia.
        unfold prep. fold c1. fold c2. rewrite H4. replace (0 <? tr) with true by (symmetry; apply Z.ltb_lt; lia).
        cbn [andb].
        set (src := if mbW - 1 <=? mbx then repeat (fget (nth (Z.to_nat mbx) tops []) (n - 1)) 4
                    else firstn 4 (nth (Z.to_nat (mbx + 1)) tops [])).
        set (c3 := if 0 <? mby then put_cells c2 (X0 + n) (Y0 - 1) src else c2).
        assert (L2 : length c2 = length c) by (apply (c2_spec 0 0); lia).
        assert (Hsrc : 0 < mby -> length src = 4%nat).
        { intros Hy0. unfold src. destruct (Z.leb_spec (mbW - 1) mbx); [apply repeat_length|].
          destruct (Htops Hy0 (mbx + 1) ltac:(lia)) as [T1 _]. rewrite firstn_length. lia. }
        assert (L3 : length c3 = length c).
        { unfold c3. destruct (0 <? mby); [rewrite put_cells_length|]; exact L2. }
        rewrite (proj2 (replicate_spec c3 (X0 + n + i) (Y0 - 1 + 4 * r) Htr ltac:(rewrite L3; exact Hlen) ltac:(lia) ltac:(lia))).
        assert (E3 : cget S c3 (X0 + n + i) (Y0 - 1) =
                     if 0 <? mby then (if mbx + 1 <? mbW then abv_row (mbx + 1) i else abv_row mbx (n - 1)) else 127).
        { unfold c3. destruct (Z_lt_le_dec 0 mby) as [Hy0|Hy0].
          - replace (0 <? mby) with true by (symmetry; apply Z.ltb_lt; lia).
            rewrite put_cells_spec by (rewrite ?Hsrc, ?L2 by exact Hy0; try assumption; lia).
            rewrite (Hsrc Hy0). change (Z.of_nat 4) with 4.
            rewrite Z.eqb_refl. replace (X0 + n <=? X0 + n + i) with true by (symmetry; apply Z.leb_le; lia).
            replace (X0 + n + i <? X0 + n + 4) with true by (symmetry; apply Z.ltb_lt; lia). cbn [andb].
            replace (X0 + n + i - (X0 + n)) with i by lia. unfold src.
            destruct (Z.leb_spec (mbW - 1) mbx) as [Hl|Hl].
            + replace (mbx + 1 <? mbW) with false by (symmetry; apply Z.ltb_ge; lia).
              rewrite fget_repeat by lia. apply (Htops Hy0 mbx); lia.
            + replace (mbx + 1 <? mbW) with true by (symmetry; apply Z.ltb_lt; lia).
              unfold fget. rewrite nth_firstn_lt by lia. apply (Htops Hy0 (mbx + 1)); lia.
          - replace (0 <? mby) with false by (symmetry; apply Z.ltb_ge; lia).
            rewrite (proj2 (c2_spec (X0 + n + i) (Y0 - 1) ltac:(lia) ltac:(lia))).
            replace (0 <? mby) with false by (symmetry; apply Z.ltb_ge; lia). cbn [andb].
            rewrite (proj2 (c1_spec (X0 + n + i) (Y0 - 1) ltac:(lia) ltac:(lia))).
            replace (X0 + n + i <? X0) with false by (symmetry; apply Z.ltb_ge; lia). rewrite !andb_false_r.
            replace (X0 + n + i) with (X0 + (n + i)) by lia. apply Htop0; lia. }
        destruct ((X0 + n <=? X0 + n + i) && (X0 + n + i <? X0 + n + 4) &&
                  ((Y0 - 1 + 4 * r =? Y0 + 3) || (Y0 - 1 + 4 * r =? Y0 + 7) || (Y0 - 1 + 4 * r =? Y0 + 11))) eqn:E.
        + exact E3.
        + assert (r = 0).
          { destruct (Z.eq_dec r 0) as [|Hr0]; [assumption|exfalso].
            replace (X0 + n <=? X0 + n + i) with true in E by (symmetry; apply Z.leb_le; lia).
            replace (X0 + n + i <? X0 + n + 4) with true in E by (symmetry; apply Z.ltb_lt; lia).
            cbn [andb] in E. rewrite !orb_false_iff, !Z.eqb_neq in E. lia. }
          subst r. replace (Y0 - 1 + 4 * 0) with (Y0 - 1) by lia. exact E3.
    Qed.

    (** on the first row the row above the block stays 127 up to the above-right samples *)
    Lemma prep_row0 : mby = 0 -> forall i, 0 <= i < n + tr ->
      cget S (prep mbx mby mbW is4 tops c) (X0 + i) (Y0 - 1) = 127.
    Proof.
      intros Hy0 i Hi. destruct geo as (G1 & G2 & G3 & G4 & G5 & G6 & G7).
      assert (E1 : cget S c1 (X0 + i) (Y0 - 1) = 127).
      { rewrite (proj2 (c1_spec (X0 + i) (Y0 - 1) ltac:(lia) ltac:(lia))).
        replace (X0 + i <? X0) with false by (symmetry; apply Z.ltb_ge; lia). rewrite !andb_false_r.
        apply Htop0; lia. }
      assert (L1 : length c1 = length c) by (apply (c1_spec 0 0); lia).
      unfold prep. fold c1. replace (0 <? mby) with false by (symmetry; apply Z.ltb_ge; lia).
      destruct (is4 && (0 <? tr)) eqn:E4; [|exact E1].
      apply andb_true_iff in E4 as [_ E4]. apply Z.ltb_lt in E4. assert (Htr : tr = 4) by lia.
      rewrite (proj2 (replicate_spec c1 (X0 + i) (Y0 - 1) Htr ltac:(rewrite L1; exact Hlen) ltac:(lia) ltac:(lia))).
      replace (Y0 - 1 =? Y0 + 3) with false by (symmetry; apply Z.eqb_neq; lia).
      replace (Y0 - 1 =? Y0 + 7) with false by (symmetry; apply Z.eqb_neq; lia).
      replace (Y0 - 1 =? Y0 + 11) with false by (symmetry; apply Z.eqb_neq; lia).
      cbn [orb]. rewrite andb_false_r. exact E1.
    Qed.

    (** after the macroblock is reconstructed into the block area ([blk], n rows of n) and its
        last row is stashed in the top samples, the state is the entry state of the next macroblock *)
    Lemma after_mb_entry blk tops' :
      blk_ok n blk ->
      (forall k, mbx < k -> nth (Z.to_nat k) tops' [] = nth (Z.to_nat k) tops []) ->
      let c' := store_block S n (Y0 * S + X0) blk (prep mbx mby mbW is4 tops c) in
      length c' = length c /\
      (forall i j, 0 <= i < n -> 0 <= j < n -> cget S c' (X0 + i) (Y0 + j) = fget (nth (Z.to_nat j) blk []) i) /\
      (0 < mby -> forall i, n - 4 <= i < n -> cget S c' (X0 + i) (Y0 - 1) = abv_row mbx i) /\
      (mby = 0 -> forall i, 0 <= i < n + tr -> cget S c' (X0 + i) (Y0 - 1) = 127) /\
      (0 < mby -> forall k, mbx + 1 <= k < mbW ->
         Z.of_nat (length (nth (Z.to_nat k) tops' [])) = n /\
         forall i, 0 <= i < n -> fget (nth (Z.to_nat k) tops' []) i = abv_row k i).
    Proof.
      intros Hb Htp. cbv zeta. destruct geo as (G1 & G2 & G3 & G4 & G5 & G6 & G7). destruct Hmb as [Hmbx Hmby].
      destruct prep_edges as (LP & C1 & _).
      assert (LPc : length (prep mbx mby mbW is4 tops c) = Z.to_nat (S * Ht)) by (rewrite LP; exact Hlen).
      split; [rewrite store_block_length; exact LP|]. split; [|split; [|split]].
      - intros i j Hi Hj.
        rewrite (store_block_spec S Ht n X0 Y0 blk _ (X0 + i) (Y0 + j)) by (try assumption; lia).
        zb; try lia. f_equal; [f_equal; lia|lia].
      - intros Hy0 i Hi.
        rewrite (store_block_spec S Ht n X0 Y0 blk _ (X0 + i) (Y0 - 1)) by (try assumption; lia).
        replace (Y0 <=? Y0 - 1) with false by (symmetry; apply Z.leb_gt; lia). cbn [andb].
        rewrite C1 by lia. replace (0 <? mby) with true by (symmetry; apply Z.ltb_lt; lia). reflexivity.
      - intros Hy0 i Hi.
        rewrite (store_block_spec S Ht n X0 Y0 blk _ (X0 + i) (Y0 - 1)) by (try assumption; lia).
        replace (Y0 <=? Y0 - 1) with false by (symmetry; apply Z.leb_gt; lia). cbn [andb].
        apply prep_row0; assumption.
      - intros Hy0 k Hk. rewrite Htp by lia. apply Htops; [exact Hy0|lia].
    Qed.
  End Prep.
End WorkBuf.

(** * the regions of dec.yuvB (generated constants): stride 32, 26 rows; luma block at cell (8, 1)
    with 4 above-right samples, U at (8, 18), V at (24, 18) *)
Definition geo_ok (S Ht n tr X0 Y0 : Z) : Prop :=
  4 <= n /\ 4 <= X0 /\ 0 <= tr /\ X0 + n + tr <= S /\ 1 <= Y0 /\ Y0 + n <= Ht /\ (tr = 0 \/ (tr = 4 /\ 12 <= n)).

Lemma yuvb_layout :
  WebpGen.Consts.lossy_BPS = 32 /\ WebpGen.Consts.lossy_YUVSize = 32 * 26 /\
  WebpGen.Consts.lossy_YOff = 1 * 32 + 8 /\ WebpGen.Consts.lossy_UOff = 18 * 32 + 8 /\
  WebpGen.Consts.lossy_VOff = 18 * 32 + 24 /\
  geo_ok 32 26 16 4 8 1 /\ geo_ok 32 26 8 0 8 18 /\ geo_ok 32 26 8 0 24 18.
Proof. unfold geo_ok. repeat (split; [try reflexivity; lia|]). lia. Qed.

(** * the grid model's border rules (Vp8Recon.mk_edges), cell by cell: the right-hand sides of
    [prep_edges] with  abv_row k i = sample i of row 15 of the macroblock k above,
    prev i j = sample (i, j) of the macroblock to the left *)
Lemma last_nth {A} (d : A) : forall l, last l d = nth (length l - 1) l d.
Proof.
  induction l as [|a l IH]; [reflexivity|]. destruct l as [|b l]; [reflexivity|].
  change (last (a :: b :: l) d) with (last (b :: l) d). rewrite IH. cbn [length].
  replace (S (S (length l)) - 1)%nat with (S (S (length l) - 1)) by lia. reflexivity.
Qed.

Lemma last_row_get p : blk_ok 16 p -> last_row p = nth 15 p [].
Proof. intros [H _]. unfold last_row. rewrite last_nth. f_equal. lia. Qed.

Lemma last_col_get p j : blk_ok 16 p -> 0 <= j < 16 -> fget (last_col p) j = fget (nth (Z.to_nat j) p []) 15.
Proof.
  intros [H1 H2] Hj. unfold fget, last_col.
  set (f := fun r : list Z => last r 0).
  rewrite (nth_indep _ 0 (f [])) by (rewrite map_length; lia). rewrite map_nth. unfold f. rewrite last_nth.
  assert (Hr : Z.of_nat (length (nth (Z.to_nat j) p [])) = 16).
  { rewrite Forall_forall in H2. apply H2. apply nth_In. lia. }
  f_equal. lia.
Qed.

Theorem mk_edges_y_cells (above left al ar : option mbpix) :
  (forall p, In (Some p) [above; left; al; ar] -> blk_ok 16 (px_y p)) ->
  let e := mk_edges above left al ar in
  (forall i, 0 <= i < 16 ->
     fget (e_above_y e) i = match above with Some p => fget (nth 15 (px_y p) []) i | None => 127 end) /\
  (forall j, 0 <= j < 16 ->
     fget (e_left_y e) j = match left with Some p => fget (nth (Z.to_nat j) (px_y p) []) 15 | None => 129 end) /\
  e_corner_y e = match above with
                 | None => 127
                 | Some _ => match al with Some p => fget (nth 15 (px_y p) []) 15 | None => 129 end
                 end /\
  (forall i, 0 <= i < 4 ->
     fget (e_ar e) i = match above with
                       | None => 127
                       | Some p => match ar with
                                   | Some q => fget (nth 15 (px_y q) []) i
                                   | None => fget (nth 15 (px_y p) []) 15
                                   end
                       end).
Proof.
  intros Hok. cbv zeta. unfold mk_edges. cbn [e_above_y e_left_y e_corner_y e_ar].
  assert (Hrep : forall v k i, 0 <= i < Z.of_nat k -> fget (repeat v k) i = v).
  { intros v k i H. unfold fget. assert (Hi : (Z.to_nat i < k)%nat) by lia. revert Hi. generalize (Z.to_nat i). clear H.
    induction k as [|k IH]; intros m Hm; [lia|]. cbn [repeat]. destruct m; [reflexivity|]. cbn [nth]. apply IH. lia. }
  split; [|split; [|split]].
  - intros i Hi. destruct above as [p|]; [|apply Hrep; lia].
    rewrite last_row_get by (apply Hok; cbn; auto). reflexivity.
  - intros j Hj. destruct left as [p|]; [|apply Hrep; lia].
    apply last_col_get; [apply Hok; cbn; auto|exact Hj].
  - destruct above as [p|]; [|reflexivity]. destruct al as [q|]; [|reflexivity].
    assert (Hq : blk_ok 16 (px_y q)) by (apply Hok; cbn; auto).
    rewrite last_row_get by exact Hq. rewrite last_nth.
    assert (Hr : Z.of_nat (length (nth 15 (px_y q) [])) = 16).
    { destruct Hq as [Q1 Q2]. rewrite Forall_forall in Q2. apply Q2. apply nth_In. lia. }
    unfold fget. f_equal. lia.
  - intros i Hi. destruct above as [p|]; [|apply Hrep; lia].
    assert (Hp : blk_ok 16 (px_y p)) by (apply Hok; cbn; auto).
    destruct ar as [q|].
    + rewrite last_row_get by (apply Hok; cbn; auto). unfold fget. apply nth_firstn_lt. lia.
    + rewrite Hrep by lia. rewrite last_row_get by exact Hp. rewrite last_nth.
      assert (Hr : Z.of_nat (length (nth 15 (px_y p) [])) = 16).
      { destruct Hp as [Q1 Q2]. rewrite Forall_forall in Q2. apply Q2. apply nth_In. lia. }
      unfold fget. f_equal. lia.
Qed.

(** * the invariant of reconstructRow's macroblock loop, in three steps *)
(** state of (buffer, top samples) when macroblock mbx of row mby is about to be prepared;
    [abv_row k i]: sample i of the last row of macroblock k of the row above (mby > 0),
    [prev i j]: sample (i, j) of the macroblock to the left (mbx > 0) *)
Definition entry_state (S Ht n tr X0 Y0 mbx mby mbW : Z) (tops : list (list Z)) (c : list Z)
  (abv_row prev : Z -> Z -> Z) : Prop :=
  length c = Z.to_nat (S * Ht) /\
  (0 < mbx -> forall i j, 0 <= i < n -> 0 <= j < n -> cget S c (X0 + i) (Y0 + j) = prev i j) /\
  (0 < mbx -> 0 < mby -> forall i, n - 4 <= i < n -> cget S c (X0 + i) (Y0 - 1) = abv_row (mbx - 1) i) /\
  (mby = 0 -> forall i, 0 <= i < n + tr -> cget S c (X0 + i) (Y0 - 1) = 127) /\
  (mbx = 0 -> forall j, 0 <= j < n -> cget S c (X0 - 1) (Y0 + j) = 129) /\
  (mbx = 0 -> cget S c (X0 - 1) (Y0 - 1) = if 0 <? mby then 129 else 127) /\
  (0 < mby -> forall k, mbx <= k < mbW ->
     Z.of_nat (length (nth (Z.to_nat k) tops [])) = n /\
     forall i, 0 <= i < n -> fget (nth (Z.to_nat k) tops []) i = abv_row k i).

(** what the predictors read around the block: row above, left column, corner, and (4x4-predicted
    luma) the above-right samples with their copies beside rows 3, 7, 11 - the values of
    Vp8Recon.mk_edges (see [mk_edges_y_cells]) *)
Definition context_cells (S n tr X0 Y0 mbx mby mbW : Z) (is4 : bool) (P : list Z) (abv_row prev : Z -> Z -> Z) : Prop :=
  (forall i, 0 <= i < n -> cget S P (X0 + i) (Y0 - 1) = if 0 <? mby then abv_row mbx i else 127) /\
  (forall j, 0 <= j < n -> cget S P (X0 - 1) (Y0 + j) = if 0 <? mbx then prev (n - 1) j else 129) /\
  cget S P (X0 - 1) (Y0 - 1) = (if 0 <? mby then (if 0 <? mbx then abv_row (mbx - 1) (n - 1) else 129) else 127) /\
  (is4 = true -> forall i r, 0 <= i < tr -> 0 <= r <= 3 ->
     cget S P (X0 + n + i) (Y0 - 1 + 4 * r) =
       if 0 <? mby then (if mbx + 1 <? mbW then abv_row (mbx + 1) i else abv_row mbx (n - 1)) else 127).

Theorem workbuf_row_start S Ht n tr X0 Y0 mby mbW tops c0 abv_row prev :
  geo_ok S Ht n tr X0 Y0 -> 0 <= mby -> length c0 = Z.to_nat (S * Ht) ->
  (0 < mby -> forall k, 0 <= k < mbW ->
     Z.of_nat (length (nth (Z.to_nat k) tops [])) = n /\
     forall i, 0 <= i < n -> fget (nth (Z.to_nat k) tops []) i = abv_row k i) ->
  entry_state S Ht n tr X0 Y0 0 mby mbW tops (init_corner S n tr X0 Y0 mby (init_left S n X0 Y0 c0)) abv_row prev.
Proof.
  intros G Hmby Hlen Ht0.
  destruct (row_start_entry S Ht n tr X0 Y0 G mby c0 Hmby Hlen) as (L & A & B & C).
  unfold entry_state. split; [rewrite L; exact Hlen|]. split; [intros; lia|]. split; [intros; lia|].
  split; [exact C|]. split; [intros _; exact A|]. split; [intros _; exact B|exact Ht0].
Qed.

Theorem workbuf_prep_edges S Ht n tr X0 Y0 mbx mby mbW is4 tops c abv_row prev :
  geo_ok S Ht n tr X0 Y0 -> 0 <= mbx < mbW -> 0 <= mby ->
  entry_state S Ht n tr X0 Y0 mbx mby mbW tops c abv_row prev ->
  let P := prep S n tr X0 Y0 mbx mby mbW is4 tops c in
  length P = length c /\ context_cells S n tr X0 Y0 mbx mby mbW is4 P abv_row prev.
Proof.
  intros G Hx Hy (E0 & E1 & E2 & E3 & E4 & E5 & E6).
  exact (prep_edges S Ht n tr X0 Y0 G mbx mby mbW is4 tops c abv_row prev (conj Hx Hy) E0 E1 E2 E3 E4 E5 E6).
Qed.

Theorem workbuf_next_entry S Ht n tr X0 Y0 mbx mby mbW is4 tops tops' c abv_row prev blk :
  geo_ok S Ht n tr X0 Y0 -> 0 <= mbx < mbW -> 0 <= mby ->
  entry_state S Ht n tr X0 Y0 mbx mby mbW tops c abv_row prev ->
  blk_ok n blk ->
  (forall k, mbx < k -> nth (Z.to_nat k) tops' [] = nth (Z.to_nat k) tops []) ->
  entry_state S Ht n tr X0 Y0 (mbx + 1) mby mbW tops'
    (store_block S n (Y0 * S + X0) blk (prep S n tr X0 Y0 mbx mby mbW is4 tops c))
    abv_row (fun i j => fget (nth (Z.to_nat j) blk []) i).
Proof.
  intros G Hx Hy (E0 & E1 & E2 & E3 & E4 & E5 & E6) Hb Ht'.
  destruct (after_mb_entry S Ht n tr X0 Y0 G mbx mby mbW is4 tops c abv_row prev (conj Hx Hy) E0 E1 E2 E3 E4 E5 E6 blk tops' Hb Ht')
    as (L & A & B & C & D).
  unfold entry_state. split; [rewrite L; exact E0|]. split; [intros _; exact A|].
  split; [intros _ Hy0 i Hi; replace (mbx + 1 - 1) with mbx by lia; apply B; assumption|].
  split; [exact C|]. split; [intros; lia|]. split; [intros; lia|exact D].
Qed.

(** * doFilter's horizontal passes over the output cache: "for j := 0; j < n; j++ { off := base + j*bps;
    ... p[off-4] .. p[off+3] ... }" with base = mbY*n*stride + mbX*n (macroblock edge) or base + 4k (inner
    edges), as a loop over the flat buffer; [f] is the 8-sample edge function of the grid model
    (Vp8Filter.apply_win applies it to the window of a row) *)
Section FilterPass.
  Variables (S Ht : Z) (f : list Z -> list Z).
  Hypothesis f_len : forall l, length l = 8%nat -> length (f l) = 8%nat.

  Definition hpass (xe y0 n : Z) (c : list Z) : list Z :=
    for_range 0 n (fun j c => put_cells S c (xe - 4) (y0 + j) (f (row_cells S c (xe - 4) (y0 + j) 8))) c.

  Lemma hpass_spec xe y0 n c x y : 4 <= xe -> xe + 4 <= S -> 0 <= y0 -> y0 + n <= Ht -> 0 <= n ->
    length c = Z.to_nat (S * Ht) -> 0 <= x < S -> 0 <= y < Ht ->
    length (hpass xe y0 n c) = length c /\
    cget S (hpass xe y0 n c) x y =
      if (y0 <=? y) && (y <? y0 + n) && (xe - 4 <=? x) && (x <? xe + 4)
      then fget (f (row_cells S c (xe - 4) y 8)) (x - (xe - 4)) else cget S c x y.
  Proof.
    intros Hxe Hxe2 Hy0 Hy0n Hn Hlen Hx Hy.
    set (owns := fun j x y : Z => (y =? y0 + j) && (xe - 4 <=? x) && (x <? xe + 4)).
    set (val := fun (j : Z) (c : list Z) (x y : Z) => fget (f (row_cells S c (xe - 4) y 8)) (x - (xe - 4))).
    set (body := fun j c => put_cells S c (xe - 4) (y0 + j) (f (row_cells S c (xe - 4) (y0 + j) 8))).
    assert (Hu : forall v v' x y, 0 <= v < n -> 0 <= v' < n -> owns v x y = true -> owns v' x y = true -> v = v').
    { unfold owns. intros v v' x1 y1 _ _ H1 H2. rewrite !andb_true_iff, Z.eqb_eq in H1, H2. lia. }
    assert (Hl : forall v c, length (body v c) = length c) by (intros; apply put_cells_length).
    assert (Hf8 : forall c x0 y1, length (f (row_cells S c x0 y1 8)) = 8%nat) by (intros; apply f_len, row_cells_length).
    assert (Hs : forall v c x y, 0 <= v < n -> length c = Z.to_nat (S * Ht) -> 0 <= x < S -> 0 <= y < Ht ->
                 cget S (body v c) x y = if owns v x y then val v c x y else cget S c x y).
    { intros j c1 x1 y1 Hj Hl1 Hx1 Hy1. unfold body, owns, val.
      rewrite (put_cells_spec S Ht) by (rewrite ?Hf8; try assumption; lia).
      rewrite Hf8. change (Z.of_nat 8) with 8. replace (xe - 4 + 8) with (xe + 4) by lia.
      destruct (Z.eqb_spec y1 (y0 + j)) as [->|]; reflexivity. }
    assert (Hfr : forall v c c' x y, 0 <= v < n -> 0 <= x < S -> 0 <= y < Ht -> owns v x y = true ->
      (forall x' y', 0 <= x' < S -> 0 <= y' < Ht -> (forall u, 0 <= u < n -> u <> v -> owns u x' y' = false) ->
                     cget S c x' y' = cget S c' x' y') -> val v c x y = val v c' x y).
    { intros v c1 c2 x1 y1 Hv Hx1 Hy1 Ho Hsame. unfold val. unfold owns in Ho.
      rewrite !andb_true_iff, Z.eqb_eq in Ho. destruct Ho as [[Ho1 _] _]. do 2 f_equal.
      unfold row_cells. apply map_ext_in. intros k Hk. apply in_seq in Hk.
      apply Hsame; [lia|lia|]. intros u Hu' Hne. unfold owns.
      replace (y1 =? y0 + u) with false by (symmetry; apply Z.eqb_neq; lia). reflexivity. }
    unfold hpass, for_range. replace (n - 0) with n by lia.
    destruct (loop_spec S Ht 0 n owns val body Hu Hl Hs Hfr (Z.to_nat n) 0 c x y ltac:(lia) ltac:(lia) Hlen Hx Hy)
      as (L & A & B).
    fold body. split; [exact L|].
    destruct ((y0 <=? y) && (y <? y0 + n) && (xe - 4 <=? x) && (x <? xe + 4)) eqn:E.
    - rewrite !andb_true_iff, !Z.leb_le, !Z.ltb_lt in E.
      rewrite (A (y - y0)); [reflexivity|lia|]. unfold owns.
      rewrite !andb_true_iff, Z.eqb_eq, Z.leb_le, Z.ltb_lt. lia.
    - apply B. intros v Hv. unfold owns. destruct (Z.eqb_spec y (y0 + v)) as [->|]; [|reflexivity]. cbn [andb].
      destruct ((xe - 4 <=? x) && (x <? xe + 4)) eqn:E2; [|reflexivity].
      assert (Ea : (y0 <=? y0 + v) = true) by (apply Z.leb_le; lia).
      assert (Eb : (y0 + v <? y0 + n) = true) by (apply Z.ltb_lt; lia).
      rewrite <- andb_assoc, E2, Ea, Eb in E. discriminate E.
  Qed.

  (** the grid model's view: on every row of the band, any segment of the row that contains the
      window is rewritten by apply_win at the window's position in the segment
      (edge_h: segment = left block ++ current block, position n-4; inner_h: segment = current block,
      positions 0, 4, 8) *)
  Lemma nth_apply_win off (row : list Z) i : (off + 8 <= length row)%nat -> (i < length row)%nat ->
    nth i (apply_win f off row) 0 =
    if ((off <=? i) && (i <? off + 8))%nat then nth (i - off) (f (firstn 8 (skipn off row))) 0 else nth i row 0.
  Proof.
    intros H Hi. unfold apply_win.
    assert (L8 : length (f (firstn 8 (skipn off row))) = 8%nat).
    { apply f_len. rewrite firstn_length, skipn_length. lia. }
    destruct (Nat.leb_spec off i) as [H1|H1]; cbn [andb].
    - rewrite app_nth2 by (rewrite firstn_length; lia). rewrite firstn_length, Nat.min_l by lia.
      destruct (Nat.ltb_spec i (off + 8)) as [H2|H2].
      + apply app_nth1. lia.
      + rewrite app_nth2 by lia. rewrite L8, nth_skipn_add. f_equal. lia.
    - rewrite app_nth1 by (rewrite firstn_length; lia). apply nth_firstn_lt. lia.
  Qed.

  Theorem hpass_row xe y0 n c j xs len :
    4 <= xe -> xe + 4 <= S -> 0 <= y0 -> y0 + n <= Ht -> length c = Z.to_nat (S * Ht) ->
    0 <= j < n -> 0 <= xs -> xs <= xe - 4 -> xe + 4 <= xs + Z.of_nat len -> xs + Z.of_nat len <= S ->
    row_cells S (hpass xe y0 n c) xs (y0 + j) len =
    apply_win f (Z.to_nat (xe - 4 - xs)) (row_cells S c xs (y0 + j) len).
  Proof.
    intros Hxe Hxe2 Hy0 Hy0n Hlen Hj Hxs Hxs2 Hxl HxS.
    assert (Lr : forall c', length (row_cells S c' xs (y0 + j) len) = len) by (intros; apply row_cells_length).
    assert (Lw : length (apply_win f (Z.to_nat (xe - 4 - xs)) (row_cells S c xs (y0 + j) len)) = len).
    { unfold apply_win. rewrite !app_length, firstn_length, skipn_length, Lr.
      rewrite f_len by (rewrite firstn_length, skipn_length, Lr; lia). lia. }
    apply nth_ext with (d := 0) (d' := 0); [rewrite Lr, Lw; reflexivity|].
    intros i Hi. rewrite Lr in Hi.
    rewrite nth_apply_win by (rewrite Lr; lia).
    assert (Ek : forall c' x0 l m, (m < l)%nat -> nth m (row_cells S c' x0 (y0 + j) l) 0 = cget S c' (x0 + Z.of_nat m) (y0 + j)).
    { intros c' x0 l m Hm. pose proof (fget_row_cells S c' x0 (y0 + j) l (Z.of_nat m) ltac:(lia)) as F.
      unfold fget in F. rewrite Nat2Z.id in F. exact F. }
    assert (Ei : forall c', nth i (row_cells S c' xs (y0 + j) len) 0 = cget S c' (xs + Z.of_nat i) (y0 + j))
      by (intros c'; apply Ek; exact Hi).
    rewrite !Ei.
    rewrite (proj2 (hpass_spec xe y0 n c (xs + Z.of_nat i) (y0 + j) Hxe Hxe2 Hy0 Hy0n ltac:(lia) Hlen ltac:(lia) ltac:(lia))).
    replace (y0 <=? y0 + j) with true by (symmetry; apply Z.leb_le; lia).
    replace (y0 + j <? y0 + n) with true by (symmetry; apply Z.ltb_lt; lia). cbn [andb].
    assert (Ewin : firstn 8 (skipn (Z.to_nat (xe - 4 - xs)) (row_cells S c xs (y0 + j) len)) = row_cells S c (xe - 4) (y0 + j) 8).
    { apply nth_ext with (d := 0) (d' := 0).
      - rewrite firstn_length, skipn_length, Lr, row_cells_length. lia.
      - intros k Hk. rewrite firstn_length, skipn_length, Lr in Hk.
        rewrite nth_firstn_lt by lia. rewrite nth_skipn_add.
        rewrite !Ek by lia. f_equal. lia. }
    rewrite Ewin.
    destruct (Z.leb_spec (xe - 4) (xs + Z.of_nat i)) as [H1|H1];
      destruct (Nat.leb_spec (Z.to_nat (xe - 4 - xs)) i) as [H1'|H1']; try lia; cbn [andb]; try reflexivity.
    destruct (Z.ltb_spec (xs + Z.of_nat i) (xe + 4)) as [H2|H2];
      destruct (Nat.ltb_spec i (Z.to_nat (xe - 4 - xs) + 8)) as [H2'|H2']; try lia; try reflexivity.
    unfold fget. f_equal. lia.
  Qed.
End FilterPass.

(** * the passes against the grid model's edge functions (Vp8Filter.edge_h, inner_h) *)
Section FilterGrid.
  Variables (S Ht : Z) (f : list Z -> list Z).
  Hypothesis f_len : forall l, length l = 8%nat -> length (f l) = 8%nat.

  (** the n x n block of the buffer at cell (x0, y0), as the grid model's list of rows *)
  Definition block_at (c : list Z) (x0 y0 : Z) (n : nat) : list (list Z) :=
    map (fun j => row_cells S c x0 (y0 + Z.of_nat j) n) (seq 0 n).

  Lemma map_seq_shift {A} : forall b a (g : nat -> A), map g (seq a b) = map (fun k => g (a + k)%nat) (seq 0 b).
  Proof.
    induction b as [|b IH]; intros a g; [reflexivity|]. cbn [seq map]. rewrite Nat.add_0_r. f_equal.
    rewrite (IH (Datatypes.S a) g), (IH 1%nat (fun k => g (a + k)%nat)). apply map_ext. intros k. f_equal. lia.
  Qed.

  Lemma row_cells_app c x0 y a b :
    row_cells S c x0 y (a + b) = row_cells S c x0 y a ++ row_cells S c (x0 + Z.of_nat a) y b.
  Proof.
    unfold row_cells. rewrite seq_app, map_app. f_equal. cbn [Nat.add]. rewrite map_seq_shift.
    apply map_ext. intros k. f_equal. lia.
  Qed.

  Lemma combine_map_same {A B C} (g : A -> B) (h : A -> C) : forall l, combine (map g l) (map h l) = map (fun x => (g x, h x)) l.
  Proof. induction l as [|x l IH]; [reflexivity|]. cbn [map combine]. f_equal. exact IH. Qed.

  (** macroblock edge: filterLoop26At / simpleHFilter16At at base = mbY*n*stride + mbX*n *)
  Theorem hpass_edge_h x0 y0 (n : nat) c :
    (4 <= n)%nat -> Z.of_nat n <= x0 -> x0 + Z.of_nat n <= S -> 0 <= y0 -> y0 + Z.of_nat n <= Ht ->
    length c = Z.to_nat (S * Ht) ->
    let c' := hpass S f x0 y0 (Z.of_nat n) c in
    (block_at c' (x0 - Z.of_nat n) y0 n, block_at c' x0 y0 n) =
    edge_h n f (block_at c (x0 - Z.of_nat n) y0 n) (block_at c x0 y0 n).
  Proof.
    intros Hn Hx0 Hx0n Hy0 Hy0n Hlen. cbv zeta. unfold edge_h, block_at.
    rewrite combine_map_same, !map_map.
    assert (Hrow : forall j, In j (seq 0 n) ->
              row_cells S (hpass S f x0 y0 (Z.of_nat n) c) (x0 - Z.of_nat n) (y0 + Z.of_nat j) n ++
              row_cells S (hpass S f x0 y0 (Z.of_nat n) c) x0 (y0 + Z.of_nat j) n =
              apply_win f (n - 4) (row_cells S c (x0 - Z.of_nat n) (y0 + Z.of_nat j) n ++ row_cells S c x0 (y0 + Z.of_nat j) n)).
    { intros j Hj. apply in_seq in Hj.
      pose proof (hpass_row S Ht f f_len x0 y0 (Z.of_nat n) c (Z.of_nat j) (x0 - Z.of_nat n) (n + n)
                    ltac:(lia) ltac:(lia) Hy0 Hy0n Hlen ltac:(lia) ltac:(lia) ltac:(lia) ltac:(lia) ltac:(lia)) as E.
      rewrite !row_cells_app in E. replace (x0 - Z.of_nat n + Z.of_nat n) with x0 in E by lia.
      replace (Z.to_nat (x0 - 4 - (x0 - Z.of_nat n))) with (n - 4)%nat in E by lia. exact E. }
    f_equal; apply map_ext_in; intros j Hj; rewrite <- (Hrow j Hj).
    - rewrite firstn_app, row_cells_length, Nat.sub_diag, firstn_all2 by (rewrite row_cells_length; lia).
      cbn [firstn]. rewrite app_nil_r. reflexivity.
    - rewrite skipn_app, row_cells_length, Nat.sub_diag, skipn_all2 by (rewrite row_cells_length; lia). reflexivity.
  Qed.

  (** inner edges: hFilter16iAt / hFilter8iAt / simpleHFilter16iAt: "for k := 1; k <= 3; k++ { filterLoop24HAt(p, base+k*4, ...) }"
      (windows starting 0, 4, 8 samples into the block; chroma: one window at 0) *)
  Definition hpasses (x0 y0 : Z) (n : nat) (offs : list nat) (c : list Z) : list Z :=
    fold_left (fun c o => hpass S f (x0 + Z.of_nat o + 4) y0 (Z.of_nat n) c) offs c.

  Theorem hpasses_inner_h x0 y0 (n : nat) : 0 <= x0 -> x0 + Z.of_nat n <= S -> 0 <= y0 -> y0 + Z.of_nat n <= Ht ->
    forall offs c, Forall (fun o => (o + 8 <= n)%nat) offs -> length c = Z.to_nat (S * Ht) ->
    block_at (hpasses x0 y0 n offs c) x0 y0 n = inner_h f offs (block_at c x0 y0 n).
  Proof.
    intros Hx0 Hx0n Hy0 Hy0n. induction offs as [|o tl IH]; intros c Ho Hlen.
    - unfold inner_h. cbn [hpasses fold_left apply_wins]. rewrite map_id. reflexivity.
    - pose proof (Forall_inv Ho) as Ho1. cbv beta in Ho1.
      assert (L1 : length (hpass S f (x0 + Z.of_nat o + 4) y0 (Z.of_nat n) c) = Z.to_nat (S * Ht)).
      { rewrite (proj1 (hpass_spec S Ht f f_len (x0 + Z.of_nat o + 4) y0 (Z.of_nat n) c 0 0
                          ltac:(lia) ltac:(lia) Hy0 Hy0n ltac:(lia) Hlen ltac:(lia) ltac:(lia))). exact Hlen. }
      cbn [hpasses fold_left]. fold (hpasses x0 y0 n tl (hpass S f (x0 + Z.of_nat o + 4) y0 (Z.of_nat n) c)).
      rewrite (IH _ (Forall_inv_tail Ho) L1). unfold inner_h, block_at. rewrite !map_map.
      apply map_ext_in. intros j Hj. apply in_seq in Hj. cbn [apply_wins]. f_equal.
      pose proof (hpass_row S Ht f f_len (x0 + Z.of_nat o + 4) y0 (Z.of_nat n) c (Z.of_nat j) x0 n
                    ltac:(lia) ltac:(lia) Hy0 Hy0n Hlen ltac:(lia) Hx0 ltac:(lia) ltac:(lia) ltac:(lia)) as E.
      replace (Z.to_nat (x0 + Z.of_nat o + 4 - 4 - x0)) with o in E by lia. exact E.
  Qed.
End FilterGrid.

(** * doFilter's vertical passes: "for i := 0; i < width; i++ { off := base + i; ... p[off-4*bps] .. p[off+3*bps] ... }" *)
Section FilterPassV.
  Variables (S Ht : Z) (f : list Z -> list Z).
  Hypothesis f_len : forall l, length l = 8%nat -> length (f l) = 8%nat.

  Definition col_cells (c : list Z) (x y0 : Z) (len : nat) : list Z :=
    map (fun k => cget S c x (y0 + Z.of_nat k)) (seq 0 len).

  Lemma col_cells_length c x y0 len : length (col_cells c x y0 len) = len.
  Proof. unfold col_cells. rewrite map_length, seq_length. reflexivity. Qed.

  (** the samples of one column written back one by one (the code computes all new values from
      the samples read before it stores any) *)
  Fixpoint put_col (c : list Z) (x y : Z) (vals : list Z) : list Z :=
    match vals with
    | [] => c
    | v :: tl => put_col (put_cells S c x y [v]) x (y + 1) tl
    end.

  Lemma put_col_length : forall vals c x y, length (put_col c x y vals) = length c.
  Proof. induction vals as [|v tl IH]; intros c x y; cbn [put_col]; [reflexivity|]. rewrite IH. apply put_cells_length. Qed.

  Lemma put_col_spec : forall vals c x y x' y',
    length c = Z.to_nat (S * Ht) -> 0 <= x < S -> 0 <= y -> y + Z.of_nat (length vals) <= Ht ->
    0 <= x' < S -> 0 <= y' < Ht ->
    length (put_col c x y vals) = length c /\
    cget S (put_col c x y vals) x' y' =
      if (x' =? x) && (y <=? y') && (y' <? y + Z.of_nat (length vals)) then fget vals (y' - y) else cget S c x' y'.
  Proof.
    induction vals as [|v tl IH]; intros c x y x' y' Hlen Hx Hy Hyl Hx' Hy'; cbn [put_col length].
    - split; [reflexivity|]. zb; try lia; reflexivity.
    - cbn [length] in Hyl. rewrite Nat2Z.inj_succ in *.
      assert (L1 : length (put_cells S c x y [v]) = Z.to_nat (S * Ht)) by (rewrite put_cells_length; exact Hlen).
      destruct (IH (put_cells S c x y [v]) x (y + 1) x' y' L1 Hx ltac:(lia) ltac:(lia) Hx' Hy') as [L E].
      split; [rewrite L, put_cells_length; reflexivity|]. rewrite E.
      rewrite (put_cells_spec S Ht) by (cbn [length]; try assumption; lia). cbn [length]. change (Z.of_nat 1) with 1.
      unfold fget.
      destruct (Z.eqb_spec x' x) as [->|]; cbn [andb]; [|zb; try lia; reflexivity].
      zb; try lia; try reflexivity.
      + replace (Z.to_nat (y' - y)) with (Datatypes.S (Z.to_nat (y' - (y + 1)))) by lia. reflexivity.
      + replace (y' - y) with 0 by lia. replace (x - x) with 0 by lia. reflexivity.
  Qed.

  Definition vpass (x0 ye n : Z) (c : list Z) : list Z :=
    for_range 0 n (fun i c => put_col c (x0 + i) (ye - 4) (f (col_cells c (x0 + i) (ye - 4) 8))) c.

  Lemma vpass_spec x0 ye n c x y : 0 <= x0 -> x0 + n <= S -> 4 <= ye -> ye + 4 <= Ht -> 0 <= n ->
    length c = Z.to_nat (S * Ht) -> 0 <= x < S -> 0 <= y < Ht ->
    length (vpass x0 ye n c) = length c /\
    cget S (vpass x0 ye n c) x y =
      if (x0 <=? x) && (x <? x0 + n) && (ye - 4 <=? y) && (y <? ye + 4)
      then fget (f (col_cells c x (ye - 4) 8)) (y - (ye - 4)) else cget S c x y.
  Proof.
    intros Hx0 Hx0n Hye Hye2 Hn Hlen Hx Hy.
    set (owns := fun i x y : Z => (x =? x0 + i) && (ye - 4 <=? y) && (y <? ye + 4)).
    set (val := fun (i : Z) (c : list Z) (x y : Z) => fget (f (col_cells c x (ye - 4) 8)) (y - (ye - 4))).
    set (body := fun i c => put_col c (x0 + i) (ye - 4) (f (col_cells c (x0 + i) (ye - 4) 8))).
    assert (Hf8 : forall c x1 y1, length (f (col_cells c x1 y1 8)) = 8%nat) by (intros; apply f_len, col_cells_length).
    assert (Hu : forall v v' x y, 0 <= v < n -> 0 <= v' < n -> owns v x y = true -> owns v' x y = true -> v = v').
    { unfold owns. intros v v' x1 y1 _ _ H1 H2. rewrite !andb_true_iff, Z.eqb_eq in H1, H2. lia. }
    assert (Hl : forall v c, length (body v c) = length c) by (intros; apply put_col_length).
    assert (Hs : forall v c x y, 0 <= v < n -> length c = Z.to_nat (S * Ht) -> 0 <= x < S -> 0 <= y < Ht ->
                 cget S (body v c) x y = if owns v x y then val v c x y else cget S c x y).
    { intros i c1 x1 y1 Hi Hl1 Hx1 Hy1. unfold body, owns, val.
      rewrite (proj2 (put_col_spec _ c1 (x0 + i) (ye - 4) x1 y1 Hl1 ltac:(lia) ltac:(lia) ltac:(rewrite Hf8; lia) Hx1 Hy1)).
      rewrite Hf8. change (Z.of_nat 8) with 8. replace (ye - 4 + 8) with (ye + 4) by lia.
      destruct (Z.eqb_spec x1 (x0 + i)) as [->|]; reflexivity. }
    assert (Hfr : forall v c c' x y, 0 <= v < n -> 0 <= x < S -> 0 <= y < Ht -> owns v x y = true ->
      (forall x' y', 0 <= x' < S -> 0 <= y' < Ht -> (forall u, 0 <= u < n -> u <> v -> owns u x' y' = false) ->
                     cget S c x' y' = cget S c' x' y') -> val v c x y = val v c' x y).
    { intros v c1 c2 x1 y1 Hv Hx1 Hy1 Ho Hsame. unfold val. unfold owns in Ho.
      rewrite !andb_true_iff, Z.eqb_eq in Ho. destruct Ho as [[Ho1 _] _]. do 2 f_equal.
      unfold col_cells. apply map_ext_in. intros k Hk. apply in_seq in Hk.
      apply Hsame; [lia|lia|]. intros u Hu' Hne. unfold owns.
      replace (x1 =? x0 + u) with false by (symmetry; apply Z.eqb_neq; lia). reflexivity. }
    unfold vpass, for_range. replace (n - 0) with n by lia.
    destruct (loop_spec S Ht 0 n owns val body Hu Hl Hs Hfr (Z.to_nat n) 0 c x y ltac:(lia) ltac:(lia) Hlen Hx Hy)
      as (L & A & B).
    fold body. split; [exact L|].
    destruct ((x0 <=? x) && (x <? x0 + n) && (ye - 4 <=? y) && (y <? ye + 4)) eqn:E.
    - rewrite !andb_true_iff, !Z.leb_le, !Z.ltb_lt in E.
      rewrite (A (x - x0)); [reflexivity|lia|]. unfold owns.
      rewrite !andb_true_iff, Z.eqb_eq, Z.leb_le, Z.ltb_lt. lia.
    - apply B. intros v Hv. unfold owns. destruct (Z.eqb_spec x (x0 + v)) as [->|]; [|reflexivity]. cbn [andb].
      destruct ((ye - 4 <=? y) && (y <? ye + 4)) eqn:E2; [|reflexivity].
      assert (Ea : (x0 <=? x0 + v) = true) by (apply Z.leb_le; lia).
      assert (Eb : (x0 + v <? x0 + n) = true) by (apply Z.ltb_lt; lia).
      rewrite <- andb_assoc, E2, Ea, Eb in E. discriminate E.
  Qed.

  Lemma nth_col_cells c x y0 len m : (m < len)%nat -> nth m (col_cells c x y0 len) 0 = cget S c x (y0 + Z.of_nat m).
  Proof.
    intros Hm. unfold col_cells. set (g := fun k : nat => cget S c x (y0 + Z.of_nat k)).
    rewrite (nth_indep _ 0 (g 0%nat)) by (rewrite map_length, seq_length; lia).
    rewrite map_nth, seq_nth by lia. reflexivity.
  Qed.

  (** on every column of the band, any segment of the column that contains the window is rewritten
      by apply_win at the window's position in the segment *)
  Theorem vpass_col x0 ye n c i ys len :
    0 <= x0 -> x0 + n <= S -> 4 <= ye -> ye + 4 <= Ht -> length c = Z.to_nat (S * Ht) ->
    0 <= i < n -> 0 <= ys -> ys <= ye - 4 -> ye + 4 <= ys + Z.of_nat len -> ys + Z.of_nat len <= Ht ->
    col_cells (vpass x0 ye n c) (x0 + i) ys len =
    apply_win f (Z.to_nat (ye - 4 - ys)) (col_cells c (x0 + i) ys len).
  Proof.
    intros Hx0 Hx0n Hye Hye2 Hlen Hi Hys Hys2 Hyl HyH.
    assert (Lr : forall c', length (col_cells c' (x0 + i) ys len) = len) by (intros; apply col_cells_length).
    assert (Lw : length (apply_win f (Z.to_nat (ye - 4 - ys)) (col_cells c (x0 + i) ys len)) = len).
    { unfold apply_win. rewrite !app_length, firstn_length, skipn_length, Lr.
      rewrite f_len by (rewrite firstn_length, skipn_length, Lr; lia). lia. }
    apply nth_ext with (d := 0) (d' := 0); [rewrite Lr, Lw; reflexivity|].
    intros m Hm. rewrite Lr in Hm.
    rewrite (nth_apply_win f f_len) by (rewrite Lr; lia).
    rewrite !nth_col_cells by exact Hm.
    rewrite (proj2 (vpass_spec x0 ye n c (x0 + i) (ys + Z.of_nat m) Hx0 Hx0n Hye Hye2 ltac:(lia) Hlen ltac:(lia) ltac:(lia))).
    replace (x0 <=? x0 + i) with true by (symmetry; apply Z.leb_le; lia).
    replace (x0 + i <? x0 + n) with true by (symmetry; apply Z.ltb_lt; lia). cbn [andb].
    assert (Ewin : firstn 8 (skipn (Z.to_nat (ye - 4 - ys)) (col_cells c (x0 + i) ys len)) = col_cells c (x0 + i) (ye - 4) 8).
    { apply nth_ext with (d := 0) (d' := 0).
      - rewrite firstn_length, skipn_length, Lr, col_cells_length. lia.
      - intros k Hk. rewrite firstn_length, skipn_length, Lr in Hk.
        rewrite nth_firstn_lt by lia. rewrite nth_skipn_add. rewrite !nth_col_cells by lia. f_equal. lia. }
    rewrite Ewin.
    destruct (Z.leb_spec (ye - 4) (ys + Z.of_nat m)) as [H1|H1];
      destruct (Nat.leb_spec (Z.to_nat (ye - 4 - ys)) m) as [H1'|H1']; try lia; cbn [andb]; try reflexivity.
    destruct (Z.ltb_spec (ys + Z.of_nat m) (ye + 4)) as [H2|H2];
      destruct (Nat.ltb_spec m (Z.to_nat (ye - 4 - ys) + 8)) as [H2'|H2']; try lia; try reflexivity.
    unfold fget. f_equal. lia.
  Qed.
End FilterPassV.

(** * the vertical pass against the grid model's edge_v (stated there through transposition) *)
Section FilterGridV.
  Variables (S Ht : Z) (f : list Z -> list Z).
  Hypothesis f_len : forall l, length l = 8%nat -> length (f l) = 8%nat.

  Lemma transpose_aux_grid (g : nat -> nat -> Z) (h : nat) : forall w a,
    transpose_aux w (map (fun j => map (fun i => g i j) (seq a w)) (seq 0 h)) =
    map (fun i => map (fun j => g i j) (seq 0 h)) (seq a w).
  Proof.
    induction w as [|w IH]; intros a; [reflexivity|].
    cbn [transpose_aux seq map]. rewrite !map_map. cbn [hd tl]. f_equal. apply IH.
  Qed.

  Lemma transpose_grid (g : nat -> nat -> Z) (w h : nat) : (0 < h)%nat ->
    transpose (map (fun j => map (fun i => g i j) (seq 0 w)) (seq 0 h)) =
    map (fun i => map (fun j => g i j) (seq 0 h)) (seq 0 w).
  Proof.
    intros Hh. unfold transpose.
    replace (length (hd [] (map (fun j => map (fun i => g i j) (seq 0 w)) (seq 0 h)))) with w.
    - apply transpose_aux_grid.
    - destruct h as [|h]; [lia|]. cbn [seq map hd]. rewrite map_length, seq_length. reflexivity.
  Qed.

  (** w columns, h rows at cell (x0, y0) *)
  Definition rect_at (c : list Z) (x0 y0 : Z) (w h : nat) : list (list Z) :=
    map (fun j => row_cells S c x0 (y0 + Z.of_nat j) w) (seq 0 h).

  Lemma rect_at_split c x0 y0 w h1 h2 :
    rect_at c x0 y0 w (h1 + h2) = rect_at c x0 y0 w h1 ++ rect_at c x0 (y0 + Z.of_nat h1) w h2.
  Proof.
    unfold rect_at. rewrite seq_app, map_app. f_equal. cbn [Nat.add]. rewrite (map_seq_shift h2 h1).
    apply map_ext. intros k. f_equal. lia.
  Qed.

  Lemma rect_at_length c x0 y0 w h : length (rect_at c x0 y0 w h) = h.
  Proof. unfold rect_at. rewrite map_length, seq_length. reflexivity. Qed.

  (** macroblock edge: filterLoop26VAt / SimpleVFilter16 at base = mbY*n*stride + mbX*n, i.e. the
      horizontal edge at row ye between the block above and the current block *)
  Theorem vpass_edge_v x0 ye (n : nat) c :
    (4 <= n)%nat -> 0 <= x0 -> x0 + Z.of_nat n <= S -> Z.of_nat n <= ye -> ye + Z.of_nat n <= Ht ->
    length c = Z.to_nat (S * Ht) ->
    let c' := vpass S f x0 ye (Z.of_nat n) c in
    (block_at S c' x0 (ye - Z.of_nat n) n, block_at S c' x0 ye n) =
    edge_v n f (block_at S c x0 (ye - Z.of_nat n) n) (block_at S c x0 ye n).
  Proof.
    intros Hn Hx0 Hx0n Hye Hyen Hlen. cbv zeta. unfold edge_v.
    set (c' := vpass S f x0 ye (Z.of_nat n) c).
    assert (Hstack : forall b, block_at S b x0 (ye - Z.of_nat n) n ++ block_at S b x0 ye n = rect_at b x0 (ye - Z.of_nat n) n (n + n)).
    { intros b. rewrite rect_at_split. unfold block_at, rect_at. f_equal.
      apply map_ext. intros j. f_equal. lia. }
    rewrite Hstack.
    assert (Hgrid : forall b, rect_at b x0 (ye - Z.of_nat n) n (n + n) =
              map (fun j => map (fun i => cget S b (x0 + Z.of_nat i) (ye - Z.of_nat n + Z.of_nat j)) (seq 0 n)) (seq 0 (n + n)))
      by reflexivity.
    rewrite (Hgrid c), transpose_grid by lia. rewrite map_map.
    assert (Hcols : map (fun i => apply_win f (n - 4) (map (fun j => cget S c (x0 + Z.of_nat i) (ye - Z.of_nat n + Z.of_nat j)) (seq 0 (n + n)))) (seq 0 n) =
                    map (fun i => map (fun j => cget S c' (x0 + Z.of_nat i) (ye - Z.of_nat n + Z.of_nat j)) (seq 0 (n + n))) (seq 0 n)).
    { apply map_ext_in. intros i Hi. apply in_seq in Hi.
      pose proof (vpass_col S Ht f f_len x0 ye (Z.of_nat n) c (Z.of_nat i) (ye - Z.of_nat n) (n + n)
                    Hx0 Hx0n ltac:(lia) ltac:(lia) Hlen ltac:(lia) ltac:(lia) ltac:(lia) ltac:(lia) ltac:(lia)) as E.
      replace (Z.to_nat (ye - 4 - (ye - Z.of_nat n))) with (n - 4)%nat in E by lia.
      symmetry. exact E. }
    rewrite Hcols, (transpose_grid (fun j i => cget S c' (x0 + Z.of_nat i) (ye - Z.of_nat n + Z.of_nat j)) (n + n) n) by lia.
    change (map (fun i => map (fun j => cget S c' (x0 + Z.of_nat j) (ye - Z.of_nat n + Z.of_nat i)) (seq 0 n)) (seq 0 (n + n)))
      with (rect_at c' x0 (ye - Z.of_nat n) n (n + n)).
    rewrite <- Hstack.
    assert (Lb : forall b y1, length (block_at S b x0 y1 n) = n) by (intros; unfold block_at; rewrite map_length, seq_length; reflexivity).
    rewrite firstn_app, skipn_app, !Lb, Nat.sub_diag.
    rewrite firstn_all2 by (rewrite Lb; lia).
    rewrite skipn_all2 by (rewrite Lb; lia).
    cbn [firstn skipn app]. rewrite app_nil_r. reflexivity.
  Qed.

  (** inner edges: vFilter16iAt / vFilter8iAt / SimpleVFilter16i: "for k := 1; k <= 3; k++ { filterLoop24VAt(p, base+k*4*bps, ...) }" *)
  Definition vpasses (x0 y0 : Z) (n : nat) (offs : list nat) (c : list Z) : list Z :=
    fold_left (fun c o => vpass S f x0 (y0 + Z.of_nat o + 4) (Z.of_nat n) c) offs c.

  Theorem vpasses_inner_v x0 y0 (n : nat) : (0 < n)%nat -> 0 <= x0 -> x0 + Z.of_nat n <= S -> 0 <= y0 -> y0 + Z.of_nat n <= Ht ->
    forall offs c, Forall (fun o => (o + 8 <= n)%nat) offs -> length c = Z.to_nat (S * Ht) ->
    block_at S (vpasses x0 y0 n offs c) x0 y0 n = inner_v f offs (block_at S c x0 y0 n).
  Proof.
    intros Hn Hx0 Hx0n Hy0 Hy0n.
    set (cols := fun b : list Z => map (fun i => col_cells S b (x0 + Z.of_nat i) y0 n) (seq 0 n)).
    assert (Hcols : forall offs c, Forall (fun o => (o + 8 <= n)%nat) offs -> length c = Z.to_nat (S * Ht) ->
              cols (vpasses x0 y0 n offs c) = map (apply_wins f offs) (cols c)).
    { induction offs as [|o tl IH]; intros c Ho Hlen.
      - cbn [vpasses fold_left apply_wins]. rewrite map_id. reflexivity.
      - pose proof (Forall_inv Ho) as Ho1. cbv beta in Ho1.
        assert (L1 : length (vpass S f x0 (y0 + Z.of_nat o + 4) (Z.of_nat n) c) = Z.to_nat (S * Ht)).
        { rewrite (proj1 (vpass_spec S Ht f f_len x0 (y0 + Z.of_nat o + 4) (Z.of_nat n) c 0 0
                            Hx0 Hx0n ltac:(lia) ltac:(lia) ltac:(lia) Hlen ltac:(lia) ltac:(lia))). exact Hlen. }
        cbn [vpasses fold_left]. fold (vpasses x0 y0 n tl (vpass S f x0 (y0 + Z.of_nat o + 4) (Z.of_nat n) c)).
        rewrite (IH _ (Forall_inv_tail Ho) L1). unfold cols. rewrite !map_map.
        apply map_ext_in. intros i Hi. apply in_seq in Hi. cbn [apply_wins]. f_equal.
        pose proof (vpass_col S Ht f f_len x0 (y0 + Z.of_nat o + 4) (Z.of_nat n) c (Z.of_nat i) y0 n
                      Hx0 Hx0n ltac:(lia) ltac:(lia) Hlen ltac:(lia) Hy0 ltac:(lia) ltac:(lia) ltac:(lia)) as E.
        replace (Z.to_nat (y0 + Z.of_nat o + 4 - 4 - y0)) with o in E by lia. exact E. }
    intros offs c Ho Hlen. unfold inner_v.
    assert (Hb : forall b, block_at S b x0 y0 n =
              map (fun j => map (fun i => cget S b (x0 + Z.of_nat i) (y0 + Z.of_nat j)) (seq 0 n)) (seq 0 n)) by reflexivity.
    assert (Hc : forall b, cols b = map (fun i => map (fun j => cget S b (x0 + Z.of_nat i) (y0 + Z.of_nat j)) (seq 0 n)) (seq 0 n)) by reflexivity.
    rewrite (Hb c), transpose_grid by exact Hn. rewrite <- Hc, <- (Hcols offs c Ho Hlen), Hc.
    rewrite (transpose_grid (fun j i => cget S (vpasses x0 y0 n offs c) (x0 + Z.of_nat i) (y0 + Z.of_nat j)) n n) by exact Hn.
    reflexivity.
  Qed.
End FilterGridV.
