(** Specification decoder for a VP8 key frame (RFC 6386): bytes of the "VP8 "
    chunk payload -> width, height, and the Y, U, V planes before and after the
    loop filter.  [decode] is the specification; [decode_go] is the same
    function with the three places switched where the Go decoder (like, for
    two of them, libwebp) departs from the RFC's reference decoder:

    - [qk_seg_abs_default]: segmentation enabled on a key frame without
      update_segment_feature_data: the RFC decoder starts from delta mode with
      zero data (quantiser / filter level of the frame); the Go decoder starts
      from absolute mode with zero data (quantiser index 0, filter level 0).
    - [qk_no_mid_clamp]: the RFC decoder clamps the filter level to 0..63 after
      the segment adjustment and again after the delta adjustment; the Go
      decoder clamps once at the end.
    - [qk_inner_by_flag]: inner-edge filtering of a non-B_PRED macroblock is
      skipped when it has no coefficients; the Go decoder looks at the
      mb_skip_coeff flag only, so a macroblock coded without the flag but with
      only end-of-block tokens gets its inner edges filtered. *)
From Coq Require Import List ZArith Lia Bool.
From Webp Require Import Base.Res Vp8.Vp8Bool Vp8.Vp8Tables Vp8.Vp8Syntax Vp8.Vp8Kernels
  Vp8.Vp8Recon Vp8.Vp8Filter.
Import ListNotations.
Open Scope Z_scope.

Record quirks : Type := mkQuirks {
  qk_seg_abs_default : bool; qk_no_mid_clamp : bool; qk_inner_by_flag : bool }.
Definition rfc_quirks : quirks := mkQuirks false false false.
Definition go_quirks : quirks := mkQuirks true true false. (* inner-edge rule repaired in /repo a31fb50 *)

Record colctx : Type := mkCol { cc_b : list Z; cc_nz : nzctx; cc_pix : option mbpix }.
Record leftctx : Type := mkLeft { lc_b : list Z; lc_nz : nzctx; lc_pix : option mbpix }.

Definition col0 : colctx := mkCol (rep4 B_DC) nz_zero None.
Definition left0 : leftctx := mkLeft (rep4 B_DC) nz_zero None.

(** one macroblock row: header from the first partition [d0], tokens from [dt] *)
Fixpoint row_loop (qk : quirks) (h : frame_hdr) (cols : list colctx) (left : leftctx)
  (aboveleft : option mbpix) (d0 dt : bdec)
  : list colctx * list (mbpix * finfo) * bdec * bdec :=
  match cols with
  | [] => ([], [], d0, dt)
  | c :: rest =>
    let '(mh, nb_above, nb_left, d0) := parse_mb_hdr h (cc_b c) (lc_b left) d0 in
    let is4 := mh_is4 mh in
    let '(res, na, nl, dt) :=
      if mh_skip mh then
        (zero_res (negb is4), skip_ctx is4 (cc_nz c), skip_ctx is4 (lc_nz left), dt)
      else parse_residuals (fh_probs h) (seg_dq h (mh_seg mh)) is4 (cc_nz c) (lc_nz left) dt in
    let ar := match rest with c' :: _ => cc_pix c' | [] => None end in
    let pix := recon_mb mh res (mk_edges (cc_pix c) (lc_pix left) aboveleft ar) in
    let has_coeffs := if qk_inner_by_flag qk then negb (mh_skip mh) else r_any res in
    let fi := mkFi (lf_mb_params (negb (qk_no_mid_clamp qk)) h (mh_seg mh) is4) (is4 || has_coeffs) in
    let '(cols', out, d0, dt) :=
      row_loop qk h rest (mkLeft nb_left nl (Some pix)) (cc_pix c) d0 dt in
    (mkCol nb_above na (Some pix) :: cols', (pix, fi) :: out, d0, dt)
  end.

Fixpoint set_nth {A} (n : nat) (a : A) (l : list A) : list A :=
  match l with
  | [] => []
  | x :: tl => match n with O => a :: tl | S m => x :: set_nth m a tl end
  end.

Fixpoint rows_loop (qk : quirks) (h : frame_hdr) (nrows : nat) (mby : Z) (cols : list colctx)
  (d0 : bdec) (parts : list bdec) : list (list (mbpix * finfo)) * bdec * list bdec :=
  match nrows with
  | O => ([], d0, parts)
  | S n =>
    let pi := Z.to_nat (mby mod Z.of_nat (length parts)) in
    let '(cols', out, d0, dt) := row_loop qk h cols left0 None d0 (nth pi parts (bd_init [])) in
    let '(outs, d0, parts) := rows_loop qk h n (mby + 1) cols' d0 (set_nth pi dt parts) in
    (out :: outs, d0, parts)
  end.

Record decoded : Type := mkDecoded {
  dc_w : Z; dc_h : Z;
  dc_unfiltered : planes; dc_filtered : planes;
  dc_past_end : bool;   (* some bool was decoded from beyond the end of its partition *)
  dc_hdr : frame_hdr }.

Definition decode_gen (qk : quirks) (data : list Z) : Res decoded :=
  ly <- parse_layout data ;;
  let '(h, d0) := parse_part1_hdr (qk_seg_abs_default qk) (ly_w ly) (ly_h ly) (ly_xs ly) (ly_ys ly)
                    (bd_init (ly_part1 ly)) in
  parts <- token_parts (fh_log2parts h) (ly_rest ly) ;;
  let mbw := (fh_w h + 15) / 16 in
  let mbh := (fh_h h + 15) / 16 in
  let '(rows, d0, ps) := rows_loop qk h (Z.to_nat mbh) 0 (repeat col0 (Z.to_nat mbw)) d0
                           (map bd_init parts) in
  let unf := map (map fst) rows in
  let lf := fh_lf h in
  let filt := if lf_level lf =? 0 then unf else filter_frame (lf_is_simple lf) rows in
  Ok (mkDecoded (fh_w h) (fh_h h) (planes_of (fh_w h) (fh_h h) unf) (planes_of (fh_w h) (fh_h h) filt)
        (bd_past d0 || existsb bd_past ps) h).

Definition decode (data : list Z) : Res decoded := decode_gen rfc_quirks data.
Definition decode_go (data : list Z) : Res decoded := decode_gen go_quirks data.
Definition decode_unfiltered (data : list Z) : Res (Z * Z * planes) :=
  r <- decode data ;; Ok (dc_w r, dc_h r, dc_unfiltered r).

(** Stable entry point for other properties (C02 conformance runner): the planes after
    the loop filter, cropped to the visible size, each as one flat list in raster
    order (Y: w*h samples; U, V: ((w+1)/2)*((h+1)/2) samples).  A stream that can only
    be decoded by reading bits beyond the end of a partition is an error (E_TRUNC). *)
Definition decode_yuv (data : list Z) : Res (Z * Z * list Z * list Z * list Z) :=
  r <- decode data ;;
  if dc_past_end r then Err E_TRUNC else
  let p := dc_filtered r in
  Ok (dc_w r, dc_h r, concat (pl_y p), concat (pl_u p), concat (pl_v p)).
