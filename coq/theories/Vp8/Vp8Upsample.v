(** Fancy (9-3-3-1) chroma upsampling of one pair of rows and the fixed-point
    YUV -> RGB conversion (internal/dsp/upsample.go, yuv.go).  Reference
    definitions per channel, models of the Go formulas (U and V packed in one
    uint32; clip through a table), and proofs that they coincide. *)
From Coq Require Import List ZArith Lia Bool.
From Webp Require Import Vp8.Vp8Bool Vp8.Vp8Syntax.
Import ListNotations.
Open Scope Z_scope.

Ltac Zify.zify_post_hook ::= Z.div_mod_to_equations.

(** * reference *)
Definition tap9331 (a b c d : Z) : Z := (9 * a + 3 * b + 3 * c + d + 8) / 16.
Definition tap31 (a b : Z) : Z := (3 * a + b + 2) / 4.

Definition mult_hi (v c : Z) : Z := (v * c) / 256.
Definition yuv_clip8 (v : Z) : Z := if v <? 0 then 0 else if 16383 <? v then 255 else v / 64.
Definition yuv_r (y v : Z) : Z := yuv_clip8 (mult_hi y 19077 + mult_hi v 26149 - 14234).
Definition yuv_g (y u v : Z) : Z := yuv_clip8 (mult_hi y 19077 - mult_hi u 6419 - mult_hi v 13320 + 8708).
Definition yuv_b (y u : Z) : Z := yuv_clip8 (mult_hi y 19077 + mult_hi u 33050 - 17685).
Definition yuv_rgb (y u v : Z) : list Z := [yuv_r y v; yuv_g y u v; yuv_b y u].

(** one pair of rows: chroma rows of length (w+1)/2, luma rows of length w (the
    bottom luma row is absent for the last row of an odd-height picture).
    Sample x > 0 of the top row takes 9 parts of the nearest chroma sample of
    the top chroma row, 3 of its horizontal and 3 of its vertical neighbour, 1
    of the diagonal one; sample 0 and (for even widths) the last sample have no
    horizontal neighbour: 3 parts / 1 part vertically. *)
Definition chroma_at (near far : list Z) (w x : Z) : Z :=
  let n i := nthZ near i 0 in let f i := nthZ far i 0 in
  if (x =? 0) then tap31 (n 0) (f 0)
  else if (x =? w - 1) && Z.even w then tap31 (n ((w - 1) / 2)) (f ((w - 1) / 2))
  else
    let k := (x + 1) / 2 in   (* pixel pair index: samples 2k-1 and 2k lie between chroma k-1 and k *)
    if Z.odd x then tap9331 (n (k - 1)) (n k) (f (k - 1)) (f k)
    else tap9331 (n k) (n (k - 1)) (f k) (f (k - 1)).

Definition upsample_row (y near_u near_v far_u far_v : list Z) : list Z :=
  let w := Z.of_nat (length y) in
  concat (map (fun '(x, yy) =>
                 yuv_rgb yy (chroma_at near_u far_u w x) (chroma_at near_v far_v w x))
              (combine (zrange 0 w) y)).

Definition upsample_pair (top_y : list Z) (bot_y : option (list Z)) (top_u top_v bot_u bot_v : list Z)
  : list Z * option (list Z) :=
  (upsample_row top_y top_u top_v bot_u bot_v,
   match bot_y with
   | Some by_ => Some (upsample_row by_ bot_u bot_v top_u top_v)
   | None => None
   end).

(** * Go formulas *)
Definition pack (u v : Z) : Z := u + 65536 * v.
Definition lo8 (x : Z) : Z := x mod 256.
Definition hi8 (x : Z) : Z := (x / 65536) mod 256.
Definition w32 (x : Z) : Z := x mod 4294967296.

(** interior pixel pair: returns the four packed chroma values (top uv0, uv1, bottom uv0, uv1) *)
Definition go_diamond (tl t l cur : Z) : Z * Z * Z * Z :=
  let avg := w32 (tl + t + l + cur + 524296) in            (* 0x00080008 *)
  let diag12 := w32 (avg + 2 * (t + l)) / 8 in
  let diag03 := w32 (avg + 2 * (tl + cur)) / 8 in
  (w32 (diag12 + tl) / 2, w32 (diag03 + t) / 2, w32 (diag03 + l) / 2, w32 (diag12 + cur) / 2).

Definition go_edge (a b : Z) : Z := w32 (3 * a + b + 131074) / 4.   (* 0x00020002 *)

(** clip through vp8kClip: table entry i is min(i >> 6, 255) *)
Definition go_clip_tab (i : Z) : Z := let v := i / 64 in if v <? 0 then 0 else if 255 <? v then 255 else v.
Definition go_yuv_clip (v : Z) : Z := if v <? 0 then 0 else if 16383 <? v then 255 else go_clip_tab v.

(** * proofs *)
Definition byte (x : Z) : Prop := 0 <= x <= 255.

(** lane separation: a packed value is low + 65536 * high with low < 65536; a right
    shift leaks low bits of the high lane into the top of the low lane, where the
    final "& 0xff" never looks *)
Lemma w32_small x : 0 <= x < 4294967296 -> w32 x = x.
Proof. intros H. unfold w32. apply Z.mod_small. exact H. Qed.

Lemma shr_lanes k a b : (k = 2 \/ k = 4 \/ k = 8) -> 0 <= a < 65536 -> 0 <= b ->
  (a + 65536 * b) / k = a / k + (65536 / k) * (b mod k) + 65536 * (b / k).
Proof. intros [ -> | [ -> | -> ] ] Ha Hb; change (65536 / 2) with 32768; change (65536 / 4) with 16384; change (65536 / 8) with 8192; lia. Qed.

Lemma lanes_out s g h : 0 <= s < 8192 -> 0 <= g < 8 -> 0 <= h ->
  lo8 ((s + 8192 * g + 65536 * h) / 2) = (s / 2) mod 256 /\
  hi8 ((s + 8192 * g + 65536 * h) / 2) = (h / 2) mod 256.
Proof. intros Hs Hg Hh. unfold lo8, hi8. split; lia. Qed.

Lemma half_eighth x y : 0 <= x -> (x / 8 + y) / 2 = (x + 8 * y) / 16.
Proof. intros. lia. Qed.

(** one output of the diamond kernel, lanes given separately *)
Lemma diamond_lane au av yu yv :
  0 <= au < 4096 -> 0 <= av < 4096 -> 0 <= yu <= 255 -> 0 <= yv <= 255 ->
  lo8 (w32 (w32 (pack au av) / 8 + pack yu yv) / 2) = ((au + 8 * yu) / 16) mod 256 /\
  hi8 (w32 (w32 (pack au av) / 8 + pack yu yv) / 2) = ((av + 8 * yv) / 16) mod 256.
Proof.
  intros Hau Hav Hyu Hyv. unfold pack.
  rewrite (w32_small (au + 65536 * av)) by lia.
  rewrite (shr_lanes 8 au av) by (auto; lia). change (65536 / 8) with 8192.
  assert (Hg : 0 <= av mod 8 < 8) by (apply Z.mod_pos_bound; lia).
  assert (Hq : 0 <= av / 8 < 512) by lia.
  assert (Ha8 : 0 <= au / 8 < 512) by lia.
  rewrite w32_small by lia.
  replace (au / 8 + 8192 * (av mod 8) + 65536 * (av / 8) + (yu + 65536 * yv))
    with ((au / 8 + yu) + 8192 * (av mod 8) + 65536 * (av / 8 + yv)) by lia.
  destruct (lanes_out (au / 8 + yu) (av mod 8) (av / 8 + yv) ltac:(lia) Hg ltac:(lia)) as [E1 E2].
  rewrite E1, E2, !half_eighth by lia. split; reflexivity.
Qed.

Theorem go_edge_eq : forall au av bu bv, byte au -> byte av -> byte bu -> byte bv ->
  let r := go_edge (pack au av) (pack bu bv) in
  lo8 r = tap31 au bu /\ hi8 r = tap31 av bv.
Proof.
  unfold byte, go_edge. intros au av bu bv Hau Hav Hbu Hbv. cbv zeta.
  replace (3 * pack au av + pack bu bv + 131074) with ((3 * au + bu + 2) + 65536 * (3 * av + bv + 2))
    by (unfold pack; lia).
  rewrite w32_small by lia.
  rewrite (shr_lanes 4) by (auto; lia). change (65536 / 4) with 16384.
  unfold lo8, hi8, tap31. split; lia.
Qed.

Theorem go_diamond_eq : forall tlu tlv tu tv lu lv cu cv,
  byte tlu -> byte tlv -> byte tu -> byte tv -> byte lu -> byte lv -> byte cu -> byte cv ->
  let '(a, b, c, d) := go_diamond (pack tlu tlv) (pack tu tv) (pack lu lv) (pack cu cv) in
  lo8 a = tap9331 tlu tu lu cu /\ hi8 a = tap9331 tlv tv lv cv /\
  lo8 b = tap9331 tu tlu cu lu /\ hi8 b = tap9331 tv tlv cv lv /\
  lo8 c = tap9331 lu tlu cu tu /\ hi8 c = tap9331 lv tlv cv tv /\
  lo8 d = tap9331 cu tu lu tlu /\ hi8 d = tap9331 cv tv lv tlv.
Proof.
  unfold byte. intros tlu tlv tu tv lu lv cu cv H1 H2 H3 H4 H5 H6 H7 H8.
  unfold go_diamond. cbv zeta.
  set (su := tlu + tu + lu + cu + 8). set (sv := tlv + tv + lv + cv + 8).
  assert (Eavg : w32 (pack tlu tlv + pack tu tv + pack lu lv + pack cu cv + 524296) = pack su sv)
    by (rewrite w32_small by (unfold pack; lia); unfold pack, su, sv; lia).
  rewrite Eavg.
  assert (E12 : pack su sv + 2 * (pack tu tv + pack lu lv) = pack (su + 2 * (tu + lu)) (sv + 2 * (tv + lv)))
    by (unfold pack; lia).
  assert (E03 : pack su sv + 2 * (pack tlu tlv + pack cu cv) = pack (su + 2 * (tlu + cu)) (sv + 2 * (tlv + cv)))
    by (unfold pack; lia).
  rewrite E12, E03.
  destruct (diamond_lane (su + 2 * (tu + lu)) (sv + 2 * (tv + lv)) tlu tlv) as [A1 A2]; try (unfold su, sv; lia).
  destruct (diamond_lane (su + 2 * (tlu + cu)) (sv + 2 * (tlv + cv)) tu tv) as [B1 B2]; try (unfold su, sv; lia).
  destruct (diamond_lane (su + 2 * (tlu + cu)) (sv + 2 * (tlv + cv)) lu lv) as [C1 C2]; try (unfold su, sv; lia).
  destruct (diamond_lane (su + 2 * (tu + lu)) (sv + 2 * (tv + lv)) cu cv) as [D1 D2]; try (unfold su, sv; lia).
  rewrite A1, A2, B1, B2, C1, C2, D1, D2. unfold tap9331, su, sv.
  repeat split; (rewrite Z.mod_small by lia; f_equal; lia).
Qed.

Theorem go_yuv_clip_eq : forall v, go_yuv_clip v = yuv_clip8 v.
Proof.
  intros v. unfold go_yuv_clip, yuv_clip8, go_clip_tab. cbv zeta.
  destruct (v <? 0) eqn:E1; [reflexivity|]. destruct (16383 <? v) eqn:E2; [reflexivity|].
  destruct (v / 64 <? 0) eqn:E3; [lia|]. destruct (255 <? v / 64) eqn:E4; [lia|]. reflexivity.
Qed.

(** results are samples *)
Theorem taps_are_bytes : forall a b c d, byte a -> byte b -> byte c -> byte d ->
  byte (tap9331 a b c d) /\ byte (tap31 a b).
Proof. unfold byte, tap9331, tap31. intros. split; lia. Qed.
