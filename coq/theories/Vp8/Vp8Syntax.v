(** VP8 key-frame syntax, written from RFC 6386: frame tag and key-frame start
    (9.1), colour space / clamping (9.2), segmentation (9.3), loop-filter type,
    level, sharpness and deltas (9.6), partition count (9.5), quantiser indices
    (9.6), coefficient probability updates (13.4), mb_no_coeff_skip (9.11),
    per-macroblock header (segment id, skip flag, intra modes with contextual
    sub-block modes: 11.2-11.3), coefficient tokens (13) and dequantisation (14.1). *)
From Coq Require Import List ZArith Lia Bool.
From Webp Require Import Base.Res Vp8.Vp8Bool Vp8.Vp8Tables.
Import ListNotations.
Open Scope Z_scope.

Definition wrap16 (x : Z) : Z := (x + 32768) mod 65536 - 32768.
Definition clampz (lo hi x : Z) : Z := if x <? lo then lo else if hi <? x then hi else x.
Definition nthZ {A} (l : list A) (i : Z) (d : A) : A := nth (Z.to_nat i) l d.

(** * Headers *)

Record seg_hdr : Type := mkSeg {
  sg_enabled : bool; sg_update_map : bool; sg_abs : bool;
  sg_quant : list Z; sg_lf : list Z; sg_probs : list Z }.

Record lf_hdr : Type := mkLf {
  lf_is_simple : bool; lf_level : Z; lf_sharp : Z;
  lf_delta_enabled : bool; lf_ref : list Z; lf_mode : list Z }.

Record q_hdr : Type := mkQ {
  q_base : Z; q_y1dc : Z; q_y2dc : Z; q_y2ac : Z; q_uvdc : Z; q_uvac : Z }.

Record frame_hdr : Type := mkFrame {
  fh_w : Z; fh_h : Z; fh_xscale : Z; fh_yscale : Z;
  fh_color : bool; fh_clamp : bool;
  fh_seg : seg_hdr; fh_lf : lf_hdr; fh_log2parts : Z; fh_q : q_hdr;
  fh_probs : list (list (list (list Z)));
  fh_skip_enabled : bool; fh_skip_prob : Z }.

Fixpoint read_n {A} (n : nat) (f : bdec -> A * bdec) (d : bdec) : list A * bdec :=
  match n with
  | O => ([], d)
  | S m => let '(a, d1) := f d in let '(l, d2) := read_n m f d1 in (a :: l, d2)
  end.

Definition zeros4 : list Z := [0; 0; 0; 0].

(** 9.3.  On a key frame every persistent segment value starts from its default:
    feature data 0 in delta mode, tree probabilities 255.  [abs_default] is
    [false] in the specification; the Go decoder starts from absolute mode
    (see Vp8Spec.go_quirks). *)
Definition parse_seg_hdr (abs_default : bool) (d : bdec) : seg_hdr * bdec :=
  let '(en, d) := read_flag d in
  if negb en then (mkSeg false false false zeros4 zeros4 [255; 255; 255], d) else
  let '(um, d) := read_flag d in
  let '(ud, d) := read_flag d in
  let '(ab, q, lf, d) :=
    if ud then
      let '(a, d) := read_flag d in
      let '(q, d) := read_n 4 (read_opt_signed 7) d in
      let '(l, d) := read_n 4 (read_opt_signed 6) d in
      (a, q, l, d)
    else (abs_default, zeros4, zeros4, d) in
  let '(pr, d) :=
    if um then read_n 3 (fun d => let '(f, d1) := read_flag d in
                                  if f then read_lit 8 d1 else (255, d1)) d
    else ([255; 255; 255], d) in
  (mkSeg true um ab q lf pr, d).

(** 9.6 loop filter: deltas not updated keep their key-frame default 0 *)
Definition parse_lf_hdr (d : bdec) : lf_hdr * bdec :=
  let '(simple, d) := read_flag d in
  let '(level, d) := read_lit 6 d in
  let '(sharp, d) := read_lit 3 d in
  let '(de, d) := read_flag d in
  if negb de then (mkLf simple level sharp false zeros4 zeros4, d) else
  let '(upd, d) := read_flag d in
  if negb upd then (mkLf simple level sharp true zeros4 zeros4, d) else
  let '(r, d) := read_n 4 (read_opt_signed 6) d in
  let '(m, d) := read_n 4 (read_opt_signed 6) d in
  (mkLf simple level sharp true r m, d).

Definition parse_q_hdr (d : bdec) : q_hdr * bdec :=
  let '(b, d) := read_lit 7 d in
  let '(a1, d) := read_opt_signed 4 d in
  let '(a2, d) := read_opt_signed 4 d in
  let '(a3, d) := read_opt_signed 4 d in
  let '(a4, d) := read_opt_signed 4 d in
  let '(a5, d) := read_opt_signed 4 d in
  (mkQ b a1 a2 a3 a4 a5, d).

(** 13.4: each of the 4x8x3x11 probabilities is replaced by an 8-bit literal when
    a flag coded with the corresponding update probability is set. *)
Fixpoint upd_probs1 (l : list (Z * Z)) (d : bdec) : list Z * bdec :=
  match l with
  | [] => ([], d)
  | (up, old) :: tl =>
    let '(f, d1) := read_bool up d in
    let '(v, d2) := if f then read_lit 8 d1 else (old, d1) in
    let '(r, d3) := upd_probs1 tl d2 in (v :: r, d3)
  end.
Fixpoint map_st {A B} (f : A -> bdec -> B * bdec) (l : list A) (d : bdec) : list B * bdec :=
  match l with
  | [] => ([], d)
  | a :: tl => let '(b, d1) := f a d in let '(r, d2) := map_st f tl d1 in (b :: r, d2)
  end.
Definition upd_probs (d : bdec) : list (list (list (list Z))) * bdec :=
  map_st (fun '(u3, o3) =>
    map_st (fun '(u2, o2) =>
      map_st (fun '(u1, o1) => upd_probs1 (combine u1 o1))
        (combine u2 o2))
      (combine u3 o3))
    (combine coeff_update_probs coeff_probs0) d.

(** header fields of the first partition, in order (19.2); the part before the
    probability updates first *)
Definition parse_fixed_hdr (abs_default : bool) (d : bdec)
  : (bool * bool * seg_hdr * lf_hdr * Z * q_hdr) * bdec :=
  let '(cs, d) := read_flag d in
  let '(ct, d) := read_flag d in
  let '(sg, d) := parse_seg_hdr abs_default d in
  let '(lf, d) := parse_lf_hdr d in
  let '(lp, d) := read_lit 2 d in
  let '(q, d) := parse_q_hdr d in
  ((cs, ct, sg, lf, lp, q), d).

Definition parse_part1_hdr (abs_default : bool) (w h xs ys : Z) (d : bdec) : frame_hdr * bdec :=
  let '((cs, ct, sg, lf, lp, q), d) := parse_fixed_hdr abs_default d in
  let '(_, d) := read_flag d in            (* refresh_entropy_probs *)
  let '(pr, d) := upd_probs d in
  let '(sk, d) := read_flag d in
  let '(skp, d) := if sk then read_lit 8 d else (0, d) in
  (mkFrame w h xs ys cs ct sg lf lp q pr sk skp, d).

(** * Frame layout (9.1, 9.5) *)

Definition E_TRUNC := 1%nat.   (* not enough bytes *)
Definition E_NOTKEY := 2%nat.  (* not a key frame *)
Definition E_START := 3%nat.   (* bad start code *)
Definition E_DIMS := 4%nat.    (* zero width or height *)
Definition E_PART := 5%nat.    (* a partition extends beyond the data *)
Definition E_HIDDEN := 6%nat.  (* show_frame = 0: nothing to display (WebP needs a shown key frame) *)
Definition E_VERSION := 7%nat. (* reserved version *)
Definition E_FUEL := 9%nat.

Record layout : Type := mkLayout {
  ly_w : Z; ly_h : Z; ly_xs : Z; ly_ys : Z; ly_version : Z;
  ly_part1 : list Z; ly_rest : list Z }.

Definition parse_layout (data : list Z) : Res layout :=
  match data with
  | b0 :: b1 :: b2 :: s0 :: s1 :: s2 :: w0 :: w1 :: h0 :: h1 :: rest =>
    let tag := b0 + 256 * b1 + 65536 * b2 in
    let key := Z.even tag in
    let version := (tag / 2) mod 8 in
    let show := Z.odd (tag / 16) in
    let psize := tag / 32 in
    if 3 <? version then Err E_VERSION else
    if negb show then Err E_HIDDEN else
    if negb key then Err E_NOTKEY else
    if negb ((s0 =? 157) && (s1 =? 1) && (s2 =? 42)) then Err E_START else
    let w := (w0 + 256 * w1) mod 16384 in
    let h := (h0 + 256 * h1) mod 16384 in
    if (w =? 0) || (h =? 0) then Err E_DIMS else
    if Z.of_nat (length rest) <? psize then Err E_PART else
    Ok (mkLayout w h (w1 / 64) (h1 / 64) version
          (firstn (Z.to_nat psize) rest) (skipn (Z.to_nat psize) rest))
  | _ => Err E_TRUNC
  end.

Definition rd24le (l : list Z) : Z :=
  match l with a :: b :: c :: _ => a + 256 * b + 65536 * c | _ => 0 end.

(** token partitions: (n-1) 3-byte sizes, then the partitions; the last takes the rest *)
Fixpoint split_parts (n : nat) (sizes : list Z) (data : list Z) : Res (list (list Z)) :=
  match n with
  | O => Ok [data]
  | S m =>
    let sz := rd24le sizes in
    if Z.of_nat (length data) <? sz then Err E_PART else
    r <- split_parts m (skipn 3 sizes) (skipn (Z.to_nat sz) data) ;;
    Ok (firstn (Z.to_nat sz) data :: r)
  end.

Definition token_parts (log2n : Z) (rest : list Z) : Res (list (list Z)) :=
  let n := Z.to_nat (2 ^ log2n) in
  let tbl := (3 * (n - 1))%nat in
  if (length rest <? tbl)%nat then Err E_TRUNC else
  split_parts (n - 1) (firstn tbl rest) (skipn tbl rest).

(** * Dequantisation factors (9.6, 14.1) *)

Record dqf : Type := mkDq { dq_y1dc : Z; dq_y1ac : Z; dq_y2dc : Z; dq_y2ac : Z; dq_uvdc : Z; dq_uvac : Z }.

Definition qidx (q : Z) : Z := clampz 0 127 q.

Definition seg_q (h : frame_hdr) (s : Z) : Z :=
  let sg := fh_seg h in
  if sg_enabled sg then
    if sg_abs sg then nthZ (sg_quant sg) s 0 else q_base (fh_q h) + nthZ (sg_quant sg) s 0
  else q_base (fh_q h).

Definition dq_of (qh : q_hdr) (q : Z) : dqf :=
  let dc i := nthZ dc_table (qidx i) 0 in
  let ac i := nthZ ac_table (qidx i) 0 in
  mkDq (dc (q + q_y1dc qh)) (ac q)
       (2 * dc (q + q_y2dc qh)) (Z.max 8 (ac (q + q_y2ac qh) * 155 / 100))
       (Z.min 132 (dc (q + q_uvdc qh))) (ac (q + q_uvac qh)).

Definition seg_dq (h : frame_hdr) (s : Z) : dqf := dq_of (fh_q h) (seg_q h s).

(** * Per-macroblock header (19.3, 11.2, 11.3) *)

Record mb_hdr : Type := mkMbHdr {
  mh_seg : Z; mh_skip : bool; mh_is4 : bool;
  mh_ymode : Z;              (* 16x16 mode when not is4 *)
  mh_bmodes : list (list Z); (* 4 rows of 4 sub-block modes *)
  mh_uvmode : Z }.

Fixpoint bmode_row (above : list Z) (l : Z) (d : bdec) : list Z * bdec :=
  match above with
  | [] => ([], d)
  | a :: tl =>
    let '(m, d1) := read_tree bmode_tree (nthZ (nthZ kf_bmode_probs a []) l []) d in
    let '(ms, d2) := bmode_row tl m d1 in (m :: ms, d2)
  end.

Fixpoint bmode_rows (above : list Z) (lefts : list Z) (d : bdec)
  : list (list Z) * list Z * list Z * bdec :=
  match lefts with
  | [] => ([], above, [], d)
  | l :: tl =>
    let '(row, d1) := bmode_row above l d in
    let '(rows, ab, ls, d2) := bmode_rows row tl d1 in
    (row :: rows, ab, last row l :: ls, d2)
  end.

(** the sub-block mode that a 16x16 mode stands for in later contexts *)
Definition bmode_of_ymode (m : Z) : Z :=
  if m =? DC_PRED then B_DC else if m =? V_PRED then B_VE
  else if m =? H_PRED then B_HE else B_TM.

Definition rep4 (m : Z) : list Z := [m; m; m; m].

Definition parse_mb_hdr (h : frame_hdr) (above_b left_b : list Z) (d : bdec)
  : mb_hdr * list Z * list Z * bdec :=
  let '(seg, d) :=
    if sg_update_map (fh_seg h) then read_tree segment_tree (sg_probs (fh_seg h)) d else (0, d) in
  let '(skip, d) :=
    if fh_skip_enabled h then read_bool (fh_skip_prob h) d else (false, d) in
  let '(ym, d) := read_tree kf_ymode_tree kf_ymode_probs d in
  match ym with
  | None =>
    let '(rows, ab, ls, d) := bmode_rows above_b left_b d in
    let '(uv, d) := read_tree uv_mode_tree kf_uv_mode_probs d in
    (mkMbHdr seg skip true 0 rows uv, ab, ls, d)
  | Some m =>
    let b := bmode_of_ymode m in
    let '(uv, d) := read_tree uv_mode_tree kf_uv_mode_probs d in
    (mkMbHdr seg skip false m [] uv, rep4 b, rep4 b, d)
  end.

(** * Coefficient tokens (13) *)

(** extra bits of a value category, most significant first *)
Fixpoint read_extra (ps : list Z) (acc : Z) (d : bdec) : Z * bdec :=
  match ps with
  | [] => (acc, d)
  | p :: tl => let '(b, d1) := read_bool p d in read_extra tl (2 * acc + (if b then 1 else 0)) d1
  end.

(** [tokens fuel tp n ctx noeob d acc]: tokens of one block from zig-zag position n;
    tp = probabilities of the block type, indexed band, context, node.
    Result: (position, signed value) list, end-of-block position. *)
Fixpoint tokens (fuel : nat) (tp : list (list (list Z))) (n ctx : Z) (noeob : bool)
  (d : bdec) (acc : list (Z * Z)) : list (Z * Z) * Z * bdec :=
  match fuel with
  | O => (acc, n, d)
  | S f =>
    if 16 <=? n then (acc, 16, d) else
    let p := nthZ (nthZ tp (nthZ bands n 0) []) ctx [] in
    let '(more, d1) := if noeob then (true, d) else read_bool (nth 0 p 0) d in
    if negb more then (acc, n, d1) else
    let '(nz, d2) := read_bool (nth 1 p 0) d1 in
    if negb nz then tokens f tp (n + 1) 0 true d2 acc else
    let '((base, extra), d3) := read_tree value_tree p d2 in
    let '(e, d4) := read_extra extra 0 d3 in
    let v := base + e in
    let '(neg, d5) := read_flag d4 in
    tokens f tp (n + 1) (if v =? 1 then 1 else 2) false d5 ((n, if neg then - v else v) :: acc)
  end.

Fixpoint tok_lookup (toks : list (Z * Z)) (n : Z) : Z :=
  match toks with
  | [] => 0
  | (m, v) :: tl => if m =? n then v else tok_lookup tl n
  end.

(** position in zig-zag order of each raster index *)
Definition unzig : list Z := [0; 1; 5; 6; 2; 4; 7; 12; 3; 8; 11; 13; 9; 10; 14; 15].

(** dequantised coefficients in raster order, stored on 16 bits *)
Definition dequant_block (toks : list (Z * Z)) (dqdc dqac : Z) : list Z :=
  map (fun n => let v := tok_lookup toks n in
                if v =? 0 then 0 else wrap16 (v * (if n =? 0 then dqdc else dqac))) unzig.

Definition decode_block (tp : list (list (list Z))) (first ctx dqdc dqac : Z) (d : bdec)
  : list Z * Z * bdec :=
  let '(toks, eob, d1) := tokens 17 tp first ctx false d [] in
  (dequant_block toks dqdc dqac, eob, d1).

(** blocks of one plane in raster order with left/above "has coefficients" contexts *)
Fixpoint blk_row (f : Z -> bdec -> list Z * Z * bdec) (first : Z) (above : list Z) (l : Z) (d : bdec)
  : list (list Z) * list Z * Z * bool * bdec :=
  match above with
  | [] => ([], [], l, false, d)
  | a :: tl =>
    let '(c, eob, d1) := f (l + a) d in
    let fl := if first <? eob then 1 else 0 in
    let '(cs, ab, l', any, d2) := blk_row f first tl fl d1 in
    (c :: cs, fl :: ab, l', orb (first <? eob) any, d2)
  end.

Fixpoint blk_rows (f : Z -> bdec -> list Z * Z * bdec) (first : Z) (above lefts : list Z) (d : bdec)
  : list (list Z) * list Z * list Z * bool * bdec :=
  match lefts with
  | [] => ([], above, [], false, d)
  | l :: tl =>
    let '(cs, ab, l', any, d1) := blk_row f first above l d in
    let '(css, ab2, ls, any2, d2) := blk_rows f first ab tl d1 in
    (cs ++ css, ab2, l' :: ls, orb any any2, d2)
  end.

Record nzctx : Type := mkNz { nz_y : list Z; nz_u : list Z; nz_v : list Z; nz_y2 : Z }.
Definition nz_zero : nzctx := mkNz zeros4 [0; 0] [0; 0] 0.

Record mb_res : Type := mkRes {
  r_y2 : option (list Z);    (* 16 dequantised Y2 coefficients *)
  r_y : list (list Z);       (* 16 luma blocks (position 0 empty when Y2 is present) *)
  r_u : list (list Z); r_v : list (list Z);
  r_any : bool }.            (* some block has a token before its end-of-block *)

Definition zero_block : list Z := repeat 0 16.
Definition zero_res (has_y2 : bool) : mb_res :=
  mkRes (if has_y2 then Some zero_block else None) (repeat zero_block 16)
        (repeat zero_block 4) (repeat zero_block 4) false.

(** block types: 0 = Y after Y2, 1 = Y2, 2 = chroma, 3 = Y with DC *)
Definition parse_residuals (probs : list (list (list (list Z)))) (q : dqf) (is4 : bool)
  (above left : nzctx) (d : bdec) : mb_res * nzctx * nzctx * bdec :=
  let tp t := nthZ probs t [] in
  let '(y2, a2, l2, any0, first, ytype, d) :=
    if is4 then (None, nz_y2 above, nz_y2 left, false, 0, 3, d)
    else
      let '(c, eob, d1) := decode_block (tp 1) 0 (nz_y2 above + nz_y2 left) (dq_y2dc q) (dq_y2ac q) d in
      let fl := if 0 <? eob then 1 else 0 in
      (Some c, fl, fl, (0 <? eob), 1, 0, d1) in
  let '(ys, ay, ly, any1, d) :=
    blk_rows (fun ctx => decode_block (tp ytype) first ctx (dq_y1dc q) (dq_y1ac q)) first
             (nz_y above) (nz_y left) d in
  let fuv := fun ctx => decode_block (tp 2) 0 ctx (dq_uvdc q) (dq_uvac q) in
  let '(us, au, lu, any2, d) := blk_rows fuv 0 (nz_u above) (nz_u left) d in
  let '(vs, av, lv, any3, d) := blk_rows fuv 0 (nz_v above) (nz_v left) d in
  (mkRes y2 ys us vs (any0 || any1 || any2 || any3),
   mkNz ay au av a2, mkNz ly lu lv l2, d).

(** a macroblock without coefficient data: contexts are cleared; the Y2 context is
    left alone when the macroblock has no Y2 block (B_PRED) *)
Definition skip_ctx (is4 : bool) (c : nzctx) : nzctx :=
  mkNz zeros4 [0; 0] [0; 0] (if is4 then nz_y2 c else 0).
