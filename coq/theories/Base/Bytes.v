(** Bytes as [Z] in [0,256); little-endian 16/24/32-bit fields as the RIFF
    container uses them (binary.LittleEndian.Uint32, putLE24, ...). *)
From Coq Require Import List ZArith Lia Bool.
Import ListNotations.
Open Scope Z_scope.

Ltac Zify.zify_post_hook ::= Z.div_mod_to_equations.

Definition byte := Z.
Definition is_byte (b : Z) : Prop := 0 <= b < 256.
Definition bytes_ok (l : list Z) : Prop := Forall is_byte l.

Definition le16 (v : Z) : list Z := [v mod 256; (v / 256) mod 256].
Definition le24 (v : Z) : list Z := [v mod 256; (v / 256) mod 256; (v / 65536) mod 256].
Definition le32 (v : Z) : list Z :=
  [v mod 256; (v / 256) mod 256; (v / 65536) mod 256; (v / 16777216) mod 256].

Definition rd16 (l : list Z) : Z :=
  match l with a :: b :: _ => a + 256 * b | _ => 0 end.
Definition rd24 (l : list Z) : Z :=
  match l with a :: b :: c :: _ => a + 256 * b + 65536 * c | _ => 0 end.
Definition rd32 (l : list Z) : Z :=
  match l with a :: b :: c :: d :: _ => a + 256 * b + 65536 * c + 16777216 * d | _ => 0 end.

Lemma le16_length v : length (le16 v) = 2%nat. Proof. reflexivity. Qed.
Lemma le24_length v : length (le24 v) = 3%nat. Proof. reflexivity. Qed.
Lemma le32_length v : length (le32 v) = 4%nat. Proof. reflexivity. Qed.

Lemma le16_bytes v : bytes_ok (le16 v).
Proof. unfold le16, bytes_ok, is_byte. repeat constructor; lia. Qed.
Lemma le24_bytes v : bytes_ok (le24 v).
Proof. unfold le24, bytes_ok, is_byte. repeat constructor; lia. Qed.
Lemma le32_bytes v : bytes_ok (le32 v).
Proof. unfold le32, bytes_ok, is_byte. repeat constructor; lia. Qed.

Lemma rd16_le16 v tl : 0 <= v < 65536 -> rd16 (le16 v ++ tl) = v.
Proof. intros H. unfold le16, rd16. cbn [app]. lia. Qed.
Lemma rd24_le24 v tl : 0 <= v < 16777216 -> rd24 (le24 v ++ tl) = v.
Proof. intros H. unfold le24, rd24. cbn [app]. lia. Qed.
Lemma rd32_le32 v tl : 0 <= v < 4294967296 -> rd32 (le32 v ++ tl) = v.
Proof. intros H. unfold le32, rd32. cbn [app]. lia. Qed.

(** What a truncating write stores when the value does not fit (uint32(v),
    putLE24 of a too-large value): the low bits. *)
Lemma rd24_le24_wrap v tl : rd24 (le24 v ++ tl) = v mod 16777216.
Proof. unfold le24, rd24. cbn [app]. lia. Qed.
Lemma rd32_le32_wrap v tl : rd32 (le32 v ++ tl) = v mod 4294967296.
Proof. unfold le32, rd32. cbn [app]. lia. Qed.

Lemma rd32_bound a b c d tl : is_byte a -> is_byte b -> is_byte c -> is_byte d ->
  0 <= rd32 (a :: b :: c :: d :: tl) < 4294967296.
Proof. unfold is_byte, rd32. lia. Qed.
Lemma rd24_bound a b c tl : is_byte a -> is_byte b -> is_byte c ->
  0 <= rd24 (a :: b :: c :: tl) < 16777216.
Proof. unfold is_byte, rd24. lia. Qed.
Lemma rd16_bound a b tl : is_byte a -> is_byte b -> 0 <= rd16 (a :: b :: tl) < 65536.
Proof. unfold is_byte, rd16. lia. Qed.

(** firstn/skipn helpers used by every slice-based parser model. *)
Lemma firstn_app_exact {A} (l1 l2 : list A) : firstn (length l1) (l1 ++ l2) = l1.
Proof. induction l1 as [|a l1 IH]; cbn; [destruct l2; reflexivity|f_equal; exact IH]. Qed.
Lemma skipn_app_exact {A} (l1 l2 : list A) : skipn (length l1) (l1 ++ l2) = l2.
Proof. induction l1 as [|a l1 IH]; cbn; [reflexivity|exact IH]. Qed.

Lemma bytes_ok_app l1 l2 : bytes_ok (l1 ++ l2) <-> bytes_ok l1 /\ bytes_ok l2.
Proof. unfold bytes_ok. apply Forall_app. Qed.

Lemma bytes_ok_firstn n l : bytes_ok l -> bytes_ok (firstn n l).
Proof.
  unfold bytes_ok. rewrite !Forall_forall. intros H x Hx. apply H.
  rewrite <- (firstn_skipn n l). apply in_or_app. left; exact Hx.
Qed.
Lemma bytes_ok_skipn n l : bytes_ok l -> bytes_ok (skipn n l).
Proof.
  unfold bytes_ok. rewrite !Forall_forall. intros H x Hx. apply H.
  rewrite <- (firstn_skipn n l). apply in_or_app. right; exact Hx.
Qed.
