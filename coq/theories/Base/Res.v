(** Outcome type shared by every implementation model: a Go call either
    returns a value, returns an error, or panics (index/slice out of range,
    nil dereference).  [Panic] is a distinct outcome so that "never panics" is a
    statement about the model and not an artefact of totalisation. *)
From Coq Require Import List ZArith Lia.
Import ListNotations.

Inductive Res (A : Type) : Type :=
| Ok (a : A)
| Err (e : nat)
| Panic.
Arguments Ok {A} a.
Arguments Err {A} e.
Arguments Panic {A}.

Definition bind {A B} (r : Res A) (f : A -> Res B) : Res B :=
  match r with
  | Ok a => f a
  | Err e => Err e
  | Panic => Panic
  end.

Notation "x <- r ;; k" := (bind r (fun x => k))
  (at level 61, r at next level, right associativity).
Notation "' p <- r ;; k" := (bind r (fun p => k))
  (at level 61, p pattern, r at next level, right associativity).

Definition is_panic {A} (r : Res A) : bool :=
  match r with Panic => true | _ => false end.
Definition is_ok {A} (r : Res A) : bool :=
  match r with Ok _ => true | _ => false end.

Lemma bind_not_panic {A B} (r : Res A) (f : A -> Res B) :
  r <> Panic -> (forall a, r = Ok a -> f a <> Panic) -> bind r f <> Panic.
Proof.
  destruct r as [a|e|]; cbn; intros Hr Hf; [apply Hf; reflexivity|discriminate|congruence].
Qed.

Lemma bind_ok_inv {A B} (r : Res A) (f : A -> Res B) b :
  bind r f = Ok b -> exists a, r = Ok a /\ f a = Ok b.
Proof. destruct r as [a|e|]; cbn; intros H; try discriminate; eauto. Qed.

(** Go slice expression [s[lo:hi]] on a list: panics unless 0 <= lo <= hi <= len. *)
Definition slice {A} (l : list A) (lo hi : Z) : Res (list A) :=
  if ((0 <=? lo) && (lo <=? hi) && (hi <=? Z.of_nat (length l)))%Z%bool
  then Ok (firstn (Z.to_nat (hi - lo)) (skipn (Z.to_nat lo) l))
  else Panic.

(** Go index expression [s[i]]. *)
Definition index {A} (l : list A) (i : Z) : Res A :=
  if ((0 <=? i) && (i <? Z.of_nat (length l)))%Z%bool
  then match nth_error l (Z.to_nat i) with Some a => Ok a | None => Panic end
  else Panic.

Lemma slice_ok {A} (l : list A) lo hi :
  (0 <= lo <= hi)%Z -> (hi <= Z.of_nat (length l))%Z ->
  slice l lo hi = Ok (firstn (Z.to_nat (hi - lo)) (skipn (Z.to_nat lo) l)).
Proof.
  intros [H1 H2] H3. unfold slice.
  destruct (Z.leb_spec 0 lo); try lia.
  destruct (Z.leb_spec lo hi); try lia.
  destruct (Z.leb_spec hi (Z.of_nat (length l))); try lia. reflexivity.
Qed.

Lemma slice_length {A} (l : list A) lo hi s :
  slice l lo hi = Ok s -> Z.of_nat (length s) = (hi - lo)%Z.
Proof.
  unfold slice.
  destruct (Z.leb_spec 0 lo); cbn; try discriminate.
  destruct (Z.leb_spec lo hi); cbn; try discriminate.
  destruct (Z.leb_spec hi (Z.of_nat (length l))); cbn; try discriminate.
  intros [= <-]. rewrite firstn_length, skipn_length. lia.
Qed.

Lemma index_ok {A} (l : list A) i :
  (0 <= i < Z.of_nat (length l))%Z -> exists a, index l i = Ok a.
Proof.
  intros H. unfold index.
  destruct (Z.leb_spec 0 i); try lia.
  destruct (Z.ltb_spec i (Z.of_nat (length l))); try lia. cbn.
  destruct (nth_error l (Z.to_nat i)) eqn:E; eauto.
  apply nth_error_None in E. lia.
Qed.
