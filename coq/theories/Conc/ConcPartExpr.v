(** C12 — the spawn arithmetic of every go statement as EVALUATED expressions.

    tools/gosrc2v/partshapes.go evaluates the statements on the path to each go statement
    symbolically and emits, per site, three arithmetic expressions (Gen/PartShapes.v): the
    number of spawn-loop iterations [s_nw] (over "#n", what GOMAXPROCS returned, and free
    variables), and the range [s_start, s_stop) handed to worker "#w".  Nothing about the way
    the code is written is compared.  This file gives the expressions a semantics and decides
    exact cover in two ways:

    - [sweep] / [sweep_sound]: for every assignment of the free variables from a finite grid
      and every n in a finite list, the ranges of the site tile — exactly once — the interval
      that ONE worker (n = 1) covers.  Bounded; the bound is in the statement.
    - [certify] / [certify_sound]: a certifier that recognises three families SEMANTICALLY
      (by an affine decomposition of the expressions in "#w", whatever their syntax):
      clipped chunks [lo + w*c, min(lo + (w+1)*c, hi)) with c a ceiling of (hi-lo)/N written
      in any of the usual ways, floor chunks whose last worker takes the remainder, and
      proportional bounds [w*T/N, (w+1)*T/N).  For a certified site exact cover holds for
      ALL values of the free variables and ALL n (under N >= 1 and a non-empty-domain
      side condition that the certificate names). *)
From Coq Require Import String List ZArith Lia Bool.
From Webp Require Import Conc.ConcPartition Conc.ConcPartitionProofs.
Import ListNotations.
Open Scope Z_scope.

Inductive cmpop := OLt | OLe | OGt | OGe | OEq | ONe.

Inductive pexpr : Type :=
| PVar (v : string)
| PConst (z : Z)
| PAdd (a b : pexpr)
| PSub (a b : pexpr)
| PMul (a b : pexpr)
| PDiv (a b : pexpr)
| PMod (a b : pexpr)
| PMin (a b : pexpr)
| PMax (a b : pexpr)
| PIf (o : cmpop) (a b x y : pexpr).   (* if a o b then x else y *)

Definition env := list (string * Z).

Fixpoint lookup (e : env) (v : string) : Z :=
  match e with
  | [] => 0
  | (k, z) :: tl => if String.eqb k v then z else lookup tl v
  end.

Definition cmp (o : cmpop) (a b : Z) : bool :=
  match o with
  | OLt => a <? b | OLe => a <=? b | OGt => a >? b | OGe => a >=? b
  | OEq => a =? b | ONe => negb (a =? b)
  end.

Fixpoint eval (e : env) (x : pexpr) : Z :=
  match x with
  | PVar v => lookup e v
  | PConst z => z
  | PAdd a b => eval e a + eval e b
  | PSub a b => eval e a - eval e b
  | PMul a b => eval e a * eval e b
  | PDiv a b => eval e a / eval e b
  | PMod a b => eval e a mod eval e b
  | PMin a b => Z.min (eval e a) (eval e b)
  | PMax a b => Z.max (eval e a) (eval e b)
  | PIf o a b x y => if cmp o (eval e a) (eval e b) then eval e x else eval e y
  end.

Record site := mkSite {
  s_file : string; s_fn : string; s_kind : string;
  s_nw : pexpr; s_start : pexpr; s_stop : pexpr;
  s_break : bool; s_vars : list string }.

Definition vN : string := "#n".
Definition vW : string := "#w".

Definition raw_ranges (s : site) (e : env) (n : Z) : list range :=
  let en := (vN, n) :: e in
  map (fun w => (eval ((vW, w) :: en) (s_start s), eval ((vW, w) :: en) (s_stop s)))
      (zrange (eval en (s_nw s))).

Definition site_ranges (s : site) (e : env) (n : Z) : list range :=
  if s_break s then take_nonempty (raw_ranges s e n) else raw_ranges s e n.

(** ** Bounded decision: sweep *)

(** the interval spanned by the non-empty ranges (what one worker covers when n = 1) *)
Fixpoint hull_from (rs : list range) (acc : option range) : option range :=
  match rs with
  | [] => acc
  | r :: tl =>
      if snd r <=? fst r then hull_from tl acc
      else hull_from tl (match acc with
                         | None => Some r
                         | Some a => Some (Z.min (fst a) (fst r), Z.max (snd a) (snd r))
                         end)
  end.
Definition hull (rs : list range) : range :=
  match hull_from rs None with Some r => r | None => (0, 0) end.

Definition domain1 (s : site) (e : env) : range := hull (site_ranges s e 1).

Definition tiles_at (s : site) (e : env) (n : Z) : bool :=
  is_tiling (site_ranges s e n) (fst (domain1 s e)) (snd (domain1 s e)).

Fixpoint assigns (vars : list string) (grid : list Z) : list env :=
  match vars with
  | [] => [[]]
  | v :: tl => flat_map (fun z => map (fun e => (v, z) :: e) (assigns tl grid)) grid
  end.

Definition sweep (s : site) (grid ns : list Z) : bool :=
  forallb (fun e => forallb (fun n => tiles_at s e n) ns) (assigns (s_vars s) grid).

Lemma assigns_complete vars grid : forall vals,
  length vals = length vars -> Forall (fun z => In z grid) vals ->
  In (combine vars vals) (assigns vars grid).
Proof.
  induction vars as [|v tl IH]; intros vals Hlen Hall.
  - destruct vals; [left; reflexivity|discriminate].
  - destruct vals as [|z vals]; [discriminate|]. inversion Hall; subst.
    cbn [combine assigns]. apply in_flat_map. exists z. split; [assumption|].
    apply in_map. apply IH; [cbn in Hlen; lia|assumption].
Qed.

Theorem sweep_sound : forall s grid ns, sweep s grid ns = true ->
  forall vals n, length vals = length (s_vars s) -> Forall (fun z => In z grid) vals -> In n ns ->
  let e := combine (s_vars s) vals in
  exact_partition (site_ranges s e n) (fst (domain1 s e)) (snd (domain1 s e)).
Proof.
  intros s grid ns H vals n Hlen Hall Hn e.
  unfold sweep in H. rewrite forallb_forall in H.
  specialize (H e (assigns_complete _ _ _ Hlen Hall)).
  rewrite forallb_forall in H. specialize (H n Hn).
  apply is_tiling_sound. exact H.
Qed.

(** ** Expressions: syntactic tools with semantic guarantees *)

Definition cmpop_eqb (a b : cmpop) : bool :=
  match a, b with
  | OLt, OLt | OLe, OLe | OGt, OGt | OGe, OGe | OEq, OEq | ONe, ONe => true
  | _, _ => false
  end.

(** equality up to commutativity of + * min max; sound for [eval] *)
Fixpoint peqb (x y : pexpr) : bool :=
  match x, y with
  | PVar a, PVar b => String.eqb a b
  | PConst a, PConst b => a =? b
  | PAdd a b, PAdd c d => (peqb a c && peqb b d) || (peqb a d && peqb b c)
  | PMul a b, PMul c d => (peqb a c && peqb b d) || (peqb a d && peqb b c)
  | PMin a b, PMin c d => (peqb a c && peqb b d) || (peqb a d && peqb b c)
  | PMax a b, PMax c d => (peqb a c && peqb b d) || (peqb a d && peqb b c)
  | PSub a b, PSub c d => peqb a c && peqb b d
  | PDiv a b, PDiv c d => peqb a c && peqb b d
  | PMod a b, PMod c d => peqb a c && peqb b d
  | PIf o a b p q, PIf o' a' b' p' q' =>
      cmpop_eqb o o' && peqb a a' && peqb b b' && peqb p p' && peqb q q'
  | _, _ => false
  end.

Lemma peqb_sound : forall x y, peqb x y = true -> forall e, eval e x = eval e y.
Proof.
  induction x; destruct y; cbn [peqb]; try discriminate; intros H e; cbn [eval].
  - apply String.eqb_eq in H. now subst.
  - apply Z.eqb_eq in H. now subst.
  - apply orb_true_iff in H. destruct H as [H|H]; apply andb_true_iff in H; destruct H as [H1 H2].
    + rewrite (IHx1 _ H1 e), (IHx2 _ H2 e). reflexivity.
    + rewrite (IHx1 _ H1 e), (IHx2 _ H2 e). lia.
  - apply andb_true_iff in H. destruct H as [H1 H2]. rewrite (IHx1 _ H1 e), (IHx2 _ H2 e). reflexivity.
  - apply orb_true_iff in H. destruct H as [H|H]; apply andb_true_iff in H; destruct H as [H1 H2].
    + rewrite (IHx1 _ H1 e), (IHx2 _ H2 e). reflexivity.
    + rewrite (IHx1 _ H1 e), (IHx2 _ H2 e). lia.
  - apply andb_true_iff in H. destruct H as [H1 H2]. rewrite (IHx1 _ H1 e), (IHx2 _ H2 e). reflexivity.
  - apply andb_true_iff in H. destruct H as [H1 H2]. rewrite (IHx1 _ H1 e), (IHx2 _ H2 e). reflexivity.
  - apply orb_true_iff in H. destruct H as [H|H]; apply andb_true_iff in H; destruct H as [H1 H2].
    + rewrite (IHx1 _ H1 e), (IHx2 _ H2 e). reflexivity.
    + rewrite (IHx1 _ H1 e), (IHx2 _ H2 e). lia.
  - apply orb_true_iff in H. destruct H as [H|H]; apply andb_true_iff in H; destruct H as [H1 H2].
    + rewrite (IHx1 _ H1 e), (IHx2 _ H2 e). reflexivity.
    + rewrite (IHx1 _ H1 e), (IHx2 _ H2 e). lia.
  - repeat (apply andb_true_iff in H; destruct H as [H ?]).
    assert (o = o0) by (destruct o, o0; cbn in H; congruence). subst.
    rewrite (IHx1 _ H3 e), (IHx2 _ H2 e), (IHx3 _ H1 e), (IHx4 _ H0 e). reflexivity.
Qed.

Fixpoint has_var (v : string) (x : pexpr) : bool :=
  match x with
  | PVar u => String.eqb v u
  | PConst _ => false
  | PAdd a b | PSub a b | PMul a b | PDiv a b | PMod a b | PMin a b | PMax a b =>
      has_var v a || has_var v b
  | PIf _ a b p q => has_var v a || has_var v b || has_var v p || has_var v q
  end.

Lemma eval_free v z : forall x e, has_var v x = false -> eval ((v, z) :: e) x = eval e x.
Proof.
  induction x; intros e H; cbn [has_var] in H; cbn [eval];
    repeat (apply orb_false_iff in H; destruct H as [H ?]);
    try (rewrite ?IHx1, ?IHx2, ?IHx3, ?IHx4 by assumption; reflexivity).
  - cbn [lookup]. rewrite H. reflexivity.
Qed.

(** smart constructors (constant folding of units only) *)
Definition is_c (z : Z) (x : pexpr) : bool := match x with PConst c => c =? z | _ => false end.
Lemma is_c_spec z x : is_c z x = true -> x = PConst z.
Proof. destruct x; cbn; try discriminate. intros H. apply Z.eqb_eq in H. now subst. Qed.

Definition mkAdd (a b : pexpr) : pexpr := if is_c 0 a then b else if is_c 0 b then a else PAdd a b.
Definition mkSub (a b : pexpr) : pexpr := if is_c 0 b then a else PSub a b.
Definition mkMul (a b : pexpr) : pexpr :=
  if is_c 0 a || is_c 0 b then PConst 0 else if is_c 1 a then b else if is_c 1 b then a else PMul a b.

Lemma mkAdd_eval e a b : eval e (mkAdd a b) = eval e a + eval e b.
Proof.
  unfold mkAdd. destruct (is_c 0 a) eqn:Ea; [apply is_c_spec in Ea; subst; cbn [orb eval]; lia|].
  destruct (is_c 0 b) eqn:Eb; [apply is_c_spec in Eb; subst; cbn [orb eval]; lia|reflexivity].
Qed.
Lemma mkSub_eval e a b : eval e (mkSub a b) = eval e a - eval e b.
Proof. unfold mkSub. destruct (is_c 0 b) eqn:Eb; [apply is_c_spec in Eb; subst; cbn [orb eval]; lia|reflexivity]. Qed.
Lemma mkMul_eval e a b : eval e (mkMul a b) = eval e a * eval e b.
Proof.
  unfold mkMul. destruct (is_c 0 a) eqn:Ea; [apply is_c_spec in Ea; subst; cbn [orb eval]; lia|].
  destruct (is_c 0 b) eqn:Eb; [apply is_c_spec in Eb; subst; cbn [orb eval]; lia|]. cbn [orb].
  destruct (is_c 1 a) eqn:Ea1; [apply is_c_spec in Ea1; subst; cbn [orb eval]; lia|].
  destruct (is_c 1 b) eqn:Eb1; [apply is_c_spec in Eb1; subst; cbn [orb eval]; lia|reflexivity].
Qed.
Lemma mkAdd_free v a b : has_var v a = false -> has_var v b = false -> has_var v (mkAdd a b) = false.
Proof. intros Ha Hb. unfold mkAdd. destruct (is_c 0 a); [exact Hb|]. destruct (is_c 0 b); [exact Ha|]. cbn. now rewrite Ha, Hb. Qed.
Lemma mkSub_free v a b : has_var v a = false -> has_var v b = false -> has_var v (mkSub a b) = false.
Proof. intros Ha Hb. unfold mkSub. destruct (is_c 0 b); [exact Ha|]. cbn. now rewrite Ha, Hb. Qed.
Lemma mkMul_free v a b : has_var v a = false -> has_var v b = false -> has_var v (mkMul a b) = false.
Proof.
  intros Ha Hb. unfold mkMul. destruct (is_c 0 a || is_c 0 b); [reflexivity|].
  destruct (is_c 1 a); [exact Hb|]. destruct (is_c 1 b); [exact Ha|]. cbn. now rewrite Ha, Hb.
Qed.

(** affine decomposition in "#w": [aff x = Some (o, c)] means x = o + #w * c, o and c free of #w *)
Fixpoint aff (x : pexpr) : option (pexpr * pexpr) :=
  if negb (has_var vW x) then Some (x, PConst 0) else
  match x with
  | PVar _ => Some (PConst 0, PConst 1)
  | PAdd a b =>
      match aff a, aff b with
      | Some (oa, ca), Some (ob, cb) => Some (mkAdd oa ob, mkAdd ca cb)
      | _, _ => None
      end
  | PSub a b =>
      match aff a, aff b with
      | Some (oa, ca), Some (ob, cb) => Some (mkSub oa ob, mkSub ca cb)
      | _, _ => None
      end
  | PMul a b =>
      if negb (has_var vW a) then
        match aff b with Some (ob, cb) => Some (mkMul a ob, mkMul a cb) | None => None end
      else if negb (has_var vW b) then
        match aff a with Some (oa, ca) => Some (mkMul oa b, mkMul ca b) | None => None end
      else None
  | _ => None
  end.

Lemma aff_spec : forall x o c, aff x = Some (o, c) ->
  has_var vW o = false /\ has_var vW c = false /\
  forall e, eval e x = eval e o + lookup e vW * eval e c.
Proof.
  induction x; intros o' c' H; cbn [aff] in H.
  - (* PVar *) destruct (negb (has_var vW (PVar v))) eqn:E.
    + inversion H; subst. apply negb_true_iff in E. repeat split; auto. intros; cbn [eval]; lia.
    + inversion H; subst. apply negb_false_iff in E. cbn [has_var] in E. apply String.eqb_eq in E. subst v.
      repeat split; auto. intros e. cbn [eval]. lia.
  - inversion H; subst. repeat split; auto. intros; cbn [eval]; lia.
  - (* PAdd *) destruct (negb (has_var vW (PAdd x1 x2))) eqn:E.
    + inversion H; subst. apply negb_true_iff in E. repeat split; auto. intros; cbn [eval]; lia.
    + destruct (aff x1) as [[oa ca]|]; [|discriminate]. destruct (aff x2) as [[ob cb]|]; [|discriminate].
      inversion H; subst. destruct (IHx1 _ _ eq_refl) as (A1 & A2 & A3). destruct (IHx2 _ _ eq_refl) as (B1 & B2 & B3).
      repeat split; [apply mkAdd_free; auto|apply mkAdd_free; auto|].
      intros e. cbn [eval]. rewrite !mkAdd_eval, A3, B3. ring.
  - (* PSub *) destruct (negb (has_var vW (PSub x1 x2))) eqn:E.
    + inversion H; subst. apply negb_true_iff in E. repeat split; auto. intros; cbn [eval]; lia.
    + destruct (aff x1) as [[oa ca]|]; [|discriminate]. destruct (aff x2) as [[ob cb]|]; [|discriminate].
      inversion H; subst. destruct (IHx1 _ _ eq_refl) as (A1 & A2 & A3). destruct (IHx2 _ _ eq_refl) as (B1 & B2 & B3).
      repeat split; [apply mkSub_free; auto|apply mkSub_free; auto|].
      intros e. cbn [eval]. rewrite !mkSub_eval, A3, B3. ring.
  - (* PMul *) destruct (negb (has_var vW (PMul x1 x2))) eqn:E.
    + inversion H; subst. apply negb_true_iff in E. repeat split; auto. intros; cbn [eval]; lia.
    + destruct (negb (has_var vW x1)) eqn:E1.
      * apply negb_true_iff in E1. destruct (aff x2) as [[ob cb]|]; [|discriminate]. inversion H; subst.
        destruct (IHx2 _ _ eq_refl) as (B1 & B2 & B3).
        repeat split; [apply mkMul_free; auto|apply mkMul_free; auto|].
        intros e. cbn [eval]. rewrite !mkMul_eval, B3. ring.
      * destruct (negb (has_var vW x2)) eqn:E2; [|discriminate].
        apply negb_true_iff in E2. destruct (aff x1) as [[oa ca]|]; [|discriminate]. inversion H; subst.
        destruct (IHx1 _ _ eq_refl) as (A1 & A2 & A3).
        repeat split; [apply mkMul_free; auto|apply mkMul_free; auto|].
        intros e. cbn [eval]. rewrite !mkMul_eval, A3. ring.
  - destruct (negb (has_var vW (PDiv x1 x2))) eqn:E; [|discriminate].
    inversion H; subst. apply negb_true_iff in E. repeat split; auto. intros; cbn [eval]; lia.
  - destruct (negb (has_var vW (PMod x1 x2))) eqn:E; [|discriminate].
    inversion H; subst. apply negb_true_iff in E. repeat split; auto. intros; cbn [eval]; lia.
  - destruct (negb (has_var vW (PMin x1 x2))) eqn:E; [|discriminate].
    inversion H; subst. apply negb_true_iff in E. repeat split; auto. intros; cbn [eval]; lia.
  - destruct (negb (has_var vW (PMax x1 x2))) eqn:E; [|discriminate].
    inversion H; subst. apply negb_true_iff in E. repeat split; auto. intros; cbn [eval]; lia.
  - destruct (negb (has_var vW (PIf o x1 x2 x3 x4))) eqn:E; [|discriminate].
    inversion H; subst. apply negb_true_iff in E. repeat split; auto. intros; cbn [eval]; lia.
Qed.

(** views *)

(** [as_clip x = Some (a, b)]: x = min a b, however it is written *)
Definition as_clip (x : pexpr) : option (pexpr * pexpr) :=
  match x with
  | PMin a b => Some (a, b)
  | PIf o a b p q =>
      match o with
      | OGt | OGe => if peqb b p && peqb a q then Some (a, b) else None   (* if a > b then b else a *)
      | OLt | OLe => if peqb a p && peqb b q then Some (a, b) else None   (* if a < b then a else b *)
      | _ => None
      end
  | _ => None
  end.

Lemma as_clip_sound x a b : as_clip x = Some (a, b) -> forall e, eval e x = Z.min (eval e a) (eval e b).
Proof.
  destruct x; cbn [as_clip]; try discriminate.
  - intros H e. inversion H; subst. reflexivity.
  - destruct o; try discriminate;
      (destruct (peqb _ x3 && peqb _ x4) eqn:E; [|discriminate]; intros H e; inversion H; subst;
       apply andb_true_iff in E; destruct E as [E1 E2];
       pose proof (peqb_sound _ _ E1 e) as P1; pose proof (peqb_sound _ _ E2 e) as P2;
       cbn [eval cmp]; rewrite <- P1, <- P2).
    + destruct (eval e a <? eval e b) eqn:C; lia.
    + destruct (eval e a <=? eval e b) eqn:C; lia.
    + destruct (eval e a >? eval e b) eqn:C; lia.
    + destruct (eval e a >=? eval e b) eqn:C; lia.
Qed.

(** [ceil_of c n = Some d]: c = ceil (d / n) for n >= 1, in any of the usual spellings *)
Definition ceil_of (c n : pexpr) : option pexpr :=
  match c with
  | PDiv (PSub (PAdd d n1) k) n2 =>          (* (d + n - 1) / n *)
      if is_c 1 k && peqb n1 n && peqb n2 n then Some d else None
  | PDiv (PAdd d (PSub n1 k)) n2 =>          (* (d + (n - 1)) / n *)
      if is_c 1 k && peqb n1 n && peqb n2 n then Some d else None
  | PAdd (PDiv (PSub d k) n1) k2 =>          (* (d - 1) / n + 1 *)
      if is_c 1 k && is_c 1 k2 && peqb n1 n then Some d else None
  | PAdd (PDiv d n1) (PIf ONe (PMod d2 n2) z p q) =>   (* d / n + (d % n != 0 ? 1 : 0) *)
      if is_c 0 z && is_c 1 p && is_c 0 q && peqb n1 n && peqb n2 n && peqb d2 d then Some d else None
  | PIf ONe (PMod d n1) z (PAdd (PDiv d2 n2) k) (PDiv d3 n3) =>   (* c := d / n; if d % n != 0 { c++ } *)
      if is_c 0 z && is_c 1 k && peqb n1 n && peqb n2 n && peqb n3 n && peqb d2 d && peqb d3 d then Some d else None
  | PIf OEq (PMod d n1) z (PDiv d2 n2) (PAdd (PDiv d3 n3) k) =>   (* if d % n == 0 { d / n } else { d / n + 1 } *)
      if is_c 0 z && is_c 1 k && peqb n1 n && peqb n2 n && peqb n3 n && peqb d2 d && peqb d3 d then Some d else None
  | _ => None
  end.

Lemma ceil_shift d n : 1 <= n -> (d - 1) / n + 1 = (d + n - 1) / n.
Proof.
  intros Hn. replace (d + n - 1) with (d - 1 + 1 * n) by ring. rewrite Z.div_add by lia. reflexivity.
Qed.
Lemma ceil_mod d n : 1 <= n -> d / n + (if negb (d mod n =? 0) then 1 else 0) = (d + n - 1) / n.
Proof.
  intros Hn. pose proof (Z.div_mod d n ltac:(lia)) as Hd. pose proof (Z.mod_pos_bound d n ltac:(lia)) as Hm.
  destruct (d mod n =? 0) eqn:E; cbn [negb].
  - apply Z.eqb_eq in E. apply Z.div_unique with (r := n - 1); lia.
  - apply Z.eqb_neq in E. apply Z.div_unique with (r := d mod n - 1); lia.
Qed.

Lemma ceil_mod' d n : 1 <= n -> (if negb (d mod n =? 0) then d / n + 1 else d / n) = (d + n - 1) / n.
Proof. intros Hn. rewrite <- (ceil_mod d n Hn). destruct (negb (d mod n =? 0)); lia. Qed.

Lemma ceil_mod'' d n : 1 <= n -> (if d mod n =? 0 then d / n else d / n + 1) = (d + n - 1) / n.
Proof. intros Hn. rewrite <- (ceil_mod d n Hn). destruct (d mod n =? 0); cbn [negb]; lia. Qed.

Lemma ceil_of_sound c n d : ceil_of c n = Some d -> forall e, 1 <= eval e n ->
  eval e c = (eval e d + eval e n - 1) / eval e n.
Proof.
  intros H e Hn. unfold ceil_of in H.
  repeat match type of H with
         | (if ?b then _ else _) = _ => destruct b eqn:?; try discriminate
         | match ?x with _ => _ end = _ => destruct x; try discriminate
         end.
  all: inversion H; subst; clear H.
  all: repeat match goal with
              | E : _ && _ = true |- _ => apply andb_true_iff in E; destruct E
              end.
  all: repeat match goal with
              | E : is_c _ _ = true |- _ => apply is_c_spec in E; subst
              end.
  all: cbn [eval cmp].
  all: repeat match goal with
              | E : peqb _ _ = true |- _ => rewrite (peqb_sound _ _ E e) in *; clear E
              end.
  all: first [reflexivity | (f_equal; lia) | (apply ceil_shift; assumption) | (apply ceil_mod; assumption) | (apply ceil_mod'; assumption) | (apply ceil_mod''; assumption)].
Qed.

(** [diff_is hi lo d]: hi - lo = d *)
Definition diff_is (hi lo d : pexpr) : bool :=
  (is_c 0 lo && peqb hi d) || peqb d (PSub hi lo) || peqb hi (PAdd lo d) ||
  match lo, d, hi with
  | PConst a, PSub x (PConst b), PSub x' (PConst c) => peqb x x' && (c =? b - a)
  | _, _, _ => false
  end.

Lemma diff_is_sound hi lo d : diff_is hi lo d = true -> forall e, eval e hi - eval e lo = eval e d.
Proof.
  unfold diff_is. intros H e. repeat (apply orb_true_iff in H; destruct H as [H|H]).
  - apply andb_true_iff in H. destruct H as [H1 H2]. apply is_c_spec in H1. subst.
    rewrite (peqb_sound _ _ H2 e). cbn. lia.
  - rewrite (peqb_sound _ _ H e). reflexivity.
  - rewrite (peqb_sound _ _ H e). cbn. lia.
  - destruct lo; try discriminate. destruct d; try discriminate. destruct d2; try discriminate.
    destruct hi; try discriminate. destruct hi2; try discriminate.
    apply andb_true_iff in H. destruct H as [H1 H2]. apply Z.eqb_eq in H2.
    cbn [eval]. rewrite (peqb_sound _ _ H1 e). lia.
Qed.

(** ** Families *)

Lemma zrange_map_ext {B} (f g : Z -> B) m : (forall k, 0 <= k < m -> f k = g k) -> map f (zrange m) = map g (zrange m).
Proof. intros H. apply map_ext_in. intros k Hk. apply zrange_In in Hk. auto. Qed.

(** clipped chunks with [break] at the first empty range *)
Lemma partition_chunks_break off hi c m :
  0 <= m -> 0 <= c -> off <= hi -> hi <= off + m * c ->
  exact_partition (take_nonempty (map (fun k => (off + k * c, zmin (off + k * c + c) hi)) (zrange m))) off hi.
Proof.
  intros Hm Hc Hoh Hcov.
  pose proof (partition_chunks off hi c m Hm Hc Hoh Hcov) as P.
  set (l := map (fun k => (off + k * c, zmin (off + k * c + c) hi)) (zrange m)) in *.
  destruct (take_nonempty_split l) as (rest & Heq & Hall).
  { intros i j Hij. unfold l in *. rewrite map_length, zrange_length in Hij.
    rewrite (nth_map_zrange _ m i) by lia. rewrite (nth_map_zrange _ m j) by lia.
    unfold empty_range; cbn [fst snd]. rewrite !zmin_spec. intros Hi.
    assert (Z.of_nat i * c <= Z.of_nat j * c) by (apply Z.mul_le_mono_nonneg_r; lia). lia. }
  rewrite Heq in P. exact (exact_partition_prefix _ _ _ _ Hall P).
Qed.

Lemma partition_prop_bounds n' total : 1 <= n' -> 0 <= total ->
  exact_partition (map (fun k => (k * total / n', (k + 1) * total / n')) (zrange n')) 0 total.
Proof.
  intros Hn Ht.
  pose proof (partition_of_bounds (fun k => k * total / n') (fun k => (k + 1) * total / n')
                (fun k => k * total / n') n' ltac:(lia)) as P.
  cbn beta in P.
  replace (0 * total / n') with 0 in P by (rewrite Z.mul_0_l; symmetry; apply Z.div_0_l; lia).
  replace (n' * total / n') with total in P by (rewrite Z.mul_comm; symmetry; apply Z.div_mul; lia).
  apply P.
  - intros k Hk. apply Z.div_le_mono; [lia|]. apply Z.mul_le_mono_nonneg_r; lia.
  - intros k i Hk. reflexivity.
Qed.

(** a certificate: the interval covered and the expression that must be non-negative *)
Record cert := mkCert { c_family : string; c_lo : pexpr; c_hi : pexpr; c_nonneg : pexpr }.

Definition is_w (x : pexpr) : bool := match x with PVar v => String.eqb vW v | _ => false end.
Definition is_w1 (x : pexpr) : bool := peqb x (PAdd (PVar vW) (PConst 1)).

(** next = start + c, both affine in #w *)
Definition is_next (x off c : pexpr) : bool :=
  match aff x with
  | Some (ox, cx) => peqb cx c && peqb ox (mkAdd off c)
  | None => false
  end.

Lemma is_next_sound x off c : is_next x off c = true ->
  forall e, eval e x = eval e off + (lookup e vW + 1) * eval e c.
Proof.
  unfold is_next. destruct (aff x) as [[ox cx]|] eqn:A; [|discriminate]. intros H e.
  apply andb_true_iff in H. destruct H as [H1 H2].
  destruct (aff_spec _ _ _ A) as (_ & _ & Hx). rewrite Hx.
  rewrite (peqb_sound _ _ H1 e), (peqb_sound _ _ H2 e), mkAdd_eval. ring.
Qed.

Definition certify_chunk (s : site) : option cert :=
  match aff (s_start s), as_clip (s_stop s) with
  | Some (off, c), Some (a, b) =>
      let pick :=
        if negb (has_var vW b) && is_next a off c then Some b
        else if negb (has_var vW a) && is_next b off c then Some a else None in
      match pick with
      | Some hi =>
          match ceil_of c (s_nw s) with
          | Some d => if diff_is hi off d && negb (has_var vW (s_nw s)) then Some (mkCert "chunk" off hi d) else None
          | None => None
          end
      | None => None
      end
  | _, _ => None
  end.

Definition certify_floor (s : site) : option cert :=
  if s_break s then None else
  match aff (s_start s), s_stop s with
  | Some (off, q), PIf OEq w last hi x =>
      match q with
      | PDiv d nn =>
          if is_w w && peqb last (PSub (s_nw s) (PConst 1)) && negb (has_var vW hi) && is_next x off q &&
             peqb nn (s_nw s) && diff_is hi off d && negb (has_var vW (s_nw s))
          then Some (mkCert "floor-last" off hi d) else None
      | _ => None
      end
  | _, _ => None
  end.

Definition certify_prop (s : site) : option cert :=
  if s_break s then None else
  match s_start s, s_stop s with
  | PDiv (PMul a b) n1, PDiv (PMul a' b') n2 =>
      let t := if is_w a then Some b else if is_w b then Some a else None in
      let t' := if is_w1 a' then Some b' else if is_w1 b' then Some a' else None in
      match t, t' with
      | Some T, Some T' =>
          if peqb T T' && negb (has_var vW T) && peqb n1 (s_nw s) && peqb n2 (s_nw s) && negb (has_var vW (s_nw s))
          then Some (mkCert "proportional" (PConst 0) T T) else None
      | _, _ => None
      end
  | _, _ => None
  end.

Definition certify (s : site) : option cert :=
  match certify_chunk s with
  | Some c => Some c
  | None => match certify_floor s with Some c => Some c | None => certify_prop s end
  end.

Section Sound.
  Variables (s : site) (e : env) (n : Z).
  Let en := (vN, n) :: e.
  Let N := eval en (s_nw s).

  Lemma nw_w k : has_var vW (s_nw s) = false -> eval ((vW, k) :: en) (s_nw s) = N.
  Proof. intros H. apply eval_free. exact H. Qed.

  Lemma certify_chunk_sound c : certify_chunk s = Some c ->
    1 <= N -> 0 <= eval en (c_nonneg c) ->
    exact_partition (site_ranges s e n) (eval en (c_lo c)) (eval en (c_hi c)).
  Proof.
    unfold certify_chunk.
    destruct (aff (s_start s)) as [[off cc]|] eqn:A; [|discriminate].
    destruct (as_clip (s_stop s)) as [[a b]|] eqn:C; [|discriminate].
    destruct (aff_spec _ _ _ A) as (Foff & Fc & Hs).
    set (pick := if negb (has_var vW b) && is_next a off cc then Some b
                 else if negb (has_var vW a) && is_next b off cc then Some a else None).
    destruct pick as [hi|] eqn:P; [|discriminate].
    destruct (ceil_of cc (s_nw s)) as [d|] eqn:Ce; [|discriminate].
    destruct (diff_is hi off d && negb (has_var vW (s_nw s))) eqn:D; [|discriminate].
    intros Hc HN Hd. inversion Hc; subst c; cbn [c_lo c_hi c_nonneg] in *. clear Hc.
    apply andb_true_iff in D. destruct D as [D Fn]. apply negb_true_iff in Fn.
    (* stop = min (start + c) hi, hi free of w *)
    assert (Hstop : has_var vW hi = false /\ forall e', eval e' (s_stop s) =
              Z.min (eval e' off + (lookup e' vW + 1) * eval e' cc) (eval e' hi)).
    { subst pick. destruct (negb (has_var vW b) && is_next a off cc) eqn:E1.
      - inversion P; subst. apply andb_true_iff in E1. destruct E1 as [E1 E2]. apply negb_true_iff in E1.
        split; [exact E1|]. intros e'. rewrite (as_clip_sound _ _ _ C), (is_next_sound _ _ _ E2). reflexivity.
      - destruct (negb (has_var vW a) && is_next b off cc) eqn:E2; [|discriminate].
        inversion P; subst. apply andb_true_iff in E2. destruct E2 as [E2 E3]. apply negb_true_iff in E2.
        split; [exact E2|]. intros e'. rewrite (as_clip_sound _ _ _ C), (is_next_sound _ _ _ E3). lia. }
    destruct Hstop as [Fhi Hstop].
    set (voff := eval en off). set (vc := eval en cc). set (vhi := eval en hi).
    pose proof (ceil_of_sound _ _ _ Ce en HN) as Hceil. fold vc N in Hceil.
    pose proof (diff_is_sound _ _ _ D en) as Hdiff. fold vhi voff in Hdiff.
    assert (Hge : eval en d <= N * vc) by (rewrite Hceil; apply ceil_mul_ge; lia).
    assert (Hc0 : 0 <= vc) by (rewrite Hceil; apply ceil_nonneg; lia).
    assert (Hraw : raw_ranges s e n =
              map (fun k => (voff + k * vc, zmin (voff + k * vc + vc) vhi)) (zrange N)).
    { unfold raw_ranges. fold en N. apply zrange_map_ext. intros k Hk. f_equal.
      - rewrite Hs. cbn [lookup]. rewrite String.eqb_refl. rewrite !eval_free by assumption. reflexivity.
      - rewrite Hstop. cbn [lookup]. rewrite String.eqb_refl. rewrite !eval_free by assumption.
        rewrite zmin_spec. fold voff vc vhi. f_equal. ring. }
    unfold site_ranges. rewrite Hraw. destruct (s_break s).
    - apply partition_chunks_break; lia.
    - apply partition_chunks; lia.
  Qed.

  Lemma certify_floor_sound c : certify_floor s = Some c ->
    1 <= N -> 0 <= eval en (c_nonneg c) ->
    exact_partition (site_ranges s e n) (eval en (c_lo c)) (eval en (c_hi c)).
  Proof.
    unfold certify_floor. destruct (s_break s) eqn:B; [discriminate|].
    destruct (aff (s_start s)) as [[off q]|] eqn:A; [|discriminate].
    destruct (s_stop s) as [| | | | | | | | |o w last hi x] eqn:St; try discriminate.
    destruct o; try discriminate. destruct q as [| | | | |d nn| | | |] eqn:Q; try discriminate.
    match goal with |- (if ?c then _ else _) = _ -> _ => destruct c eqn:E; [|discriminate] end.
    intros Hc HN Hd. inversion Hc; subst c; cbn [c_lo c_hi c_nonneg] in *. clear Hc.
    repeat (apply andb_true_iff in E; destruct E as [E ?]).
    apply negb_true_iff in H. apply negb_true_iff in H3.
    destruct (aff_spec _ _ _ A) as (Foff & Fq & Hs).
    set (voff := eval en off). set (vhi := eval en hi).
    pose proof (diff_is_sound _ _ _ H0 en) as Hdiff. fold vhi voff in Hdiff.
    assert (Hq : eval en (PDiv d nn) = (vhi - voff) / N).
    { cbn [eval]. rewrite (peqb_sound _ _ H1 en). fold N. rewrite Hdiff. reflexivity. }
    assert (Hraw : raw_ranges s e n = ranges_floor_last N voff vhi).
    { unfold raw_ranges, ranges_floor_last. fold en N. apply zrange_map_ext. intros k Hk. f_equal.
      - rewrite Hs. cbn [lookup]. rewrite String.eqb_refl. rewrite !eval_free by assumption.
        fold voff. rewrite Hq. reflexivity.
      - rewrite St. cbn [eval cmp].
        assert (Hw : eval ((vW, k) :: en) w = k).
        { destruct w; cbn [is_w] in E; try discriminate. apply String.eqb_eq in E. subst. cbn [eval lookup]. rewrite String.eqb_refl. reflexivity. }
        rewrite Hw, (peqb_sound _ _ H4 _). cbn [eval]. rewrite nw_w by assumption.
        destruct (k =? N - 1); [apply eval_free; assumption|].
        rewrite (is_next_sound _ _ _ H2). cbn [lookup]. rewrite String.eqb_refl.
        rewrite !eval_free by assumption. fold voff. rewrite Hq. ring. }
    unfold site_ranges. rewrite B, Hraw. apply partition_floor_last; lia.
  Qed.

  Lemma certify_prop_sound c : certify_prop s = Some c ->
    1 <= N -> 0 <= eval en (c_nonneg c) ->
    exact_partition (site_ranges s e n) (eval en (c_lo c)) (eval en (c_hi c)).
  Proof.
    unfold certify_prop. destruct (s_break s) eqn:B; [discriminate|].
    destruct (s_start s) as [| | | | |m1 n1| | | |] eqn:S1; try discriminate.
    destruct m1 as [| | | |a b| | | | |]; try discriminate.
    destruct (s_stop s) as [| | | | |m2 n2| | | |] eqn:S2; try discriminate.
    destruct m2 as [| | | |a' b'| | | | |]; try discriminate.
    set (t := if is_w a then Some b else if is_w b then Some a else None).
    set (t' := if is_w1 a' then Some b' else if is_w1 b' then Some a' else None).
    destruct t as [T|] eqn:Et; [|discriminate]. destruct t' as [T'|] eqn:Et'; [|discriminate].
    match goal with |- (if ?c then _ else _) = _ -> _ => destruct c eqn:E; [|discriminate] end.
    intros Hc HN Hd. inversion Hc; subst c; cbn [c_lo c_hi c_nonneg] in *. clear Hc.
    repeat (apply andb_true_iff in E; destruct E as [E ?]).
    apply negb_true_iff in H. apply negb_true_iff in H2.
    set (vT := eval en T) in *.
    assert (Hw : forall x k, is_w x = true -> eval ((vW, k) :: en) x = k).
    { intros x k Hx. destruct x; cbn [is_w] in Hx; try discriminate. apply String.eqb_eq in Hx. subst. cbn [eval lookup]. rewrite String.eqb_refl. reflexivity. }
    assert (Hw1 : forall x k, is_w1 x = true -> eval ((vW, k) :: en) x = k + 1).
    { intros x k Hx. unfold is_w1 in Hx. rewrite (peqb_sound _ _ Hx _). cbn [eval lookup]. rewrite String.eqb_refl. reflexivity. }
    assert (HT : forall k, eval ((vW, k) :: en) T = vT) by (intros; apply eval_free; assumption).
    assert (Hraw : raw_ranges s e n = map (fun k => (k * vT / N, (k + 1) * vT / N)) (zrange N)).
    { unfold raw_ranges. fold en N. apply zrange_map_ext. intros k Hk. f_equal.
      - rewrite S1. cbn [eval]. rewrite (peqb_sound _ _ H1 _), nw_w by assumption. f_equal.
        subst t. destruct (is_w a) eqn:Wa.
        + inversion Et; subst. rewrite (Hw _ _ Wa), HT. reflexivity.
        + destruct (is_w b) eqn:Wb; [|discriminate]. inversion Et; subst. rewrite (Hw _ _ Wb), HT. ring.
      - rewrite S2. cbn [eval]. rewrite (peqb_sound _ _ H0 _), nw_w by assumption. f_equal.
        subst t'. destruct (is_w1 a') eqn:Wa.
        + inversion Et'; subst. rewrite (Hw1 _ _ Wa), <- (peqb_sound _ _ E _), HT. reflexivity.
        + destruct (is_w1 b') eqn:Wb; [|discriminate]. inversion Et'; subst.
          rewrite (Hw1 _ _ Wb), <- (peqb_sound _ _ E _), HT. ring. }
    unfold site_ranges. rewrite B, Hraw. cbn [eval]. apply partition_prop_bounds; assumption.
  Qed.

  Theorem certify_sound c : certify s = Some c ->
    1 <= N -> 0 <= eval en (c_nonneg c) ->
    exact_partition (site_ranges s e n) (eval en (c_lo c)) (eval en (c_hi c)).
  Proof.
    unfold certify. destruct (certify_chunk s) eqn:A.
    - intros H; inversion H; subst. now apply certify_chunk_sound.
    - destruct (certify_floor s) eqn:B.
      + intros H; inversion H; subst. now apply certify_floor_sound.
      + now apply certify_prop_sound.
  Qed.
End Sound.

(** ** What Properties/C12.v instantiates *)

Definition kind_understood (s : site) : bool :=
  String.eqb (s_kind s) "ranges" || String.eqb (s_kind s) "workers" || String.eqb (s_kind s) "single".
Definition is_ranges (s : site) : bool := String.eqb (s_kind s) "ranges".
(** the goroutine STRUCTURE is understood (spawn loop `for w := 0; w < N; w++`, a loop over a
    collection, or a single goroutine), whatever the arithmetic of the ranges is — what C10 needs;
    kind "ranges?: ..." = spawn loop whose range arithmetic the evaluator could not express *)
Definition structure_understood (s : site) : bool :=
  String.prefix "ranges" (s_kind s) || String.eqb (s_kind s) "workers" || String.eqb (s_kind s) "single".

(** grids for the sweep: one free variable, two, more *)
Definition grid1 : list Z :=
  zrange 34 ++ [64; 100; 127; 128; 129; 255; 256; 1000; 1001; 1999; 2000; 2001; 3000; 5003; 40000].
Definition grid2 : list Z := zrange 13 ++ [33; 100; 2003].
Definition grid3 : list Z := zrange 7 ++ [17; 64].
Definition grid_for (s : site) : list Z :=
  match s_vars s with [] | [_] => grid1 | [_; _] => grid2 | _ => grid3 end.
Definition sweep_ns : list Z := map (fun k => k + 1) (zrange 12) ++ [13; 16; 17; 24; 31; 32; 40; 64].

Definition sweep_all (l : list site) : bool :=
  forallb (fun s => if is_ranges s then sweep s (grid_for s) sweep_ns else true) l.

Theorem sweep_all_sound l : sweep_all l = true ->
  forall s, In s l -> s_kind s = "ranges"%string ->
  forall vals n, length vals = length (s_vars s) -> Forall (fun z => In z (grid_for s)) vals -> In n sweep_ns ->
  let e := combine (s_vars s) vals in
  exact_partition (site_ranges s e n) (fst (domain1 s e)) (snd (domain1 s e)).
Proof.
  intros H s Hs Hk vals n Hl Hv Hn. unfold sweep_all in H. rewrite forallb_forall in H.
  specialize (H s Hs). unfold is_ranges in H. rewrite Hk in H. cbn [String.eqb] in H. rewrite !Ascii.eqb_refl in H.
  exact (sweep_sound _ _ _ H vals n Hl Hv Hn).
Qed.

(** not vacuous, and the floor-chunk defect is seen: *)
Example sweep_rejects_floor_chunks :
  let N := PIf OGt (PVar vN) (PVar "T") (PVar "T") (PVar vN) in
  let C := PDiv (PVar "T") N in
  let S := PMul (PVar vW) C in
  sweep (mkSite "" "" "ranges" N S (PMin (PAdd S C) (PVar "T")) false ["T"%string]) grid1 sweep_ns = false.
Proof. vm_compute. reflexivity. Qed.

Example certify_accepts_helper_spelling :
  let N := PIf OGt (PVar vN) (PVar "T") (PVar "T") (PVar vN) in
  let C := PAdd (PDiv (PSub (PVar "T") (PConst 1)) N) (PConst 1) in
  match certify (mkSite "" "" "ranges" N (PMul (PVar vW) C) (PMin (PMul (PAdd (PVar vW) (PConst 1)) C) (PVar "T")) false ["T"%string]) with
  | Some c => c_family c = "chunk"%string
  | None => False
  end.
Proof. vm_compute. reflexivity. Qed.
