(** C12 / C10 — proofs about the fork–join sites (models in ConcPartition.v):
    every site's ranges are an exact partition for ALL worker counts and ALL sizes,
    and a fork–join over an exact partition computes the serial result under every
    interleaving. *)
From Coq Require Import List ZArith Lia Bool Permutation.
From Coq Require Import ZifyBool ZifyNat ZifyN.
Ltac Zify.zify_post_hook ::= Z.div_mod_to_equations.
From Webp Require Import Conc.ConcPartition.
Import ListNotations.
Open Scope Z_scope.

(** [rs] is pairwise disjoint, within [lo,hi), and covers [lo,hi). *)
Definition exact_partition (rs : list range) (lo hi : Z) : Prop :=
  (forall r i, In r rs -> in_range r i -> lo <= i < hi) /\
  (forall i, lo <= i < hi -> exists r, In r rs /\ in_range r i) /\
  (forall j k i, (j < length rs)%nat -> (k < length rs)%nat ->
     in_range (nth j rs (0, 0)) i -> in_range (nth k rs (0, 0)) i -> j = k).

(** ** zrange, indices *)

Lemma zrange_length m : length (zrange m) = Z.to_nat m.
Proof. unfold zrange. now rewrite map_length, seq_length. Qed.

Lemma zrange_In m k : In k (zrange m) <-> 0 <= k < m.
Proof.
  unfold zrange. rewrite in_map_iff. split.
  - intros (j & Hj & Hin). apply in_seq in Hin. lia.
  - intros Hk. exists (Z.to_nat k). split; [lia|]. apply in_seq. lia.
Qed.

Lemma zrange_nth m j d : (j < Z.to_nat m)%nat -> nth j (zrange m) d = Z.of_nat j.
Proof.
  intros Hj. unfold zrange.
  rewrite nth_indep with (d' := Z.of_nat 0) by (rewrite map_length, seq_length; lia).
  rewrite map_nth. rewrite seq_nth by lia. reflexivity.
Qed.

Lemma nth_map_zrange {B} (F : Z -> B) m j d :
  (j < Z.to_nat m)%nat -> nth j (map F (zrange m)) d = F (Z.of_nat j).
Proof.
  intros Hj. rewrite nth_indep with (d' := F 0) by (rewrite map_length, zrange_length; lia).
  rewrite (map_nth F). rewrite zrange_nth by lia. reflexivity.
Qed.

Lemma zrange_NoDup m : NoDup (zrange m).
Proof.
  unfold zrange. apply FinFun.Injective_map_NoDup; [|apply seq_NoDup].
  intros a b Hab. lia.
Qed.

Lemma indices_In r i : In i (indices r) <-> in_range r i.
Proof.
  unfold indices, in_range. rewrite in_map_iff. split.
  - intros (k & Hk & Hin). apply in_seq in Hin. lia.
  - intros Hi. exists (Z.to_nat (i - fst r)). split; [lia|]. apply in_seq. lia.
Qed.

Lemma indices_NoDup r : NoDup (indices r).
Proof.
  unfold indices. apply FinFun.Injective_map_NoDup; [|apply seq_NoDup].
  intros a b Hab. lia.
Qed.

Lemma zmin_spec a b : zmin a b = Z.min a b.
Proof. unfold zmin. destruct (a >? b) eqn:E; lia. Qed.

Lemma clamp_lo1_spec a : clamp_lo1 a = Z.max 1 a.
Proof. unfold clamp_lo1. destruct (a <? 1) eqn:E; lia. Qed.

(** ** Partitions given by a monotone boundary function *)

Section Bounds.
  Variable b : Z -> Z.

  Lemma bounds_mono (m : nat) :
    (forall k, 0 <= k < Z.of_nat m -> b k <= b (k + 1)) ->
    forall j k, 0 <= j <= k -> k <= Z.of_nat m -> b j <= b k.
  Proof.
    intros Hm j k Hjk Hk.
    replace k with (j + Z.of_nat (Z.to_nat (k - j))) by lia.
    assert (Hle : (Z.to_nat (k - j) <= Z.to_nat (k - j))%nat) by lia.
    revert Hle. generalize (Z.to_nat (k - j)) at 1 3 as d.
    induction d as [|d IH]; intros Hd.
    - replace (j + Z.of_nat 0) with j by lia. lia.
    - specialize (IH ltac:(lia)).
      specialize (Hm (j + Z.of_nat d) ltac:(lia)).
      replace (j + Z.of_nat (S d)) with (j + Z.of_nat d + 1) by lia. lia.
  Qed.

  Lemma bounds_cover (m : nat) :
    forall i, b 0 <= i < b (Z.of_nat m) ->
    exists k, 0 <= k < Z.of_nat m /\ b k <= i < b (k + 1).
  Proof.
    induction m as [|m IH]; intros i Hi.
    - cbn in Hi. lia.
    - destruct (Z_lt_le_dec i (b (Z.of_nat m))) as [Hlt|Hge].
      + destruct (IH i ltac:(lia)) as (k & Hk & Hki). exists k. split; [lia|exact Hki].
      + exists (Z.of_nat m). split; [lia|].
        replace (Z.of_nat m + 1) with (Z.of_nat (S m)) by lia. lia.
  Qed.
End Bounds.

Lemma partition_of_bounds (s e b : Z -> Z) (m : Z) :
  0 <= m ->
  (forall k, 0 <= k < m -> b k <= b (k + 1)) ->
  (forall k i, 0 <= k < m -> (s k <= i < e k <-> b k <= i < b (k + 1))) ->
  exact_partition (map (fun k => (s k, e k)) (zrange m)) (b 0) (b m).
Proof.
  intros Hm Hmono Hse.
  assert (Hmono' : forall k, 0 <= k < Z.of_nat (Z.to_nat m) -> b k <= b (k + 1))
    by (intros; apply Hmono; lia).
  pose proof (bounds_mono b (Z.to_nat m) Hmono') as Hle.
  split; [|split].
  - intros r i Hin Hr. apply in_map_iff in Hin. destruct Hin as (k & <- & Hk).
    apply zrange_In in Hk. unfold in_range in Hr; cbn [fst snd] in Hr.
    apply Hse in Hr; [|exact Hk].
    pose proof (Hle 0 k ltac:(lia) ltac:(lia)).
    pose proof (Hle (k + 1) m ltac:(lia) ltac:(lia)). lia.
  - intros i Hi.
    destruct (bounds_cover b (Z.to_nat m) i) as (k & Hk & Hki).
    { replace (Z.of_nat (Z.to_nat m)) with m by lia. exact Hi. }
    exists (s k, e k). split.
    + apply in_map_iff. exists k. split; [reflexivity|]. apply zrange_In. lia.
    + unfold in_range; cbn [fst snd]. apply Hse; [lia|exact Hki].
  - intros j k i Hj Hk Hrj Hrk.
    rewrite map_length, zrange_length in Hj, Hk.
    rewrite nth_indep with (d' := (s 0, e 0)) in Hrj, Hrk
      by (rewrite map_length, zrange_length; lia).
    rewrite (map_nth (fun k => (s k, e k))) in Hrj, Hrk.
    rewrite zrange_nth in Hrj, Hrk by lia.
    unfold in_range in Hrj, Hrk; cbn [fst snd] in Hrj, Hrk.
    apply Hse in Hrj; [|lia]. apply Hse in Hrk; [|lia].
    destruct (Nat.lt_trichotomy j k) as [Hlt|[Heq|Hgt]]; [|exact Heq|].
    + pose proof (Hle (Z.of_nat j + 1) (Z.of_nat k) ltac:(lia) ltac:(lia)). lia.
    + pose proof (Hle (Z.of_nat k + 1) (Z.of_nat j) ltac:(lia) ltac:(lia)). lia.
Qed.

(** ** Arithmetic helpers *)

Lemma ceil_mul_ge n t : 1 <= n -> 0 <= t -> t <= n * ((t + n - 1) / n).
Proof. intros Hn Ht. pose proof (Z.div_mod (t + n - 1) n ltac:(lia)).
  pose proof (Z.mod_pos_bound (t + n - 1) n ltac:(lia)). lia. Qed.

Lemma ceil_pos n t : 1 <= n -> 1 <= t -> 1 <= (t + n - 1) / n.
Proof. intros Hn Ht. apply Z.div_le_lower_bound; lia. Qed.

Lemma ceil_nonneg n t : 1 <= n -> 0 <= t -> 0 <= (t + n - 1) / n.
Proof. intros Hn Ht. apply Z.div_pos; lia. Qed.

Lemma floor_mul_le n t : 1 <= n -> 0 <= t -> n * (t / n) <= t /\ 0 <= t / n.
Proof. intros Hn Ht. split; [apply Z.mul_div_le; lia|apply Z.div_pos; lia]. Qed.

(** ** Site theorems: exact partition for all n >= 1 and all sizes *)

(** lossy importImage, Y rows (total = padH) and UV row pairs (total = padH/2). *)
Theorem partition_exact_prop : forall n total, 1 <= n -> 0 <= total ->
  exact_partition (ranges_prop n total) 0 total.
Proof.
  intros n total Hn Ht. unfold ranges_prop. rewrite zmin_spec.
  set (n' := Z.min n total).
  destruct (Z.eq_dec total 0) as [->|Hnz].
  { assert (n' = 0) by lia. rewrite H. cbn. split; [|split].
    - intros r i [].
    - intros i Hi; lia.
    - cbn; intros; lia. }
  assert (Hn' : 1 <= n') by lia.
  pose proof (partition_of_bounds (fun k => k * total / n') (fun k => (k + 1) * total / n')
                (fun k => k * total / n') n' ltac:(lia)) as P.
  cbn beta in P.
  replace (0 * total / n') with 0 in P by (rewrite Z.mul_0_l; symmetry; apply Z.div_0_l; lia).
  replace (n' * total / n') with total in P
    by (rewrite Z.mul_comm; symmetry; apply Z.div_mul; lia).
  apply P.
  - intros k Hk. apply Z.div_le_mono; [lia|]. apply Z.mul_le_mono_nonneg_r; lia.
  - intros k i Hk. reflexivity.
Qed.

(** Generic clipped-chunk family: start = off + k*c, end = min (start+c) hi, for k < m,
    covering [off, hi) when off + m*c >= hi, c >= 0, off <= hi. *)
Lemma partition_chunks off hi c m :
  0 <= m -> 0 <= c -> off <= hi -> hi <= off + m * c ->
  exact_partition (map (fun k => (off + k * c, zmin (off + k * c + c) hi)) (zrange m)) off hi.
Proof.
  intros Hm Hc Hoh Hcov.
  pose proof (partition_of_bounds (fun k => off + k * c) (fun k => zmin (off + k * c + c) hi)
                (fun k => Z.min (off + k * c) hi) m Hm) as P.
  cbn beta in P.
  replace (Z.min (off + 0 * c) hi) with off in P by lia.
  replace (Z.min (off + m * c) hi) with hi in P by lia.
  apply P.
  - intros k Hk. replace ((k + 1) * c) with (k * c + c) by ring. lia.
  - intros k i Hk. rewrite zmin_spec. replace ((k + 1) * c) with (k * c + c) by ring. lia.
Qed.

(** lossless ResidualImage, ColorSpaceTransform (total = tile rows >= 1),
    histogramRemap (total >= 64), parallelComputeHistogramCost (total >= 256). *)
Theorem partition_exact_ceil : forall n total, 1 <= n -> 1 <= total ->
  exact_partition (ranges_ceil n total) 0 total.
Proof.
  intros n total Hn Ht. unfold ranges_ceil. rewrite zmin_spec.
  set (n' := Z.min n total). assert (Hn' : 1 <= n') by lia.
  set (c := (total + n' - 1) / n').
  pose proof (ceil_mul_ge n' total Hn' ltac:(lia)) as Hge. fold c in Hge.
  pose proof (ceil_nonneg n' total Hn' ltac:(lia)) as Hc. fold c in Hc.
  pose proof (partition_chunks 0 total c n' ltac:(lia) Hc ltac:(lia) ltac:(lia)) as P.
  erewrite map_ext; [exact P|]. intros k. cbn beta. f_equal.
Qed.

Lemma partition_floor_last n' lo hi : 1 <= n' -> lo <= hi ->
  exact_partition (ranges_floor_last n' lo hi) lo hi.
Proof.
  intros Hn Hlh. unfold ranges_floor_last. set (q := (hi - lo) / n').
  destruct (floor_mul_le n' (hi - lo) Hn ltac:(lia)) as [Hq1 Hq0]. fold q in Hq1, Hq0.
  pose proof (partition_of_bounds (fun k => lo + k * q)
                (fun k => if k =? n' - 1 then hi else lo + k * q + q)
                (fun k => if k =? n' then hi else lo + k * q) n' ltac:(lia)) as P.
  cbn beta in P.
  replace (if 0 =? n' then hi else lo + 0 * q) with lo in P
    by (destruct (0 =? n') eqn:E; lia).
  rewrite Z.eqb_refl in P.
  apply P.
  - intros k Hk. destruct (k =? n') eqn:E1; [lia|].
    destruct (k + 1 =? n') eqn:E2.
    + assert (k * q <= (n' - 1) * q) by (apply Z.mul_le_mono_nonneg_r; lia).
      replace ((n' - 1) * q) with (n' * q - q) in H by ring. lia.
    + replace ((k + 1) * q) with (k * q + q) by ring. lia.
  - intros k i Hk. destruct (k =? n') eqn:E1; [lia|].
    destruct (k =? n' - 1) eqn:E2; destruct (k + 1 =? n') eqn:E3; lia.
Qed.

(** lossless colorSpaceInverseTransformParallel (rows yend-ystart >= 1). *)
Theorem partition_exact_inv_cross_color : forall n ystart yend, 1 <= n -> ystart < yend ->
  exact_partition (ranges_inv_cross_color n ystart yend) ystart yend.
Proof.
  intros n ys ye Hn Hy. unfold ranges_inv_cross_color. rewrite zmin_spec.
  apply partition_floor_last; lia.
Qed.

(** lossless argbToNRGBA (n is not clipped to the height: with n > height every
    worker but the last gets an empty range and the last takes all rows). *)
Theorem partition_exact_argb_to_nrgba : forall n height, 1 <= n -> 0 <= height ->
  exact_partition (ranges_argb_to_nrgba n height) 0 height.
Proof. intros n h Hn Hh. apply partition_floor_last; lia. Qed.

(** lossless hashchain.fillParallel: positions [1, size-1). *)
Theorem partition_exact_hashchain : forall n size, 1 <= n -> 2 <= size ->
  exact_partition (ranges_hashchain n size) 1 (size - 1).
Proof.
  intros n size Hn Hs. unfold ranges_hashchain. rewrite clamp_lo1_spec, zmin_spec.
  set (n' := Z.max 1 (Z.min n (size / 1000))). assert (Hn' : 1 <= n') by lia.
  set (c := (size - 2 + n' - 1) / n').
  pose proof (ceil_mul_ge n' (size - 2) Hn' ltac:(lia)) as Hge. fold c in Hge.
  pose proof (ceil_nonneg n' (size - 2) Hn' ltac:(lia)) as Hc. fold c in Hc.
  exact (partition_chunks 1 (size - 1) c n' ltac:(lia) Hc ltac:(lia) ltac:(lia)).
Qed.

(** [break] at the first empty range: when emptiness is upward closed the kept
    prefix is still an exact partition. *)
Definition empty_range (r : range) : Prop := snd r <= fst r.

Lemma take_nonempty_split l :
  (forall i j, (i < j < length l)%nat -> empty_range (nth i l (0, 0)) -> empty_range (nth j l (0, 0))) ->
  exists rest, l = take_nonempty l ++ rest /\ Forall empty_range rest.
Proof.
  induction l as [|r tl IH]; intros Hup.
  - exists []. split; [reflexivity|constructor].
  - cbn [take_nonempty]. destruct (fst r >=? snd r) eqn:E.
    + exists (r :: tl). split; [reflexivity|].
      assert (Hr : empty_range r) by (unfold empty_range; lia).
      constructor; [exact Hr|]. apply Forall_forall. intros x Hx.
      destruct (In_nth _ _ (0, 0) Hx) as (j & Hj & <-).
      apply (Hup O (S j)); [cbn [length]; lia|exact Hr].
    + destruct IH as (rest & Heq & Hall).
      { intros i j Hij. apply (Hup (S i) (S j)). cbn [length]; lia. }
      exists rest. split; [cbn [app]; f_equal; exact Heq|exact Hall].
Qed.

Lemma exact_partition_prefix p rest lo hi :
  Forall empty_range rest -> exact_partition (p ++ rest) lo hi -> exact_partition p lo hi.
Proof.
  intros Hrest (Hin & Hcov & Hdis). split; [|split].
  - intros r i Hr. apply Hin. apply in_or_app. now left.
  - intros i Hi. destruct (Hcov i Hi) as (r & Hr & Hri). exists r. split; [|exact Hri].
    apply in_app_or in Hr. destruct Hr as [Hr|Hr]; [exact Hr|].
    rewrite Forall_forall in Hrest. specialize (Hrest r Hr).
    unfold empty_range in Hrest. unfold in_range in Hri. lia.
  - intros j k i Hj Hk Hrj Hrk.
    apply (Hdis j k i); try (rewrite app_length; lia); rewrite app_nth1 by lia; assumption.
Qed.

(** lossy computeAlphas (rows of macroblocks). *)
Theorem partition_exact_compute_alphas : forall n mbW mbH, 1 <= n -> 1 <= mbW -> 1 <= mbH ->
  exact_partition (ranges_compute_alphas n mbW mbH) 0 mbH.
Proof.
  intros n mbW mbH Hn Hw Hh. unfold ranges_compute_alphas.
  rewrite clamp_lo1_spec, zmin_spec. set (n' := Z.max 1 (Z.min n (mbH * mbW))).
  assert (Hn' : 1 <= n') by lia.
  destruct (n' =? 1) eqn:E1.
  { split; [|split].
    - intros r i [<-|[]] Hr. exact Hr.
    - intros i Hi. exists (0, mbH). split; [now left|exact Hi].
    - cbn [length]. intros; lia. }
  set (rpw := (mbH + n' - 1) / n').
  pose proof (ceil_mul_ge n' mbH Hn' ltac:(lia)) as Hge. fold rpw in Hge.
  pose proof (ceil_pos n' mbH Hn' Hh) as Hc. fold rpw in Hc.
  set (l := map (fun k => (k * rpw, zmin (k * rpw + rpw) mbH)) (zrange n')).
  assert (P : exact_partition l 0 mbH).
  { pose proof (partition_chunks 0 mbH rpw n' ltac:(lia) ltac:(lia) ltac:(lia) ltac:(lia)) as P.
    unfold l. erewrite map_ext; [exact P|]. intros k. cbn beta. f_equal. }
  destruct (take_nonempty_split l) as (rest & Heq & Hall).
  { intros i j Hij. unfold l in *. rewrite map_length, zrange_length in Hij.
    rewrite (nth_map_zrange _ n' i) by lia. rewrite (nth_map_zrange _ n' j) by lia.
    unfold empty_range; cbn [fst snd]. rewrite !zmin_spec.
    intros Hi.
    assert (Z.of_nat i * rpw <= Z.of_nat j * rpw) by (apply Z.mul_le_mono_nonneg_r; lia).
    lia. }
  rewrite Heq in P. exact (exact_partition_prefix _ _ _ _ Hall P).
Qed.

(** Worker counts of the dynamic (work-queue) sites. *)
Theorem workers_encode_parallel_bounds : forall n mbH, 1 <= mbH ->
  1 <= workers_encode_parallel n mbH <= 6 /\ workers_encode_parallel n mbH <= mbH.
Proof. intros n mbH Hh. unfold workers_encode_parallel. rewrite clamp_lo1_spec, !zmin_spec. lia. Qed.

Theorem workers_decode_frames_bounds : forall n items, 1 <= n -> 3 <= items ->
  1 <= workers_decode_frames n items <= items.
Proof. intros n items Hn Hi. unfold workers_decode_frames. rewrite zmin_spec. lia. Qed.

(** ** Fork–join over an exact partition = the serial loop, for every interleaving *)

Lemma upd_length {A} (l : list A) i v : length (upd l i v) = length l.
Proof. revert i; induction l as [|h tl IH]; intros [|i]; cbn; auto. Qed.

Lemma upd_nth_eq {A} (l : list A) i v d : (i < length l)%nat -> nth i (upd l i v) d = v.
Proof. revert i; induction l as [|h tl IH]; intros [|i] Hi; cbn in *; try lia; auto. apply IH; lia. Qed.

Lemma upd_nth_neq {A} (l : list A) i j v d : i <> j -> nth j (upd l i v) d = nth j l d.
Proof.
  revert i j; induction l as [|h tl IH]; intros [|i] [|j] Hij; cbn; auto; try lia.
Qed.

Lemma Shuffle_In {A} (ls : list (list A)) ops :
  Shuffle ls ops -> forall x, In x ops <-> exists l, In l ls /\ In x l.
Proof.
  induction 1 as [ls Hall|pre x l post ops HS IH]; intros y.
  - split; [intros []|]. intros (l & Hl & Hy). rewrite Forall_forall in Hall.
    rewrite (Hall l Hl) in Hy. exact Hy.
  - cbn [In]. rewrite IH. split.
    + intros [<-|(l' & Hl' & Hy)].
      * exists (x :: l). split; [apply in_or_app; right; now left|now left].
      * apply in_app_or in Hl'. destruct Hl' as [Hl'|[<-|Hl']].
        -- exists l'. split; [apply in_or_app; now left|exact Hy].
        -- exists (x :: l). split; [apply in_or_app; right; now left|now right].
        -- exists l'. split; [apply in_or_app; right; now right|exact Hy].
    + intros (l' & Hl' & Hy). apply in_app_or in Hl'. destruct Hl' as [Hl'|[<-|Hl']].
      * right. exists l'. split; [apply in_or_app; now left|exact Hy].
      * destruct Hy as [->|Hy]; [now left|]. right. exists l.
        split; [apply in_or_app; right; now left|exact Hy].
      * right. exists l'. split; [apply in_or_app; right; now right|exact Hy].
Qed.

Lemma Shuffle_Permutation {A} (ls : list (list A)) ops :
  Shuffle ls ops -> Permutation ops (concat ls).
Proof.
  induction 1 as [ls Hall|pre x l post ops HS IH].
  - induction Hall as [|l ls Hl _ IHl]; cbn; [constructor|]. subst l. exact IHl.
  - rewrite concat_app in *. cbn [concat] in *. cbn [app].
    apply Permutation_cons_app. exact IH.
Qed.

Lemma partition_ops_spec rs total ops :
  exact_partition rs 0 total -> Shuffle (map indices rs) ops ->
  forall i, In i ops <-> 0 <= i < total.
Proof.
  intros (Hin & Hcov & _) HS i. rewrite (Shuffle_In _ _ HS). split.
  - intros (l & Hl & Hi). apply in_map_iff in Hl. destruct Hl as (r & <- & Hr).
    apply indices_In in Hi. exact (Hin r i Hr Hi).
  - intros Hi. destruct (Hcov i Hi) as (r & Hr & Hri).
    exists (indices r). split; [apply in_map; exact Hr|apply indices_In; exact Hri].
Qed.

Lemma run_writes_length {A} (f : Z -> A) ops out : length (run_writes f ops out) = length out.
Proof.
  unfold run_writes. revert out. induction ops as [|i ops IH]; intros out; cbn; [reflexivity|].
  rewrite IH. apply upd_length.
Qed.

Lemma run_writes_nth {A} (f : Z -> A) d ops : forall out j,
  (forall i, In i ops -> 0 <= i) -> (j < length out)%nat ->
  nth j (run_writes f ops out) d =
    if in_dec Z.eq_dec (Z.of_nat j) ops then f (Z.of_nat j) else nth j out d.
Proof.
  induction ops as [|i ops IH] using rev_ind; intros out j Hpos Hj.
  - cbn. reflexivity.
  - unfold run_writes in *. rewrite fold_left_app. cbn [fold_left].
    assert (Hpos' : forall i0, In i0 ops -> 0 <= i0) by (intros; apply Hpos, in_or_app; now left).
    assert (Hi : 0 <= i) by (apply Hpos, in_or_app; right; now left).
    destruct (Nat.eq_dec (Z.to_nat i) j) as [Heq|Hne].
    + subst j. rewrite upd_nth_eq by (fold (run_writes f ops out); rewrite run_writes_length; exact Hj).
      destruct (in_dec Z.eq_dec (Z.of_nat (Z.to_nat i)) (ops ++ [i])) as [_|Hn]; [f_equal; lia|].
      exfalso. apply Hn. apply in_or_app. right. left. lia.
    + rewrite upd_nth_neq by exact Hne. rewrite (IH out j Hpos' Hj).
      destruct (in_dec Z.eq_dec (Z.of_nat j) ops) as [Hy|Hn];
        destruct (in_dec Z.eq_dec (Z.of_nat j) (ops ++ [i])) as [Hy'|Hn']; try reflexivity.
      * exfalso. apply Hn'. apply in_or_app. now left.
      * exfalso. apply in_app_or in Hy'. destruct Hy' as [Hy'|[Hy'|[]]]; [exact (Hn Hy')|lia].
Qed.

(** Sites whose per-item function reads only data no worker writes. *)
Theorem map_site_independent : forall (A : Type) (f : Z -> A) rs total (init : list A) ops,
  exact_partition rs 0 total -> length init = Z.to_nat total ->
  Shuffle (map indices rs) ops ->
  run_writes f ops init = map f (zrange total).
Proof.
  intros A f rs total init ops HP Hlen HS.
  pose proof (partition_ops_spec rs total ops HP HS) as Hops.
  destruct init as [|d0 init'] eqn:Einit.
  { cbn in Hlen. assert (Hz : Z.to_nat total = 0%nat) by lia.
    unfold zrange. rewrite Hz. cbn [seq map].
    assert (Hl : length (run_writes f ops []) = 0%nat) by (rewrite run_writes_length; reflexivity).
    destruct (run_writes f ops []); [reflexivity|cbn in Hl; lia]. }
  rewrite <- Einit in *. clear Einit init'.
  apply nth_ext with (d := d0) (d' := f 0).
  - rewrite run_writes_length, map_length, zrange_length. exact Hlen.
  - intros j Hj. rewrite run_writes_length in Hj.
    rewrite (run_writes_nth f d0 ops init j); [|intros i Hi; apply Hops in Hi; lia|exact Hj].
    destruct (in_dec Z.eq_dec (Z.of_nat j) ops) as [_|Hn].
    + rewrite (map_nth f). rewrite zrange_nth by lia. reflexivity.
    + exfalso. apply Hn. apply Hops. lia.
Qed.

(** NoDup of the merged item list: every item is processed exactly once. *)
Lemma NoDup_app_intro {A} (l1 l2 : list A) :
  NoDup l1 -> NoDup l2 -> (forall x, In x l1 -> ~ In x l2) -> NoDup (l1 ++ l2).
Proof.
  induction l1 as [|a l1 IH]; intros H1 H2 Hd; cbn; [exact H2|].
  inversion H1 as [|? ? Ha H1']; subst. constructor.
  - intros Hin. apply in_app_or in Hin. destruct Hin as [Hin|Hin]; [exact (Ha Hin)|].
    exact (Hd a (or_introl eq_refl) Hin).
  - apply IH; [exact H1'|exact H2|]. intros x Hx. apply Hd. now right.
Qed.

Lemma concat_indices_NoDup rs :
  (forall j k i, (j < length rs)%nat -> (k < length rs)%nat ->
     in_range (nth j rs (0, 0)) i -> in_range (nth k rs (0, 0)) i -> j = k) ->
  NoDup (concat (map indices rs)).
Proof.
  induction rs as [|r rs IH]; intros Hdis; cbn [map concat]; [constructor|].
  apply NoDup_app_intro.
  - apply indices_NoDup.
  - apply IH. intros j k i Hj Hk Hrj Hrk.
    specialize (Hdis (S j) (S k) i). cbn [length nth] in Hdis.
    specialize (Hdis ltac:(lia) ltac:(lia) Hrj Hrk). lia.
  - intros x Hx Hin. apply in_concat in Hin. destruct Hin as (l & Hl & Hxl).
    apply in_map_iff in Hl. destruct Hl as (r' & <- & Hr').
    destruct (In_nth _ _ (0, 0) Hr') as (k & Hk & Hnth).
    apply indices_In in Hx. apply indices_In in Hxl.
    specialize (Hdis O (S k) x). cbn [length nth] in Hdis. rewrite Hnth in Hdis.
    specialize (Hdis ltac:(lia) ltac:(lia) Hx Hxl). lia.
Qed.

Lemma partition_ops_NoDup rs total ops :
  exact_partition rs 0 total -> Shuffle (map indices rs) ops -> NoDup ops.
Proof.
  intros (_ & _ & Hdis) HS.
  apply (Permutation_NoDup (l := concat (map indices rs))).
  - apply Permutation_sym, Shuffle_Permutation, HS.
  - apply concat_indices_NoDup. exact Hdis.
Qed.

Lemma run_inplace_length {A} (g : Z -> A -> A) d ops st : length (run_inplace g d ops st) = length st.
Proof.
  unfold run_inplace. revert st. induction ops as [|i ops IH]; intros st; cbn; [reflexivity|].
  rewrite IH. apply upd_length.
Qed.

Lemma run_inplace_nth {A} (g : Z -> A -> A) d ops : forall st j,
  NoDup ops -> (forall i, In i ops -> 0 <= i) -> (j < length st)%nat ->
  nth j (run_inplace g d ops st) d =
    if in_dec Z.eq_dec (Z.of_nat j) ops then g (Z.of_nat j) (nth j st d) else nth j st d.
Proof.
  induction ops as [|i ops IH] using rev_ind; intros st j Hnd Hpos Hj.
  - cbn. reflexivity.
  - unfold run_inplace in *. rewrite fold_left_app. cbn [fold_left].
    assert (Hpos' : forall i0, In i0 ops -> 0 <= i0) by (intros; apply Hpos, in_or_app; now left).
    assert (Hi : 0 <= i) by (apply Hpos, in_or_app; right; now left).
    assert (Hnd' : NoDup ops).
    { pose proof (NoDup_remove_1 ops [] i Hnd) as Hx. rewrite app_nil_r in Hx. exact Hx. }
    assert (Hni : ~ In i ops).
    { apply NoDup_remove_2 with (l' := []) in Hnd. rewrite app_nil_r in Hnd. exact Hnd. }
    destruct (Nat.eq_dec (Z.to_nat i) j) as [Heq|Hne].
    + subst j. rewrite upd_nth_eq by (fold (run_inplace g d ops st); rewrite run_inplace_length; exact Hj).
      rewrite (IH st (Z.to_nat i) Hnd' Hpos' Hj).
      replace (Z.of_nat (Z.to_nat i)) with i by lia.
      destruct (in_dec Z.eq_dec i ops) as [Hy|_]; [exfalso; exact (Hni Hy)|].
      destruct (in_dec Z.eq_dec i (ops ++ [i])) as [_|Hn]; [reflexivity|].
      exfalso. apply Hn. apply in_or_app. right. now left.
    + rewrite upd_nth_neq by exact Hne. rewrite (IH st j Hnd' Hpos' Hj).
      destruct (in_dec Z.eq_dec (Z.of_nat j) ops) as [Hy|Hn];
        destruct (in_dec Z.eq_dec (Z.of_nat j) (ops ++ [i])) as [Hy'|Hn']; try reflexivity.
      * exfalso. apply Hn'. apply in_or_app. now left.
      * exfalso. apply in_app_or in Hy'. destruct Hy' as [Hy'|[Hy'|[]]]; [exact (Hn Hy')|lia].
Qed.

(** Sites whose items transform their own cell in place (forward cross-colour per
    tile): disjointness is what makes each cell transformed exactly once. *)
Theorem inplace_site_independent : forall (A : Type) (g : Z -> A -> A) (d : A) rs total st ops,
  exact_partition rs 0 total -> length st = Z.to_nat total ->
  Shuffle (map indices rs) ops ->
  run_inplace g d ops st = map (fun i => g i (nth (Z.to_nat i) st d)) (zrange total).
Proof.
  intros A g d rs total st ops HP Hlen HS.
  pose proof (partition_ops_spec rs total ops HP HS) as Hops.
  pose proof (partition_ops_NoDup rs total ops HP HS) as Hnd.
  apply nth_ext with (d := d) (d' := g 0 (nth (Z.to_nat 0) st d)).
  - rewrite run_inplace_length, map_length, zrange_length. exact Hlen.
  - intros j Hj. rewrite run_inplace_length in Hj.
    rewrite (run_inplace_nth g d ops st j Hnd); [|intros i Hi; apply Hops in Hi; lia|exact Hj].
    destruct (in_dec Z.eq_dec (Z.of_nat j) ops) as [_|Hn].
    + rewrite (map_nth (fun i => g i (nth (Z.to_nat i) st d))). rewrite zrange_nth by lia.
      rewrite Nat2Z.id. reflexivity.
    + exfalso. apply Hn. apply Hops. lia.
Qed.

(** Integer accumulation (computeAlphas: each worker adds its local sum atomically,
    in completion order = any permutation of the workers). *)
Lemma sum_list_acc l a : fold_left Z.add l a = a + sum_list l.
Proof.
  unfold sum_list. revert a. induction l as [|x l IH]; intros a; cbn [fold_left]; [lia|].
  rewrite (IH (a + x)). rewrite (IH (0 + x)). lia.
Qed.

Lemma sum_list_cons x l : sum_list (x :: l) = x + sum_list l.
Proof. unfold sum_list at 1. cbn. rewrite sum_list_acc. lia. Qed.

Lemma sum_list_app l1 l2 : sum_list (l1 ++ l2) = sum_list l1 + sum_list l2.
Proof. induction l1 as [|x l1 IH]; cbn [app]; [unfold sum_list at 2; cbn; lia|].
  rewrite !sum_list_cons, IH. lia. Qed.

Lemma sum_list_perm l1 l2 : Permutation l1 l2 -> sum_list l1 = sum_list l2.
Proof. induction 1; rewrite ?sum_list_cons; lia. Qed.

Lemma sum_list_concat_map (h : Z -> Z) (ls : list (list Z)) :
  sum_list (map (fun l => sum_list (map h l)) ls) = sum_list (map h (concat ls)).
Proof.
  induction ls as [|l ls IH]; cbn [map concat]; [reflexivity|].
  rewrite sum_list_cons, map_app, sum_list_app, IH. reflexivity.
Qed.

Theorem sum_site_independent : forall (h : Z -> Z) rs total order,
  exact_partition rs 0 total -> Permutation order rs ->
  sum_list (map (fun r => sum_list (map h (indices r))) order) = sum_list (map h (zrange total)).
Proof.
  intros h rs total order HP Hperm.
  rewrite (sum_list_perm _ (map (fun r => sum_list (map h (indices r))) rs))
    by (apply Permutation_map; exact Hperm).
  replace (map (fun r => sum_list (map h (indices r))) rs)
    with (map (fun l => sum_list (map h l)) (map indices rs)) by (rewrite map_map; reflexivity).
  rewrite sum_list_concat_map. apply sum_list_perm, Permutation_map.
  destruct HP as (Hin & Hcov & Hdis).
  apply NoDup_Permutation.
  - apply concat_indices_NoDup, Hdis.
  - apply zrange_NoDup.
  - intros i. rewrite zrange_In, in_concat. split.
    + intros (l & Hl & Hi). apply in_map_iff in Hl. destruct Hl as (r & <- & Hr).
      apply indices_In in Hi. exact (Hin r i Hr Hi).
    + intros Hi. destruct (Hcov i Hi) as (r & Hr & Hri). exists (indices r).
      split; [apply in_map; exact Hr|apply indices_In; exact Hri].
Qed.

(** Work-queue sites (animation.DecodeFramesParallel: a channel of frame indices
    drained by min n items workers; each item is taken by exactly one worker, in any
    order, and its result stored in its own slot): any order of the items gives the
    serial result. *)
Theorem queue_site_independent : forall (A : Type) (f : Z -> A) total (init : list A) ops,
  Permutation ops (zrange total) -> length init = Z.to_nat total ->
  run_writes f ops init = map f (zrange total).
Proof.
  intros A f total init ops Hperm Hlen.
  assert (Hops : forall i, In i ops <-> 0 <= i < total).
  { intros i. rewrite <- zrange_In. split; intros H.
    - eapply Permutation_in; eauto.
    - eapply Permutation_in; [apply Permutation_sym; eauto|exact H]. }
  destruct init as [|d0 init'] eqn:Einit.
  { cbn in Hlen. assert (Hz : Z.to_nat total = 0%nat) by lia.
    unfold zrange. rewrite Hz. cbn [seq map].
    assert (Hl : length (run_writes f ops []) = 0%nat) by (rewrite run_writes_length; reflexivity).
    destruct (run_writes f ops []); [reflexivity|cbn in Hl; lia]. }
  rewrite <- Einit in *. clear Einit init'.
  apply nth_ext with (d := d0) (d' := f 0).
  - rewrite run_writes_length, map_length, zrange_length. exact Hlen.
  - intros j Hj. rewrite run_writes_length in Hj.
    rewrite (run_writes_nth f d0 ops init j); [|intros i Hi; apply Hops in Hi; lia|exact Hj].
    destruct (in_dec Z.eq_dec (Z.of_nat j) ops) as [_|Hn].
    + rewrite (map_nth f). rewrite zrange_nth by lia. reflexivity.
    + exfalso. apply Hn. apply Hops. lia.
Qed.

(** C10's name for the same facts: a fork–join section whose goroutines write
    disjoint cells and are joined before the result is read is deterministic — its
    result does not depend on the interleaving, the number of workers or the
    partition. *)
Theorem forkjoin_deterministic : forall (A : Type) (f : Z -> A) total (init : list A) rs1 rs2 ops1 ops2,
  exact_partition rs1 0 total -> exact_partition rs2 0 total -> length init = Z.to_nat total ->
  Shuffle (map indices rs1) ops1 -> Shuffle (map indices rs2) ops2 ->
  run_writes f ops1 init = run_writes f ops2 init.
Proof.
  intros A f total init rs1 rs2 ops1 ops2 H1 H2 Hl S1 S2.
  rewrite (map_site_independent A f rs1 total init ops1 H1 Hl S1).
  rewrite (map_site_independent A f rs2 total init ops2 H2 Hl S2). reflexivity.
Qed.

(** [is_tiling] is sound: ranges that pass it are an exact partition. *)
Lemma tiles_from_spec rs : forall cur hi, cur <= hi -> tiles_from rs cur hi = true ->
  (forall r i, In r rs -> in_range r i -> cur <= i < hi) /\
  (forall i, cur <= i < hi -> exists r, In r rs /\ in_range r i) /\
  (forall j k i, (j < length rs)%nat -> (k < length rs)%nat ->
     in_range (nth j rs (0, 0)) i -> in_range (nth k rs (0, 0)) i -> j = k).
Proof.
  induction rs as [|r tl IH]; intros cur hi Hle H; cbn [tiles_from] in H.
  - apply Z.eqb_eq in H. subst. split; [intros r i []|]. split; [intros i Hi; lia|cbn; intros; lia].
  - destruct (snd r <=? fst r) eqn:Eemp.
    + apply Z.leb_le in Eemp. destruct (IH cur hi Hle H) as (A & B & C). split; [|split].
      * intros r0 i [<-|Hin] Hr; [unfold in_range in Hr; lia|exact (A r0 i Hin Hr)].
      * intros i Hi. destruct (B i Hi) as (r0 & Hin & Hr). exists r0. split; [now right|exact Hr].
      * intros [|j] [|k] i Hj Hk Hrj Hrk; cbn [nth length] in *; try reflexivity;
          try (unfold in_range in *; lia). f_equal. apply (C j k i); try lia; assumption.
    + apply Z.leb_gt in Eemp. apply andb_true_iff in H. destruct H as [H H3]. apply andb_true_iff in H. destruct H as [H1 H2].
      apply Z.eqb_eq in H1. apply Z.leb_le in H2. destruct (IH (snd r) hi H2 H3) as (A & B & C). split; [|split].
      * intros r0 i [<-|Hin] Hr; [unfold in_range in Hr; lia|pose proof (A r0 i Hin Hr); lia].
      * intros i Hi. destruct (Z_lt_le_dec i (snd r)) as [Hlt|Hge].
        -- exists r. split; [now left|unfold in_range; lia].
        -- destruct (B i ltac:(lia)) as (r0 & Hin & Hr). exists r0. split; [now right|exact Hr].
      * intros [|j] [|k] i Hj Hk Hrj Hrk; cbn [nth length] in *; try reflexivity.
        -- exfalso. assert (Hin : In (nth k tl (0, 0)) tl) by (apply nth_In; lia).
           pose proof (A _ i Hin Hrk). unfold in_range in Hrj. lia.
        -- exfalso. assert (Hin : In (nth j tl (0, 0)) tl) by (apply nth_In; lia).
           pose proof (A _ i Hin Hrj). unfold in_range in Hrk. lia.
        -- f_equal. apply (C j k i); try lia; assumption.
Qed.

Theorem is_tiling_sound : forall rs lo hi, is_tiling rs lo hi = true -> exact_partition rs lo hi.
Proof.
  intros rs lo hi H. unfold is_tiling in H. apply andb_true_iff in H. destruct H as [H1 H2]. apply Z.leb_le in H1.
  exact (tiles_from_spec rs lo hi H1 H2).
Qed.

(** and the modelled formulas pass it (so the check is not stricter than the models) *)
Example tiling_examples :
  is_tiling (ranges_ceil 7 10) 0 10 = true /\ is_tiling (ranges_prop 5 176) 0 176 = true /\
  is_tiling (ranges_argb_to_nrgba 5 3) 0 3 = true /\ is_tiling (ranges_hashchain 4 160000) 1 159999 = true /\
  is_tiling (ranges_compute_alphas 7 4 10) 0 10 = true /\ is_tiling [(0, 3); (4, 10)] 0 10 = false.
Proof. vm_compute. repeat split. Qed.

(** The hypotheses are satisfiable by non-trivial values: 5 workers over 13 tile
    rows (remainder, one clipped range), writes interleaved in reverse spawn order. *)
Example ranges_ceil_5_13 : ranges_ceil 5 13 = [(0, 3); (3, 6); (6, 9); (9, 12); (12, 13)].
Proof. reflexivity. Qed.
Example ranges_ceil_7_10 :
  ranges_ceil 7 10 = [(0, 2); (2, 4); (4, 6); (6, 8); (8, 10); (10, 10); (12, 10)].
Proof. reflexivity. Qed.
Example ranges_argb_5_3 : ranges_argb_to_nrgba 5 3 = [(0, 0); (0, 0); (0, 0); (0, 0); (0, 3)].
Proof. reflexivity. Qed.
Example ranges_alphas_break : ranges_compute_alphas 7 4 10 = [(0, 2); (2, 4); (4, 6); (6, 8); (8, 10)].
Proof. reflexivity. Qed.
Example shuffle_example : Shuffle (map indices [(0, 2); (2, 3)]) [2; 0; 1].
Proof.
  cbn. apply (Shuffle_pick [[0; 1]] 2 [] []). apply (Shuffle_pick [] 0 [1] [[]]).
  apply (Shuffle_pick [] 1 [] [[]]). constructor. repeat constructor.
Qed.

(** ** Algorithm choice: which algorithm runs never depends on the CPU count *)

Definition algorithm_choice_independent : Prop :=
  forall n1 n2, 1 <= n1 -> 1 <= n2 ->
    (forall size lowEffort, hashchain_uses_parallel n1 size lowEffort = hashchain_uses_parallel n2 size lowEffort) /\
    (forall mbH method doSearch, encodeframe_uses_parallel n1 mbH method doSearch = encodeframe_uses_parallel n2 mbH method doSearch).

Theorem algorithm_choice_independent_holds : algorithm_choice_independent.
Proof. intros n1 n2 _ _. split; intros; reflexivity. Qed.

Theorem algorithm_choice_is_by_size_and_method : forall n,
  (forall size lowEffort, hashchain_uses_parallel n size lowEffort = hashchain_uses_parallel_fixed size lowEffort) /\
  (forall mbH method doSearch, encodeframe_uses_parallel n mbH method doSearch = encodeframe_uses_parallel_fixed mbH method doSearch).
Proof. intros n. split; intros; reflexivity. Qed.
